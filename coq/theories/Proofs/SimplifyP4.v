(* C06, part 4: one builder step.  For every step x and every prefix p, the pipeline the builder returns (Model/Simplify.build_step:
   order_rows skipped, select_columns collapsed, extends merged, nothing-to-do exits) denotes the table obtained by applying x to
   the MATERIALISED result of the prefix (apply_sem) -- the same column set and the same rows as a multiset (tab_sim), provided
   x is not sensitive to the row order of its input (C18's premise, step_insensitive) and is a step the builder validated
   (step_valid), on a prefix the builder built (prefix_ok). *)
From Coq Require Import List Bool Arith String Lia Permutation.
Import ListNotations.
From DA Require Import Base.PyRT Base.Val Model.Sem Model.PermGuard Model.Extend Model.MergeGuard Model.Simplify Gen.G_MergeOps
  Proofs.MergeOpsP Proofs.MergeGuardP Proofs.SemBasicP Proofs.SemOrderP Proofs.PermP2 Proofs.PermP3 Proofs.PermP4 Proofs.ComposeP5
  Proofs.SimplifyP1 Proofs.SimplifyP2 Proofs.SimplifyP3.
Local Open Scope list_scope.

(* ------------------------------------------------------------------ the unsimplified call is the step on the materialised prefix *)
Lemma sem_unsimplified iw fl e p x : sem_gen fl (build_unsimplified iw p x) e = obind (sem_gen fl p e) (apply_sem iw fl e x).
Proof.
  destruct x; cbn [build_unsimplified mk_extend sem_gen apply_sem]; destruct (sem_gen fl p e) as [t|]; cbn [obind option_map]; try reflexivity.
  cbn [apply_sem]. match goal with |- context[if ?c then _ else _] => destruct c end; reflexivity.
Qed.

Lemma run_steps_none iw fl e xs : run_steps iw fl e None xs = None.
Proof. induction xs as [|x t IH]; [reflexivity|exact IH]. Qed.

Lemma sem_build_plain iw fl e xs : forall p, sem_gen fl (build_plain iw p xs) e = run_steps iw fl e (sem_gen fl p e) xs.
Proof.
  induction xs as [|x t IH]; intros p; [reflexivity|]. cbn [build_plain run_steps fold_left].
  change (fold_left (build_unsimplified iw) t (build_unsimplified iw p x)) with (build_plain iw (build_unsimplified iw p x) t).
  rewrite IH, sem_unsimplified. reflexivity.
Qed.

(* ------------------------------------------------------------------ the window bookkeeping of a merged node *)
Definition iwp (iw : list string) (e : expr) : bool := match e with EOp o _ => mem o iw | _ => false end.
Lemma implies_values iw ops : implies iw ops = implies_windowed (iwp iw) ops.
Proof. unfold implies, implies_windowed, dict_values. induction ops as [|ke t IH]; simpl; [reflexivity|]. rewrite IH. reflexivity. Qed.

Lemma merged_node_same iw (o1 o2 m : list (string * expr)) a self :
  NoDup (map fst o1) -> NoDup (map fst o2) -> try_to_merge_ops gcu o1 o2 = Some m ->
  merge_guard (implies iw o2) a self = true -> (implies iw o1 = true -> n_windowed self = true) ->
  node_of (implies iw o2) a = self /\ node_of (implies iw m) a = self.
Proof.
  intros N1 N2 H G C. pose proof (guard_same_window _ _ _ G) as S. split; [exact S|].
  destruct (merge_implies cols_used (iwp iw) o1 o2 m N1 N2 H) as [Up Down]. rewrite <- !implies_values in Up, Down.
  rewrite <- S. unfold node_of. f_equal.
  destruct (implies iw m) eqn:Im, (implies iw o2) eqn:I2; try reflexivity.
  - destruct (Down eq_refl) as [I1|I1]; [|rewrite <- implies_values, I2 in I1; discriminate I1]. specialize (C I1). rewrite <- S in C. cbn [n_windowed node_of] in C.
    cbn [orb] in *. rewrite C. reflexivity.
  - discriminate (Up eq_refl).
Qed.

Lemma mkwin_eta w : mkwin (w_part w) (w_order w) (w_rev w) = w.
Proof. destruct w; reflexivity. Qed.

(* ------------------------------------------------------------------ the prefix invariant (depends on iw through the windowed flag) *)
Fixpoint prefix_ok (iw : list string) (p : op) : Prop :=
  match p with
  | OTable _ _ => True
  | OExtend s ops wd w =>
      NoDup (map fst ops) /\ (forall k, In k (map fst ops) -> ~ In k (w_part w ++ w_order w)) /\ (implies iw ops = true -> wd = true) /\ prefix_ok iw s
  | OSelectCols s cs => (forall c, In c cs -> In c (column_names s)) /\ prefix_ok iw s
  | OProject s _ _ | OSelectRows s _ | ODropCols s _ | ORename s _ | OMapCols s _ _ | OOrder s _ _ _ => prefix_ok iw s
  | OJoin a _ _ _ _ | OConcat a _ _ _ _ => prefix_ok iw a
  end.

(* ------------------------------------------------------------------ nothing-to-do exits *)
Lemma map_snd_tag_from (rs : list (list val)) : forall n, map snd (tag_from n rs) = rs.
Proof. induction rs as [|r t IH]; intros n; simpl; [reflexivity|]. rewrite IH. reflexivity. Qed.
Lemma table_eta t : mktable (cols t) (rows t) = t.
Proof. destruct t; reflexivity. Qed.

Lemma extend_nil fl t : sem_extend fl [] t = t.
Proof. unfold sem_extend, extend_row. cbn [map fst fold_left ext_cols]. rewrite map_id. apply table_eta. Qed.
Lemma wextend_nil fl w t : sem_wextend fl [] w t = t.
Proof.
  unfold sem_wextend. cbn [map fst fold_left ext_cols].
  rewrite (map_ext (fun ir : nat * list val => fst (snd ir, cols t)) snd) by reflexivity. rewrite map_snd_tag_from. apply table_eta.
Qed.
Lemma filter_all {A} (f : A -> bool) l : (forall x, f x = true) -> filter f l = l.
Proof. intros H. induction l as [|a t IH]; simpl; [reflexivity|]. rewrite H, IH. reflexivity. Qed.
Lemma drop_nil_eqv t : tab_eqv t (sem_drop_cols [] t).
Proof. unfold sem_drop_cols. rewrite filter_all by reflexivity. apply select_all_eqv, same_set_refl. Qed.
Lemma rename_nil t : sem_rename [] t = t.
Proof. unfold sem_rename. rewrite (map_ext (rename_col []) (fun c => c)) by reflexivity. rewrite map_id. apply table_eta. Qed.
Lemma stable_sort_trivial {A} (le : A -> A -> bool) l : (forall a b, le a b = true) -> stable_sort le l = l.
Proof. intros H. induction l as [|a t IH]; simpl; [reflexivity|]. rewrite IH. destruct t; simpl; [reflexivity|]. rewrite H. reflexivity. Qed.
Lemma order_nil fl rev t : sem_order fl [] rev None t = t.
Proof. unfold sem_order. cbn [map]. rewrite stable_sort_trivial by reflexivity. apply table_eta. Qed.

(* ------------------------------------------------------------------ builders that only skip *)
Ltac skip_other :=
  let p := fresh "p" in let H := fresh "H" in
  intros p H; destruct p; try reflexivity;
  match goal with lim : option nat |- _ => destruct lim; [reflexivity|exfalso; eapply H; reflexivity] end.

Section OneStep.
  Variables (iw : list string) (fl : flavor) (e : env) (r : table).
  Hypothesis Wr : width_ok r.

  (* the prefix denotes a table equivalent to r *)
  Definition denotes (p : op) : Prop := exists t, sem_gen fl p e = Some t /\ tab_sim t r.
  Lemma denotes_source s cs rev : denotes (OOrder s cs rev None) -> denotes s.
  Proof. apply sim_under_order. Qed.
  Lemma denotes_width p t : sem_gen fl p e = Some t -> width_ok t.
  Proof. apply sem_rows_width. Qed.

  Lemma skip_sound (bld node : op -> op) (target : option table) :
    (forall s cs rev, bld (OOrder s cs rev None) = bld s) ->
    (forall p, (forall s cs rev, p <> OOrder s cs rev None) -> bld p = node p) ->
    (forall p, denotes p -> otab_sim (sem_gen fl (node p) e) target) ->
    forall p, denotes p -> otab_sim (sem_gen fl (bld p) e) target.
  Proof. intros B1 B2 N. apply (skip_ind bld node B1 B2 denotes (fun q => otab_sim (sem_gen fl q e) target) denotes_source N). Qed.

  Lemma project_sound ops gb p : keys_exact (cols r) gb (rows r) -> denotes p ->
    otab_sim (sem_gen fl (build_project p ops gb) e) (Some (sem_project fl ops gb r)).
  Proof.
    intros X. apply (skip_sound (fun p => build_project p ops gb) (fun p => OProject p ops gb)); [reflexivity|skip_other|].
    intros q [t [E S]]. cbn [sem_gen]. rewrite E. cbn [option_map otab_sim]. apply sim_project; assumption.
  Qed.

  Lemma select_rows_sound x p : denotes p -> otab_sim (sem_gen fl (build_select_rows p x) e) (Some (sem_select_rows fl x r)).
  Proof.
    apply (skip_sound (fun p => build_select_rows p x) (fun p => OSelectRows p x)); [reflexivity|skip_other|].
    intros q [t [E S]]. cbn [sem_gen]. rewrite E. cbn [option_map otab_sim]. apply sim_select_rows, S.
  Qed.

  Lemma drop_cols_sound ds p : denotes p -> otab_sim (sem_gen fl (build_drop_cols p ds) e) (Some (sem_drop_cols ds r)).
  Proof.
    apply (skip_sound (fun p => build_drop_cols p ds) (fun p => ODropCols p ds)); [reflexivity|skip_other|].
    intros q [t [E S]]. cbn [sem_gen]. rewrite E. cbn [option_map otab_sim]. apply sim_drop_cols, S.
  Qed.

  Lemma rename_sound m p : inj_on (rename_col m) (cols r) -> denotes p -> otab_sim (sem_gen fl (build_rename p m) e) (Some (sem_rename m r)).
  Proof.
    intros J. apply (skip_sound (fun p => build_rename p m) (fun p => ORename p m)); [reflexivity|skip_other|].
    intros q [t [E S]]. cbn [sem_gen]. rewrite E. cbn [option_map otab_sim]. apply sim_rename; assumption.
  Qed.

  Lemma map_sound m p : inj_on (rename_col (map_remap m)) (cols r) -> denotes p ->
    otab_sim (sem_gen fl (build_map p m) e) (Some (sem_drop_cols (map_dels m) (sem_rename (map_remap m) r))).
  Proof.
    intros J. apply (skip_sound (fun p => build_map p m) (fun p => OMapCols p (map_remap m) (map_dels m))); [reflexivity|skip_other|].
    intros q [t [E S]]. cbn [sem_gen]. rewrite E. cbn [option_map otab_sim]. apply sim_drop_cols, sim_rename; assumption.
  Qed.

  Lemma order_sound cs rev lim p : (lim <> None -> total_on fl (cols r) (map (fun c => (c, mem c rev)) cs) (rows r)) -> denotes p ->
    otab_sim (sem_gen fl (build_order p cs rev lim) e) (Some (sem_order fl cs rev lim r)).
  Proof.
    intros G. apply (skip_sound (fun p => build_order p cs rev lim) (fun p => OOrder p cs rev lim)); [reflexivity|skip_other|].
    intros q [t [E S]]. cbn [sem_gen]. rewrite E. cbn [option_map otab_sim]. apply sim_order; assumption.
  Qed.

  (* a TOTAL order_rows: the same rows in the same order *)
  Lemma order_sound_total cs rev lim p : total_on fl (cols r) (map (fun c => (c, mem c rev)) cs) (rows r) -> denotes p ->
    otab_eqv (sem_gen fl (build_order p cs rev lim) e) (Some (sem_order fl cs rev lim r)).
  Proof.
    intros G. apply (skip_ind (fun p => build_order p cs rev lim) (fun p => OOrder p cs rev lim)
                       (fun _ _ _ => eq_refl) ltac:(skip_other) denotes
                       (fun q => otab_eqv (sem_gen fl q e) (Some (sem_order fl cs rev lim r))) denotes_source).
    intros q [t [E S]]. cbn [sem_gen]. rewrite E. cbn [option_map otab_eqv]. apply sim_order_total; assumption.
  Qed.

  Lemma join_sound b on_a on_b jt p : denotes p ->
    otab_sim (sem_gen fl (build_join p b on_a on_b jt) e) (apply_sem iw fl e (SJoin b on_a on_b jt) r).
  Proof.
    apply (skip_sound (fun p => build_join p b on_a on_b jt) (fun p => OJoin p b on_a on_b jt)); [reflexivity|skip_other|].
    intros q [t [E S]]. cbn [sem_gen apply_sem]. rewrite E. destruct (sem_gen fl b e); [apply sim_join, S|exact I].
  Qed.

  Lemma concat_sound b idc an bn p : denotes p ->
    otab_sim (sem_gen fl (build_concat p b idc an bn) e) (apply_sem iw fl e (SConcat b idc an bn) r).
  Proof.
    apply (skip_sound (fun p => build_concat p b idc an bn) (fun p => OConcat p b idc an bn)); [reflexivity|skip_other|].
    intros q [t [E S]]. cbn [sem_gen apply_sem]. rewrite E. destruct (sem_gen fl b e); [|exact I].
    apply sim_concat; [eapply denotes_width, E|exact Wr|exact S].
  Qed.

  (* ---------------------------------------------------------------- select_columns *)
  Lemma select_plain_sound cs q : denotes q -> otab_sim (sem_gen fl (OSelectCols q cs) e) (Some (sem_select_cols cs r)).
  Proof. intros [t [E S]]. cbn [sem_gen]. rewrite E. cbn [option_map otab_sim]. apply sim_select_cols, S. Qed.

  Lemma mk_select_sem q cs : sem_gen fl (mk_select q cs) e = sem_gen fl (OSelectCols q cs) e \/ exists s cs1, q = OSelectCols s cs1.
  Proof. destruct q; try (left; reflexivity). right. eexists. eexists. reflexivity. Qed.

  Lemma select_cols_sound cs tup : forall p r0, width_ok r0 -> (forall c, In c cs -> In c (cols r0)) -> prefix_ok iw p ->
    (exists t, sem_gen fl p e = Some t /\ tab_sim t r0) ->
    otab_sim (sem_gen fl (build_select_cols p cs tup) e) (Some (sem_select_cols cs r0)).
  Proof.
    assert (forall p r0, (exists t, sem_gen fl p e = Some t /\ tab_sim t r0) -> otab_sim (sem_gen fl (OSelectCols p cs) e) (Some (sem_select_cols cs r0))) as Plain.
    { intros p r0 [t [E S]]. cbn [sem_gen]. rewrite E. cbn [option_map otab_sim]. apply sim_select_cols, S. }
    assert (forall p r0, (forall c, In c cs -> In c (cols r0)) -> (exists t, sem_gen fl p e = Some t /\ tab_sim t r0) ->
            eqb cs (declared_names p) = true -> otab_sim (sem_gen fl p e) (Some (sem_select_cols cs r0))) as Noop.
    { intros p r0 Sub [t [E S]] Q. apply (proj1 (eqb_true _ _)) in Q. rewrite E. cbn [otab_sim].
      eapply tab_sim_trans; [|apply sim_select_cols, S]. apply tab_sim_of_eqv, select_all_eqv.
      rewrite Q, (sem_cols _ _ _ _ E). apply declared_names_same_set. }
    induction p as [n cs0|s IH ops wd w|s IH ops gb|s IH x|s IH cs1|s IH ds|s IH m|s IH m dels|s IH cs0 rev lim|a IHa b IHb on_a on_b jt|a IHa b IHb idc an bn];
      intros r0 W0 Sub OK D; cbn [build_select_cols];
      (destruct (tup && eqb cs (declared_names _)) eqn:Q; [apply andb_true_iff in Q; destruct Q as [_ Q]; apply (Noop _ r0 Sub D Q)|]); clear Q;
      try (cbn [mk_select]; apply Plain, D).
    - (* select over select *)
      destruct D as [t [E S]]. cbn [sem_gen] in E. destruct (sem_gen fl s e) as [t0|] eqn:E0; [|discriminate]. cbn [option_map] in E. inversion E; subst t.
      destruct OK as [Sub1 OK]. pose proof (tab_sim_cols _ _ S) as Sc. cbn [cols sem_select_cols] in Sc.
      assert (forall c, In c cs -> In c cs1) as In1 by (intros c Ic; apply Sc, Sub, Ic).
      eapply otab_sim_trans.
      + apply (IH t0); [eapply sem_rows_width, E0| |exact OK|exists t0; split; [reflexivity|apply tab_sim_refl]].
        intros c Ic. rewrite (sem_cols _ _ _ _ E0). apply Sub1, In1, Ic.
      + cbn [otab_sim]. rewrite <- (select_select cs1 cs t0 In1). apply sim_select_cols, S.
    - (* select over drop *)
      destruct D as [t [E S]]. cbn [sem_gen] in E. destruct (sem_gen fl s e) as [t0|] eqn:E0; [|discriminate]. cbn [option_map] in E. inversion E; subst t.
      pose proof (tab_sim_cols _ _ S) as Sc. unfold sem_drop_cols in Sc. cbn [cols sem_select_cols] in Sc.
      assert (forall c, In c cs -> In c (cols t0) /\ ~ In c ds) as In1.
      { intros c Ic. apply Sub, Sc, filter_In in Ic. destruct Ic as [I1 I2]. apply negb_true_iff, mem_false in I2. tauto. }
      eapply otab_sim_trans.
      + apply (IH t0); [eapply sem_rows_width, E0| |exact OK|exists t0; split; [reflexivity|apply tab_sim_refl]].
        intros c Ic. apply In1, Ic.
      + cbn [otab_sim]. rewrite <- (select_drop ds cs t0) by (intros c Ic _; apply In1, Ic). apply sim_select_cols, S.
    - (* order_rows *)
      destruct lim as [n|]; [cbn [mk_select]; apply Plain, D|].
      apply IH; [exact W0|exact Sub|exact OK|eapply sim_under_order, D].
  Qed.

  (* ---------------------------------------------------------------- extend *)
  Section ExtendStep.
    Variables (ops : list (string * expr)) (a : wargs).
    Let n := node_of (implies iw ops) a.
    Let w := mkwin (n_part n) (n_order n) (n_rev n).
    Let target := Some (if n_windowed n then sem_wextend fl ops w r else sem_extend fl ops r).
    Hypothesis Nk : NoDup (map fst ops).
    Hypothesis Ins : n_windowed n = true -> ops_order_sensitive ops = true -> window_total fl (cols r) w (rows r).

    Lemma extend_plain_sound p : denotes p -> otab_sim (sem_gen fl (mk_extend iw p ops a) e) target.
    Proof.
      intros [t [E S]]. unfold mk_extend, target. fold n. cbn [sem_gen]. rewrite E. cbn [option_map otab_sim].
      destruct (n_windowed n) eqn:Wd.
      - apply sim_wextend; [eapply denotes_width, E|exact Wr| |exact S]. intros Se. apply Ins; [reflexivity|exact Se].
      - apply sim_extend; [eapply denotes_width, E|exact Wr|exact S].
    Qed.

    Lemma extend_sound : forall p, prefix_ok iw p -> denotes p -> otab_sim (sem_gen fl (build_extend iw p ops a) e) target.
    Proof.
      induction p as [nm cs0|s IH o1 wd1 w1|s IH ops0 gb|s IH x|s IH cs1|s IH ds|s IH m|s IH m dels|s IH cs0 rev lim|pa IHa b IHb on_a on_b jt|pa IHa b IHb idc an bn];
        intros OK D; cbn [build_extend]; try (apply extend_plain_sound, D).
      - (* extend over extend *)
        destruct (merge_guard (implies iw ops) a (mkwnode wd1 (w_part w1) (w_order w1) (w_rev w1))) eqn:G; [|apply extend_plain_sound, D].
        destruct (try_to_merge_ops gcu o1 ops) as [m|] eqn:M; [|apply extend_plain_sound, D].
        destruct OK as (N1 & D1 & C1 & OKs).
        destruct (merged_node_same iw o1 ops m a _ N1 Nk M G C1) as [S2 Sm].
        destruct D as [t [E S]]. cbn [sem_gen] in E. destruct (sem_gen fl s e) as [t0|] eqn:E0; [|discriminate]. cbn [option_map] in E. inversion E; subst t. clear E.
        pose proof (sem_rows_width _ _ _ _ E0) as W0.
        unfold mk_extend. rewrite Sm. cbn [n_windowed n_part n_order n_rev]. rewrite mkwin_eta. cbn [sem_gen]. rewrite E0. cbn [option_map].
        unfold target, w. fold n. unfold n. rewrite S2. cbn [n_windowed n_part n_order n_rev]. rewrite mkwin_eta. cbn [otab_sim].
        assert (n_windowed n = wd1 /\ w = w1) as [Hn Hw]. { unfold w, n. rewrite S2. cbn. rewrite mkwin_eta. split; reflexivity. }
        destruct wd1.
        + eapply tab_sim_trans; [apply tab_sim_of_eqv, (merge_sem_wextend o1 ops m N1 Nk M fl w1 t0 W0 D1)|].
          apply sim_wextend; [apply width_wextend, W0|exact Wr| |exact S].
          intros Se. rewrite <- Hw. apply Ins; [exact Hn|exact Se].
        + eapply tab_sim_trans; [apply tab_sim_of_eqv, (merge_sem_extend o1 ops m N1 Nk M fl t0 W0)|].
          apply sim_extend; [apply width_extend, W0|exact Wr|exact S].
      - (* order_rows *)
        destruct lim as [k|]; [apply extend_plain_sound, D|]. apply IH; [exact OK|apply (denotes_source _ _ _ D)].
    Qed.
  End ExtendStep.
End OneStep.

(* ------------------------------------------------------------------ one builder step = the step on the materialised prefix *)
Theorem build_step_sound iw fl e x p t r :
  sem_gen fl p e = Some t -> tab_sim t r -> width_ok r -> prefix_ok iw p -> step_valid x (cols r) -> step_insensitive iw fl x r ->
  otab_sim (sem_gen fl (build_step iw p x) e) (apply_sem iw fl e x r).
Proof.
  intros E S W OK V I.
  assert (denotes fl e r p) as D by (exists t; split; assumption).
  destruct x; cbn [build_step apply_sem step_valid step_insensitive] in *.
  - destruct ops as [|ke ops']; cbn [is_nil].
    + rewrite E. cbn [otab_sim]. destruct (n_windowed _); [rewrite wextend_nil|rewrite extend_nil]; exact S.
    + destruct V as [Nk Dk]. apply (extend_sound iw fl e r W (ke :: ops') (wargs_of one part order rev) Nk); [exact I|exact OK|exact D].
  - apply project_sound; assumption.
  - apply select_rows_sound; assumption.
  - apply (select_cols_sound iw fl e cs as_tuple p r W V OK D).
  - destruct cs as [|c cs']; cbn [is_nil]; [|apply drop_cols_sound; assumption].
    rewrite E. cbn [otab_sim]. eapply tab_sim_trans; [exact S|apply tab_sim_of_eqv, drop_nil_eqv].
  - destruct m as [|km m']; cbn [is_nil]; [|apply rename_sound; assumption].
    rewrite E, rename_nil. exact S.
  - destruct m as [|km m']; cbn [is_nil]; [|apply map_sound; assumption].
    rewrite E. cbn [map_remap map_dels flat_map otab_sim]. rewrite rename_nil. eapply tab_sim_trans; [exact S|apply tab_sim_of_eqv, drop_nil_eqv].
  - destruct cs as [|c cs']; cbn [is_nil andb]; [destruct lim as [k|]|]; try (apply order_sound; assumption).
    rewrite E, order_nil. exact S.
  - apply (join_sound iw); assumption.
  - apply (concat_sound iw); assumption.
Qed.

(* a prefix that does not evaluate (a table is missing) stays that way *)
Lemma mk_extend_none iw fl e p ops a : sem_gen fl p e = None -> sem_gen fl (mk_extend iw p ops a) e = None.
Proof. intros E. unfold mk_extend. cbn [sem_gen]. rewrite E. reflexivity. Qed.
Lemma mk_select_none fl e p cs : sem_gen fl p e = None -> sem_gen fl (mk_select p cs) e = None.
Proof.
  intros E. assert (sem_gen fl (OSelectCols p cs) e = None) as G by (cbn [sem_gen]; rewrite E; reflexivity).
  destruct p; try exact G. cbn [mk_select sem_gen] in *. destruct (sem_gen fl p e); [discriminate E|reflexivity].
Qed.
Lemma build_step_none iw fl e x p : sem_gen fl p e = None -> sem_gen fl (build_step iw p x) e = None.
Proof.
  assert (forall bld node : op -> op,
            (forall s cs rev, bld (OOrder s cs rev None) = bld s) ->
            (forall p, (forall s cs rev, p <> OOrder s cs rev None) -> bld p = node p) ->
            (forall p, sem_gen fl p e = None -> sem_gen fl (node p) e = None) ->
            forall p, sem_gen fl p e = None -> sem_gen fl (bld p) e = None) as K.
  { intros bld node B1 B2 N. apply (skip_ind bld node B1 B2 (fun p => sem_gen fl p e = None) (fun q => sem_gen fl q e = None)); [|exact N].
    intros s cs rev. apply none_under_order. }
  intros E. destruct x; cbn [build_step].
  - destruct (is_nil ops); [exact E|]. revert E.
    induction p as [nm cs0|s IH o1 wd1 w1|s IH ops0 gb|s IH x|s IH cs1|s IH ds|s IH m|s IH m dels|s IH cs0 rev0 lim|pa IHa b IHb on_a on_b jt|pa IHa b IHb idc an bn];
      intros E; cbn [build_extend]; try (apply mk_extend_none, E).
    + assert (sem_gen fl s e = None) as E0 by (cbn [sem_gen] in E; destruct (sem_gen fl s e); [discriminate E|reflexivity]).
      destruct (merge_guard _ _ _); [|apply mk_extend_none, E].
      destruct (try_to_merge_ops _ _ _); [apply mk_extend_none, E0|apply mk_extend_none, E].
    + destruct lim; [apply mk_extend_none, E|]. apply IH. eapply none_under_order, E.
  - revert E. apply (K (fun p => build_project p ops gb) (fun p => OProject p ops gb)); [reflexivity|skip_other|]. intros q Eq. cbn [sem_gen]. rewrite Eq. reflexivity.
  - revert E. apply (K (fun p => build_select_rows p e0) (fun p => OSelectRows p e0)); [reflexivity|skip_other|]. intros q Eq. cbn [sem_gen]. rewrite Eq. reflexivity.
  - revert E.
    induction p as [nm cs0|s IH o1 wd1 w1|s IH ops0 gb|s IH x|s IH cs1|s IH ds|s IH m|s IH m dels|s IH cs0 rev0 lim|pa IHa b IHb on_a on_b jt|pa IHa b IHb idc an bn];
      intros E; cbn [build_select_cols]; (destruct (as_tuple && eqb cs (declared_names _)); [exact E|]);
      try (apply mk_select_none, E).
    + apply IH. cbn [sem_gen] in E. destruct (sem_gen fl s e); [discriminate|reflexivity].
    + apply IH. cbn [sem_gen] in E. destruct (sem_gen fl s e); [discriminate|reflexivity].
    + destruct lim; [apply mk_select_none, E|]. apply IH. eapply none_under_order, E.
  - destruct (is_nil cs); [exact E|]. revert E. apply (K (fun p => build_drop_cols p cs) (fun p => ODropCols p cs)); [reflexivity|skip_other|]. intros q Eq. cbn [sem_gen]. rewrite Eq. reflexivity.
  - destruct (is_nil m); [exact E|]. revert E. apply (K (fun p => build_rename p m) (fun p => ORename p m)); [reflexivity|skip_other|]. intros q Eq. cbn [sem_gen]. rewrite Eq. reflexivity.
  - destruct (is_nil m); [exact E|]. revert E. apply (K (fun p => build_map p m) (fun p => OMapCols p (map_remap m) (map_dels m))); [reflexivity|skip_other|]. intros q Eq. cbn [sem_gen]. rewrite Eq. reflexivity.
  - destruct (is_nil cs && _); [exact E|]. revert E. apply (K (fun p => build_order p cs rev lim) (fun p => OOrder p cs rev lim)); [reflexivity|skip_other|]. intros q Eq. cbn [sem_gen]. rewrite Eq. reflexivity.
  - revert E. apply (K (fun p => build_join p b on_a on_b jt) (fun p => OJoin p b on_a on_b jt)); [reflexivity|skip_other|]. intros q Eq. cbn [sem_gen]. rewrite Eq. reflexivity.
  - revert E. apply (K (fun p => build_concat p b idc an bn) (fun p => OConcat p b idc an bn)); [reflexivity|skip_other|]. intros q Eq. cbn [sem_gen]. rewrite Eq. reflexivity.
Qed.
