(* C07 -- proofs about Model/Compose.v, part 3: DataOpArrow composition (dom / cod / transform) and associativity of
   ViewRepresentation.act_on including its checks. *)
From Coq Require Import List Bool Arith String Lia Setoid Permutation.
Import ListNotations.
From DA Require Import Base.PyRT Base.Val Model.Sem Proofs.SemBasicP Model.Compose Proofs.ComposeP Proofs.ComposeP2.
Local Open Scope list_scope.

(* ------------------------------------------------------------------ inversion of the constructors *)
Lemma get_tables_inv p ts : get_tables p = Some ts -> ts = leaves p /\ tables_consistent (leaves p) = true.
Proof. unfold get_tables. destruct (tables_consistent (leaves p)); intros E; inversion E. split; reflexivity. Qed.

Lemma data_op_arrow_inv p f a : data_op_arrow p f = Some a ->
  tables_consistent (leaves p) = true /\ a_pipeline a = p /\ dict_get (leaves p) (a_free a) = Some (a_incoming a)
  /\ a_outgoing a = sort_strings (column_names p)
  /\ (forall k, f = Some k -> a_free a = k)
  /\ (f = None -> table_keys (leaves p) = [a_free a]).
Proof.
  unfold data_op_arrow. destruct (get_tables p) as [ts|] eqn:G; [|discriminate].
  apply get_tables_inv in G. destruct G as [-> C].
  destruct f as [k|].
  - destruct (mem k (table_keys (leaves p))); [|discriminate].
    destruct (dict_get (leaves p) k) as [cs|] eqn:D; [|discriminate]. intros E. inversion E; subst. cbn.
    repeat split; try assumption; try reflexivity; [intros k0 E0; inversion E0; reflexivity|discriminate].
  - destruct (table_keys (leaves p)) as [|k [|k2 t]] eqn:K; try discriminate.
    destruct (dict_get (leaves p) k) as [cs|] eqn:D; [|discriminate]. intros E. inversion E; subst. cbn.
    repeat split; try assumption; try reflexivity. discriminate.
Qed.

Lemma set_eqb_of_diffs (a b : list string) :
  nonempty (set_diff a b) = false -> nonempty (set_diff b a) = false -> set_eqb a b = true.
Proof.
  intros H1 H2. unfold set_eqb. apply andb_true_iff. split; apply subset_spec; apply set_diff_empty_subset; assumption.
Qed.

Lemma set_eqb_Permutation_l (l l' x : list string) : Permutation l l' -> set_eqb l x = set_eqb l' x.
Proof.
  intros P. apply eq_iff_eq_true. unfold set_eqb. rewrite !andb_true_iff, !subset_spec. split; intros [S1 S2]; split; intros y I.
  - apply S1. eapply Permutation_in; [apply Permutation_sym; exact P|exact I].
  - eapply Permutation_in; [exact P|]. apply S2. exact I.
  - apply S1. eapply Permutation_in; [exact P|exact I].
  - eapply Permutation_in; [apply Permutation_sym; exact P|]. apply S2. exact I.
Qed.
Lemma set_eqb_Permutation_r (l l' x : list string) : Permutation l l' -> set_eqb x l = set_eqb x l'.
Proof.
  intros P. apply eq_iff_eq_true. unfold set_eqb. rewrite !andb_true_iff, !subset_spec. split; intros [S1 S2]; split; intros y I.
  - eapply Permutation_in; [exact P|]. apply S1. exact I.
  - apply S2. eapply Permutation_in; [apply Permutation_sym; exact P|exact I].
  - eapply Permutation_in; [apply Permutation_sym; exact P|]. apply S1. exact I.
  - apply S2. eapply Permutation_in; [exact P|exact I].
Qed.
Lemma set_eqb_refl (l : list string) : set_eqb l l = true.
Proof. unfold set_eqb. apply andb_true_iff. split; apply subset_spec; auto. Qed.

(* ------------------------------------------------------------------ composing at the leaf k of a consistent pipeline *)
(* declared columns of the composed pipeline are those of the outer pipeline, up to order, under the SET boundary check *)
Lemma compose_column_names_perm k a b csb :
  built_ok b = true -> tables_consistent (leaves b) = true -> dict_get (leaves b) k = Some csb ->
  set_eqb (column_names a) csb = true -> NoDup (column_names a) -> NoDup csb ->
  Permutation (column_names (replace_leaves [(k, a)] b)) (column_names b).
Proof.
  intros B C D S Na Nb. rewrite replace_leaves_subst by exact B. apply subst_column_names_perm.
  intros n cs r I E. rewrite dict_get_single in E. destruct (eq_dec n k) as [->|]; [|discriminate]. inversion E; subst r.
  assert (cs = csb) as ->. { apply dict_get_In in D. rewrite tables_consistent_spec in C. eapply C; eassumption. }
  apply set_eqb_Permutation; assumption.
Qed.

Lemma In_leaves_compose k a b csb n cs :
  dict_get (leaves b) k = Some csb -> In (n, cs) (leaves a) -> In (n, cs) (leaves (subst [(k, a)] b)).
Proof.
  intros D I. rewrite leaves_subst. apply in_flat_map. exists (k, csb). split; [apply dict_get_In; exact D|].
  cbn [fst]. rewrite dict_get_single. destruct (eq_dec k k); [exact I|congruence].
Qed.

(* ------------------------------------------------------------------ dom and cod of a composed arrow *)
Theorem arrow_dom_cod pa fa a pb fb b c :
  data_op_arrow pa fa = Some a -> data_op_arrow pb fb = Some b ->
  built_ok pb = true -> nodupb (column_names pa) = true -> nodupb (a_incoming b) = true ->
  arrow_rshift a b = Some c ->
  dom c = dom a /\ cod c = cod b.
Proof.
  intros Da Db B Na Nb R.
  apply data_op_arrow_inv in Da. destruct Da as (Ca & Pa & Ia & Oa & _ & _).
  apply data_op_arrow_inv in Db. destruct Db as (Cb & Pb & Ib & Ob & _ & _).
  unfold arrow_rshift, arrow_act_on in R.
  destruct (nonempty (set_diff (a_incoming b) (a_outgoing a))) eqn:M1; [discriminate|].
  destruct (nonempty (set_diff (a_outgoing a) (a_incoming b))) eqn:M2; [discriminate|].
  rewrite Pa, Pb in R.
  destruct (get_tables (replace_leaves [(a_free b, pa)] pb)) as [ts|] eqn:G; [|discriminate].
  apply get_tables_inv in G. destruct G as [_ Cn].
  apply data_op_arrow_inv in R. destruct R as (_ & Pc & Ic & Oc & Fc & _).
  specialize (Fc _ eq_refl). rewrite Fc in Ic.
  apply nodupb_NoDup in Na. apply nodupb_NoDup in Nb.
  assert (set_eqb (column_names pa) (a_incoming b) = true) as S.
  { rewrite (set_eqb_Permutation_l _ _ _ (Permutation_sym (sort_strings_is_Permutation (column_names pa)))).
    rewrite <- Oa. apply set_eqb_of_diffs; assumption. }
  unfold dom, cod. split.
  - rewrite replace_leaves_subst in Ic, Cn by exact B.
    apply dict_get_In in Ic. pose proof (dict_get_In _ _ _ Ia) as Ia'.
    pose proof (In_leaves_compose _ _ _ _ _ _ Ib Ia') as I2.
    rewrite tables_consistent_spec in Cn. eapply Cn; eassumption.
  - rewrite Oc, Ob. apply sort_strings_Permutation. eapply compose_column_names_perm; eassumption.
Qed.

(* ------------------------------------------------------------------ transforming a table with a composed arrow *)
Lemma sem_unbound fl p (e : env) : (forall n, In n (table_names p) -> dict_get e n = None) -> sem_gen fl p e = None.
Proof.
  induction p as [n cs|s IH ops wd w|s IH ops gb|s IH x|s IH cs|s IH ds|s IH mp|s IH mp dels|s IH cs rv lim|a IHa b IHb on_a on_b jt|a IHa b IHb idc an bn];
    intros H; cbn [sem_gen table_names] in *; try (rewrite (IH H); reflexivity).
  - rewrite (H n); [reflexivity|left; reflexivity].
  - rewrite IHa; [reflexivity|]. intros n I. apply H. apply in_app_iff. left. exact I.
  - rewrite IHa; [reflexivity|]. intros n I. apply H. apply in_app_iff. left. exact I.
Qed.

Lemma table_keys_single_only p k : table_keys (leaves p) = [k] -> only_table k p.
Proof.
  intros K n I. rewrite <- map_fst_leaves in I. apply In_py_set in I. unfold table_keys in K. rewrite K in I.
  destruct I as [E|[]]. symmetry. exact E.
Qed.

Theorem arrow_transform_sequential fl pa fa a pb b c t :
  data_op_arrow pa fa = Some a -> data_op_arrow pb None = Some b ->
  built_ok pb = true -> nodupb (column_names pa) = true ->
  column_names pa = a_incoming b ->
  arrow_rshift a b = Some c ->
  arrow_transform fl c t = obind (arrow_transform fl a t) (arrow_transform fl b).
Proof.
  intros Da Db B Na E R.
  assert (dom c = dom a) as Dc. { eapply arrow_dom_cod; try eassumption. rewrite <- E. exact Na. }
  pose proof (data_op_arrow_inv _ _ _ Da) as (Ca & Pa & Ia & Oa & _ & _).
  pose proof (data_op_arrow_inv _ _ _ Db) as (Cb & Pb & Ib & Ob & _ & Kb). specialize (Kb eq_refl).
  apply table_keys_single_only in Kb.
  unfold arrow_rshift, arrow_act_on in R.
  destruct (nonempty (set_diff (a_incoming b) (a_outgoing a))); [discriminate|].
  destruct (nonempty (set_diff (a_outgoing a) (a_incoming b))); [discriminate|].
  destruct (get_tables (replace_leaves [(a_free b, a_pipeline a)] (a_pipeline b))) as [ts|]; [|discriminate].
  apply data_op_arrow_inv in R. destruct R as (_ & Pc & _ & _ & Fc & _). specialize (Fc _ eq_refl).
  unfold arrow_transform, dom in *. rewrite Dc, Pc, Fc, Pa, Pb.
  destruct (set_eqb (cols t) (a_incoming a)); [|reflexivity]. cbn [obind].
  change (replace_leaves [(a_free b, pa)] pb) with (compose_at (a_free b) pa pb).
  rewrite compose_is_sequential; [|exact B| |exact Na].
  2:{ rewrite E. apply consistent_declares; assumption. }
  destruct (sem_gen fl pa [(a_free a, t)]) as [ta|] eqn:S; cbn [obind env_set].
  - rewrite (sem_cols _ _ _ _ S), E, set_eqb_refl. apply sem_env_ext. intros n I. rewrite (Kb n I). simpl.
    destruct (eq_dec (a_free b) (a_free b)); [reflexivity|congruence].
  - apply sem_unbound. intros n I. rewrite (Kb n I), dict_get_pop. destruct (eq_dec (a_free b) (a_free b)); [reflexivity|congruence].
Qed.

(* ------------------------------------------------------------------ ViewRepresentation.act_on on single-table pipelines *)
Lemma py_set_all_k (l : list string) k : l <> [] -> (forall x, In x l -> x = k) -> py_set l = [k].
Proof.
  intros N H. destruct l as [|x t]; [congruence|]. assert (x = k) as -> by (apply H; left; reflexivity).
  unfold py_set. simpl. change (add_end [] k) with [k].
  assert (forall x, In x t -> x = k) as Ht by (intros y I; apply H; right; exact I). clear H N.
  induction t as [|y u IH]; simpl; [reflexivity|].
  assert (y = k) as -> by (apply Ht; left; reflexivity).
  unfold add_end at 2. simpl. destruct (eq_dec k k); [|congruence]. apply IH. intros z I. apply Ht. right. exact I.
Qed.

Lemma only_table_keys k p : only_table k p -> table_keys (leaves p) = [k].
Proof.
  intros O. unfold table_keys. apply py_set_all_k.
  - intros E. apply map_eq_nil in E. exact (leaves_nonempty p E).
  - intros x I. rewrite map_fst_leaves in I. apply O. exact I.
Qed.

Lemma only_table_dict_get k p : only_table k p -> exists cs, dict_get (leaves p) k = Some cs.
Proof.
  intros O. destruct (dict_get (leaves p) k) as [cs|] eqn:E; [eexists; reflexivity|].
  exfalso. apply dict_get_None in E. unfold dict_keys in E. rewrite map_fst_leaves in E.
  destruct (leaves p) as [|[n c] t] eqn:L; [exact (leaves_nonempty p L)|].
  assert (In n (table_names p)) as I by (rewrite <- map_fst_leaves, L; left; reflexivity).
  apply E. rewrite <- (O n I). exact I.
Qed.

Lemma act_on_single k self b : only_table k self ->
  act_on self b =
    if tables_consistent (leaves self)
    then match dict_get (leaves self) k with
         | Some old => if set_eqb (column_names b) old then Some (replace_leaves [(k, b)] self) else None
         | None => None
         end
    else None.
Proof.
  intros O. unfold act_on, get_tables. destruct (tables_consistent (leaves self)); [|reflexivity].
  rewrite (only_table_keys _ _ O). reflexivity.
Qed.

(* the pipeline b >> c (c's single table replaced by b) has b's tables *)
Lemma flat_map_ext_in {A B} (f g : A -> list B) l : (forall x, In x l -> f x = g x) -> flat_map f l = flat_map g l.
Proof. induction l as [|x t IH]; intros H; simpl; [reflexivity|]. rewrite (H x), IH; [reflexivity| |left; reflexivity]. intros y I. apply H. right. exact I. Qed.

Lemma leaves_compose_single k b c : only_table k c -> leaves (subst [(k, b)] c) = flat_map (fun _ => leaves b) (leaves c).
Proof.
  intros O. rewrite leaves_subst. apply flat_map_ext_in. intros [n cs] I. cbn [fst].
  assert (n = k) as ->. { apply O. rewrite <- map_fst_leaves. apply in_map_iff. exists (n, cs). split; [reflexivity|exact I]. }
  rewrite dict_get_single. destruct (eq_dec k k); [reflexivity|congruence].
Qed.

Lemma In_flat_map_const {A B} (L : list B) (X : list A) y : In y (flat_map (fun _ => L) X) <-> X <> [] /\ In y L.
Proof.
  rewrite in_flat_map. split.
  - intros [x [Ix Iy]]. split; [intros E; rewrite E in Ix; destruct Ix|exact Iy].
  - intros [N Iy]. destruct X as [|x t]; [congruence|]. exists x. split; [left; reflexivity|exact Iy].
Qed.

Lemma consistent_copies {A} (X : list A) L : X <> [] -> tables_consistent (flat_map (fun _ => L) X) = tables_consistent L.
Proof.
  intros N. apply eq_iff_eq_true. rewrite !tables_consistent_spec. split; intros H n c c' I I'.
  - eapply H; apply In_flat_map_const; split; eassumption.
  - apply In_flat_map_const in I, I'. eapply H; [apply I|apply I'].
Qed.

Lemma dict_get_copies {A} (X : list A) (L : list (string * list string)) k v :
  X <> [] -> dict_get L k = Some v -> dict_get (flat_map (fun _ => L) X) k = Some v.
Proof. intros N D. destruct X as [|x t]; [congruence|]. simpl. rewrite dict_get_app, D. reflexivity. Qed.

Definition leaves_nodup (p : op) : bool := forallb (fun t => nodupb (snd t)) (leaves p).

(* (a >> b) >> c  =  a >> (b >> c)  for ViewRepresentation.act_on on single-table pipelines: the same checks pass or
   fail on both sides, and when they pass the two results are the same tree *)
Theorem rshift_assoc a b c kb kc :
  only_table kb b -> only_table kc c -> built_ok b = true -> built_ok c = true ->
  nodupb (column_names a) = true -> leaves_nodup b = true ->
  obind (rshift a b) (fun ab => rshift ab c) = obind (rshift b c) (fun bc => rshift a bc).
Proof.
  intros Ob Oc Bb Bc Na Nb. unfold rshift.
  destruct (only_table_dict_get _ _ Ob) as [csb Db]. destruct (only_table_dict_get _ _ Oc) as [csc Dc].
  pose proof (replace_leaves_subst [(kc, b)] c Bc) as Ebc.
  assert (leaves (replace_leaves [(kc, b)] c) = flat_map (fun _ => leaves b) (leaves c)) as Lbc.
  { rewrite Ebc. apply leaves_compose_single. exact Oc. }
  assert (only_table kb (replace_leaves [(kc, b)] c)) as Obc.
  { intros n I. rewrite <- map_fst_leaves, Lbc in I. apply in_map_iff in I. destruct I as [[n' cs] [E I]]. cbn in E. subst n'.
    apply In_flat_map_const in I. destruct I as [_ I]. apply Ob. rewrite <- map_fst_leaves. apply in_map_iff. exists (n, cs). split; [reflexivity|exact I]. }
  pose proof (leaves_nonempty c) as Nc.
  rewrite (act_on_single kb b a Ob), (act_on_single kc c b Oc), Db, Dc.
  destruct (tables_consistent (leaves b)) eqn:Cb.
  - destruct (set_eqb (column_names a) csb) eqn:T1; cbn [obind].
    + rewrite (act_on_single kc c _ Oc), Dc.
      destruct (tables_consistent (leaves c)) eqn:Cc; [|reflexivity].
      assert (Permutation (column_names (replace_leaves [(kb, a)] b)) (column_names b)) as P.
      { eapply compose_column_names_perm; try eassumption; [apply nodupb_NoDup; exact Na|].
        unfold leaves_nodup in Nb. rewrite forallb_forall in Nb. apply nodupb_NoDup. apply (Nb (kb, csb)). apply dict_get_In. exact Db. }
      rewrite (set_eqb_Permutation_l _ _ _ P).
      destruct (set_eqb (column_names b) csc) eqn:T3; cbn [obind]; [|reflexivity].
      rewrite (act_on_single kb _ a Obc), Lbc, (consistent_copies _ _ Nc), Cb, (dict_get_copies _ _ _ _ Nc Db), T1.
      f_equal. apply (compose_assoc_tree kb kc a b c Bb Bc).
      destruct (eq_dec kb kc) as [E|N]; [left; exact E|right]. intros I. apply N. apply Oc. exact I.
    + destruct (tables_consistent (leaves c)); [|reflexivity].
      destruct (set_eqb (column_names b) csc); cbn [obind]; [|reflexivity].
      rewrite (act_on_single kb _ a Obc), Lbc, (consistent_copies _ _ Nc), Cb, (dict_get_copies _ _ _ _ Nc Db), T1. reflexivity.
  - cbn [obind]. destruct (tables_consistent (leaves c)); [|reflexivity].
    destruct (set_eqb (column_names b) csc); cbn [obind]; [|reflexivity].
    rewrite (act_on_single kb _ a Obc), Lbc, (consistent_copies _ _ Nc), Cb. reflexivity.
Qed.
