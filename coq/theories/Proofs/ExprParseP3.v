(* Proofs/ExprParseP3.v -- C13, part 1 (end): walk_meaning. *)
From Coq Require Import List Bool String Ascii ZArith NArith QArith Arith Lia.
Import ListNotations.
From DA Require Import Model.PyExpr Model.ExprParse Model.ExprSem Proofs.ExprParseP1 Proofs.ExprParseP2.
Local Close Scope Q_scope.
Local Open Scope string_scope.
Local Open Scope bool_scope.
Local Open Scope list_scope.

Section Meaning.
Variables (c : cfg) (dd : list string) (fsem : fsem_t) (en : env).
Notation agrees := (agrees c dd fsem en).
Notation W := (walk c dd).
Notation P := (py_meaning fsem en).
Notation E := (eval fsem en).

(* ---- one lemma per kind of node; `cs` are the children, IHc the induction hypothesis for them *)
Lemma case_var d cs e v : In d ["number"; "string"; "var"] -> (forall x, In x cs -> agrees x) ->
  W (LNode d cs) = Ok e -> P (LNode d cs) = Some v -> E e = Some v.
Proof. intros Hd IHc Hw Hp. rewrite walk_node_eq, (wn_var _ _ _ _ _ _ Hd) in Hw. rewrite py_node_eq in Hp.
  assert (Hp' : match map P cs with [x] => x | _ => None end = Some v).
  { simpl in Hd. destruct Hd as [<-|[<-|[<-|[]]]]; exact Hp. }
  destruct cs as [|c0 [|c1 cs]]; simpl in Hp'; try discriminate Hp'.
  simpl in Hw. apply (IHc c0); [left; reflexivity|exact Hw|exact Hp']. Qed.

Lemma case_bool (is_or : bool) cs e v : (forall x, In x cs -> agrees x) ->
  W (LNode (if is_or then "or_test" else "and_test") cs) = Ok e ->
  P (LNode (if is_or then "or_test" else "and_test") cs) = Some v -> E e = Some v.
Proof. intros IHc Hw Hp. rewrite walk_node_eq in Hw. rewrite py_node_eq in Hp.
  assert (Hw' : (if Nat.ltb (List.length cs) 2 then Err
                 else match all_ok (map W cs) with Ok args => mk_expr c (if is_or then "or" else "and") args true false | Err => Err end) = Ok e).
  { destruct is_or; [rewrite wn_or in Hw|rewrite wn_and in Hw]; exact Hw. }
  assert (Hp' : (if Nat.ltb (List.length cs) 2 then None
                 else match all_some (map P cs) with
                      | Some (x :: t) => option_map PBool (fold_bool (if is_or then orb else andb) (as_bool x) t)
                      | _ => None end) = Some v).
  { destruct is_or; exact Hp. }
  clear Hw Hp. destruct (Nat.ltb (List.length cs) 2); [discriminate Hw'|].
  destruct (all_ok (map W cs)) as [args|] eqn:A; [|discriminate Hw'].
  destruct (all_some (map P cs)) as [[|v0 t]|] eqn:S; try discriminate Hp'.
  apply mk_expr_Ok in Hw'. subst e.
  rewrite (eval_EOp _ _ _ _ _ _ _ _ (children_agree c dd fsem en cs args (v0 :: t) IHc A S)).
  destruct is_or; exact Hp'. Qed.

Lemma case_not cs e v : (forall x, In x cs -> agrees x) ->
  W (LNode "not" cs) = Ok e -> P (LNode "not" cs) = Some v -> E e = Some v.
Proof. intros IHc Hw Hp. rewrite walk_node_eq, wn_not in Hw. rewrite py_node_eq in Hp.
  change (match map P cs with [Some (PBool b)] => Some (PBool (negb b)) | _ => None end = Some v) in Hp.
  destruct cs as [|c0 [|c1 cs]]; simpl in Hp, Hw; try discriminate Hp.
  2:{ destruct (P c0) as [[|b| | | |]|]; discriminate Hp. }
  destruct (P c0) as [[|b| | | |]|] eqn:P0; try discriminate Hp. inversion Hp; subst v.
  destruct (W c0) as [lft|] eqn:W0; [|discriminate Hw].
  apply (call_method_bin c "__eq__" "==" true false true) in Hw; [|reflexivity]. subst e.
  assert (H0 : E lft = Some (PBool b)). { apply (IHc c0); [left; reflexivity|exact W0|exact P0]. }
  rewrite (eval_bin fsem en "==" true false None lft (EVal (PBool false)) (PBool b) (PBool false) H0 eq_refl).
  destruct b; reflexivity. Qed.

Lemma case_comparison cs e v : (forall x, In x cs -> agrees x) ->
  W (LNode "comparison" cs) = Ok e -> P (LNode "comparison" cs) = Some v -> E e = Some v.
Proof. intros IHc Hw Hp. rewrite walk_node_eq, wn_comparison in Hw. rewrite py_node_eq in Hp.
  change ((if Nat.ltb (List.length cs) 3 || Nat.even (List.length cs) then None
           else match evens (map P cs) with
                | Some x :: t => option_map PBool (py_chain_cmp x (map tok_text (odds cs)) t)
                | _ => None end) = Some v) in Hp.
  destruct (Nat.ltb (List.length cs) 3 || Nat.even (List.length cs)) eqn:L; [discriminate Hp|].
  apply orb_false_elim in L as [L3 Lev].
  (* the walker rejects chains, so exactly one operator is left *)
  destruct (Nat.ltb 3 (List.length cs)) eqn:Hn; [discriminate Hw|].
  apply Nat.ltb_ge in L3. apply Nat.ltb_ge in Hn.
  destruct cs as [|c0 [|o [|c1 [|x cs]]]]; simpl in L3, Hn; try lia. clear L3 Hn Lev.
  cbn [map evens odds nth] in Hw, Hp.
  destruct (P c0) as [v0|] eqn:P0; [|discriminate Hp].
  cbn [py_chain_cmp] in Hp. destruct (tok_text o) as [os|] eqn:To; [|discriminate Hp].
  destruct (P c1) as [v1|] eqn:P1; [|discriminate Hp].
  destruct (cmp os v0 v1) as [b|] eqn:Cm; [|discriminate Hp]. simpl in Hp. inversion Hp; subst v. clear Hp.
  cbn [chain_fold] in Hw.
  destruct (W c0) as [a0|] eqn:W0; [|discriminate Hw]. destruct (W c1) as [a1|] eqn:W1; [|discriminate Hw].
  destruct (cmp_ops_walk os (cmp_Some_op _ _ _ _ Cm)) as [name [o' [Hr [Hf [Hev Hal]]]]]. rewrite Hr in Hw.
  apply (call_method_bin _ _ _ _ _ _ _ _ _ Hf) in Hw. subst e.
  assert (H0 : E a0 = Some v0). { apply (IHc c0); [left; reflexivity|exact W0|exact P0]. }
  assert (H1 : E a1 = Some v1). { apply (IHc c1); [right; right; left; reflexivity|exact W1|exact P1]. }
  rewrite (eval_bin _ _ _ _ _ _ _ _ v0 v1 H0 H1), Hev, Hal, Cm. simpl. rewrite andb_true_r. reflexivity. Qed.

Lemma case_arith d cs e v : In d ["arith_expr"; "term"] -> (forall x, In x cs -> agrees x) ->
  W (LNode d cs) = Ok e -> P (LNode d cs) = Some v -> E e = Some v.
Proof. intros Hd IHc Hw Hp. rewrite walk_node_eq, (wn_arith _ _ _ _ _ _ Hd) in Hw. rewrite py_node_eq in Hp.
  assert (Hp' : (if Nat.ltb (List.length cs) 3 || Nat.even (List.length cs) then None
                 else match evens (map P cs) with
                      | Some x :: t => py_chain_arith (Some x) (map tok_text (odds cs)) t
                      | _ => None end) = Some v).
  { simpl in Hd. destruct Hd as [<-|[<-|[]]]; exact Hp. }
  clear Hp. destruct (Nat.ltb (List.length cs) 3 || Nat.even (List.length cs)) eqn:L; [discriminate Hp'|].
  apply orb_false_elim in L as [L3 _]. destruct (length_3_inv _ L3) as [c0 [o1 [cs' [-> _]]]]. clear L3.
  rewrite !evens_map in Hw. rewrite !evens_map in Hp'. rewrite evens_cons2 in Hw. rewrite evens_cons2 in Hp'.
  cbn [map nth] in Hw, Hp'.
  destruct (P c0) as [v0|] eqn:P0; [|discriminate Hp'].
  assert (IHe : forall x, In x (evens cs') -> agrees x).
  { intros x Hx. apply IHc. right. right. apply evens_In. exact Hx. }
  destruct (kopsel (map tok_text (odds (c0 :: o1 :: cs')))) as [o|] eqn:K.
  - (* k-ary + or * *)
    destruct (kopsel_spec _ _ K) as [Hall Hm].
    destruct (W c0) as [a0|] eqn:W0; [|discriminate Hw].
    destruct (all_ok (map W (evens cs'))) as [args|] eqn:A; [|simpl in Hw; rewrite A in Hw; discriminate Hw].
    simpl in Hw. rewrite A in Hw. apply mk_expr_Ok in Hw. subst e.
    destruct (py_chain_all_same o _ _ _ _ Hall Hp') as [rest [Hrest Hf]].
    assert (S : all_some (map P (evens cs')) = Some rest). { rewrite Hrest. apply all_some_map_Some. }
    assert (H0 : E a0 = Some v0). { apply (IHc c0); [left; reflexivity|exact W0|exact P0]. }
    pose proof (children_agree c dd fsem en _ _ _ IHe A S) as HA.
    rewrite (eval_EOp _ _ _ _ _ _ _ (v0 :: rest)); [|simpl; rewrite H0, HA; reflexivity].
    apply mem_str_In in Hm. simpl in Hm. destruct Hm as [<-|[<-|[]]]; exact Hf.
  - (* left to right *)
    destruct (W c0) as [a0|] eqn:W0; [|exfalso; eapply chain_fold_Err; exact Hw].
    assert (H0 : E a0 = Some v0). { apply (IHc c0); [left; reflexivity|exact W0|exact P0]. }
    exact (chain_arith_agree c dd fsem en _ _ _ _ _ _ IHe H0 Hw Hp'). Qed.

Lemma case_factor cs e v : (forall x, In x cs -> agrees x) ->
  W (LNode "factor" cs) = Ok e -> P (LNode "factor" cs) = Some v -> E e = Some v.
Proof. intros IHc Hw Hp. rewrite walk_node_eq, wn_factor in Hw. rewrite py_node_eq in Hp.
  change (match cs, map P cs with
          | [o; _], [_; Some v1] =>
              match tok_text o with
              | Some op => if op ==s "-" then neg_num v1 else if op ==s "+" then pos_num v1 else None
              | None => None end
          | _, _ => None end = Some v) in Hp.
  destruct cs as [|o [|c1 [|x cs]]]; try discriminate Hp. cbn [map] in Hw, Hp.
  destruct (P c1) as [v1|] eqn:P1; [|discriminate Hp].
  destruct (tok_text o) as [op|] eqn:To; [|discriminate Hp].
  destruct (W c1) as [rgt|] eqn:W1; [|discriminate Hw].
  assert (H1 : E rgt = Some v1). { apply (IHc c1); [right; left; reflexivity|exact W1|exact P1]. }
  destruct (op ==s "-") eqn:Em.
  - apply String.eqb_eq in Em. subst op. change (remap factor_remap "-") with "__neg__" in Hw.
    destruct (call_neg _ _ _ Hw) as [[x [x' [-> [Hn ->]]]]|[_ ->]].
    + simpl in H1. inversion H1; subst x. apply neg_num_py_neg in Hp. rewrite Hp in Hn. inversion Hn. reflexivity.
    + rewrite (eval_EOp _ _ _ _ _ _ _ [v1]); [exact Hp|simpl; rewrite H1; reflexivity].
  - destruct (op ==s "+") eqn:Ep; [|cbv iota in Hp; discriminate Hp]. apply String.eqb_eq in Ep. subst op.
    change (remap factor_remap "+") with "__pos__" in Hw. apply call_pos in Hw. subst e.
    destruct v1; simpl in Hp; try discriminate Hp; inversion Hp; subst; exact H1. Qed.

Lemma case_power cs e v : (forall x, In x cs -> agrees x) ->
  W (LNode "power" cs) = Ok e -> P (LNode "power" cs) = Some v -> E e = Some v.
Proof. intros IHc Hw Hp. rewrite walk_node_eq, wn_power in Hw. rewrite py_node_eq in Hp.
  change (match map P cs with [Some b; Some x] => arith "**" b x | _ => None end = Some v) in Hp.
  destruct cs as [|c0 [|c1 [|x cs]]]; cbn [map] in Hp; try discriminate Hp.
  1:{ destruct (P c0); discriminate Hp. }
  2:{ destruct (P c0); [destruct (P c1)|]; discriminate Hp. }
  destruct (P c0) as [v0|] eqn:P0; [|discriminate Hp]. destruct (P c1) as [v1|] eqn:P1; [|discriminate Hp].
  cbn [map List.length Nat.ltb Nat.leb all_ok] in Hw.
  destruct (W c0) as [a0|] eqn:W0; [|discriminate Hw]. destruct (W c1) as [a1|] eqn:W1; [|discriminate Hw].
  cbn [pow_fold] in Hw.
  destruct (call_method c "__pow__" a0 [a1]) as [e1|] eqn:Cm; [|discriminate Hw]. inversion Hw; subst e1. clear Hw.
  apply (call_method_bin c "__pow__" "**" true false true) in Cm; [|reflexivity]. subst e.
  assert (H0 : E a0 = Some v0). { apply (IHc c0); [left; reflexivity|exact W0|exact P0]. }
  assert (H1 : E a1 = Some v1). { apply (IHc c1); [right; left; reflexivity|exact W1|exact P1]. }
  rewrite (eval_bin _ _ _ _ _ _ _ _ v0 v1 H0 H1). exact Hp. Qed.

End Meaning.
