(* SQLGEN: regression witness for extend_to_near_sql's window_vars (the seeded changes C01-m3 / C04-m3 / C09-m3 as a MODEL
   variant): the contention test of the SQL-level extend merge run with declared dependencies that lack the ORDER columns of
   the window.  t.extend({b: b * -1}).extend({r: a.cumsum()}, order_by=[b]): the variant folds the windowed extend into the
   extend below, so that ORDER BY b in the one merged SELECT reads the STORED b, not the redefined one. *)
From Coq Require Import List Bool Arith ZArith QArith String.
Import ListNotations.
From DA Require Import Base.PyRT Base.Val Model.Sem Model.ColumnsUsed Model.SqlGen Model.SqlSem Proofs.SqlGenEx.
Local Open Scope string_scope.
Local Open Scope list_scope.

Definition rx_neg : expr := EOp "*" [ECol "b"; EConst (VNum (-1))].
Definition rx_cs : expr := EOp "cumsum" [ECol "a"].
Definition rx_w3 := mkwin [] ["b"] [].
Definition rx_p3_inner := OExtend rx_t [("b", rx_neg)] false no_window.
Definition rx_p3 := OExtend rx_p3_inner [("r", rx_cs)] true rx_w3.
(* the outer step's terms and declared dependencies as gen_extend writes them, window_vars left as a parameter *)
Definition rx_tms3 : terms := pass_terms ["a"; "b"] ++ [("r", ext_term true rx_w3 rx_cs)].
Definition rx_deps3 (window_vars : list string) : depmap :=
  [("a", ["a"]); ("b", ["b"]); ("r", set_union (py_set (cols_used rx_cs)) window_vars)].
Definition rx_col_r (t : option table) : option (list val) := option_map (fun t => map (fun r => get (cols t) r "r") (rows t)) t.

Lemma window_vars_regression :
  builder_ok rx_p3 = true /\
  rx_col_r (sem_gen fl_sqlite rx_p3 rx_env) = Some [VNum 9; VNum 3; VNum 8] /\
  match to_near d_sqlite rx_p3_inner (Some ["a"; "b"]) 0 with
  | Ok (sub, _) =>
      (* window_vars = partition_by only (order_by dropped): no contention is seen, the steps are merged, the result is wrong *)
      match try_sql_merge sub rx_tms3 (rx_deps3 (w_part rx_w3)) with
      | Some (Ok m) => rx_col_r (nsem fl_sqlite m rx_env) = Some [VNum 4; VNum 3; VNum 9]
      | _ => False
      end /\
      (* window_vars = partition_by + order_by (the code as it is): contention on b, no merge *)
      try_sql_merge sub rx_tms3 (rx_deps3 (set_union (w_part rx_w3) (w_order rx_w3))) = None
  | _ => False
  end /\
  match to_near d_sqlite rx_p3 None 0 with Ok (q, _) => nsem fl_sqlite q rx_env = sem_gen fl_sqlite rx_p3 rx_env | _ => False end.
Proof. split; [vm_compute; reflexivity|]. split; [vm_compute; reflexivity|]. split; [vm_compute; split; reflexivity|vm_compute; reflexivity]. Qed.
