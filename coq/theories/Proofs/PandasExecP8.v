(* PEXEC, part 8: assembly.  The join and window step lemmas (parts 5, 6) are plugged into the pipeline induction (part 7); the
   statements of Props/PEXEC.v; the column theorem (no scratch column survives) by its own induction, without any premise on the
   data; the join coalescing statement; scratch-name freshness per step.  All statements proved. *)
From Coq Require Import List Bool Arith ZArith QArith String Ascii Lia Permutation Sorted.
Import ListNotations.
From DA Require Import Base.PyRT Base.Val Model.Sem Model.PdPrim Model.PandasExec Model.PermGuard
  Proofs.SemBasicP Proofs.SemOrderP Proofs.PermP1 Proofs.PermP2 Proofs.PermP3 Proofs.PermP4 Proofs.ComposeP5
  Proofs.PandasExecP1 Proofs.PandasExecP2 Proofs.PandasExecP3 Proofs.PandasExecP4 Proofs.PandasExecP5 Proofs.PandasExecP6 Proofs.PandasExecP7 Proofs.PandasExecP9.
Local Open Scope string_scope.
Local Open Scope list_scope.

(* ------------------------------------------------------------------ declared columns *)
Lemma same_set_map (f : string -> string) l l' : same_set l l' -> same_set (map f l) (map f l').
Proof. intros S c. rewrite !in_map_iff. split; intros [x [E I]]; exists x; (split; [exact E|apply S, I]). Qed.
Lemma same_set_app a a' b b' : same_set a a' -> same_set b b' -> same_set (a ++ b) (a' ++ b').
Proof. intros Sa Sb c. rewrite !in_app_iff, (Sa c), (Sb c). reflexivity. Qed.
Lemma same_set_union_form (ca cb : list string) : same_set (ca ++ filter (fun c => negb (mem c ca)) cb) (ca ++ cb).
Proof.
  intros c. rewrite !in_app_iff, filter_In, negb_true_iff, mem_false. destruct (in_dec string_dec c ca); tauto.
Qed.
Lemma join_declared_set ca cb : same_set (join_declared ca cb) (ca ++ cb).
Proof.
  unfold join_declared. set (u := ca ++ filter (fun c => negb (mem c ca)) cb).
  pose proof (same_set_union_form ca cb) as Su. fold u in Su.
  destruct (set_eqb u ca) eqn:E1; [eapply same_set_trans; [apply same_set_sym, set_eqb_same_set, E1|exact Su]|].
  destruct (set_eqb u cb) eqn:E2; [eapply same_set_trans; [apply same_set_sym, set_eqb_same_set, E2|exact Su]|exact Su].
Qed.

Lemma declared_same_set p : same_set (declared_cols p) (column_names p).
Proof.
  induction p; cbn [declared_cols column_names]; try apply same_set_refl; try assumption.
  - apply same_set_ext_cols. assumption.
  - apply same_set_filter. assumption.
  - apply same_set_map. assumption.
  - apply same_set_filter, same_set_map. assumption.
  - eapply same_set_trans; [apply join_declared_set|]. eapply same_set_trans; [|apply same_set_sym, same_set_union_form].
    apply same_set_app; assumption.
  - apply same_set_app; [assumption|apply same_set_refl].
Qed.

(* ------------------------------------------------------------------ the two step lemmas in the form the induction asks for *)
Lemma join_keys_clean_facts ca cb on_a on_b : join_keys_clean ca cb on_a on_b = true ->
  (forall c, In c on_a -> In c ca) /\ (forall c, In c on_b -> In c cb) /\ List.length on_a = List.length on_b.
Proof.
  unfold join_keys_clean. intros H. apply andb_true_iff in H. destruct H as [H Hl].
  apply andb_true_iff in H. destruct H as [Ha Hb]. split; [apply subset_spec, Ha|]. split; [apply subset_spec, Hb|apply Nat.eqb_eq, Hl].
Qed.

Lemma join_step_holds arr : arranger_ok arr -> true = true -> forall p a b on_a on_b jt l r x,
  p = OJoin a b on_a on_b jt ->
  width_ok l -> width_ok r -> same_set (cols l) (column_names a) -> same_set (cols r) (column_names b) ->
  join_keys_clean (column_names a) (column_names b) on_a on_b = true ->
  px_join_with arr (declared_cols p) on_a on_b jt l r = Some x ->
  refines x (sem_join false on_a on_b jt l r) /\ width_ok x.
Proof.
  intros Ao _ p a b on_a on_b jt l r x -> Wl Wr Sl Sr Jc H.
  destruct (join_keys_clean_facts _ _ _ _ Jc) as [Ha [Hb Hlen]].
  apply (px_join_with_refines arr (declared_cols (OJoin a b on_a on_b jt)) on_a on_b jt l r x Ao Wl Wr); try assumption.
  - intros c I. apply Sl, Ha, I.
  - intros c I. apply Sr, Hb, I.
  - cbn [declared_cols]. eapply same_set_trans; [apply join_declared_set|]. eapply same_set_trans; [|apply same_set_sym, same_set_union_form].
    apply same_set_app; (eapply same_set_trans; [apply declared_same_set|apply same_set_sym; assumption]).
Qed.

Lemma window_step_holds srt : sorter_ok srt -> true = true -> forall ops w u x cs,
  width_ok u -> same_set (cols u) cs -> (0 < nrows u)%nat ->
  nodup_names (map fst ops) = true -> ops <> [] ->
  disjointb (map fst ops) (w_part w ++ w_order w) = true -> subset (w_part w ++ w_order w) cs = true ->
  nodup_names (w_part w ++ w_order w) = true ->
  forallb (win_ok_b cs (map fst ops)) ops = true ->
  (ops_order_sensitive ops = true -> window_total fl_pandas (cols u) w (rows u)) ->
  px_extend_windowed srt ops w u = Some x ->
  tab_eqv x (sem_wextend fl_pandas ops w u) /\ width_ok x.
Proof.
  intros So _ ops w u x cs Wu Sc Pn Nk Nops Dj Sb Npo Ok Gd H.
  destruct (px_extend_windowed_eqv srt ops w u x cs So Wu Sc Pn Nk Nops Dj Sb Npo Ok H) as [Wx [_ Ex]]. split; [apply Ex, Gd|exact Wx].
Qed.

Lemma covered_of_wf p : wf_op_b p = true -> covered true true p = true.
Proof.
  induction p; intros W; cbn [covered]; cbn [wf_op_b] in W; apply andb_true_iff in W; destruct W as [_ W]; try reflexivity; try (apply IHp, W).
  - apply andb_true_iff in W. destruct W as [W Ww]. apply andb_true_iff in W. destruct W as [W _]. apply andb_true_iff in W. destruct W as [Ws _].
    rewrite (IHp Ws). cbn [andb]. fold (window_situation windowed w) in Ww. destruct (window_situation windowed w); [|reflexivity].
    apply andb_true_iff in Ww. destruct Ww as [Ww _]. apply andb_true_iff in Ww. destruct Ww as [Ww _]. apply andb_true_iff in Ww. destruct Ww as [Ww _].
    apply andb_true_iff in Ww. destruct Ww as [Wd _]. rewrite Wd. reflexivity.
  - apply andb_true_iff in W. destruct W as [W _]. apply andb_true_iff in W. destruct W as [Ws _]. apply IHp, Ws.
  - apply andb_true_iff in W. destruct W as [Ws _]. apply IHp, Ws.
  - apply andb_true_iff in W. destruct W as [W _]. apply andb_true_iff in W. destruct W as [Wa Wb]. rewrite (IHp1 Wa), (IHp2 Wb). reflexivity.
  - apply andb_true_iff in W. destruct W as [W _]. apply andb_true_iff in W. destruct W as [Wa Wb]. rewrite (IHp1 Wa), (IHp2 Wb). reflexivity.
Qed.

(* ------------------------------------------------------------------ the pipeline theorem, every step kind *)
Theorem pexec_refines_sem srt arr q p e t :
  sorter_ok srt -> arranger_ok arr -> wf_op_b p = true -> total_orders fl_pandas p e -> exact_group_keys fl_pandas p e ->
  pexec_gen srt arr q p e = Some t ->
  exists t', sem_gen fl_pandas p e = Some t' /\ refines t t' /\ width_ok t.
Proof.
  intros So Ao W TO EG H.
  apply (pexec_refines srt So arr q true (join_step_holds arr Ao) true (window_step_holds srt So) p e t W (covered_of_wf p W) TO EG H).
Qed.

(* the same, spelled out: the result has the declared columns (as a set, each of them once in the reference table) and, read in
   the reference column order, its rows are a permutation of the reference rows *)
Lemma refines_cells t t' : refines t t' -> NoDup (cols t') -> width_ok t' ->
  same_set (cols t) (cols t') /\ Permutation (rows (sem_select_cols (cols t') t)) (rows t').
Proof.
  intros Rf N W. split; [apply refines_same_set, Rf|]. destruct (refines_width_witness _ _ Rf W) as [v [[Sc F] [C [P Wv]]]].
  cbn [rows sem_select_cols]. eapply perm_trans; [|exact P].
  assert (map (fun r => map (get (cols t) r) (cols t')) (rows t) = rows v) as ->; [|apply Permutation_refl].
  rewrite <- (map_id (rows v)).
  assert (Forall (fun _ : list val => True) (rows t)) as Ft by (apply Forall_forall; intros; exact I).
  eapply Forall2_map_eq; [exact (Forall2_with_Forall _ _ _ _ _ Ft Wv F)|]. intros a b [_ [Lb Rab]].
  rewrite <- C. rewrite (map_ext _ _ (fun c => Rab c)). apply select_all_id; [rewrite C; exact N|exact Lb].
Qed.

Theorem pexec_refines_sem_cells srt arr q p e t :
  sorter_ok srt -> arranger_ok arr -> wf_op_b p = true -> total_orders fl_pandas p e -> exact_group_keys fl_pandas p e ->
  pexec_gen srt arr q p e = Some t ->
  exists t', sem_gen fl_pandas p e = Some t' /\ same_set (cols t) (cols t') /\ NoDup (cols t') /\
             Permutation (rows (sem_select_cols (cols t') t)) (rows t').
Proof.
  intros So Ao W TO EG H. destruct (pexec_refines_sem srt arr q p e t So Ao W TO EG H) as [t' [E [Rf _]]]. exists t'. split; [exact E|].
  pose proof (sem_rows_width _ _ _ _ E) as Wt'. pose proof (sem_cols _ _ _ _ E) as Ct'.
  assert (NoDup (cols t')) as N by (rewrite Ct'; apply (wf_nodup p W)).
  destruct (refines_cells t t' Rf N Wt') as [S P]. split; [exact S|]. split; [exact N|exact P].
Qed.

(* ------------------------------------------------------------------ no scratch column survives (no premise on the data) *)
Theorem pexec_shape srt arr q p : sorter_ok srt -> arranger_ok arr -> forall e t,
  wf_op_b p = true -> pexec_gen srt arr q p e = Some t -> same_set (cols t) (column_names p) /\ width_ok t.
Proof.
  intros So Ao.
  induction p as [n cs|s IH ops wd w|s IH ops gb|s IH x|s IH cs|s IH cs|s IH m|s IH m dels|s IH cs rev lim|a IHa b IHb on_a on_b jt|a IHa b IHb idc an bn];
    intros e t W H; pose proof (wf_nodup _ W) as [ND NE]; cbn [pexec_gen] in H; cbn [column_names].
  - destruct (dict_get e n) as [df|]; cbn [obind] in H; [|discriminate]. rewrite (px_table_exact _ _ _ H).
    split; [apply same_set_refl|apply width_select_cols].
  - (* extend *)
    destruct (pexec_gen srt arr q s e) as [u|] eqn:Eu; cbn [obind] in H; [|discriminate].
    cbn [wf_op_b] in W. apply andb_true_iff in W. destruct W as [_ W]. apply andb_true_iff in W. destruct W as [W Ww].
    apply andb_true_iff in W. destruct W as [W Nops]. apply andb_true_iff in W. destruct W as [Ws Nk].
    destruct (IH e u Ws Eu) as [Su Wu].
    assert (ops <> []) as Nops' by (intros E0; rewrite E0 in Nops; discriminate).
    assert (same_set (ext_cols (cols u) (map fst ops)) (ext_cols (column_names s) (map fst ops))) as Se by (apply same_set_ext_cols, Su).
    unfold px_extend in H. destruct (Nat.leb (nrows u) 0) eqn:En.
    + inversion H; subst t. split; [exact Se|unfold width_ok, px_extend_empty, pd_empty_frame; cbn [rows]; constructor].
    + apply Nat.leb_gt in En. fold (window_situation wd w) in H, Ww. destruct (window_situation wd w).
      * apply andb_true_iff in Ww. destruct Ww as [Ww Wf]. apply andb_true_iff in Ww. destruct Ww as [Ww Wnd]. apply andb_true_iff in Ww. destruct Ww as [Ww Wsub].
        apply andb_true_iff in Ww. destruct Ww as [_ Wdj].
        destruct (px_extend_windowed_eqv srt ops w u t (column_names s) So Wu Su En Nk Nops' Wdj Wsub Wnd Wf H) as [Wx [Sx _]].
        split; [eapply same_set_trans; [exact Sx|exact Se]|exact Wx].
      * destruct (px_extend_plain_eqv ops u t En Nops' (nodup_names_sound _ Nk) Wu H) as [[Sx _] Wx].
        split; [eapply same_set_trans; [exact Sx|exact Se]|exact Wx].
  - (* project *)
    destruct (pexec_gen srt arr q s e) as [u|] eqn:Eu; cbn [obind] in H; [|discriminate].
    cbn [wf_op_b] in W. apply andb_true_iff in W. destruct W as [_ W]. apply andb_true_iff in W. destruct W as [W Wagg].
    apply andb_true_iff in W. destruct W as [Ws Wgb]. destruct (IH e u Ws Eu) as [Su Wu].
    destruct (px_project_refines q ops gb u t Wu) as [Rx Wx]; try assumption.
    { intros g Ig. apply Su. apply (proj1 (subset_spec _ _) Wgb), Ig. }
    { intros ke Ike. apply (agg_ok_of_b (column_names s)); [exact Su|]. apply (proj1 (forallb_forall _ _) Wagg ke Ike). }
    { cbn [column_names] in NE. destruct ops; [right|left; discriminate]. intros E0. subst gb. apply NE. reflexivity. }
    split; [apply (refines_same_set _ _ Rx)|exact Wx].
  - destruct (pexec_gen srt arr q s e) as [u|] eqn:Eu; cbn [obind] in H; [|discriminate].
    cbn [wf_op_b] in W. apply andb_true_iff in W. destruct W as [_ Ws]. destruct (IH e u Ws Eu) as [Su Wu].
    rewrite (px_select_rows_exact _ _ _ H). split; [exact Su|apply width_select_rows, Wu].
  - destruct (pexec_gen srt arr q s e) as [u|] eqn:Eu; cbn [obind] in H; [|discriminate].
    rewrite (px_select_cols_exact _ _ _ H). split; [apply same_set_refl|apply width_select_cols].
  - destruct (pexec_gen srt arr q s e) as [u|] eqn:Eu; cbn [obind] in H; [|discriminate].
    cbn [wf_op_b] in W. apply andb_true_iff in W. destruct W as [_ Ws]. destruct (IH e u Ws Eu) as [Su Wu].
    rewrite (px_drop_cols_exact _ _ _ H). split; [apply same_set_filter, Su|apply width_select_cols].
  - destruct (pexec_gen srt arr q s e) as [u|] eqn:Eu; cbn [obind] in H; [|discriminate].
    cbn [wf_op_b] in W. apply andb_true_iff in W. destruct W as [_ Ws]. destruct (IH e u Ws Eu) as [Su Wu].
    rewrite (px_rename_exact _ _ _ H). split; [apply same_set_map, Su|apply width_rename, Wu].
  - destruct (pexec_gen srt arr q s e) as [u|] eqn:Eu; cbn [obind] in H; [|discriminate].
    cbn [wf_op_b] in W. apply andb_true_iff in W. destruct W as [_ W]. apply andb_true_iff in W. destruct W as [Ws _]. destruct (IH e u Ws Eu) as [Su Wu].
    split.
    + destruct (px_map_cols_eqv _ _ _ _ H) as [Sx _]. eapply same_set_trans; [exact Sx|]. cbn [cols sem_drop_cols sem_select_cols sem_rename].
      apply same_set_filter, same_set_map, Su.
    + unfold px_map_cols in H. destruct (Nat.ltb 0 (List.length dels)).
      * apply pd_select_inv in H. destruct H as [-> _]. apply width_select_cols.
      * inversion H; subst. rewrite pd_rename_sem. apply width_rename, Wu.
  - destruct (pexec_gen srt arr q s e) as [u|] eqn:Eu; cbn [obind] in H; [|discriminate].
    cbn [wf_op_b] in W. apply andb_true_iff in W. destruct W as [_ Ws]. destruct (IH e u Ws Eu) as [Su Wu].
    split; [|apply (px_order_width srt cs rev lim u t So Wu H)].
    destruct (px_order_shape srt So _ _ _ _ _ H) as [S [_ [_ ->]]]. exact Su.
  - (* natural_join *)
    destruct (pexec_gen srt arr q a e) as [l|] eqn:El; cbn [obind] in H; [|discriminate].
    destruct (pexec_gen srt arr q b e) as [r|] eqn:Er; cbn [obind] in H; [|discriminate].
    cbn [wf_op_b] in W. apply andb_true_iff in W. destruct W as [_ W]. apply andb_true_iff in W. destruct W as [W Wj].
    apply andb_true_iff in W. destruct W as [Wa Wb]. destruct (IHa e l Wa El) as [Sl Wl]. destruct (IHb e r Wb Er) as [Sr Wr].
    destruct (join_step_holds arr Ao eq_refl (OJoin a b on_a on_b jt) a b on_a on_b jt l r t eq_refl Wl Wr Sl Sr Wj H) as [Rx Wx].
    split; [|exact Wx]. eapply same_set_trans; [apply (refines_same_set _ _ Rx)|]. unfold sem_join. cbn [cols].
    eapply same_set_trans; [apply same_set_union_form|]. eapply same_set_trans; [|apply same_set_sym, same_set_union_form].
    apply same_set_app; assumption.
  - (* concat_rows *)
    destruct (pexec_gen srt arr q a e) as [l|] eqn:El; cbn [obind] in H; [|discriminate].
    destruct (pexec_gen srt arr q b e) as [r|] eqn:Er; cbn [obind] in H; [|discriminate].
    cbn [wf_op_b] in W. apply andb_true_iff in W. destruct W as [_ W]. apply andb_true_iff in W. destruct W as [W Wc].
    apply andb_true_iff in W. destruct W as [Wa Wb]. destruct (IHa e l Wa El) as [Sl Wl]. destruct (IHb e r Wb Er) as [Sr Wr].
    assert (same_set (column_names a) (column_names b)) as Sab by (apply set_eqb_same_set, Wc).
    split; [|apply (px_concat_width idc an bn l r t Wl Wr H)].
    assert (tab_eqv t (sem_concat idc an bn l r)) as [Sx _].
    { apply (px_concat_eqv idc an bn l r t); try assumption.
      - eapply same_set_trans; [exact Sl|]. eapply same_set_trans; [exact Sab|apply same_set_sym, Sr].
      - intros c -> Ic. apply NoDup_remove_2 in ND. rewrite app_nil_r in ND. apply ND, Sl, Ic. }
    eapply same_set_trans; [exact Sx|]. unfold sem_concat. destruct idc as [c|]; cbn [cols]; [apply same_set_app; [exact Sl|apply same_set_refl]|].
    rewrite app_nil_r. exact Sl.
Qed.

(* ------------------------------------------------------------------ the join result, cell by cell *)
(* every row of the executor's join result is built from a pair (left row or none, right row or none) that the reference join
   produces, and every cell is COALESCE(left, right): the left value, or the right one where the left is null / absent *)
Theorem join_coalesce arr declared on_a on_b jt l r x :
  arranger_ok arr -> width_ok l -> width_ok r ->
  (forall c, In c on_a -> In c (cols l)) -> (forall c, In c on_b -> In c (cols r)) -> List.length on_a = List.length on_b ->
  same_set declared (cols l ++ filter (fun c => negb (mem c (cols l))) (cols r)) ->
  px_join_with arr declared on_a on_b jt l r = Some x ->
  forall row, In row (rows x) ->
    exists p, In p (sem_pairs (join_match false (cols l) (cols r) on_a on_b) (how_of jt) (rows l) (rows r)) /\
              (forall ra, fst p = Some ra -> In ra (rows l)) /\ (forall rb, snd p = Some rb -> In rb (rows r)) /\
              (forall ra rb, fst p = Some ra -> snd p = Some rb -> join_match false (cols l) (cols r) on_a on_b ra rb = true) /\
              forall c, In c (cols l) \/ In c (cols r) -> get (cols x) row c = sem_cell (cols l) (cols r) p c.
Proof.
  intros Ao Wl Wr Ha Hb Hlen Sd H row Irow.
  destruct (px_join_with_refines arr declared on_a on_b jt l r x Ao Wl Wr Ha Hb Hlen Sd H) as [[v [[Sc F] [C P]]] _].
  rewrite sem_join_as_pairs in C, P. cbn [cols rows] in C, P.
  destruct (Forall2_In_l _ _ _ _ F Irow) as [row' [Irow' Rr]].
  apply (Permutation_in _ P) in Irow'. apply in_map_iff in Irow'. destruct Irow' as [p [Ep Ip]]. exists p. split; [exact Ip|].
  destruct (sem_pairs_from _ (fun _ => []) (fun _ => []) _ _ _ _ Ip) as [Fa [Fb _]]. split; [exact Fa|]. split; [exact Fb|]. split.
  - intros ra rb Ea Eb. destruct p as [oa ob]. cbn [fst snd] in Ea, Eb. subst oa ob.
    apply (sem_pairs_matched _ (fun _ => []) (fun _ => []) _ _ _ _ _ Ip).
  - intros c Ic. rewrite (Rr c), C, <- Ep. unfold sem_mk. rewrite (get_map_cols (fun c0 => sem_cell (cols l) (cols r) p c0)).
    replace (mem c (cols l ++ filter (fun c0 => negb (mem c0 (cols l))) (cols r))) with true; [reflexivity|].
    symmetry. apply mem_In. apply (proj2 (same_set_union_form (cols l) (cols r) c)). apply in_app_iff. exact Ic.
Qed.

(* ------------------------------------------------------------------ the scratch names of the three steps *)
(* windowed extend: the stand-in and original-index columns are new names, different from each other *)
Lemma extend_scratch_fresh (ops : list (string * expr)) (res : table) :
  let names0 := set_union (cols res) (map fst ops) in
  let standin := unused_column_name base_standin names0 in
  let orig := unused_column_name base_orig_index (names0 ++ [standin]) in
  (~ In standin (cols res) /\ ~ In standin (map fst ops)) /\ (~ In orig (cols res) /\ ~ In orig (map fst ops)) /\ orig <> standin.
Proof.
  cbv zeta. set (names0 := set_union (cols res) (map fst ops)). set (standin := unused_column_name base_standin names0).
  pose proof (unused_column_name_fresh base_standin names0) as F1. pose proof (unused_column_name_fresh base_orig_index (names0 ++ [standin])) as F2.
  fold standin in F1. split; [|split].
  - split; intros I; apply F1, In_set_union; [left|right]; exact I.
  - split; intros I; apply F2, in_app_iff; left; apply In_set_union; [left|right]; exact I.
  - intros E. apply F2, in_app_iff. right. left. symmetry. exact E.
Qed.
(* the stand-in column of a constant window / aggregate argument is a new name *)
Lemma wcollect_fresh st ke st' : wcollect st ke = Some st' ->
  ws_temps st' = ws_temps st \/ exists v name, ws_temps st' = ws_temps st ++ [(v, name)] /\ ~ In name (ws_names st) /\ ws_names st' = ws_names st ++ [name].
Proof.
  unfold wcollect. destruct (win_shape (snd ke)) as [[[fn [[c|v]|]] ex]|]; try discriminate.
  - intros H. inversion H. left. destruct (mem c (ws_cols st)); reflexivity.
  - destruct (const_lookup v (ws_temps st)); intros H; inversion H; [left; reflexivity|]. right. eexists v, _. cbn [ws_temps ws_names].
    split; [reflexivity|]. split; [apply unused_column_name_fresh|reflexivity].
  - intros H. inversion H. left. reflexivity.
Qed.
Lemma pcollect_fresh st ke st' : pcollect st ke = Some st' ->
  ps_temps st' = ps_temps st \/ exists v name, ps_temps st' = ps_temps st ++ [(v, name)] /\ ~ In name (ps_names st) /\ ps_names st' = ps_names st ++ [name].
Proof.
  unfold pcollect. destruct (agg_shape (snd ke)) as [[fn [[c|v]|]]|]; try discriminate; try (intros H; inversion H; left; reflexivity).
  destruct (const_lookup v (ps_temps st)); intros H; inversion H; [left; reflexivity|]. right. eexists v, _. cbn [ps_temps ps_names].
  split; [reflexivity|]. split; [apply unused_column_name_fresh|reflexivity].
Qed.
Lemma project_scratch_fresh (ops : list (string * expr)) (res : table) :
  let temp := unused_column_name base_project_temp (set_union (cols res) (map fst ops)) in ~ In temp (cols res) /\ ~ In temp (map fst ops).
Proof. cbv zeta. exact (T_fresh ops res). Qed.
Lemma join_scratch_fresh (left right : table) :
  let names := set_union (cols left) (cols right) in
  let common := set_inter (cols left) (cols right) in
  (forall c, In c common -> ~ In (sapp c (right_suffix common names)) (cols left) /\ ~ In (sapp c (right_suffix common names)) (cols right)) /\
  (~ In (unused_column_name base_merge_col names) (cols left) /\ ~ In (unused_column_name base_merge_col names) (cols right)) /\
  (~ In (unused_column_name base_null_key names) (cols left) /\ ~ In (unused_column_name base_null_key names) (cols right)).
Proof.
  cbv zeta. split; [|split; split].
  - intros c Ic. pose proof (right_suffix_fresh _ (set_union (cols left) (cols right)) c Ic) as F. split; intros I; apply F, In_set_union; [left|right]; exact I.
  - intros I. apply (unused_column_name_fresh base_merge_col (set_union (cols left) (cols right))), In_set_union. left. exact I.
  - intros I. apply (unused_column_name_fresh base_merge_col (set_union (cols left) (cols right))), In_set_union. right. exact I.
  - intros I. apply (unused_column_name_fresh base_null_key (set_union (cols left) (cols right))), In_set_union. left. exact I.
  - intros I. apply (unused_column_name_fresh base_null_key (set_union (cols left) (cols right))), In_set_union. right. exact I.
Qed.
