(* SQLGEN, part 4: one lemma per generated step (stage i): table / table_reference, select_rows, order_rows, un-windowed extend,
   rename_columns, map_columns: the step built by the generator over a sub-query that delivers the source's table delivers the
   node's table. *)
From Coq Require Import List Bool Arith ZArith QArith String Lia.
Import ListNotations.
From DA Require Import Base.PyRT Base.Val Model.Sem Proofs.SemBasicP Model.ColumnsUsed Proofs.ColumnsUsedP1 Proofs.ColumnsUsedP2
  Proofs.ColumnsUsedP3 Proofs.ColumnsUsedP4 Proofs.ComposeP Model.SqlGen Model.SqlSem Proofs.SqlGenP1 Proofs.SqlGenP2 Proofs.SqlGenP3.
Local Open Scope list_scope.

Section Nodes.
Variable fl : flavor.
Variable e : env.

Lemma sfx_rows_In sfx A r : In r (sfx_rows fl sfx A) -> In r (rows A).
Proof.
  destruct sfx as [|x|gb|keys lim]; simpl; try tauto.
  - intros I. apply filter_In in I. tauto.
  - unfold sort_limit. intros I. destruct lim; [apply firstn_In in I|]; apply stable_sort_In in I; exact I.
Qed.

Lemma keys_pass u : map fst (pass_terms u) = u.
Proof. unfold pass_terms. rewrite map_map. simpl. apply map_id. Qed.
Lemma term_of_pass u k : term_of (pass_terms u) k = TmPass.
Proof.
  unfold term_of. destruct (dict_get (pass_terms u) k) as [t|] eqn:G; [|reflexivity].
  apply dict_get_In in G. unfold pass_terms in G. apply in_map_iff in G. destruct G as [x [E _]]. congruence.
Qed.
Lemma pass_scalar u kt : In kt (pass_terms u) -> scalar_term (snd kt) = true.
Proof. unfold pass_terms. intros I. apply in_map_iff in I. destruct I as [x [<- _]]. reflexivity. Qed.

(* a fresh step with plain terms whose rows are the suffix's rows of the pruned input, transformed one by one by g *)
Lemma fresh_scalar sub us S nm tms sfx mg dp u T T1 (g : list val -> list val) :
  Delivers fl e sub us S -> NoDup us ->
  NoDup (map fst tms) -> incl u (map fst tms) -> incl u (cols T) -> (tms = [] -> u = []) ->
  not_group sfx = true -> (forall kt, In kt tms -> scalar_term (snd kt) = true) ->
  (forall K, incl K u -> sel K T = sel K T1) ->
  rows T1 = map g (sfx_rows fl sfx (sel us S)) ->
  (forall r k, List.length r = List.length us -> In k u -> eval_item fl us r k (term_of tms k) = get (cols T1) (g r) k) ->
  (forall k, In k u -> incl (item_cols (k, term_of tms k)) us) -> incl (sfx_cols sfx) us ->
  Delivers fl e (TUnary nm (norm tms) sub (mk_tci (Some us) false None) sfx mg dp) u T.
Proof.
  intros D Nus ND Iu IuT Hnil NG HS Hpr Hrows Hcell Hloc Hsfx.
  assert (exists X, sql_select fl true None None sfx (sel us S) = Some X /\ sel [] X = sel [] T) as Hstar.
  { eexists. split; [apply star_is, NG|]. rewrite (Hpr [] (fun x (H : In x []) => match H with end)).
    apply sel_nil_length. cbn [rows]. rewrite Hrows, map_length. reflexivity. }
  destruct tms as [|t0 tms'].
  - rewrite (Hnil eq_refl). simpl. apply (fresh_unary_star fl e sub us S); assumption.
  - change (norm (t0 :: tms')) with (Some (t0 :: tms')).
    apply (fresh_unary fl e sub us S); try assumption; try discriminate.
    + intros K NE NK IK.
      assert (forall k, In k K -> scalar_term (term_of (t0 :: tms') k) = true) as HK.
      { intros k Ik. unfold term_of. destruct (dict_get (t0 :: tms') k) as [t|] eqn:G; [|reflexivity]. apply dict_get_In in G. apply (HS _ G). }
      refine (eq_trans (sql_select_scalar fl true (t0 :: tms') K sfx (sel us S) NE NG HK) _).
      f_equal. rewrite (Hpr K IK). change (sel K T1) with (mktable K (map (fun r => map (get (cols T1) r) K) (rows T1))).
      f_equal. rewrite Hrows, map_map.
      apply map_ext_in. intros r Ir. apply map_ext_in. intros k Ik. cbn [cols].
      apply Hcell; [|apply IK, Ik]. apply sfx_rows_In in Ir. simpl in Ir. apply in_map_iff in Ir. destruct Ir as [r0 [<- _]]. apply map_length.
    + apply scalar_count; assumption.
    + apply scalar_sub; assumption.
Qed.

(* ------------------------------------------------------------------ table descriptions *)
Definition wf_table_for (cs : list string) (st : table) : Prop := cols st = cs /\ width_ok st.

Lemma delivers_table name cs st u ts :
  dict_get e name = Some st -> wf_table_for cs st -> NoDup cs -> incl u ts -> incl ts cs -> NoDup ts ->
  Delivers fl e (TTable name (norm ts)) u st.
Proof.
  intros G [EC W] N Iu It Nt.
  assert (tkeys (TTable name (norm ts)) = ts) as EK by (destruct ts; reflexivity).
  constructor.
  - rewrite EK. exact Nt.
  - rewrite EK. exact Iu.
  - rewrite EC. intros x Hx. apply It, Iu, Hx.
  - intros K NE NK IK. simpl. rewrite G. destruct K as [|k0 K']; [congruence|]. simpl. eexists. split; [reflexivity|]. split; [apply sel_nil_sel|]. split; [reflexivity|].
    intros C _ IC _. apply sel_sel, IC.
  - simpl. rewrite G. exists st. split; reflexivity.
  - intros n ts' [= <- _]. exists st. split; [exact G|reflexivity].
Qed.

Lemma sel_id_table cs st : wf_table_for cs st -> NoDup cs -> sel cs st = st.
Proof. intros [EC W] N. subst cs. apply select_cols_id; assumption. Qed.

(* table_reference_N : SELECT the requested columns FROM the stored table *)
Lemma delivers_table_reference name cs st u nm :
  dict_get e name = Some st -> wf_table_for cs st -> NoDup cs -> NoDup u -> incl u cs -> u <> [] ->
  Delivers fl e (TUnary nm (norm (map (fun k => (k, TmSelf)) u)) (TTable name (norm (filter (fun c => mem c u) cs)))
                        (mk_tci (Some u) false None) SfxNone false None) u st.
Proof.
  intros G WF N Nu Iu NE.
  assert (Delivers fl e (TTable name (norm (filter (fun c => mem c u) cs))) u st) as D.
  { apply (delivers_table name cs st u _ G WF N).
    - intros x Hx. apply filter_In. split; [apply Iu, Hx|apply mem_In, Hx].
    - intros x Hx. apply filter_In in Hx. tauto.
    - apply NoDup_filter, N. }
  assert (map fst (map (fun k => (k, TmSelf)) u) = u) as EK by (rewrite map_map; apply map_id).
  apply (fresh_scalar _ u st nm _ SfxNone false None u st (sel u st) (fun r => r)); try assumption.
  - rewrite EK. exact Nu.
  - rewrite EK. apply incl_refl.
  - destruct WF as [EC _]. rewrite EC. exact Iu.
  - destruct u; [congruence|discriminate].
  - reflexivity.
  - intros kt I. apply in_map_iff in I. destruct I as [x [<- _]]. reflexivity.
  - intros K IK. symmetry. apply sel_sel, IK.
  - simpl. rewrite map_id. reflexivity.
  - intros r k L Ik. cbn [cols]. unfold term_of. destruct (dict_get _ k) as [t|] eqn:Gt; [|reflexivity].
    apply dict_get_In in Gt. apply in_map_iff in Gt. destruct Gt as [x [[= <- <-] _]]. reflexivity.
  - intros k Ik x Hx. unfold term_of in Hx. destruct (dict_get _ k) as [t|] eqn:Gt.
    + apply dict_get_In in Gt. apply in_map_iff in Gt. destruct Gt as [y [[= <- <-] _]]. simpl in Hx. destruct Hx as [<-|[]]. exact Ik.
    + simpl in Hx. destruct Hx as [<-|[]]. exact Ik.
  - intros x [].
Qed.

(* ------------------------------------------------------------------ common facts about a unary node *)
Lemma NoDup_set_union (a b : list string) : NoDup a -> NoDup (set_union a b).
Proof. intros N. unfold set_union. apply NoDup_fold_add_end, N. Qed.
Lemma NoDup_set_inter (a b : list string) : NoDup a -> NoDup (set_inter a b).
Proof. intros N. unfold set_inter. apply NoDup_filter, N. Qed.

(* ------------------------------------------------------------------ select_rows *)
Lemma node_select_rows s x sub u S nm :
  builder_ok (OSelectRows s x) = true -> sem_gen fl s e = Some S -> NoDup u -> incl u (column_names s) ->
  Delivers fl e sub (cfs1 (OSelectRows s x) u) S ->
  Delivers fl e (TUnary nm (norm (pass_terms u)) sub (mk_tci (Some (cfs1 (OSelectRows s x) u)) false None) (SfxWhere x) false None)
           u (sem_select_rows fl x S).
Proof.
  intros BO ES Nu Iu D. set (p := OSelectRows s x) in *. set (us := cfs1 p u) in *.
  pose proof BO as BO'. simpl in BO'. apply andb_true_iff in BO'. destruct BO' as [BOs Bx]. pose proof (proj1 (subset_spec _ _) Bx) as Ix.
  pose proof (builder_ok_nodup s BOs) as Ns. pose proof (sem_cols fl s e S ES) as EC.
  assert (forall c, In c us <-> (In c (column_names s) /\ In c u) \/ In c (cols_used x)) as Hus.
  { intros c. unfold us, cfs1. simpl. rewrite In_set_union, In_set_inter. tauto. }
  assert (NoDup us) as Nus by (unfold us, cfs1; simpl; apply NoDup_set_union, NoDup_set_inter, Ns).
  assert (incl us (cols S)) as Ius. { rewrite EC. intros c Hc. apply Hus in Hc. destruct Hc as [[H _]|H]; [exact H|apply Ix, H]. }
  assert (sem_gen fl p e = Some (sem_select_rows fl x S)) as ET by (simpl; rewrite ES; reflexivity).
  assert (forall K, incl K u -> sel K (sem_select_rows fl x S) = sel K (sem_select_rows fl x (sel us S))) as Hpr.
  { intros K IK. destruct (prune_unary fl e p s us u K S _ BO eq_refl Iu IK ES ET (fun c H => H) Ius) as [T1 [E1 E2]].
    simpl in E1. rewrite ES in E1. simpl in E1. injection E1 as <-. exact E2. }
  apply (fresh_scalar sub us S nm (pass_terms u) (SfxWhere x) false None u _ (sem_select_rows fl x (sel us S)) (fun r => r)); try assumption.
  - rewrite keys_pass. exact Nu.
  - rewrite keys_pass. apply incl_refl.
  - simpl. rewrite EC. exact Iu.
  - destruct u; [reflexivity|discriminate].
  - reflexivity.
  - apply pass_scalar.
  - simpl. rewrite map_id. reflexivity.
  - intros r k L Ik. rewrite term_of_pass. reflexivity.
  - intros k Ik c Hc. rewrite term_of_pass in Hc. simpl in Hc. destruct Hc as [<-|[]]. apply Hus. left. split; [apply Iu, Ik|exact Ik].
  - intros c Hc. apply Hus. right. exact Hc.
Qed.

(* ------------------------------------------------------------------ order_rows *)
Lemma node_order s cs rev lim sub u S nm :
  builder_ok (OOrder s cs rev lim) = true -> sem_gen fl s e = Some S -> NoDup u -> incl u (column_names s) ->
  let us := filter (fun c => mem c (cfs1 (OOrder s cs rev lim) u)) (column_names s) in
  Delivers fl e sub us S ->
  Delivers fl e (TUnary nm (norm (pass_terms us)) sub (mk_tci (Some us) false None) (SfxOrder (map (fun c => (c, mem c rev)) cs) lim) false None)
           u (sem_order fl cs rev lim S).
Proof.
  intros BO ES Nu Iu us D. set (p := OOrder s cs rev lim) in *.
  pose proof BO as BO'. simpl in BO'. rewrite !andb_true_iff in BO'. destruct BO' as [[BOs Bc] Br]. pose proof (proj1 (subset_spec _ _) Bc) as Ic.
  pose proof (builder_ok_nodup s BOs) as Ns. pose proof (sem_cols fl s e S ES) as EC.
  assert (forall c, In c us <-> In c (column_names s) /\ (In c u \/ In c cs)) as Hus.
  { intros c. unfold us. rewrite filter_In. split.
    - intros [H1 H2]. apply mem_In in H2. unfold cfs1 in H2; simpl in H2. apply in_app_iff in H2.
      destruct H2 as [H2|H2]; [apply In_set_inter in H2|]; tauto.
    - intros [H1 H2]. split; [exact H1|]. apply mem_In. unfold cfs1; simpl. apply in_app_iff.
      destruct H2 as [H2|H2]; [left; apply In_set_inter; tauto|right; exact H2]. }
  assert (NoDup us) as Nus by (apply NoDup_filter, Ns).
  assert (incl us (cols S)) as Ius. { rewrite EC. intros c Hc. apply Hus in Hc. tauto. }
  assert (sem_gen fl p e = Some (sem_order fl cs rev lim S)) as ET by (simpl; rewrite ES; reflexivity).
  assert (forall K, incl K u -> sel K (sem_order fl cs rev lim S) = sel K (sem_order fl cs rev lim (sel us S))) as Hpr.
  { intros K IK.
    assert (forall c, In c (cfs1 p u) -> In c us) as H1.
    { intros c Hc. apply Hus. unfold cfs1 in Hc. simpl in Hc. apply in_app_iff in Hc. rewrite In_set_inter in Hc. destruct Hc as [[H H0]|H]; [tauto|]. split; [apply Ic, H|tauto]. }
    destruct (prune_unary fl e p s us u K S _ BO eq_refl Iu IK ES ET H1 Ius) as [T1 [E1 E2]].
    simpl in E1. rewrite ES in E1. simpl in E1. injection E1 as <-. exact E2. }
  assert (incl u us) as Iuus by (intros c Hc; apply Hus; split; [apply Iu, Hc|left; exact Hc]).
  apply (fresh_scalar sub us S nm (pass_terms us) _ false None u _ (sem_order fl cs rev lim (sel us S)) (fun r => r)); try assumption.
  - rewrite keys_pass. exact Nus.
  - rewrite keys_pass. exact Iuus.
  - simpl. rewrite EC. exact Iu.
  - intros X. assert (us = []) as X' by (destruct us; [reflexivity|discriminate]). destruct u as [|c0 u']; [reflexivity|]. specialize (Iuus c0 (or_introl eq_refl)). rewrite X' in Iuus. destruct Iuus.
  - reflexivity.
  - apply pass_scalar.
  - simpl. rewrite map_id. reflexivity.
  - intros r k L Ik. rewrite term_of_pass. reflexivity.
  - intros k Ik c Hc. rewrite term_of_pass in Hc. simpl in Hc. destruct Hc as [<-|[]]. apply Iuus, Ik.
  - simpl. rewrite map_map. simpl. rewrite map_id. intros c Hc. apply Hus. split; [apply Ic, Hc|right; exact Hc].
Qed.

End Nodes.
