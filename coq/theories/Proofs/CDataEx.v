(* C17: concrete instances used by the Examples and by the refutation witnesses of Props/C17.v *)
From Coq Require Import List Bool ZArith QArith String.
Import ListNotations.
From DA Require Import Base.PyRT Base.Val Model.CData.
Local Open Scope string_scope.

Definition s (x : string) : val := VStr x.
Definition n (a : Z) (b : positive) : val := VNum (a # b).

(* A: one control key, two value columns, two control rows *)
Definition ex_A : recspec :=
  mkspec ["id"] (mktable ["k"; "v1"; "v2"] [[s "a"; s "x1"; s "y1"]; [s "b"; s "x2"; s "y2"]]) ["k"] true.
(* B: the same four names in one value column, four control rows *)
Definition ex_B : recspec :=
  mkspec ["id"] (mktable ["j"; "w"] [[s "p"; s "x1"]; [s "q"; s "y2"]; [s "r"; s "y1"]; [s "t"; s "x2"]]) ["j"] true.
(* C: two control keys (a number and a string), keys listed in the other order, key columns not first *)
Definition ex_C : recspec :=
  mkspec ["id"] (mktable ["u1"; "m"; "u2"; "g"] [[s "y2"; n 1 1; s "x2"; s "l"]; [s "x1"; n 1 1; s "y1"; s "r"]]) ["g"; "m"] true.

(* two records, a null, an extra column, shuffled columns and rows *)
Definition ex_rows : table :=
  mktable ["x1"; "id"; "y1"; "x2"; "y2"; "extra"]
    [[n 3 2; n 2 1; s "s"; VNull; n 4 1; n 9 1]; [n 5 2; n 1 1; VNull; n 3 1; n 5 1; n 9 1]].
(* the same records as complete A-blocks *)
Definition ex_blocks : table :=
  mktable ["v2"; "id"; "k"; "v1"]
    [[n 4 1; n 2 1; s "b"; VNull]; [s "s"; n 2 1; s "a"; n 3 2]; [VNull; n 1 1; s "a"; n 5 2]; [n 5 1; n 1 1; s "b"; n 3 1]].

(* L: a layout over only two of the four names: A -> L drops values *)
Definition ex_L : recspec :=
  mkspec ["id"] (mktable ["j"; "w"] [[s "p"; s "x1"]; [s "q"; s "y2"]]) ["j"] true.
Definition m_AL := mkmap (Some ex_A) (Some ex_L) true.
Definition m_Lr := mkmap (Some ex_L) None true.

Definition m_rA := mkmap None (Some ex_A) true.
Definition m_AB := mkmap (Some ex_A) (Some ex_B) true.
Definition m_BC := mkmap (Some ex_B) (Some ex_C) true.
Definition m_Br := mkmap (Some ex_B) None true.

Definition unwrap (c : cres) : recmap := match c with CMap m => m | _ => mkmap None None false end.
Definition get_ok (r : res table) : table := match r with Ok t => t | _ => mktable [] [] end.
