(* C10, part 2: the agreement relation between a table and its pruned / perturbed twin, and one lemma per operator:
   if the sources agree on the columns the node asks for, the results agree on the columns asked of the node. *)
From Coq Require Import List Bool Arith ZArith QArith String Lia.
Import ListNotations.
From DA Require Import Base.PyRT Base.Val Model.Sem Proofs.SemBasicP Model.ColumnsUsed Proofs.ColumnsUsedP1.
Local Open Scope list_scope.

(* rows r (of a table with columns cs) and r' (columns cs') carry the same value in every column of u *)
Definition rowrel (u cs cs' : list string) (r r' : list val) : Prop := forall c, In c u -> get cs r c = get cs' r' c.

(* T' (the pruned / narrowed / perturbed twin) against T on the columns u:
   T' has no column T lacks, has every column of u that T has, has as many rows, and row by row the same cells in u *)
Definition agree (u : list string) (T T' : table) : Prop :=
  incl (cols T') (cols T) /\ (forall c, In c u -> In c (cols T) -> In c (cols T')) /\
  Forall2 (rowrel u (cols T) (cols T')) (rows T) (rows T').

Lemma agree_mono u u' T T' : incl u u' -> agree u' T T' -> agree u T T'.
Proof.
  intros I [A [B C]]. split; [exact A|]. split.
  - intros c Hc. apply B. apply I. exact Hc.
  - eapply F2_weaken; [exact C|]. intros r r' H c Hc. apply H. apply I. exact Hc.
Qed.

(* a column the source lacks reads as null on both sides; a column it has is read from the agreed part *)
Lemma src_get us S S' r r' x :
  incl (cols S') (cols S) -> rowrel us (cols S) (cols S') r r' -> (In x (cols S) -> In x us) ->
  get (cols S) r x = get (cols S') r' x.
Proof.
  intros I R H. destruct (in_dec string_dec x (cols S)) as [i|n]; [apply R, H, i|].
  rewrite !get_not_In; [reflexivity| |exact n]. intros i. apply n, I, i.
Qed.

Lemma F2_with_widths (R : list val -> list val -> Prop) (T T' : table) :
  width_ok T -> width_ok T' -> Forall2 R (rows T) (rows T') ->
  Forall2 (fun r r' => List.length r = List.length (cols T) /\ List.length r' = List.length (cols T') /\ R r r') (rows T) (rows T').
Proof.
  unfold width_ok. intros W W' H. induction H as [|x y l l' Rxy _ IH]; [constructor|].
  inversion W; inversion W'; subst. constructor; auto.
Qed.

Lemma key_of_local cs cs' ks r r' : (forall x, In x ks -> get cs r x = get cs' r' x) -> key_of cs ks r = key_of cs' ks r'.
Proof. intros H. unfold key_of. apply map_ext_in. exact H. Qed.

Lemma row_le_local fl cs cs' keys r1 r2 r1' r2' :
  (forall x, In x (map fst keys) -> get cs r1 x = get cs' r1' x) ->
  (forall x, In x (map fst keys) -> get cs r2 x = get cs' r2' x) ->
  row_le fl cs keys r1 r2 = row_le fl cs' keys r1' r2'.
Proof.
  induction keys as [|[c d] t IH]; intros H1 H2; simpl; [reflexivity|].
  rewrite (H1 c (or_introl eq_refl)), (H2 c (or_introl eq_refl)).
  rewrite IH; [reflexivity| |]; intros x I; [apply H1|apply H2]; right; exact I.
Qed.

(* ------------------------------------------------------------------ table description *)
Lemma agree_table u U cs (keep : string -> bool) t t' :
  incl u cs -> incl u U -> (forall c, In c u -> keep c = true) ->
  Forall2 (rowrel U (cols t) (cols t')) (rows t) (rows t') ->
  agree u (sem_select_cols cs t) (sem_select_cols (filter keep cs) t').
Proof.
  intros Iu IU K H. unfold agree, sem_select_cols. cbn [cols rows]. split; [|split].
  - intros c Hc. apply filter_In in Hc. tauto.
  - intros c Hc Hcs. apply filter_In. split; [exact Hcs|apply K, Hc].
  - eapply F2_map; [exact H|]. intros r r' R c Hc. rewrite !get_map_cols.
    assert (mem c cs = true) as M1 by (apply mem_In, Iu, Hc).
    assert (mem c (filter keep cs) = true) as M2 by (apply mem_In, filter_In; split; [apply Iu, Hc|apply K, Hc]).
    rewrite M1, M2. apply R, IU, Hc.
Qed.

(* ------------------------------------------------------------------ extend *)
Lemma in_ext_cols cs ks c : In c (ext_cols cs ks) <-> In c cs \/ In c ks.
Proof. unfold ext_cols. apply In_fold_add_end. Qed.

Lemma last_for_not_key {X} c (l : list (string * X)) : ~ In c (map fst l) -> last_for c l = None.
Proof.
  intros N. destruct (last_for c l) as [ke|] eqn:E; [|reflexivity]. exfalso. apply N.
  destruct (last_for_In _ _ _ E) as [I <-]. apply in_map. exact I.
Qed.

(* what an extend needs for the columns u: for an assigned column the columns of its (last) expression, for any other
   column the column itself -- in both cases only where the source has the column at all *)
Definition extend_needs (ops : list (string * expr)) (u us cs : list string) : Prop :=
  forall c, In c u ->
    match last_for c ops with
    | Some ke => forall x, In x (cols_used (snd ke)) -> In x cs -> In x us
    | None => In c cs -> In c us
    end.

Lemma agree_ext_cols (ops : list (string * expr)) u us S S' :
  agree us S S' -> extend_needs ops u us (cols S) ->
  incl (ext_cols (cols S') (map fst ops)) (ext_cols (cols S) (map fst ops)) /\
  (forall c, In c u -> In c (ext_cols (cols S) (map fst ops)) -> In c (ext_cols (cols S') (map fst ops))).
Proof.
  intros [A [B _]] N. split.
  - intros c Hc. apply in_ext_cols in Hc. apply in_ext_cols. destruct Hc; [left; apply A|right]; assumption.
  - intros c Hu Hc. apply in_ext_cols in Hc. apply in_ext_cols.
    destruct (in_dec string_dec c (map fst ops)) as [i|n]; [right; exact i|]. left.
    destruct Hc as [Hc|Hc]; [|contradiction]. specialize (N c Hu). rewrite (last_for_not_key c ops n) in N.
    apply B; [apply N, Hc|exact Hc].
Qed.

Lemma agree_extend fl ops u us S S' :
  width_ok S -> width_ok S' -> agree us S S' -> extend_needs ops u us (cols S) ->
  agree u (sem_extend fl ops S) (sem_extend fl ops S').
Proof.
  intros W W' Ag N. destruct (agree_ext_cols ops u us S S' Ag N) as [I P]. destruct Ag as [A [B C]].
  unfold agree, sem_extend. cbn [cols rows]. split; [exact I|]. split; [exact P|].
  eapply F2_map; [apply (F2_with_widths _ S S' W W' C)|]. cbv beta. intros r r' [L [L' R]] c Hc.
  unfold extend_row. rewrite !fold_cells_get_full by assumption. specialize (N c Hc).
  destruct (last_for c ops) as [ke|].
  - apply eval_expr_local. intros x Hx. apply (src_get us S S'); [exact A|exact R|apply N, Hx].
  - apply (src_get us S S'); [exact A|exact R|exact N].
Qed.

(* ------------------------------------------------------------------ windowed extend *)
Lemma win_parts_arg_cols e o a extra : win_parts e = Some (o, Some a, extra) -> incl (cols_used a) (cols_used e).
Proof.
  destruct e as [c|v|o' [|a' rest]]; simpl; try discriminate. intros [= _ <- _]. intros x I. apply in_app_iff. left. exact I.
Qed.

Lemma window_column_local fl w e cs cs' rs rs' :
  Forall2 (fun r r' => forall x, In x (w_part w ++ w_order w ++ cols_used e) -> get cs r x = get cs' r' x) rs rs' ->
  window_column fl w (mktable cs rs) e = window_column fl w (mktable cs' rs') e.
Proof.
  intros H. unfold window_column. cbn [cols rows].
  assert (map (fun r => key_of cs (w_part w) r) rs = map (fun r => key_of cs' (w_part w) r) rs') as EK.
  { eapply F2_map_eq; [exact H|]. cbv beta. intros r r' R. apply key_of_local. intros x I. apply R. apply in_app_iff. left. exact I. }
  rewrite EK. apply flat_map_ext. intros k.
  set (Rt := fun (a b : nat * list val) => fst a = fst b /\
                (forall x, In x (w_part w ++ w_order w ++ cols_used e) -> get cs (snd a) x = get cs' (snd b) x)).
  assert (Forall2 Rt (tag_from 0 rs) (tag_from 0 rs')) as HT.
  { exact (@F2_tag_from (fun r r' => forall x, In x (w_part w ++ w_order w ++ cols_used e) -> get cs r x = get cs' r' x) 0 rs rs' H). }
  assert (Forall2 Rt (filter (fun ir => keys_eqv k (key_of cs (w_part w) (snd ir))) (tag_from 0 rs))
                     (filter (fun ir => keys_eqv k (key_of cs' (w_part w) (snd ir))) (tag_from 0 rs'))) as HF.
  { eapply F2_filter; [exact HT|]. intros a b [_ R]. cbv beta. f_equal. apply key_of_local. intros x I. apply R. apply in_app_iff. left. exact I. }
  match goal with |- context [stable_sort ?le ?l] => set (le1 := le); set (l1 := l) in * end.
  match goal with |- context [stable_sort ?le (filter ?f (tag_from 0 rs'))] => set (le2 := le); set (l2 := filter f (tag_from 0 rs')) in * end.
  assert (Forall2 Rt (stable_sort le1 l1) (stable_sort le2 l2)) as HS.
  { apply F2_stable_sort; [|exact HF]. intros a b c d [_ R1] [_ R2]. unfold le1, le2. apply row_le_local.
    - intros x I. apply R1. rewrite map_map in I. simpl in I. rewrite map_id in I. apply in_app_iff. right. apply in_app_iff. left. exact I.
    - intros x I. apply R2. rewrite map_map in I. simpl in I. rewrite map_id in I. apply in_app_iff. right. apply in_app_iff. left. exact I. }
  assert (map fst (stable_sort le1 l1) = map fst (stable_sort le2 l2)) as EF.
  { eapply F2_map_eq; [exact HS|]. intros a b [E _]. exact E. }
  destruct (win_parts e) as [[[o arg] extra]|] eqn:WP.
  - rewrite EF. f_equal. f_equal. eapply F2_map_eq; [exact HS|]. intros a b [_ R]. cbv beta.
    destruct arg as [a0|]; [|reflexivity]. apply eval_expr_local. intros x I. apply R.
    apply in_app_iff. right. apply in_app_iff. right. eapply win_parts_arg_cols; eassumption.
  - eapply F2_map_eq; [exact HS|]. intros a b [E _]. cbv beta. rewrite E. reflexivity.
Qed.

(* a windowed extend additionally reads its partition and order columns *)
Definition wextend_needs (ops : list (string * expr)) (w : window) (u us cs : list string) : Prop :=
  forall c, In c u ->
    match last_for c ops with
    | Some ke => forall x, In x (w_part w ++ w_order w ++ cols_used (snd ke)) -> In x cs -> In x us
    | None => In c cs -> In c us
    end.

Lemma wextend_get fl ops w T i r c :
  List.length r = List.length (cols T) ->
  get (ext_cols (cols T) (map fst ops))
      (fst (fold_left (fun (acc : list val * list string) (kc : string * list (nat * val)) =>
                         let '(row, ccs) := acc in (set_cell ccs row (fst kc) (lookup_pos (snd kc) i), add_end ccs (fst kc)))
                      (map (fun ke => (fst ke, window_column fl w T (snd ke))) ops) (r, cols T))) c
  = match last_for c ops with Some ke => lookup_pos (window_column fl w T (snd ke)) i | None => get (cols T) r c end.
Proof.
  intros L.
  pose proof (fold_cells_get_full (fun kc : string * list (nat * val) => lookup_pos (snd kc) i)
                (map (fun ke => (fst ke, window_column fl w T (snd ke))) ops) r (cols T) c L) as G.
  rewrite (map_fst_tagged (fun ke => window_column fl w T (snd ke))) in G.
  rewrite (last_for_map c (fun ke => window_column fl w T (snd ke))) in G.
  rewrite G. destruct (last_for c ops); reflexivity.
Qed.

Lemma agree_wextend fl ops w u us S S' :
  width_ok S -> width_ok S' -> agree us S S' -> wextend_needs ops w u us (cols S) ->
  agree u (sem_wextend fl ops w S) (sem_wextend fl ops w S').
Proof.
  intros W W' Ag N.
  assert (extend_needs ops u us (cols S)) as N0.
  { intros c Hc. specialize (N c Hc). destruct (last_for c ops); [|exact N]. intros x Hx. apply N. apply in_app_iff. right. apply in_app_iff. right. exact Hx. }
  destruct (agree_ext_cols ops u us S S' Ag N0) as [I P]. destruct Ag as [A [B C]].
  unfold agree, sem_wextend. cbn [cols rows]. split; [exact I|]. split; [exact P|].
  pose proof (F2_with_widths _ S S' W W' C) as CW.
  eapply F2_map; [apply (@F2_tag_from _ 0 _ _ CW)|]. cbv beta. intros [i r] [i' r'] [Ei [L [L' R]]] c Hc. simpl in Ei. subst i'. simpl in L, L', R.
  cbn [fst snd]. rewrite (wextend_get fl ops w S i r c L), (wextend_get fl ops w S' i r' c L').
  specialize (N c Hc). destruct (last_for c ops) as [ke|].
  - f_equal. destruct S as [cs rs], S' as [cs' rs']. cbn [cols rows] in *. apply window_column_local.
    eapply F2_weaken; [exact C|]. cbv beta. intros q q' Rq x Hx.
    apply (src_get us (mktable cs rs) (mktable cs' rs')); [exact A|exact Rq|apply N, Hx].
  - apply (src_get us S S'); [exact A|exact R|exact N].
Qed.

(* ------------------------------------------------------------------ project *)
Lemma get_keyed_row (gb : list string) {X} (ops : list (string * X)) (g g' : string * X -> val) (k : list val) c :
  List.length k = List.length gb ->
  (forall ke, In ke ops -> fst ke = c -> g ke = g' ke) ->
  get (gb ++ map fst ops) (k ++ map g ops) c = get (gb ++ map fst ops) (k ++ map g' ops) c.
Proof.
  intros L E. destruct (in_dec string_dec c gb) as [i|n].
  - rewrite !get_app_l by assumption. reflexivity.
  - rewrite !get_app_r by assumption. clear L n k.
    unfold get. induction ops as [|a t IH]; simpl; [reflexivity|].
    destruct (eq_dec c (fst a)) as [e|ne]; simpl.
    + apply E; [left; reflexivity|symmetry; exact e].
    + assert (forall ke, In ke t -> fst ke = c -> g ke = g' ke) as E' by (intros ke I; apply E; right; exact I).
      specialize (IH E'). destruct (index_of c (map fst t)); simpl; exact IH.
Qed.

Lemma agg_parts_arg_cols e o a : agg_parts e = Some (o, Some a) -> incl (cols_used a) (cols_used e).
Proof.
  destruct e as [c|v|o' [|a' [|b rest]]]; simpl; try discriminate. intros [= _ <-]. intros x I. apply in_app_iff. left. exact I.
Qed.

Lemma agg_value_local fl cs cs' grp grp' e :
  Forall2 (fun r r' => forall x, In x (cols_used e) -> get cs r x = get cs' r' x) grp grp' ->
  agg_value fl cs grp e = agg_value fl cs' grp' e.
Proof.
  intros H. unfold agg_value. destruct (agg_parts e) as [[o arg]|] eqn:AP; [|reflexivity]. f_equal.
  eapply F2_map_eq; [exact H|]. cbv beta. intros r r' R. destruct arg as [a|]; [|reflexivity].
  apply eval_expr_local. intros x I. apply R. eapply agg_parts_arg_cols; eassumption.
Qed.

Lemma agree_project fl ops gb u us S S' :
  agree us S S' ->
  (forall x, In x gb -> In x (cols S) -> In x us) ->
  (forall ke x, In ke ops -> In (fst ke) u -> In x (cols_used (snd ke)) -> In x (cols S) -> In x us) ->
  agree u (sem_project fl ops gb S) (sem_project fl ops gb S').
Proof.
  intros [A [B C]] Hg Ho. unfold agree, sem_project. cbn [cols rows].
  split; [apply incl_refl|]. split; [tauto|].
  assert (forall r r', rowrel us (cols S) (cols S') r r' -> key_of (cols S) gb r = key_of (cols S') gb r') as KE.
  { intros r r' R. apply key_of_local. intros x I. apply (src_get us S S'); [exact A|exact R|apply Hg, I]. }
  assert (map (key_of (cols S) gb) (rows S) = map (key_of (cols S') gb) (rows S')) as EK by (eapply F2_map_eq; [exact C|exact KE]).
  rewrite EK. set (groups := match gb with [] => [[]] | _ => distinct_keys (map (key_of (cols S') gb) (rows S')) end).
  assert (forall k, In k groups -> List.length k = List.length gb) as LK.
  { intros k I. unfold groups in I. destruct gb as [|g0 gb']; [destruct I as [<-|[]]; reflexivity|].
    apply distinct_keys_sound in I. apply in_map_iff in I. destruct I as [r0 [<- _]]. apply key_of_length. }
  apply F2_refl_map. intros k Ik c Hc.
  apply get_keyed_row; [apply LK, Ik|]. intros ke Ike Ek. apply agg_value_local.
  assert (Forall2 (rowrel us (cols S) (cols S'))
            (filter (fun r => keys_eqv k (key_of (cols S) gb r)) (rows S))
            (filter (fun r => keys_eqv k (key_of (cols S') gb r)) (rows S'))) as HF.
  { eapply F2_filter; [exact C|]. intros r r' R. cbv beta. rewrite (KE r r' R). reflexivity. }
  eapply F2_weaken; [exact HF|]. intros r r' R x Hx. apply (src_get us S S'); [exact A|exact R|].
  apply (Ho ke x Ike); [rewrite Ek; exact Hc|exact Hx].
Qed.
