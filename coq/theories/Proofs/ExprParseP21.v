(* Proofs/ExprParseP21.v -- C13: the statements of Props/C13.v that need a few more steps, and the concrete
   witnesses (vm_compute on closed terms only). *)
From Coq Require Import List Bool String Ascii ZArith NArith QArith Arith.
Import ListNotations.
From DA Require Import Model.PyExpr Model.ExprPrint Model.ExprParse Model.ExprSem Model.ExprAst Model.ExprRoundtrip
  Proofs.ExprParseP4 Proofs.ExprParseP9 Proofs.ExprParseP12 Proofs.ExprParseP14 Proofs.ExprParseP19 Proofs.ExprParseP20.
Local Close Scope Q_scope.
Local Open Scope string_scope.
Local Open Scope list_scope.

Lemma printable_roundtrip_eq (c : cfg) (dd : list string) (e : expr) :
  printable c dd e = true -> is_term e = true ->
  parse c dd (to_python e) = Ok e /\ is_equal e e = true.
Proof. intros H Ht. split; [exact (printable_roundtrip c dd e H Ht)|].
  exact (is_equal_refl_n c dd (S (esize e)) e (Nat.lt_succ_diag_r _) H). Qed.

Lemma roundtrip_of_source_eq (c : cfg) (dd : list string) (d : dtree) (e : expr) :
  wfn d = true -> src_ok d = true ->
  parse c dd (unparse d) = Ok e ->
  exists e', parse c dd (to_python e) = Ok e' /\ e' = e /\ is_equal e e' = true.
Proof. intros Wf Hs Hp. exists e. split; [exact (roundtrip_of_source c dd d e Wf Hs Hp)|split; [reflexivity|]].
  unfold parse in Hp. rewrite (lark_of_unparse d Wf) in Hp. unfold parse_tree in Hp.
  destruct (walk c dd (strip d)) as [e0|] eqn:Hw; [|discriminate Hp]. destruct (is_term e0); [|discriminate Hp].
  inversion Hp; subst e0.
  exact (is_equal_refl_n c dd (S (esize e)) e (Nat.lt_succ_diag_r _) (built_printable c dd d e Wf Hs Hw)). Qed.

(* ---- 'a < b < c' *)
Definition chain_toks : list tok := [TName "a"; TSym "<"; TName "b"; TSym "<"; TName "c"].
Definition chain_tree : ltree :=
  LNode "comparison" [LNode "var" [LTok (TName "a")]; LTok (TSym "<"); LNode "var" [LTok (TName "b")];
                      LTok (TSym "<"); LNode "var" [LTok (TName "c")]].
Definition chain_expr : expr :=
  EOp "<" true false None [EOp "<" true false None [ECol "a"; ECol "b"]; ECol "c"].
Definition chain_env : env := [("a", PInt (-3)); ("b", PInt (-3)); ("c", PInt 5)].
Definition chain_cfg : cfg := mkcfg ["<"].
Definition no_fsem : fsem_t := fun _ _ => None.

(* regression of the defect repaired by 1b8c7b2: the chain parses (it is in the grammar), Python reads it as a
   conjunction (False on these operands), the left-nested expression object the walker used to build says True,
   and the walker now rejects the tree *)
Lemma chain_rejected :
  lark_of chain_toks = Some chain_tree /\
  py_meaning no_fsem chain_env chain_tree = Some (PBool false) /\
  eval no_fsem chain_env chain_expr = Some (PBool true) /\
  parse_tree chain_cfg ["a"; "b"; "c"] chain_tree = Err.
Proof. repeat split; vm_compute; reflexivity. Qed.

(* ---- regressions of the five repaired round-trip defects (a6af5a7, e648ab6, 3753518, 181daac) *)
Definition kcfg : cfg := mkcfg ["+"; "-"; "**"; "&"; "is_in"; "abs"].
Definition kdd : list string := ["a"; "b"; "c"; "p"].

(* (-0.0) ** 2 printed as -0.0 ** 2, read back as -(0.0 ** 2); now printed with its parentheses *)
Definition negzero_src : dtree := DPower (DPar (DFactor "-" (DNum (TFloat (Some 0%Q))))) (DNum (TInt 2)).
Definition negzero_e : expr := EOp "**" true false None [EVal (PFloat true 0%Q); EVal (PInt 2)].
Lemma negzero_regression :
  wfn negzero_src = true /\ src_ok negzero_src = true /\
  parse kcfg kdd (unparse negzero_src) = Ok negzero_e /\
  to_python negzero_e = [TSym "("; TSym "-"; TFloat (Some 0%Q); TSym ")"; TSym "**"; TInt 2] /\
  parse kcfg kdd (to_python negzero_e) = Ok negzero_e.
Proof. repeat split; vm_compute; reflexivity. Qed.

(* 1e400 + a became inf + a, which does not parse; the literal is now rejected *)
Definition inf_src : dtree := DChain 8 (DNum (TFloat None)) [("+", DName "a")].
Lemma inf_regression :
  wfn inf_src = true /\ src_ok inf_src = true /\ parse kcfg kdd (unparse inf_src) = Err.
Proof. repeat split; vm_compute; reflexivity. Qed.

(* a.is_in([-1,]) printed as a.is_in([-1]) which did not parse; a.is_in([True]) was parsed to the EMPTY list *)
Definition short_list_src : dtree :=
  DCall (DAttr (DName "a") "is_in") [DColl BBrack [DFactor "-" (DNum (TInt 1))] true] false.
Definition short_list_e : expr := EOp "is_in" false true None [ECol "a"; EList [PInt (-1)]].
Definition true_list_src : dtree := DCall (DAttr (DName "a") "is_in") [DColl BBrack [DConst "True"] false] false.
Definition true_list_e : expr := EOp "is_in" false true None [ECol "a"; EList [PBool true]].
Definition empty_list_src : dtree := DCall (DAttr (DName "a") "is_in") [DColl BBrack [] false] false.
Lemma short_list_regression :
  wfn short_list_src = true /\ src_ok short_list_src = true /\
  parse kcfg kdd (unparse short_list_src) = Ok short_list_e /\ parse kcfg kdd (to_python short_list_e) = Ok short_list_e /\
  wfn true_list_src = true /\ src_ok true_list_src = true /\
  parse kcfg kdd (unparse true_list_src) = Ok true_list_e /\ parse kcfg kdd (to_python true_list_e) = Ok true_list_e /\
  parse kcfg kdd (unparse empty_list_src) = Ok (EOp "is_in" false true None [ECol "a"; EList []]).
Proof. repeat split; vm_compute; reflexivity. Qed.

(* (+p)(a, c) was accepted as the function "+"; a.__and__(b) built a & b: both are rejected now *)
Definition called_operator_src : dtree := DCall (DPar (DFactor "+" (DName "p"))) [DName "a"; DName "c"] false.
Definition dunder_src : dtree := DCall (DAttr (DName "a") "__and__") [DName "b"] false.
Lemma call_target_regression :
  wfn called_operator_src = true /\ src_ok called_operator_src = true /\
  parse kcfg kdd (unparse called_operator_src) = Err /\
  wfn dunder_src = true /\ src_ok dunder_src = true /\ parse kcfg kdd (unparse dunder_src) = Err.
Proof. repeat split; vm_compute; reflexivity. Qed.

(* ---- a non-trivial instance of every guard:  not p and -a ** 2 + b.abs() * (c - 1) < 3 *)
Definition sample_src : dtree :=
  DChain 1 (DNot (DName "p"))
    [("and", DChain 3
        (DChain 8 (DFactor "-" (DPower (DName "a") (DNum (TInt 2))))
           [("+", DChain 9 (DCall (DAttr (DName "b") "abs") [] false)
                    [("*", DPar (DChain 8 (DName "c") [("-", DNum (TInt 1))]))])])
        [("<", DNum (TInt 3))])].
Definition sample_cfg : cfg := mkcfg ["and"; "=="; "<"; "+"; "-"; "*"; "**"; "abs"].
Definition sample_env : env := [("a", PInt 3); ("b", PInt (-2)); ("c", PInt 5); ("p", PBool false)].
Definition sample_e : expr :=
  EOp "and" true false None
    [EOp "==" true false None [ECol "p"; EVal (PBool false)];
     EOp "<" true false None
       [EOp "+" true false None
          [EOp "-" true false None [EOp "**" true false None [ECol "a"; EVal (PInt 2)]];
           EOp "*" true false None [EOp "abs" false true None [ECol "b"];
                                    EOp "-" true false None [ECol "c"; EVal (PInt 1)]]];
        EVal (PInt 3)]].

Lemma sample_guards :
  wfn sample_src = true /\ src_ok sample_src = true /\
  parse sample_cfg kdd (unparse sample_src) = Ok sample_e /\
  printable sample_cfg kdd sample_e = true /\ is_term sample_e = true /\
  py_meaning concrete_fsem sample_env (strip sample_src) = Some (PBool true) /\
  eval concrete_fsem sample_env sample_e = Some (PBool true).
Proof. repeat split; vm_compute; reflexivity. Qed.

Lemma sample_trees :
  lark_of [TName "a"; TSym "-"; TName "b"; TSym "-"; TName "c"]
    = Some (LNode "arith_expr" [LNode "var" [LTok (TName "a")]; LTok (TSym "-"); LNode "var" [LTok (TName "b")];
                                LTok (TSym "-"); LNode "var" [LTok (TName "c")]])
  /\ lark_of [TSym "-"; TName "a"; TSym "**"; TName "b"; TSym "**"; TName "c"]
    = Some (LNode "factor" [LTok (TSym "-");
              LNode "power" [LNode "var" [LTok (TName "a")];
                             LNode "power" [LNode "var" [LTok (TName "b")]; LNode "var" [LTok (TName "c")]]]]).
Proof. split; vm_compute; reflexivity. Qed.
