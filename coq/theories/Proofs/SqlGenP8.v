(* SQLGEN, part 8: the statements of Props/SQLGEN.v for stage (i), derived from the invariant. *)
From Coq Require Import List Bool Arith ZArith QArith String Lia Permutation.
Import ListNotations.
From DA Require Import Base.PyRT Base.Val Model.Sem Proofs.SemBasicP Model.ColumnsUsed Proofs.ColumnsUsedP1 Proofs.ColumnsUsedP4
  Proofs.ComposeP Model.SqlGen Model.SqlSem Proofs.SqlGenP1 Proofs.SqlGenP2 Proofs.SqlGenP4 Proofs.SqlGenP6 Proofs.SqlGenP7.
Local Open Scope list_scope.

Lemma stage1_correct fl (e : env) d p usg ids q ids' :
  builder_ok p = true -> stage1 (d_allow_extend_merges d) (join_covered d fl) p = true -> wf_env e p ->
  NoDup (req p usg) -> incl (req p usg) (column_names p) ->
  to_near d p usg ids = Ok (q, ids') ->
  exists T, sem_gen fl p e = Some T /\
    forall C, C <> [] -> NoDup C -> incl C (req p usg) -> qsem fl e q (Some C) = Some (sel C T).
Proof.
  intros BO St WF Nu Iu H. unfold to_near in H.
  destruct (gen_stage1 fl e _ d p usg ids q ids' BO St WF Nu Iu H) as [T [ET [D _]]].
  exists T. split; [exact ET|]. intros C NC NDC IC.
  assert (incl C (tkeys q)) as ICk by (intros x Hx; apply (dv_incl _ _ _ _ _ D), IC, Hx).
  destruct (dv_sel _ _ _ _ _ D C NC NDC ICk) as [R [E1 [_ [E3 _]]]]. rewrite E1, (E3 IC). reflexivity.
Qed.

Lemma sel_width_id K R : cols R = K -> NoDup K -> width_ok R -> sel K R = R.
Proof. intros E N W. subst K. apply select_cols_id; assumption. Qed.

Lemma stage1_toplevel fl (e : env) d p ids q ids' :
  builder_ok p = true -> stage1 (d_allow_extend_merges d) (join_covered d fl) p = true -> wf_env e p ->
  to_near d p None ids = Ok (q, ids') ->
  exists T R, sem_gen fl p e = Some T /\ nsem fl q e = Some R /\
    sel (column_names p) R = T /\ incl (column_names p) (cols R) /\ NoDup (cols R) /\
    Permutation (rows (sel (column_names p) R)) (rows T).
Proof.
  intros BO St WF H. unfold to_near in H.
  pose proof (builder_ok_nodup p BO) as Np.
  destruct (gen_stage1 fl e _ d p None ids q ids' BO St WF Np (incl_refl _) H) as [T [ET [D _]]]. cbn [req] in D.
  pose proof (stage1_cols_nonempty _ _ p BO St) as NE.
  assert (tkeys q <> []) as NK.
  { destruct (column_names p) as [|c0 t] eqn:E; [congruence|]. intros X. pose proof (dv_incl _ _ _ _ _ D c0 (or_introl eq_refl)) as I. rewrite X in I. destruct I. }
  destruct (dv_sel _ _ _ _ _ D (tkeys q) NK (dv_nodup _ _ _ _ _ D) (incl_refl _)) as [R [E1 [_ [_ E4]]]].
  exists T, R. split; [exact ET|]. unfold nsem. rewrite (qsem_none_own fl e q NK). split; [exact E1|].
  assert (sel (column_names p) R = T) as ER.
  { rewrite (E4 (column_names p) Np (dv_incl _ _ _ _ _ D) (incl_refl _)).
    apply sel_width_id; [exact (sem_cols fl p e T ET)|exact Np|exact (sem_rows_width fl p e T ET)]. }
  assert (cols R = tkeys q) as EC.
  { clear - E1 NK. destruct q as [n0 ts|nm l s ci sfx mg dp|nm l s1 c1 j s2 c2 on]; simpl in *.
    - destruct (dict_get e n0); [|discriminate]. destruct ts as [ts|]; [|congruence]. destruct ts; [congruence|]. injection E1 as <-. reflexivity.
    - destruct l as [l|]; [|congruence]. destruct (if by_name s ci then _ else _) as [t|]; [|discriminate].
      unfold sql_select in E1. rewrite (select_keys_some true l (map fst l) NK) in E1.
      destruct sfx; repeat (match type of E1 with context [if ?b then _ else _] => destruct b end); try discriminate; injection E1 as <-; reflexivity.
    - destruct l as [l|]; [|congruence]. destruct (if by_name s1 c1 then _ else _) as [t1|]; [|discriminate]. destruct (if by_name s2 c2 then _ else _) as [t2|]; [|discriminate].
      destruct j.
      + unfold sql_join_select in E1. rewrite (select_keys_some false l (map fst l) NK) in E1. destruct (ambiguous _ _ _); [discriminate|]. injection E1 as <-. reflexivity.
      + destruct (union_all t1 t2); [|discriminate]. unfold sql_select in E1. rewrite (select_keys_some false l (map fst l) NK) in E1.
        repeat (match type of E1 with context [if ?b then _ else _] => destruct b end); try discriminate; injection E1 as <-; reflexivity. }
  split; [exact ER|]. split; [rewrite EC; exact (dv_incl _ _ _ _ _ D)|]. split; [rewrite EC; exact (dv_nodup _ _ _ _ _ D)|].
  rewrite ER. apply Permutation_refl.
Qed.

Lemma stage1_row_count fl (e : env) d p usg ids q ids' :
  builder_ok p = true -> stage1 (d_allow_extend_merges d) (join_covered d fl) p = true -> wf_env e p ->
  NoDup (req p usg) -> incl (req p usg) (column_names p) ->
  to_near d p usg ids = Ok (q, ids') ->
  exists T R, sem_gen fl p e = Some T /\ qsem fl e q (Some []) = Some R /\ List.length (rows R) = List.length (rows T).
Proof.
  intros BO St WF Nu Iu H. unfold to_near in H.
  destruct (gen_stage1 fl e _ d p usg ids q ids' BO St WF Nu Iu H) as [T [ET [D _]]].
  destruct (dv_nil _ _ _ _ _ D) as [R [E1 E2]]. exists T, R. split; [exact ET|]. split; [exact E1|].
  apply (f_equal (fun t => List.length (rows t))) in E2. simpl in E2. rewrite !map_length in E2. exact E2.
Qed.
