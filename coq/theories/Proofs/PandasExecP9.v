(* PEXEC, part 9: the unspecified row order of an INNER pandas.merge.
   px_join_with arr (the step as transcribed: pandas.merge may list the rows of an inner join in any order `arr` chooses) returns,
   for every rearrangement arr that is a permutation, a row permutation of px_join (the same step with the inner rows left-major,
   analysed in part 5): everything the step does after the merge (drop_indices, del scratch columns, the coalescing loop) works row
   by row.  Hence px_join_with arr refines sem_join like px_join does.  All statements proved. *)
From Coq Require Import List Bool Arith ZArith QArith String Ascii Lia Permutation.
Import ListNotations.
From DA Require Import Base.PyRT Base.Val Model.Sem Model.PdPrim Model.PandasExec
  Proofs.SemBasicP Proofs.ComposeP5 Proofs.PandasExecP1 Proofs.PandasExecP5.
Local Open Scope string_scope.
Local Open Scope list_scope.

Definition arranger_ok (arr : arranger) : Prop := forall l, Permutation (arr l) l.
Lemma id_arranger_ok : arranger_ok id_arranger.
Proof. intros l. apply Permutation_refl. Qed.

(* a frame operation that works row by row: whether it succeeds and which columns it returns depend on the column names only, and
   each result row is a function of the row it comes from *)
Definition rowmap (F : table -> option table) : Prop :=
  forall cs, (exists cs' f, forall rs, F (mktable cs rs) = Some (mktable cs' (map f rs))) \/ (forall rs, F (mktable cs rs) = None).

Lemma rowmap_ret : rowmap (fun t => Some t).
Proof. intros cs. left. exists cs, (fun r => r). intros rs. rewrite map_id. reflexivity. Qed.

Lemma rowmap_bind F G : rowmap F -> rowmap G -> rowmap (fun t => x <- F t ;; G x).
Proof.
  intros HF HG cs. destruct (HF cs) as [[cs' [f Hf]]|Hn].
  - destruct (HG cs') as [[cs'' [g Hg]]|Hn].
    + left. exists cs'', (fun r => g (f r)). intros rs. rewrite Hf. cbn [obind]. rewrite Hg, map_map. reflexivity.
    + right. intros rs. rewrite Hf. cbn [obind]. apply Hn.
  - right. intros rs. rewrite Hn. reflexivity.
Qed.

Lemma rowmap_ext F G : (forall t, F t = G t) -> rowmap F -> rowmap G.
Proof.
  intros E HF cs. destruct (HF cs) as [[cs' [f Hf]]|Hn].
  - left. exists cs', f. intros rs. rewrite <- E. apply Hf.
  - right. intros rs. rewrite <- E. apply Hn.
Qed.

Lemma rowmap_del c : rowmap (pd_del c).
Proof.
  intros cs. unfold pd_del. cbn [cols]. destruct (mem c cs).
  - left. exists (remove_elem c cs), (fun r => map (get cs r) (remove_elem c cs)). intros rs. reflexivity.
  - right. intros rs. reflexivity.
Qed.

Lemma combine_map_self {A B} (g : A -> B) (l : list A) : combine l (map g l) = map (fun a => (a, g a)) l.
Proof. induction l as [|a l IH]; cbn; [reflexivity|rewrite IH; reflexivity]. Qed.

(* res.loc[is_null, c] = res.loc[is_null, c2] with is_null = res[c].isnull() *)
Lemma rowmap_coalesce c c2 : rowmap (fun r => is_null <- pd_isnull c r ;; pd_loc_set_from is_null c c2 r).
Proof.
  intros cs. unfold pd_isnull, pd_col, pd_loc_set_from. cbn [cols rows].
  destruct (mem c cs) eqn:Mc; cbn [option_map obind].
  - destruct (mem c2 cs) eqn:Mc2; cbn [andb].
    + left. exists cs, (fun r => if is_null (get cs r c) then set_cell cs r c (get cs r c2) else r). intros rs.
      unfold getcol, nrows. cbn [cols rows]. rewrite !map_length, Nat.eqb_refl. cbn [andb].
      rewrite map_map, combine_map_self, map_map. cbn [fst snd]. reflexivity.
    + right. intros rs. reflexivity.
  - right. intros rs. reflexivity.
Qed.

Lemma rowmap_jstep sfx c : rowmap (fun t => jstep sfx (Some t) c).
Proof.
  intros cs. unfold jstep. cbn [obind cols].
  destruct (mem (sapp c sfx) cs) eqn:M.
  - pose proof (rowmap_bind _ _ (rowmap_coalesce c (sapp c sfx)) (rowmap_del (sapp c sfx))) as H.
    destruct (H cs) as [[cs' [f Hf]]|Hn].
    + left. exists cs', f. intros rs. rewrite <- Hf.
      destruct (pd_isnull c (mktable cs rs)); reflexivity.
    + right. intros rs. rewrite <- (Hn rs). destruct (pd_isnull c (mktable cs rs)); reflexivity.
  - left. exists cs, (fun r => r). intros rs. rewrite map_id. reflexivity.
Qed.

Lemma fold_jstep_none sfx l : fold_left (jstep sfx) l None = None.
Proof. induction l as [|c l IH]; [reflexivity|cbn [fold_left]; exact IH]. Qed.

Lemma rowmap_fold_jstep sfx l : rowmap (fun t => fold_left (jstep sfx) l (Some t)).
Proof.
  induction l as [|c l IH].
  - apply rowmap_ret.
  - apply (rowmap_ext (fun t => x <- jstep sfx (Some t) c ;; fold_left (jstep sfx) l (Some x))).
    + intros t. cbn [fold_left]. destruct (jstep sfx (Some t) c) as [x|]; cbn [obind]; [reflexivity|symmetry; apply fold_jstep_none].
    + apply rowmap_bind; [apply rowmap_jstep|exact IH].
Qed.

Lemma rowmap_opt_del (o : option string) : rowmap (fun t => match o with Some s => pd_del s t | None => Some t end).
Proof. destruct o; [apply rowmap_del|apply rowmap_ret]. Qed.

(* a row-by-row operation maps permuted rows to permuted rows *)
Lemma rowmap_perm F t1 t2 x2 :
  rowmap F -> cols t2 = cols t1 -> Permutation (rows t2) (rows t1) -> F t2 = Some x2 ->
  exists x1, F t1 = Some x1 /\ cols x2 = cols x1 /\ Permutation (rows x2) (rows x1).
Proof.
  intros HF C P H. destruct t1 as [c1 r1], t2 as [c2 r2]. cbn [cols rows] in *. subst c2.
  destruct (HF c1) as [[cs' [f Hf]]|Hn].
  - rewrite Hf in H. inversion H; subst x2. exists (mktable cs' (map f r1)). split; [apply Hf|]. split; [reflexivity|].
    cbn [rows]. apply Permutation_map, P.
  - rewrite Hn in H. discriminate.
Qed.

(* ------------------------------------------------------------------ the join step under two merges that differ by a row permutation *)
Lemma clean_copy_id t : clean_copy t = t.
Proof. reflexivity. Qed.

Lemma pd_merge_with_perm arr how l r lon ron sfx t2 :
  arranger_ok arr -> pd_merge_with arr how l r lon ron sfx = Some t2 ->
  exists t1, pd_merge how l r lon ron sfx = Some t1 /\ cols t2 = cols t1 /\ Permutation (rows t2) (rows t1).
Proof.
  intros A H. unfold pd_merge_with in H. destruct (pd_merge how l r lon ron sfx) as [t1|]; [|discriminate].
  cbn [option_map] in H. inversion H; subst t2. exists t1. split; [reflexivity|]. split; [reflexivity|].
  cbn [rows]. unfold arrange. destruct how; try apply Permutation_refl. apply A.
Qed.

Lemma px_join_with_perm arr declared on_a on_b jt l r x2 :
  arranger_ok arr -> px_join_with arr declared on_a on_b jt l r = Some x2 ->
  exists x1, px_join declared on_a on_b jt l r = Some x1 /\ cols x2 = cols x1 /\ Permutation (rows x2) (rows x1).
Proof.
  intros A H. unfold px_join_with, px_join, px_join_gen in *. cbv zeta in *.
  destruct (Nat.eqb (nrows l) 0 && Nat.eqb (nrows r) 0).
  { exists x2. split; [exact H|]. split; [reflexivity|apply Permutation_refl]. }
  set (names := set_union (cols l) (cols r)) in *. set (common := set_inter (cols l) (cols r)) in *.
  set (sfx := right_suffix common names) in *.
  set (scratch := match on_a with [] => Some (unused_column_name base_merge_col names) | _ :: _ => None end) in *.
  set (on_a' := match scratch with Some s => [s] | None => on_a end) in *.
  set (on_b' := match scratch with Some s => [s] | None => on_b end) in *.
  set (l1 := match scratch with Some s => pd_set_scalar s vone l | None => l end) in *.
  set (r1 := match scratch with Some s => pd_set_scalar s vone r | None => r end) in *.
  destruct (pd_isnull_any on_a' l1) as [nl|]; cbn [obind] in *; [|discriminate].
  destruct (pd_isnull_any on_b' r1) as [nr|]; cbn [obind] in *; [|discriminate].
  set (nk := if existsb (fun b : bool => b) nl && existsb (fun b : bool => b) nr then Some (unused_column_name base_null_key names) else None) in *.
  destruct (match nk with Some k => pd_set_col k (marker_left nl) l1 | None => Some l1 end) as [l2|]; cbn [obind] in *; [|discriminate].
  destruct (match nk with Some k => pd_set_col k (marker_right nr) r1 | None => Some r1 end) as [r2|]; cbn [obind] in *; [|discriminate].
  set (on_a'' := match nk with Some k => on_a' ++ [k] | None => on_a' end) in *.
  set (on_b'' := match nk with Some k => on_b' ++ [k] | None => on_b' end) in *.
  destruct (pd_merge_with arr (how_of jt) l2 r2 on_a'' on_b'' sfx) as [m2|] eqn:M2; cbn [obind] in H; [|discriminate].
  destruct (pd_merge_with_perm arr _ _ _ _ _ _ _ A M2) as [m1 [M1 [Cm Pm]]]. rewrite M1. cbn [obind].
  rewrite !clean_copy_id in *.
  pose proof (rowmap_bind _ _ (rowmap_opt_del scratch) (rowmap_bind _ _ (rowmap_opt_del nk) (rowmap_fold_jstep sfx common))) as RM.
  assert ((x <- match scratch with Some s => pd_del s m2 | None => Some m2 end ;;
           (x0 <- match nk with Some k => pd_del k x | None => Some x end ;; fold_left (jstep sfx) common (Some x0))) = Some x2) as H2.
  { destruct (match scratch with Some s => pd_del s m2 | None => Some m2 end) as [y|]; cbn [obind] in *; [|discriminate].
    destruct (match nk with Some k => pd_del k y | None => Some y end) as [z|]; cbn [obind] in *; [|discriminate].
    destruct (fold_left (jstep sfx) common (Some z)) as [w|]; cbn [obind] in *; [|discriminate].
    rewrite clean_copy_id in H. exact H. }
  destruct (rowmap_perm _ m1 m2 x2 RM Cm Pm H2) as [x1 [H1 [Cx Px]]].
  exists x1. split; [|split; assumption].
  destruct (match scratch with Some s => pd_del s m1 | None => Some m1 end) as [y|]; cbn [obind] in *; [|discriminate].
  destruct (match nk with Some k => pd_del k y | None => Some y end) as [z|]; cbn [obind] in *; [|discriminate].
  destruct (fold_left (jstep sfx) common (Some z)) as [w|]; cbn [obind] in *; [|discriminate].
  rewrite clean_copy_id. exact H1.
Qed.

Lemma perm_width_ok x1 x2 : cols x2 = cols x1 -> Permutation (rows x2) (rows x1) -> width_ok x1 -> width_ok x2.
Proof.
  intros C P W. unfold width_ok in *. rewrite C. apply Forall_forall. intros r I. rewrite Forall_forall in W. apply W.
  eapply Permutation_in; eassumption.
Qed.

(* the join step as transcribed refines the reference join, for every arrangement of the inner rows *)
Theorem px_join_with_refines arr declared on_a on_b jt l r x :
  arranger_ok arr ->
  width_ok l -> width_ok r ->
  (forall c, In c on_a -> In c (cols l)) -> (forall c, In c on_b -> In c (cols r)) -> List.length on_a = List.length on_b ->
  same_set declared (cols l ++ filter (fun c => negb (mem c (cols l))) (cols r)) ->
  px_join_with arr declared on_a on_b jt l r = Some x -> refines x (sem_join false on_a on_b jt l r) /\ width_ok x.
Proof.
  intros A Wl Wr Ha Hb Hlen Sd H.
  destruct (px_join_with_perm arr declared on_a on_b jt l r x A H) as [x1 [H1 [C P]]].
  destruct (px_join_refines declared on_a on_b jt l r x1 Wl Wr Ha Hb Hlen Sd H1) as [R W].
  split; [|apply (perm_width_ok x1 x C P W)].
  eapply refines_trans; [apply (refines_of_perm x x1 C P)|exact R].
Qed.
