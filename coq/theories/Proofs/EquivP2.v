(* C11, part 2: pipeline equality (eop_eqb) is symmetric, reflexive (nan-free trees, or repaired code), and -- given that
   the forgotten fields agree -- implies that every field read by executors and SQL generation is the same (core). *)
From Coq Require Import List Bool Arith ZArith QArith String Lia.
Import ListNotations.
From DA Require Import Base.PyRT Base.Val Model.Sem Model.Equiv Proofs.EquivP1.
Local Open Scope list_scope.

Ltac split_andb :=
  repeat match goal with
         | H : _ && _ = true |- _ => apply andb_true_iff in H; destruct H
         end.
Ltac eqb_to_eq :=
  repeat match goal with
         | H : eqb ?x ?y = true |- _ => apply (proj1 (eqb_true x y)) in H
         | H : String.eqb _ _ = true |- _ => apply String.eqb_eq in H
         | H : Bool.eqb _ _ = true |- _ => apply Bool.eqb_prop in H
         end.

(* ------------------------------------------------------------------ small facts *)
Lemma nodupb_NoDup {A} `{EqDec A} (l : list A) : nodupb l = true <-> NoDup l.
Proof. induction l as [|x t IH]; simpl; [split; [constructor|reflexivity]|].
  rewrite andb_true_iff, negb_true_iff, mem_false, IH. split.
  - intros [N1 N2]. constructor; assumption.
  - intros N. inversion N; subst. split; assumption. Qed.

Lemma forallb_same_set {A} (f : A -> bool) l1 l2 : (forall x, In x l1 <-> In x l2) -> forallb f l1 = forallb f l2.
Proof. intros S. destruct (forallb f l1) eqn:E1, (forallb f l2) eqn:E2; try reflexivity.
  - rewrite forallb_forall in E1. apply forallb_false in E2. destruct E2 as [x [I F]]. rewrite E1 in F; [discriminate|]. apply S, I.
  - rewrite forallb_forall in E2. apply forallb_false in E1. destruct E1 as [x [I F]]. rewrite E2 in F; [discriminate|]. apply S, I. Qed.

Lemma forallb_ext_in {A} (f g : A -> bool) l : (forall x, In x l -> f x = g x) -> forallb f l = forallb g l.
Proof. induction l as [|x t IH]; simpl; intros E; [reflexivity|]. rewrite E by (left; reflexivity). rewrite IH; [reflexivity|].
  intros y Hy. apply E. right. exact Hy. Qed.

Lemma subset_refl {A} `{EqDec A} (l : list A) : subset l l = true.
Proof. apply subset_spec. auto. Qed.
Lemma set_eqb_refl {A} `{EqDec A} (l : list A) : set_eqb l l = true.
Proof. unfold set_eqb. rewrite subset_refl. reflexivity. Qed.
Lemma set_eqb_sym {A} `{EqDec A} (a b : list A) : set_eqb a b = set_eqb b a.
Proof. unfold set_eqb. apply andb_comm. Qed.
Lemma set_eqb_spec {A} `{EqDec A} (a b : list A) : set_eqb a b = true <-> (forall x, In x a <-> In x b).
Proof. unfold set_eqb. rewrite andb_true_iff, !subset_spec. split.
  - intros [S1 S2] x. split; auto.
  - intros S. split; intros x; apply S. Qed.

(* ------------------------------------------------------------------ assignment dicts *)
Definition keys_test (q : quirks) (o1 o2 : list (string * pexpr)) : bool :=
  if q_ops_unordered q then set_eqb (map fst o1) (map fst o2) else eqb (map fst o1) (map fst o2).
Lemma ops_eq_unfold q o1 o2 :
  ops_eq q o1 o2 = keys_test q o1 o2 &&
    forallb (fun k => match dict_get o1 k, dict_get o2 k with Some e1, Some e2 => is_equal q e1 e2 | _, _ => false end) (map fst o1).
Proof. reflexivity. Qed.
Lemma keys_test_sym q o1 o2 : keys_test q o1 o2 = keys_test q o2 o1.
Proof. unfold keys_test. destruct (q_ops_unordered q); [apply set_eqb_sym|apply eqb_sym]. Qed.
Lemma keys_test_set q o1 o2 : keys_test q o1 o2 = true -> forall k, In k (map fst o1) <-> In k (map fst o2).
Proof. unfold keys_test. destruct (q_ops_unordered q); intros E.
  - apply set_eqb_spec, E.
  - apply (proj1 (eqb_true _ _)) in E. rewrite E. tauto. Qed.

Lemma ops_eq_sym q o1 o2 : ops_eq q o1 o2 = ops_eq q o2 o1.
Proof. rewrite !ops_eq_unfold, (keys_test_sym q o2 o1). destruct (keys_test q o1 o2) eqn:K; [|reflexivity]. simpl.
  rewrite (forallb_same_set _ (map fst o1) (map fst o2)) by (apply keys_test_set with (q := q), K).
  apply forallb_ext_in. intros k _. destruct (dict_get o1 k), (dict_get o2 k); try reflexivity. apply is_equal_sym. Qed.

Lemma ops_eq_refl q o : (nan_matters q = true -> forallb (fun ke => expr_nan_free (snd ke)) o = true) -> ops_eq q o o = true.
Proof. intros N. rewrite ops_eq_unfold. apply andb_true_iff. split.
  - unfold keys_test. destruct (q_ops_unordered q); [apply set_eqb_refl|apply eqb_refl].
  - apply forallb_forall. intros k Hk. destruct (dict_get o k) as [e|] eqn:G.
    + apply is_equal_refl. intros Q. specialize (N Q). rewrite forallb_forall in N.
      apply (N (k, e)). apply dict_get_In, G.
    + apply dict_get_None in G. contradiction. Qed.

(* with equal key lists and unique keys, the key-wise loop is a position-wise comparison *)
Lemma keywise_pointwise (f : pexpr -> pexpr -> bool) (d : bool) (o1 : list (string * pexpr)) : forall o2,
  map fst o1 = map fst o2 -> NoDup (map fst o1) ->
  forallb (fun k => match dict_get o1 k, dict_get o2 k with Some e1, Some e2 => f e1 e2 | _, _ => d end) (map fst o1) = true ->
  Forall2 (fun x y => fst x = fst y /\ f (snd x) (snd y) = true) o1 o2.
Proof. induction o1 as [|[k e1] t IH]; intros [|[k' e2] u] K N F; simpl in *; try discriminate; [constructor|].
  inversion K; subst k'. inversion N as [|? ? Nk Nt]; subst.
  apply andb_true_iff in F. destruct F as [F1 F2].
  destruct (eq_dec k k) as [_|C]; [|congruence]. constructor; [split; [reflexivity|exact F1]|].
  apply IH; [assumption|assumption|]. rewrite forallb_forall in F2 |- *. intros x Hx. specialize (F2 x Hx).
  destruct (eq_dec x k) as [->|_]; [contradiction|exact F2]. Qed.

Lemma ops_same_core q o1 o2 : NoDup (map fst o1) -> ops_eq q o1 o2 = true -> agree_ops q o1 o2 = true -> core_ops o1 = core_ops o2.
Proof. intros N E G. rewrite ops_eq_unfold in E. unfold agree_ops in G. split_andb.
  assert (map fst o1 = map fst o2) as K.
  { unfold keys_test in *. destruct (q_ops_unordered q); eqb_to_eq; assumption. }
  pose proof (keywise_pointwise (is_equal q) false o1 o2 K N ltac:(assumption)) as P1.
  pose proof (keywise_pointwise (agree_expr q) true o1 o2 K N ltac:(assumption)) as P2.
  clear - P1 P2. unfold core_ops. induction P1 as [|[k e1] [k' e2] t u [Hk He] _ IH]; [reflexivity|].
  inversion P2 as [|? ? ? ? [_ Ha] P2t]; subst. simpl in *. subst k'.
  rewrite (is_equal_core q e1 e2 He Ha), (IH P2t). reflexivity. Qed.

(* ------------------------------------------------------------------ rename maps *)
Lemma smap_eq_sym q m1 m2 : smap_eq q m1 m2 = smap_eq q m2 m1.
Proof. unfold smap_eq. destruct (q_maps_unordered q); [|apply eqb_sym].
  rewrite (set_eqb_sym (map fst m2)). destruct (set_eqb (map fst m1) (map fst m2)) eqn:K; [|reflexivity]. simpl.
  rewrite (forallb_same_set _ (map fst m1) (map fst m2)) by (apply set_eqb_spec, K).
  apply forallb_ext_in. intros k _. apply eqb_sym. Qed.
Lemma smap_eq_refl q m : smap_eq q m m = true.
Proof. unfold smap_eq. destruct (q_maps_unordered q); [|apply eqb_refl]. rewrite set_eqb_refl. simpl.
  apply forallb_forall. intros k _. apply eqb_refl. Qed.
(* equal maps have the same lookups *)
Lemma smap_eq_lookups q m1 m2 : smap_eq q m1 m2 = true -> forall k, dict_get m1 k = dict_get m2 k.
Proof. unfold smap_eq. destruct (q_maps_unordered q); intros E k; [|rewrite (proj1 (eqb_true _ _) E); reflexivity].
  apply andb_true_iff in E. destruct E as [K F]. pose proof (proj1 (set_eqb_spec _ _) K k) as KS.
  destruct (in_dec eq_dec k (map fst m1)) as [I|NI].
  - rewrite forallb_forall in F. exact (proj1 (eqb_true _ _) (F k I)).
  - assert (~ In k (map fst m2)) as NI2 by (intros I2; apply NI, KS, I2).
    apply dict_get_None in NI. apply dict_get_None in NI2. congruence. Qed.
Lemma smap_same q m1 m2 : smap_eq q m1 m2 = true -> (if q_maps_unordered q then eqb m1 m2 else true) = true -> m1 = m2.
Proof. unfold smap_eq. destruct (q_maps_unordered q); intros E G; [exact (proj1 (eqb_true _ _) G)|exact (proj1 (eqb_true _ _) E)]. Qed.

(* ------------------------------------------------------------------ record maps *)
Lemma opt_recspec_eqb_sym a b : opt_recspec_eqb a b = opt_recspec_eqb b a.
Proof. destruct a, b; simpl; try reflexivity. apply eqb_sym. Qed.
Lemma opt_recspec_eqb_eq a b : opt_recspec_eqb a b = true <-> a = b.
Proof. destruct a, b; simpl; split; intros E; try discriminate; try reflexivity.
  - apply (proj1 (eqb_true _ _)) in E. congruence.
  - inversion E. apply eqb_refl. Qed.
Lemma recmap_eqb_sym q a b : recmap_eqb q a b = recmap_eqb q b a.
Proof. unfold recmap_eqb. destruct a as [ia oa sa], b as [ib ob sb]; simpl.
  destruct ia as [x|], ib as [y|], oa as [u|], ob as [v|]; simpl; try reflexivity; unfold recspec_eqb;
    rewrite ?(eqb_sym y x), ?(eqb_sym v u); try reflexivity;
    destruct (q_recmap_out_skipped q); simpl; rewrite ?(eqb_sym v u); reflexivity. Qed.
Lemma recmap_eqb_refl q a : recmap_eqb q a a = true.
Proof. unfold recmap_eqb. destruct a as [ia oa sa]; simpl. rewrite !Bool.eqb_reflx. simpl.
  assert (forall o, opt_recspec_eqb o o = true) as R by (intros o; apply opt_recspec_eqb_eq; reflexivity).
  destruct ia as [x|]; simpl; unfold recspec_eqb; rewrite ?eqb_refl, ?R; simpl; try reflexivity;
    destruct (q_recmap_out_skipped q); rewrite ?R; reflexivity. Qed.
Lemma recmap_same_core q a b : recmap_eqb q a b = true -> agree_recmap q a b = true -> core_recmap a = core_recmap b.
Proof. unfold recmap_eqb, agree_recmap, core_recmap. destruct a as [ia oa sa], b as [ib ob sb]; simpl. intros E G. split_andb.
  destruct ia as [x|].
  - repeat match goal with H : opt_recspec_eqb _ _ = true |- _ => apply opt_recspec_eqb_eq in H end. congruence.
  - destruct ib; [discriminate|]. destruct (q_recmap_out_skipped q).
    + apply (proj1 (eqb_true _ _)) in G. congruence.
    + repeat match goal with H : opt_recspec_eqb _ _ = true |- _ => apply opt_recspec_eqb_eq in H end. congruence. Qed.

(* ------------------------------------------------------------------ symmetric *)
Lemma eop_eqb_sym q a : forall b, eop_eqb q a b = eop_eqb q b a.
Proof. induction a as [n cs ql|s IH ops p o r w|s IH ops gb|s IH e|s IH cs|s IH cs|s IH m|s IH m d|s IH cs r l
                      |x IHx y IHy oa ob jt|x IHx y IHy ic an bn|s IH rm];
    intros [n' cs' ql'|s' ops' p' o' r' w'|s' ops' gb'|s' e'|s' cs'|s' cs'|s' m'|s' m' d'|s' cs' r' l'
           |x' y' oa' ob' jt'|x' y' ic' an' bn'|s' rm'];
    cbn [eop_eqb]; try (match goal with |- false = false => reflexivity end).
  - rewrite (String.eqb_sym n n'), (eqb_sym cs cs'), (eqb_sym ql ql'). reflexivity.
  - rewrite (IH s'), (ops_eq_sym q ops ops'), (eqb_sym p p'), (eqb_sym o o'), (eqb_sym r r').
    rewrite (eqb_sym (ecolumn_names (EExtend s ops p o r w))). destruct w, w'; reflexivity.
  - rewrite (IH s'), (ops_eq_sym q ops ops'), (eqb_sym gb gb'), (eqb_sym (ecolumn_names (EProject s ops gb))). reflexivity.
  - rewrite (IH s'), (is_equal_sym q e e'), (eqb_sym (ecolumn_names (ESelectRows s e))). reflexivity.
  - rewrite (IH s'), (eqb_sym cs cs'), (eqb_sym (ecolumn_names (ESelectCols s cs))). reflexivity.
  - rewrite (IH s'), (eqb_sym cs cs'), (eqb_sym (ecolumn_names (EDropCols s cs))). reflexivity.
  - rewrite (IH s'), (smap_eq_sym q m m'), (eqb_sym (ecolumn_names (ERename s m))). reflexivity.
  - rewrite (IH s'), (smap_eq_sym q m m'), (eqb_sym d d'), (eqb_sym (ecolumn_names (EMapCols s m d))). reflexivity.
  - rewrite (IH s'), (eqb_sym cs cs'), (eqb_sym r r'), (eqb_sym l l'), (eqb_sym (ecolumn_names (EOrder s cs r l))). reflexivity.
  - rewrite (IHx x'), (IHy y'), (eqb_sym oa oa'), (eqb_sym ob ob'), (String.eqb_sym jt jt'),
      (eqb_sym (ecolumn_names (EJoin x y oa ob jt))). reflexivity.
  - rewrite (IHx x'), (IHy y'), (eqb_sym ic ic'), (String.eqb_sym an an'), (String.eqb_sym bn bn'),
      (eqb_sym (ecolumn_names (EConcat x y ic an bn))). reflexivity.
  - rewrite (IH s'), (recmap_eqb_sym q rm rm'), (eqb_sym (ecolumn_names (EConvert s rm))). reflexivity. Qed.

(* ------------------------------------------------------------------ reflexive *)
Lemma eop_eqb_refl q a : (nan_matters q = true -> nan_free a = true) -> eop_eqb q a a = true.
Proof. induction a as [n cs ql|s IH ops p o r w|s IH ops gb|s IH e|s IH cs|s IH cs|s IH m|s IH m d|s IH cs r l
                      |x IHx y IHy oa ob jt|x IHx y IHy ic an bn|s IH rm]; intros N; cbn [eop_eqb];
    rewrite ?eqb_refl, ?String.eqb_refl, ?Bool.eqb_reflx, ?smap_eq_refl; cbn [andb].
  - destruct (q_table_key_only q); reflexivity.
  - rewrite ops_eq_refl, IH; [reflexivity| |]; intros Q; specialize (N Q); simpl in N; apply andb_true_iff in N; tauto.
  - rewrite ops_eq_refl, IH; [reflexivity| |]; intros Q; specialize (N Q); simpl in N; apply andb_true_iff in N; tauto.
  - rewrite is_equal_refl, IH; [reflexivity| |]; intros Q; specialize (N Q); simpl in N; apply andb_true_iff in N; tauto.
  - apply IH, N.
  - apply IH, N.
  - apply IH, N.
  - apply IH, N.
  - apply IH, N.
  - rewrite IHx, IHy; [reflexivity| |]; intros Q; specialize (N Q); simpl in N; apply andb_true_iff in N; tauto.
  - rewrite IHx, IHy; [reflexivity| |]; intros Q; specialize (N Q); simpl in N; apply andb_true_iff in N; tauto.
  - rewrite recmap_eqb_refl. apply IH, N. Qed.

(* ------------------------------------------------------------------ same fields *)
Lemma eop_same_core q a : forall b, wfb a = true -> eop_eqb q a b = true -> agree q a b = true -> core a = core b.
Proof. induction a as [n cs ql|s IH ops p o r w|s IH ops gb|s IH e|s IH cs|s IH cs|s IH m|s IH m d|s IH cs r l
                      |x IHx y IHy oa ob jt|x IHx y IHy ic an bn|s IH rm];
    intros [n' cs' ql'|s' ops' p' o' r' w'|s' ops' gb'|s' e'|s' cs'|s' cs'|s' m'|s' m' d'|s' cs' r' l'
           |x' y' oa' ob' jt'|x' y' ic' an' bn'|s' rm'] W E G;
    cbn [eop_eqb agree wfb core] in *; try discriminate.
  - destruct (q_table_key_only q); split_andb; eqb_to_eq; subst; reflexivity.
  - split_andb. eqb_to_eq. subst.
    match goal with H : nodupb _ = true |- _ => apply nodupb_NoDup in H end.
    rewrite (IH s') by assumption. rewrite (ops_same_core q ops ops') by assumption. reflexivity.
  - split_andb. eqb_to_eq. subst.
    match goal with H : nodupb _ = true |- _ => apply nodupb_NoDup in H end.
    rewrite (IH s') by assumption. rewrite (ops_same_core q ops ops') by assumption. reflexivity.
  - split_andb. rewrite (IH s') by assumption. rewrite (is_equal_core q e e') by assumption. reflexivity.
  - split_andb. eqb_to_eq. subst. rewrite (IH s') by assumption. reflexivity.
  - split_andb. eqb_to_eq. subst. rewrite (IH s') by assumption. reflexivity.
  - split_andb. eqb_to_eq. subst.
    match goal with H : smap_eq q m m' = true, H2 : (if q_maps_unordered q then _ else true) = true |- _ => rewrite (smap_same q m m' H H2) end.
    rewrite (IH s') by assumption. reflexivity.
  - split_andb. eqb_to_eq. subst.
    match goal with H : smap_eq q m m' = true, H2 : (if q_maps_unordered q then _ else true) = true |- _ => rewrite (smap_same q m m' H H2) end.
    rewrite (IH s') by assumption. reflexivity.
  - split_andb. eqb_to_eq. subst. rewrite (IH s') by assumption. reflexivity.
  - split_andb. eqb_to_eq. subst. rewrite (IHx x'), (IHy y') by assumption. reflexivity.
  - split_andb. eqb_to_eq. subst. rewrite (IHx x'), (IHy y') by assumption. reflexivity.
  - split_andb. rewrite (IH s') by assumption. rewrite (recmap_same_core q rm rm') by assumption. reflexivity. Qed.

(* with the repaired flags nothing is forgotten: the guard is vacuous *)
Lemma agree_ops_fixed o1 o2 : agree_ops q_fixed o1 o2 = true.
Proof. unfold agree_ops. simpl. apply forallb_forall. intros k _.
  destruct (dict_get o1 k), (dict_get o2 k); try reflexivity. apply agree_expr_fixed. Qed.
Lemma agree_fixed a : forall b, agree q_fixed a b = true.
Proof. induction a as [n cs ql|s IH ops p o r w|s IH ops gb|s IH e|s IH cs|s IH cs|s IH m|s IH m d|s IH cs r l
                      |x IHx y IHy oa ob jt|x IHx y IHy ic an bn|s IH rm];
    intros [n' cs' ql'|s' ops' p' o' r' w'|s' ops' gb'|s' e'|s' cs'|s' cs'|s' m'|s' m' d'|s' cs' r' l'
           |x' y' oa' ob' jt'|x' y' ic' an' bn'|s' rm']; cbn [agree q_maps_unordered q_table_key_only q_fixed];
    try (match goal with |- true = true => reflexivity end);
    rewrite ?agree_ops_fixed, ?agree_expr_fixed, ?IH, ?IHx, ?IHy; reflexivity. Qed.

Lemma eop_same_core_fixed a b : wfb a = true -> eop_eqb q_fixed a b = true -> core a = core b.
Proof. intros W E. apply (eop_same_core q_fixed a b W E). apply agree_fixed. Qed.
