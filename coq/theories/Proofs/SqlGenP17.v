(* SQLGEN, part 17: the SQL-level extend merge when WINDOW items are involved (outer step, inner step or both).  The contention
   test of extend_to_near_sql, with the partition and order columns among the declared dependencies of every windowed term
   (window_vars), makes the merged SELECT equal the outer SELECT over the inner one: a window item of the outer step reads its
   argument, partition and order columns only from columns the inner step passes through unchanged. *)
From Coq Require Import List Bool Arith ZArith QArith String Lia.
Import ListNotations.
From DA Require Import Base.PyRT Base.Val Model.Sem Proofs.SemBasicP Model.ColumnsUsed Proofs.ColumnsUsedP1 Proofs.ColumnsUsedP2
  Proofs.ColumnsUsedP4 Model.SqlGen Model.SqlSem Proofs.SqlGenP1 Proofs.SqlGenP2 Proofs.SqlGenP3 Proofs.SqlGenP4 Proofs.SqlGenP5
  Proofs.SqlGenP6 Proofs.SqlGenP10 Proofs.SqlGenP11 Proofs.SqlGenP12 Proofs.SqlGenP14 Proofs.SqlGenP15 Proofs.SqlGenP16.
Local Open Scope list_scope.

Lemma tag_from_map_tagged (f : nat * list val -> list val) l : forall n,
  tag_from n (map f (tag_from n l)) = map (fun ir => (fst ir, f ir)) (tag_from n l).
Proof. induction l as [|x t IH]; intros n; simpl; [reflexivity|]. rewrite IH. reflexivity. Qed.

Lemma F2_tagged_map (R : list val -> list val -> Prop) (f : nat * list val -> list val) l : forall n,
  (forall i r, R r (f (i, r))) -> Forall2 R l (map f (tag_from n l)).
Proof. induction l as [|x t IH]; intros n H; simpl; constructor; [apply H|apply IH, H]. Qed.

Section MergeWin.
Variable fl : flavor.

Lemma win_item_plain t i r k tm : is_win_term tm = false -> win_item fl t i r (k, tm) = eval_item fl (cols t) r k tm.
Proof. destruct tm; simpl; intros H; try discriminate; reflexivity. Qed.

Lemma merge_compose_win (ts tms : terms) (ds deps : depmap) su' K X :
  (forall kt, In kt ts -> is_agg_term (snd kt) = false) -> (forall kt, In kt tms -> is_agg_term (snd kt) = false) ->
  NoDup (map fst ds) -> NoDup (map fst deps) -> NoDup (map fst tms) -> NoDup (map fst ts) ->
  incl (map fst ts) (map fst ds) -> map fst tms = map fst deps -> deps_describe tms deps ->
  contention (non_trivial_terms deps tms) (needs deps (non_trivial_terms deps tms))
             (non_trivial_terms ds ts) (needs ds (non_trivial_terms ds ts)) = [] ->
  su' <> [] -> incl su' (map fst ts) ->
  K <> [] -> incl K (map fst tms) -> (forall k, In k K -> incl (item_cols (k, term_of tms k)) su') ->
  forall Y, sql_select fl true (Some ts) (Some su') SfxNone X = Some Y ->
  sql_select fl true (Some (merged_terms (non_trivial_terms deps tms) tms deps ts)) (Some K) SfxNone X
  = sql_select fl true (Some tms) (Some K) SfxNone Y.
Proof.
  intros Ats Atms Nds Ndeps Ntms Nts Its Ekeys Hdesc Hcont NEs Isu NEK IK Hloc Y EY.
  set (our_nt := non_trivial_terms deps tms) in *. set (sub_nt := non_trivial_terms ds ts) in *.
  assert (NoDup our_nt) as Nour by (apply NoDup_non_trivial, Ndeps).
  assert (forall x, In x sub_nt -> ~ In x (needs deps our_nt)) as C3.
  { intros x I1 I2. assert (In x (contention our_nt (needs deps our_nt) sub_nt (needs ds sub_nt))) as I.
    { unfold contention. apply in_app_iff. right. apply in_app_iff. right. apply In_set_inter. tauto. } rewrite Hcont in I. destruct I. }
  assert (forall k, is_agg_term (term_of ts k) = false) as Ats'.
  { intros k. unfold term_of. destruct (dict_get ts k) as [t|] eqn:G; [|reflexivity]. apply dict_get_In in G. apply (Ats _ G). }
  assert (forall k, is_agg_term (term_of tms k) = false) as Atms'.
  { intros k. unfold term_of. destruct (dict_get tms k) as [t|] eqn:G; [|reflexivity]. apply dict_get_In in G. apply (Atms _ G). }
  assert (forall k, In k K -> term_of (merged_terms our_nt tms deps ts) k = if mem k our_nt then term_of tms k else term_of ts k) as TM.
  { intros k Ik. apply term_of_merged; [exact Nour|]. apply in_app_iff. left. apply IK, Ik. }
  pose proof (sql_select_win fl ts su' X NEs (fun k _ => Ats' k)) as EY'.
  pose proof (eq_trans (eq_sym EY') EY) as EYY. injection EYY as <-. clear EY EY'.
  refine (eq_trans (sql_select_win fl _ K X NEK _) _).
  { intros k Ik. rewrite (TM k Ik). destruct (mem k our_nt); [apply Atms'|apply Ats']. }
  refine (eq_trans _ (eq_sym (sql_select_win fl tms K _ NEK (fun k _ => Atms' k)))).
  set (G := fun ir : nat * list val => map (fun c => win_item fl X (fst ir) (snd ir) (c, term_of ts c)) su').
  set (Yt := mktable su' (map G (tag_from 0 (rows X)))).
  f_equal. f_equal. cbn [rows cols]. change (rows Yt) with (map G (tag_from 0 (rows X))).
  rewrite tag_from_map_tagged, map_map. apply map_ext_in. intros [i r] Iir. cbn [fst snd]. apply map_ext_in. intros k Ik.
  rewrite (TM k Ik).
  assert (forall i0 r0 c, In c su' -> get su' (G (i0, r0)) c = win_item fl X i0 r0 (c, term_of ts c)) as GY.
  { intros i0 r0 c Ic. unfold G. cbn [fst snd]. rewrite get_map_cols. assert (mem c su' = true) as M by (apply mem_In, Ic). rewrite M. reflexivity. }
  assert (forall i0 r0 c, In c su' -> ~ In c sub_nt -> win_item fl X i0 r0 (c, term_of ts c) = get (cols X) r0 c) as Triv.
  { intros i0 r0 c Ic Nc. pose proof (Isu c Ic) as Ict. pose proof (Its c Ict) as Icd.
    apply in_map_iff in Icd. destruct Icd as [[c' vi] [Ec Id]]. cbn [fst] in Ec. subst c'.
    unfold term_of. destruct (dict_get ts c) as [t|] eqn:G0; [|reflexivity].
    destruct (non_trivial_not ds ts c vi t Id G0 Nc) as [_ [_ T]]. destruct t; try discriminate; reflexivity. }
  specialize (Hloc k Ik).
  destruct (mem k our_nt) eqn:M.
  - apply mem_In in M.
    assert (forall x, In x (item_cols (k, term_of tms k)) -> ~ In x sub_nt) as NS.
    { intros x Hx I2. apply (C3 x I2). unfold needs. apply in_flat_map. exists k. split; [exact M|].
      unfold term_of in Hx. destruct (dict_get tms k) as [t|] eqn:G0.
      - apply dict_get_In in G0. apply (Hdesc k t G0), Hx.
      - exfalso. apply dict_get_None in G0. apply G0. apply IK, Ik. }
    assert (forall i0 r0 x, In x (item_cols (k, term_of tms k)) -> get (cols X) r0 x = get (cols Yt) (G (i0, r0)) x) as Agree.
    { intros i0 r0 x Hx. cbn [cols Yt]. rewrite GY by (apply Hloc, Hx). symmetry. apply Triv; [apply Hloc, Hx|apply NS, Hx]. }
    destruct (term_of tms k) as [| |c|ex|ex|ex pt ok|lf c] eqn:ET.
    + rewrite !win_item_plain by reflexivity. apply eval_item_local. apply Agree.
    + rewrite !win_item_plain by reflexivity. apply eval_item_local. apply Agree.
    + rewrite !win_item_plain by reflexivity. apply eval_item_local. apply Agree.
    + rewrite !win_item_plain by reflexivity. apply eval_item_local. apply Agree.
    + specialize (Atms' k). rewrite ET in Atms'. discriminate.
    + unfold win_item. cbn [fst snd]. f_equal. apply sql_window_column_local. change (rows Yt) with (map G (tag_from 0 (rows X))).
      apply F2_tagged_map. intros i0 r0 x Hx. apply Agree. exact Hx.
    + rewrite !win_item_plain by reflexivity. apply eval_item_local. apply Agree.
  - apply mem_false in M. pose proof (IK k Ik) as Ikt. rewrite Ekeys in Ikt. apply in_map_iff in Ikt. destruct Ikt as [[k' vi] [Ek Id]]. cbn [fst] in Ek. subst k'.
    destruct (dict_get tms k) as [t|] eqn:G0.
    2:{ exfalso. apply dict_get_None in G0. apply G0, IK, Ik. }
    destruct (non_trivial_not deps tms k vi t Id G0 M) as [_ [_ T]].
    assert (term_of tms k = t) as ET by (unfold term_of; rewrite G0; reflexivity). rewrite ET in *.
    assert (In k su') as Iks by (destruct t; try discriminate; apply Hloc; left; reflexivity).
    rewrite <- (GY i r k Iks). destruct t; try discriminate; reflexivity.
Qed.

End MergeWin.

(* ------------------------------------------------------------------ steps extend_to_near_sql never merges into *)
Definition not_mg (q : tnear) : Prop := match q with TUnary _ _ _ _ _ true _ => False | _ => True end.

Lemma not_mg_merge q tms deps : not_mg q -> try_sql_merge q tms deps = None.
Proof. destruct q as [n t|n t s ci sfx mg dp|n t s1 c1 j s2 c2 on]; simpl; try reflexivity. destruct mg; [intros []|]. destruct sfx; reflexivity. Qed.
Lemma not_mg_restrict q K q' : not_mg q -> restrict_terms q K = Some q' -> not_mg q'.
Proof.
  destruct q as [n t|n t s ci sfx mg dp|n t s1 c1 j s2 c2 on]; simpl; intros H E; destruct (subset K _); try discriminate; injection E as <-; exact H.
Qed.
Lemma not_mg_empty q : not_mg q -> not_mg (empty_terms q).
Proof. destruct q as [n t|n t s ci sfx mg dp|n t s1 c1 j s2 c2 on]; simpl; intros H; exact H. Qed.

Lemma join_not_mg d a b on_a on_b jt usg n q n' fuel :
  to_near_f fuel d (OJoin a b on_a on_b jt) usg n = Ok (q, n') -> not_mg q.
Proof.
  intros H. pose proof (join_not_table fuel d a b on_a on_b jt usg n q n' H) as NT.
  (* a join step is a binary step *)
  revert d a b on_a on_b jt usg n q n' H NT. induction fuel as [|fuel IH]; intros d a b on_a on_b jt usg n q n' H NT; [discriminate|]. cbn [to_near_f] in H.
  assert (forall srca srcb p0 a0 b0 oa ob jt0 lf, gen_join d srca srcb p0 a0 b0 oa ob jt0 lf usg n = Ok (q, n') -> not_mg q) as GJ.
  { intros srca srcb p0 a0 b0 oa ob jt0 lf. unfold gen_join. destruct (negb (subset _ _)); [discriminate|]. unfold bind.
    destruct (srca _ _) as [[ql n2]| |]; try discriminate. destruct (srcb _ _) as [[qr n3]| |]; try discriminate. intros [= <- _]. exact I. }
  destruct jt.
  - exact (GJ _ _ _ _ _ _ _ _ _ H).
  - exact (GJ _ _ _ _ _ _ _ _ _ H).
  - destruct (d_rewrite_right d); exact (GJ _ _ _ _ _ _ _ _ _ H).
  - destruct (d_rewrite_full d); [|exact (GJ _ _ _ _ _ _ _ _ _ H)].
    destruct (is_nil on_a); [discriminate|]. destruct (negb (eqb on_a on_b)); [discriminate|]. unfold full_join_rewrite in H.
    exact (IH _ _ _ _ _ _ _ _ _ _ H (join_not_table _ _ _ _ _ _ _ _ _ _ _ H)).
Qed.

Theorem gen_not_mg : forall fuel d s usg n q n',
  mergeable_src s = false -> to_near_f fuel d s usg n = Ok (q, n') -> not_mg q.
Proof.
  induction fuel as [|fuel IH]; intros d s usg n q n' M H; [discriminate|].
  destruct s as [name cs|s ops wd w|s ops gb|s x|s cs|s ds|s m|s m dels|s cs rev lim|a b on_a on_b jt|a b idc an bn]; cbn [mergeable_src] in M; try discriminate M.
  - cbn [to_near_f] in H. destruct (negb (subset _ cs)); [discriminate|]. destruct (_ && _); injection H as <- _; exact I.
  - cbn [to_near_f] in H. unfold bind in H. destruct (to_near_f fuel d s _ n) as [[sub n1]| |]; try discriminate. injection H as <- _. exact I.
  - cbn [to_near_f] in H. unfold bind in H. destruct (to_near_f fuel d s _ n) as [[sub n1]| |]; try discriminate. injection H as <- _. exact I.
  - cbn [to_near_f] in H. unfold bind in H. destruct (to_near_f fuel d s _ n) as [[sub n1]| |] eqn:ER; try discriminate.
    pose proof (IH _ _ _ _ _ _ M ER) as NM.
    destruct (terms_is_none sub); [injection H as <- _; apply not_mg_empty, NM|].
    destruct (narrow_or_first sub _) as [q0|] eqn:EN; [|discriminate]. injection H as <- _.
    destruct (narrow_or_first_restrict _ _ _ EN) as [K' EK]. exact (not_mg_restrict _ _ _ NM EK).
  - cbn [to_near_f] in H. unfold bind in H. destruct (to_near_f fuel d s _ n) as [[sub n1]| |] eqn:ER; try discriminate.
    pose proof (IH _ _ _ _ _ _ M ER) as NM.
    destruct (terms_is_none sub).
    + destruct (filter _ _); [|discriminate]. injection H as <- _. apply not_mg_empty, NM.
    + destruct (narrow_or_first sub _) as [q0|] eqn:EN; [|discriminate]. injection H as <- _.
      destruct (narrow_or_first_restrict _ _ _ EN) as [K' EK]. exact (not_mg_restrict _ _ _ NM EK).
  - cbn [to_near_f] in H. unfold bind in H. destruct (to_near_f fuel d s _ n) as [[sub n1]| |]; try discriminate. injection H as <- _. exact I.
  - cbn [to_near_f] in H. unfold bind in H. destruct (to_near_f fuel d s _ n) as [[sub n1]| |]; try discriminate. injection H as <- _. exact I.
  - cbn [to_near_f] in H. unfold bind in H. destruct (to_near_f fuel d s _ n) as [[sub n1]| |]; try discriminate. injection H as <- _. exact I.
  - exact (join_not_mg d a b on_a on_b jt usg n q n' (S fuel) H).
  - cbn [to_near_f] in H. destruct (negb (subset _ _)); [discriminate|]. destruct (negb (set_eqb _ _)); [discriminate|]. unfold bind in H.
    destruct (to_near_f fuel d _ _ n) as [[ql n1]| |]; try discriminate. destruct (to_near_f fuel d _ _ n1) as [[qr n2]| |]; try discriminate.
    injection H as <- _. exact I.
Qed.

Lemma merge_branch_none (m : bool) (x : option (result tnear)) (n1 : nat) (fresh : result (tnear * nat)) :
  (m = true -> x = None) ->
  (if m then match x with Some (Ok m0) => Ok (m0, n1) | Some Raise => Raise | Some OutOfFuel => OutOfFuel | None => fresh end else fresh) = fresh.
Proof. destruct m; [intros H; rewrite (H eq_refl); reflexivity|reflexivity]. Qed.
