(* SQLGEN, part 19: extend_to_near_sql returning the merged sub-query when window items are around: the un-windowed extend
   merged into a step that may carry window items, and the WINDOWED extend merged into the step below. *)
From Coq Require Import List Bool Arith ZArith QArith String Lia.
Import ListNotations.
From DA Require Import Base.PyRT Base.Val Model.Sem Proofs.SemBasicP Model.ColumnsUsed Proofs.ColumnsUsedP1 Proofs.ColumnsUsedP2
  Proofs.ColumnsUsedP3 Proofs.ColumnsUsedP4 Proofs.ComposeP Model.SqlGen Model.SqlSem Proofs.SqlGenP1 Proofs.SqlGenP2 Proofs.SqlGenP3
  Proofs.SqlGenP4 Proofs.SqlGenP5 Proofs.SqlGenP6 Proofs.SqlGenP10 Proofs.SqlGenP11 Proofs.SqlGenP12 Proofs.SqlGenP13 Proofs.SqlGenP14
  Proofs.SqlGenP17 Proofs.SqlGenP18.
Local Open Scope list_scope.

Definition win_deps (origcols : list string) (subops : list (string * expr)) (w : window) : depmap :=
  map (fun k => (k, [k])) origcols
  ++ map (fun ke => (fst ke, set_union (py_set (cols_used (snd ke))) (set_union (w_part w) (w_order w)))) subops.

Lemma extend_deps_okN_win (origcols : list string) (subops : list (string * expr)) w :
  NoDup origcols -> NoDup (map fst subops) -> (forall k, In k origcols -> ~ In k (map fst subops)) -> subops <> [] ->
  merge_okN (win_terms origcols subops w) (win_deps origcols subops w) /\
  map fst (win_terms origcols subops w) = map fst (win_deps origcols subops w).
Proof.
  intros No Ns Dj NE.
  assert (map fst (win_terms origcols subops w) = origcols ++ map fst subops) as EK1.
  { unfold win_terms. rewrite map_app, keys_pass, map_map. reflexivity. }
  assert (map fst (win_deps origcols subops w) = origcols ++ map fst subops) as EK2.
  { unfold win_deps. rewrite map_app, !map_map. simpl. rewrite map_id. reflexivity. }
  assert (NoDup (origcols ++ map fst subops)) as NA by (apply NoDup_app_intro; assumption).
  split; [|rewrite EK1, EK2; reflexivity].
  split; [unfold win_terms; intros X; apply app_eq_nil in X; destruct X as [_ X]; apply map_eq_nil in X; contradiction|].
  split.
  { intros kt I. unfold win_terms in I. apply in_app_iff in I. destruct I as [I|I].
    - unfold pass_terms in I. apply in_map_iff in I. destruct I as [x [<- _]]. reflexivity.
    - apply in_map_iff in I. destruct I as [x [<- _]]. reflexivity. }
  split; [rewrite EK1; exact NA|]. split; [rewrite EK1, EK2; apply incl_refl|]. split; [rewrite EK2; exact NA|].
  intros k t I. unfold deps_of.
  set (dp := win_deps origcols subops w).
  assert (NoDup (dict_keys dp)) as ND by (unfold dict_keys, dp; rewrite EK2; exact NA).
  unfold win_terms in I. apply in_app_iff in I. destruct I as [I|I].
  - unfold pass_terms in I. apply in_map_iff in I. destruct I as [x [[= <- <-] Ix]].
    assert (In (x, [x]) dp) as Id by (unfold dp, win_deps; apply in_app_iff; left; apply in_map_iff; exists x; tauto).
    rewrite (dict_get_NoDup_In dp x [x] ND Id). simpl. apply incl_refl.
  - apply in_map_iff in I. destruct I as [ke [[= <- <-] Ike]].
    assert (In (fst ke, set_union (py_set (cols_used (snd ke))) (set_union (w_part w) (w_order w))) dp) as Id
        by (unfold dp, win_deps; apply in_app_iff; right; apply in_map_iff; exists ke; tauto).
    rewrite (dict_get_NoDup_In dp _ _ ND Id). unfold item_cols. cbn [fst snd]. rewrite map_map. simpl. rewrite map_id.
    intros x Hx. apply In_set_union. apply in_app_iff in Hx. destruct Hx as [Hx|Hx]; [right; apply In_set_union; left; exact Hx|].
    apply in_app_iff in Hx. destruct Hx as [Hx|Hx]; [right; apply In_set_union; right; exact Hx|left; apply In_py_set; exact Hx].
Qed.

Section MergedWin.
Variable fl : flavor.
Variable e : env.

(* what the requested terms of a windowed extend read is requested from its source *)
Lemma wextend_loc s ops w u1 :
  builder_ok (OExtend s ops true w) = true -> incl u1 (column_names (OExtend s ops true w)) ->
  let p := OExtend s ops true w in
  let subops := sub_ops u1 ops in
  let origcols := filter (fun k => negb (mem k (map fst subops))) u1 in
  forall k, In k u1 -> incl (item_cols (k, term_of (win_terms origcols subops w) k)) (cfs1 p u1).
Proof.
  intros BO Iu1 p subops origcols. set (us := cfs1 p u1).
  destruct (bok_extend_full _ _ _ _ BO) as [BOs [Ic Nk]]. destruct (bok_extend _ _ _ _ BO) as [_ Dk].
  pose proof (extend_request s ops true w u1 Dk) as Need. fold p in Need. fold us in Need.
  set (okeys := map (fun c => (c, mem c (w_rev w))) (w_order w)).
  set (tms := win_terms origcols subops w).
  assert (map fst okeys = w_order w) as EOK by (unfold okeys; rewrite map_map; simpl; apply map_id).
  assert (NoDup (map fst subops)) as Nsub by (apply NoDup_map_fst_filter, Nk).
  assert (map fst (map (fun ke : string * expr => (fst ke, TmWin (snd ke) (w_part w) okeys)) subops) = map fst subops) as EKS by (rewrite map_map; reflexivity).
  assert (forall k, In k u1 -> match last_for k ops with Some ke => term_of tms k = TmWin (snd ke) (w_part w) okeys | None => term_of tms k = TmPass end) as Hterm.
  { intros k Ik. unfold term_of, tms, win_terms. rewrite dict_get_app. fold okeys.
    destruct (last_for k ops) as [ke|] eqn:L.
    - destruct (last_for_In _ _ _ L) as [Ike Ek].
      assert (In ke subops) as Isub by (apply in_sub_ops; [exact Ike|rewrite Ek; exact Ik]).
      assert (dict_get (pass_terms origcols) k = None) as G1.
      { apply dict_get_None. unfold dict_keys. rewrite keys_pass. unfold origcols. intros I. apply filter_In in I. destruct I as [_ I].
        apply negb_true_iff, mem_false in I. apply I. rewrite <- Ek. apply in_map, Isub. }
      rewrite G1.
      assert (dict_get (map (fun ke0 : string * expr => (fst ke0, TmWin (snd ke0) (w_part w) okeys)) subops) k = Some (TmWin (snd ke) (w_part w) okeys)) as G2.
      { apply dict_get_NoDup_In; [unfold dict_keys; rewrite EKS; exact Nsub|]. apply in_map_iff. exists ke. rewrite Ek. tauto. }
      rewrite G2. reflexivity.
    - destruct (dict_get (pass_terms origcols) k) as [t|] eqn:G1.
      + apply dict_get_In in G1. unfold pass_terms in G1. apply in_map_iff in G1. destruct G1 as [x [[= _ <-] _]]. reflexivity.
      + destruct (dict_get (map _ subops) k) as [t|] eqn:G2; [|reflexivity]. exfalso. apply dict_get_Some_keys in G2. unfold dict_keys in G2. rewrite EKS in G2.
        apply (last_for_None _ _ L). apply in_map_iff in G2. destruct G2 as [ke [E1 I1]]. apply filter_In in I1. apply in_map_iff. exists ke. tauto. }
  intros k Ik c Hc. pose proof (Hterm k Ik) as HT. specialize (Need k Ik).
  destruct (last_for k ops) as [ke|] eqn:L; rewrite HT in Hc; unfold item_cols in Hc; cbn [fst snd] in Hc.
  - rewrite EOK in Hc. destruct (last_for_In _ _ _ L) as [Ike Ek]. apply Need; [exact Hc|].
    apply in_app_iff in Hc. destruct Hc as [Hc|Hc]; [|apply in_app_iff in Hc; destruct Hc as [Hc|Hc]].
    + pose proof BO as BO'. simpl in BO'. rewrite !andb_true_iff in BO'. destruct BO' as [[[[_ B] _] _] _]. exact (proj1 (subset_spec _ _) B c Hc).
    + pose proof BO as BO'. simpl in BO'. rewrite !andb_true_iff in BO'. destruct BO' as [[[_ B] _] _]. exact (proj1 (subset_spec _ _) B c Hc).
    + apply Ic. eapply cols_used_in_ops; eassumption.
  - destruct Hc as [<-|[]]. apply Need. pose proof (Iu1 k Ik) as X. simpl in X. apply in_ext_cols in X. destruct X as [X|X]; [exact X|].
    exfalso. apply (last_for_None _ _ L). exact X.
Qed.

(* the WINDOWED extend merged into the step below *)
Lemma merged_wextend_N s ops w n ts s0 ci ds u u1 S :
  let p := OExtend s ops true w in
  let su := cfs1 p u1 in
  let subops := sub_ops u1 ops in
  let origcols := filter (fun k => negb (mem k (map fst subops))) u1 in
  let tms := win_terms origcols subops w in
  let deps := win_deps origcols subops w in
  let our_nt := non_trivial_terms deps tms in
  let sub := TUnary n (Some ts) s0 ci SfxNone true (Some ds) in
  builder_ok p = true -> sem_gen fl s e = Some S -> NoDup u -> NoDup u1 -> incl u u1 -> incl u1 (column_names p) -> subops <> [] ->
  (forall c, In c (w_part w ++ w_order w ++ w_rev w) -> In c u1) -> u <> [] -> NoDup su ->
  Delivers fl e sub su S -> merge_okN ts ds ->
  contention our_nt (needs deps our_nt) (non_trivial_terms ds ts) (needs ds (non_trivial_terms ds ts)) = [] ->
  Delivers fl e (TUnary n (Some (merged_terms our_nt tms deps ts)) s0 ci SfxNone true (Some (merged_deps our_nt tms deps ds))) u (sem_wextend fl ops w S)
  /\ merge_okN (merged_terms our_nt tms deps ts) (merged_deps our_nt tms deps ds).
Proof.
  intros p su subops origcols tms deps our_nt sub BO ES Nu Nu1 Iuu1 Iu1 NSub Hwin NEu Nsu D MOKs Hcont.
  destruct (bok_extend_full _ _ _ _ BO) as [BOs [Ic Nk]].
  pose proof (node_wextend fl e s ops w sub u u1 S (mkvn "extend" 0) (Some deps) BO ES Nu Nu1 Iuu1 Iu1 NSub Hwin D) as DF.
  fold p in DF. fold su in DF. fold subops in DF. fold origcols in DF. fold tms in DF.
  assert (NoDup origcols) as Norig by (apply NoDup_filter, Nu1).
  assert (NoDup (map fst subops)) as Nsub by (apply NoDup_map_fst_filter, Nk).
  assert (forall k, In k origcols -> ~ In k (map fst subops)) as Dj.
  { intros k Hk. unfold origcols in Hk. apply filter_In in Hk. destruct Hk as [_ Hk]. apply negb_true_iff, mem_false in Hk. exact Hk. }
  destruct (extend_deps_okN_win origcols subops w Norig Nsub Dj NSub) as [MOKo Ekeys]. fold tms in MOKo, Ekeys. fold deps in MOKo, Ekeys.
  assert (norm tms = Some tms) as ENorm by (destruct MOKo as [NL _]; destruct tms; [congruence|reflexivity]). rewrite ENorm in DF.
  apply (merged_delivers_gen fl e n ts s0 ci ds su S (mkvn "extend" 0) tms deps (Some deps) u (sem_wextend fl ops w S) D MOKs Nsu MOKo Ekeys DF); [|exact NEu| |exact Hcont].
  - intros k Ik. exact (wextend_loc s ops w u1 BO Iu1 k (Iuu1 k Ik)).
  - unfold sem_wextend. cbn [rows]. rewrite !map_length, tag_from_length. reflexivity.
Qed.

(* the un-windowed extend merged into a step that may carry window items *)
Lemma merged_extend_N s ops n ts s0 ci ds u S :
  let p := OExtend s ops false no_window in
  let su := cfs1 p u in
  let subops := sub_ops u ops in
  let origcols := filter (fun k => negb (mem k (map fst subops))) u in
  let tms : terms := pass_terms origcols ++ map (fun ke => (fst ke, TmExpr (snd ke))) subops in
  let deps : depmap := map (fun k => (k, [k])) origcols ++ map (fun ke => (fst ke, set_union (py_set (cols_used (snd ke))) [])) subops in
  let our_nt := non_trivial_terms deps tms in
  let sub := TUnary n (Some ts) s0 ci SfxNone true (Some ds) in
  builder_ok p = true -> sem_gen fl s e = Some S -> NoDup u -> incl u (column_names p) -> subops <> [] -> u <> [] ->
  Delivers fl e sub su S -> merge_okN ts ds ->
  contention our_nt (needs deps our_nt) (non_trivial_terms ds ts) (needs ds (non_trivial_terms ds ts)) = [] ->
  Delivers fl e (TUnary n (Some (merged_terms our_nt tms deps ts)) s0 ci SfxNone true (Some (merged_deps our_nt tms deps ds))) u (sem_extend fl ops S)
  /\ merge_okN (merged_terms our_nt tms deps ts) (merged_deps our_nt tms deps ds).
Proof.
  intros p su subops origcols tms deps our_nt sub BO ES Nu Iu NSub NEu D MOKs Hcont.
  destruct (bok_extend_full _ _ _ _ BO) as [BOs [Ic Nk]].
  pose proof (builder_ok_nodup s BOs) as Ns.
  assert (NoDup su) as Nsu. { unfold su, cfs1, p. simpl. destruct (sub_ops u ops); [exact Ns|apply NoDup_filter, Ns]. }
  pose proof (node_extend fl e s ops sub u S (mkvn "extend" 0) (Some deps) BO ES Nu Iu NSub D) as DF.
  fold p in DF. fold su in DF. fold subops in DF. fold origcols in DF. fold tms in DF.
  assert (NoDup origcols) as Norig by (apply NoDup_filter, Nu).
  assert (NoDup (map fst subops)) as Nsub by (apply NoDup_map_fst_filter, Nk).
  assert (forall k, In k origcols -> ~ In k (map fst subops)) as Dj.
  { intros k Hk. unfold origcols in Hk. apply filter_In in Hk. destruct Hk as [_ Hk]. apply negb_true_iff, mem_false in Hk. exact Hk. }
  pose proof (merge_ok_weaken _ _ (extend_deps_ok origcols subops Norig Nsub Dj NSub)) as MOKo. fold tms in MOKo. fold deps in MOKo.
  assert (map fst tms = map fst deps) as Ekeys.
  { unfold tms, deps. rewrite !map_app, keys_pass, !map_map. simpl. rewrite map_id. reflexivity. }
  assert (norm tms = Some tms) as ENorm by (destruct MOKo as [NL _]; destruct tms; [congruence|reflexivity]). rewrite ENorm in DF.
  pose proof (wneeds_needs _ _ _ _ _ (extend_request s ops false no_window u (fun k _ H => H))) as Need. fold p in Need. fold su in Need.
  assert (incl u (map fst tms)) as IuK by (exact (dv_incl _ _ _ _ _ DF)).
  assert (forall k, In k u -> incl (item_cols (k, term_of tms k)) su) as Hloc.
  { intros k Ik c Hc. specialize (Need k Ik). unfold term_of in Hc. destruct (dict_get tms k) as [t|] eqn:G.
    2:{ apply dict_get_None in G. destruct (G (IuK k Ik)). }
    apply dict_get_In in G. unfold tms in G. apply in_app_iff in G. destruct G as [G|G].
    - unfold pass_terms in G. apply in_map_iff in G. destruct G as [x [[= <- <-] Ix]]. simpl in Hc. destruct Hc as [<-|[]].
      assert (~ In x (map fst ops)) as Nx.
      { intros I. apply (Dj x Ix). apply in_map_iff in I. destruct I as [ke [E1 I1]]. apply in_map_iff. exists ke. split; [exact E1|]. apply in_sub_ops; [exact I1|rewrite E1; exact Ik]. }
      rewrite (last_for_not_key x ops Nx) in Need. apply Need. specialize (Iu x Ik). simpl in Iu. apply in_ext_cols in Iu. destruct Iu; [assumption|contradiction].
    - apply in_map_iff in G. destruct G as [ke [[= <- <-] Ike]]. simpl in Hc.
      assert (In ke ops) as Io by (apply filter_In in Ike; tauto).
      assert (last_for (fst ke) ops = Some ke) as L.
      { destruct (last_for (fst ke) ops) as [ke'|] eqn:L; [|exfalso; apply (last_for_None _ _ L); apply in_map, Io].
        destruct (last_for_In _ _ _ L) as [I' E']. f_equal.
        destruct ke as [k1 e1], ke' as [k2 e2]. simpl in E'. subst k2.
        assert (dict_get ops k1 = Some e1) as G1 by (apply dict_get_NoDup_In; assumption).
        assert (dict_get ops k1 = Some e2) as G2 by (apply dict_get_NoDup_In; assumption). congruence. }
      rewrite L in Need. apply Need; [exact Hc|]. apply Ic. eapply cols_used_in_ops; eassumption. }
  apply (merged_delivers_gen fl e n ts s0 ci ds su S (mkvn "extend" 0) tms deps (Some deps) u (sem_extend fl ops S) D MOKs Nsu MOKo Ekeys DF Hloc NEu); [|exact Hcont].
  apply extend_row_count.
Qed.

End MergedWin.
