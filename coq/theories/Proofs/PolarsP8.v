(* C03, part 8: the theorems.  Whenever the Polars executor model returns a frame, the frame has exactly the declared
   columns; and under the guard (outside the known findings and accepted conventions) it has the columns and the multiset
   of rows of the Pandas-flavoured reference semantics. *)
From Coq Require Import List Bool Arith ZArith QArith String Lia Permutation.
Import ListNotations.
From DA Require Import Base.PyRT Base.PyStr Base.Val Model.Sem Model.PolarsExec Proofs.SemOrderP Proofs.SemBasicP
  Proofs.PolarsP1 Proofs.PolarsP2 Proofs.PolarsP3 Proofs.PolarsP4 Proofs.PolarsP5 Proofs.PolarsP6 Proofs.PolarsP7.
Local Open Scope string_scope.
Local Open Scope list_scope.

(* ------------------------------------------------------------------ columns: no temporary survives, none is lost *)
Lemma fold_failed_ext one wd pb (l : list (string * expr)) st : st = Raise \/ st = Unmodelled ->
  forall r, fold_left (extend_fold_step one wd pb) l st <> Ok r.
Proof. revert st. induction l as [|k t IH]; intros st [->| ->] r; cbn [fold_left]; try discriminate; apply IH; auto. Qed.
Lemma fold_failed_prj one (l : list (string * expr)) st : st = Raise \/ st = Unmodelled ->
  forall r, fold_left (project_fold_step one) l st <> Ok r.
Proof. revert st. induction l as [|k t IH]; intros st [->| ->] r; cbn [fold_left]; try discriminate; apply IH; auto. Qed.

Lemma fold_extend_names one wd pb (ops : list (string * expr)) temps acc names temps' produced names' :
  fold_left (extend_fold_step one wd pb) ops (Ok (temps, acc, names)) = Ok (temps', produced, names') ->
  map fst produced = map fst acc ++ map fst ops /\ (temps <> [] -> temps' <> []).
Proof.
  revert temps acc names. induction ops as [|ke t IH]; intros temps acc names H; cbn [fold_left] in H.
  - inversion H; subst. rewrite app_nil_r. auto.
  - destruct (extend_fold_step one wd pb (Ok (temps, acc, names)) ke) as [[[tm pr] nm]| |] eqn:E.
    + destruct (IH _ _ _ H) as [A C].
      unfold extend_fold_step in E. cbn [rbind] in E.
      destruct (if wd then _ else _) as [[tm0 opk] nm0] eqn:E0 in E. apply rbind_ok in E. destruct E as [x [_ E]]. inversion E; subst tm pr nm; clear E.
      split.
      * rewrite A, map_app. cbn [map fst]. rewrite <- app_assoc. reflexivity.
      * intros N. apply C. destruct wd; [|inversion E0; subst; exact N].
        destruct (promote _ _ _ _) as [[[nm1 v] e']|] in E0; inversion E0; subst; [|exact N]. destruct temps; discriminate.
    + exfalso. exact (fold_failed_ext one wd pb t Raise (or_introl eq_refl) _ H).
    + exfalso. exact (fold_failed_ext one wd pb t Unmodelled (or_intror eq_refl) _ H).
Qed.

Lemma fold_project_names one (ops : list (string * expr)) temps acc names temps' produced names' :
  fold_left (project_fold_step one) ops (Ok (temps, acc, names)) = Ok (temps', produced, names') ->
  map fst produced = map fst acc ++ map fst ops /\ (temps <> [] -> temps' <> []).
Proof.
  revert temps acc names. induction ops as [|ke t IH]; intros temps acc names H; cbn [fold_left] in H.
  - inversion H; subst. rewrite app_nil_r. auto.
  - destruct (project_fold_step one (Ok (temps, acc, names)) ke) as [[[tm pr] nm]| |] eqn:E.
    + destruct (IH _ _ _ H) as [A C].
      unfold project_fold_step in E. cbn [rbind] in E.
      destruct (match promote _ _ _ _ with Some _ => _ | None => _ end) as [[tm0 opk] nm0] eqn:E0 in E.
      apply rbind_ok in E. destruct E as [x [_ E]]. inversion E; subst tm pr nm; clear E.
      split.
      * rewrite A, map_app. cbn [map fst]. rewrite <- app_assoc. reflexivity.
      * intros N. apply C. destruct (promote _ _ _ _) as [[[nm1 v] e']|] in E0; inversion E0; subst; [|exact N]. destruct temps; discriminate.
    + exfalso. exact (fold_failed_prj one t Raise (or_introl eq_refl) _ H).
    + exfalso. exact (fold_failed_prj one t Unmodelled (or_intror eq_refl) _ H).
Qed.

Lemma select_if_cols {A} (temps : list A) declared t t2 : select_if temps declared t = Ok t2 ->
  (temps = [] /\ t2 = t) \/ (temps <> [] /\ cols t2 = declared).
Proof.
  unfold select_if. destruct temps; intros H; [left; inversion H; auto|right].
  apply pl_select_ok in H. destruct H as [-> _]. split; [discriminate|reflexivity].
Qed.

Lemma with_columns_if_nil t : with_columns_if t [] = t.
Proof. reflexivity. Qed.

Lemma plexec_columns p : forall e t, plexec p e = Ok t -> cols t = column_names p.
Proof.
  induction p as [n cs|s IHp ops wd w|s IHp ops gb|s IHp x|s IHp cs|s IHp cs|s IHp m|s IHp m dels|s IHp cs rev lim|a IHa b IHb on_a on_b jt|a IHa b IHb idc an bn];
    intros env t H; cbn [plexec] in H.
  - destruct (dict_get env n); [|discriminate]. apply pl_select_ok in H. destruct H as [-> _]. reflexivity.
  - (* extend *)
    apply rbind_ok in H. destruct H as [t0 [H0 H]]. specialize (IHp _ _ H0). cbn [column_names].
    unfold pl_extend_step in H. apply rbind_ok in H. destruct H as [[[temps produced] nms] [Hf H]].
    destruct (fold_extend_names _ _ _ _ _ _ _ _ _ _ Hf) as [MF NE]. cbn [map app] in MF.
    apply select_if_cols in H. destruct H as [[-> ->]|[_ C]]; [|exact C].
    rewrite cols_with_columns, MF. cbn [with_columns_if].
    destruct (w_order w); cbn [pl_sort cols]; rewrite IHp; reflexivity.
  - (* project *)
    apply rbind_ok in H. destruct H as [t0 [H0 H]]. cbn [column_names].
    unfold pl_project_step in H. apply rbind_ok in H. destruct H as [[[temps produced] nms] [Hf H]].
    destruct (fold_project_names _ _ _ _ _ _ _ _ Hf) as [MF NE]. cbn [map app] in MF.
    apply rbind_ok in H. destruct H as [r2 [H2 H]]. apply rbind_ok in H. destruct H as [r3 [H3 H]].
    assert (cols r3 = gb ++ map fst ops) as C3.
    { apply select_if_cols in H3. destruct H3 as [[-> ->]|[_ C]]; [|exact C].
      unfold pl_group_agg in H2. destruct (negb _) in H2; [discriminate|]. inversion H2; subst r2. cbn [cols]. rewrite MF.
      destruct gb as [|g gb']; [|reflexivity]. exfalso. cbn [app] in NE. apply NE; [discriminate|reflexivity]. }
    destruct gb as [|g gb'], (rows r3); inversion H; subst t; cbn [cols]; exact C3.
  - (* select_rows *)
    apply rbind_ok in H. destruct H as [t0 [H0 H]]. specialize (IHp _ _ H0). cbn [column_names].
    unfold pl_select_rows_step in H. apply rbind_ok in H. destruct H as [px [_ H]].
    apply select_if_cols in H. destruct H as [[E ->]|[_ C]]; [|exact C]. rewrite E. cbn [with_columns_if pl_filter cols]. exact IHp.
  - apply rbind_ok in H. destruct H as [t0 [H0 H]]. apply pl_select_ok in H. destruct H as [-> _]. reflexivity.
  - apply rbind_ok in H. destruct H as [t0 [H0 H]]. apply pl_select_ok in H. destruct H as [-> _]. reflexivity.
  - apply rbind_ok in H. destruct H as [t0 [H0 H]]. unfold pl_rename_step in H. apply rbind_ok in H. destruct H as [t1 [_ H]].
    apply pl_select_ok in H. destruct H as [-> _]. reflexivity.
  - apply rbind_ok in H. destruct H as [t0 [H0 H]]. unfold pl_rename_step in H. apply rbind_ok in H. destruct H as [t1 [_ H]].
    apply pl_select_ok in H. destruct H as [-> _]. reflexivity.
  - apply rbind_ok in H. destruct H as [t0 [H0 H]]. specialize (IHp _ _ H0). unfold pl_order_step in H. inversion H; subst t.
    cbn [column_names]. destruct lim; cbn [cols pl_sort]; exact IHp.
  - (* join *)
    apply rbind_ok in H. destruct H as [ta [Ha H]]. apply rbind_ok in H. destruct H as [tb [Hb H]].
    unfold pl_join_step in H. destruct jt;
      repeat (apply rbind_ok in H; let r := fresh "r" in let E := fresh "E" in destruct H as [r [E H]]);
      apply pl_select_ok in H; destruct H as [-> _]; reflexivity.
  - (* concat *)
    apply rbind_ok in H. destruct H as [ta [Ha H]]. apply rbind_ok in H. destruct H as [tb [Hb H]].
    unfold pl_concat_step in H. destruct (match idc with Some c => mem c (column_names a) | None => false end) eqn:Ei; [discriminate|].
    apply rbind_ok in H. destruct H as [a1 [Ea H]]. apply rbind_ok in H. destruct H as [b1 [Eb H]].
    apply pl_select_ok in Ea. destruct Ea as [-> _]. inversion H; subst t. cbn [cols column_names].
    destruct idc as [c|]; [|cbn [sem_select_cols cols]; rewrite app_nil_r; reflexivity].
    rewrite cols_with_columns. cbn [sem_select_cols cols map fst]. apply ext_cols_fresh. apply mem_false. exact Ei.
Qed.

(* ------------------------------------------------------------------ agreement with the Pandas-flavoured reference semantics *)
Lemma width_perm t t' : cols t = cols t' -> Permutation (rows t) (rows t') -> width_ok t' -> width_ok t.
Proof.
  unfold width_ok. intros C P W. rewrite Forall_forall in *. intros r I. rewrite C. apply W. eapply Permutation_in; eassumption.
Qed.

Lemma NoDup_app_disj {A} (l1 l2 : list A) : NoDup l1 -> NoDup l2 -> (forall x, In x l1 -> ~ In x l2) -> NoDup (l1 ++ l2).
Proof.
  induction 1 as [|x t Hx Nt IH]; intros N2 D; simpl; [exact N2|].
  constructor.
  - rewrite in_app_iff. intros [I|I]; [exact (Hx I)|]. exact (D x (or_introl eq_refl) I).
  - apply IH; [exact N2|]. intros y I. apply D. right. exact I.
Qed.
Lemma NoDup_join_cols (ca cb : list string) : NoDup ca -> NoDup cb -> NoDup (ca ++ filter (fun c => negb (mem c ca)) cb).
Proof.
  intros Na Nb. apply NoDup_app_disj; [exact Na|apply NoDup_filter; exact Nb|].
  intros x I F. apply filter_In in F. destruct F as [_ F]. apply negb_true_iff, mem_false in F. exact (F I).
Qed.

Lemma forallb_map' {A B} (f : B -> bool) (g : A -> B) l : forallb f (map g l) = forallb (fun x => f (g x)) l.
Proof. induction l as [|x t IH]; simpl; [reflexivity|]. rewrite IH. reflexivity. Qed.

Lemma in_all_causes c : In c all_causes.
Proof. destruct c; simpl; tauto. Qed.
Lemma guard_all p e : agree_guardb p e = true -> forall c, guard_for c p e = true.
Proof. unfold agree_guardb. rewrite forallb_forall. intros H c. apply H, in_all_causes. Qed.

Lemma guard_for_unary c p s e : sources_of p = [s] ->
  guard_for c p e = guard_for c s e && match sem_gen fl_pandas s e with Some t => step_guard c p [t] | None => true end.
Proof.
  destruct p; cbn [sources_of]; intros E; inversion E; subst; cbn [guard_for map]; destruct (sem_gen fl_pandas s e); reflexivity.
Qed.
Lemma guard_for_binary c p a b e : sources_of p = [a; b] ->
  guard_for c p e = guard_for c a e && guard_for c b e &&
                    match sem_gen fl_pandas a e, sem_gen fl_pandas b e with Some ta, Some tb => step_guard c p [ta; tb] | _, _ => true end.
Proof.
  destruct p; cbn [sources_of]; intros E; inversion E; subst; cbn [guard_for map];
    destruct (sem_gen fl_pandas a e), (sem_gen fl_pandas b e); reflexivity.
Qed.

Lemma cols_exist_spec p srcs : step_guard CColumnsExist p srcs = true ->
  forall c, In c (step_cols_needed p) -> In c (step_source_cols p).
Proof.
  intros H c I. assert (forallb (fun c0 => mem c0 (step_source_cols p)) (step_cols_needed p) = true) as H' by (destruct p; exact H).
  rewrite forallb_forall in H'. apply mem_In. apply H'. exact I.
Qed.

Lemma rows_nulls_ok_spec sens t es : rows_nulls_ok sens t es = true ->
  forall r e, In r (rows t) -> In e es -> expr_nulls_ok sens (cols t) r e = true.
Proof. unfold rows_nulls_ok. rewrite forallb_forall. intros H r e Ir Ie. specialize (H r Ir). rewrite forallb_forall in H. auto. Qed.

Lemma nulls_ok3_from t t' es r e :
  cols t = cols t' -> Permutation (rows t) (rows t') ->
  rows_nulls_ok is_cmp_op t' es = true -> rows_nulls_ok is_logic_op t' es = true ->
  In r (rows t) -> In e es -> nulls_ok3 (cols t) r e.
Proof.
  intros C P A B Ir Ie. assert (In r (rows t')) as Ir' by (eapply Permutation_in; eassumption).
  unfold nulls_ok3. rewrite C. repeat split; eapply rows_nulls_ok_spec; eassumption.
Qed.

Lemma rename_col_cases m c : In (rename_col m c) (map fst m) \/ rename_col m c = c.
Proof.
  unfold rename_col. destruct (find (fun no => String.eqb (snd no) c) m) as [no|] eqn:E; [|right; reflexivity].
  left. apply find_some in E. apply in_map. tauto.
Qed.

Ltac rw_unary Gc s e :=
  match type of Gc with guard_for ?c0 ?p _ = _ => rewrite (guard_for_unary c0 p s e eq_refl) in Gc end.
Ltac rw_binary Gc a b e :=
  match type of Gc with guard_for ?c0 ?p _ = _ => rewrite (guard_for_binary c0 p a b e eq_refl) in Gc end.
Ltac unary_prelude H S G Hs Es Gs Gp :=
  apply rbind_ok in H; destruct H as [ts [Hs H]];
  cbn [sem_gen] in S;
  match type of S with context [sem_gen fl_pandas ?s ?e] =>
    destruct (sem_gen fl_pandas s e) as [ts'|] eqn:Es; [|discriminate];
    cbn [option_map] in S;
    assert (forall c, guard_for c s e = true) as Gs
      by (intros c0; pose proof (G c0) as Gc; rw_unary Gc s e; apply andb_true_iff in Gc; tauto)
  end.

Lemma agree_main p : forall e t t',
  plexec p e = Ok t -> (forall c, guard_for c p e = true) -> sem_gen fl_pandas p e = Some t' ->
  good t /\ cols t = cols t' /\ Permutation (rows t) (rows t').
Proof.
  induction p as [n cs|s IHp ops wd w|s IHp ops gb|s IHp x|s IHp cs|s IHp cs|s IHp m|s IHp m dels|s IHp cs rev lim|a IHa b IHb on_a on_b jt|a IHa b IHb idc an bn];
    intros e t t' H G S.
  - (* table *)
    cbn [plexec sem_gen] in H, S. destruct (dict_get e n) as [t0|]; [|discriminate]. inversion S; subst t'.
    apply pl_select_ok in H. destruct H as [-> [ND _]].
    split; [split; [exact ND|apply width_select_cols]|]. split; [reflexivity|apply Permutation_refl].
  - (* extend *)
    cbn [plexec] in H. unary_prelude H S G Hs Es Gs Gp.
    assert (forall c, step_guard c (OExtend s ops wd w) [ts'] = true) as Gp.
    { intros c0. pose proof (G c0) as Gc. rw_unary Gc s e. rewrite Es in Gc. apply andb_true_iff in Gc. tauto. }
    destruct (IHp e ts ts' Hs Gs Es) as [[NDs Ws] [Cs Ps]].
    pose proof (sem_cols _ _ _ _ Es) as Cn. pose proof (sem_rows_width _ _ _ _ Es) as Ws'. fold (width_ok ts') in Ws'.
    pose proof (cols_exist_spec _ _ (Gp CColumnsExist)) as NR. cbn [step_cols_needed step_source_cols] in NR.
    cbn [column_names] in H. rewrite <- Cn, <- Cs in H.
    destruct wd.
    + (* windowed: group aggregates over a partition *)
      pose proof (Gp CVocab) as V. cbn [step_guard] in V. rewrite <- forallb_map' in V.
      inversion S; subst t'.
      destruct (wextend_step_perm _ ops w ts ts' t (conj NDs Ws) Cs Ps Ws' eq_refl V) as [C2 P2]; [|exact H|].
      * intros c [I|I]; rewrite Cs, Cn; apply NR.
        -- apply in_or_app. left. exact I.
        -- apply in_or_app. right. apply in_or_app. left. exact I.
      * assert (cols t = cols (sem_wextend fl_pandas ops w ts')) as CC by (rewrite C2; cbn [sem_wextend cols]; rewrite Cs; reflexivity).
        split; [split|split; [exact CC|exact P2]].
        -- rewrite C2. apply NoDup_ext_cols. exact NDs.
        -- eapply width_perm; [exact CC|exact P2|apply width_wextend; exact Ws'].
    + (* row-wise *)
      pose proof (Gp CVocab) as V. cbn [step_guard] in V. apply andb_true_iff in V. destruct V as [V Vw]. rewrite <- forallb_map' in V.
      assert (w_part w = [] /\ w_order w = []) as [Wp Wo] by (destruct (w_part w), (w_order w); try discriminate; auto).
      inversion S; subst t'.
      assert (t = sem_extend fl_pandas ops ts) as ->.
      { apply (extend_step_ok _ ops w ts t (conj NDs Ws) Wp Wo eq_refl V); [| |exact H].
        - intros c I. rewrite Cs, Cn. apply NR. apply in_or_app. left. exact I.
        - intros r e0 Ir Ie. apply (nulls_ok3_from ts ts' (map snd ops) r e0 Cs Ps); try assumption.
          + exact (Gp CCmpNull).
          + exact (Gp CLogicNull). }
      destruct (extend_perm fl_pandas ops ts ts' Cs Ps) as [CC PP].
      split; [split; [cbn [sem_extend cols]; apply NoDup_ext_cols; exact NDs|apply width_extend; exact Ws]|]. auto.
  - (* project *)
    cbn [plexec] in H. unary_prelude H S G Hs Es Gs Gp.
    assert (forall c, step_guard c (OProject s ops gb) [ts'] = true) as Gp.
    { intros c0. pose proof (G c0) as Gc. rw_unary Gc s e. rewrite Es in Gc. apply andb_true_iff in Gc. tauto. }
    destruct (IHp e ts ts' Hs Gs Es) as [[NDs Ws] [Cs Ps]].
    pose proof (sem_cols _ _ _ _ Es) as Cn. pose proof (sem_rows_width _ _ _ _ Es) as Ws'. fold (width_ok ts') in Ws'.
    pose proof (cols_exist_spec _ _ (Gp CColumnsExist)) as NR. cbn [step_cols_needed step_source_cols] in NR.
    pose proof (Gp CVocab) as V. cbn [step_guard] in V. rewrite <- forallb_map' in V.
    inversion S; subst t'. cbn [column_names] in H. rewrite <- Cn, <- Cs in H.
    pose proof (project_step_nodup _ _ ops gb ts t V H) as NDp.
    assert (t = sem_project fl_pandas ops gb ts) as ->.
    { apply (project_step_same _ ops gb ts t (conj NDs Ws) eq_refl V); [| |exact H].
      - intros c [I|I]; rewrite Cs, Cn; apply NR; apply in_or_app; [right|left]; exact I.
      - intros -> Er. pose proof (Gp CEmptyProject) as GE. cbn [step_guard] in GE.
        assert (rows ts' = []) as Er' by (rewrite Er in Ps; apply Permutation_nil in Ps; exact Ps). rewrite Er' in GE.
        apply negb_true_iff in GE. apply forallb_forall. intros ke Ike. apply negb_true_iff.
        destruct (mem (agg_of (snd ke)) _) eqn:M; [|reflexivity].
        assert (existsb (fun ke0 => mem (agg_of (snd ke0)) ["sum"; "count"; "size"; "_size"]) ops = true); [|congruence].
        apply existsb_exists. eauto. }
    split; [split; [exact NDp|apply width_project]|]. split; [reflexivity|].
    apply project_perm; try assumption.
    pose proof (Gp CGroupKeyRepr) as GK. cbn [step_guard] in GK. rewrite forallb_forall in GK.
    intros r1 r2 I1 I2 E. specialize (GK r1 I1). rewrite forallb_forall in GK. specialize (GK r2 I2).
    rewrite E in GK. cbn [negb orb] in GK. apply (proj1 (eqb_true _ _)) in GK. exact GK.
  - (* select_rows *)
    cbn [plexec] in H. unary_prelude H S G Hs Es Gs Gp.
    assert (forall c, step_guard c (OSelectRows s x) [ts'] = true) as Gp.
    { intros c0. pose proof (G c0) as Gc. rw_unary Gc s e. rewrite Es in Gc. apply andb_true_iff in Gc. tauto. }
    destruct (IHp e ts ts' Hs Gs Es) as [[NDs Ws] [Cs Ps]].
    pose proof (Gp CVocab) as V. cbn [step_guard] in V. inversion S; subst t'.
    assert (t = sem_select_rows fl_pandas x ts) as ->.
    { apply (select_rows_step_filter (column_names (OSelectRows s x)) x ts t V); [|exact H]. intros r Ir.
      assert (In r (rows ts')) as Ir' by (eapply Permutation_in; eassumption).
      pose proof (Gp CCmpNull) as G1. pose proof (Gp CLogicNull) as G2.
      cbn [step_guard] in G1, G2. unfold filter_rows_ok in G1, G2. rewrite forallb_forall in G1, G2.
      unfold filter_ok3. rewrite Cs. auto. }
    split; [split; [exact NDs|apply width_select_rows; exact Ws]|]. split; [exact Cs|apply select_rows_perm; assumption].
  - (* select_columns *)
    cbn [plexec] in H. unary_prelude H S G Hs Es Gs Gp.
    destruct (IHp e ts ts' Hs Gs Es) as [[NDs Ws] [Cs Ps]]. inversion S; subst t'.
    apply pl_select_ok in H. destruct H as [-> [ND _]]. cbn [column_names] in *.
    split; [split; [exact ND|apply width_select_cols]|]. split; [reflexivity|apply select_cols_perm; assumption].
  - (* drop_columns *)
    cbn [plexec] in H. unary_prelude H S G Hs Es Gs Gp.
    destruct (IHp e ts ts' Hs Gs Es) as [[NDs Ws] [Cs Ps]]. pose proof (sem_cols _ _ _ _ Es) as Cn. inversion S; subst t'.
    apply pl_select_ok in H. destruct H as [-> [ND _]]. cbn [column_names] in *.
    unfold sem_drop_cols. rewrite Cn.
    split; [split; [exact ND|apply width_select_cols]|]. split; [reflexivity|apply select_cols_perm; assumption].
  - (* rename_columns *)
    cbn [plexec] in H. unary_prelude H S G Hs Es Gs Gp.
    destruct (IHp e ts ts' Hs Gs Es) as [[NDs Ws] [Cs Ps]]. pose proof (sem_cols _ _ _ _ Es) as Cn. inversion S; subst t'.
    unfold pl_rename_step in H. apply rbind_ok in H. destruct H as [t1 [H1 H]].
    unfold pl_rename in H1. destruct (forallb _ m && nodupb _) in H1; [|discriminate]. inversion H1; subst t1.
    apply pl_select_ok in H. destruct H as [-> [ND _]]. cbn [column_names] in *.
    assert (map (rename_col m) (column_names s) = cols (sem_rename m ts)) as CR by (cbn [sem_rename cols]; rewrite Cs, Cn; reflexivity).
    rewrite CR in *. rewrite select_self by (try exact ND; apply width_rename; exact Ws).
    split; [split; [exact ND|apply width_rename; exact Ws]|]. split; [cbn [sem_rename cols]; rewrite Cs; reflexivity|].
    apply rename_perm; assumption.
  - (* map_columns *)
    cbn [plexec] in H. unary_prelude H S G Hs Es Gs Gp.
    destruct (IHp e ts ts' Hs Gs Es) as [[NDs Ws] [Cs Ps]]. pose proof (sem_cols _ _ _ _ Es) as Cn. inversion S; subst t'.
    unfold pl_rename_step in H. apply rbind_ok in H. destruct H as [t1 [H1 H]].
    unfold pl_rename in H1. destruct (forallb _ m && nodupb _) in H1; [|discriminate]. inversion H1; subst t1.
    apply pl_select_ok in H. destruct H as [-> [ND _]]. cbn [column_names] in *.
    unfold sem_drop_cols. cbn [sem_rename cols]. rewrite Cn.
    split; [split; [exact ND|apply width_select_cols]|]. split; [reflexivity|].
    apply select_cols_perm; [cbn [sem_rename cols]; rewrite Cs; reflexivity|exact Ps].
  - (* order_rows *)
    cbn [plexec] in H. unary_prelude H S G Hs Es Gs Gp.
    assert (forall c, step_guard c (OOrder s cs rev lim) [ts'] = true) as Gp.
    { intros c0. pose proof (G c0) as Gc. rw_unary Gc s e. rewrite Es in Gc. apply andb_true_iff in Gc. tauto. }
    destruct (IHp e ts ts' Hs Gs Es) as [[NDs Ws] [Cs Ps]]. inversion S; subst t'.
    pose proof (sem_rows_width _ _ _ _ Es) as Ws'. fold (width_ok ts') in Ws'.
    destruct (order_step_perm cs rev lim ts ts' t Cs Ps) as [C2 P2]; [|exact H|].
    + intros NL. destruct lim as [k|]; [|congruence]. split; [exact (Gp CSortNulls)|exact (Gp CSortTies)].
    + split; [split|split; [exact C2|exact P2]].
      * rewrite C2. cbn [sem_order cols]. rewrite <- Cs. exact NDs.
      * eapply width_perm; [exact C2|exact P2|apply width_order; exact Ws'].
  - (* natural_join *)
    cbn [plexec] in H. apply rbind_ok in H. destruct H as [ta [Ha H]]. apply rbind_ok in H. destruct H as [tb [Hb H]].
    cbn [sem_gen] in S. destruct (sem_gen fl_pandas a e) as [ta'|] eqn:Ea; [|discriminate]. destruct (sem_gen fl_pandas b e) as [tb'|] eqn:Eb; [|discriminate].
    assert (forall c, guard_for c a e = true /\ guard_for c b e = true /\ step_guard c (OJoin a b on_a on_b jt) [ta'; tb'] = true) as G3.
    { intros c0. pose proof (G c0) as Gc. rw_binary Gc a b e. rewrite Ea, Eb in Gc.
      apply andb_true_iff in Gc. destruct Gc as [Gc G2]. apply andb_true_iff in Gc. tauto. }
    destruct (IHa e ta ta' Ha (fun c => proj1 (G3 c)) Ea) as [[NDa Wa] [Ca Pa]].
    destruct (IHb e tb tb' Hb (fun c => proj1 (proj2 (G3 c))) Eb) as [[NDb Wb] [Cb Pb]].
    pose proof (sem_cols _ _ _ _ Ea) as Cna. pose proof (sem_cols _ _ _ _ Eb) as Cnb.
    inversion S; subst t'. cbn [f_join_null_match fl_pandas].
    pose proof (proj2 (proj2 (G3 CJoinKeyed))) as GN. cbn [step_guard] in GN.
    assert (on_a <> []) as NE by (destruct on_a; [discriminate|discriminate]).
    cbn [column_names] in H. rewrite <- Cna, <- Cnb, <- Ca, <- Cb in H.
    destruct (join_step_perm _ on_a on_b jt ta tb t (conj NDa Wa) (conj NDb Wb) NE eq_refl H) as [C2 P2].
    assert (cols t = cols (sem_join false on_a on_b jt ta' tb')) as CC by (rewrite C2; cbn [sem_join cols]; rewrite Ca, Cb; reflexivity).
    assert (Permutation (rows t) (rows (sem_join false on_a on_b jt ta' tb'))) as PP.
    { eapply perm_trans; [exact P2|]. apply join_perm; assumption. }
    split; [split|split; [exact CC|exact PP]].
    + rewrite C2. apply NoDup_join_cols; assumption.
    + eapply width_perm; [exact CC|exact PP|apply width_join].
  - (* concat_rows *)
    cbn [plexec] in H. apply rbind_ok in H. destruct H as [ta [Ha H]]. apply rbind_ok in H. destruct H as [tb [Hb H]].
    cbn [sem_gen] in S. destruct (sem_gen fl_pandas a e) as [ta'|] eqn:Ea; [|discriminate]. destruct (sem_gen fl_pandas b e) as [tb'|] eqn:Eb; [|discriminate].
    assert (forall c, guard_for c a e = true /\ guard_for c b e = true /\ step_guard c (OConcat a b idc an bn) [ta'; tb'] = true) as G3.
    { intros c0. pose proof (G c0) as Gc. rw_binary Gc a b e. rewrite Ea, Eb in Gc.
      apply andb_true_iff in Gc. destruct Gc as [Gc G2]. apply andb_true_iff in Gc. tauto. }
    destruct (IHa e ta ta' Ha (fun c => proj1 (G3 c)) Ea) as [[NDa Wa] [Ca Pa]].
    destruct (IHb e tb tb' Hb (fun c => proj1 (proj2 (G3 c))) Eb) as [[NDb Wb] [Cb Pb]].
    pose proof (sem_cols _ _ _ _ Ea) as Cna. inversion S; subst t'.
    assert (cols ta = column_names a) as Cta by (rewrite Ca; exact Cna).
    assert (match idc with Some c => mem c (column_names a) | None => false end = false) as Ei.
    { unfold pl_concat_step in H. destruct (match idc with Some c => mem c (column_names a) | None => false end); [discriminate|reflexivity]. }
    assert (t = sem_concat idc an bn ta tb) as -> by (apply (concat_step_ok (column_names a) idc an bn ta tb t (conj NDa Wa) Cta H)).
    split; [split|split].
    + unfold sem_concat. destruct idc as [c|]; cbn [cols]; [|exact NDa]. apply NoDup_snoc; [exact NDa|]. apply mem_false. rewrite Cta. exact Ei.
    + apply width_concat. exact Wa.
    + unfold sem_concat. destruct idc; cbn [cols]; rewrite Ca; reflexivity.
    + apply concat_perm; assumption.
Qed.

Theorem polars_agrees_or_raises p e t t' :
  plexec p e = Ok t -> agree_guardb p e = true -> sem_gen fl_pandas p e = Some t' ->
  cols t = cols t' /\ Permutation (rows t) (rows t').
Proof. intros H G S. destruct (agree_main p e t t' H (guard_all p e G) S) as [_ [A B]]. auto. Qed.
