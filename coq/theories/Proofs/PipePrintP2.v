(* Proofs/PipePrintP2.v -- C12, character level, part 2: the lexer model `lexg` does not depend on its fuel, and
   what it does on each kind of token the expression printer writes. *)
From Coq Require Import List Bool String Ascii ZArith NArith Arith Lia ZifyBool DecimalString DecimalN DecimalFacts Decimal.
Import ListNotations.
From DA Require Import Model.PyExpr Model.ExprPrint Model.PipePrintStr Proofs.PipePrintP1.
Local Open Scope string_scope.
Local Open Scope bool_scope.
Local Open Scope list_scope.

(* ------------------------------------------------------------------ fuel *)
Lemma lex_body_ext (F : ffmt) (rec1 rec2 : string -> option (list tok)) (s : string) :
  (forall t, String.length t < String.length s -> rec1 t = rec2 t) -> lex_body F rec1 s = lex_body F rec2 s.
Proof. intros H. destruct s as [|c r]; [reflexivity|].
  assert (Hs : forall t, shorter t (String c r) = true -> rec1 t = rec2 t).
  { intros t Ht. apply H. unfold shorter in Ht. apply Nat.ltb_lt in Ht. exact Ht. }
  unfold lex_body. destruct (is_ws c).
  { apply H. cbn [String.length]. lia. }
  destruct (is_alpha_ c).
  { destruct (span is_idchar (String c r)) as [w rest]. destruct (starts_with is_quote rest); [reflexivity|].
    destruct (shorter rest (String c r)) eqn:E; [|reflexivity]. rewrite (Hs _ E). reflexivity. }
  destruct (is_digit c).
  { destruct (lex_number F (String c r)) as [[t rest]|]; [|reflexivity].
    destruct (shorter rest (String c r)) eqn:E; [|reflexivity]. rewrite (Hs _ E). reflexivity. }
  destruct (is_quote c).
  { destruct (scan_go c SNorm r) as [[v rest]|]; [|reflexivity].
    destruct ((match v with EmptyString => true | _ => false end) && starts_with (Ascii.eqb c) rest); [reflexivity|].
    destruct (shorter rest (String c r)) eqn:E; [|reflexivity]. rewrite (Hs _ E). reflexivity. }
  destruct (sym_match (String c r)) as [[sy rest]|]; [|reflexivity].
  destruct (shorter rest (String c r)) eqn:E; [|reflexivity]. rewrite (Hs _ E). reflexivity. Qed.

Lemma lex_fuel_irrel (F : ffmt) : forall (n m : nat) (s : string),
  String.length s < n -> String.length s < m -> lex_fuel F n s = lex_fuel F m s.
Proof. induction n as [|n IH]; intros m s Hn Hm; [lia|]. destruct m as [|m]; [lia|]. cbn [lex_fuel].
  apply lex_body_ext. intros t Ht. apply IH; lia. Qed.

Lemma lexg_unfold : forall F s, lexg F s = lex_body F (lexg F) s.
Proof. intros F s. unfold lexg at 1. cbn [lex_fuel]. apply lex_body_ext. intros t Ht. unfold lexg.
  apply lex_fuel_irrel; lia. Qed.

(* ------------------------------------------------------------------ option helpers *)
Lemma oapp_nil {A} (o : option (list A)) : oapp [] o = o.
Proof. destruct o; reflexivity. Qed.
Lemma oapp_cons {A} (x : A) (l : list A) (o : option (list A)) : oapp (x :: l) o = ocons x (oapp l o).
Proof. destruct o; reflexivity. Qed.
Lemma oapp_app {A} (l1 l2 : list A) (o : option (list A)) : oapp (l1 ++ l2) o = oapp l1 (oapp l2 o).
Proof. destruct o; cbn; [rewrite app_assoc|]; reflexivity. Qed.
Lemma oapp_one {A} (x : A) (o : option (list A)) : oapp [x] o = ocons x o.
Proof. destruct o; reflexivity. Qed.

(* ------------------------------------------------------------------ the branches of lex_body *)
Lemma lexg_nil (F : ffmt) : lexg F EmptyString = Some [].
Proof. reflexivity. Qed.

Lemma lexg_ws (F : ffmt) (c : ascii) (r : string) : is_ws c = true -> lexg F (String c r) = lexg F r.
Proof. intros H. rewrite lexg_unfold. unfold lex_body. rewrite H. reflexivity. Qed.

Lemma lexg_space (F : ffmt) (r : string) : lexg F (String " " r) = lexg F r.
Proof. apply lexg_ws. reflexivity. Qed.

Lemma lexg_word (F : ffmt) (c : ascii) (r w rest : string) :
  is_ws c = false -> is_alpha_ c = true -> span is_idchar (String c r) = (w, rest) ->
  starts_with is_quote rest = false -> shorter rest (String c r) = true ->
  lexg F (String c r) = ocons (classify w) (lexg F rest).
Proof. intros H1 H2 H3 H4 H5. rewrite lexg_unfold. unfold lex_body. rewrite H1, H2, H3, H4, H5. reflexivity. Qed.

Lemma lexg_num (F : ffmt) (c : ascii) (r : string) (t : tok) (rest : string) :
  is_ws c = false -> is_alpha_ c = false -> is_digit c = true -> lex_number F (String c r) = Some (t, rest) ->
  shorter rest (String c r) = true -> lexg F (String c r) = ocons t (lexg F rest).
Proof. intros H1 H2 H3 H4 H5. rewrite lexg_unfold. unfold lex_body. rewrite H1, H2, H3, H4, H5. reflexivity. Qed.

Lemma lexg_quoted (F : ffmt) (c : ascii) (r v rest : string) :
  is_ws c = false -> is_alpha_ c = false -> is_digit c = false -> is_quote c = true ->
  scan_go c SNorm r = Some (v, rest) ->
  (match v with EmptyString => true | _ => false end) && starts_with (Ascii.eqb c) rest = false ->
  shorter rest (String c r) = true -> lexg F (String c r) = ocons (TStr v) (lexg F rest).
Proof. intros H1 H2 H3 H4 H5 H6 H7. rewrite lexg_unfold. unfold lex_body. rewrite H1, H2, H3, H4, H5, H6, H7. reflexivity. Qed.

Lemma lexg_symb (F : ffmt) (c : ascii) (r sy rest : string) :
  is_ws c = false -> is_alpha_ c = false -> is_digit c = false -> is_quote c = false ->
  sym_match (String c r) = Some (sy, rest) -> shorter rest (String c r) = true ->
  lexg F (String c r) = ocons (TSym sy) (lexg F rest).
Proof. intros H1 H2 H3 H4 H5 H6. rewrite lexg_unfold. unfold lex_body. rewrite H1, H2, H3, H4, H5, H6. reflexivity. Qed.

(* ------------------------------------------------------------------ character classes *)
Lemma alpha_class (c : ascii) : is_alpha_ c = true -> is_ws c = false /\ is_digit c = false /\ is_quote c = false.
Proof. destruct c as [[] [] [] [] [] [] [] []]; vm_compute; intros H; try discriminate H; repeat split; reflexivity. Qed.

Lemma digit_class (c : ascii) : is_digit c = true -> is_ws c = false /\ is_alpha_ c = false /\ is_quote c = false.
Proof. destruct c as [[] [] [] [] [] [] [] []]; vm_compute; intros H; try discriminate H; repeat split; reflexivity. Qed.

Lemma quote_class (c : ascii) : is_quote c = true -> is_ws c = false /\ is_alpha_ c = false /\ is_digit c = false.
Proof. destruct c as [[] [] [] [] [] [] [] []]; vm_compute; intros H; try discriminate H; repeat split; reflexivity. Qed.

Lemma not_idchar_class (c : ascii) : is_idchar c = false ->
  is_alpha_ c = false /\ is_digit c = false /\ is_e c = false.
Proof. destruct c as [[] [] [] [] [] [] [] []]; vm_compute; intros H; try discriminate H; repeat split; reflexivity. Qed.

Lemma delim_char (c : ascii) : smem (s1 c) [" "; ")"; ","; "]"; "}"; ":"] = true ->
  is_idchar c = false /\ is_quote c = false /\ Ascii.eqb "."%char c = false.
Proof. destruct c as [[] [] [] [] [] [] [] []]; vm_compute; intros H; try discriminate H; repeat split; reflexivity. Qed.

Lemma delim_start_spec (rest : string) : delim_start rest = true ->
  starts_with is_idchar rest = false /\ starts_with is_quote rest = false
  /\ starts_with (Ascii.eqb "."%char) rest = false.
Proof. destruct rest as [|c r]; [intros _; repeat split; reflexivity|]. cbn [delim_start starts_with]. apply delim_char. Qed.

Lemma delim_start_cons (c : ascii) (r : string) :
  In c [" "; ")"; ","; "]"; "}"; ":"]%char -> delim_start (String c r) = true.
Proof. intros H. cbn [In] in H. repeat (destruct H as [<-|H]; [reflexivity|]). destruct H. Qed.

(* ------------------------------------------------------------------ span *)
Lemma span_app (p : ascii -> bool) (w rest : string) :
  all_chars p w = true -> starts_with p rest = false -> span p (w +++ rest) = (w, rest).
Proof. intros Hw Hr. induction w as [|c w IH].
  - cbn [String.append]. destruct rest as [|c r]; [reflexivity|]. cbn [starts_with] in Hr. cbn [span]. rewrite Hr. reflexivity.
  - cbn [all_chars] in Hw. apply andb_prop in Hw as [Hc Hw]. cbn [String.append span]. rewrite Hc, (IH Hw). reflexivity. Qed.

Lemma shorter_app (w rest : string) : w <> EmptyString -> shorter rest (w +++ rest) = true.
Proof. intros H. unfold shorter. apply Nat.ltb_lt. rewrite slen_app. destruct w as [|c w]; [congruence|]. cbn [String.length]. lia. Qed.

(* ------------------------------------------------------------------ identifiers and keywords *)
Lemma lexg_word_app (F : ffmt) (w rest : string) :
  starts_with is_alpha_ w = true -> all_chars is_idchar w = true ->
  starts_with is_idchar rest = false -> starts_with is_quote rest = false ->
  lexg F (w +++ rest) = ocons (classify w) (lexg F rest).
Proof. intros H1 H2 H3 H4. destruct w as [|c w]; [discriminate H1|]. cbn [starts_with] in H1.
  destruct (alpha_class c H1) as [Hw _].
  change (String c w +++ rest) with (String c (w +++ rest)).
  apply lexg_word; [exact Hw|exact H1| |exact H4|].
  - change (String c (w +++ rest)) with (String c w +++ rest). apply span_app; assumption.
  - change (String c (w +++ rest)) with (String c w +++ rest). apply shorter_app. discriminate. Qed.

Lemma ident_ok_spec (w : string) : ident_ok w = true ->
  starts_with is_alpha_ w = true /\ all_chars is_idchar w = true /\ smem w keywords = false.
Proof. unfold ident_ok. intros H. apply andb_prop in H as [H H3]. apply andb_prop in H as [H1 H2].
  apply negb_true_iff in H3. tauto. Qed.

Lemma lexg_ident (F : ffmt) (w rest : string) :
  ident_ok w = true -> starts_with is_idchar rest = false -> starts_with is_quote rest = false ->
  lexg F (w +++ rest) = ocons (TName w) (lexg F rest).
Proof. intros H H3 H4. apply ident_ok_spec in H as [H1 [H2 Hk]].
  rewrite (lexg_word_app F w rest H1 H2 H3 H4). unfold classify. rewrite Hk. reflexivity. Qed.

Lemma lexg_keyword (F : ffmt) (w rest : string) :
  smem w keywords = true -> starts_with is_alpha_ w = true -> all_chars is_idchar w = true ->
  starts_with is_idchar rest = false -> starts_with is_quote rest = false ->
  lexg F (w +++ rest) = ocons (TSym w) (lexg F rest).
Proof. intros Hk H1 H2 H3 H4. rewrite (lexg_word_app F w rest H1 H2 H3 H4). unfold classify. rewrite Hk. reflexivity. Qed.

(* ------------------------------------------------------------------ decimal integers *)
Lemma digits_of_uint (d : uint) : all_chars is_digit (NilEmpty.string_of_uint d) = true.
Proof. induction d as [|d IH|d IH|d IH|d IH|d IH|d IH|d IH|d IH|d IH|d IH];
  cbn [NilEmpty.string_of_uint all_chars]; [reflexivity|..]; rewrite IH; reflexivity. Qed.

Lemma nzhead_not_D0 (d u : uint) : nzhead d <> D0 u.
Proof. induction d as [|d IH|d IH|d IH|d IH|d IH|d IH|d IH|d IH|d IH|d IH]; cbn [nzhead]; try discriminate. exact IH. Qed.

Lemma dec_ok_unorm (d : uint) : unorm d = d -> dec_ok (NilEmpty.string_of_uint d) = true.
Proof. intros H. destruct d as [|d|d|d|d|d|d|d|d|d|d]; try reflexivity.
  - exfalso. exact (unorm_nonnil Nil H).
  - rewrite unorm_D0 in H. destruct (uint_eq_dec (nzhead d) Nil) as [E|E].
    + apply unorm_0 in E. rewrite E in H. injection H as <-. reflexivity.
    + rewrite (unorm_nzhead d E) in H. exfalso. exact (nzhead_not_D0 d d H). Qed.

Lemma to_uint_unorm (n : N) : unorm (N.to_uint n) = N.to_uint n.
Proof. rewrite <- (DecimalN.Unsigned.to_of (N.to_uint n)). rewrite DecimalN.Unsigned.of_to. reflexivity. Qed.

Lemma dec_of_N_digits (n : N) : all_chars is_digit (dec_of_N n) = true.
Proof. apply digits_of_uint. Qed.

Lemma dec_of_N_ok (n : N) : dec_ok (dec_of_N n) = true.
Proof. apply dec_ok_unorm. apply to_uint_unorm. Qed.

Lemma dec_of_N_nonempty (n : N) : dec_of_N n <> EmptyString.
Proof. intros E. pose proof (dec_of_N_ok n) as H. rewrite E in H. discriminate H. Qed.

Lemma N_of_dec_of_N (n : N) : N_of_dec (dec_of_N n) = Some n.
Proof. unfold N_of_dec, dec_of_N. rewrite NilEmpty.usu. cbn [option_map]. rewrite DecimalN.Unsigned.of_to. reflexivity. Qed.

Lemma dec_of_N_head (n : N) : exists c d, dec_of_N n = String c d /\ is_digit c = true.
Proof. pose proof (dec_of_N_digits n) as H. pose proof (dec_of_N_nonempty n) as H0.
  destruct (dec_of_N n) as [|c d]; [congruence|]. cbn [all_chars] in H. apply andb_prop in H as [H _]. exists c, d. split; [reflexivity|exact H]. Qed.

Lemma eqb_dot_sym (c : ascii) : Ascii.eqb c "."%char = Ascii.eqb "."%char c.
Proof. destruct (Ascii.eqb_spec c "."%char) as [->|N1]; [reflexivity|]. destruct (Ascii.eqb_spec "."%char c) as [<-|N2]; [congruence|reflexivity]. Qed.

(* the side condition on what follows the number: not an identifier character (hence no digit, e, E) and not "." *)
Lemma lex_number_dec (F : ffmt) (n : N) (rest : string) :
  starts_with is_idchar rest = false -> starts_with (Ascii.eqb "."%char) rest = false ->
  lex_number F (dec_of_N n +++ rest) = Some (TInt n, rest).
Proof. intros H1 H2. unfold lex_number.
  assert (Hd : starts_with is_digit rest = false).
  { destruct rest as [|c r]; [reflexivity|]. cbn [starts_with] in *. apply not_idchar_class in H1. tauto. }
  rewrite (span_app is_digit (dec_of_N n) rest (dec_of_N_digits n) Hd).
  rewrite (dec_of_N_ok n), (N_of_dec_of_N n).
  destruct rest as [|c r]; [reflexivity|]. cbn [starts_with] in H1, H2.
  rewrite eqb_dot_sym, H2. cbn [exp_part]. destruct (not_idchar_class c H1) as [_ [_ He]]. rewrite He.
  cbn [starts_with]. rewrite H1, H2. reflexivity. Qed.

Lemma lexg_dec (F : ffmt) (n : N) (rest : string) :
  starts_with is_idchar rest = false -> starts_with (Ascii.eqb "."%char) rest = false ->
  lexg F (dec_of_N n +++ rest) = ocons (TInt n) (lexg F rest).
Proof. intros H1 H2. pose proof (lex_number_dec F n rest H1 H2) as L. pose proof (shorter_app (dec_of_N n) rest (dec_of_N_nonempty n)) as S.
  destruct (dec_of_N_head n) as [c [d [E Hc]]]. rewrite E in *. destruct (digit_class c Hc) as [Hw [Ha _]].
  change (String c d +++ rest) with (String c (d +++ rest)) in *. apply lexg_num; assumption. Qed.

Lemma lexg_dec_delim (F : ffmt) (n : N) (rest : string) : delim_start rest = true ->
  lexg F (dec_of_N n +++ rest) = ocons (TInt n) (lexg F rest).
Proof. intros H. apply delim_start_spec in H as [H1 [_ H2]]. apply lexg_dec; assumption. Qed.

(* ------------------------------------------------------------------ floats *)
Lemma lexg_float (F : ffmt) (m : QArith_base.Q) (rest : string) : float_lex_ok F m -> delim_start rest = true ->
  lexg F (frepr F m +++ rest) = ocons (TFloat (Some m)) (lexg F rest).
Proof. intros [Hd HL] Hr. specialize (HL rest Hr).
  assert (Hne : frepr F m <> EmptyString) by (intros E; rewrite E in Hd; discriminate Hd).
  pose proof (shorter_app (frepr F m) rest Hne) as S.
  destruct (frepr F m) as [|c d]; [congruence|]. cbn [starts_with] in Hd. destruct (digit_class c Hd) as [Hw [Ha _]].
  change (String c d +++ rest) with (String c (d +++ rest)) in *. apply lexg_num; assumption. Qed.

(* ------------------------------------------------------------------ string literals *)
Lemma lexg_repr (F : ffmt) (np : N -> bool) (s rest : string) : starts_with is_quote rest = false ->
  lexg F (py_repr np s +++ rest) = ocons (TStr s) (lexg F rest).
Proof. intros Hr. unfold py_repr. cbv zeta. pose proof (pick_quote_is_quote s) as Hq. remember (pick_quote s) as q eqn:Eq. clear Eq.
  change (String q (esc_go np q 0 s +++ s1 q) +++ rest) with (String q ((esc_go np q 0 s +++ s1 q) +++ rest)).
  rewrite sapp_assoc. change (s1 q +++ rest) with (String q rest).
  destruct (quote_class q Hq) as [Hw [Ha Hd]].
  apply lexg_quoted; try assumption.
  - apply scan_go_esc. exact Hq.
  - destruct rest as [|c r]; [apply andb_false_r|]. cbn [starts_with] in *.
    destruct (Ascii.eqb_spec q c) as [<-|N1]; [congruence|apply andb_false_r].
  - unfold shorter. apply Nat.ltb_lt. cbn [String.length]. rewrite slen_app. cbn [String.length]. lia. Qed.

Lemma lexg_repr_delim (F : ffmt) (np : N -> bool) (s rest : string) : delim_start rest = true ->
  lexg F (py_repr np s +++ rest) = ocons (TStr s) (lexg F rest).
Proof. intros H. apply delim_start_spec in H as [_ [H _]]. apply lexg_repr. exact H. Qed.

(* ------------------------------------------------------------------ operators *)
Lemma smem_In (s : string) (l : list string) : smem s l = true -> In s l.
Proof. unfold smem. intros H. apply existsb_exists in H as [x [Hx E]]. apply String.eqb_eq in E. subst. exact Hx. Qed.

Definition sym_ops : list string :=
  ["<"; ">"; "=="; ">="; "<="; "<>"; "!="; "|"; "^"; "&"; "<<"; ">>"; "+"; "-"; "*"; "/";
   "%+%"; "%?%"; "%"; "//"; "%/%"; "**"; "~"; "="].
Definition word_ops : list string := ["or"; "and"; "not"; "in"; "is"].

Lemma sym_texts_split (op : string) : smem op sym_texts = true -> In op sym_ops \/ In op word_ops.
Proof. intros H. apply smem_In in H. unfold sym_texts in H. cbn [In] in H. unfold sym_ops, word_ops. cbn [In].
  repeat (destruct H as [H|H]; [subst op; tauto|]). destruct H. Qed.

Lemma sym_match_op (op : string) (c : ascii) (rest : string) : In op sym_ops -> (c = " "%char \/ c = "("%char) ->
  sym_match (op +++ String c rest) = Some (op, String c rest).
Proof. intros H Hc. unfold sym_ops in H. cbn [In] in H.
  repeat (destruct H as [H|H]; [subst op; destruct Hc as [-> | ->]; destruct rest as [|x rest]; vm_compute; reflexivity|]).
  destruct H. Qed.

Lemma lexg_sym_op (F : ffmt) (op : string) (c : ascii) (rest : string) : In op sym_ops -> (c = " "%char \/ c = "("%char) ->
  lexg F (op +++ String c rest) = ocons (TSym op) (lexg F (String c rest)).
Proof. intros H Hc. pose proof (sym_match_op op c rest H Hc) as M.
  assert (S : shorter (String c rest) (op +++ String c rest) = true).
  { apply shorter_app. intros E. subst op. unfold sym_ops in H. cbn [In] in H. repeat (destruct H as [H|H]; [discriminate H|]). destruct H. }
  assert (Hh : exists a r, op = String a r /\ is_ws a = false /\ is_alpha_ a = false /\ is_digit a = false /\ is_quote a = false).
  { unfold sym_ops in H. cbn [In] in H.
    repeat (destruct H as [H|H]; [subst op; eexists; eexists; split; [reflexivity|]; vm_compute; repeat split; reflexivity|]). destruct H. }
  destruct Hh as [a [r [E [H1 [H2 [H3 H4]]]]]]. subst op. change (String a r +++ String c rest) with (String a (r +++ String c rest)) in *.
  apply lexg_symb; assumption. Qed.

Lemma lexg_word_op (F : ffmt) (op : string) (c : ascii) (rest : string) : In op word_ops -> (c = " "%char \/ c = "("%char) ->
  lexg F (op +++ String c rest) = ocons (TSym op) (lexg F (String c rest)).
Proof. intros H Hc.
  assert (Hr : starts_with is_idchar (String c rest) = false /\ starts_with is_quote (String c rest) = false).
  { destruct Hc as [-> | ->]; split; reflexivity. }
  destruct Hr as [Hr1 Hr2]. unfold word_ops in H. cbn [In] in H.
  repeat (destruct H as [H|H]; [subst op; apply lexg_keyword; [reflexivity|reflexivity|reflexivity|exact Hr1|exact Hr2]|]).
  destruct H. Qed.

Lemma op_tok_sym (op : string) : smem op sym_texts = true -> op_tok op = TSym op.
Proof. intros H. unfold op_tok. unfold smem in H. rewrite H. reflexivity. Qed.

Lemma lexg_op (F : ffmt) (op : string) (c : ascii) (rest : string) :
  smem op sym_texts = true -> (c = " "%char \/ c = "("%char) ->
  lexg F (op +++ String c rest) = ocons (op_tok op) (lexg F (String c rest)).
Proof. intros H Hc. rewrite (op_tok_sym op H). destruct (sym_texts_split op H) as [Hs|Hw];
  [apply lexg_sym_op|apply lexg_word_op]; assumption. Qed.

(* an identifier is never one of the operator texts *)
Lemma ident_not_sym (op : string) : ident_ok op = true -> smem op sym_texts = false.
Proof. intros H. destruct (smem op sym_texts) eqn:E; [|reflexivity]. apply smem_In in E. unfold sym_texts in E. cbn [In] in E.
  repeat (destruct E as [E|E]; [subst op; vm_compute in H; discriminate H|]). destruct E. Qed.

Lemma op_tok_ident (op : string) : ident_ok op = true -> op_tok op = TName op.
Proof. intros H. apply ident_not_sym in H. unfold op_tok. unfold smem in H. rewrite H. reflexivity. Qed.

(* ------------------------------------------------------------------ punctuation *)
Definition brackets : list ascii := ["("; ")"; "["; "]"; "{"; "}"]%char.

Lemma lexg_bracket (F : ffmt) (c : ascii) (rest : string) : In c brackets ->
  lexg F (String c rest) = ocons (TSym (s1 c)) (lexg F rest).
Proof. intros H. unfold brackets in H. cbn [In] in H.
  repeat (destruct H as [H|H]; [subst c; apply lexg_symb;
    [reflexivity|reflexivity|reflexivity|reflexivity|destruct rest as [|x [|y r]]; vm_compute; reflexivity
    |unfold shorter; apply Nat.ltb_lt; cbn [String.length]; lia]|]).
  destruct H. Qed.

(* "," and ":" followed by a space (the space is skipped) *)
Lemma lexg_comma_space (F : ffmt) (rest : string) : lexg F (String "," (String " " rest)) = ocons (TSym ",") (lexg F rest).
Proof. rewrite <- (lexg_space F rest). apply lexg_symb; try reflexivity.
  - destruct rest as [|x r]; vm_compute; reflexivity.
  - unfold shorter. apply Nat.ltb_lt. cbn [String.length]. lia. Qed.

Lemma lexg_colon_space (F : ffmt) (rest : string) : lexg F (String ":" (String " " rest)) = ocons (TSym ":") (lexg F rest).
Proof. rewrite <- (lexg_space F rest). apply lexg_symb; try reflexivity.
  - destruct rest as [|x r]; vm_compute; reflexivity.
  - unfold shorter. apply Nat.ltb_lt. cbn [String.length]. lia. Qed.

(* "." followed by the first character of an identifier *)
Lemma sym_match_dot (x : ascii) (r : string) : is_alpha_ x = true ->
  sym_match (String "." (String x r)) = Some (".", String x r).
Proof. destruct x as [[] [] [] [] [] [] [] []]; intros H; try (vm_compute in H; discriminate H);
  destruct r as [|y r]; vm_compute; reflexivity. Qed.

Lemma lexg_dot (F : ffmt) (x : ascii) (r : string) : is_alpha_ x = true ->
  lexg F (String "." (String x r)) = ocons (TSym ".") (lexg F (String x r)).
Proof. intros H. apply lexg_symb; try reflexivity.
  - apply sym_match_dot. exact H.
  - unfold shorter. apply Nat.ltb_lt. cbn [String.length]. lia. Qed.

(* "-" followed by a digit or a letter (the sign of a negative constant) *)
Lemma sym_match_minus (x : ascii) (r : string) : is_idchar x = true ->
  sym_match (String "-" (String x r)) = Some ("-", String x r).
Proof. destruct x as [[] [] [] [] [] [] [] []]; intros H; try (vm_compute in H; discriminate H);
  destruct r as [|y r]; vm_compute; reflexivity. Qed.

Lemma lexg_minus (F : ffmt) (x : ascii) (r : string) : is_idchar x = true ->
  lexg F (String "-" (String x r)) = ocons (TSym "-") (lexg F (String x r)).
Proof. intros H. apply lexg_symb; try reflexivity.
  - apply sym_match_minus. exact H.
  - unfold shorter. apply Nat.ltb_lt. cbn [String.length]. lia. Qed.

Print Assumptions lexg_unfold.
Print Assumptions lexg_ident.
Print Assumptions lexg_dec.
Print Assumptions lexg_float.
Print Assumptions lexg_repr.
Print Assumptions lexg_op.
Print Assumptions lexg_bracket.
Print Assumptions lexg_dot.
Print Assumptions lexg_minus.
