(* C21, part 7: last_observed_carried_forward computes locf_spec. *)
From Coq Require Import List Bool Arith ZArith QArith String Lia Permutation Sorted.
Import ListNotations.
From DA Require Import Base.PyRT Base.Val Model.Sem Model.Solutions Proofs.SemBasicP Proofs.SemOrderP
  Proofs.SolutionsP1 Proofs.SolutionsP3 Proofs.SolutionsP4 Proofs.SolutionsP5 Proofs.SolutionsP6.
Local Open Scope string_scope.
Local Open Scope list_scope.

(* the shape of a left join result (Sem.sem_join, unfolded once) *)
Definition join_mk (ca cb out : list string) (ra rb : option (list val)) : list val :=
  map (fun c => let va := match ra with Some r => if mem c ca then get ca r c else VNull | None => VNull end in
                let vb := match rb with Some r => if mem c cb then get cb r c else VNull | None => VNull end in
                if is_null va then vb else va) out.
Lemma sem_join_left nm on_a on_b a b :
  sem_join nm on_a on_b JLeft a b =
  let ca := cols a in let cb := cols b in
  let out := ca ++ filter (fun c => negb (mem c ca)) cb in
  mktable out
    (flat_map (fun ra => flat_map (fun rb => if keys_match nm (key_of ca on_a ra) (key_of cb on_b rb) then [join_mk ca cb out (Some ra) (Some rb)] else []) (rows b)) (rows a)
     ++ flat_map (fun ra => if existsb (fun rb => keys_match nm (key_of ca on_a ra) (key_of cb on_b rb)) (rows b) then [] else [join_mk ca cb out (Some ra) None]) (rows a)
     ++ []).
Proof. reflexivity. Qed.

Lemma pairwiseb_tagged (f : list val -> list val -> bool) rs : (forall x y, f x y = f y x) -> pairwiseb f rs = true ->
  forall n a b, In a (tag_from n rs) -> In b (tag_from n rs) -> fst a <> fst b -> f (snd a) (snd b) = true.
Proof. intros Sym. induction rs as [|x l IH]; intros P n a b Ia Ib N; [destruct Ia|].
  cbn [pairwiseb] in P. apply andb_true_iff in P as [P1 P2]. rewrite forallb_forall in P1. cbn [tag_from] in Ia, Ib.
  destruct Ia as [<-|Ia], Ib as [<-|Ib].
  - congruence.
  - cbn [snd]. apply P1. eapply tag_from_In, Ib.
  - cbn [snd]. rewrite Sym. apply P1. eapply tag_from_In, Ia.
  - eapply IH; eassumption. Qed.
Lemma is_null_VNull v : is_null v = true -> v = VNull.
Proof. destruct v; simpl; congruence. Qed.
Lemma existsb_app {A} (p : A -> bool) a b : existsb p (a ++ b) = existsb p a || existsb p b.
Proof. induction a as [|x a IH]; simpl; [reflexivity|]. rewrite IH, orb_assoc. reflexivity. Qed.
Lemma existsb_none {A} (p : A -> bool) l : (forall x, In x l -> p x = false) -> existsb p l = false.
Proof. induction l as [|x l IH]; simpl; intros H; [reflexivity|]. rewrite (H x (or_introl eq_refl)). apply IH. intros y I. apply H. right. exact I. Qed.

Section Locf.
  Variable pw : nat -> nat.
  Variables (fl : flavor) (ob pb : list string) (vcol use rk tb : string) (t : table).
  Hypothesis V : locf_valid fl ob pb vcol use rk tb t = true.
  Let cs := cols t.
  Let rs := rows t.
  Let U := tag_from 0 rs.

  Definition totf (r r' : list val) : bool := negb (same_part cs pb r r' && tied fl cs ob r r').
  Lemma locf_facts :
    ~ In use cs /\ ~ In rk cs /\ ~ In tb cs /\ use <> rk /\ use <> tb /\ rk <> tb /\ In vcol cs /\ ~ In vcol pb
    /\ (forall c, In c ob -> In c cs) /\ (forall c, In c pb -> In c cs) /\ NoDup pb /\ NoDup cs
    /\ (forall r, In r rs -> List.length r = List.length cs)
    /\ (forall r c, In r rs -> In c pb -> is_null (get cs r c) = false)
    /\ pairwiseb totf rs = true.
  Proof. unfold locf_valid in V. fold cs rs in V.
    apply andb_true_iff in V as [V0 V13]. apply andb_true_iff in V0 as [V0 V12]. apply andb_true_iff in V0 as [V0 V11].
    apply andb_true_iff in V0 as [V0 V10]. apply andb_true_iff in V0 as [V0 V9]. apply andb_true_iff in V0 as [V0 V8].
    apply andb_true_iff in V0 as [V0 V7]. apply andb_true_iff in V0 as [V0 V6]. apply andb_true_iff in V0 as [V0 V5].
    apply andb_true_iff in V0 as [V0 V4]. apply andb_true_iff in V0 as [V0 V3]. apply andb_true_iff in V0 as [V1 V2].
    apply nodupb_NoDup in V4. inversion V4 as [|? ? N1 V4']; subst. inversion V4' as [|? ? N2 _]; subst.
    split; [apply negb_mem_notin; exact V1|]. split; [apply negb_mem_notin; exact V2|]. split; [apply negb_mem_notin; exact V3|].
    split; [intros E; apply N1; left; symmetry; exact E|]. split; [intros E; apply N1; right; left; symmetry; exact E|].
    split; [intros E; apply N2; left; symmetry; exact E|].
    split; [apply mem_In; exact V5|]. split; [apply negb_mem_notin; exact V6|]. split; [apply subset_spec; exact V7|]. split; [apply subset_spec; exact V8|].
    split; [apply nodupb_NoDup; exact V9|]. split; [apply nodupb_NoDup; exact V10|].
    split; [apply widthb_ok in V11; rewrite Forall_forall in V11; exact V11|].
    split; [|exact V13].
    intros r c Ir Ic. rewrite forallb_forall in V12. specialize (V12 r Ir). rewrite forallb_forall in V12. apply negb_true_iff, V12, Ic. Qed.

  Definition nn (y : nat * list val) : bool := negb (is_null (get cs (snd y) vcol)).
  Definition uv (r : list val) : val := if is_null (get cs r vcol) then vnat 0 else vnat 1.
  Definition where_expr : expr := EOp "where" [EOp "is_null" [ECol vcol]; EConst (vnat 0); EConst (vnat 1)].

  Lemma LU_row ir : In ir U -> In (snd ir) rs /\ List.length (snd ir) = List.length cs.
  Proof. intros I. assert (In (snd ir) rs) as R by (eapply tag_from_In, I). split; [exact R|]. apply locf_facts, R. Qed.
  Lemma LU_NoDup : NoDup U.
  Proof. apply (NoDup_of_map fst). apply tag_from_NoDup_fst. Qed.
  Lemma rs_U : rs = map snd U.
  Proof. unfold U. symmetry. apply tag_from_snd. Qed.

  Lemma eval_where r : eval_x pw fl cs r where_expr = uv r.
  Proof. unfold eval_x. change (norm_expr where_expr) with where_expr. unfold where_expr. cbn [eval_n].
    change (xscalar pw fl "is_null" [get cs r vcol]) with (VBool (is_null (get cs r vcol))).
    change (xscalar pw fl "where" [VBool (is_null (get cs r vcol)); vnat 0; vnat 1]) with (if is_null (get cs r vcol) then vnat 0 else vnat 1).
    reflexivity. Qed.

  Lemma step_a : sem_extend_x pw fl [(use, where_expr)] t = mktable (cs ++ [use]) (map (fun ir => snd ir ++ [uv (snd ir)]) U).
  Proof. destruct locf_facts as (Nu & _). unfold sem_extend_x. cbn [map fst]. unfold ext_cols. cbn [fold_left]. fold cs rs.
    rewrite (add_end_new cs use Nu). f_equal. rewrite rs_U, map_map. apply map_ext_in. intros ir I.
    unfold extend_row_x. cbn [fold_left fst snd]. rewrite (set_cell_new cs _ use _ Nu), eval_where. reflexivity. Qed.

  Section WithNb.
    Variable nb : nat -> nat.
    Hypothesis nb_inj : forall i j, (i < List.length rs)%nat -> (j < List.length rs)%nat -> nb i = nb j -> i = j.

    Lemma LU_inj a b : In a U -> In b U -> nb (fst a) = nb (fst b) -> a = b.
    Proof. intros Ia Ib E. apply (tag_same_fst rs); [exact Ia|exact Ib|].
      destruct a as [i r], b as [j s]. apply tag0_In in Ia, Ib. apply nb_inj; [| |exact E]; apply nth_error_Some; simpl; congruence. Qed.

    Definition Fb (ir : nat * list val) : list val := snd ir ++ [uv (snd ir); vnat (nb (fst ir))].
    Definition csb : list string := cs ++ [use; tb].
    Definition tbl : table := mktable csb (map Fb U).
    Definition lleob (a b : nat * list val) : bool := row_le fl cs (okeys ob) (snd a) (snd b).
    Definition lsp (a b : nat * list val) : bool := same_part cs pb (snd a) (snd b).
    Definition lle12 (y x : nat * list val) : bool := lleob y x && (negb (lleob x y) || Nat.leb (nb (fst y)) (nb (fst x))).
    Definition bef (a b : nat * list val) : bool := before fl cs ob (snd a) (snd b).
    Definition CC (x : nat * list val) : nat := List.length (filter (fun y => lsp x y && lle12 y x && nn y) U).

    Lemma Fb_len ir : In ir U -> List.length (Fb ir) = List.length csb.
    Proof. intros I. unfold Fb, csb. rewrite !app_length. destruct (LU_row ir I) as [_ ->]. reflexivity. Qed.
    Lemma Fb_get_old ir c : In ir U -> In c cs -> get csb (Fb ir) c = get cs (snd ir) c.
    Proof. intros I Ic. apply get_app_l; [exact Ic|apply LU_row, I]. Qed.
    Lemma Fb_get_use ir : In ir U -> get csb (Fb ir) use = uv (snd ir).
    Proof. intros I. unfold csb, Fb. rewrite get_app_r; [apply get_head|apply locf_facts|apply LU_row, I]. Qed.
    Lemma Fb_get_tb ir : In ir U -> get csb (Fb ir) tb = vnat (nb (fst ir)).
    Proof. intros I. destruct locf_facts as (_ & _ & Nt & _ & Dut & _). unfold csb, Fb.
      rewrite get_app_r; [|exact Nt|apply LU_row, I]. rewrite get_tail by (intros E; apply Dut; symmetry; exact E). apply get_head. Qed.
    Lemma Fb_key ir ks : In ir U -> (forall c, In c ks -> In c cs) -> key_of csb ks (Fb ir) = key_of cs ks (snd ir).
    Proof. intros I S. unfold key_of. apply map_ext_in. intros c Ic. apply Fb_get_old; auto. Qed.
    Lemma Fb_le a b : In a U -> In b U -> row_le fl csb (okeys (ob ++ [tb])) (Fb a) (Fb b) = lle12 a b.
    Proof. intros Ia Ib. destruct locf_facts as (_ & _ & _ & _ & _ & _ & _ & _ & So & _).
      assert (forall x y, In x U -> In y U -> row_le fl csb (okeys ob) (Fb x) (Fb y) = lleob x y) as E.
      { intros x y Ix Iy. apply row_le_ext. intros c Ic. unfold okeys in Ic. rewrite map_map in Ic. cbn [fst] in Ic. rewrite map_id in Ic.
        split; apply Fb_get_old; auto. }
      rewrite okeys_app, row_le_app, !E by assumption. unfold lle12. f_equal. f_equal.
      cbn [okeys map row_le]. rewrite !Fb_get_tb by assumption. apply vnat_key_le. Qed.

    (* ---- step c: the number of observed (non-null) rows at or before each row *)
    Definition wc : window := mkwin pb (ob ++ [tb]) [].
    Definition ec : expr := EOp "cumsum" [ECol use].
    Definition rk3 (ir : nat * list val) : val := lookup_pos (wpiece fl wc tbl ec (key_of csb pb (Fb ir))) (fst ir).
    Definition F3 (ir : nat * list val) : list val := Fb ir ++ [rk3 ir].
    Definition cs3 : list string := csb ++ [rk].
    Definition t3 : table := mktable cs3 (map F3 U).

    Lemma rk_notin_csb : ~ In rk csb.
    Proof. destruct locf_facts as (Nu & Nk & Nt & Duk & Dut & Dkt & _). unfold csb. intros I.
      apply in_app_or in I as [I|[I|[I|[]]]]; [contradiction|congruence|congruence]. Qed.
    Lemma step_c : sem_wextend fl [(rk, ec)] wc tbl = t3.
    Proof. rewrite wextend1. unfold t3, cs3. cbn [cols rows tbl]. rewrite (add_end_new csb rk rk_notin_csb). f_equal.
      unfold U. rewrite tag_from_map_tag, map_map. apply map_ext_in. intros ir I. cbn [fst snd w_part wc].
      rewrite (set_cell_new csb _ rk _ rk_notin_csb). reflexivity. Qed.

    Lemma wpart_tbl k :
      wpart csb wc (map Fb U) k = map (fun ir => (fst ir, Fb ir)) (filter (fun y => keys_eqv k (key_of cs pb (snd y))) U).
    Proof. unfold wpart, U. rewrite tag_from_map_tag, filter_map_comm. f_equal. apply filter_ext_in. intros y Iy. cbn [snd w_part wc].
      rewrite Fb_key; [reflexivity|exact Iy|apply locf_facts]. Qed.

    Lemma rk3_val ir : In ir U -> exists q, rk3 ir = qn q /\ q == inject_Z (Z.of_nat (CC ir)).
    Proof. intros I. destruct locf_facts as (Nu & Nk & Nt & Duk & Dut & Dkt & Iv & Nvp & So & Sp & NDp & ND & W & NN & TOT).
      assert (forall a, In a (wpart csb wc (map Fb U) (key_of csb pb (Fb ir))) -> exists a0, a = (fst a0, Fb a0) /\ In a0 U) as Form.
      { intros a Ia. rewrite wpart_tbl in Ia. apply in_map_iff in Ia as [a0 [<- Ia]]. apply filter_In in Ia as [Ia _]. exists a0. split; [reflexivity|exact Ia]. }
      destruct (cumsum_value fl wc tbl (ECol use) (fun y => if is_null (get csb (snd y) vcol) then 0 else 1) (fst ir, Fb ir)) as [q [Hq Eq]].
      - cbn [rows tbl]. unfold U. rewrite tag_from_map_tag. apply in_map_iff. exists ir. split; [reflexivity|exact I].
      - cbn [cols rows tbl snd w_part wc]. intros a b Ia Ib Lab Lba.
        destruct (Form a Ia) as [a0 [-> Ia0]]. destruct (Form b Ib) as [b0 [-> Ib0]].
        unfold wle in Lab, Lba. cbn [w_order w_rev wc snd mem] in Lab, Lba. change (map (fun c => (c, false)) (ob ++ [tb])) with (okeys (ob ++ [tb])) in Lab, Lba.
        rewrite Fb_le in Lab, Lba by assumption. unfold lle12 in Lab, Lba.
        apply andb_true_iff in Lab as [A1 A2]. apply andb_true_iff in Lba as [B1 B2]. rewrite B1 in A2. rewrite A1 in B2. cbn [negb orb] in A2, B2.
        apply Nat.leb_le in A2, B2. assert (a0 = b0) as -> by (apply LU_inj; auto; lia). reflexivity.
      - cbn [cols rows tbl snd w_part wc]. intros y Iy. destruct (Form y Iy) as [y0 [-> Iy0]]. cbn [snd eval_expr].
        rewrite Fb_get_use, Fb_get_old by assumption. unfold uv. destruct (is_null (get cs (snd y0) vcol)); rewrite vnat_eq; reflexivity.
      - exists q. split; [exact Hq|]. rewrite Eq. cbn [cols rows tbl snd w_part wc]. rewrite wpart_tbl, filter_map_comm, map_map.
        rewrite (qsum_indicator nn).
        + rewrite !filter_filter. unfold CC.
          assert (forall (p p' : nat * list val -> bool) l, (forall x, In x l -> p x = p' x) -> List.length (filter p l) = List.length (filter p' l)) as FL
            by (intros p p' l H; rewrite (filter_ext_in p p' l H); reflexivity).
          rewrite (FL _ (fun y => lsp ir y && lle12 y ir && nn y) U); [reflexivity|].
          intros y Iy.
          assert (keys_eqv (key_of csb pb (Fb ir)) (key_of cs pb (snd y)) = lsp ir y) as K1
            by (unfold lsp, same_part; rewrite Fb_key; [reflexivity|exact I|exact Sp]).
          assert (wle fl csb wc (fst y, Fb y) (fst ir, Fb ir) = lle12 y ir) as K2
            by (unfold wle; cbn [w_order w_rev wc snd mem]; change (map (fun c => (c, false)) (ob ++ [tb])) with (okeys (ob ++ [tb])); apply Fb_le; assumption).
          cbn beta. rewrite K1, K2, ?andb_assoc. reflexivity.
        + intros y Iy. apply filter_In in Iy as [Iy _]. apply filter_In in Iy as [Iy _]. cbn [snd]. rewrite Fb_get_old by assumption.
          unfold nn. destruct (is_null (get cs (snd y) vcol)); reflexivity.
    Qed.

    (* ---- the order inside a partition is strict and total *)
    Lemma lsp_refl a : lsp a a = true.
    Proof. apply keys_eqv_refl. Qed.
    Lemma lsp_sym a b : lsp a b = lsp b a.
    Proof. apply keys_eqv_sym. Qed.
    Lemma lsp_cong x y z : lsp x y = true -> lsp y z = lsp x z.
    Proof. unfold lsp, same_part. intros E. symmetry. apply keys_eqv_cong_l, E. Qed.
    Lemma totf_sym x y : totf x y = totf y x.
    Proof. unfold totf, same_part, tied. rewrite keys_eqv_sym, (andb_comm (row_le fl cs (okeys ob) x y)). reflexivity. Qed.
    Lemma TOTU a b : In a U -> In b U -> a <> b -> lsp a b = true -> tied fl cs ob (snd a) (snd b) = false.
    Proof. intros Ia Ib N S. destruct locf_facts as (_ & _ & _ & _ & _ & _ & _ & _ & _ & _ & _ & _ & _ & _ & TOT).
      assert (fst a <> fst b) as Nf by (intros E; apply N; eapply tag_same_fst; eassumption).
      pose proof (pairwiseb_tagged totf rs totf_sym TOT 0%nat a b Ia Ib Nf) as T. unfold totf in T. unfold lsp in S. rewrite S in T.
      apply negb_true_iff in T. exact T. Qed.
    Lemma U_dec (a b : nat * list val) : In a U -> In b U -> a = b \/ a <> b.
    Proof. intros Ia Ib. destruct (Nat.eq_dec (fst a) (fst b)) as [E|N]; [left; eapply tag_same_fst; eassumption|right; intros ->; apply N; reflexivity]. Qed.
    Lemma lle12_refl a : lle12 a a = true.
    Proof. unfold lle12, lleob. rewrite row_le_refl, Nat.leb_refl. reflexivity. Qed.
    Lemma lle12_bef a b : In a U -> In b U -> a <> b -> lsp a b = true -> lle12 a b = bef a b.
    Proof. intros Ia Ib N S. pose proof (TOTU a b Ia Ib N S) as T. unfold tied in T. unfold lle12, bef, before, lleob.
      destruct (row_le fl cs (okeys ob) (snd a) (snd b)); [|reflexivity]. cbn [andb] in *. rewrite T. reflexivity. Qed.
    Lemma tri a b : In a U -> In b U -> lsp a b = true -> a = b \/ bef a b = true \/ bef b a = true.
    Proof. intros Ia Ib S. destruct (U_dec a b Ia Ib) as [E|N]; [left; exact E|right].
      pose proof (TOTU a b Ia Ib N S) as T. unfold tied in T. unfold bef, before.
      destruct (row_le_total fl cs (okeys ob) (snd a) (snd b)) as [H|H]; rewrite H in *; cbn [andb] in *.
      - left. rewrite T. reflexivity.
      - right. apply andb_false_iff in T as [T|T]; [rewrite T; reflexivity|congruence]. Qed.
    Lemma bef_le a b : bef a b = true -> lleob a b = true /\ lleob b a = false.
    Proof. unfold bef, before, lleob. intros H. apply andb_true_iff in H as [H1 H2]. apply negb_true_iff in H2. split; assumption. Qed.
    Lemma lle12_trans_bef y x z : lle12 y x = true -> bef x z = true -> lle12 y z = true.
    Proof. unfold lle12. intros H B. apply bef_le in B as [B1 B2]. apply andb_true_iff in H as [H1 _]. unfold lleob in *.
      rewrite (row_le_trans _ _ _ _ _ _ H1 B1). cbn [andb].
      destruct (row_le fl cs (okeys ob) (snd z) (snd y)) eqn:E; [|reflexivity].
      rewrite (row_le_trans _ _ _ _ _ _ E H1) in B2. discriminate. Qed.

    Lemma CC_le x z : In x U -> In z U -> lsp x z = true -> bef x z = true -> (CC x <= CC z)%nat.
    Proof. intros Ix Iz S B. unfold CC. apply filter_length_le. intros y Iy H.
      apply andb_true_iff in H as [H H3]. apply andb_true_iff in H as [H1 H2].
      rewrite lsp_sym in S. rewrite <- (lsp_cong z x y S), H1, (lle12_trans_bef y x z H2 B), H3. reflexivity. Qed.
    Lemma CC_lt x z : In x U -> In z U -> lsp x z = true -> bef x z = true -> nn z = true -> (CC x < CC z)%nat.
    Proof. intros Ix Iz S B Nz. unfold CC. apply (filter_length_lt _ _ U z); [|exact Iz| |].
      - intros y Iy H. apply andb_true_iff in H as [H H3]. apply andb_true_iff in H as [H1 H2].
        pose proof S as S'. rewrite lsp_sym in S'. rewrite <- (lsp_cong z x y S'), H1, (lle12_trans_bef y x z H2 B), H3. reflexivity.
      - apply bef_le in B as [_ B2]. unfold lle12. rewrite B2. cbn [andb]. rewrite andb_false_r. reflexivity.
      - rewrite lsp_refl, lle12_refl, Nz. reflexivity. Qed.

    (* ---- which observed row a row is joined with *)
    Definition mt (a b : nat * list val) : bool := lsp a b && Nat.eqb (CC a) (CC b).
    Definition NNU : list (nat * list val) := filter nn U.
    Definition cands (a : nat * list val) : list (nat * list val) := filter (fun y => lsp a y && bef y a && nn y) U.
    Definition ms (a : nat * list val) : list (nat * list val) := filter (mt a) NNU.

    Lemma NNU_In b : In b NNU <-> In b U /\ nn b = true.
    Proof. apply filter_In. Qed.
    Lemma M1 a b : In a U -> In b U -> nn a = true -> nn b = true -> mt a b = true -> b = a.
    Proof. intros Ia Ib Na Nb M. apply andb_true_iff in M as [S E]. apply Nat.eqb_eq in E.
      destruct (tri a b Ia Ib S) as [->|[B|B]]; [reflexivity| |].
      - pose proof (CC_lt a b Ia Ib S B Nb). lia.
      - rewrite lsp_sym in S. pose proof (CC_lt b a Ib Ia S B Na). lia. Qed.
    Lemma M2 a b : In a U -> In b U -> nn a = false -> nn b = true -> mt a b = true ->
      bef b a = true /\ (forall c, In c U -> nn c = true -> lsp a c = true -> bef c a = true -> lleob c b = true).
    Proof. intros Ia Ib Na Nb M. apply andb_true_iff in M as [S E]. apply Nat.eqb_eq in E.
      assert (bef b a = true) as B.
      { destruct (tri a b Ia Ib S) as [->|[B|B]]; [congruence| |exact B]. pose proof (CC_lt a b Ia Ib S B Nb). lia. }
      split; [exact B|]. intros c Ic Nc Sc Bc.
      assert (lsp b c = true) as Sbc by (rewrite (lsp_cong a b c S); exact Sc).
      destruct (tri b c Ib Ic Sbc) as [->|[B'|B']].
      - apply row_le_refl.
      - pose proof (CC_lt b c Ib Ic Sbc B' Nc). rewrite lsp_sym in Sc. pose proof (CC_le c a Ic Ia Sc Bc). lia.
      - apply bef_le in B' as [H _]. exact H. Qed.
    Lemma M3 a b : In a U -> In b U -> nn a = false -> nn b = true -> lsp a b = true -> bef b a = true ->
      (forall c, In c U -> nn c = true -> lsp a c = true -> bef c a = true -> lleob c b = true) -> mt a b = true.
    Proof. intros Ia Ib Na Nb S B Mx. unfold mt. rewrite S. cbn [andb]. apply Nat.eqb_eq. apply Nat.le_antisymm.
      - unfold CC. apply filter_length_le. intros y Iy H. apply andb_true_iff in H as [H H3]. apply andb_true_iff in H as [H1 H2].
        assert (y <> a) as Nya by (intros ->; congruence).
        assert (lsp y a = true) as Sya by (rewrite lsp_sym; exact H1).
        rewrite (lle12_bef y a Iy Ia Nya Sya) in H2.
        pose proof (Mx y Iy H3 H1 H2) as Lyb.
        rewrite (lsp_cong a b y S) , H1, H3. cbn [andb]. rewrite andb_true_r.
        destruct (U_dec y b Iy Ib) as [->|Nyb]; [apply lle12_refl|].
        assert (lsp y b = true) as Syb by (rewrite (lsp_cong a y b H1); exact S).
        rewrite (lle12_bef y b Iy Ib Nyb Syb). pose proof (TOTU y b Iy Ib Nyb Syb) as T. unfold tied in T. unfold bef, before. unfold lleob in Lyb. rewrite Lyb in *. cbn [andb] in *. rewrite T. reflexivity.
      - rewrite lsp_sym in S. apply CC_le; assumption. Qed.

    Lemma NNU_NoDup : NoDup NNU.
    Proof. apply NoDup_filter, LU_NoDup. Qed.
    Lemma ms_nn a : In a U -> nn a = true -> ms a = [a].
    Proof. intros Ia Na. apply filter_singleton; [apply NNU_NoDup|apply NNU_In; split; assumption| |].
      - unfold mt. rewrite lsp_refl, Nat.eqb_refl. reflexivity.
      - intros y Iy M. apply NNU_In in Iy as [Iy Ny]. eapply M1; eassumption. Qed.
    Lemma ms_null_none a : In a U -> nn a = false -> cands a = [] -> ms a = [].
    Proof. intros Ia Na Cn. apply filter_none. intros b Ib. apply NNU_In in Ib as [Ib Nb]. destruct (mt a b) eqn:M; [|reflexivity]. exfalso.
      destruct (M2 a b Ia Ib Na Nb M) as [B _]. apply andb_true_iff in M as [S _].
      assert (In b (cands a)) as I by (apply filter_In; split; [exact Ib|rewrite S, B, Nb; reflexivity]). rewrite Cn in I. destruct I. Qed.
    Lemma ms_null_some a b : In a U -> nn a = false -> latest lleob (cands a) = Some b -> ms a = [b].
    Proof. intros Ia Na L.
      assert (cands a <> []) as NE by (intros E; rewrite E in L; discriminate).
      destruct (latest_some lleob (fun x y => row_le_total fl cs (okeys ob) (snd x) (snd y))
                  (fun x y z => row_le_trans fl cs (okeys ob) (snd x) (snd y) (snd z)) (cands a) NE) as [m [Lm [Im Mx]]].
      rewrite L in Lm. inversion Lm; subst m. clear Lm.
      apply filter_In in Im as [Ib Pb]. apply andb_true_iff in Pb as [Pb Nb]. apply andb_true_iff in Pb as [S B].
      assert (forall c, In c U -> nn c = true -> lsp a c = true -> bef c a = true -> lleob c b = true) as Mx'.
      { intros c Ic Nc Sc Bc. apply Mx. apply filter_In. split; [exact Ic|rewrite Sc, Bc, Nc; reflexivity]. }
      apply filter_singleton; [apply NNU_NoDup|apply NNU_In; split; assumption|apply M3; assumption|].
      intros b' Ib' M'. apply NNU_In in Ib' as [Ib' Nb'].
      destruct (M2 a b' Ia Ib' Na Nb' M') as [B' Mx2]. pose proof M' as M''. apply andb_true_iff in M'' as [S' _].
      pose proof (Mx' b' Ib' Nb' S' B') as L1. pose proof (Mx2 b Ib Nb S B) as L2.
      destruct (U_dec b' b Ib' Ib) as [E|N]; [exact E|exfalso].
      assert (lsp b' b = true) as Sb by (rewrite (lsp_cong a b' b S'); exact S).
      pose proof (TOTU b' b Ib' Ib N Sb) as T. unfold tied in T. unfold lleob in L1, L2. rewrite L1, L2 in T. discriminate. Qed.

    (* ---- the right-hand side of the join: the observed rows with their count *)
    Definition cb : list string := pb ++ [rk; vcol].
    Definition RB (y : nat * list val) : list val := key_of cs pb (snd y) ++ [rk3 y; get cs (snd y) vcol].
    Definition eq_expr : expr := EOp "==" [ECol use; EConst (vnat 1)].

    Lemma F3_len ir : In ir U -> List.length (F3 ir) = List.length cs3.
    Proof. intros I. unfold F3, cs3. rewrite !app_length, (Fb_len ir I). reflexivity. Qed.
    Lemma In_cs_csb c : In c cs -> In c csb.
    Proof. intros I. unfold csb. apply in_or_app. left. exact I. Qed.
    Lemma F3_get_old ir c : In ir U -> In c cs -> get cs3 (F3 ir) c = get cs (snd ir) c.
    Proof. intros I Ic. unfold cs3, F3. rewrite get_app_l; [apply Fb_get_old; assumption|apply In_cs_csb, Ic|apply Fb_len, I]. Qed.
    Lemma F3_get_use ir : In ir U -> get cs3 (F3 ir) use = uv (snd ir).
    Proof. intros I. unfold cs3, F3. rewrite get_app_l; [apply Fb_get_use, I| |apply Fb_len, I]. unfold csb. apply in_or_app. right. left. reflexivity. Qed.
    Lemma F3_get_rk ir : In ir U -> get cs3 (F3 ir) rk = rk3 ir.
    Proof. intros I. unfold cs3, F3. rewrite get_app_r; [apply get_head|apply rk_notin_csb|apply Fb_len, I]. Qed.
    Lemma F3_key ir ks : In ir U -> (forall c, In c ks -> In c cs) -> key_of cs3 ks (F3 ir) = key_of cs ks (snd ir).
    Proof. intros I S. unfold key_of. apply map_ext_in. intros c Ic. apply F3_get_old; auto. Qed.

    Lemma right_table :
      sem_select_cols cb (sem_select_rows_x pw fl eq_expr t3) = mktable cb (map RB NNU).
    Proof. destruct locf_facts as (Nu & Nk & Nt & Duk & Dut & Dkt & Iv & Nvp & So & Sp & NDp & ND & W & NN & TOT).
      unfold sem_select_cols, sem_select_rows_x. cbn [cols rows t3]. f_equal. rewrite filter_map_comm, map_map. unfold NNU.
      rewrite (filter_ext_in _ nn U).
      - apply map_ext_in. intros y Iy. apply filter_In in Iy as [Iy _]. unfold cb, RB. rewrite map_app. cbn [map]. f_equal.
        + apply F3_key; assumption.
        + rewrite F3_get_rk, F3_get_old by assumption. reflexivity.
      - intros y Iy. unfold eval_x. change (norm_expr eq_expr) with eq_expr. unfold eq_expr. cbn [eval_n].
        change (xscalar pw fl "==" [get cs3 (F3 y) use; vnat 1]) with (compare_vals fl CEq (get cs3 (F3 y) use) (vnat 1)).
        rewrite F3_get_use by assumption. unfold uv, nn. apply vnat01_eq. Qed.

    Lemma key_left a : In a U -> key_of cs3 (pb ++ [rk]) (F3 a) = key_of cs pb (snd a) ++ [rk3 a].
    Proof. intros I. rewrite key_of_app. f_equal; [apply F3_key; [exact I|apply locf_facts]|]. cbn [key_of map]. rewrite F3_get_rk by exact I. reflexivity. Qed.
    Lemma RB_len (b : nat * list val) : List.length (key_of cs pb (snd b)) = List.length pb.
    Proof. apply key_of_length. Qed.
    Lemma rk_notin_pb : ~ In rk pb.
    Proof. destruct locf_facts as (_ & Nk & _ & _ & _ & _ & _ & _ & _ & Sp & _). intros I. apply Nk, Sp, I. Qed.
    Lemma key_right b : key_of cb (pb ++ [rk]) (RB b) = key_of cs pb (snd b) ++ [rk3 b].
    Proof. destruct locf_facts as (_ & _ & _ & _ & _ & _ & _ & _ & _ & _ & NDp & _).
      rewrite key_of_app. unfold cb, RB. f_equal.
      - unfold key_of at 1. apply map_get_app_l; [exact NDp|apply RB_len].
      - cbn [key_of map]. rewrite get_app_r; [rewrite get_head; reflexivity|apply rk_notin_pb|apply RB_len]. Qed.
    Lemma RB_get_vcol b : get cb (RB b) vcol = get cs (snd b) vcol.
    Proof. destruct locf_facts as (Nu & Nk & Nt & Duk & Dut & Dkt & Iv & Nvp & _).
      unfold cb, RB. rewrite get_app_r; [|exact Nvp|apply RB_len]. rewrite get_tail by (intros E; apply Nk; rewrite <- E; exact Iv). apply get_head. Qed.

    Lemma keys_mt nm a b : In a U -> In b NNU ->
      keys_match nm (key_of cs3 (pb ++ [rk]) (F3 a)) (key_of cb (pb ++ [rk]) (RB b)) = mt a b.
    Proof. intros Ia Ib. apply NNU_In in Ib as [Ib Nb].
      destruct locf_facts as (Nu & Nk & Nt & Duk & Dut & Dkt & Iv & Nvp & So & Sp & NDp & ND & W & NN & TOT).
      rewrite (key_left a Ia), key_right. unfold keys_match.
      destruct (rk3_val a Ia) as [qa [Ea Qa]]. destruct (rk3_val b Ib) as [qb [Eb Qb]].
      assert (existsb is_null (key_of cs pb (snd a) ++ [rk3 a]) = false) as EN.
      { rewrite existsb_app, Ea. cbn [existsb is_null qn orb]. rewrite orb_false_r. apply existsb_none. intros v Iv'.
        unfold key_of in Iv'. apply in_map_iff in Iv' as [c [<- Ic]]. apply NN; [apply LU_row, Ia|exact Ic]. }
      rewrite EN, orb_true_r. cbn [negb andb]. rewrite keys_eqv_app by (rewrite !RB_len; reflexivity).
      unfold mt, lsp, same_part. f_equal. cbn [keys_eqv]. rewrite andb_true_r, Ea, Eb. apply qn_eqv_nat; assumption. Qed.

    (* ---- one output row per input row *)
    Definition JR (a : nat * list val) (ob' : option (nat * list val)) : list val :=
      join_mk cs3 cb cs3 (Some (F3 a)) (option_map RB ob').
    Definition DR (row : list val) : list val := map (get cs3 row) cs.
    Definition lv (a : nat * list val) : val := locf_value fl cs pb ob vcol rs (snd a).

    Lemma In_cs_cs3 c : In c cs -> In c cs3.
    Proof. intros I. unfold cs3. apply in_or_app. left. apply In_cs_csb, I. Qed.
    Lemma DR_JR a ob' : In a U ->
      DR (JR a ob') = map (fun c => let va := get cs (snd a) c in
                                     let vb := match ob' with Some b => if mem c cb then get cb (RB b) c else VNull | None => VNull end in
                                     if is_null va then vb else va) cs.
    Proof. intros Ia. unfold DR, JR, join_mk. apply map_ext_in. intros c Ic.
      rewrite (get_map _ cs3 c (In_cs_cs3 c Ic)). cbn zeta.
      assert (mem c cs3 = true) as M by (apply mem_In, In_cs_cs3, Ic). rewrite M, (F3_get_old a c Ia Ic).
      destruct ob'; reflexivity. Qed.

    Lemma lv_cases a : In a U ->
      lv a = if nn a then get cs (snd a) vcol else match latest lleob (cands a) with Some b => get cs (snd b) vcol | None => VNull end.
    Proof. intros Ia. unfold lv, locf_value, nn. destruct (negb (is_null (get cs (snd a) vcol))); [reflexivity|].
      rewrite rs_U, filter_map_comm, latest_map. unfold cands, lsp, bef, nn, lleob.
      destruct (latest _ _); reflexivity. Qed.

    Lemma out_row a : In a U ->
      map DR (map (fun b => JR a (Some b)) (ms a) ++ (if existsb (mt a) NNU then [] else [JR a None]))
      = [set_cell cs (snd a) vcol (lv a)].
    Proof. intros Ia. destruct locf_facts as (Nu & Nk & Nt & Duk & Dut & Dkt & Iv & Nvp & So & Sp & NDp & ND & W & NN & TOT).
      destruct (LU_row a Ia) as [Ir La].
      rewrite (set_cell_as_map cs (snd a) vcol (lv a) ND La Iv), (lv_cases a Ia), existsb_filter. fold (ms a).
      assert (forall b, In b U -> forall c, In c cs ->
                (let va := get cs (snd a) c in let vb := if mem c cb then get cb (RB b) c else VNull in if is_null va then vb else va)
                = if String.eqb c vcol then (if is_null (get cs (snd a) vcol) then get cs (snd b) vcol else get cs (snd a) vcol) else get cs (snd a) c) as SomeRow.
      { intros b Ib c Ic. cbn zeta. destruct (String.eqb_spec c vcol) as [->|Ncv].
        - assert (mem vcol cb = true) as M by (apply mem_In; unfold cb; apply in_or_app; right; right; left; reflexivity).
          rewrite M, RB_get_vcol. reflexivity.
        - destruct (is_null (get cs (snd a) c)) eqn:Nl; [|reflexivity].
          assert (mem c cb = false) as M.
          { apply mem_false. unfold cb. intros I. apply in_app_or in I as [I|[I|[I|[]]]]; [|subst c; contradiction|congruence].
            rewrite (NN (snd a) c Ir I) in Nl. discriminate. }
          rewrite M. symmetry. apply is_null_VNull, Nl. }
      destruct (nn a) eqn:Na.
      - rewrite (ms_nn a Ia Na). cbn [map app negb]. rewrite DR_JR by exact Ia. f_equal. apply map_ext_in. intros c Ic.
        rewrite (SomeRow a Ia c Ic). unfold nn in Na. apply negb_true_iff in Na. rewrite Na. reflexivity.
      - unfold nn in Na. apply negb_false_iff in Na. destruct (latest lleob (cands a)) as [b|] eqn:L.
        + assert (nn a = false) as Na' by (unfold nn; rewrite Na; reflexivity).
          rewrite (ms_null_some a b Ia Na' L). cbn [map app negb]. rewrite DR_JR by exact Ia. f_equal. apply map_ext_in. intros c Ic.
          assert (In b U) as Ib.
          { assert (In b (ms a)) as I by (rewrite (ms_null_some a b Ia Na' L); left; reflexivity). apply filter_In in I as [I _]. apply NNU_In in I as [I _]. exact I. }
          rewrite (SomeRow b Ib c Ic), Na. reflexivity.
        + assert (nn a = false) as Na' by (unfold nn; rewrite Na; reflexivity).
          assert (cands a = []) as Cn.
          { destruct (cands a) as [|x l] eqn:E; [reflexivity|]. exfalso.
            destruct (latest_some lleob (fun x y => row_le_total fl cs (okeys ob) (snd x) (snd y))
                        (fun x y z => row_le_trans fl cs (okeys ob) (snd x) (snd y) (snd z)) (x :: l) ltac:(discriminate)) as [m [Lm _]]. congruence. }
          rewrite (ms_null_none a Ia Na' Cn). cbn [map app negb]. rewrite DR_JR by exact Ia. f_equal. apply map_ext_in. intros c Ic. cbn zeta.
          destruct (String.eqb_spec c vcol) as [->|Ncv].
          * rewrite Na. reflexivity.
          * destruct (is_null (get cs (snd a) c)) eqn:Nl; [|reflexivity]. symmetry. apply is_null_VNull, Nl.
    Qed.

    Lemma drop_cols_cs3 : filter (fun c => negb (mem c [use; rk; tb])) cs3 = cs.
    Proof. destruct locf_facts as (Nu & Nk & Nt & _). unfold cs3, csb. rewrite !filter_app. cbn [filter].
      assert (mem use [use; rk; tb] = true) as M1 by (apply mem_In; left; reflexivity).
      assert (mem tb [use; rk; tb] = true) as M2 by (apply mem_In; right; right; left; reflexivity).
      assert (mem rk [use; rk; tb] = true) as M3 by (apply mem_In; right; left; reflexivity).
      rewrite M1, M2, M3. cbn [negb app]. rewrite !app_nil_r. apply filter_all. intros c Ic.
      apply negb_true_iff, mem_false. intros [E|[E|[E|[]]]]; subst c; contradiction. Qed.

    Lemma locf_join nm :
      tbl_equiv (sem_drop_cols [use; rk; tb] (sem_join nm (pb ++ [rk]) (pb ++ [rk]) JLeft t3 (mktable cb (map RB NNU))))
                (locf_spec fl ob pb vcol t).
    Proof. destruct locf_facts as (Nu & Nk & Nt & Duk & Dut & Dkt & Iv & Nvp & So & Sp & NDp & ND & W & NN & TOT).
      rewrite sem_join_left. cbn [cols rows t3].
      assert (filter (fun c => negb (mem c cs3)) cb = []) as FO.
      { apply filter_none. intros c Ic. apply negb_false_iff, mem_In. unfold cb in Ic. apply in_app_or in Ic as [Ic|[Ic|[Ic|[]]]].
        - apply In_cs_cs3, Sp, Ic.
        - subst c. unfold cs3. apply in_or_app. right. left. reflexivity.
        - subst c. apply In_cs_cs3, Iv. }
      rewrite FO, !app_nil_r. unfold sem_drop_cols, sem_select_cols. cbn [cols rows]. rewrite drop_cols_cs3. split; [reflexivity|]. cbn [rows locf_spec].
      fold DR.
      (* rewrite the two flat_maps in terms of ms / mt *)
      rewrite !flat_map_map.
      rewrite (flat_map_ext_in _ (fun a => map (fun b => JR a (Some b)) (ms a)) U).
      2:{ intros a Ia. rewrite flat_map_map. rewrite (flat_map_ext_in _ (fun b => if mt a b then [JR a (Some b)] else []) NNU).
          - rewrite flat_map_if. reflexivity.
          - intros b Ib. rewrite (keys_mt nm a b Ia Ib). reflexivity. }
      rewrite (flat_map_ext_in (fun x => if existsb _ (map RB NNU) then [] else _) (fun a => if existsb (mt a) NNU then [] else [JR a None]) U).
      2:{ intros a Ia. assert (existsb (fun rb => keys_match nm (key_of cs3 (pb ++ [rk]) (F3 a)) (key_of cb (pb ++ [rk]) rb)) (map RB NNU) = existsb (mt a) NNU) as E.
          { assert (forall l, (forall b, In b l -> In b NNU) -> existsb (fun rb => keys_match nm (key_of cs3 (pb ++ [rk]) (F3 a)) (key_of cb (pb ++ [rk]) rb)) (map RB l) = existsb (mt a) l) as G.
            { induction l as [|b l IH]; intros H; [reflexivity|]. cbn [map existsb]. rewrite (keys_mt nm a b Ia (H b (or_introl eq_refl))), IH; [reflexivity|]. intros b' I. apply H. right. exact I. }
            apply G. auto. }
          rewrite E. reflexivity. }
      eapply perm_trans; [apply Permutation_map, perm_flat_map_app|].
      rewrite map_flat_map.
      rewrite (flat_map_single_each _ (fun a => set_cell cs (snd a) vcol (lv a)) U) by (intros a Ia; apply out_row, Ia).
      fold cs rs.
      assert (map (fun r => set_cell cs r vcol (locf_value fl cs pb ob vcol rs r)) rs = map (fun a => set_cell cs (snd a) vcol (lv a)) U) as E.
      { transitivity (map (fun r => set_cell cs r vcol (locf_value fl cs pb ob vcol rs r)) (map snd U)); [f_equal; apply rs_U|rewrite map_map; reflexivity]. }
      rewrite E. apply Permutation_refl.
    Qed.
  End WithNb.

  Theorem locf_table_correct nm :
    let m := sem_wextend fl [(rk, EOp "cumsum" [ECol use])] (mkwin pb (ob ++ [tb]) [])
               (sem_wextend fl [(tb, EOp "_row_number" [])] (mkwin [] (pb ++ ob) [])
                  (sem_extend_x pw fl [(use, where_expr)] t)) in
    tbl_equiv (sem_drop_cols [use; rk; tb]
                 (sem_join nm (pb ++ [rk]) (pb ++ [rk]) JLeft m
                    (sem_select_cols (pb ++ [rk; vcol]) (sem_select_rows_x pw fl (EOp "==" [ECol use; EConst (vnat 1)]) m))))
              (locf_spec fl ob pb vcol t).
  Proof. destruct locf_facts as (Nu & Nk & Nt & Duk & Dut & Dkt & _).
    rewrite step_a. set (ta := mktable (cs ++ [use]) (map (fun ir => snd ir ++ [uv (snd ir)]) U)).
    destruct (row_number_value fl (pb ++ ob) [] ta tb) as [nb [Inj E]]. rewrite E. clear E.
    assert (~ In tb (cs ++ [use])) as Ntb by (intros I; apply in_app_or in I as [I|[I|[]]]; [contradiction|congruence]).
    assert (List.length (rows ta) = List.length rs) as LR by (unfold ta; cbn [rows]; rewrite map_length; unfold U; apply tag_from_length).
    rewrite LR in Inj.
    assert (mktable (add_end (cols ta) tb) (map (fun ir => set_cell (cols ta) (snd ir) tb (vnat (nb (fst ir)))) (tag_from 0 (rows ta))) = tbl nb) as ET.
    { unfold ta, tbl, csb. cbn [cols rows]. rewrite (add_end_new _ tb Ntb), <- app_assoc. cbn [app]. f_equal.
      unfold U. rewrite tag_from_map_tag, map_map. apply map_ext_in. intros ir I. cbn [fst snd].
      rewrite (set_cell_new _ _ tb _ Ntb). unfold Fb. rewrite <- app_assoc. reflexivity. }
    rewrite ET. cbn zeta. change (EOp "cumsum" [ECol use]) with ec. change (mkwin pb (ob ++ [tb]) []) with wc.
    rewrite (step_c nb). change (EOp "==" [ECol use; EConst (vnat 1)]) with eq_expr. change (pb ++ [rk; vcol]) with cb.
    rewrite (right_table nb). apply (locf_join nb Inj). Qed.
End Locf.

Theorem locf_correct (pw : nat -> nat) (fl : flavor) (d : op) (ob pb : list string) (vcol use rk tb : string) (e : env) (t : table) :
  sem_x pw fl d e = Some t -> locf_valid fl ob pb vcol use rk tb t = true ->
  exists out, sem_x pw fl (locf_pipeline d ob pb vcol use rk tb) e = Some out /\ tbl_equiv out (locf_spec fl ob pb vcol t).
Proof. intros Hd V. unfold locf_pipeline, locf_marked. cbn [sem_x]. rewrite Hd. cbn [option_map].
  eexists. split; [reflexivity|]. apply (locf_table_correct pw fl ob pb vcol use rk tb t V). Qed.
