(* Proofs/ExprParseP2.v -- C13, part 1 (continued): walk_meaning by induction on the size of the parse tree. *)
From Coq Require Import List Bool String Ascii ZArith NArith QArith Arith Lia.
Import ListNotations.
From DA Require Import Model.PyExpr Model.ExprParse Model.ExprSem Proofs.ExprParseP1.
Local Close Scope Q_scope.
Local Open Scope string_scope.
Local Open Scope bool_scope.
Local Open Scope list_scope.

(* ------------------------------------------------------------------ walk_node / py_node at each kind *)
Definition kopsel (ops : list (option string)) : option string :=
  match all_some ops with
  | Some names => match all_same names with Some o => if mem_str o ["+"; "*"] then Some o else None | None => None end
  | None => None
  end.

Lemma wn_var c d cs rs g a : In d ["number"; "string"; "var"] -> walk_node c d cs rs g a = nth 0 rs Err.
Proof. simpl. intros [<-|[<-|[<-|[]]]]; reflexivity. Qed.

Lemma wn_or c cs rs g a : walk_node c "or_test" cs rs g a =
  if Nat.ltb (List.length cs) 2 then Err
  else match all_ok rs with Ok args => mk_expr c "or" args true false | Err => Err end.
Proof. reflexivity. Qed.
Lemma wn_and c cs rs g a : walk_node c "and_test" cs rs g a =
  if Nat.ltb (List.length cs) 2 then Err
  else match all_ok rs with Ok args => mk_expr c "and" args true false | Err => Err end.
Proof. reflexivity. Qed.

Lemma wn_not c cs rs g a : walk_node c "not" cs rs g a =
  match rs with [Ok lft] => call_method c "__eq__" lft [EVal (PBool false)] | _ => Err end.
Proof. reflexivity. Qed.

Lemma wn_comparison c cs rs g a : walk_node c "comparison" cs rs g a =
  if Nat.ltb (List.length cs) 3 || Nat.even (List.length cs) then Err
  else if Nat.ltb 3 (List.length cs) then Err
  else chain_fold c (nth 0 rs Err) (map tok_text (odds cs)) (match evens rs with [] => [] | _ :: t => t end).
Proof. unfold walk_node. cbn -[Nat.ltb Nat.even all_some all_same all_ok chain_fold odds evens nth].
  destruct (Nat.ltb (List.length cs) 3 || Nat.even (List.length cs)); [reflexivity|].
  destruct (Nat.ltb 3 (List.length cs)); [reflexivity|].
  destruct (all_some (map tok_text (odds cs))) as [names|]; [|reflexivity]. destruct (all_same names); reflexivity. Qed.

Lemma wn_arith c d cs rs g a : In d ["arith_expr"; "term"] -> walk_node c d cs rs g a =
  if Nat.ltb (List.length cs) 3 || Nat.even (List.length cs) then Err
  else match kopsel (map tok_text (odds cs)) with
       | Some o => match all_ok (evens rs) with Ok args => mk_expr c o args true false | Err => Err end
       | None => chain_fold c (nth 0 rs Err) (map tok_text (odds cs)) (match evens rs with [] => [] | _ :: t => t end)
       end.
Proof. simpl. intros [<-|[<-|[]]]; unfold walk_node, kopsel; cbn -[Nat.ltb Nat.even all_some all_same all_ok chain_fold odds evens nth mem_str];
  (destruct (Nat.ltb (List.length cs) 3 || Nat.even (List.length cs)); reflexivity). Qed.

Lemma wn_factor c cs rs g a : walk_node c "factor" cs rs g a =
  match cs, rs with
  | [o; _], [_; r] =>
      match tok_text o, r with
      | Some op, Ok rgt => call_method c (remap factor_remap op) rgt []
      | _, _ => Err
      end
  | _, _ => Err
  end.
Proof. reflexivity. Qed.

Lemma wn_power c cs rs g a : walk_node c "power" cs rs g a =
  if Nat.ltb (List.length cs) 2 then Err
  else match all_ok rs with Ok (x :: more) => pow_fold c (Ok x) more | _ => Err end.
Proof. reflexivity. Qed.

Definition call_args (rest : list ltree) (ars : option (list (res expr))) : res (list expr) :=
  match rest with
  | [] => Ok []
  | LNone :: _ => Ok []
  | LNode _ _ :: _ => match ars with Some l => all_ok l | None => Err end
  | LTok _ :: _ => Err
  end.

Lemma wn_funccall c cs rs g a : walk_node c "funccall" cs rs g a =
  if Nat.ltb 2 (List.length cs) then Err
  else match cs with
       | [] => Err
       | carrier :: rest =>
           match carrier with
           | LNode cd ccs =>
               if cd ==s "getattr" then
                 match ccs, g with
                 | o :: nm :: _, Some (ro :: _) =>
                     match ro, tok_text nm, call_args rest a with
                     | Ok self, Some m, Ok al => if is_dunder m then Err else call_method c m self al
                     | _, _, _ => Err
                     end
                 | _, _ => Err
                 end
               else if negb (cd ==s "var") then Err
               else match ccs with
                    | h :: _ => match tok_text h, call_args rest a with Some f, Ok al => mk_expr c f al false false | _, _ => Err end
                    | [] => Err
                    end
           | LTok t => match tok_text (LTok t), call_args rest a with Some f, Ok al => mk_expr c f al false false | _, _ => Err end
           | LNone => Err
           end
       end.
Proof. unfold walk_node, call_args. cbn -[Nat.ltb all_ok].
  destruct (Nat.ltb 2 (List.length cs)); [reflexivity|]. destruct cs as [|carrier rest]; [reflexivity|].
  destruct carrier as [t|cd ccs|]; try reflexivity; destruct rest as [|[t'|ad acs|] rest']; try reflexivity;
    destruct (cd ==s "getattr"); try reflexivity; destruct (negb (cd ==s "var")); reflexivity. Qed.

(* ------------------------------------------------------------------ small facts *)
Lemma all_some_inv {A} (l : list (option A)) r : all_some l = Some r -> l = map Some r.
Proof. revert r. induction l as [|[x|] l IH]; simpl; intros r H; try discriminate H.
  - inversion H. reflexivity.
  - destruct (all_some l) eqn:E; [|discriminate H]. inversion H; subst. simpl. rewrite (IH _ eq_refl). reflexivity. Qed.

Lemma kopsel_spec ops o : kopsel ops = Some o -> Forall (fun x => x = Some o) ops /\ mem_str o ["+"; "*"] = true.
Proof. unfold kopsel. destruct (all_some ops) as [names|] eqn:A; [|discriminate].
  destruct (all_same names) as [o'|] eqn:S; [|discriminate]. destruct (mem_str o' ["+"; "*"]) eqn:M; [|discriminate].
  intros H; inversion H; subst o'. split; [|exact M]. apply all_some_inv in A. subst ops.
  unfold all_same in S. destruct names as [|x t]; [discriminate S|].
  destruct (forallb (String.eqb x) t) eqn:F; [|discriminate S]. inversion S; subst x.
  constructor; [reflexivity|]. rewrite forallb_forall in F. apply Forall_forall. intros y Hy.
  apply in_map_iff in Hy as [z [<- Hz]]. apply F in Hz. apply String.eqb_eq in Hz. subst. reflexivity. Qed.

Lemma length_3_inv {A} (l : list A) : Nat.ltb (List.length l) 3 = false ->
  exists a b l', l = a :: b :: l' /\ l' <> [].
Proof. intros H. apply Nat.ltb_ge in H. destruct l as [|a [|b [|x l']]]; simpl in H; try lia.
  exists a, b, (x :: l'). split; [reflexivity|discriminate]. Qed.

Lemma plain_call c m s al e :
  plain_method m (List.length al) = true -> call_method c m s al = Ok e -> exists i me, e = EOp m i me None (s :: al).
Proof. unfold plain_method, call_method. destruct (negb (is_term s)); [discriminate 2|].
  destruct (find_method m method_table) as [[op|op i me chk|op|op i me| | | | | | | | |op dflt must]|]; try discriminate 1.
  - destruct al as [|? ?]; [|discriminate 1]. intros E H. apply String.eqb_eq in E. subst op.
    apply uop_expr_Ok in H. eauto.
  - destruct al as [|x [|? ?]]; try discriminate 1. intros E H. apply String.eqb_eq in E. subst op.
    apply op_expr_Ok in H. eauto.
  - destruct al as [|x [|y [|? ?]]]; try discriminate 1. intros E H. apply String.eqb_eq in E. subst op.
    apply triop_expr_Ok in H. eauto. Qed.

Lemma call_neg c rgt e : call_method c "__neg__" rgt [] = Ok e ->
  (exists x x', rgt = EVal x /\ py_neg x = Some x' /\ e = EVal x') \/
  ((forall x, rgt <> EVal x) /\ e = EOp "-" true false None [rgt]).
Proof. unfold call_method. destruct (negb (is_term rgt)); [discriminate|].
  change (find_method "__neg__" method_table) with (Some MNeg). cbv iota beta.
  destruct rgt as [n|x|l|d|op i m p args].
  - intros H. right. split; [discriminate|]. apply uop_expr_Ok in H. exact H.
  - destruct (py_neg x) as [x'|] eqn:N; [|discriminate]. intros H. inversion H. left. eauto.
  - intros H. right. split; [discriminate|]. apply uop_expr_Ok in H. exact H.
  - intros H. right. split; [discriminate|]. apply uop_expr_Ok in H. exact H.
  - intros H. right. split; [discriminate|]. apply uop_expr_Ok in H. exact H. Qed.

Lemma call_pos c rgt e : call_method c "__pos__" rgt [] = Ok e -> e = rgt.
Proof. unfold call_method. destruct (negb (is_term rgt)); [discriminate|].
  change (find_method "__pos__" method_table) with (Some MPos). cbv iota beta. intros H; inversion H; reflexivity. Qed.

Lemma neg_num_py_neg v w : neg_num v = Some w -> py_neg v = Some w.
Proof. destruct v; simpl; intros H; try discriminate H; exact H. Qed.

Lemma Forall2_length_eq {A B} (P : A -> B -> Prop) l r : Forall2 P l r -> List.length l = List.length r.
Proof. induction 1; simpl; congruence. Qed.

Lemma no_chain_child d cs x : no_chain (LNode d cs) = true -> In x cs -> no_chain x = true.
Proof. simpl. intros H Hx. apply andb_prop in H as [_ H]. rewrite forallb_forall in H. apply H, Hx. Qed.
