(* C18, Pandas labels: every step of the executor model Model/PandasIndex.v returns a frame labelled 0..n-1, whatever labels the
   caller's frames carry (induction over the pipeline); hence the result does not depend on the caller's labels, and -- because
   the only place where labels decide data, the aligned column assignment of extend, always meets equal labels -- the data of the
   result is the reference semantics. *)
From Coq Require Import List Bool Arith ZArith QArith String Lia Permutation.
Import ListNotations.
From DA Require Import Base.PyRT Base.Val Model.Sem Model.PandasIndex Proofs.SemBasicP Proofs.SemOrderP Proofs.PermP3.
Local Open Scope string_scope.
Local Open Scope list_scope.

Definition has_default (f : iframe) : Prop := ix f = default_ix (nrows f).

Lemma default_ix_length n : List.length (default_ix n) = n.
Proof. unfold default_ix. rewrite map_length, seq_length. reflexivity. Qed.

Lemma reset_default f : has_default (reset_index_drop f).
Proof. reflexivity. Qed.

Lemma positional_rows fl ops (wd : bool) w t : List.length (rows ((if wd then sem_wextend fl ops w else sem_extend fl ops) t)) = List.length (rows t).
Proof. destruct wd; [apply wextend_row_count|apply extend_row_count]. Qed.

Lemma ltb1_zero n : Nat.ltb n 1 = true -> n = 0%nat.
Proof. intros H. apply Nat.ltb_lt in H. lia. Qed.

Lemma concat_row_count idc an bn a b : List.length (rows (sem_concat idc an bn a b)) = (List.length (rows a) + List.length (rows b))%nat.
Proof. unfold sem_concat. destruct idc; cbn [rows]; rewrite app_length, !map_length; reflexivity. Qed.

Lemma join_empty nm on_a on_b jt a b : rows a = [] -> rows b = [] -> rows (sem_join nm on_a on_b jt a b) = [].
Proof. intros Ea Eb. unfold sem_join. cbn [rows]. rewrite Ea, Eb. destruct jt; reflexivity. Qed.

Lemma length_zero_nil {A} (l : list A) : List.length l = 0%nat -> l = [].
Proof. destruct l; [reflexivity|discriminate]. Qed.

(* ---------- every step returns range labels *)
Lemma px_extend_default fl ops wd w res f : has_default res -> px_extend fl ops wd w res = Some f -> has_default f.
Proof.
  unfold px_extend, has_default. intros D H.
  destruct (Nat.eqb (nrows res) 0) eqn:E0.
  - apply Nat.eqb_eq in E0. inversion H; subst f. unfold nrows in *. cbn [ix tb]. rewrite positional_rows, E0. reflexivity.
  - match type of H with (if ?c then _ else _) = _ => destruct c as [_|N] end.
    + inversion H; subst f. unfold with_data, nrows in *. cbn [ix tb]. rewrite positional_rows. exact D.
    + destruct (Nat.ltb _ _); [discriminate|]. inversion H; subst f. unfold with_data, assign_by_label, nrows in *. cbn [ix tb rows].
      rewrite map_length, combine_length, D, default_ix_length, Nat.min_id. reflexivity.
Qed.

Lemma px_order_default fl cs rev lim res : has_default res -> has_default (px_order fl cs rev lim res).
Proof.
  intros D. unfold px_order. cbv zeta.
  set (res1 := if Nat.ltb 1 (nrows res) then _ else res).
  assert (has_default res1) as D1 by (unfold res1; destruct (Nat.ltb 1 (nrows res)); [apply reset_default|exact D]).
  destruct lim as [n|]; [|exact D1]. destruct (Nat.ltb n (nrows res1)); [apply reset_default|exact D1].
Qed.

Lemma px_join_default nm on_a on_b jt l r : has_default (px_join nm on_a on_b jt l r).
Proof.
  unfold px_join. cbv zeta. destruct (Nat.eqb (nrows l) 0 && Nat.eqb (nrows r) 0) eqn:E; [|apply reset_default].
  apply andb_true_iff in E. destruct E as [El Er]. apply Nat.eqb_eq in El, Er. unfold nrows in El, Er.
  unfold has_default, nrows. cbn [ix tb]. rewrite (join_empty _ _ _ _ _ _ (length_zero_nil _ El) (length_zero_nil _ Er)). reflexivity.
Qed.

Lemma px_concat_default idc an bn l r : has_default l -> has_default r -> has_default (px_concat idc an bn l r).
Proof.
  intros Dl Dr. unfold px_concat. cbv zeta.
  destruct (Nat.ltb (nrows l) 1) eqn:E1.
  - apply ltb1_zero in E1. unfold has_default, with_data, nrows in *. cbn [ix tb]. rewrite concat_row_count, E1. exact Dr.
  - destruct (Nat.ltb (nrows r) 1) eqn:E2; [|apply reset_default].
    apply ltb1_zero in E2. unfold has_default, with_data, nrows in *. cbn [ix tb]. rewrite concat_row_count, E2, Nat.add_0_r. exact Dl.
Qed.

Theorem px_default_index fl p : forall e f, px fl p e = Some f -> has_default f.
Proof.
  induction p as [n cs|s IH ops wd w|s IH ops gb|s IH x|s IH cs|s IH cs|s IH m|s IH m dels|s IH cs rev lim|a IHa b IHb on_a on_b jt|a IHa b IHb idc an bn];
    intros e f H; cbn [px] in H.
  - destruct (dict_get e n) as [df|]; [|discriminate]. inversion H. apply reset_default.
  - destruct (px fl s e) as [res|] eqn:E; [|discriminate]. eapply px_extend_default; [apply (IH e res E)|exact H].
  - destruct (px fl s e) as [res|] eqn:E; [|discriminate]. inversion H. apply reset_default.
  - destruct (px fl s e) as [res|] eqn:E; [|discriminate]. inversion H. unfold px_select_rows.
    destruct (Nat.ltb (nrows res) 1); [apply (IH e res E)|apply reset_default].
  - destruct (px fl s e) as [res|] eqn:E; [|discriminate]. inversion H. pose proof (IH e res E) as D.
    unfold has_default, loc_cols, nrows, sem_select_cols in *. cbn [ix tb rows]. rewrite map_length. exact D.
  - destruct (px fl s e) as [res|] eqn:E; [|discriminate]. inversion H. pose proof (IH e res E) as D.
    unfold has_default, with_data, nrows, sem_drop_cols, sem_select_cols in *. cbn [ix tb rows]. rewrite map_length. exact D.
  - destruct (px fl s e) as [res|] eqn:E; [|discriminate]. inversion H. apply (IH e res E).
  - destruct (px fl s e) as [res|] eqn:E; [|discriminate]. inversion H. pose proof (IH e res E) as D.
    unfold has_default, with_data, nrows, sem_drop_cols, sem_select_cols, sem_rename in *. cbn [ix tb rows]. rewrite map_length. exact D.
  - destruct (px fl s e) as [res|] eqn:E; [|discriminate]. inversion H. apply px_order_default, (IH e res E).
  - destruct (px fl a e) as [l|] eqn:Ea; [|discriminate]. destruct (px fl b e) as [r|] eqn:Eb; [|discriminate]. inversion H. apply px_join_default.
  - destruct (px fl a e) as [l|] eqn:Ea; [|discriminate]. destruct (px fl b e) as [r|] eqn:Eb; [|discriminate]. inversion H.
    apply px_concat_default; [apply (IHa e l Ea)|apply (IHb e r Eb)].
Qed.

(* ... and so does every intermediate node *)
Theorem px_trace_default fl p : forall e, Forall (fun o => forall l, o = Some l -> exists n, l = default_ix n) (px_trace fl p e).
Proof.
  assert (forall q e l, option_map ix (px fl q e) = Some l -> exists n, l = default_ix n) as Here.
  { intros q e l H. destruct (px fl q e) as [f|] eqn:E; [|discriminate]. inversion H. exists (nrows f). apply (px_default_index fl q e f E). }
  induction p; intros ev; cbn [px_trace]; repeat (apply Forall_app; split); try apply IHp; try apply IHp1; try apply IHp2;
    (constructor; [apply Here|constructor]).
Qed.

(* ---------- the result does not depend on the labels of the caller's frames *)
Definition same_data (e e' : ienv) : Prop := forall n, option_map tb (dict_get e n) = option_map tb (dict_get e' n).

Theorem px_index_free fl p : forall e e', same_data e e' -> px fl p e = px fl p e'.
Proof.
  induction p; intros ev ev' S; cbn [px]; try (rewrite (IHp ev ev' S); reflexivity); try (rewrite (IHp1 ev ev' S), (IHp2 ev ev' S); reflexivity).
  specialize (S name). destruct (dict_get ev name) as [df|]; destruct (dict_get ev' name) as [df'|]; try discriminate; [|reflexivity].
  cbn [option_map] in *. inversion S as [E]. unfold px_table, reset_index_drop, loc_cols, nrows. cbn [tb]. rewrite E. reflexivity.
Qed.

(* ---------- the data of the result is the reference semantics *)
Lemma strip_get e n : dict_get (strip e) n = option_map tb (dict_get e n).
Proof. induction e as [|[k f] t IH]; simpl; [reflexivity|]. destruct (eq_dec n k); [reflexivity|exact IH]. Qed.

Lemma map_snd_combine {A B} (l : list A) (l' : list B) : List.length l = List.length l' -> map snd (combine l l') = l'.
Proof. revert l'. induction l as [|x t IH]; intros [|y u] L; simpl in *; try discriminate; [reflexivity|]. rewrite IH; [reflexivity|lia]. Qed.

Lemma stable_sort_short {A} (le : A -> A -> bool) l : (List.length l <= 1)%nat -> stable_sort le l = l.
Proof. destruct l as [|a [|b t]]; simpl; intros L; try reflexivity. lia. Qed.

Lemma table_eta t : mktable (cols t) (rows t) = t.
Proof. destruct t. reflexivity. Qed.

Lemma px_order_data fl cs rev lim res : has_default res -> tb (px_order fl cs rev lim res) = sem_order fl cs rev lim (tb res).
Proof.
  intros D. unfold px_order, sem_order. cbv zeta.
  set (keys := map (fun c => (c, mem c rev)) cs).
  set (res1 := if Nat.ltb 1 (nrows res) then _ else res).
  assert (tb res1 = mktable (cols (tb res)) (stable_sort (row_le fl (cols (tb res)) keys) (rows (tb res)))) as E1.
  { unfold res1. destruct (Nat.ltb 1 (nrows res)) eqn:L.
    - unfold reset_index_drop, sort_values. cbn [tb]. f_equal.
      rewrite (stable_sort_map_snd (row_le fl (cols (tb res)) keys)). rewrite map_snd_combine; [reflexivity|].
      rewrite D. apply default_ix_length.
    - apply Nat.ltb_ge in L. rewrite stable_sort_short by exact L. symmetry. apply table_eta. }
  destruct lim as [n|]; [|exact E1].
  destruct (Nat.ltb n (nrows res1)) eqn:L.
  - unfold reset_index_drop, iloc_firstn. cbn [tb]. rewrite E1. reflexivity.
  - apply Nat.ltb_ge in L. unfold nrows in L. rewrite E1 in *. cbn [rows cols] in *. rewrite firstn_all2 by exact L. reflexivity.
Qed.

Theorem px_data fl p : forall e f, px fl p e = Some f -> sem_gen fl p (strip e) = Some (tb f).
Proof.
  induction p as [n cs|s IH ops wd w|s IH ops gb|s IH x|s IH cs|s IH cs|s IH m|s IH m dels|s IH cs rev lim|a IHa b IHb on_a on_b jt|a IHa b IHb idc an bn];
    intros e f H; cbn [px sem_gen] in *.
  - rewrite strip_get. destruct (dict_get e n) as [df|]; [|discriminate]. inversion H. reflexivity.
  - destruct (px fl s e) as [res|] eqn:E; [|discriminate]. rewrite (IH e res E). cbn [option_map]. f_equal.
    pose proof (px_default_index fl s e res E) as D. unfold px_extend in H.
    destruct (Nat.eqb (nrows res) 0); [inversion H; reflexivity|].
    match type of H with (if ?c then _ else _) = _ => destruct c as [_|N] end; [inversion H; reflexivity|].
    exfalso. apply N. destruct wd; [exact D|]. destruct (all_constant ops); [exact D|reflexivity].
  - destruct (px fl s e) as [res|] eqn:E; [|discriminate]. rewrite (IH e res E). inversion H. reflexivity.
  - destruct (px fl s e) as [res|] eqn:E; [|discriminate]. rewrite (IH e res E). inversion H. cbn [option_map]. f_equal.
    unfold px_select_rows. destruct (Nat.ltb (nrows res) 1) eqn:L; [|reflexivity].
    apply ltb1_zero in L. unfold nrows in L. apply length_zero_nil in L. unfold sem_select_rows.
    destruct (tb res) as [c r]. cbn [rows cols] in *. subst r. reflexivity.
  - destruct (px fl s e) as [res|] eqn:E; [|discriminate]. rewrite (IH e res E). inversion H. reflexivity.
  - destruct (px fl s e) as [res|] eqn:E; [|discriminate]. rewrite (IH e res E). inversion H. reflexivity.
  - destruct (px fl s e) as [res|] eqn:E; [|discriminate]. rewrite (IH e res E). inversion H. reflexivity.
  - destruct (px fl s e) as [res|] eqn:E; [|discriminate]. rewrite (IH e res E). inversion H. reflexivity.
  - destruct (px fl s e) as [res|] eqn:E; [|discriminate]. rewrite (IH e res E). inversion H. cbn [option_map]. f_equal.
    symmetry. apply px_order_data, (px_default_index fl s e res E).
  - destruct (px fl a e) as [l|] eqn:Ea; [|discriminate]. destruct (px fl b e) as [r|] eqn:Eb; [|discriminate].
    rewrite (IHa e l Ea), (IHb e r Eb). inversion H. f_equal. unfold px_join. cbv zeta. destruct (_ && _); reflexivity.
  - destruct (px fl a e) as [l|] eqn:Ea; [|discriminate]. destruct (px fl b e) as [r|] eqn:Eb; [|discriminate].
    rewrite (IHa e l Ea), (IHb e r Eb). inversion H. f_equal. unfold px_concat. cbv zeta.
    destruct (Nat.ltb (nrows l) 1); [reflexivity|]. destruct (Nat.ltb (nrows r) 1); reflexivity.
Qed.

(* the executor model is defined exactly when the reference semantics is (every table supplied) *)
Lemma px_defined fl p : forall e t, sem_gen fl p (strip e) = Some t -> exists f, px fl p e = Some f.
Proof.
  induction p as [n cs|s IH ops wd w|s IH ops gb|s IH x|s IH cs|s IH cs|s IH m|s IH m dels|s IH cs rev lim|a IHa b IHb on_a on_b jt|a IHa b IHb idc an bn];
    intros e t H; cbn [px sem_gen] in *;
    try (destruct (sem_gen fl s (strip e)) as [u|] eqn:E; [|discriminate]; destruct (IH e u E) as [res R]; rewrite R; eexists; reflexivity).
  - rewrite strip_get in H. destruct (dict_get e n); [eexists; reflexivity|discriminate].
  - destruct (sem_gen fl s (strip e)) as [u|] eqn:E; [|discriminate]. destruct (IH e u E) as [res R]. rewrite R.
    pose proof (px_default_index fl s e res R) as D. unfold px_extend.
    destruct (Nat.eqb (nrows res) 0); [eexists; reflexivity|].
    match goal with |- exists f, (if ?c then _ else _) = _ => destruct c as [_|N] end; [eexists; reflexivity|].
    exfalso. apply N. destruct wd; [exact D|]. destruct (all_constant ops); [exact D|reflexivity].
  - destruct (sem_gen fl a (strip e)) as [ua|] eqn:Ea; [|discriminate]. destruct (sem_gen fl b (strip e)) as [ub|] eqn:Eb; [|discriminate].
    destruct (IHa e ua Ea) as [l L]. destruct (IHb e ub Eb) as [r R]. rewrite L, R. eexists; reflexivity.
  - destruct (sem_gen fl a (strip e)) as [ua|] eqn:Ea; [|discriminate]. destruct (sem_gen fl b (strip e)) as [ub|] eqn:Eb; [|discriminate].
    destruct (IHa e ua Ea) as [l L]. destruct (IHb e ub Eb) as [r R]. rewrite L, R. eexists; reflexivity.
Qed.

(* ---------- why the reset in _table_step matters: a frame that reached a windowed extend with the caller's labels *)
Definition leak_frame : iframe :=
  mkif [[AInt 1]; [AInt 0]] (mktable ["k"; "a"] [[VNum (Qred (1 # 1)); VNum (Qred (1 # 1))]; [VNum (Qred (2 # 1)); VNum (Qred (5 # 1))]]).
Definition leak_ops : list (string * expr) := [("c", EOp "cumsum" [ECol "a"])].
Definition leak_win : window := mkwin [] ["k"] [].
Lemma labels_leak_without_reset :
  exists f, px_extend fl_pandas leak_ops true leak_win leak_frame = Some f /\ tb f <> sem_wextend fl_pandas leak_ops leak_win (tb leak_frame).
Proof. eexists. split; [vm_compute; reflexivity|]. vm_compute. intros H. discriminate H. Qed.
