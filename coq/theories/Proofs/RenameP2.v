(* C15, part A: the reference semantics is equivariant under injective renamings of tables and columns, for ALL pipelines
   (structural induction over the operator tree; no bound on depth, width, rows). *)
From Coq Require Import List Bool Arith ZArith QArith String Lia.
Import ListNotations.
From DA Require Import Base.PyRT Base.Val Model.Sem Model.Rename Proofs.RenameP1.
Local Open Scope list_scope.

Lemma dict_get_rename_env rt rc (Ht : injective rt) (e : env) n :
  dict_get (rename_env rt rc e) (rt n) = option_map (rename_tab rc) (dict_get e n).
Proof.
  unfold rename_env. induction e as [|[k t] rest IH]; simpl; [reflexivity|].
  rewrite (dec_inj rt Ht). destruct (eq_dec n k); [reflexivity|exact IH].
Qed.

Theorem sem_rename_equivariant :
  forall (fl : flavor) (rt rc : string -> string), injective rt -> injective rc ->
  forall (p : op) (e : env),
  sem_gen fl (rename_op rt rc p) (rename_env rt rc e) = option_map (rename_tab rc) (sem_gen fl p e).
Proof.
  intros fl rt rc Ht Hc p e.
  induction p as [n cs|s IH ops wd w|s IH ops gb|s IH x|s IH cs|s IH cs|s IH m|s IH m dels|s IH cs rev lim|a IHa b IHb on_a on_b jt|a IHa b IHb idc an bn];
    cbn [rename_op sem_gen].
  - rewrite (dict_get_rename_env rt rc Ht). destruct (dict_get e n) as [t|]; simpl; [|reflexivity].
    f_equal. apply (sem_select_cols_inj rc Hc).
  - rewrite IH. destruct (sem_gen fl s e) as [t|]; simpl; [|reflexivity]. f_equal.
    destruct wd; [apply (sem_wextend_inj rc Hc)|apply (sem_extend_inj rc Hc)].
  - rewrite IH. destruct (sem_gen fl s e) as [t|]; simpl; [|reflexivity]. f_equal. apply (sem_project_inj rc Hc).
  - rewrite IH. destruct (sem_gen fl s e) as [t|]; simpl; [|reflexivity]. f_equal. apply (sem_select_rows_inj rc Hc).
  - rewrite IH. destruct (sem_gen fl s e) as [t|]; simpl; [|reflexivity]. f_equal. apply (sem_select_cols_inj rc Hc).
  - rewrite IH. destruct (sem_gen fl s e) as [t|]; simpl; [|reflexivity]. f_equal. apply (sem_drop_cols_inj rc Hc).
  - rewrite IH. destruct (sem_gen fl s e) as [t|]; simpl; [|reflexivity]. f_equal. apply (sem_rename_inj rc Hc).
  - rewrite IH. destruct (sem_gen fl s e) as [t|]; simpl; [|reflexivity]. f_equal.
    rewrite (sem_rename_inj rc Hc). apply (sem_drop_cols_inj rc Hc).
  - rewrite IH. destruct (sem_gen fl s e) as [t|]; simpl; [|reflexivity]. f_equal. apply (sem_order_inj rc Hc).
  - rewrite IHa, IHb. destruct (sem_gen fl a e) as [ta|]; simpl; [|reflexivity].
    destruct (sem_gen fl b e) as [tb|]; simpl; [|reflexivity]. f_equal. apply (sem_join_inj rc Hc).
  - rewrite IHa, IHb. destruct (sem_gen fl a e) as [ta|]; simpl; [|reflexivity].
    destruct (sem_gen fl b e) as [tb|]; simpl; [|reflexivity]. f_equal. apply (sem_concat_inj rc Hc).
Qed.

(* "... and changes nothing else": the rows (all cell values, their order) of the renamed run are those of the original run *)
Theorem sem_rename_rows_unchanged :
  forall (fl : flavor) (rt rc : string -> string), injective rt -> injective rc ->
  forall (p : op) (e : env) (t : table), sem_gen fl p e = Some t ->
  exists t', sem_gen fl (rename_op rt rc p) (rename_env rt rc e) = Some t' /\ cols t' = map rc (cols t) /\ rows t' = rows t.
Proof.
  intros fl rt rc Ht Hc p e t E. exists (rename_tab rc t). rewrite (sem_rename_equivariant fl rt rc Ht Hc), E. repeat split; reflexivity.
Qed.

(* a renaming with a left inverse is injective *)
Lemma left_inverse_injective (r back : string -> string) : (forall c, back (r c) = c) -> injective r.
Proof. intros H a b E. rewrite <- (H a), <- (H b), E. reflexivity. Qed.

Lemma rename_tab_back (r back : string -> string) (H : forall c, back (r c) = c) t : rename_tab back (rename_tab r t) = t.
Proof.
  destruct t as [cs rs]. unfold rename_tab. cbn [cols rows]. f_equal. rewrite map_map.
  rewrite (map_ext (fun c => back (r c)) (fun c => c)) by exact H. apply map_id.
Qed.

(* the oracle of the check, as a theorem about the specification: rename -> evaluate -> rename back = evaluate *)
Theorem sem_rename_evaluate_rename_back :
  forall (fl : flavor) (rt rc tback cback : string -> string),
  (forall n, tback (rt n) = n) -> (forall c, cback (rc c) = c) ->
  forall (p : op) (e : env),
  option_map (rename_tab cback) (sem_gen fl (rename_op rt rc p) (rename_env rt rc e)) = sem_gen fl p e.
Proof.
  intros fl rt rc tback cback Ht Hc p e.
  rewrite (sem_rename_equivariant fl rt rc (left_inverse_injective rt tback Ht) (left_inverse_injective rc cback Hc)).
  destruct (sem_gen fl p e) as [t|]; simpl; [|reflexivity]. f_equal. apply (rename_tab_back rc cback Hc).
Qed.

(* the declared columns (the builders' bookkeeping) are renamed the same way *)
Theorem column_names_rename :
  forall (rt rc : string -> string), injective rc ->
  forall p : op, column_names (rename_op rt rc p) = map rc (column_names p).
Proof.
  intros rt rc Hc p.
  induction p as [n cs|s IH ops wd w|s IH ops gb|s IH x|s IH cs|s IH cs|s IH m|s IH m dels|s IH cs rev lim|a IHa b IHb on_a on_b jt|a IHa b IHb idc an bn];
    cbn [rename_op column_names]; try reflexivity; try exact IH.
  - rewrite IH, (map_fst_rename_ops rc). apply (ext_cols_inj rc Hc).
  - rewrite (map_fst_rename_ops rc), map_app. reflexivity.
  - rewrite IH. apply (filter_not_mem_inj rc Hc).
  - rewrite IH, !map_map. apply map_ext. intros c. apply (rename_col_inj rc Hc).
  - rewrite IH, map_map.
    rewrite (map_ext (fun c => rename_col (rename_pairs rc m) (rc c)) (fun c => rc (rename_col m c))) by (intros c; apply (rename_col_inj rc Hc)).
    rewrite <- (map_map (rename_col m) rc). apply (filter_not_mem_inj rc Hc).
  - rewrite IHa, IHb, (filter_not_mem_inj rc Hc), map_app. reflexivity.
  - rewrite IHa, map_app. destruct idc; reflexivity.
Qed.

(* exchanges of names are injective, so the theorems apply to renamings onto ANY name, internal names included *)
Lemma swap_involutive a b s : swap a b (swap a b s) = s.
Proof.
  unfold swap. destruct (String.eqb s a) eqn:Ea.
  - apply String.eqb_eq in Ea. subst s. destruct (String.eqb b a) eqn:Eba; [apply String.eqb_eq in Eba; exact Eba|]. rewrite String.eqb_refl. reflexivity.
  - destruct (String.eqb s b) eqn:Eb.
    + apply String.eqb_eq in Eb. subst s. rewrite String.eqb_refl. reflexivity.
    + rewrite Ea, Eb. reflexivity.
Qed.

Lemma swap_injective a b : injective (swap a b).
Proof. apply (left_inverse_injective (swap a b) (swap a b)). apply swap_involutive. Qed.

Lemma swaps_injective l : injective (swaps l).
Proof.
  unfold swaps. induction l as [|[a b] t IH]; intros x y E; simpl in E; [exact E|]. apply IH in E. apply (swap_injective a b), E.
Qed.
