(* C01 / C02, part 2: one step.  If Model/SemStrict.v lists no cause for a step on its materialised input, the step
   produces the same table under every flavour. *)
From Coq Require Import List Bool Arith ZArith QArith String Lia.
Import ListNotations.
From DA Require Import Base.PyRT Base.Val Model.Sem Model.SemStrict Proofs.SemBasicP Proofs.AgreeP1.
Local Open Scope string_scope.
Local Open Scope list_scope.

(* ---------- lists *)
Lemma fold_left_ext_in {A B} (f g : A -> B -> A) l : (forall a x, In x l -> f a x = g a x) -> forall a, fold_left f l a = fold_left g l a.
Proof.
  induction l as [|x t IH]; intros E a; simpl; [reflexivity|].
  rewrite (E a x (or_introl eq_refl)). apply IH. intros a' y I. apply E. right. exact I.
Qed.
Lemma flat_map_ext_in {A B} (f g : A -> list B) l : (forall x, In x l -> f x = g x) -> flat_map f l = flat_map g l.
Proof.
  induction l as [|x t IH]; intros E; simpl; [reflexivity|].
  rewrite (E x (or_introl eq_refl)), IH; [reflexivity|]. intros y I. apply E. right. exact I.
Qed.
Lemma existsb_ext_in {A} (f g : A -> bool) l : (forall x, In x l -> f x = g x) -> existsb f l = existsb g l.
Proof.
  induction l as [|x t IH]; intros E; simpl; [reflexivity|].
  rewrite (E x (or_introl eq_refl)), IH; [reflexivity|]. intros y I. apply E. right. exact I.
Qed.
Lemma existsb_false_in {A} (f : A -> bool) l : existsb f l = false -> forall x, In x l -> f x = false.
Proof.
  intros E x I. destruct (f x) eqn:F; [|reflexivity].
  assert (existsb f l = true) as T by (apply existsb_exists; exists x; split; assumption). congruence.
Qed.
Lemma existsb_map {A B} (g : A -> B) (f : B -> bool) l : existsb f (map g l) = existsb (fun x => f (g x)) l.
Proof. induction l as [|x t IH]; simpl; [reflexivity|]. rewrite IH. reflexivity. Qed.

(* ---------- row-wise extend *)
Lemma extend_agree fl0 ops t : extend_causes fl0 ops t = [] -> forall fl, sem_extend fl ops t = sem_extend fl0 ops t.
Proof.
  intros H fl. unfold sem_extend. f_equal. apply map_ext_in. intros r I.
  unfold extend_row. f_equal. apply fold_left_ext_in. intros [row ccs] ke Ike.
  rewrite (expr_stable fl0 (cols t) r (snd ke)); [reflexivity|].
  unfold extend_causes in H. apply (flat_map_nil _ _ (flat_map_nil _ _ H r I) ke Ike).
Qed.

(* ---------- select_rows *)
Lemma select_agree fl0 x t : select_causes fl0 x t = [] -> forall fl, sem_select_rows fl x t = sem_select_rows fl0 x t.
Proof.
  intros H fl. unfold sem_select_rows. f_equal. apply filter_ext_in. intros r I.
  apply truth_stable. apply (flat_map_nil _ _ H r I).
Qed.

(* ---------- project *)
Lemma arg_value_stable fl0 cs arg r : arg_causes fl0 cs arg r = [] -> forall fl, arg_value fl cs arg r = arg_value fl0 cs arg r.
Proof. destruct arg as [a|]; simpl; intros H fl; [apply expr_stable; exact H|reflexivity]. Qed.

Lemma agg_value_agree fl0 cs grp x : agg_value_causes fl0 cs grp x = [] -> forall fl, agg_value fl cs grp x = agg_value fl0 cs grp x.
Proof.
  unfold agg_value, agg_value_causes. destruct (agg_parts x) as [[op arg]|]; [|reflexivity].
  intros H fl. apply app_eq_nil in H. destruct H as [H1 H2].
  change (agg_fn fl op (map (arg_value fl cs arg) grp) = agg_fn fl0 op (map (arg_value fl0 cs arg) grp)).
  rewrite (map_ext_in (arg_value fl cs arg) (arg_value fl0 cs arg) grp).
  - apply agg_stable. exact H2.
  - intros r I. apply arg_value_stable. apply (flat_map_nil _ _ H1 r I).
Qed.

Lemma project_agree fl0 ops gb t : project_causes fl0 ops gb t = [] -> forall fl, sem_project fl ops gb t = sem_project fl0 ops gb t.
Proof.
  intros H fl. unfold sem_project. f_equal. apply map_ext_in. intros k Ik. f_equal.
  apply map_ext_in. intros ke Ike. apply agg_value_agree.
  unfold project_causes in H. apply (flat_map_nil _ _ (flat_map_nil _ _ H k Ik) ke Ike).
Qed.

(* ---------- sorting: keys without nulls are ordered alike by every flavour *)
Lemma v_le_dir_nonnull nf nf' d a b : is_null a = false -> is_null b = false -> v_le_dir nf d a b = v_le_dir nf' d a b.
Proof. destruct a, b; simpl; intros; try discriminate; reflexivity. Qed.

Lemma row_le_nonnull fl fl' cs rev ks r1 r2 : null_key cs ks r1 = false -> null_key cs ks r2 = false ->
  row_le fl cs (map (fun c => (c, mem c rev)) ks) r1 r2 = row_le fl' cs (map (fun c => (c, mem c rev)) ks) r1 r2.
Proof.
  unfold null_key. induction ks as [|c t IH]; simpl; intros N1 N2; [reflexivity|].
  apply orb_false_iff in N1, N2. destruct N1 as [A1 B1], N2 as [A2 B2].
  rewrite (IH B1 B2). rewrite (v_le_dir_nonnull _ (nulls_first fl' (mem c rev)) _ _ _ A1 A2). reflexivity.
Qed.

Lemma insert_sorted_ext {A} (le le' : A -> A -> bool) x l : (forall y, In y l -> le x y = le' x y) ->
  insert_sorted le x l = insert_sorted le' x l.
Proof.
  induction l as [|y t IH]; intros E; simpl; [reflexivity|].
  rewrite (E y (or_introl eq_refl)). rewrite IH; [reflexivity|]. intros z I. apply E. right. exact I.
Qed.
Lemma stable_sort_ext {A} (le le' : A -> A -> bool) l : (forall x y, In x l -> In y l -> le x y = le' x y) ->
  stable_sort le l = stable_sort le' l.
Proof.
  induction l as [|a t IH]; intros E; simpl; [reflexivity|].
  rewrite IH by (intros x y Ix Iy; apply E; right; assumption).
  apply insert_sorted_ext. intros y I. apply E; [left; reflexivity|]. right. eapply stable_sort_In. exact I.
Qed.

Lemma order_agree cs rev lim t : order_causes cs lim t = [] -> forall fl fl', sem_order fl cs rev lim t = sem_order fl' cs rev lim t.
Proof.
  intros H fl fl'. unfold order_causes in H. apply app_eq_nil in H. destruct H as [H _]. apply if_nil in H.
  unfold sem_order. f_equal.
  rewrite (stable_sort_ext (row_le fl (cols t) (map (fun c => (c, mem c rev)) cs)) (row_le fl' (cols t) (map (fun c => (c, mem c rev)) cs))).
  - reflexivity.
  - intros x y Ix Iy. apply row_le_nonnull; eapply existsb_false_in; eassumption.
Qed.

(* ---------- windowed extend *)
Lemma window_sorted_agree fl fl' w t part :
  existsb (null_key (cols t) (w_order w)) (rows t) = false ->
  (forall ir, In ir part -> In (snd ir) (rows t)) ->
  stable_sort (fun a b : nat * list val => row_le fl (cols t) (map (fun c => (c, mem c (w_rev w))) (w_order w)) (snd a) (snd b)) part
  = stable_sort (fun a b => row_le fl' (cols t) (map (fun c => (c, mem c (w_rev w))) (w_order w)) (snd a) (snd b)) part.
Proof.
  intros N P. apply stable_sort_ext. intros x y Ix Iy.
  apply row_le_nonnull; eapply existsb_false_in; try exact N; apply P; assumption.
Qed.

Lemma window_agree fl0 w t x : window_causes fl0 w t x = [] -> forall fl, window_column fl w t x = window_column fl0 w t x.
Proof.
  intros H fl. unfold window_causes in H. apply app_eq_nil in H. destruct H as [Hs H]. apply if_nil in Hs.
  unfold window_column. apply flat_map_ext_in. intros k Ik.
  set (part := filter (fun ir : nat * list val => keys_eqv k (key_of (cols t) (w_part w) (snd ir))) (tag_from 0 (rows t))) in *.
  assert (forall ir, In ir part -> In (snd ir) (rows t)) as P.
  { intros ir I. apply filter_In in I. destruct I as [I _]. eapply tag_from_In. exact I. }
  rewrite (window_sorted_agree fl fl0 w t part Hs P).
  set (sorted := stable_sort _ part) in *.
  assert (forall ir, In ir sorted -> In (snd ir) (rows t)) as Q.
  { intros ir I. apply P. eapply stable_sort_In. exact I. }
  destruct (win_parts x) as [[[op arg] extra]|]; [|reflexivity].
  apply app_eq_nil in H. destruct H as [Ha Hg].
  pose proof (flat_map_nil _ _ Hg k Ik) as Hk. cbv zeta in Hk. fold part in Hk.
  apply app_eq_nil in Hk. destruct Hk as [Hw _].
  f_equal.
  change (win_fn fl op extra (map (fun ir => arg_value fl (cols t) arg (snd ir)) sorted)
          = win_fn fl0 op extra (map (fun ir => arg_value fl0 (cols t) arg (snd ir)) sorted)).
  rewrite (map_ext_in (fun ir => arg_value fl (cols t) arg (snd ir)) (fun ir => arg_value fl0 (cols t) arg (snd ir)) sorted).
  - apply win_stable. exact Hw.
  - intros ir I. apply arg_value_stable. apply (flat_map_nil _ _ Ha (snd ir)). apply Q. exact I.
Qed.

Lemma wextend_agree fl0 ops w t : wextend_causes fl0 ops w t = [] -> forall fl, sem_wextend fl ops w t = sem_wextend fl0 ops w t.
Proof.
  intros H fl. unfold sem_wextend.
  rewrite (map_ext_in (fun ke => (fst ke, window_column fl w t (snd ke))) (fun ke => (fst ke, window_column fl0 w t (snd ke))) ops).
  - reflexivity.
  - intros ke I. f_equal. apply window_agree. apply (flat_map_nil _ _ H ke I).
Qed.

(* ---------- joins *)
Lemma v_eqv_null a b : v_eqv a b = true -> is_null a = is_null b.
Proof. destruct a, b; simpl; intros; try discriminate; reflexivity. Qed.
Lemma keys_eqv_null ka kb : keys_eqv ka kb = true -> existsb is_null ka = existsb is_null kb.
Proof.
  revert kb. induction ka as [|x t IH]; intros [|y u]; simpl; intros H; try discriminate; [reflexivity|].
  apply andb_true_iff in H. destruct H as [H1 H2]. rewrite (v_eqv_null _ _ H1), (IH _ H2). reflexivity.
Qed.
Lemma key_null cs ks r : existsb is_null (key_of cs ks r) = null_key cs ks r.
Proof. unfold key_of, null_key. apply existsb_map. Qed.

Lemma keys_match_agree nm nm' ka kb : existsb is_null ka && existsb is_null kb = false -> keys_match nm ka kb = keys_match nm' ka kb.
Proof.
  unfold keys_match. intros H. destruct (keys_eqv ka kb) eqn:E; [|rewrite !andb_false_r; reflexivity].
  rewrite <- (keys_eqv_null _ _ E), andb_diag in H. rewrite H. simpl. rewrite !orb_true_r. reflexivity.
Qed.

Lemma join_agree on_a on_b jt a b : join_causes on_a on_b jt a b = [] -> forall nm nm', sem_join nm on_a on_b jt a b = sem_join nm' on_a on_b jt a b.
Proof.
  intros H nm nm'. unfold join_causes in H. apply if_nil in H.
  assert (forall ra rb, In ra (rows a) -> In rb (rows b) ->
            keys_match nm (key_of (cols a) on_a ra) (key_of (cols b) on_b rb) = keys_match nm' (key_of (cols a) on_a ra) (key_of (cols b) on_b rb)) as K.
  { intros ra rb Ia Ib. apply keys_match_agree. rewrite !key_null.
    apply andb_false_iff in H. destruct H as [H|H].
    - rewrite (existsb_false_in _ _ H ra Ia). reflexivity.
    - rewrite (existsb_false_in _ _ H rb Ib). apply andb_false_r. }
  unfold sem_join. f_equal. f_equal; [|f_equal].
  - apply flat_map_ext_in. intros ra Ia. apply flat_map_ext_in. intros rb Ib. rewrite (K ra rb Ia Ib). reflexivity.
  - destruct jt; try reflexivity; apply flat_map_ext_in; intros ra Ia;
      rewrite (existsb_ext_in _ (fun rb => keys_match nm' (key_of (cols a) on_a ra) (key_of (cols b) on_b rb)) (rows b));
      try reflexivity; intros rb Ib; apply K; assumption.
  - destruct jt; try reflexivity; apply flat_map_ext_in; intros rb Ib;
      rewrite (existsb_ext_in _ (fun ra => keys_match nm' (key_of (cols a) on_a ra) (key_of (cols b) on_b rb)) (rows a));
      try reflexivity; intros ra Ia; apply K; assumption.
Qed.
