(* PEXEC, part 1: the refinement relation, scratch-name freshness, and what each primitive model of Model/PdPrim.v does to
   the columns, the row widths and the cells read BY NAME.  All statements proved. *)
From Coq Require Import List Bool Arith ZArith QArith String Ascii Lia Permutation Sorted.
Import ListNotations.
From DA Require Import Base.PyRT Base.Val Model.Sem Model.PdPrim Model.PandasExec Proofs.SemBasicP Proofs.SemOrderP Proofs.ComposeP5.
Local Open Scope string_scope.
Local Open Scope list_scope.

(* ------------------------------------------------------------------ the relation "same table up to column order and row order" *)
(* t refines t' : some table v has the cells of t row for row (tab_eqv: same column SET, every row the same function from names to
   values) and the columns of t' with a permutation of the rows of t' *)
Definition refines (t t' : table) : Prop :=
  exists v, tab_eqv t v /\ cols v = cols t' /\ Permutation (rows v) (rows t').

Lemma same_set_sym (a b : list string) : same_set a b -> same_set b a.
Proof. intros S c. symmetry. apply S. Qed.
Lemma same_set_trans (a b c : list string) : same_set a b -> same_set b c -> same_set a c.
Proof. intros S1 S2 x. rewrite (S1 x). apply S2. Qed.

Lemma Forall2_sym {A B} (R : A -> B -> Prop) (R' : B -> A -> Prop) l1 l2 : (forall a b, R a b -> R' b a) -> Forall2 R l1 l2 -> Forall2 R' l2 l1.
Proof. intros H F. induction F; constructor; auto. Qed.
Lemma Forall2_trans {A B C} (R : A -> B -> Prop) (S : B -> C -> Prop) (T : A -> C -> Prop) l1 l2 l3 :
  (forall a b c, R a b -> S b c -> T a c) -> Forall2 R l1 l2 -> Forall2 S l2 l3 -> Forall2 T l1 l3.
Proof.
  intros H F. revert l3. induction F as [|a b l1 l2 Rab F IH]; intros l3 G; inversion G; subst; constructor; eauto.
Qed.

Lemma tab_eqv_sym t u : tab_eqv t u -> tab_eqv u t.
Proof. intros [S F]. split; [apply same_set_sym, S|]. eapply Forall2_sym; [|exact F]. intros a b R c. symmetry. apply R. Qed.
Lemma tab_eqv_trans t u v : tab_eqv t u -> tab_eqv u v -> tab_eqv t v.
Proof.
  intros [S1 F1] [S2 F2]. split; [eapply same_set_trans; eassumption|].
  eapply Forall2_trans; [|exact F1|exact F2]. intros a b c R1 R2 x. rewrite (R1 x). apply R2.
Qed.

(* a permutation on one side of a Forall2 can be moved to the other side *)
Lemma Forall2_perm_l {A B} (R : A -> B -> Prop) l1 l1' l2 :
  Permutation l1 l1' -> Forall2 R l1 l2 -> exists l2', Permutation l2 l2' /\ Forall2 R l1' l2'.
Proof.
  intros P. revert l2. induction P as [|x l l' P IH|x y l|l l' l'' P1 IH1 P2 IH2]; intros l2 F.
  - inversion F; subst. exists []. split; constructor.
  - inversion F as [|? b ? l2t Rxb Ft]; subst. destruct (IH _ Ft) as [m [Pm Fm]].
    exists (b :: m). split; [apply perm_skip, Pm|constructor; assumption].
  - inversion F as [|? b ? l2t Ryb Ft]; subst. inversion Ft as [|? c ? l2u Rxc Fu]; subst.
    exists (c :: b :: l2u). split; [apply perm_swap|repeat constructor; assumption].
  - destruct (IH1 _ F) as [m [Pm Fm]]. destruct (IH2 _ Fm) as [m' [Pm' Fm']].
    exists m'. split; [eapply perm_trans; eassumption|exact Fm'].
Qed.

Lemma refines_refl t : refines t t.
Proof. exists t. split; [apply tab_eqv_refl|]. split; [reflexivity|apply Permutation_refl]. Qed.
Lemma refines_of_eqv t u : tab_eqv t u -> refines t u.
Proof. intros E. exists u. split; [exact E|]. split; [reflexivity|apply Permutation_refl]. Qed.
Lemma refines_of_perm t u : cols t = cols u -> Permutation (rows t) (rows u) -> refines t u.
Proof. intros C P. exists t. split; [apply tab_eqv_refl|]. split; assumption. Qed.

Lemma refines_trans t u w : refines t u -> refines u w -> refines t w.
Proof.
  intros [v [E1 [C1 P1]]] [v' [E2 [C2 P2]]].
  (* v has the rows of u permuted; transport u ~ v' along that permutation *)
  destruct E2 as [S2 F2].
  destruct (Forall2_perm_l _ _ _ _ (Permutation_sym P1) F2) as [m [Pm Fm]].
  exists (mktable (cols v') m). split; [|split].
  - eapply tab_eqv_trans; [exact E1|]. split; cbn [cols rows]; [rewrite C1; exact S2|]. rewrite C1. exact Fm.
  - exact C2.
  - cbn [rows]. eapply perm_trans; [apply Permutation_sym, Pm|exact P2].
Qed.

Lemma Forall2_len {A B} (R : A -> B -> Prop) l1 l2 : Forall2 R l1 l2 -> List.length l1 = List.length l2.
Proof. induction 1; simpl; congruence. Qed.
Lemma refines_same_set t u : refines t u -> same_set (cols t) (cols u).
Proof. intros [v [[S _] [C _]]]. rewrite <- C. exact S. Qed.
Lemma refines_row_count t u : refines t u -> List.length (rows t) = List.length (rows u).
Proof. intros [v [[_ F] [_ P]]]. rewrite (Forall2_len _ _ _ F). apply Permutation_length, P. Qed.

(* ------------------------------------------------------------------ sorting routines *)
Definition sorter_ok (srt : sorter) : Prop :=
  forall (le : list val -> list val -> bool) l,
    (forall a b, le a b = true \/ le b a = true) -> (forall a b c, le a b = true -> le b c = true -> le a c = true) ->
    Permutation (srt le l) l /\ StronglySorted (fun a b => le a b = true) (srt le l).
Lemma stable_sorter_ok : sorter_ok stable_sorter.
Proof. intros le l T R. split; [apply stable_sort_perm|apply stable_sort_sorted; assumption]. Qed.

Lemma sorted_transfer {A B} (R : A -> B -> Prop) (le : A -> A -> bool) (le' : B -> B -> bool) l l' :
  (forall a a' b b', R a a' -> R b b' -> le a b = le' a' b') -> Forall2 R l l' ->
  StronglySorted (fun a b => le a b = true) l -> StronglySorted (fun a b => le' a b = true) l'.
Proof.
  intros H F. induction F as [|a a' l l' Ra F IH]; intros S; [constructor|]. inversion S as [|? ? St Fa]; subst.
  constructor; [apply IH, St|]. clear IH St S. induction F as [|b b' l l' Rb F IH]; constructor.
  - inversion Fa; subst. rewrite <- (H _ _ _ _ Ra Rb). assumption.
  - apply IH. inversion Fa; assumption.
Qed.


Lemma nodup_names_sound l : nodup_names l = true -> NoDup l.
Proof.
  induction l as [|x t IH]; simpl; intros H; [constructor|]. apply andb_true_iff in H. destruct H as [N H].
  constructor; [apply mem_false, negb_true_iff, N|apply IH, H].
Qed.


(* ------------------------------------------------------------------ scratch names never capture *)
Fixpoint prefixed (n : nat) (s : string) : string := match n with O => s | S k => prefixed k (sapp "_" s) end.
Lemma prefixed_length n s : String.length (prefixed n s) = (n + String.length s)%nat.
Proof. revert s. induction n as [|n IH]; intros s; simpl; [reflexivity|]. rewrite IH. simpl. lia. Qed.

Lemma unused_from_spec fuel name taken :
  (exists j, (j < fuel)%nat /\ ~ In (prefixed j name) taken) -> ~ In (unused_from fuel name taken) taken.
Proof.
  revert name. induction fuel as [|k IH]; intros name [j [Lj Nj]]; [lia|].
  simpl. destruct (mem name taken) eqn:M.
  - apply IH. destruct j as [|j]; [simpl in Nj; apply mem_In in M; contradiction|].
    exists j. split; [lia|exact Nj].
  - apply mem_false. exact M.
Qed.

Lemma NoDup_prefixed name n : NoDup (map (fun j => prefixed j name) (seq 0 n)).
Proof.
  apply FinFun.Injective_map_NoDup; [|apply seq_NoDup].
  intros a b E. apply (f_equal String.length) in E. rewrite !prefixed_length in E. lia.
Qed.

(* _unused_column_name returns a name that is none of the names in use: no user column is overwritten, dropped or captured *)
Lemma unused_column_name_fresh base taken : ~ In (unused_column_name base taken) taken.
Proof.
  unfold unused_column_name. apply unused_from_spec.
  destruct (Exists_dec (fun j => ~ In (prefixed j base) taken) (seq 0 (S (List.length taken)))) as [E|N].
  - intros j. destruct (in_dec string_dec (prefixed j base) taken); [right; tauto|left; assumption].
  - apply Exists_exists in E. destruct E as [j [Ij Nj]]. apply in_seq in Ij. exists j. split; [lia|exact Nj].
  - exfalso.
    assert (incl (map (fun j => prefixed j base) (seq 0 (S (List.length taken)))) taken) as I.
    { intros x Ix. apply in_map_iff in Ix. destruct Ix as [j [<- Ij]].
      destruct (in_dec string_dec (prefixed j base) taken) as [i|n]; [exact i|].
      exfalso. apply N. apply Exists_exists. exists j. split; assumption. }
    pose proof (NoDup_incl_length (NoDup_prefixed base (S (List.length taken))) I) as L.
    rewrite map_length, seq_length in L. lia.
Qed.

Lemma sapp_length a b : String.length (sapp a b) = (String.length a + String.length b)%nat.
Proof. unfold sapp. induction a as [|c a IH]; simpl; [reflexivity|]. rewrite IH. reflexivity. Qed.

Lemma fold_max_ge (l : list nat) : forall a x, (In x l \/ x <= a)%nat -> (x <= fold_left Nat.max l a)%nat.
Proof.
  induction l as [|y t IH]; intros a x H; simpl.
  - destruct H as [[]|H]; exact H.
  - apply IH. destruct H as [[->|I]|H]; [right; lia|left; exact I|right; lia].
Qed.
Lemma max_len_ge names x : In x names -> (String.length x <= max_len names)%nat.
Proof. intros I. unfold max_len. apply fold_max_ge. left. apply in_map. exact I. Qed.

(* the suffix given to the right copies: no suffixed shared name is a name in use *)
Lemma suffix_from_spec fuel sfx common names :
  (max_len names < fuel + String.length sfx)%nat ->
  forall c, In c common -> ~ In (sapp c (suffix_from fuel sfx common names)) names.
Proof.
  revert sfx. induction fuel as [|k IH]; intros sfx L c Ic I.
  - simpl in I. apply max_len_ge in I. rewrite sapp_length in I. lia.
  - simpl in I. destruct (existsb (fun c0 => mem (sapp c0 sfx) names) common) eqn:E.
    + revert I. apply IH; [|exact Ic]. rewrite sapp_length. simpl. lia.
    + assert (existsb (fun c0 => mem (sapp c0 sfx) names) common = true) as E'; [|congruence].
      apply existsb_exists. exists c. split; [exact Ic|]. apply mem_In. exact I.
Qed.
Lemma right_suffix_fresh common names c : In c common -> ~ In (sapp c (right_suffix common names)) names.
Proof. intros I. apply suffix_from_spec; [lia|exact I]. Qed.

(* ------------------------------------------------------------------ reading rows by name *)
Lemma mem_true_In (x : string) l : mem x l = true -> In x l.
Proof. apply mem_In. Qed.

Lemma get_app_l ca cb (ra rb : list val) c : List.length ra = List.length ca -> In c ca -> get (ca ++ cb) (ra ++ rb) c = get ca ra c.
Proof.
  intros L I. unfold get. destruct (index_of_In c ca I) as [i E]. rewrite (index_of_app_l _ _ _ _ E), E.
  apply app_nth1. rewrite L. eapply index_of_lt; eassumption.
Qed.
Lemma index_of_app_r c ca cb : ~ In c ca -> index_of c (ca ++ cb) = option_map (fun j => (List.length ca + j)%nat) (index_of c cb).
Proof.
  induction ca as [|x t IH]; intros N; simpl.
  - destruct (index_of c cb); reflexivity.
  - destruct (eq_dec c x) as [->|n]; [exfalso; apply N; left; reflexivity|].
    rewrite IH by (intros I; apply N; right; exact I). destruct (index_of c cb); reflexivity.
Qed.
Lemma get_app_r ca cb (ra rb : list val) c : List.length ra = List.length ca -> ~ In c ca -> get (ca ++ cb) (ra ++ rb) c = get cb rb c.
Proof.
  intros L N. unfold get. rewrite (index_of_app_r _ _ _ N). destruct (index_of c cb) as [j|]; simpl; [|reflexivity].
  rewrite app_nth2 by lia. f_equal. lia.
Qed.

(* a row of a well-shaped table is determined by its cells *)
Lemma row_ext cs (r1 r2 : list val) :
  NoDup cs -> List.length r1 = List.length cs -> List.length r2 = List.length cs ->
  (forall c, In c cs -> get cs r1 c = get cs r2 c) -> r1 = r2.
Proof.
  revert r1 r2. induction cs as [|x t IH]; intros r1 r2 N L1 L2 H.
  - destruct r1, r2; simpl in *; try discriminate; reflexivity.
  - destruct r1 as [|a r1], r2 as [|b r2]; simpl in *; try discriminate.
    inversion N as [|? ? Nx Nt]; subst. f_equal.
    + specialize (H x (or_introl eq_refl)). unfold get in H. simpl in H. destruct (eq_dec x x); [exact H|congruence].
    + apply IH; [exact Nt|lia|lia|]. intros c Ic. specialize (H c (or_intror Ic)). unfold get in *. simpl in H.
      destruct (eq_dec c x) as [->|n]; [contradiction|]. destruct (index_of c t); simpl in H; exact H.
Qed.
Lemma select_all_id cs (r : list val) : NoDup cs -> List.length r = List.length cs -> map (get cs r) cs = r.
Proof.
  intros N L. apply (row_ext cs); [exact N|rewrite map_length; reflexivity|exact L|].
  intros c I. rewrite get_map_cols. apply mem_In in I. rewrite I. reflexivity.
Qed.
Lemma select_cols_self t : NoDup (cols t) -> width_ok t -> sem_select_cols (cols t) t = t.
Proof.
  intros N W. unfold sem_select_cols. destruct t as [cs rs]. cbn [cols rows] in *. f_equal.
  unfold width_ok in W. cbn [cols rows] in W. induction W as [|r rs Lr W IH]; simpl; [reflexivity|].
  rewrite IH, (select_all_id cs r N Lr). reflexivity.
Qed.

(* ------------------------------------------------------------------ the primitives: columns, widths, cells *)
Lemma width_set_scalar c v t : width_ok t -> width_ok (pd_set_scalar c v t).
Proof.
  unfold width_ok, pd_set_scalar. cbn [cols rows]. intros W. apply Forall_forall. intros r I. apply in_map_iff in I.
  destruct I as [r0 [<- I0]]. apply set_cell_length. rewrite Forall_forall in W. apply W, I0.
Qed.
Lemma rows_set_scalar c v t : List.length (rows (pd_set_scalar c v t)) = List.length (rows t).
Proof. unfold pd_set_scalar. cbn [rows]. apply map_length. Qed.

Lemma set_scalar_row_eqv c v t :
  width_ok t ->
  Forall2 (fun r' r => forall x, get (add_end (cols t) c) r' x = if eq_dec x c then v else get (cols t) r x)
          (rows (pd_set_scalar c v t)) (rows t).
Proof.
  intros W. unfold pd_set_scalar. cbn [rows]. unfold width_ok in W. induction W as [|r rs L W IH]; simpl; constructor; [|exact IH].
  intros x. apply set_cell_get. exact L.
Qed.

Lemma pd_set_col_inv c vs t u : pd_set_col c vs t = Some u ->
  List.length vs = List.length (rows t) /\ cols u = add_end (cols t) c /\
  rows u = map (fun rv => set_cell (cols t) (fst rv) c (snd rv)) (combine (rows t) vs).
Proof.
  unfold pd_set_col, nrows. destruct (Nat.eqb (List.length vs) (List.length (rows t))) eqn:E; [|discriminate].
  intros H. inversion H; subst. apply Nat.eqb_eq in E. cbn [cols rows]. auto.
Qed.
Lemma width_set_col c vs t u : width_ok t -> pd_set_col c vs t = Some u -> width_ok u.
Proof.
  intros W H. destruct (pd_set_col_inv _ _ _ _ H) as [L [C R]]. unfold width_ok. rewrite C, R.
  apply Forall_forall. intros r I. apply in_map_iff in I. destruct I as [[r0 v0] [<- I0]]. cbn [fst snd].
  apply set_cell_length. apply in_combine_l in I0. unfold width_ok in W. rewrite Forall_forall in W. apply W, I0.
Qed.
Lemma set_col_rows c vs t u : width_ok t -> pd_set_col c vs t = Some u ->
  forall i r, nth_error (rows t) i = Some r ->
    exists r', nth_error (rows u) i = Some r' /\
               forall x, get (cols u) r' x = if eq_dec x c then nth i vs VNull else get (cols t) r x.
Proof.
  intros W H i r Hi. destruct (pd_set_col_inv _ _ _ _ H) as [L [C R]].
  assert (nth_error (combine (rows t) vs) i = Some (r, nth i vs VNull)) as Hc.
  { clear H C R W. revert i vs L Hi. generalize (rows t) as rs. induction rs as [|a rs IH]; intros i vs L Hi; [destruct i; discriminate|].
    destruct vs as [|v vs]; [discriminate|]. destruct i as [|i]; simpl in *; [inversion Hi; reflexivity|]. apply IH; [lia|exact Hi]. }
  exists (set_cell (cols t) r c (nth i vs VNull)). split.
  - rewrite R. rewrite (map_nth_error _ _ _ Hc). reflexivity.
  - intros x. rewrite C. apply set_cell_get. unfold width_ok in W. rewrite Forall_forall in W. apply W. eapply nth_error_In; eassumption.
Qed.

Lemma pd_select_inv cs t u : pd_select cs t = Some u -> u = sem_select_cols cs t /\ (forall c, In c cs -> In c (cols t)).
Proof.
  unfold pd_select. destruct (subset cs (cols t)) eqn:E; [|discriminate]. intros H. inversion H. split; [reflexivity|].
  apply subset_spec. exact E.
Qed.
Lemma pd_del_inv c t u : pd_del c t = Some u -> u = sem_select_cols (remove_elem c (cols t)) t /\ In c (cols t).
Proof. unfold pd_del. destruct (mem c (cols t)) eqn:E; [|discriminate]. intros H. inversion H. split; [reflexivity|]. apply mem_In, E. Qed.
Lemma pd_col_inv c t vs : pd_col c t = Some vs -> vs = getcol t c /\ In c (cols t).
Proof. unfold pd_col. destruct (mem c (cols t)) eqn:E; [|discriminate]. intros H. inversion H. split; [reflexivity|]. apply mem_In, E. Qed.

Lemma width_select cs t : width_ok (sem_select_cols cs t).
Proof. apply width_select_cols. Qed.

Lemma mem_remove_elem (x c : string) l : mem x (remove_elem c l) = mem x l && negb (eqb c x).
Proof.
  destruct (mem x (remove_elem c l)) eqn:E.
  - apply mem_In, In_remove_elem in E. destruct E as [I N]. apply mem_In in I. rewrite I. unfold eqb. destruct (eq_dec c x); [congruence|reflexivity].
  - destruct (mem x l) eqn:I; [|reflexivity]. unfold eqb. destruct (eq_dec c x) as [->|n]; [reflexivity|].
    exfalso. apply mem_false in E. apply E. apply In_remove_elem. split; [apply mem_In, I|congruence].
Qed.

(* deleting a column leaves every other cell in place *)
Lemma del_tab_eqv c t : ~ In c (cols t) -> forall t0, tab_eqv t0 t -> tab_eqv (sem_select_cols (remove_elem c (cols t0)) t0) t.
Proof.
  intros N t0 [S F]. split; cbn [cols rows sem_select_cols].
  - intros x. rewrite In_remove_elem, (S x). split; [tauto|]. intros I. split; [exact I|]. intros ->. contradiction.
  - rewrite <- (map_id (rows t)). eapply Forall2_map; [exact F|]. intros r0 r R x. rewrite get_map_cols, mem_remove_elem.
    unfold eqb. destruct (eq_dec c x) as [<-|n].
    + rewrite andb_false_r. symmetry. apply get_absent. exact N.
    + rewrite andb_true_r. destruct (mem x (cols t0)) eqn:M; [apply R|].
      apply mem_false in M. rewrite <- (R x). symmetry. apply get_absent. exact M.
Qed.
