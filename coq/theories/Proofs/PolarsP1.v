(* C03, part 1: the result monad, the expression translation of Model/PolarsExec.v against the Pandas-flavoured scalar
   semantics of Model/Sem.v, and order-independence of the aggregates. *)
From Coq Require Import List Bool Arith ZArith QArith Qreduction String Lia Permutation.
Import ListNotations.
From DA Require Import Base.PyRT Base.PyStr Base.Val Model.Sem Model.PolarsExec Proofs.SemOrderP.
Local Open Scope string_scope.
Local Open Scope list_scope.

(* ------------------------------------------------------------------ res *)
Lemma rbind_ok {A B} (x : res A) (f : A -> res B) y : rbind x f = Ok y -> exists a, x = Ok a /\ f a = Ok y.
Proof. destruct x; simpl; intros H; try discriminate. eauto. Qed.

Lemma nodupb_NoDup l : nodupb l = true -> NoDup l.
Proof.
  induction l as [|x t IH]; simpl; intros H; [constructor|].
  apply andb_true_iff in H. destruct H as [H1 H2]. constructor; [|auto].
  apply negb_true_iff in H1. apply mem_false in H1. exact H1.
Qed.

Lemma pl_select_ok cs t t2 : pl_select cs t = Ok t2 ->
  t2 = sem_select_cols cs t /\ NoDup cs /\ (forall c, In c cs -> In c (cols t)).
Proof.
  unfold pl_select. destruct (forallb _ cs && nodupb cs) eqn:E; [|discriminate]. intros H. inversion H; subst.
  apply andb_true_iff in E. destruct E as [E1 E2]. split; [reflexivity|]. split; [apply nodupb_NoDup, E2|].
  intros c I. rewrite forallb_forall in E1. apply mem_In. apply E1. exact I.
Qed.

(* ------------------------------------------------------------------ induction over expressions *)
Section ExprInd.
  Variable P : expr -> Prop.
  Hypothesis Hc : forall c, P (ECol c).
  Hypothesis Hv : forall v, P (EConst v).
  Hypothesis Ho : forall op args, Forall P args -> P (EOp op args).
  Fixpoint expr_ind2 (e : expr) : P e :=
    match e with
    | ECol c => Hc c
    | EConst v => Hv v
    | EOp op args => Ho op args ((fix go (l : list expr) : Forall P l :=
                                    match l with [] => Forall_nil P | a :: t => Forall_cons a (expr_ind2 a) (go t) end) args)
    end.
End ExprInd.

Fixpoint tr_list (one : string) (ext : bool) (l : list expr) : res (list plx) :=
  match l with [] => Ok [] | a :: t => rbind (tr_expr one ext a) (fun x => rbind (tr_list one ext t) (fun xs => Ok (x :: xs))) end.
Lemma tr_expr_op one ext op args : tr_expr one ext (EOp op args) = rbind (tr_list one ext args) (impl one ext op).
Proof. cbn [tr_expr]. f_equal. induction args as [|a t IH]; simpl; [reflexivity|]. rewrite IH. reflexivity. Qed.
Lemma eval_expr_op fl cs r op args : eval_expr fl cs r (EOp op args) = scalar_op fl op (map (eval_expr fl cs r) args).
Proof. reflexivity. Qed.
Lemma expr_vocab_op op args : expr_vocab (EOp op args) = scalar_vocab op (List.length args) && forallb expr_vocab args.
Proof. reflexivity. Qed.
Lemma expr_nulls_ok_op sens cs r op args :
  expr_nulls_ok sens cs r (EOp op args) =
  forallb (expr_nulls_ok sens cs r) args && (if sens op then forallb (fun a => negb (is_null (eval_expr fl_pandas cs r a))) args else true).
Proof. reflexivity. Qed.
Lemma expr_cols_op op args : expr_cols (EOp op args) = flat_map expr_cols args.
Proof. reflexivity. Qed.
Lemma expr_nodes_op op args : expr_nodes (EOp op args) = (op, List.length args) :: flat_map expr_nodes args.
Proof. reflexivity. Qed.

(* ------------------------------------------------------------------ scalar facts *)
Lemma qn_eq x y : x == y -> qn x = qn y.
Proof. intros E. unfold qn. f_equal. apply Qred_complete. exact E. Qed.

Lemma num_of_qn q : num_of (qn q) = Some (Qred q).
Proof. reflexivity. Qed.

Lemma neg_as_sub v : num2 Qminus (qn (inject_Z 0)) v = match num_of v with Some x => qn (Qopp x) | None => VNull end.
Proof.
  unfold num2. rewrite num_of_qn. destruct (num_of v) as [x|]; [|reflexivity].
  apply qn_eq. rewrite Qred_correct. unfold inject_Z. ring.
Qed.

Lemma and3_nonnull a b : is_null a = false -> is_null b = false -> and3 a b = VBool (truth a && truth b).
Proof. intros Ha Hb. unfold and3. rewrite Ha, Hb. simpl. destruct (truth a), (truth b); reflexivity. Qed.
Lemma or3_nonnull a b : is_null a = false -> is_null b = false -> or3 a b = VBool (truth a || truth b).
Proof. intros Ha Hb. unfold or3. rewrite Ha, Hb. simpl. destruct (truth a), (truth b); reflexivity. Qed.
Lemma pl_cmp_nonnull c a b : is_null a = false -> is_null b = false -> pl_cmp c a b = compare_vals fl_pandas c a b.
Proof. destruct a, b; simpl; intros; try discriminate; reflexivity. Qed.
(* maximum / minimum after 73dee51: missing if any operand is missing, else the horizontal maximum / minimum *)
Lemma missing_if_any_eq f a b :
  pl_when (or3 (VBool (is_null a)) (VBool (is_null b))) VNull (ignore_null2 f a b) = num2 f a b.
Proof. destruct a as [|[]| | |], b as [|[]| | |]; reflexivity. Qed.
Lemma is_bad_as_or v : or3 (or3 (VBool (is_null v)) (pl_nan_like v)) (pl_nan_like v) = VBool (is_null v).
Proof. destruct v; reflexivity. Qed.

(* ------------------------------------------------------------------ the expression translation is sound *)
Definition nulls_ok3 (cs : list string) (r : list val) (e : expr) : Prop :=
  expr_nulls_ok is_cmp_op cs r e = true /\ expr_nulls_ok is_logic_op cs r e = true.

Definition expr_agrees (e : expr) : Prop :=
  exists x, (forall one ext, tr_expr one ext e = Ok x) /\
            forall cs rs i, nulls_ok3 cs (nth i rs []) e -> plx_at cs rs i x = eval_expr fl_pandas cs (nth i rs []) e.

Lemma nulls_ok3_args cs r op args : nulls_ok3 cs r (EOp op args) -> Forall (nulls_ok3 cs r) args.
Proof.
  unfold nulls_ok3. rewrite !expr_nulls_ok_op. intros [H1 H2].
  apply andb_true_iff in H1, H2. destruct H1 as [H1 _], H2 as [H2 _].
  rewrite forallb_forall in H1, H2. apply Forall_forall. intros a I. auto.
Qed.

Lemma nulls_ok3_sens cs r op args : nulls_ok3 cs r (EOp op args) ->
  (is_cmp_op op || is_logic_op op = true) -> Forall (fun a => is_null (eval_expr fl_pandas cs r a) = false) args.
Proof.
  unfold nulls_ok3. rewrite !expr_nulls_ok_op. intros [H1 H2] S.
  apply andb_true_iff in H1, H2. destruct H1 as [_ H1], H2 as [_ H2].
  apply Forall_forall. intros a I. apply negb_true_iff.
  destruct (is_cmp_op op); [rewrite forallb_forall in H1; auto|].
  destruct (is_logic_op op); [rewrite forallb_forall in H2; auto|]. discriminate.
Qed.

Ltac split_mem H :=
  cbn [mem] in H;
  repeat match type of H with
         | context [eq_dec ?a ?b] => destruct (eq_dec a b) as [->|_]
         end.

Ltac inv_forall :=
  repeat match goal with
         | H : Forall _ (_ :: _) |- _ => let A := fresh "HA" in let B := fresh "HB" in apply Forall_cons_iff in H; destruct H as [A B]
         | H : Forall _ [] |- _ => clear H
         end.

Ltac use_agrees :=
  repeat match goal with
         | H : expr_agrees _ |- _ => let x := fresh "x" in let T := fresh "T" in let E := fresh "E" in destruct H as [x [T E]]
         end.

Lemma tr_expr_sound e : expr_vocab e = true -> expr_agrees e.
Proof.
  induction e as [c|v|op args IH] using expr_ind2; intros V.
  - exists (PCol c). split; [reflexivity|]. intros; reflexivity.
  - exists (PLit v). split; [reflexivity|]. intros; reflexivity.
  - rewrite expr_vocab_op in V. apply andb_true_iff in V. destruct V as [V1 V2].
    assert (Forall expr_agrees args) as A.
    { rewrite Forall_forall in IH. apply Forall_forall. intros a I. apply IH; [exact I|]. rewrite forallb_forall in V2. auto. }
    clear IH V2.
    destruct args as [|a [|b [|c [|d rest]]]]; cbn [List.length scalar_vocab] in V1; try discriminate.
    + (* unary *)
      inv_forall. use_agrees. split_mem V1; try discriminate.
      * exists (PSub (lit_int 0) x). split; [intros one ext; rewrite tr_expr_op; cbn [tr_list]; rewrite T; reflexivity|].
        intros cs rs i G. pose proof (nulls_ok3_args _ _ _ _ G) as GA. inv_forall.
        rewrite eval_expr_op. cbn [map plx_at lit_int]. rewrite (E cs rs i HA). apply neg_as_sub.
      * exists (PAbs x). split; [intros one ext; rewrite tr_expr_op; cbn [tr_list]; rewrite T; reflexivity|].
        intros cs rs i G. pose proof (nulls_ok3_args _ _ _ _ G) as GA. inv_forall.
        rewrite eval_expr_op. cbn [map plx_at]. rewrite (E cs rs i HA). reflexivity.
      * exists (PIsNull x). split; [intros one ext; rewrite tr_expr_op; cbn [tr_list]; rewrite T; reflexivity|].
        intros cs rs i G. pose proof (nulls_ok3_args _ _ _ _ G) as GA. inv_forall.
        rewrite eval_expr_op. cbn [map plx_at]. rewrite (E cs rs i HA). reflexivity.
      * exists (POr (POr (PIsNull x) (PIsInf x)) (PIsNan x)). split; [intros one ext; rewrite tr_expr_op; cbn [tr_list]; rewrite T; reflexivity|].
        intros cs rs i G. pose proof (nulls_ok3_args _ _ _ _ G) as GA. inv_forall.
        rewrite eval_expr_op. cbn [map plx_at]. rewrite (E cs rs i HA). apply is_bad_as_or.
    + (* binary *)
      inv_forall. use_agrees. split_mem V1; try discriminate.
      all: match goal with
           | |- expr_agrees (EOp ?o _) =>
               eexists; split; [intros one ext; rewrite tr_expr_op; cbn [tr_list]; rewrite T, T0; cbn; reflexivity|];
               intros cs rs i G; pose proof (nulls_ok3_args _ _ _ _ G) as GA; inv_forall;
               rewrite eval_expr_op; cbn [map plx_at missing_if_any_missing any_null fold_left]; rewrite !(E cs rs i), !(E0 cs rs i) by assumption;
               try reflexivity;
               try (cbn [scalar_op f_minmax_ignore_null fl_pandas]; apply missing_if_any_eq);
               try (pose proof (nulls_ok3_sens _ _ _ _ G eq_refl) as NN; inv_forall;
                    first [ apply pl_cmp_nonnull; assumption
                          | cbn [scalar_op f_logic3 fl_pandas]; apply and3_nonnull; assumption
                          | cbn [scalar_op f_logic3 fl_pandas]; apply or3_nonnull; assumption ])
           end.
    + (* if_else *)
      inv_forall. use_agrees. split_mem V1; try discriminate.
      eexists; split; [intros one ext; rewrite tr_expr_op; cbn [tr_list]; rewrite T, T0, T1; cbn; reflexivity|].
      intros cs rs i G. pose proof (nulls_ok3_args _ _ _ _ G) as GA. inv_forall.
      rewrite eval_expr_op. cbn [map plx_at]. rewrite (E cs rs i), (E0 cs rs i), (E1 cs rs i) by assumption.
      cbn [scalar_op]. unfold pl_when. cbn [truth]. destruct (is_null _); reflexivity.
Qed.

(* ------------------------------------------------------------------ sums and aggregates do not depend on the order of the values *)
Lemma qsum_acc l a : fold_left Qplus l a == a + qsum l.
Proof.
  unfold qsum. revert a. induction l as [|x t IH]; intros a; simpl; [ring|].
  rewrite IH. rewrite (IH (0 + x)). ring.
Qed.
Lemma qsum_cons x l : qsum (x :: l) == x + qsum l.
Proof. unfold qsum at 1. simpl. rewrite qsum_acc. ring. Qed.
Lemma qsum_perm l l' : Permutation l l' -> qsum l == qsum l'.
Proof.
  induction 1 as [|x l l' P IH|x y l|l l' l'' P1 IH1 P2 IH2].
  - reflexivity.
  - rewrite !qsum_cons, IH. reflexivity.
  - rewrite !qsum_cons. ring.
  - rewrite IH1. exact IH2.
Qed.
Lemma nums_perm vs vs' : Permutation vs vs' -> Permutation (nums vs) (nums vs').
Proof. unfold nums. apply perm_flat_map. Qed.

(* minimum / maximum of a non-empty list: characterised, hence unique up to == *)
Lemma qmin_le_l x y : qmin x y <= x.
Proof. unfold qmin. destruct (Qle_bool x y) eqn:E; [apply Qle_refl|]. destruct (Qlt_le_dec x y) as [h|h]; [|exact h]. apply Qlt_le_weak in h. apply Qle_bool_iff in h. congruence. Qed.
Lemma qmin_le_r x y : qmin x y <= y.
Proof. unfold qmin. destruct (Qle_bool x y) eqn:E; [apply Qle_bool_iff, E|apply Qle_refl]. Qed.
Lemma qmin_either x y : qmin x y = x \/ qmin x y = y.
Proof. unfold qmin. destruct (Qle_bool x y); auto. Qed.
Lemma qmax_ge_l x y : x <= qmax x y.
Proof. unfold qmax. destruct (Qle_bool x y) eqn:E; [apply Qle_bool_iff, E|apply Qle_refl]. Qed.
Lemma qmax_ge_r x y : y <= qmax x y.
Proof. unfold qmax. destruct (Qle_bool x y) eqn:E; [apply Qle_refl|]. destruct (Qlt_le_dec y x) as [h|h]; [apply Qlt_le_weak, h|]. apply Qle_bool_iff in h. congruence. Qed.
Lemma qmax_either x y : qmax x y = x \/ qmax x y = y.
Proof. unfold qmax. destruct (Qle_bool x y); auto. Qed.

Lemma fold_min_spec t x : let r := fold_left qmin t x in In r (x :: t) /\ forall y, In y (x :: t) -> r <= y.
Proof.
  revert x. induction t as [|a t IH]; intros x; cbn zeta; simpl.
  - split; [left; reflexivity|]. intros y [<-|[]]. apply Qle_refl.
  - destruct (IH (qmin x a)) as [I L]. cbn zeta in I, L. split.
    + destruct I as [I|I]; [|right; right; exact I]. rewrite <- I. destruct (qmin_either x a) as [->| ->]; [left|right; left]; reflexivity.
    + intros y [<-|[<-|Iy]].
      * eapply Qle_trans; [apply L; left; reflexivity|apply qmin_le_l].
      * eapply Qle_trans; [apply L; left; reflexivity|apply qmin_le_r].
      * apply L. right. exact Iy.
Qed.
Lemma fold_max_spec t x : let r := fold_left qmax t x in In r (x :: t) /\ forall y, In y (x :: t) -> y <= r.
Proof.
  revert x. induction t as [|a t IH]; intros x; cbn zeta; simpl.
  - split; [left; reflexivity|]. intros y [<-|[]]. apply Qle_refl.
  - destruct (IH (qmax x a)) as [I L]. cbn zeta in I, L. split.
    + destruct I as [I|I]; [|right; right; exact I]. rewrite <- I. destruct (qmax_either x a) as [->| ->]; [left|right; left]; reflexivity.
    + intros y [<-|[<-|Iy]].
      * eapply Qle_trans; [apply qmax_ge_l|apply L; left; reflexivity].
      * eapply Qle_trans; [apply qmax_ge_r|apply L; left; reflexivity].
      * apply L. right. exact Iy.
Qed.

Lemma opt_min_perm l l' : Permutation l l' -> opt_num (qfold1 qmin l) = opt_num (qfold1 qmin l').
Proof.
  intros P. destruct l as [|x t], l' as [|x' t']; simpl.
  - reflexivity.
  - apply Permutation_nil in P. discriminate.
  - apply Permutation_sym, Permutation_nil in P. discriminate.
  - destruct (fold_min_spec t x) as [I L], (fold_min_spec t' x') as [I' L']. cbn zeta in *.
    apply qn_eq. apply Qle_antisym.
    + apply L. eapply Permutation_in; [apply Permutation_sym, P|exact I'].
    + apply L'. eapply Permutation_in; [apply P|exact I].
Qed.
Lemma opt_max_perm l l' : Permutation l l' -> opt_num (qfold1 qmax l) = opt_num (qfold1 qmax l').
Proof.
  intros P. destruct l as [|x t], l' as [|x' t']; simpl.
  - reflexivity.
  - apply Permutation_nil in P. discriminate.
  - apply Permutation_sym, Permutation_nil in P. discriminate.
  - destruct (fold_max_spec t x) as [I L], (fold_max_spec t' x') as [I' L']. cbn zeta in *.
    apply qn_eq. apply Qle_antisym.
    + apply L'. eapply Permutation_in; [apply P|exact I].
    + apply L. eapply Permutation_in; [apply Permutation_sym, P|exact I'].
Qed.

Lemma mean_perm l l' : Permutation l l' ->
  match l with [] => VNull | _ => qn (Qdiv (qsum l) (inject_Z (Z.of_nat (List.length l)))) end =
  match l' with [] => VNull | _ => qn (Qdiv (qsum l') (inject_Z (Z.of_nat (List.length l')))) end.
Proof.
  intros P. destruct l as [|x t], l' as [|x' t'].
  - reflexivity.
  - apply Permutation_nil in P. discriminate.
  - apply Permutation_sym, Permutation_nil in P. discriminate.
  - apply qn_eq. rewrite (qsum_perm _ _ P), (Permutation_length P). reflexivity.
Qed.

Lemma sum_branch l : match l with [] => qn 0 | _ => qn (qsum l) end = qn (qsum l).
Proof. destruct l; reflexivity. Qed.

Definition agg_names : list string := ["sum"; "mean"; "min"; "max"; "count"; "size"; "_size"].
Lemma agg_fn_perm fl op vs vs' : mem op agg_names = true -> Permutation vs vs' -> agg_fn fl op vs = agg_fn fl op vs'.
Proof.
  intros M P. pose proof (nums_perm _ _ P) as PN. pose proof (Permutation_length P) as PL.
  unfold agg_names in M. split_mem M; try discriminate; cbn [agg_fn].
  - destruct (nums vs) as [|x t] eqn:E1, (nums vs') as [|x' t'] eqn:E2; try reflexivity.
    + apply Permutation_nil in PN. discriminate.
    + apply Permutation_sym, Permutation_nil in PN. discriminate.
    + apply qn_eq, qsum_perm, PN.
  - destruct (nums vs) as [|x t] eqn:E1, (nums vs') as [|x' t'] eqn:E2; try reflexivity.
    + apply Permutation_nil in PN. discriminate.
    + apply Permutation_sym, Permutation_nil in PN. discriminate.
    + apply qn_eq. rewrite (qsum_perm _ _ PN), (Permutation_length PN). reflexivity.
  - apply opt_min_perm, PN.
  - apply opt_max_perm, PN.
  - destruct vs as [|v t], vs' as [|v' t']; try reflexivity.
    + apply Permutation_nil in P. discriminate.
    + apply Permutation_sym, Permutation_nil in P. discriminate.
    + rewrite (Permutation_length (perm_filter (fun v0 => negb (is_null v0)) _ _ P)). reflexivity.
  - destruct vs as [|v t], vs' as [|v' t']; try reflexivity.
    + apply Permutation_nil in P. discriminate.
    + apply Permutation_sym, Permutation_nil in P. discriminate.
    + rewrite PL. reflexivity.
  - destruct vs as [|v t], vs' as [|v' t']; try reflexivity.
    + apply Permutation_nil in P. discriminate.
    + apply Permutation_sym, Permutation_nil in P. discriminate.
    + rewrite PL. reflexivity.
Qed.
