(* C26 -- proofs about Model/Builder.v against Model/BuilderSpec.v.
   Part 1: reflection of the boolean tests.  Part 2: each builder step on a bare column list is one conjunction of
   tests (`*_flat`).  Part 3: the conjunction fails iff a rule of BuilderSpec.violates is broken. *)
From Coq Require Import List Bool Arith String Lia.
Import ListNotations.
From DA Require Import Base.PyRT Model.Extend Gen.G_MergeOps Model.Builder Model.BuilderSpec.

(* ------------------------------------------------------------------ Part 1: reflection *)
Lemma nodupb_spec l : nodupb l = true <-> NoDup l.
Proof.
  induction l as [|x t IH]; simpl.
  - split; [constructor|reflexivity].
  - rewrite andb_true_iff, negb_true_iff, mem_false, IH. split.
    + intros [A B]. constructor; assumption.
    + intros N. inversion N; subst. split; assumption.
Qed.
Lemma nodupb_false l : nodupb l = false <-> ~ NoDup l.
Proof. rewrite <- nodupb_spec. destruct (nodupb l); split; congruence. Qed.

Lemma subset_false cols l : subset l cols = false <-> unknown_in cols l.
Proof.
  unfold subset, unknown_in. rewrite forallb_false. split.
  - intros [x [I E]]. exists x. split; [exact I|]. apply mem_false. exact E.
  - intros [x [I E]]. exists x. split; [exact I|]. apply mem_false. exact E.
Qed.
Lemma subset_true (cols l : list string) : subset l cols = true <-> (forall c, In c l -> In c cols).
Proof. apply subset_spec. Qed.

Lemma disjointb_false (a b : list string) : disjointb a b = false <-> exists x, In x a /\ In x b.
Proof.
  unfold disjointb. rewrite forallb_false. split.
  - intros [x [I E]]. exists x. split; [exact I|]. apply negb_false_iff in E. apply mem_In. exact E.
  - intros [x [I E]]. exists x. split; [exact I|]. apply negb_false_iff. apply mem_In. exact E.
Qed.

Lemma nonempty_true {A} (l : list A) : nonempty l = true <-> l <> [].
Proof. destruct l; simpl; split; congruence. Qed.
Lemma nonempty_false {A} (l : list A) : nonempty l = false <-> l = [].
Proof. destruct l; simpl; split; congruence. Qed.

Lemma notin_true l x : notin l x = true <-> ~ In x l.
Proof. unfold notin. rewrite negb_true_iff. apply mem_false. Qed.

Lemma strs_eqb_eq a : forall b, strs_eqb a b = true -> a = b.
Proof.
  induction a as [|x s IH]; intros [|y t] H; simpl in H; try discriminate; [reflexivity|].
  apply andb_true_iff in H. destruct H as [H1 H2]. apply String.eqb_eq in H1. subst. f_equal. apply IH, H2.
Qed.

Lemma finish_ok cols : cols <> [] -> NoDup cols -> finish cols = Accept cols.
Proof.
  intros NE N. unfold finish. apply nonempty_true in NE. apply nodupb_spec in N. rewrite NE, N. reflexivity.
Qed.
Lemma finish_accept cols c : finish cols = Accept c -> c = cols /\ cols <> [] /\ NoDup cols.
Proof.
  unfold finish. destruct (nonempty cols) eqn:E1; simpl; [|discriminate].
  destruct (nodupb cols) eqn:E2; [|discriminate]. intros [= <-].
  split; [reflexivity|]. split; [apply nonempty_true, E1|apply nodupb_spec, E2].
Qed.
Lemma finish_reject cols : finish cols = Reject <-> cols = [] \/ ~ NoDup cols.
Proof.
  unfold finish. destruct (nonempty cols) eqn:E1; simpl.
  - destruct (nodupb cols) eqn:E2.
    + split; [discriminate|]. intros [E|E]; [apply nonempty_true in E1; contradiction|apply nodupb_spec in E2; contradiction].
    + split; [|reflexivity]. intros _. right. apply nodupb_false, E2.
  - split; [|reflexivity]. intros _. left. apply nonempty_false, E1.
Qed.

Lemma NoDup_app_disj {A} (a b : list A) : NoDup a -> NoDup b -> (forall x, In x a -> ~ In x b) -> NoDup (a ++ b).
Proof.
  induction a as [|x t IH]; simpl; intros Na Nb D; [exact Nb|].
  inversion Na as [|y l Hx Nt]; subst. constructor.
  - rewrite in_app_iff. intros [I|I]; [contradiction|]. exact (D x (or_introl eq_refl) I).
  - apply IH; [exact Nt|exact Nb|]. intros z Iz. apply D. right. exact Iz.
Qed.

Lemma NoDup_app_new (src ks : list string) : NoDup src -> NoDup ks -> NoDup (src ++ filter (notin src) ks).
Proof.
  intros N1 N2. apply NoDup_app_disj; [exact N1|apply NoDup_filter, N2|].
  intros x I F. apply filter_In in F. destruct F as [_ F]. apply notin_true in F. contradiction.
Qed.

Lemma app_not_nil_l {A} (a b : list A) : a <> [] -> a ++ b <> [].
Proof. destruct a; simpl; congruence. Qed.

Ltac split_true := repeat match goal with X : _ && _ = true |- _ => apply andb_true_iff in X; destruct X end.

Ltac reflect_hyps :=
  repeat match goal with
  | X : nodupb _ = true |- _ => apply nodupb_spec in X
  | X : subset ?l ?c = true |- _ => let Y := fresh "S" in pose proof (proj1 (subset_true c l) X) as Y; clear X
  | X : disjointb ?a ?b = true |- _ => let Y := fresh "D" in pose proof (proj1 (disjointb_spec a b) X) as Y; clear X
  end.

(* a chain of tests *)
Ltac chain :=
  repeat match goal with
  | |- context[if negb ?b then Reject else _] => destruct b eqn:?; cbn [negb andb orb]; try reflexivity
  | |- context[if ?b then Reject else _] => destruct b eqn:?; cbn [negb andb orb]; try reflexivity
  end.

(* ------------------------------------------------------------------ Part 2: one conjunction of tests per step *)
Section Flat.
Variable T : tables.
Variable cols : list string.
Hypothesis Ncols : NoDup cols.
Hypothesis NEcols : cols <> [].

Definition win_ops_ok (ops : assignments) (part : pspec) (order : list string) : bool :=
  negb (windowed T ops part order && negb (forallb (fun ke => win_op_ok T cols (nonempty order) (snd ke)) ops)).

Definition extend_conform (ops : assignments) (part : pspec) (order rev : list string) : bool :=
  (nodupb (keys ops) && disjointb (keys ops) (used_elsewhere ops))
  && extend_pre cols (keys ops) part order rev
  && subset (ops_used ops) cols
  && (nodupb (plist part) && nodupb order && nodupb rev)
  && (subset (plist part) cols && subset order cols)
  && subset rev order
  && disjointb (keys ops) (plist part ++ order ++ rev)
  && win_ops_ok ops part order.

Lemma extend_flat ops part order rev : ops <> [] ->
  build_step T cols (SExtend ops part order rev) =
  if extend_conform ops part order rev then Accept (cols ++ filter (notin cols) (keys ops)) else Reject.
Proof.
  intros NE. unfold build_step, apply_step, do_extend, extend_conform, win_ops_ok, parse_ok.
  destruct (nodupb (keys ops) && disjointb (keys ops) (used_elsewhere ops)) eqn:P; cbn [negb andb]; [|reflexivity].
  cbn [extend_parsed declared]. apply nonempty_true in NE. rewrite NE. cbn [negb].
  destruct (extend_pre cols (keys ops) part order rev) eqn:E1; cbn [negb andb]; [|reflexivity].
  unfold extend_node.
  chain.
  apply finish_ok; [apply app_not_nil_l, NEcols|].
  apply andb_true_iff in P. destruct P as [P _]. apply nodupb_spec in P. apply NoDup_app_new; assumption.
Qed.

Definition project_conform (ops : assignments) (group : list string) : bool :=
  (nodupb (keys ops) && disjointb (keys ops) (used_elsewhere ops))
  && wcg cols group
  && negb (negb (nonempty ops) && negb (nonempty group))
  && disjointb (keys ops) group
  && subset (group ++ ops_used ops) cols
  && nodupb group
  && forallb (fun ke => proj_op_ok T (snd ke)) ops.

Lemma project_flat ops group :
  build_step T cols (SProject ops group) =
  if project_conform ops group then Accept (group ++ filter (notin group) (keys ops)) else Reject.
Proof.
  unfold build_step, apply_step, do_project, project_conform, parse_ok.
  destruct (nodupb (keys ops) && disjointb (keys ops) (used_elsewhere ops)) eqn:P; cbn [negb andb]; [|reflexivity].
  cbn [project_parsed declared]. unfold project_node.
  chain.
  assert (NoDup (keys ops)) as Nk by (apply andb_true_iff in P; destruct P as [P _]; apply nodupb_spec in P; exact P).
  match goal with H : nodupb group = true |- _ => apply nodupb_spec in H; rename H into Ng end.
  rewrite finish_ok.
  - destruct (forallb (fun ke => proj_op_ok T (snd ke)) ops); reflexivity.
  - match goal with H : negb (nonempty ops) && negb (nonempty group) = false |- _ => rename H into NB end.
    destruct group as [|g gt]; [|simpl; congruence]. destruct ops as [|o ot]; [discriminate NB|]. simpl. congruence.
  - apply NoDup_app_new; assumption.
Qed.

Lemma select_rows_flat e :
  build_step T cols (SSelectRows e) = if subset (cols_used e) cols then Accept cols else Reject.
Proof.
  unfold build_step, apply_step. cbn [do_select_rows declared]. unfold select_rows_node.
  destruct (subset (cols_used e) cols); cbn [negb]; [|reflexivity]. apply finish_ok; assumption.
Qed.

Lemma select_cols_flat cs :
  build_step T cols (SSelectCols cs) = if nonempty cs && subset cs cols && nodupb cs then Accept cs else Reject.
Proof.
  unfold build_step, apply_step. cbn [do_select_cols declared]. unfold select_node, finish.
  destruct (nonempty cs); cbn [negb andb]; [|reflexivity].
  destruct (subset cs cols); cbn [negb andb]; [|reflexivity]. reflexivity.
Qed.

Lemma NoDup_filter_cols (f : string -> bool) : NoDup (filter f cols).
Proof. apply NoDup_filter. exact Ncols. Qed.

Lemma drop_cols_flat cs :
  build_step T cols (SDropCols cs) =
  if negb (nonempty cs) then Accept cols
  else if subset cs cols && nonempty (filter (notin cs) cols) then Accept (filter (notin cs) cols) else Reject.
Proof.
  unfold build_step, apply_step. cbn [do_drop_cols declared]. unfold drop_node.
  destruct (nonempty cs); cbn [negb]; [|reflexivity].
  destruct (subset cs cols); cbn [negb andb]; [|reflexivity].
  unfold finish. pose proof (NoDup_filter_cols (notin cs)) as N. apply nodupb_spec in N. rewrite N.
  rewrite andb_true_r. reflexivity.
Qed.

Lemma rename_flat m :
  build_step T cols (SRename m) =
  if negb (nonempty m) then Accept cols
  else if subset (map snd m) cols && negb (nonempty (collisions cols (map fst m) (map snd m))) && nodupb (renamed cols m)
       then Accept (renamed cols m) else Reject.
Proof.
  unfold build_step, apply_step. cbn [do_rename declared]. unfold rename_node. fold (renamed cols m).
  destruct (nonempty m); cbn [negb]; [|reflexivity].
  destruct (subset (map snd m) cols); cbn [negb andb]; [|reflexivity].
  destruct (nonempty (collisions cols (map fst m) (map snd m))); cbn [negb andb]; [reflexivity|].
  unfold finish. assert (nonempty (renamed cols m) = true) as NEr.
  { unfold renamed. destruct cols; [congruence|reflexivity]. }
  rewrite NEr. reflexivity.
Qed.

Lemma map_flat m :
  build_step T cols (SMap m) =
  if negb (nonempty m) then Accept cols
  else if subset (map fst m) cols && negb (nonempty (collisions cols (map_new m) (map fst m)))
          && (nonempty (mapped cols m) && nodupb (mapped cols m))
       then Accept (mapped cols m) else Reject.
Proof.
  unfold build_step, apply_step. cbn [do_map declared]. unfold map_node. fold (mapped cols m).
  destruct (nonempty m); cbn [negb]; [|reflexivity].
  destruct (subset (map fst m) cols); cbn [negb andb]; [|reflexivity].
  destruct (nonempty (collisions cols (map_new m) (map fst m))); cbn [negb andb]; reflexivity.
Qed.

Definition no_order (cs : list string) (limit : option nat) : bool :=
  negb (nonempty cs) && match limit with None => true | Some _ => false end.

Lemma order_flat cs rev limit :
  build_step T cols (SOrder cs rev limit) =
  if no_order cs limit then Accept cols
  else if subset cs cols && subset rev cs then Accept cols else Reject.
Proof.
  unfold build_step, apply_step, no_order. cbn [do_order declared]. unfold order_node.
  destruct (negb (nonempty cs) && match limit with None => true | Some _ => false end); [reflexivity|].
  destruct (subset cs cols); cbn [negb andb]; [|reflexivity].
  destruct (subset rev cs); cbn [negb]; [|reflexivity]. apply finish_ok; assumption.
Qed.

Definition join_names (b : list string) : list string :=
  let all := cols ++ filter (notin cols) b in
  if subset all cols then cols else if subset all b && subset b all then b else all.

Definition join_conform (b : list string) (on : list (string * string)) (jt : string) (check : bool) : bool :=
  subset (map fst on) cols && subset (map snd on) b
  && negb (check && negb (subset (set_inter cols b) (set_inter (map fst on) (map snd on))))
  && mem jt join_types
  && negb (String.eqb jt "CROSS" && nonempty on).

Lemma join_flat b on jt check : NoDup b -> b <> [] ->
  build_step T cols (SJoin b on jt check) = if join_conform b on jt check then Accept (join_names b) else Reject.
Proof.
  intros Nb NEb. unfold build_step, apply_step, join_conform. cbn [do_join declared]. unfold join_node. fold (join_names b).
  chain.
  assert (finish (join_names b) = Accept (join_names b)) as F.
  { unfold join_names. destruct (subset (cols ++ filter (notin cols) b) cols); [apply finish_ok; assumption|].
    destruct (subset (cols ++ filter (notin cols) b) b && subset b (cols ++ filter (notin cols) b)); [apply finish_ok; assumption|].
    apply finish_ok; [apply app_not_nil_l, NEcols|apply NoDup_app_new; assumption]. }
  rewrite F. chain. reflexivity.
Qed.

Definition concat_conform (b : list string) (idc : option string) : bool :=
  (subset cols b && subset b cols) && match idc with None => true | Some c => negb (mem c cols) end.

Lemma concat_flat b idc :
  build_step T cols (SConcat b idc) =
  if concat_conform b idc then Accept (match idc with None => cols | Some c => cols ++ [c] end) else Reject.
Proof.
  unfold build_step, apply_step, concat_conform. cbn [do_concat declared]. unfold concat_node.
  destruct (subset cols b && subset b cols); cbn [negb andb]; [|reflexivity].
  destruct idc as [c|]; [|apply finish_ok; assumption].
  destruct (mem c cols) eqn:M; cbn [negb]; [reflexivity|].
  apply finish_ok; [apply app_not_nil_l, NEcols|]. apply NoDup_app_disj; [exact Ncols|repeat constructor; simpl; tauto|].
  intros x I [<-|[]]. apply mem_false in M. contradiction.
Qed.
End Flat.

(* ------------------------------------------------------------------ Part 3: the conjunction fails iff a rule is broken *)
Lemma use_produce_false ops : disjointb (keys ops) (used_elsewhere ops) = false <-> used_by_other ops.
Proof.
  rewrite disjointb_false. unfold used_by_other, used_elsewhere. split.
  - intros [x [Ik Iu]]. apply in_flat_map in Iu. destruct Iu as [[k e] [Io Ir]]. simpl in Ir.
    apply In_remove_elem in Ir. destruct Ir as [Ic Ne]. exists k, e, x. tauto.
  - intros [k [e [k' [Io [Ik [Ne Ic]]]]]]. exists k'. split; [exact Ik|]. apply in_flat_map. exists (k, e).
    split; [exact Io|]. simpl. apply In_remove_elem. tauto.
Qed.

Lemma windowed_iff T ops part order : windowed T ops part order = true <-> windowed_spec T ops part order.
Proof.
  unfold windowed, windowed_spec, implies_windowed. rewrite !orb_true_iff, existsb_exists, !nonempty_true. split.
  - intros [[[[[k e] [I M]]|O]|P]|Q].
    + right. right. right. simpl in M. destruct e as [c| | |op args]; try discriminate. exists k, op, args.
      split; [exact I|apply mem_In, M].
    + left. destruct part; [reflexivity|discriminate].
    + right. left. exact P.
    + right. right. left. exact Q.
  - intros [O|[P|[Q|[k [op [args [I M]]]]]]].
    + left. left. right. subst. reflexivity.
    + left. right. exact P.
    + right. exact Q.
    + left. left. left. exists (k, EOp op args). split; [exact I|]. simpl. apply mem_In, M.
Qed.

Lemma is_val_true e : is_val e = true <-> e = EVal.
Proof. destruct e; simpl; split; congruence. Qed.

Lemma simple_arg_dec a : simple_arg a \/ ~ simple_arg a.
Proof.
  destruct a as [c| | |op args].
  - left. left. exists c. reflexivity.
  - left. right. reflexivity.
  - right. intros [[c E]|E]; discriminate.
  - right. intros [[c E]|E]; discriminate.
Qed.

(* what the per-assignment test of a windowed extend says *)
Lemma win_op_ok_true T src ordered e : win_op_ok T src ordered e = true ->
  exists op args, e = EOp op args /\ ~ too_complex_window e /\ ~ In op (t_cw T)
    /\ ~ (ordered = true /\ In op (t_co T)) /\ ~ (ordered = false /\ In op (t_ow T)).
Proof.
  destruct e as [c| | |op args]; simpl; try discriminate. intros H.
  repeat (apply andb_true_iff in H; destruct H as [H ?]).
  exists op, args. split; [reflexivity|]. repeat split.
  - intros [op' [args' [E [[a [t [Ea Ns]]]|[a [Ia Na]]]]]]; injection E as <- <-.
    + subst args. apply Ns. destruct a as [c| | |o l]; try discriminate; [left; exists c; reflexivity|right; reflexivity].
    + rewrite forallb_forall in H. apply Na, is_val_true, H, Ia.
  - match goal with X : negb (mem op (t_cw T)) = true |- _ => apply negb_true_iff, mem_false in X; exact X end.
  - intros [-> I]. match goal with X : negb (true && mem op (t_co T)) = true |- _ => apply negb_true_iff in X; simpl in X; apply mem_false in X; contradiction end.
  - intros [-> I]. match goal with X : negb (negb false && mem op (t_ow T)) = true |- _ => apply negb_true_iff in X; simpl in X; apply mem_false in X; contradiction end.
Qed.

Lemma win_op_ok_false T src ordered e : win_op_ok T src ordered e = false ->
  (forall op args, e <> EOp op args) \/ too_complex_window e \/ (exists c, In c (cols_used e) /\ ~ In c src)
  \/ (exists op args, e = EOp op args /\ (In op (t_cw T) \/ (ordered = true /\ In op (t_co T)) \/ (ordered = false /\ In op (t_ow T)))).
Proof.
  destruct e as [c| | |op args]; simpl; try (intros _; left; intros; discriminate). intros H.
  repeat (apply andb_false_iff in H; destruct H as [H|H]).
  - right. left. exists op, args. split; [reflexivity|]. right. apply forallb_false in H. destruct H as [a [Ia Na]].
    exists a. split; [exact Ia|]. intros E. apply is_val_true in E. congruence.
  - destruct args as [|a t]; [discriminate|]. destruct a as [c| | |o l]; try discriminate.
    + right. right. left. exists c. split; [simpl; left; reflexivity|apply mem_false, H].
    + right. left. exists op, (EColl :: t). split; [reflexivity|]. left. exists EColl, t. split; [reflexivity|]. intros [[c E]|E]; discriminate.
    + right. left. exists op, (EOp o l :: t). split; [reflexivity|]. left. exists (EOp o l), t. split; [reflexivity|]. intros [[c E]|E]; discriminate.
  - right. right. right. exists op, args. split; [reflexivity|]. left. apply negb_false_iff, mem_In in H. exact H.
  - right. right. right. exists op, args. split; [reflexivity|]. right. left. apply negb_false_iff, andb_true_iff in H. destruct H as [-> H]. split; [reflexivity|apply mem_In, H].
  - right. right. right. exists op, args. split; [reflexivity|]. right. right. apply negb_false_iff, andb_true_iff in H. destruct H as [O H].
    apply negb_true_iff in O. split; [exact O|apply mem_In, H].
Qed.

Lemma cols_used_in_ops (ops : assignments) k e c : In (k, e) ops -> In c (cols_used e) -> In c (ops_used ops).
Proof. intros I C. unfold ops_used. apply in_flat_map. exists (k, e). split; assumption. Qed.

Lemma key_in_keys (ops : assignments) k e : In (k, e) ops -> In k (keys ops).
Proof. intros I. unfold keys. apply in_map_iff. exists (k, e). split; [reflexivity|exact I]. Qed.

Lemma nonempty_order_true (order : list string) : nonempty order = true <-> order <> [].
Proof. apply nonempty_true. Qed.

Section ExtendIff.
Variable T : tables.
Variable cols : list string.

Lemma extend_nonconform_violates ops part order rev :
  extend_conform T cols ops part order rev = false -> violates_rule T cols (SExtend ops part order rev).
Proof.
  unfold extend_conform, extend_pre, wcg, win_ops_ok, violates_rule. intros H.
  repeat (apply andb_false_iff in H; destruct H as [H|H]).
  - exists X_duplicate_name. left. apply nodupb_false, H.
  - exists R_use_and_produce. apply use_produce_false, H.
  - exists X_duplicate_name. right. left. apply nodupb_false, H.
  - exists R_unknown_column. right. left. apply subset_false, H.
  - exists X_duplicate_name. right. right. left. apply nodupb_false, H.
  - exists R_unknown_column. right. right. left. apply subset_false, H.
  - exists X_duplicate_name. right. right. right. apply nodupb_false, H.
  - exists R_unknown_column. right. right. right. apply subset_false, H.
  - destruct (nonempty (plist part)); [|discriminate]. apply andb_false_iff in H. destruct H as [H|H]; apply disjointb_false in H; destruct H as [x [A B]].
    + exists R_change_window_column. exists x. split; [exact A|]. apply in_app_iff. left. exact B.
    + exists X_window_spec. right. exists x. split; assumption.
  - exists R_change_window_column. apply disjointb_false in H. destruct H as [x [A B]]. exists x. split; [exact A|]. rewrite !in_app_iff. tauto.
  - exists X_window_spec. left. apply subset_false in H. exact H.
  - exists R_unknown_column. left. apply subset_false, H.
  - exists X_duplicate_name. right. left. apply nodupb_false, H.
  - exists X_duplicate_name. right. right. left. apply nodupb_false, H.
  - exists X_duplicate_name. right. right. right. apply nodupb_false, H.
  - exists R_unknown_column. right. left. apply subset_false, H.
  - exists R_unknown_column. right. right. left. apply subset_false, H.
  - exists X_window_spec. left. apply subset_false in H. exact H.
  - exists R_change_window_column. apply disjointb_false in H. destruct H as [x [A B]]. exists x. split; assumption.
  - apply negb_false_iff, andb_true_iff in H. destruct H as [W F]. apply windowed_iff in W. apply negb_true_iff, forallb_false in F.
    destruct F as [[k e] [I F]]. simpl in F. apply win_op_ok_false in F. destruct F as [F|[F|[F|F]]].
    + exists R_not_aggregating. split; [exact W|]. exists k, e. split; [exact I|]. intros [op [args [E _]]]. exact (F op args E).
    + exists R_too_complex. split; [exact W|]. exists k, e. split; assumption.
    + exists R_unknown_column. left. destruct F as [c [C N]]. exists c. split; [eapply cols_used_in_ops; eassumption|exact N].
    + exists X_window_kind. split; [exact W|]. destruct F as [op [args [-> F]]]. exists k, op, args. split; [exact I|].
      destruct F as [F|[[O F]|[O F]]]; [left; exact F| |].
      * right. left. split; [apply nonempty_true, O|exact F].
      * right. right. split; [apply nonempty_false, O|exact F].
Qed.

Lemma extend_conform_no_violation ops part order rev :
  extend_conform T cols ops part order rev = true ->
  forall r, (r = R_not_aggregating -> catalogued T (SExtend ops part order rev)) -> ~ violates T cols (SExtend ops part order rev) r.
Proof.
  unfold extend_conform, extend_pre, wcg, win_ops_ok. intros H.
  split_true.
  match goal with X : negb (windowed _ _ _ _ && _) = true |- _ => apply negb_true_iff in X; rename X into HW end.
  assert (windowed_spec T ops part order -> forall k e, In (k, e) ops -> win_op_ok T cols (nonempty order) e = true) as WOK.
  { intros W k e I. apply windowed_iff in W. rewrite W in HW. simpl in HW. apply negb_false_iff in HW.
    rewrite forallb_forall in HW. exact (HW (k, e) I). }
  intros r G V. destruct r; simpl in V; try contradiction.
  - (* unknown column *)
    destruct V as [V|[V|[V|V]]]; apply subset_false in V; congruence.
  - (* change window column *)
    assert (disjointb (keys ops) (plist part ++ order ++ rev) = false) by (apply disjointb_false; exact V). congruence.
  - (* use and produce *)
    apply use_produce_false in V. congruence.
  - (* not aggregating *)
    destruct V as [W [k [e [I NA]]]]. destruct (win_op_ok_true _ _ _ _ (WOK W k e I)) as [op [args [-> _]]].
    apply NA. exists op, args. split; [reflexivity|]. exact (G eq_refl W k op args I).
  - (* too complex *)
    destruct V as [W [k [e [I TC]]]]. destruct (win_op_ok_true _ _ _ _ (WOK W k e I)) as [op [args [-> [NT _]]]]. exact (NT TC).
  - (* window kind *)
    destruct V as [W [k [op [args [I K]]]]]. destruct (win_op_ok_true _ _ _ _ (WOK W k _ I)) as [op' [args' [E [_ [N1 [N2 N3]]]]]].
    injection E as <- <-. destruct K as [K|[[O K]|[O K]]]; [exact (N1 K)| |].
    + apply N2. split; [apply nonempty_true, O|exact K].
    + apply N3. split; [apply nonempty_false, O|exact K].
  - (* duplicate name *)
    destruct V as [V|[V|[V|V]]]; apply nodupb_false in V; congruence.
  - (* window spec *)
    destruct V as [V|[c [I J]]].
    + assert (subset rev order = false) by (apply subset_false; exact V). congruence.
    + destruct (nonempty (plist part)) eqn:NP.
      * assert (disjointb (plist part) order = false) by (apply disjointb_false; exists c; tauto).
        split_true. congruence.
      * apply nonempty_false in NP. rewrite NP in I. destruct I.
Qed.
End ExtendIff.

Lemma proj_op_ok_true T e : proj_op_ok T e = true ->
  exists op args, e = EOp op args /\ ~ too_complex_project e /\ ~ In op (t_ow T) /\ ~ In op (t_np T).
Proof.
  destruct e as [c| | |op args]; simpl; try discriminate. intros H. split_true.
  exists op, args. split; [reflexivity|]. repeat split.
  - intros [op' [args' [E [L|[a [t [Ea Ns]]]]]]]; injection E as <- <-.
    + match goal with X : (List.length args <=? 1) = true |- _ => apply Nat.leb_le in X; lia end.
    + subst args. apply Ns. destruct a as [c| | |o l]; try discriminate; [left; exists c; reflexivity|right; reflexivity].
  - match goal with X : negb (mem op (t_ow T)) = true |- _ => apply negb_true_iff, mem_false in X; exact X end.
  - match goal with X : negb (mem op (t_np T)) = true |- _ => apply negb_true_iff, mem_false in X; exact X end.
Qed.

Lemma proj_op_ok_false T e : proj_op_ok T e = false ->
  (forall op args, e <> EOp op args) \/ too_complex_project e
  \/ (exists op args, e = EOp op args /\ (In op (t_ow T) \/ In op (t_np T))).
Proof.
  destruct e as [c| | |op args]; simpl; try (intros _; left; intros; discriminate). intros H.
  repeat (apply andb_false_iff in H; destruct H as [H|H]).
  - right. left. exists op, args. split; [reflexivity|]. left. apply Nat.leb_gt in H. exact H.
  - destruct args as [|a t]; [discriminate|]. right. left. exists op, (a :: t). split; [reflexivity|]. right. exists a, t. split; [reflexivity|].
    destruct a as [c| | |o l]; try discriminate; intros [[c' E]|E]; discriminate.
  - right. right. exists op, args. split; [reflexivity|]. left. apply negb_false_iff, mem_In in H. exact H.
  - right. right. exists op, args. split; [reflexivity|]. right. apply negb_false_iff, mem_In in H. exact H.
Qed.

Section OtherIff.
Variable T : tables.
Variable cols : list string.

Lemma project_nonconform_violates ops group :
  project_conform T cols ops group = false -> violates_rule T cols (SProject ops group).
Proof.
  unfold project_conform, wcg, violates_rule. intros H.
  repeat (apply andb_false_iff in H; destruct H as [H|H]).
  - exists X_duplicate_name. left. apply nodupb_false, H.
  - exists R_use_and_produce. apply use_produce_false, H.
  - exists X_duplicate_name. right. apply nodupb_false, H.
  - exists R_unknown_column. right. apply subset_false, H.
  - exists X_empty_step. apply negb_false_iff in H. split_true.
    split; apply nonempty_false; apply negb_true_iff; assumption.
  - exists X_alter_group. apply disjointb_false, H.
  - exists R_unknown_column. apply subset_false in H. destruct H as [c [I N]]. apply in_app_iff in I. destruct I as [I|I]; [right|left]; exists c; tauto.
  - exists X_duplicate_name. right. apply nodupb_false, H.
  - apply forallb_false in H. destruct H as [[k e] [I F]]. simpl in F. apply proj_op_ok_false in F. destruct F as [F|[F|F]].
    + exists R_not_aggregating. exists k, e. split; [exact I|]. intros [op [args [E _]]]. exact (F op args E).
    + exists R_too_complex. exists k, e. split; assumption.
    + exists X_window_kind. destruct F as [op [args [-> F]]]. exists k, op, args. split; assumption.
Qed.

Lemma project_conform_no_violation ops group :
  project_conform T cols ops group = true ->
  forall r, (r = R_not_aggregating -> catalogued T (SProject ops group)) -> ~ violates T cols (SProject ops group) r.
Proof.
  unfold project_conform, wcg. intros H. split_true.
  match goal with X : forallb _ ops = true |- _ => rewrite forallb_forall in X; rename X into F end.
  intros r G V. destruct r; simpl in V; try contradiction.
  - destruct V as [[c [I N]]|[c [I N]]].
    + assert (subset (group ++ ops_used ops) cols = false) by (apply subset_false; exists c; rewrite in_app_iff; tauto). congruence.
    + assert (subset group cols = false) by (apply subset_false; exists c; tauto). congruence.
  - apply use_produce_false in V. congruence.
  - destruct V as [k [e [I NA]]]. destruct (proj_op_ok_true _ _ (F (k, e) I)) as [op [args [E _]]]. simpl in E. subst e.
    apply NA. exists op, args. split; [reflexivity|]. exact (G eq_refl k op args I).
  - destruct V as [k [e [I TC]]]. destruct (proj_op_ok_true _ _ (F (k, e) I)) as [op [args [E [NT _]]]]. simpl in E. subst e. exact (NT TC).
  - destruct V as [k [op [args [I K]]]]. destruct (proj_op_ok_true _ _ (F (k, EOp op args) I)) as [op' [args' [E [_ [N1 N2]]]]].
    simpl in E. injection E as <- <-. tauto.
  - destruct V as [V|V]; apply nodupb_false in V; congruence.
  - assert (disjointb (keys ops) group = false) by (apply disjointb_false; exact V). congruence.
  - destruct V as [-> ->]. discriminate.
Qed.

Lemma mem_join_types jt : mem jt join_types = true <-> In jt join_types.
Proof. apply mem_In. Qed.

Lemma join_nonconform_violates b on jt check :
  join_conform cols b on jt check = false -> violates_rule T cols (SJoin b on jt check).
Proof.
  unfold join_conform, violates_rule. intros H.
  repeat (apply andb_false_iff in H; destruct H as [H|H]).
  - exists R_join_missing_key. left. apply subset_false, H.
  - exists R_join_missing_key. right. apply subset_false, H.
  - exists R_join_common_nonkey. apply negb_false_iff in H. split_true. split; [assumption|].
    match goal with X : negb (subset _ _) = true |- _ => apply negb_true_iff, subset_false in X; destruct X as [c [I N]] end.
    apply In_set_inter in I. exists c. split; [tauto|]. split; [tauto|]. intros J. apply N. apply In_set_inter. exact J.
  - exists X_join_type. left. apply mem_false, H.
  - exists X_join_type. right. apply negb_false_iff in H. split_true. split.
    + apply String.eqb_eq. assumption.
    + apply nonempty_true. assumption.
Qed.

Lemma join_conform_no_violation b on jt check :
  join_conform cols b on jt check = true -> forall r, ~ violates T cols (SJoin b on jt check) r.
Proof.
  unfold join_conform. intros H. split_true. intros r V. destruct r; cbn [violates] in V; try contradiction.
  - destruct V as [V|V]; apply subset_false in V; congruence.
  - destruct V as [-> [c [Ia [Ib N]]]].
    match goal with X : negb (true && negb (subset _ _)) = true |- _ => simpl in X; rewrite negb_involutive in X; rename X into S end.
    assert (subset (set_inter cols b) (set_inter (map fst on) (map snd on)) = false) as F.
    { apply subset_false. exists c. split; [apply In_set_inter; tauto|]. intros J. apply In_set_inter in J. exact (N J). }
    congruence.
  - destruct V as [V|[-> V]].
    + apply mem_false in V. congruence.
    + match goal with X : negb (_ && nonempty on) = true |- _ => apply negb_true_iff in X; simpl in X; apply nonempty_false in X; contradiction end.
Qed.

Lemma concat_nonconform_violates b idc :
  concat_conform cols b idc = false -> violates_rule T cols (SConcat b idc).
Proof.
  unfold concat_conform, violates_rule. intros H.
  repeat (apply andb_false_iff in H; destruct H as [H|H]).
  - exists R_concat_columns. left. apply subset_false in H. destruct H as [c [I N]]. exists c. tauto.
  - exists R_concat_columns. right. apply subset_false in H. destruct H as [c [I N]]. exists c. tauto.
  - destruct idc as [c|]; [|discriminate]. exists X_name_collision. exists c. split; [reflexivity|]. apply negb_false_iff, mem_In in H. exact H.
Qed.

Lemma concat_conform_no_violation b idc :
  concat_conform cols b idc = true -> forall r, ~ violates T cols (SConcat b idc) r.
Proof.
  unfold concat_conform. intros H. split_true. intros r V. destruct r; simpl in V; try contradiction.
  - destruct V as [[c [I N]]|[c [I N]]].
    + assert (subset cols b = false) by (apply subset_false; exists c; tauto). congruence.
    + assert (subset b cols = false) by (apply subset_false; exists c; tauto). congruence.
  - destruct V as [c [-> I]]. match goal with X : negb (mem c cols) = true |- _ => apply negb_true_iff, mem_false in X; contradiction end.
Qed.
End OtherIff.

(* ------------------------------------------------------------------ the remaining steps and the main statements *)
Lemma collisions_spec (src new orig : list string) n :
  In n (collisions src new orig) <-> In n src /\ In n new /\ ~ In n orig.
Proof. unfold collisions. rewrite In_set_inter, In_set_diff, In_set_inter. tauto. Qed.

Lemma nonempty_exists {A} (l : list A) : nonempty l = true <-> exists x, In x l.
Proof. destruct l as [|a t]; simpl; split; try discriminate; [intros [x []]|intros _; exists a; tauto|reflexivity]. Qed.

Lemma filter_nil_all (f : string -> bool) l : filter f l = [] <-> forall x, In x l -> f x = false.
Proof.
  induction l as [|a t IH]; simpl; [tauto|]. destruct (f a) eqn:E.
  - split; [discriminate|]. intros H. specialize (H a (or_introl eq_refl)). congruence.
  - rewrite IH. split; [intros H x [<-|I]; auto|intros H x I; apply H; tauto].
Qed.

Lemma result_iff (b : bool) (A : list string) (res : result) (P : Prop) :
  res = (if b then Accept A else Reject) -> (b = false -> P) -> (b = true -> ~ P) -> (res = Reject <-> P).
Proof. intros -> F Tt. destruct b; split; auto; try discriminate. intros p. exfalso. exact (Tt eq_refl p). Qed.

Section Main.
Variable T : tables.
Variable cols : list string.
Hypothesis Ncols : NoDup cols.
Hypothesis NEcols : cols <> [].

(* a step is rejected only if it breaks a rule: no guard needed *)
Lemma reject_violates s : step_wf s -> build_step T cols s = Reject -> violates_rule T cols s.
Proof.
  destruct s as [ops part order rev|ops group|e|cs|cs|m|m|cs rev limit|b on jt check|b idc]; intros W R; simpl in W.
  - rewrite extend_flat in R by assumption.
    destruct (extend_conform T cols ops part order rev) eqn:C; [discriminate|]. apply extend_nonconform_violates, C.
  - rewrite project_flat in R by assumption.
    destruct (project_conform T cols ops group) eqn:C; [discriminate|]. apply project_nonconform_violates, C.
  - rewrite select_rows_flat in R by assumption. destruct (subset (cols_used e) cols) eqn:C; [discriminate|].
    exists R_unknown_column. apply subset_false, C.
  - rewrite select_cols_flat in R. destruct (nonempty cs && subset cs cols && nodupb cs) eqn:C; [discriminate|].
    repeat (apply andb_false_iff in C; destruct C as [C|C]).
    + exists X_empty_result. apply nonempty_false, C.
    + exists R_unknown_column. apply subset_false, C.
    + exists X_duplicate_name. apply nodupb_false, C.
  - rewrite drop_cols_flat in R by assumption. destruct (nonempty cs) eqn:NE; cbn [negb] in R; [|discriminate].
    destruct (subset cs cols && nonempty (filter (notin cs) cols)) eqn:C; [discriminate|].
    apply andb_false_iff in C. destruct C as [C|C].
    + exists R_unknown_column. apply subset_false, C.
    + exists X_empty_result. split; [apply nonempty_true, NE|]. apply nonempty_false in C.
      intros c I. rewrite filter_nil_all in C. specialize (C c I). unfold notin in C. apply negb_false_iff, mem_In in C. exact C.
  - rewrite rename_flat in R by assumption. destruct (nonempty m) eqn:NE; cbn [negb] in R; [|discriminate].
    match type of R with (if ?b then _ else _) = _ => destruct b eqn:C; [discriminate|] end.
    repeat (apply andb_false_iff in C; destruct C as [C|C]).
    + exists R_unknown_column. apply subset_false, C.
    + exists X_name_collision. left. apply negb_false_iff, nonempty_exists in C. destruct C as [n I].
      apply collisions_spec in I. exists n. tauto.
    + exists X_name_collision. right. apply nodupb_false, C.
  - rewrite map_flat in R. destruct (nonempty m) eqn:NE; cbn [negb] in R; [|discriminate].
    match type of R with (if ?b then _ else _) = _ => destruct b eqn:C; [discriminate|] end.
    repeat (apply andb_false_iff in C; destruct C as [C|C]).
    + exists R_unknown_column. apply subset_false, C.
    + exists X_name_collision. left. apply negb_false_iff, nonempty_exists in C. destruct C as [n I].
      apply collisions_spec in I. exists n. tauto.
    + exists X_empty_result. split; [apply nonempty_true, NE|]. apply nonempty_false in C. unfold mapped in C.
      apply map_eq_nil in C. rewrite filter_nil_all in C. intros c I. specialize (C c I). unfold notin in C.
      apply negb_false_iff, mem_In in C. exact C.
    + exists X_name_collision. right. apply nodupb_false, C.
  - rewrite order_flat in R by assumption. destruct (no_order cs limit) eqn:NO; [discriminate|].
    assert (cs <> [] \/ limit <> None) as G.
    { unfold no_order in NO. apply andb_false_iff in NO. destruct NO as [NO|NO].
      - left. apply nonempty_true. apply negb_false_iff, NO.
      - right. destruct limit; [discriminate|discriminate]. }
    destruct (subset cs cols && subset rev cs) eqn:C; [discriminate|]. apply andb_false_iff in C. destruct C as [C|C].
    + exists R_unknown_column. split; [exact G|]. left. apply subset_false, C.
    + exists X_window_spec. split; [exact G|]. apply subset_false in C. exact C.
  - destruct W as [Nb NEb]. rewrite join_flat in R by assumption.
    destruct (join_conform cols b on jt check) eqn:C; [discriminate|]. apply join_nonconform_violates, C.
  - rewrite concat_flat in R by assumption.
    destruct (concat_conform cols b idc) eqn:C; [discriminate|]. apply concat_nonconform_violates, C.
Qed.
End Main.

Section Main2.
Variable T : tables.
Variable cols : list string.
Hypothesis Ncols : NoDup cols.
Hypothesis NEcols : cols <> [].

Lemma renamed_nil : renamed cols [] = cols.
Proof. unfold renamed. simpl. apply map_id. Qed.

(* a step that breaks a rule is rejected; the catalogue guard is needed for R_not_aggregating only *)
Lemma violates_rejected s r : step_wf s -> (r = R_not_aggregating -> catalogued T s) ->
  violates T cols s r -> build_step T cols s = Reject.
Proof.
  destruct s as [ops part order rev|ops group|e|cs|cs|m|m|cs rev limit|b on jt check|b idc]; intros W G V; simpl in W.
  - rewrite extend_flat by assumption. destruct (extend_conform T cols ops part order rev) eqn:C; [|reflexivity].
    exfalso. exact (extend_conform_no_violation T cols ops part order rev C r G V).
  - rewrite project_flat by assumption. destruct (project_conform T cols ops group) eqn:C; [|reflexivity].
    exfalso. exact (project_conform_no_violation T cols ops group C r G V).
  - rewrite select_rows_flat by assumption. destruct r; simpl in V; try contradiction.
    apply subset_false in V. rewrite V. reflexivity.
  - rewrite select_cols_flat. destruct r; simpl in V; try contradiction.
    + apply subset_false in V. rewrite V. rewrite andb_false_r. reflexivity.
    + apply nodupb_false in V. rewrite V. rewrite andb_false_r. reflexivity.
    + subst cs. reflexivity.
  - rewrite drop_cols_flat by assumption. destruct r; simpl in V; try contradiction.
    + destruct V as [c [I N]]. assert (nonempty cs = true) as NE by (destruct cs; [destruct I|reflexivity]). rewrite NE. cbn [negb].
      assert (subset cs cols = false) as S by (apply subset_false; exists c; tauto). rewrite S. reflexivity.
    + destruct V as [NE A]. apply nonempty_true in NE. rewrite NE. cbn [negb].
      assert (filter (notin cs) cols = []) as F.
      { apply filter_nil_all. intros x I. unfold notin. apply negb_false_iff, mem_In. auto. }
      rewrite F. rewrite andb_false_r. reflexivity.
  - rewrite rename_flat by assumption. destruct (nonempty m) eqn:NE; cbn [negb].
    + destruct r; simpl in V; try contradiction.
      * apply subset_false in V. rewrite V. reflexivity.
      * destruct V as [[n [A [B C]]]|V].
        -- assert (nonempty (collisions cols (map fst m) (map snd m)) = true) as X.
           { apply nonempty_exists. exists n. apply collisions_spec. tauto. }
           rewrite X. rewrite andb_false_r. reflexivity.
        -- apply nodupb_false in V. rewrite V. rewrite andb_false_r. reflexivity.
    + exfalso. apply nonempty_false in NE. subst m. destruct r; simpl in V; try contradiction.
      * destruct V as [c [[] _]].
      * destruct V as [[n [[] _]]|V]. apply V. rewrite renamed_nil. exact Ncols.
  - rewrite map_flat. destruct (nonempty m) eqn:NE; cbn [negb].
    + destruct r; simpl in V; try contradiction.
      * apply subset_false in V. rewrite V. reflexivity.
      * destruct V as [[n [A [B C]]]|V].
        -- assert (nonempty (collisions cols (map_new m) (map fst m)) = true) as X.
           { apply nonempty_exists. exists n. apply collisions_spec. tauto. }
           rewrite X. rewrite andb_false_r. reflexivity.
        -- apply nodupb_false in V. rewrite V. rewrite !andb_false_r. reflexivity.
      * destruct V as [_ A]. assert (mapped cols m = []) as F.
        { unfold mapped. assert (filter (notin (map_deleted m)) cols = []) as F0.
          { apply filter_nil_all. intros x I. unfold notin. apply negb_false_iff, mem_In. auto. }
          rewrite F0. reflexivity. }
        rewrite F. cbn [nonempty andb]. rewrite andb_false_r. reflexivity.
    + exfalso. apply nonempty_false in NE. subst m. destruct r; simpl in V; try contradiction.
      * destruct V as [c [[] _]].
      * destruct V as [[n [[] _]]|V]. apply V. unfold mapped. simpl.
        assert (filter (notin []) cols = cols) as F0.
        { clear. induction cols as [|a t IH]; simpl; [reflexivity|]. rewrite IH. reflexivity. }
        rewrite F0, map_id. exact Ncols.
      * destruct V as [V _]. congruence.
  - rewrite order_flat by assumption. destruct r; simpl in V; try contradiction.
    + destruct V as [G0 V]. assert (no_order cs limit = false) as NO.
      { unfold no_order. destruct G0 as [G0|G0]; [apply nonempty_true in G0; rewrite G0; reflexivity|].
        destruct limit; [apply andb_false_r|congruence]. }
      rewrite NO. destruct V as [V|[c [I N]]].
      * apply subset_false in V. rewrite V. reflexivity.
      * destruct (subset cs cols) eqn:S1; [|reflexivity]. cbn [andb].
        assert (subset rev cs = false) as S2.
        { apply subset_false. exists c. split; [exact I|]. intros J. apply N. rewrite subset_true in S1. auto. }
        rewrite S2. reflexivity.
    + destruct V as [G0 V]. assert (no_order cs limit = false) as NO.
      { unfold no_order. destruct G0 as [G0|G0]; [apply nonempty_true in G0; rewrite G0; reflexivity|].
        destruct limit; [apply andb_false_r|congruence]. }
      rewrite NO. assert (subset rev cs = false) as S2 by (apply subset_false; exact V). rewrite S2, andb_false_r. reflexivity.
  - destruct W as [Nb NEb]. rewrite join_flat by assumption. destruct (join_conform cols b on jt check) eqn:C; [|reflexivity].
    exfalso. exact (join_conform_no_violation T cols b on jt check C r V).
  - rewrite concat_flat by assumption. destruct (concat_conform cols b idc) eqn:C; [|reflexivity].
    exfalso. exact (concat_conform_no_violation T cols b idc C r V).
Qed.

Theorem rejects_iff_rule_violated s : step_wf s -> catalogued T s ->
  (build_step T cols s = Reject <-> violates_rule T cols s).
Proof.
  intros W G. split.
  - apply reject_violates; assumption.
  - intros [r V]. eapply violates_rejected; eauto.
Qed.
End Main2.

Section Accept.
Variable T : tables.
Variable cols : list string.
Hypothesis Ncols : NoDup cols.
Hypothesis NEcols : cols <> [].

Lemma filter_notin_nil (l : list string) : filter (notin []) l = l.
Proof. induction l as [|a t IH]; simpl; [reflexivity|]. rewrite IH. reflexivity. Qed.

Lemma accept_is_finish_or_flat s c : step_wf s -> build_step T cols s = Accept c ->
  (order_fixed s = true -> c = spec_cols cols s) /\ (forall x, In x c <-> In x (spec_cols cols s)).
Proof.
  destruct s as [ops part order rev|ops group|e|cs|cs|m|m|cs rev limit|b on jt check|b idc]; intros W A; simpl in W; cbn [order_fixed spec_cols].
  - rewrite extend_flat in A by assumption. destruct (extend_conform T cols ops part order rev); [|discriminate]. injection A as <-. split; [reflexivity|tauto].
  - rewrite project_flat in A by assumption. destruct (project_conform T cols ops group); [|discriminate]. injection A as <-. split; [reflexivity|tauto].
  - rewrite select_rows_flat in A by assumption. destruct (subset (cols_used e) cols); [|discriminate]. injection A as <-. split; [reflexivity|tauto].
  - rewrite select_cols_flat in A. destruct (nonempty cs && subset cs cols && nodupb cs); [|discriminate]. injection A as <-. split; [reflexivity|tauto].
  - rewrite drop_cols_flat in A by assumption. destruct (nonempty cs) eqn:NE; cbn [negb] in A.
    + destruct (subset cs cols && nonempty (filter (notin cs) cols)); [|discriminate]. injection A as <-. split; [reflexivity|tauto].
    + injection A as <-. apply nonempty_false in NE. subst cs. rewrite filter_notin_nil. split; [reflexivity|tauto].
  - rewrite rename_flat in A by assumption. destruct (nonempty m) eqn:NE; cbn [negb] in A.
    + match type of A with (if ?b then _ else _) = _ => destruct b; [|discriminate] end. injection A as <-. split; [reflexivity|tauto].
    + injection A as <-. apply nonempty_false in NE. subst m. rewrite renamed_nil. split; [reflexivity|tauto].
  - rewrite map_flat in A. destruct (nonempty m) eqn:NE; cbn [negb] in A.
    + match type of A with (if ?b then _ else _) = _ => destruct b; [|discriminate] end. injection A as <-. split; [reflexivity|tauto].
    + injection A as <-. apply nonempty_false in NE. subst m. unfold mapped. simpl. rewrite filter_notin_nil, map_id. split; [reflexivity|tauto].
  - rewrite order_flat in A by assumption. destruct (no_order cs limit); [injection A as <-; split; [reflexivity|tauto]|].
    destruct (subset cs cols && subset rev cs); [|discriminate]. injection A as <-. split; [reflexivity|tauto].
  - destruct W as [Nb NEb]. rewrite join_flat in A by assumption. destruct (join_conform cols b on jt check); [|discriminate]. injection A as <-.
    split; [discriminate|]. intros x. unfold join_names.
    destruct (subset (cols ++ filter (notin cols) b) cols) eqn:S1.
    + rewrite subset_true in S1. split; [intros I; apply in_app_iff; tauto|apply S1].
    + destruct (subset (cols ++ filter (notin cols) b) b && subset b (cols ++ filter (notin cols) b)) eqn:S2; [|tauto].
      apply andb_true_iff in S2. destruct S2 as [S2 S3]. rewrite subset_true in S2, S3. split; [apply S3|apply S2].
  - rewrite concat_flat in A by assumption. destruct (concat_conform cols b idc); [|discriminate]. injection A as <-. split; [reflexivity|tauto].
Qed.

(* every accepted step yields a valid column list again: distinct and non-empty *)
Lemma accept_valid s c : step_wf s -> build_step T cols s = Accept c -> NoDup c /\ c <> [].
Proof.
  destruct s as [ops part order rev|ops group|e|cs|cs|m|m|cs rev limit|b on jt check|b idc]; intros W A; simpl in W;
    unfold build_step, apply_step in A.
  - unfold do_extend in A. destruct (negb (parse_ok ops)); [discriminate|]. cbn [extend_parsed declared] in A.
    apply nonempty_true in W. rewrite W in A. cbn [negb] in A. destruct (negb (extend_pre cols (keys ops) part order rev)); [discriminate|].
    unfold extend_node in A. repeat match type of A with (if ?b then Reject else _) = _ => destruct b; [discriminate|] end.
    apply finish_accept in A. destruct A as [-> [A B]]. tauto.
  - unfold do_project in A. destruct (negb (parse_ok ops)); [discriminate|]. cbn [project_parsed declared] in A.
    repeat match type of A with (if ?b then Reject else _) = _ => destruct b; [discriminate|] end.
    unfold project_node in A. repeat match type of A with (if ?b then Reject else _) = _ => destruct b; [discriminate|] end.
    destruct (finish (group ++ filter (notin group) (keys ops))) as [|c'] eqn:F; [discriminate|].
    destruct (forallb (fun ke => proj_op_ok T (snd ke)) ops); [|discriminate]. injection A as <-.
    apply finish_accept in F. destruct F as [-> [A B]]. tauto.
  - cbn [do_select_rows declared] in A. unfold select_rows_node in A. destruct (negb (subset (cols_used e) cols)); [discriminate|].
    apply finish_accept in A. destruct A as [-> [A B]]. tauto.
  - cbn [do_select_cols declared] in A. repeat match type of A with (if ?b then Reject else _) = _ => destruct b; [discriminate|] end.
    unfold select_node in A. repeat match type of A with (if ?b then Reject else _) = _ => destruct b; [discriminate|] end.
    apply finish_accept in A. destruct A as [-> [A B]]. tauto.
  - cbn [do_drop_cols declared] in A. destruct (negb (nonempty cs)); [injection A as <-; tauto|]. unfold drop_node in A.
    destruct (negb (subset cs cols)); [discriminate|]. apply finish_accept in A. destruct A as [-> [A B]]. tauto.
  - cbn [do_rename declared] in A. destruct (negb (nonempty m)); [injection A as <-; tauto|]. unfold rename_node in A.
    repeat match type of A with (if ?b then Reject else _) = _ => destruct b; [discriminate|] end.
    apply finish_accept in A. destruct A as [-> [A B]]. tauto.
  - cbn [do_map declared] in A. destruct (negb (nonempty m)); [injection A as <-; tauto|]. unfold map_node in A.
    repeat match type of A with (if ?b then Reject else _) = _ => destruct b; [discriminate|] end.
    apply finish_accept in A. destruct A as [-> [A B]]. tauto.
  - cbn [do_order declared] in A. match type of A with (if ?b then _ else _) = _ => destruct b; [injection A as <-; tauto|] end.
    unfold order_node in A. repeat match type of A with (if ?b then Reject else _) = _ => destruct b; [discriminate|] end.
    apply finish_accept in A. destruct A as [-> [A B]]. tauto.
  - cbn [do_join declared] in A. unfold join_node in A.
    repeat match type of A with (if ?b then Reject else _) = _ => destruct b; [discriminate|] end.
    match type of A with match finish ?n with _ => _ end = _ => destruct (finish n) as [|c'] eqn:F; [discriminate|] end.
    repeat match type of A with (if ?b then Reject else _) = _ => destruct b; [discriminate|] end.
    injection A as <-. apply finish_accept in F. destruct F as [-> [A B]]. tauto.
  - cbn [do_concat declared] in A. unfold concat_node in A. destruct (negb (subset cols b && subset b cols)); [discriminate|].
    destruct idc as [x|].
    + destruct (mem x cols); [discriminate|]. apply finish_accept in A. destruct A as [-> [A B]]. tauto.
    + apply finish_accept in A. destruct A as [-> [A B]]. tauto.
Qed.
End Accept.
