(* C26 -- proofs about Model/Builder.v against Model/BuilderSpec.v.
   Part 1: reflection of the boolean tests.  Part 2: each builder step on a bare column list is one conjunction of
   tests (`*_flat`).  Part 3: the conjunction fails iff a rule of BuilderSpec.violates is broken. *)
From Coq Require Import List Bool Arith String Lia.
Import ListNotations.
From DA Require Import Base.PyRT Model.Extend Gen.G_MergeOps Model.Builder Model.BuilderSpec.

(* ------------------------------------------------------------------ Part 1: reflection *)
Lemma nodupb_spec l : nodupb l = true <-> NoDup l.
Proof.
  induction l as [|x t IH]; simpl.
  - split; [constructor|reflexivity].
  - rewrite andb_true_iff, negb_true_iff, mem_false, IH. split.
    + intros [A B]. constructor; assumption.
    + intros N. inversion N; subst. split; assumption.
Qed.
Lemma nodupb_false l : nodupb l = false <-> ~ NoDup l.
Proof. rewrite <- nodupb_spec. destruct (nodupb l); split; congruence. Qed.

Lemma subset_false cols l : subset l cols = false <-> unknown_in cols l.
Proof.
  unfold subset, unknown_in. rewrite forallb_false. split.
  - intros [x [I E]]. exists x. split; [exact I|]. apply mem_false. exact E.
  - intros [x [I E]]. exists x. split; [exact I|]. apply mem_false. exact E.
Qed.
Lemma subset_true (cols l : list string) : subset l cols = true <-> (forall c, In c l -> In c cols).
Proof. apply subset_spec. Qed.

Lemma disjointb_false (a b : list string) : disjointb a b = false <-> exists x, In x a /\ In x b.
Proof.
  unfold disjointb. rewrite forallb_false. split.
  - intros [x [I E]]. exists x. split; [exact I|]. apply negb_false_iff in E. apply mem_In. exact E.
  - intros [x [I E]]. exists x. split; [exact I|]. apply negb_false_iff. apply mem_In. exact E.
Qed.

Lemma nonempty_true {A} (l : list A) : nonempty l = true <-> l <> [].
Proof. destruct l; simpl; split; congruence. Qed.
Lemma nonempty_false {A} (l : list A) : nonempty l = false <-> l = [].
Proof. destruct l; simpl; split; congruence. Qed.

Lemma notin_true l x : notin l x = true <-> ~ In x l.
Proof. unfold notin. rewrite negb_true_iff. apply mem_false. Qed.

Lemma strs_eqb_eq a : forall b, strs_eqb a b = true -> a = b.
Proof.
  induction a as [|x s IH]; intros [|y t] H; simpl in H; try discriminate; [reflexivity|].
  apply andb_true_iff in H. destruct H as [H1 H2]. apply String.eqb_eq in H1. subst. f_equal. apply IH, H2.
Qed.

Lemma finish_ok cols : cols <> [] -> NoDup cols -> finish cols = Accept cols.
Proof.
  intros NE N. unfold finish. apply nonempty_true in NE. apply nodupb_spec in N. rewrite NE, N. reflexivity.
Qed.
Lemma finish_accept cols c : finish cols = Accept c -> c = cols /\ cols <> [] /\ NoDup cols.
Proof.
  unfold finish. destruct (nonempty cols) eqn:E1; simpl; [|discriminate].
  destruct (nodupb cols) eqn:E2; [|discriminate]. intros [= <-].
  split; [reflexivity|]. split; [apply nonempty_true, E1|apply nodupb_spec, E2].
Qed.
Lemma finish_reject cols : finish cols = Reject <-> cols = [] \/ ~ NoDup cols.
Proof.
  unfold finish. destruct (nonempty cols) eqn:E1; simpl.
  - destruct (nodupb cols) eqn:E2.
    + split; [discriminate|]. intros [E|E]; [apply nonempty_true in E1; contradiction|apply nodupb_spec in E2; contradiction].
    + split; [|reflexivity]. intros _. right. apply nodupb_false, E2.
  - split; [|reflexivity]. intros _. left. apply nonempty_false, E1.
Qed.

Lemma NoDup_app_disj {A} (a b : list A) : NoDup a -> NoDup b -> (forall x, In x a -> ~ In x b) -> NoDup (a ++ b).
Proof.
  induction a as [|x t IH]; simpl; intros Na Nb D; [exact Nb|].
  inversion Na as [|y l Hx Nt]; subst. constructor.
  - rewrite in_app_iff. intros [I|I]; [contradiction|]. exact (D x (or_introl eq_refl) I).
  - apply IH; [exact Nt|exact Nb|]. intros z Iz. apply D. right. exact Iz.
Qed.

Lemma NoDup_app_new (src ks : list string) : NoDup src -> NoDup ks -> NoDup (src ++ filter (notin src) ks).
Proof.
  intros N1 N2. apply NoDup_app_disj; [exact N1|apply NoDup_filter, N2|].
  intros x I F. apply filter_In in F. destruct F as [_ F]. apply notin_true in F. contradiction.
Qed.

Lemma app_not_nil_l {A} (a b : list A) : a <> [] -> a ++ b <> [].
Proof. destruct a; simpl; congruence. Qed.

Ltac split_true := repeat match goal with X : _ && _ = true |- _ => apply andb_true_iff in X; destruct X end.

(* a chain of tests *)
Ltac chain :=
  repeat match goal with
  | |- context[if negb ?b then Reject else _] => destruct b eqn:?; cbn [negb andb orb]; try reflexivity
  | |- context[if ?b then Reject else _] => destruct b eqn:?; cbn [negb andb orb]; try reflexivity
  end.

(* ------------------------------------------------------------------ Part 2: one conjunction of tests per step *)
Section Flat.
Variable T : tables.
Variable cols : list string.
Hypothesis Ncols : NoDup cols.
Hypothesis NEcols : cols <> [].

Definition win_ops_ok (ops : assignments) (part : pspec) (order : list string) : bool :=
  negb (windowed T ops part order && negb (forallb (fun ke => win_op_ok T cols (nonempty order) (snd ke)) ops)).

Definition extend_conform (ops : assignments) (part : pspec) (order rev : list string) : bool :=
  (nodupb (keys ops) && disjointb (keys ops) (used_elsewhere ops))
  && extend_pre cols (keys ops) part order rev
  && subset (ops_used ops) cols
  && (nodupb (plist part) && nodupb order && nodupb rev)
  && (subset (plist part) cols && subset order cols)
  && subset rev order
  && disjointb (keys ops) (plist part ++ order ++ rev)
  && win_ops_ok ops part order.

Lemma extend_flat ops part order rev : ops <> [] ->
  build_step T cols (SExtend ops part order rev) =
  if extend_conform ops part order rev then Accept (cols ++ filter (notin cols) (keys ops)) else Reject.
Proof.
  intros NE. unfold build_step, apply_step, do_extend, extend_conform, win_ops_ok, parse_ok.
  destruct (nodupb (keys ops) && disjointb (keys ops) (used_elsewhere ops)) eqn:P; cbn [negb andb]; [|reflexivity].
  cbn [extend_parsed declared]. apply nonempty_true in NE. rewrite NE. cbn [negb].
  destruct (extend_pre cols (keys ops) part order rev) eqn:E1; cbn [negb andb]; [|reflexivity].
  unfold extend_node.
  chain.
  apply finish_ok; [apply app_not_nil_l, NEcols|].
  apply andb_true_iff in P. destruct P as [P _]. apply nodupb_spec in P. apply NoDup_app_new; assumption.
Qed.

Definition project_conform (ops : assignments) (group : list string) : bool :=
  (nodupb (keys ops) && disjointb (keys ops) (used_elsewhere ops))
  && wcg cols group
  && negb (negb (nonempty ops) && negb (nonempty group))
  && disjointb (keys ops) group
  && subset (group ++ ops_used ops) cols
  && nodupb group
  && forallb (fun ke => proj_op_ok T (snd ke)) ops.

Lemma project_flat ops group :
  build_step T cols (SProject ops group) =
  if project_conform ops group then Accept (group ++ filter (notin group) (keys ops)) else Reject.
Proof.
  unfold build_step, apply_step, do_project, project_conform, parse_ok.
  destruct (nodupb (keys ops) && disjointb (keys ops) (used_elsewhere ops)) eqn:P; cbn [negb andb]; [|reflexivity].
  cbn [project_parsed declared]. unfold project_node.
  chain.
  assert (NoDup (keys ops)) as Nk by (apply andb_true_iff in P; destruct P as [P _]; apply nodupb_spec in P; exact P).
  match goal with H : nodupb group = true |- _ => apply nodupb_spec in H; rename H into Ng end.
  rewrite finish_ok.
  - destruct (forallb (fun ke => proj_op_ok T (snd ke)) ops); reflexivity.
  - match goal with H : negb (nonempty ops) && negb (nonempty group) = false |- _ => rename H into NB end.
    destruct group as [|g gt]; [|simpl; congruence]. destruct ops as [|o ot]; [discriminate NB|]. simpl. congruence.
  - apply NoDup_app_new; assumption.
Qed.

Lemma select_rows_flat e :
  build_step T cols (SSelectRows e) = if subset (cols_used e) cols then Accept cols else Reject.
Proof.
  unfold build_step, apply_step. cbn [do_select_rows declared]. unfold select_rows_node.
  destruct (subset (cols_used e) cols); cbn [negb]; [|reflexivity]. apply finish_ok; assumption.
Qed.

Lemma select_cols_flat cs :
  build_step T cols (SSelectCols cs) = if nonempty cs && subset cs cols && nodupb cs then Accept cs else Reject.
Proof.
  unfold build_step, apply_step. cbn [do_select_cols declared]. unfold select_node, finish.
  destruct (nonempty cs); cbn [negb andb]; [|reflexivity].
  destruct (subset cs cols); cbn [negb andb]; [|reflexivity]. reflexivity.
Qed.

Lemma NoDup_filter_cols (f : string -> bool) : NoDup (filter f cols).
Proof. apply NoDup_filter. exact Ncols. Qed.

Lemma drop_cols_flat cs :
  build_step T cols (SDropCols cs) =
  if negb (nonempty cs) then Accept cols
  else if subset cs cols && nonempty (filter (notin cs) cols) then Accept (filter (notin cs) cols) else Reject.
Proof.
  unfold build_step, apply_step. cbn [do_drop_cols declared]. unfold drop_node.
  destruct (nonempty cs); cbn [negb]; [|reflexivity].
  destruct (subset cs cols); cbn [negb andb]; [|reflexivity].
  unfold finish. pose proof (NoDup_filter_cols (notin cs)) as N. apply nodupb_spec in N. rewrite N.
  rewrite andb_true_r. reflexivity.
Qed.

Lemma rename_flat m :
  build_step T cols (SRename m) =
  if negb (nonempty m) then Accept cols
  else if subset (map snd m) cols && negb (nonempty (collisions cols (map fst m) (map snd m))) && nodupb (renamed cols m)
       then Accept (renamed cols m) else Reject.
Proof.
  unfold build_step, apply_step. cbn [do_rename declared]. unfold rename_node. fold (renamed cols m).
  destruct (nonempty m); cbn [negb]; [|reflexivity].
  destruct (subset (map snd m) cols); cbn [negb andb]; [|reflexivity].
  destruct (nonempty (collisions cols (map fst m) (map snd m))); cbn [negb andb]; [reflexivity|].
  unfold finish. assert (nonempty (renamed cols m) = true) as NEr.
  { unfold renamed. destruct cols; [congruence|reflexivity]. }
  rewrite NEr. reflexivity.
Qed.

Lemma map_flat m :
  build_step T cols (SMap m) =
  if negb (nonempty m) then Accept cols
  else if subset (map fst m) cols && negb (nonempty (collisions cols (map_new m) (map fst m)))
          && (nonempty (mapped cols m) && nodupb (mapped cols m))
       then Accept (mapped cols m) else Reject.
Proof.
  unfold build_step, apply_step. cbn [do_map declared]. unfold map_node. fold (mapped cols m).
  destruct (nonempty m); cbn [negb]; [|reflexivity].
  destruct (subset (map fst m) cols); cbn [negb andb]; [|reflexivity].
  destruct (nonempty (collisions cols (map_new m) (map fst m))); cbn [negb andb]; reflexivity.
Qed.

Definition no_order (cs : list string) (limit : option nat) : bool :=
  negb (nonempty cs) && match limit with None => true | Some _ => false end.

Lemma order_flat cs rev limit :
  build_step T cols (SOrder cs rev limit) =
  if no_order cs limit then Accept cols
  else if subset cs cols && subset rev cs then Accept cols else Reject.
Proof.
  unfold build_step, apply_step, no_order. cbn [do_order declared]. unfold order_node.
  destruct (negb (nonempty cs) && match limit with None => true | Some _ => false end); [reflexivity|].
  destruct (subset cs cols); cbn [negb andb]; [|reflexivity].
  destruct (subset rev cs); cbn [negb]; [|reflexivity]. apply finish_ok; assumption.
Qed.

Definition join_names (b : list string) : list string :=
  let all := cols ++ filter (notin cols) b in
  if subset all cols then cols else if subset all b && subset b all then b else all.

Definition join_conform (b : list string) (on : list (string * string)) (jt : string) (check : bool) : bool :=
  subset (map fst on) cols && subset (map snd on) b
  && negb (check && negb (subset (set_inter cols b) (set_inter (map fst on) (map snd on))))
  && mem jt join_types
  && negb (String.eqb jt "CROSS" && nonempty on).

Lemma join_flat b on jt check : NoDup b -> b <> [] ->
  build_step T cols (SJoin b on jt check) = if join_conform b on jt check then Accept (join_names b) else Reject.
Proof.
  intros Nb NEb. unfold build_step, apply_step, join_conform. cbn [do_join declared]. unfold join_node. fold (join_names b).
  chain.
  assert (finish (join_names b) = Accept (join_names b)) as F.
  { unfold join_names. destruct (subset (cols ++ filter (notin cols) b) cols); [apply finish_ok; assumption|].
    destruct (subset (cols ++ filter (notin cols) b) b && subset b (cols ++ filter (notin cols) b)); [apply finish_ok; assumption|].
    apply finish_ok; [apply app_not_nil_l, NEcols|apply NoDup_app_new; assumption]. }
  rewrite F. chain. reflexivity.
Qed.

Definition concat_conform (b : list string) (idc : option string) : bool :=
  (subset cols b && subset b cols) && match idc with None => true | Some c => negb (mem c cols) end.

Lemma concat_flat b idc :
  build_step T cols (SConcat b idc) =
  if concat_conform b idc then Accept (match idc with None => cols | Some c => cols ++ [c] end) else Reject.
Proof.
  unfold build_step, apply_step, concat_conform. cbn [do_concat declared]. unfold concat_node.
  destruct (subset cols b && subset b cols); cbn [negb andb]; [|reflexivity].
  destruct idc as [c|]; [|apply finish_ok; assumption].
  destruct (mem c cols) eqn:M; cbn [negb]; [reflexivity|].
  apply finish_ok; [apply app_not_nil_l, NEcols|]. apply NoDup_app_disj; [exact Ncols|repeat constructor; simpl; tauto|].
  intros x I [<-|[]]. apply mem_false in M. contradiction.
Qed.
End Flat.

(* ------------------------------------------------------------------ Part 3: the conjunction fails iff a rule is broken *)
Lemma use_produce_false ops : disjointb (keys ops) (used_elsewhere ops) = false <-> used_by_other ops.
Proof.
  rewrite disjointb_false. unfold used_by_other, used_elsewhere. split.
  - intros [x [Ik Iu]]. apply in_flat_map in Iu. destruct Iu as [[k e] [Io Ir]]. simpl in Ir.
    apply In_remove_elem in Ir. destruct Ir as [Ic Ne]. exists k, e, x. tauto.
  - intros [k [e [k' [Io [Ik [Ne Ic]]]]]]. exists k'. split; [exact Ik|]. apply in_flat_map. exists (k, e).
    split; [exact Io|]. simpl. apply In_remove_elem. tauto.
Qed.

Lemma windowed_iff T ops part order : windowed T ops part order = true <-> windowed_spec T ops part order.
Proof.
  unfold windowed, windowed_spec, implies_windowed. rewrite !orb_true_iff, existsb_exists, !nonempty_true. split.
  - intros [[[[[k e] [I M]]|O]|P]|Q].
    + right. right. right. simpl in M. destruct e as [c| | |op args]; try discriminate. exists k, op, args.
      split; [exact I|apply mem_In, M].
    + left. destruct part; [reflexivity|discriminate].
    + right. left. exact P.
    + right. right. left. exact Q.
  - intros [O|[P|[Q|[k [op [args [I M]]]]]]].
    + left. left. right. subst. reflexivity.
    + left. right. exact P.
    + right. exact Q.
    + left. left. left. exists (k, EOp op args). split; [exact I|]. simpl. apply mem_In, M.
Qed.

Lemma is_val_true e : is_val e = true <-> e = EVal.
Proof. destruct e; simpl; split; congruence. Qed.

Lemma simple_arg_dec a : simple_arg a \/ ~ simple_arg a.
Proof.
  destruct a as [c| | |op args].
  - left. left. exists c. reflexivity.
  - left. right. reflexivity.
  - right. intros [[c E]|E]; discriminate.
  - right. intros [[c E]|E]; discriminate.
Qed.

(* what the per-assignment test of a windowed extend says *)
Lemma win_op_ok_true T src ordered e : win_op_ok T src ordered e = true ->
  exists op args, e = EOp op args /\ ~ too_complex_window e /\ ~ In op (t_cw T)
    /\ ~ (ordered = true /\ In op (t_co T)) /\ ~ (ordered = false /\ In op (t_ow T)).
Proof.
  destruct e as [c| | |op args]; simpl; try discriminate. intros H.
  repeat (apply andb_true_iff in H; destruct H as [H ?]).
  exists op, args. split; [reflexivity|]. repeat split.
  - intros [op' [args' [E [[a [t [Ea Ns]]]|[a [Ia Na]]]]]]; injection E as <- <-.
    + subst args. apply Ns. destruct a as [c| | |o l]; try discriminate; [left; exists c; reflexivity|right; reflexivity].
    + rewrite forallb_forall in H. apply Na, is_val_true, H, Ia.
  - match goal with X : negb (mem op (t_cw T)) = true |- _ => apply negb_true_iff, mem_false in X; exact X end.
  - intros [-> I]. match goal with X : negb (true && mem op (t_co T)) = true |- _ => apply negb_true_iff in X; simpl in X; apply mem_false in X; contradiction end.
  - intros [-> I]. match goal with X : negb (negb false && mem op (t_ow T)) = true |- _ => apply negb_true_iff in X; simpl in X; apply mem_false in X; contradiction end.
Qed.

Lemma win_op_ok_false T src ordered e : win_op_ok T src ordered e = false ->
  (forall op args, e <> EOp op args) \/ too_complex_window e \/ (exists c, In c (cols_used e) /\ ~ In c src)
  \/ (exists op args, e = EOp op args /\ (In op (t_cw T) \/ (ordered = true /\ In op (t_co T)) \/ (ordered = false /\ In op (t_ow T)))).
Proof.
  destruct e as [c| | |op args]; simpl; try (intros _; left; intros; discriminate). intros H.
  repeat (apply andb_false_iff in H; destruct H as [H|H]).
  - right. left. exists op, args. split; [reflexivity|]. right. apply forallb_false in H. destruct H as [a [Ia Na]].
    exists a. split; [exact Ia|]. intros E. apply is_val_true in E. congruence.
  - destruct args as [|a t]; [discriminate|]. destruct a as [c| | |o l]; try discriminate.
    + right. right. left. exists c. split; [simpl; left; reflexivity|apply mem_false, H].
    + right. left. exists op, (EColl :: t). split; [reflexivity|]. left. exists EColl, t. split; [reflexivity|]. intros [[c E]|E]; discriminate.
    + right. left. exists op, (EOp o l :: t). split; [reflexivity|]. left. exists (EOp o l), t. split; [reflexivity|]. intros [[c E]|E]; discriminate.
  - right. right. right. exists op, args. split; [reflexivity|]. left. apply negb_false_iff, mem_In in H. exact H.
  - right. right. right. exists op, args. split; [reflexivity|]. right. left. apply negb_false_iff, andb_true_iff in H. destruct H as [-> H]. split; [reflexivity|apply mem_In, H].
  - right. right. right. exists op, args. split; [reflexivity|]. right. right. apply negb_false_iff, andb_true_iff in H. destruct H as [O H].
    apply negb_true_iff in O. split; [exact O|apply mem_In, H].
Qed.

Lemma cols_used_in_ops (ops : assignments) k e c : In (k, e) ops -> In c (cols_used e) -> In c (ops_used ops).
Proof. intros I C. unfold ops_used. apply in_flat_map. exists (k, e). split; assumption. Qed.

Lemma key_in_keys (ops : assignments) k e : In (k, e) ops -> In k (keys ops).
Proof. intros I. unfold keys. apply in_map_iff. exists (k, e). split; [reflexivity|exact I]. Qed.

Lemma nonempty_order_true (order : list string) : nonempty order = true <-> order <> [].
Proof. apply nonempty_true. Qed.

Section ExtendIff.
Variable T : tables.
Variable cols : list string.

Lemma extend_nonconform_violates ops part order rev :
  extend_conform T cols ops part order rev = false -> violates_rule T cols (SExtend ops part order rev).
Proof.
  unfold extend_conform, extend_pre, wcg, win_ops_ok, violates_rule. intros H.
  repeat (apply andb_false_iff in H; destruct H as [H|H]).
  - exists X_duplicate_name. left. apply nodupb_false, H.
  - exists R_use_and_produce. apply use_produce_false, H.
  - exists X_duplicate_name. right. left. apply nodupb_false, H.
  - exists R_unknown_column. right. left. apply subset_false, H.
  - exists X_duplicate_name. right. right. left. apply nodupb_false, H.
  - exists R_unknown_column. right. right. left. apply subset_false, H.
  - exists X_duplicate_name. right. right. right. apply nodupb_false, H.
  - exists R_unknown_column. right. right. right. apply subset_false, H.
  - destruct (nonempty (plist part)); [|discriminate]. apply andb_false_iff in H. destruct H as [H|H]; apply disjointb_false in H; destruct H as [x [A B]].
    + exists R_change_window_column. exists x. split; [exact A|]. apply in_app_iff. left. exact B.
    + exists X_window_spec. right. exists x. split; assumption.
  - exists R_change_window_column. apply disjointb_false in H. destruct H as [x [A B]]. exists x. split; [exact A|]. rewrite !in_app_iff. tauto.
  - exists X_window_spec. left. apply subset_false in H. exact H.
  - exists R_unknown_column. left. apply subset_false, H.
  - exists X_duplicate_name. right. left. apply nodupb_false, H.
  - exists X_duplicate_name. right. right. left. apply nodupb_false, H.
  - exists X_duplicate_name. right. right. right. apply nodupb_false, H.
  - exists R_unknown_column. right. left. apply subset_false, H.
  - exists R_unknown_column. right. right. left. apply subset_false, H.
  - exists X_window_spec. left. apply subset_false in H. exact H.
  - exists R_change_window_column. apply disjointb_false in H. destruct H as [x [A B]]. exists x. split; assumption.
  - apply negb_false_iff, andb_true_iff in H. destruct H as [W F]. apply windowed_iff in W. apply negb_true_iff, forallb_false in F.
    destruct F as [[k e] [I F]]. simpl in F. apply win_op_ok_false in F. destruct F as [F|[F|[F|F]]].
    + exists R_not_aggregating. split; [exact W|]. exists k, e. split; [exact I|]. intros [op [args [E _]]]. exact (F op args E).
    + exists R_too_complex. split; [exact W|]. exists k, e. split; assumption.
    + exists R_unknown_column. left. destruct F as [c [C N]]. exists c. split; [eapply cols_used_in_ops; eassumption|exact N].
    + exists X_window_kind. split; [exact W|]. destruct F as [op [args [-> F]]]. exists k, op, args. split; [exact I|].
      destruct F as [F|[[O F]|[O F]]]; [left; exact F| |].
      * right. left. split; [apply nonempty_true, O|exact F].
      * right. right. split; [apply nonempty_false, O|exact F].
Qed.

Lemma extend_conform_no_violation ops part order rev :
  catalogued T (SExtend ops part order rev) ->
  extend_conform T cols ops part order rev = true -> forall r, ~ violates T cols (SExtend ops part order rev) r.
Proof.
  unfold extend_conform, extend_pre, wcg, win_ops_ok. intros G H.
  split_true.
  repeat match goal with X : nodupb _ = true |- _ => apply nodupb_spec in X end.
  repeat match goal with X : subset ?l ?c = true |- _ => apply (proj1 (subset_true c l)) in X end.
  repeat match goal with X : disjointb ?a ?b = true |- _ => apply (proj1 (disjointb_spec a b)) in X end.
  match goal with X : negb (windowed _ _ _ _ && _) = true |- _ => apply negb_true_iff in X; rename X into HW end.
  assert (windowed_spec T ops part order -> forall k e, In (k, e) ops -> win_op_ok T cols (nonempty order) e = true) as WOK.
  { intros W k e I. apply windowed_iff in W. rewrite W in HW. simpl in HW. apply negb_false_iff in HW.
    rewrite forallb_forall in HW. exact (HW (k, e) I). }
  intros r V. destruct r; simpl in V; try contradiction.
  - (* unknown column *)
    destruct V as [[c [I N]]|[[c [I N]]|[[c [I N]]|[c [I N]]]]]; apply N; auto.
  - (* change window column *)
    destruct V as [k [Ik Iw]]. match goal with X : forall x, In x (keys ops) -> ~ In x (plist part ++ order ++ rev) |- _ => exact (X k Ik Iw) end.
  - (* use and produce *)
    apply use_produce_false in V. match goal with X : forall x, In x (keys ops) -> ~ In x (used_elsewhere ops) |- _ => rename X into D end.
    apply disjointb_false in V. destruct V as [x [A B]]. exact (D x A B).
  - (* not aggregating *)
    destruct V as [W [k [e [I NA]]]]. destruct (win_op_ok_true _ _ _ _ (WOK W k e I)) as [op [args [-> _]]].
    apply NA. exists op, args. split; [reflexivity|]. exact (G W k op args I).
  - (* too complex *)
    destruct V as [W [k [e [I TC]]]]. destruct (win_op_ok_true _ _ _ _ (WOK W k e I)) as [op [args [-> [NT _]]]]. exact (NT TC).
  - (* window kind *)
    destruct V as [W [k [op [args [I K]]]]]. destruct (win_op_ok_true _ _ _ _ (WOK W k _ I)) as [op' [args' [E [_ [N1 [N2 N3]]]]]].
    injection E as <- <-. destruct K as [K|[[O K]|[O K]]]; [exact (N1 K)| |].
    + apply N2. split; [apply nonempty_true, O|exact K].
    + apply N3. split; [apply nonempty_false, O|exact K].
  - (* duplicate name *)
    destruct V as [V|[V|[V|V]]]; apply V; assumption.
  - (* window spec *)
    destruct V as [[c [I N]]|[c [I J]]].
    + apply N. auto.
    + destruct (nonempty (plist part)) eqn:NP.
      * match goal with X : disjointb (keys ops) (plist part) && disjointb (plist part) order = true |- _ => apply andb_true_iff in X; destruct X as [_ X]; rewrite disjointb_spec in X; exact (X c I J) end.
      * apply nonempty_false in NP. rewrite NP in I. destruct I.
Qed.
End ExtendIff.
