(* Proofs/ExprParseP19.v -- C13, part 3 (end): `built d` for every source AST; the round-trip theorems. *)
From Coq Require Import List Bool String Ascii ZArith NArith QArith Arith Lia.
Import ListNotations.
From DA Require Import Model.PyExpr Model.ExprPrint Model.ExprParse Model.ExprAst Model.ExprRoundtrip
  Proofs.ExprParseP1 Proofs.ExprParseP2 Proofs.ExprParseP6 Proofs.ExprParseP9 Proofs.ExprParseP10 Proofs.ExprParseP12
  Proofs.ExprParseP13 Proofs.ExprParseP14 Proofs.ExprParseP15 Proofs.ExprParseP16 Proofs.ExprParseP17 Proofs.ExprParseP18.
Local Close Scope Q_scope.
Local Open Scope string_scope.
Local Open Scope bool_scope.
Local Open Scope list_scope.

Section Main.
Variables (c : cfg) (dd : list string).
Notation PR := (printable c dd).
Notation W := (walk c dd).
Notation built := (built c dd).

(* ---- leaves *)
Lemma built_name s : src_ok (DName s) = true -> built (DName s).
Proof. intros Hs e Hw _. cbn [strip] in Hw. rewrite walk_node_eq, (wn_var c "var") in Hw; [|simpl; tauto].
  cbn [map nth walk] in Hw. destruct (mem_str s dd) eqn:M; [|discriminate Hw]. inversion Hw; subst.
  cbn [printable]. rewrite M. exact Hs. Qed.

Lemma built_num t : wfn (DNum t) = true -> built (DNum t).
Proof. intros Wf e Hw Hkf. cbn [strip] in Hw. rewrite walk_number in Hw.
  destruct t as [s|n|[m|]|s|s|b ty]; simpl in Wf; try discriminate Wf; cbn [walk] in Hw; try discriminate Hw;
    inversion Hw; subst; exact Hkf. Qed.

Lemma built_str t : wfn (DStr t) = true -> built (DStr t).
Proof. intros Wf e Hw Hkf. cbn [strip] in Hw. rewrite walk_node_eq, (wn_var c "string") in Hw; [|simpl; tauto].
  cbn [map nth] in Hw.
  destruct t as [s|n|m|s|s|b ty]; simpl in Wf; try discriminate Wf; cbn [walk] in Hw; try discriminate Hw;
    inversion Hw; subst; exact Hkf. Qed.

Lemma built_const k : wfn (DConst k) = true -> built (DConst k).
Proof. intros Wf e Hw Hkf. cbn [wfn] in Wf. apply mem_str_In in Wf. simpl in Wf.
  destruct Wf as [<-|[<-|[<-|[]]]]; cbn in Hw; inversion Hw; subst; reflexivity. Qed.

(* ---- not / unary / power *)
Lemma built_not x : built x -> built (DNot x).
Proof. intros Bx e Hw Hkf. cbn [strip] in Hw. rewrite walk_node_eq, wn_not in Hw. cbn [map] in Hw.
  destruct (W (strip x)) as [lft|] eqn:Wx; [|discriminate Hw].
  destruct (call_bin_inv c "__eq__" "==" true false true lft (EVal (PBool false)) e eq_refl Hw) as [E _].
  apply (not_printable c dd lft e Hw). apply (Bx lft Wx). subst e. apply kf_args in Hkf. cbn [forallb] in Hkf.
  apply andb_prop in Hkf as [K _]. exact K. Qed.

Lemma py_neg_inf v v' : py_neg v = Some v' -> is_inf v' = is_inf v.
Proof. destruct v; simpl; intros H; inversion H; reflexivity. Qed.

Lemma built_factor op x : wfn (DFactor op x) = true -> built x -> built (DFactor op x).
Proof. intros Wf Bx e Hw Hkf. simpl in Wf. apply andb_prop in Wf as [Wf _]. apply andb_prop in Wf as [Hu _].
  cbn [strip] in Hw. rewrite walk_node_eq, wn_factor in Hw. cbn [map tok_text] in Hw.
  destruct (W (strip x)) as [rgt|] eqn:Wx; [|discriminate Hw].
  destruct (uop_cases _ Hu) as [ -> | [ -> | -> ] ].
  - change (remap factor_remap "+") with "__pos__" in Hw. pose proof (call_pos c rgt e Hw) as E. subst e. exact (Bx rgt Wx Hkf).
  - change (remap factor_remap "-") with "__neg__" in Hw.
    apply (neg_printable c dd rgt e Hw); [|exact Hkf]. apply (Bx rgt Wx).
    destruct (call_neg c rgt e Hw) as [[v [v' [-> [Hn ->]]]]|[_ ->]].
    + cbn [expr_kf_ok] in *. rewrite <- (py_neg_inf _ _ Hn). exact Hkf.
    + apply kf_args in Hkf. cbn [forallb] in Hkf. apply andb_prop in Hkf as [K _]. exact K.
  - change (remap factor_remap "~") with "~" in Hw. unfold call_method in Hw.
    destruct (is_term rgt); [|discriminate Hw]. cbn [negb] in Hw.
    change (find_method "~" method_table) with (@None mspec) in Hw. discriminate Hw. Qed.

Lemma built_power b e0 : built b -> built e0 -> built (DPower b e0).
Proof. intros Bb Be e Hw Hkf. cbn [strip] in Hw. rewrite walk_node_eq, wn_power in Hw.
  cbn [List.length Nat.ltb Nat.leb map all_ok] in Hw.
  destruct (W (strip b)) as [a|] eqn:Wa; [|discriminate Hw]. destruct (W (strip e0)) as [b'|] eqn:Wb; [|discriminate Hw].
  cbn [pow_fold] in Hw. destruct (call_method c "__pow__" a [b']) as [e1|] eqn:Cm; [|discriminate Hw]. inversion Hw; subst e1.
  destruct (call_bin_inv c "__pow__" "**" true false true a b' e eq_refl Cm) as [E _].
  assert (K : expr_kf_ok a = true /\ expr_kf_ok b' = true).
  { subst e. apply kf_args in Hkf. cbn [forallb] in Hkf. apply andb_prop in Hkf as [K1 K2]. apply andb_prop in K2 as [K2 _]. auto. }
  destruct K as [Ka Kb]. exact (pow_printable c dd a b' e Cm (Bb a Wa Ka) (Be b' Wb Kb) Hkf). Qed.

(* ---- calls *)
Definition args_node' (ds : list dtree) : ltree :=
  match ds with [] => LNone | _ => LNode "arguments" (map strip ds) end.

Lemma call_args_inv (args : list dtree) al :
  call_args [args_node' args] (match args_node' args with LNode _ acs => Some (map W acs) | _ => None end) = Ok al ->
  all_ok (map W (map strip args)) = Ok al.
Proof. destruct args as [|x args]; [intros H; exact H|]. cbn [args_node' call_args]. intros H; exact H. Qed.

Lemma strip_call f args tr : strip (DCall f args tr) = LNode "funccall" [strip f; args_node' args].
Proof. destruct args; reflexivity. Qed.

Lemma forallb_app_l {A} (f : A -> bool) a b : forallb f (a ++ b) = true -> forallb f a = true.
Proof. rewrite forallb_app. intros H. apply andb_prop in H as [H _]. exact H. Qed.

Lemma built_call f args tr : src_ok (DCall f args tr) = true ->
  (forall o n, f = DAttr o n -> built o) -> (forall x, In x args -> built x) -> built (DCall f args tr).
Proof. intros Hs Bo Ba e Hw Hkf. cbn [src_ok] in Hs. apply andb_prop in Hs as [Hs _]. apply andb_prop in Hs as [Hf Hsf].
  rewrite strip_call in Hw. rewrite walk_node_eq, wn_funccall in Hw. cbn [List.length Nat.ltb Nat.leb] in Hw.
  destruct f as [| s | | | | | | | | | o n | |]; try discriminate Hf.
  - (* f(args) *)
    cbn [strip map tok_text] in Hw. change ("var" ==s "getattr") with false in Hw. cbv iota in Hw.
    match type of Hw with match ?A with Ok _ => _ | Err => _ end = _ => destruct A as [al|] eqn:CA; [|discriminate Hw] end.
    apply call_args_inv in CA. apply mk_expr_inv in Hw as [-> [Hk _]].
    cbn [printable]. rewrite (args_pr c dd args al CA (kf_args _ _ _ _ _ Hkf) Ba), Hk. cbn [andb].
    cbn [src_ok] in Hsf. rewrite Hsf. reflexivity.
  - (* o.n(args) *)
    cbn [strip map tok_text] in Hw. change ("getattr" ==s "getattr") with true in Hw. cbv iota in Hw.
    destruct (W (strip o)) as [self|] eqn:Wo; [|discriminate Hw].
    match type of Hw with match ?A with Ok _ => _ | Err => _ end = _ => destruct A as [al|] eqn:CA; [|discriminate Hw] end.
    apply call_args_inv in CA. cbn [src_ok] in Hsf. apply andb_prop in Hsf as [Hsf _]. apply andb_prop in Hsf as [_ Hd].
    apply negb_true_iff in Hd.
    destruct (call_method_shape c n self al e Hd Hw) as [op [i [m [extra E]]]].
    assert (K : expr_kf_ok self = true /\ forallb expr_kf_ok al = true).
    { subst e. apply kf_args in Hkf. cbn [forallb] in Hkf. apply andb_prop in Hkf as [K1 K2]. split; [exact K1|exact (forallb_app_l _ _ _ K2)]. }
    destruct K as [Ks Kal].
    apply (method_call_printable c dd n self al e Hd Hw (Bo o n eq_refl self Wo Ks)).
    exact (args_pr c dd args al CA Kal Ba). Qed.

(* ---- displays *)
Lemma built_coll k items tr : built (DColl k items tr).
Proof. intros e Hw Hkf.
  assert (Hd : exists d cs, strip (DColl k items tr) = LNode d cs /\ In d ["list"; "tuple"; "set"]).
  { destruct k, items as [|x [|y items]]; cbn [strip]; try (destruct tr); eexists; eexists; (split; [reflexivity|simpl; tauto]). }
  destruct Hd as [d [cs [E Hd]]]. rewrite E in Hw. rewrite walk_node_eq in Hw.
  exact (coll_printable c dd d _ _ _ _ e Hd Hw Hkf). Qed.

Lemma built_dict items tr : built (DDict items tr).
Proof. intros e Hw Hkf. destruct items as [|kv items].
  - cbn in Hw. discriminate Hw.
  - remember (kv :: items) as l.
    assert (E : strip (DDict l tr) = LNode "dict" [LNode "dict_comp" (map (fun kv => LNode "key_value" [strip (fst kv); strip (snd kv)]) l)]).
    { subst l. reflexivity. }
    rewrite E in Hw. rewrite walk_node_eq in Hw. apply (dict_printable c dd _ _ _ _ e Hw); [| |exact Hkf].
    + intros l0 Hl0 r x Hr Hx. inversion Hl0; subst l0. clear Hl0. apply in_map_iff in Hr as [t [<- Ht]].
      apply in_map_iff in Ht as [kv0 [<- _]]. rewrite walk_node_eq, wn_key_value in Hx. cbn [map] in Hx.
      destruct (W (strip (fst kv0))) as [[| k | | |]|]; try discriminate Hx.
      destruct (W (strip (snd kv0))) as [[| v | | |]|]; try discriminate Hx. inversion Hx. eauto.
    + intros l0 Hl0. inversion Hl0; subst l0. subst l. discriminate. Qed.

(* ---- every source AST *)
Lemma built_size : forall n d, dsize d < n -> wfn d = true -> src_ok d = true -> built d.
Proof. induction n as [|n IH]; intros d Hs Wf Hsrc; [lia|].
  destruct d as [x|s|t|t|k|L d0 rest|x|op x|b e0|f args tr|o nm|k items tr|items tr].
  - simpl in *. intros e Hw. apply (IH x); [lia|exact Wf|exact Hsrc|exact Hw].
  - apply built_name. exact Hsrc.
  - apply built_num. exact Wf.
  - apply built_str. exact Wf.
  - apply built_const. exact Wf.
  - pose proof Wf as Wf'. simpl in Wf'. apply andb_prop in Wf' as [Wf' Hrest]. apply andb_prop in Wf' as [_ W0].
    rewrite forallb_forall in Hrest. simpl in Hs. cbn [src_ok] in Hsrc. apply andb_prop in Hsrc as [S0 Sr]. rewrite forallb_forall in Sr.
    apply built_chain; [exact Wf|apply IH; [lia|exact W0|exact S0]|].
    intros p Hp. apply IH; [pose proof (dsize_rest rest p Hp); lia| |exact (Sr p Hp)].
    specialize (Hrest p Hp). apply andb_prop in Hrest as [_ Hw]. exact Hw.
  - simpl in Wf, Hs, Hsrc. apply andb_prop in Wf as [_ Wx]. apply built_not. apply IH; [lia|exact Wx|exact Hsrc].
  - pose proof Wf as Wf'. simpl in Wf', Hs, Hsrc. apply andb_prop in Wf' as [_ Wx].
    apply built_factor; [exact Wf|apply IH; [lia|exact Wx|exact Hsrc]].
  - simpl in Wf, Hs, Hsrc. apply andb_prop in Wf as [Wf We]. apply andb_prop in Wf as [Wf _]. apply andb_prop in Wf as [_ Wb].
    apply andb_prop in Hsrc as [Sb Se]. apply built_power; apply IH; try lia; assumption.
  - pose proof Hsrc as Hsrc'. cbn [src_ok] in Hsrc'. apply andb_prop in Hsrc' as [Hs1 Sargs]. apply andb_prop in Hs1 as [_ Sf].
    rewrite forallb_forall in Sargs.
    simpl in Wf, Hs. apply andb_prop in Wf as [Wf _]. apply andb_prop in Wf as [Wf Wargs]. apply andb_prop in Wf as [_ Wff].
    rewrite forallb_forall in Wargs.
    apply built_call; [exact Hsrc| |].
    + intros o' n' ->. simpl in Wff, Sf, Hs. apply andb_prop in Wff as [_ Wo]. apply andb_prop in Sf as [_ So].
      apply IH; [lia|exact Wo|exact So].
    + intros x Hx. apply IH; [pose proof (dsize_items args x Hx); lia|exact (Wargs x Hx)|exact (Sargs x Hx)].
  - intros e Hw. cbn [strip] in Hw. rewrite walk_node_eq, wn_getattr in Hw. discriminate Hw.
  - apply built_coll.
  - apply built_dict. Qed.

Theorem built_printable d e : wfn d = true -> src_ok d = true ->
  walk c dd (strip d) = Ok e -> expr_kf_ok e = true -> printable c dd e = true.
Proof. intros Wf Hs. exact (built_size (S (dsize d)) d (Nat.lt_succ_diag_r _) Wf Hs e). Qed.

(* parse the text of an AST, print the result, parse again: the same expression object *)
Theorem roundtrip_of_source d e : wfn d = true -> src_ok d = true ->
  parse c dd (unparse d) = Ok e -> expr_kf_ok e = true ->
  parse c dd (to_python e) = Ok e.
Proof. intros Wf Hs Hp Hkf. unfold parse in Hp. rewrite (lark_of_unparse d Wf) in Hp. unfold parse_tree in Hp.
  destruct (walk c dd (strip d)) as [e'|] eqn:Hw; [|discriminate Hp]. destruct (is_term e') eqn:Ht; [|discriminate Hp].
  inversion Hp; subst e'. apply printable_roundtrip; [exact (built_printable d e Wf Hs Hw Hkf)|exact Ht]. Qed.

End Main.
