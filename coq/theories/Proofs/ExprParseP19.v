(* Proofs/ExprParseP19.v -- C13, part 3 (end): `built d` for every source AST; the round-trip theorems. *)
From Coq Require Import List Bool String Ascii ZArith NArith QArith Arith Lia.
Import ListNotations.
From DA Require Import Model.PyExpr Model.ExprPrint Model.ExprParse Model.ExprAst Model.ExprRoundtrip
  Proofs.ExprParseP1 Proofs.ExprParseP2 Proofs.ExprParseP6 Proofs.ExprParseP9 Proofs.ExprParseP10 Proofs.ExprParseP12
  Proofs.ExprParseP13 Proofs.ExprParseP14 Proofs.ExprParseP15 Proofs.ExprParseP16 Proofs.ExprParseP17 Proofs.ExprParseP18.
Local Close Scope Q_scope.
Local Open Scope string_scope.
Local Open Scope bool_scope.
Local Open Scope list_scope.

(* ------------------------------------------------------------------ parentheses leave no node *)
Fixpoint unpar (d : dtree) : dtree := match d with DPar x => unpar x | _ => d end.
Lemma strip_unpar d : strip (unpar d) = strip d.
Proof. induction d; try reflexivity. simpl. assumption. Qed.
Lemma wfn_unpar d : wfn d = true -> wfn (unpar d) = true.
Proof. induction d; intros H; try exact H. simpl in *. auto. Qed.
Lemma src_ok_unpar d : src_ok d = true -> src_ok (unpar d) = true.
Proof. induction d; intros H; try exact H. simpl in *. auto. Qed.
Lemma dsize_unpar d : dsize (unpar d) <= dsize d.
Proof. induction d; simpl; lia. Qed.
Lemma unpar_not_par d x : unpar d <> DPar x.
Proof. induction d; simpl; try discriminate. assumption. Qed.

Lemma level_name_cases L : In (level_name L) ["or_test"; "and_test"; "comparison"; "expr"; "xor_expr"; "and_expr"; "shift_expr"; "arith_expr"; "term"].
Proof. destruct L as [|[|[|[|[|[|[|[|[|L]]]]]]]]]; simpl; tauto. Qed.

(* the root of the tree of a well-formed AST: its kind *)
Definition root_kind (t : ltree) : string := match t with LNode d _ => d | _ => "" end.
Lemma strip_is_node d : wfn d = true -> exists k cs, strip d = LNode k cs /\ mem_str k ["tuplelist_comp"; "set_comp"] = false.
Proof. induction d as [x IH|s|t|t|k|L d0 IH0 rest|x IH|op x IH|b IHb e IHe|f IHf args tr|o IH nm|k items tr|items tr]; intros W.
  - simpl in *. exact (IH W).
  - eexists; eexists; split; reflexivity.
  - eexists; eexists; split; reflexivity.
  - eexists; eexists; split; reflexivity.
  - cbn [strip]. destruct (k ==s "None"); [|destruct (k ==s "True")]; eexists; eexists; split; reflexivity.
  - simpl in W. apply andb_prop in W as [W _]. apply andb_prop in W as [W _]. apply andb_prop in W as [W _]. apply andb_prop in W as [_ Hne].
    cbn [strip]. unfold mk_chain. destruct rest as [|p rest]; [discriminate Hne|]. cbn [map].
    eexists; eexists; split; [reflexivity|]. pose proof (level_name_cases L) as H. simpl in H.
    destruct H as [<-|[<-|[<-|[<-|[<-|[<-|[<-|[<-|[<-|[]]]]]]]]]]; reflexivity.
  - eexists; eexists; split; reflexivity.
  - eexists; eexists; split; reflexivity.
  - eexists; eexists; split; reflexivity.
  - eexists; eexists; split; reflexivity.
  - eexists; eexists; split; reflexivity.
  - cbn [strip]. destruct k, items as [|x [|y items]]; try destruct tr; eexists; eexists; split; reflexivity.
  - cbn [strip]. destruct items; eexists; eexists; split; reflexivity. Qed.

Section Main.
Variables (c : cfg) (dd : list string).
Notation PR := (printable c dd).
Notation W := (walk c dd).
Notation built := (built c dd).

(* ---- leaves *)
Lemma built_name s : src_ok (DName s) = true -> built (DName s).
Proof. intros Hs e Hw. cbn [strip] in Hw. rewrite walk_node_eq, (wn_var c "var") in Hw; [|simpl; tauto].
  cbn [map nth walk] in Hw. destruct (mem_str s dd) eqn:M; [|discriminate Hw]. inversion Hw; subst.
  cbn [printable]. rewrite M. exact Hs. Qed.

Lemma built_num t : wfn (DNum t) = true -> built (DNum t).
Proof. intros Wf e Hw. cbn [strip] in Hw. rewrite walk_number in Hw.
  destruct t as [s|n|[m|]|s|s|b ty]; simpl in Wf; try discriminate Wf; cbn [walk] in Hw; try discriminate Hw;
    inversion Hw; subst; reflexivity. Qed.

Lemma built_str t : wfn (DStr t) = true -> built (DStr t).
Proof. intros Wf e Hw. cbn [strip] in Hw. rewrite walk_node_eq, (wn_var c "string") in Hw; [|simpl; tauto].
  cbn [map nth] in Hw.
  destruct t as [s|n|m|s|s|b ty]; simpl in Wf; try discriminate Wf; cbn [walk] in Hw; try discriminate Hw;
    inversion Hw; subst; reflexivity. Qed.

Lemma built_const k : wfn (DConst k) = true -> built (DConst k).
Proof. intros Wf e Hw. cbn [wfn] in Wf. apply mem_str_In in Wf. simpl in Wf.
  destruct Wf as [<-|[<-|[<-|[]]]]; cbn in Hw; inversion Hw; subst; reflexivity. Qed.

(* ---- not / unary / power *)
Lemma built_not x : built x -> built (DNot x).
Proof. intros Bx e Hw. cbn [strip] in Hw. rewrite walk_node_eq, wn_not in Hw. cbn [map] in Hw.
  destruct (W (strip x)) as [lft|] eqn:Wx; [|discriminate Hw].
  exact (not_printable c dd lft e Hw (Bx lft Wx)). Qed.

Lemma built_factor op x : wfn (DFactor op x) = true -> built x -> built (DFactor op x).
Proof. intros Wf Bx e Hw. simpl in Wf. apply andb_prop in Wf as [Wf _]. apply andb_prop in Wf as [Hu _].
  cbn [strip] in Hw. rewrite walk_node_eq, wn_factor in Hw. cbn [map tok_text] in Hw.
  destruct (W (strip x)) as [rgt|] eqn:Wx; [|discriminate Hw].
  destruct (uop_cases _ Hu) as [ -> | [ -> | -> ] ].
  - change (remap factor_remap "+") with "__pos__" in Hw. exact (pos_printable c dd rgt e Hw (Bx rgt Wx)).
  - change (remap factor_remap "-") with "__neg__" in Hw. exact (neg_printable c dd rgt e Hw (Bx rgt Wx)).
  - change (remap factor_remap "~") with "~" in Hw. unfold call_method in Hw.
    destruct (is_term rgt); [|discriminate Hw]. cbn [negb] in Hw.
    change (find_method "~" method_table) with (@None mspec) in Hw. discriminate Hw. Qed.

Lemma built_power b e0 : built b -> built e0 -> built (DPower b e0).
Proof. intros Bb Be e Hw. cbn [strip] in Hw. rewrite walk_node_eq, wn_power in Hw.
  cbn [List.length Nat.ltb Nat.leb map all_ok] in Hw.
  destruct (W (strip b)) as [a|] eqn:Wa; [|discriminate Hw]. destruct (W (strip e0)) as [b'|] eqn:Wb; [|discriminate Hw].
  cbn [pow_fold] in Hw. destruct (call_method c "__pow__" a [b']) as [e1|] eqn:Cm; [|discriminate Hw]. inversion Hw; subst e1.
  exact (pow_printable c dd a b' e Cm (Bb a Wa) (Be b' Wb)). Qed.

(* ---- calls *)
Definition args_node' (ds : list dtree) : ltree :=
  match ds with [] => LNone | _ => LNode "arguments" (map strip ds) end.

Lemma call_args_inv (args : list dtree) al :
  call_args [args_node' args] (match args_node' args with LNode _ acs => Some (map W acs) | _ => None end) = Ok al ->
  all_ok (map W (map strip args)) = Ok al.
Proof. destruct args as [|x args]; [intros H; exact H|]. cbn [args_node' call_args]. intros H; exact H. Qed.

Lemma strip_call f args tr : strip (DCall f args tr) = LNode "funccall" [strip f; args_node' args].
Proof. destruct args; reflexivity. Qed.

(* f(args) *)
Lemma built_call_name s args tr f : strip f = LNode "var" [LTok (TName s)] -> negb (is_sym_text s) = true ->
  (forall x, In x args -> built x) -> built (DCall f args tr).
Proof. intros Ef Hs Ba e Hw. rewrite strip_call, Ef in Hw. rewrite walk_node_eq, wn_funccall in Hw.
  cbn [List.length Nat.ltb Nat.leb map tok_text] in Hw. change ("var" ==s "getattr") with false in Hw.
  change (negb ("var" ==s "var")) with false in Hw. cbv iota in Hw.
  match type of Hw with match ?A with Ok _ => _ | Err => _ end = _ => destruct A as [al|] eqn:CA; [|discriminate Hw] end.
  apply call_args_inv in CA. apply mk_expr_inv in Hw as [-> [Hk _]].
  cbn [printable]. rewrite (args_pr c dd args al CA Ba), Hk, Hs. reflexivity. Qed.

(* o.n(args) *)
Lemma built_call_method o n args tr f : strip f = LNode "getattr" [strip o; LTok (TName n)] ->
  built o -> (forall x, In x args -> built x) -> built (DCall f args tr).
Proof. intros Ef Bo Ba e Hw. rewrite strip_call, Ef in Hw. rewrite walk_node_eq, wn_funccall in Hw.
  cbn [List.length Nat.ltb Nat.leb map tok_text] in Hw. change ("getattr" ==s "getattr") with true in Hw. cbv iota in Hw.
  destruct (W (strip o)) as [self|] eqn:Wo; [|discriminate Hw].
  match type of Hw with match ?A with Ok _ => _ | Err => _ end = _ => destruct A as [al|] eqn:CA; [|discriminate Hw] end.
  apply call_args_inv in CA. destruct (is_dunder n) eqn:Hd; [discriminate Hw|].
  exact (method_call_printable c dd n self al e Hd Hw (Bo self Wo) (args_pr c dd args al CA Ba)). Qed.

(* anything else cannot be called *)
Lemma built_call_other f args tr k cs : strip f = LNode k cs -> (k ==s "getattr") = false -> (k ==s "var") = false ->
  built (DCall f args tr).
Proof. intros Ef Hg Hv e Hw. rewrite strip_call, Ef in Hw. rewrite walk_node_eq, wn_funccall in Hw.
  cbn [List.length Nat.ltb Nat.leb] in Hw. rewrite Hg, Hv in Hw. discriminate Hw. Qed.

(* ---- displays *)
Lemma coll_items_strip k items tr : wfn (DColl k items tr) = true ->
  exists d c0, strip (DColl k items tr) = LNode d [c0] /\ In d ["list"; "tuple"; "set"] /\
    coll_items [c0] [W c0] (match c0 with LNode _ gcs => Some (map W gcs) | _ => None end) = Some (map W (map strip items)).
Proof. intros Wf. simpl in Wf. apply andb_prop in Wf as [Hit Hshape]. rewrite forallb_forall in Hit.
  destruct k, items as [|x [|y items]]; cbn [strip]; try (destruct tr; try discriminate Hshape);
    try (eexists; eexists; split; [reflexivity|split; [simpl; tauto|reflexivity]]).
  (* [x] : the lone item itself *)
  destruct (strip_is_node x (Hit x (or_introl eq_refl))) as [kx [csx [Ex Hk]]].
  eexists; eexists; split; [reflexivity|split; [simpl; tauto|]]. cbn [map]. rewrite Ex. cbn [coll_items]. rewrite Hk. reflexivity. Qed.

Lemma built_coll k items tr : wfn (DColl k items tr) = true -> (forall x, In x items -> built x) -> built (DColl k items tr).
Proof. intros Wf Bi e Hw. destruct (coll_items_strip k items tr Wf) as [d [c0 [E [Hd Hl]]]]. rewrite E in Hw.
  rewrite walk_node_eq in Hw. cbn [map] in Hw.
  apply (coll_printable c dd d [c0] [W c0] _ None e _ Hd Hl); [|exact Hw].
  intros x Hx. apply in_map_iff in Hx as [t [Ht Hin]]. apply in_map_iff in Hin as [it [<- Hit]]. exact (Bi it Hit x Ht). Qed.

Lemma built_dict items tr : (forall kv, In kv items -> built (fst kv) /\ built (snd kv)) -> built (DDict items tr).
Proof. intros Bi e Hw. destruct items as [|kv items].
  - cbn in Hw. discriminate Hw.
  - remember (kv :: items) as l.
    assert (E : strip (DDict l tr) = LNode "dict" [LNode "dict_comp" (map (fun kv => LNode "key_value" [strip (fst kv); strip (snd kv)]) l)]).
    { subst l. reflexivity. }
    rewrite E in Hw. rewrite walk_node_eq in Hw. apply (dict_printable c dd _ _ _ _ e Hw).
    + intros l0 Hl0 x Hr. inversion Hl0; subst l0. clear Hl0. apply in_map_iff in Hr as [t [Hx Ht]].
      apply in_map_iff in Ht as [kv0 [<- Hkv]]. rewrite walk_node_eq, wn_key_value in Hx. cbn [map] in Hx.
      destruct (Bi kv0 Hkv) as [Bk Bv].
      destruct (W (strip (fst kv0))) as [[| k | | |]|] eqn:Wk; try discriminate Hx.
      destruct (W (strip (snd kv0))) as [[| v | | |]|] eqn:Wv; try discriminate Hx. inversion Hx.
      pose proof (Bk _ Wk) as Pk. pose proof (Bv _ Wv) as Pv. cbn [printable] in Pk, Pv.
      apply negb_true_iff in Pk. apply negb_true_iff in Pv. eauto.
    + intros l0 Hl0. inversion Hl0; subst l0. subst l. discriminate. Qed.

(* ---- every source AST *)
Lemma built_size : forall n d, dsize d < n -> wfn d = true -> src_ok d = true -> built d.
Proof. induction n as [|n IH]; intros d Hs Wf Hsrc; [lia|].
  destruct d as [x|s|t|t|k|L d0 rest|x|op x|b e0|f args tr|o nm|k items tr|items tr].
  - simpl in *. intros e Hw. apply (IH x); [lia|exact Wf|exact Hsrc|exact Hw].
  - apply built_name. exact Hsrc.
  - apply built_num. exact Wf.
  - apply built_str. exact Wf.
  - apply built_const. exact Wf.
  - pose proof Wf as Wf'. simpl in Wf'. apply andb_prop in Wf' as [Wf' Hrest]. apply andb_prop in Wf' as [_ W0].
    rewrite forallb_forall in Hrest. simpl in Hs. cbn [src_ok] in Hsrc. apply andb_prop in Hsrc as [S0 Sr]. rewrite forallb_forall in Sr.
    apply built_chain; [exact Wf|apply IH; [lia|exact W0|exact S0]|].
    intros p Hp. apply IH; [pose proof (dsize_rest rest p Hp); lia| |exact (Sr p Hp)].
    specialize (Hrest p Hp). apply andb_prop in Hrest as [_ Hw]. exact Hw.
  - simpl in Wf, Hs, Hsrc. apply andb_prop in Wf as [_ Wx]. apply built_not. apply IH; [lia|exact Wx|exact Hsrc].
  - pose proof Wf as Wf'. simpl in Wf', Hs, Hsrc. apply andb_prop in Wf' as [_ Wx].
    apply built_factor; [exact Wf|apply IH; [lia|exact Wx|exact Hsrc]].
  - simpl in Wf, Hs, Hsrc. apply andb_prop in Wf as [Wf We]. apply andb_prop in Wf as [Wf _]. apply andb_prop in Wf as [_ Wb].
    apply andb_prop in Hsrc as [Sb Se]. apply built_power; apply IH; try lia; assumption.
  - (* call: what is called, parentheses aside *)
    cbn [src_ok] in Hsrc. apply andb_prop in Hsrc as [Sf Sargs]. rewrite forallb_forall in Sargs.
    simpl in Wf, Hs. apply andb_prop in Wf as [Wf _]. apply andb_prop in Wf as [Wf Wargs]. apply andb_prop in Wf as [_ Wff].
    rewrite forallb_forall in Wargs.
    assert (Ba : forall x, In x args -> built x).
    { intros x Hx. apply IH; [pose proof (dsize_items args x Hx); lia|exact (Wargs x Hx)|exact (Sargs x Hx)]. }
    pose proof (wfn_unpar f Wff) as Wu. pose proof (src_ok_unpar f Sf) as Su. pose proof (dsize_unpar f) as Du.
    pose proof (strip_unpar f) as Eu.
    destruct (unpar f) as [x|s|t|t|k|L d0 rest|x|op x|b e0|g gargs gtr|o nm|k items gtr|items gtr] eqn:Uf.
    + exfalso. exact (unpar_not_par f x Uf).
    + apply (built_call_name s args tr f); [rewrite <- Eu; reflexivity|exact Su|exact Ba].
    + apply (built_call_other f args tr "number" [LTok t]); [rewrite <- Eu; reflexivity|reflexivity|reflexivity].
    + apply (built_call_other f args tr "string" [LTok t]); [rewrite <- Eu; reflexivity|reflexivity|reflexivity].
    + destruct (strip_is_node (DConst k) Wu) as [kk [cs [E _]]]. cbn [wfn] in Wu. apply mem_str_In in Wu. simpl in Wu.
      destruct Wu as [<-|[<-|[<-|[]]]]; eapply built_call_other; try (rewrite <- Eu; reflexivity); reflexivity.
    + destruct (strip_is_node _ Wu) as [kk [cs [E _]]].
      assert (Hk : In kk ["or_test"; "and_test"; "comparison"; "expr"; "xor_expr"; "and_expr"; "shift_expr"; "arith_expr"; "term"]).
      { pose proof Wu as Wu'. simpl in Wu'. apply andb_prop in Wu' as [Wu' _]. apply andb_prop in Wu' as [Wu' _]. apply andb_prop in Wu' as [Wu' _].
        apply andb_prop in Wu' as [_ Hne]. cbn [strip] in E. unfold mk_chain in E. destruct rest as [|p rest]; [discriminate Hne|].
        cbn [map] in E. inversion E. apply level_name_cases. }
      apply (built_call_other f args tr kk cs); [rewrite <- Eu; exact E| |];
        simpl in Hk; destruct Hk as [<-|[<-|[<-|[<-|[<-|[<-|[<-|[<-|[<-|[]]]]]]]]]]; reflexivity.
    + eapply built_call_other; try (rewrite <- Eu; reflexivity); reflexivity.
    + eapply built_call_other; try (rewrite <- Eu; reflexivity); reflexivity.
    + eapply built_call_other; try (rewrite <- Eu; reflexivity); reflexivity.
    + eapply built_call_other; [rewrite <- Eu; apply strip_call|reflexivity|reflexivity].
    + simpl in Wu, Su, Du. apply andb_prop in Wu as [_ Wo]. apply andb_prop in Su as [_ So].
      apply (built_call_method o nm args tr f); [rewrite <- Eu; reflexivity| |exact Ba].
      apply IH; [lia|exact Wo|exact So].
    + destruct (strip_is_node _ Wu) as [kk [cs [E _]]].
      assert (Hk : In kk ["list"; "tuple"; "set"]).
      { destruct (coll_items_strip k items gtr Wu) as [d [c0 [E2 [Hd _]]]]. rewrite E in E2. inversion E2. exact Hd. }
      apply (built_call_other f args tr kk cs); [rewrite <- Eu; exact E| |];
        simpl in Hk; destruct Hk as [<-|[<-|[<-|[]]]]; reflexivity.
    + destruct items; eapply built_call_other; try (rewrite <- Eu; reflexivity); reflexivity.
  - intros e Hw. cbn [strip] in Hw. rewrite walk_node_eq, wn_getattr in Hw. discriminate Hw.
  - pose proof Wf as Wf'. simpl in Wf', Hs. apply andb_prop in Wf' as [Wi _]. rewrite forallb_forall in Wi.
    cbn [src_ok] in Hsrc. rewrite forallb_forall in Hsrc.
    apply built_coll; [exact Wf|]. intros x Hx. apply IH; [pose proof (dsize_items items x Hx); lia|exact (Wi x Hx)|exact (Hsrc x Hx)].
  - simpl in Wf, Hs. apply andb_prop in Wf as [Wi _]. rewrite forallb_forall in Wi.
    cbn [src_ok] in Hsrc. rewrite forallb_forall in Hsrc.
    apply built_dict. intros kv Hkv. specialize (Wi kv Hkv). specialize (Hsrc kv Hkv).
    apply andb_prop in Wi as [Wk Wv]. apply andb_prop in Hsrc as [Sk Sv]. pose proof (dsize_kvs items kv Hkv).
    split; apply IH; try lia; assumption. Qed.

Theorem built_printable d e : wfn d = true -> src_ok d = true ->
  walk c dd (strip d) = Ok e -> printable c dd e = true.
Proof. intros Wf Hs. exact (built_size (S (dsize d)) d (Nat.lt_succ_diag_r _) Wf Hs e). Qed.

(* parse the text of an AST, print the result, parse again: the same expression object *)
Theorem roundtrip_of_source d e : wfn d = true -> src_ok d = true ->
  parse c dd (unparse d) = Ok e -> parse c dd (to_python e) = Ok e.
Proof. intros Wf Hs Hp. unfold parse in Hp. rewrite (lark_of_unparse d Wf) in Hp. unfold parse_tree in Hp.
  destruct (walk c dd (strip d)) as [e'|] eqn:Hw; [|discriminate Hp]. destruct (is_term e') eqn:Ht; [|discriminate Hp].
  inversion Hp; subst e'. apply printable_roundtrip; [exact (built_printable d e Wf Hs Hw)|exact Ht]. Qed.

End Main.
