(* C06, part 7: accept / reject.  Restated from C26 (Proofs/BuilderSimplP.simplification_independent, over the hand model of the
   builders' validation Model/Builder.v and the REGENERATED try_to_merge_ops): on every prefix the builder can have produced -- order_rows
   skipped, select_columns collapsed, extends merged -- the next step is accepted exactly when it is accepted on the prefix's declared
   columns alone, which is all the step-by-step sequence sees (a table description of the materialised result), and then with the
   same set of columns.  This is the inductive step of "a simplified chain accepts iff the unsimplified sequence does". *)
From Coq Require Import List Bool String.
Import ListNotations.
From DA Require Import Base.PyRT.
From DA Require Model.Builder Model.BuilderSpec Proofs.BuilderSimplP.

Lemma accepts_iff (T : Builder.tables) (p : Builder.prefix) (s : Builder.step) : BuilderSpec.wf_prefix T p ->
  ((exists c, Builder.apply_step T p s = Builder.Accept c) <-> (exists c, Builder.build_step T (Builder.declared p) s = Builder.Accept c))
  /\ BuilderSpec.same_outcome (Builder.apply_step T p s) (Builder.build_step T (Builder.declared p) s).
Proof.
  intros W. pose proof (BuilderSimplP.simplification_independent T p s W) as O. split; [|exact O].
  destruct (Builder.apply_step T p s) as [|c1], (Builder.build_step T (Builder.declared p) s) as [|c2]; cbn in O; try contradiction.
  - split; intros [c H]; discriminate H.
  - split; intros _; eexists; reflexivity.
Qed.
