(* C11, part 4: the forgetful map to_sem -- its image declares the columns the node constructors compute, equal pipelines
   declare the same columns, and equal assignment dicts have the same image key by key. *)
From Coq Require Import List Bool Arith ZArith QArith String Lia Permutation.
Import ListNotations.
From DA Require Import Base.PyRT Base.Val Model.Sem Model.Equiv Proofs.SemBasicP Proofs.EquivP1 Proofs.EquivP2 Proofs.EquivP3.
Local Open Scope list_scope.

Ltac inv_some :=
  repeat match goal with
         | H : match ?x with Some _ => _ | None => None end = Some _ |- _ => destruct x eqn:?; [|discriminate]
         | H : (if ?c then _ else None) = Some _ |- _ => destruct c eqn:?; [|discriminate]
         | H : option_map _ ?x = Some _ |- _ => destruct x eqn:?; [|discriminate]; simpl in H
         | H : Some _ = Some _ |- _ => inversion H; clear H; subst
         end.

(* ------------------------------------------------------------------ the image of the assignments *)
Lemma ops_sem_keys ops : forall sops, ops_sem ops = Some sops -> map fst sops = map fst ops.
Proof. induction ops as [|[k e] t IH]; intros sops E; simpl in E; [inversion E; reflexivity|].
  destruct (expr_sem e); [|discriminate]. destruct (ops_sem t) as [t'|]; [|discriminate]. inversion E; subst. simpl.
  rewrite (IH t' eq_refl). reflexivity. Qed.
Lemma ops_sem_get ops : forall sops k, ops_sem ops = Some sops ->
  dict_get sops k = match dict_get ops k with Some e => expr_sem e | None => None end.
Proof. induction ops as [|[k0 e] t IH]; intros sops k E; simpl in E; [inversion E; reflexivity|].
  destruct (expr_sem e) as [e'|] eqn:Ee; [|discriminate]. destruct (ops_sem t) as [t'|]; [|discriminate]. inversion E; subst. simpl.
  destruct (eq_dec k k0); [symmetry; exact Ee|apply IH; reflexivity]. Qed.

Lemma filter_disjoint_id (ks gb : list string) : disjointb ks gb = true -> filter (fun k => negb (mem k gb)) ks = ks.
Proof. intros D. rewrite disjointb_spec in D. induction ks as [|k t IH]; simpl; [reflexivity|].
  assert (mem k gb = false) as M by (apply mem_false, D; left; reflexivity). rewrite M. simpl. f_equal.
  apply IH. intros x Hx. apply D. right. exact Hx. Qed.

(* ------------------------------------------------------------------ the image has the declared columns *)
Lemma cn_to_sem a : forall s, to_sem a = Some s -> column_names s = ecolumn_names a.
Proof. induction a as [n cs ql|s IH ops p o r w|s IH ops gb|s IH e|s IH cs|s IH cs|s IH m|s IH m d|s IH cs r l
                      |x IHx y IHy oa ob jt|x IHx y IHy ic an bn|s IH rm]; intros sa T; cbn [to_sem] in T; inv_some;
    cbn [column_names ecolumn_names]; try reflexivity;
    try (rewrite (IH _ eq_refl); reflexivity).
  - rewrite (IH _ eq_refl). erewrite ops_sem_keys by eassumption. reflexivity.
  - erewrite ops_sem_keys by eassumption. rewrite filter_disjoint_id by assumption. reflexivity.
  - destruct (eqb (join_cols (ecolumn_names x) (ecolumn_names y)) _) eqn:J; inv_some; cbn [column_names]; [|reflexivity].
    apply (proj1 (eqb_true _ _)) in J. rewrite J, (IHx _ eq_refl), (IHy _ eq_refl). reflexivity.
  - rewrite (IHx _ eq_refl). reflexivity.
  - discriminate. Qed.

(* ------------------------------------------------------------------ equal pipelines declare the same columns *)
Lemma eqb_cols q a b : eop_eqb q a b = true -> ragree q a b = true -> ecolumn_names a = ecolumn_names b.
Proof. destruct a, b; cbn [eop_eqb ragree]; intros E G; try (match type of E with false = true => discriminate end);
    try (split_andb; match goal with H : eqb (ecolumn_names _) (ecolumn_names _) = true |- _ => exact (proj1 (eqb_true _ _) H) end).
  simpl. destruct (q_table_key_only q); split_andb; eqb_to_eq; assumption. Qed.

(* ------------------------------------------------------------------ equal assignment dicts have the same image, key by key *)
Lemma ops_lookups q ops ops' sops sops' :
  ops_eq q ops ops' = true -> ragree_ops q ops ops' = true -> ops_sem ops = Some sops -> ops_sem ops' = Some sops' ->
  forall k, dict_get sops k = dict_get sops' k.
Proof. intros E G S S' k. rewrite (ops_sem_get ops sops k S), (ops_sem_get ops' sops' k S').
  rewrite ops_eq_unfold in E. apply andb_true_iff in E. destruct E as [K F]. unfold ragree_ops in G.
  pose proof (keys_test_set q ops ops' K k) as KS.
  destruct (dict_get ops k) as [e|] eqn:D1.
  - assert (In k (map fst ops)) as I by (eapply dict_get_Some_keys; eassumption).
    rewrite forallb_forall in F, G. specialize (F k I). specialize (G k I). rewrite D1 in F, G.
    destruct (dict_get ops' k) as [e'|]; [|discriminate]. apply is_equal_sem with (q := q); assumption.
  - destruct (dict_get ops' k) as [e'|] eqn:D2; [|reflexivity].
    apply dict_get_Some_keys in D2. apply KS in D2. apply dict_get_None in D1. contradiction. Qed.

(* with the repaired flags the guard of the result theorem is vacuous *)
Lemma ragree_ops_fixed o1 o2 : ragree_ops q_fixed o1 o2 = true.
Proof. unfold ragree_ops. apply forallb_forall. intros k _.
  destruct (dict_get o1 k), (dict_get o2 k); try reflexivity. apply ragree_expr_fixed. Qed.
Lemma ragree_fixed a : forall b, ragree q_fixed a b = true.
Proof. induction a as [n cs ql|s IH ops p o r w|s IH ops gb|s IH e|s IH cs|s IH cs|s IH m|s IH m d|s IH cs r l
                      |x IHx y IHy oa ob jt|x IHx y IHy ic an bn|s IH rm];
    intros [n' cs' ql'|s' ops' p' o' r' w'|s' ops' gb'|s' e'|s' cs'|s' cs'|s' m'|s' m' d'|s' cs' r' l'
           |x' y' oa' ob' jt'|x' y' ic' an' bn'|s' rm']; cbn [ragree]; try (match goal with |- true = true => reflexivity end);
    rewrite ?ragree_ops_fixed, ?ragree_expr_fixed, ?IH, ?IHx, ?IHy; reflexivity. Qed.
