(* Proofs/ExprParseP20.v -- C13: a printable expression is is_equal to itself (so "the same object" implies the
   library's own notion of an equal tree). *)
From Coq Require Import List Bool String Ascii ZArith NArith QArith Arith Lia.
Import ListNotations.
From DA Require Import Model.PyExpr Model.ExprPrint Model.ExprParse Model.ExprAst Model.ExprRoundtrip
  Proofs.ExprParseP1 Proofs.ExprParseP12 Proofs.ExprParseP15.
Local Close Scope Q_scope.
Local Open Scope string_scope.
Local Open Scope bool_scope.
Local Open Scope list_scope.

Lemma Qeq_bool_refl q : Qeq_bool q q = true.
Proof. apply Qeq_bool_iff. reflexivity. Qed.

Lemma py_eq_refl v : py_eq v v = true.
Proof. destruct v as [|b|z|neg m|neg|s]; simpl; try reflexivity.
  - apply Qeq_bool_refl. - apply Qeq_bool_refl. - apply Qeq_bool_refl. - apply Bool.eqb_reflx. - apply String.eqb_refl. Qed.

Lemma same_constant_refl v : same_constant v v = true.
Proof. unfold same_constant. rewrite py_eq_refl. destruct v; reflexivity. Qed.

Lemma pdict_find_self : forall kvs k v, distinct_keys kvs = true -> In (k, v) kvs -> pdict_find kvs k = Some (k, v).
Proof. induction kvs as [|[k' v'] kvs IH]; intros k v Hd Hin; [destruct Hin|].
  cbn [distinct_keys] in Hd. apply andb_prop in Hd as [H1 H2]. apply negb_true_iff in H1. cbn [pdict_find].
  destruct Hin as [E|Hin].
  - inversion E; subst. rewrite py_eq_refl. reflexivity.
  - destruct (py_eq k k') eqn:E.
    + exfalso. assert (X : existsb (fun kv => py_eq (fst kv) k') kvs = true).
      { apply existsb_exists. exists (k, v). split; [exact Hin|exact E]. }
      rewrite H1 in X. discriminate X.
    + exact (IH k v H2 Hin). Qed.

Lemma is_equal_refl_n c dd : forall n e, esize e < n -> printable c dd e = true -> is_equal e e = true.
Proof. induction n as [|n IH]; intros e Hs H; [lia|]. destruct e as [nm|v|vs|kvs|op i m p args]; cbn [is_equal].
  - apply String.eqb_refl.
  - apply same_constant_refl.
  - apply list_eqb_refl. intros x _. apply same_constant_refl.
  - cbn [printable] in H. apply andb_prop in H as [H _]. apply andb_prop in H as [H _]. apply andb_prop in H as [_ Hd].
    rewrite Nat.eqb_refl. cbn [andb]. rewrite forallb_forall. intros [k v] Hin. cbn [fst snd].
    rewrite (pdict_find_self kvs k v Hd Hin), !same_constant_refl. reflexivity.
  - cbn [printable] in H. apply andb_prop in H as [H _]. apply andb_prop in H as [Hp Ha]. destruct p; [discriminate Hp|].
    rewrite String.eqb_refl, Bool.eqb_reflx. cbn [params_equal andb].
    rewrite forallb_forall in Ha. apply list_eqb_refl. intros x Hx. apply IH; [pose proof (esize_arg op i m None args x Hx); lia|exact (Ha x Hx)]. Qed.
