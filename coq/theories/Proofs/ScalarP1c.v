(* C05 -- SQL templates compute the documented value: transcendental functions, **, around *)
From Coq Require Import List Bool ZArith QArith Qround Qabs String Ascii Lia Lqa.
Import ListNotations.
From DA Require Import Model.Scalar Model.SqlTemplates Model.ScalarBackends Model.ScalarCatalog Model.ScalarIndex Proofs.ScalarP0 Proofs.ScalarP1.
Local Open Scope string_scope.

Section SQL.
Variable mf : string -> Q -> option Q.
Variable mf2 : string -> Q -> Q -> option Q.
Notation documented_sql := (documented_sql mf mf2).

(* ---------------------------------------------------------------- transcendental functions: the same symbol on the same argument *)
Definition pg_math_names : list string := ["cos"; "cosh"; "exp"; "log"; "log10"; "sin"; "sinh"; "sqrt"; "tanh"].
Ltac math_case H args := destruct args as [|x [|y l]]; [junk H | destruct x; solve_val H; try (eexists; split; [eassumption | apply sv_eqv_refl]) | junk H].
Lemma sql_math_sqlite vr lits name : In name math_names -> documented_sql vr DSqlite name lits anyargs.
Proof. intros I args r _ H. simpl in I.
  repeat (destruct I as [<-|I]; [ match type of H with spec_method _ _ ?n _ = _ => change (spec_method mf mf2 n) with (spec_math mf n) in H end; math_case H args | ]).
  destruct I. Qed.
Lemma sql_math_pg vr lits name : In name pg_math_names -> documented_sql vr DPg name lits anyargs.
Proof. intros I args r _ H. simpl in I.
  repeat (destruct I as [<-|I]; [ match type of H with spec_method _ _ ?n _ = _ => change (spec_method mf mf2 n) with (spec_math mf n) in H end; math_case H args | ]).
  destruct I. Qed.
End SQL.
