(* Proofs/ExprParseP16.v -- C13, part 3: one step of the walker (an operator, a power, a method call) builds a
   printable expression from printable operands. *)
From Coq Require Import List Bool String Ascii ZArith NArith QArith Arith Lia.
Import ListNotations.
From DA Require Import Model.PyExpr Model.ExprPrint Model.ExprParse Model.ExprAst Model.ExprRoundtrip
  Proofs.ExprParseP1 Proofs.ExprParseP2 Proofs.ExprParseP12 Proofs.ExprParseP15.
Local Close Scope Q_scope.
Local Open Scope string_scope.
Local Open Scope bool_scope.
Local Open Scope list_scope.

Section Steps.
Variables (c : cfg) (dd : list string).
Notation PR := (printable c dd).

Lemma call_bin_inv name op i m chk a b e :
  find_method name method_table = Some (MBin op i m chk) -> call_method c name a [b] = Ok e ->
  e = EOp op i m None [a; b] /\ mem_str op (known c) = true /\ i && m = false /\ is_term a = true.
Proof. intros F. unfold call_method. destruct (is_term a); [|discriminate]. cbn [negb]. rewrite F.
  intros H. apply op_expr_inv in H as [H1 [H2 H3]]. auto. Qed.

(* an operator token of the comparison / arith_expr / term levels *)
Lemma step_printable L op a b e : is_binop_at L op = true -> In L [3; 8; 9] ->
  call_method c (remap op_remap op) a [b] = Ok e -> PR a = true -> PR b = true -> PR e = true.
Proof. intros Hb HL Hc Pa Pb.
  pose proof (binop_levels L op Hb HL) as Hin. pose proof steps_ok as S. rewrite forallb_forall in S. specialize (S op Hin).
  unfold step_ok in S. destruct (find_method (remap op_remap op) method_table) as [[| op' i m chk | | | | | | | | | | |]|] eqn:F; try discriminate S.
  destruct (call_bin_inv _ _ _ _ _ _ _ _ F Hc) as [-> [Hk [Him Ht]]].
  cbn [printable forallb]. rewrite Pa, Pb, Hk. cbn [andb]. destruct m.
  - (* a method: concat, coalesce *)
    apply andb_prop in S as [S Hre]. apply andb_prop in S as [S Hf]. apply andb_prop in S as [S Hdu]. apply andb_prop in S as [Hi Hs].
    apply negb_true_iff in Hi. subst i. rewrite Hs, Hdu. cbn [andb]. apply String.eqb_eq in Hre. subst op'.
    apply res_expr_eqb_refl. exact Hc.
  - apply andb_prop in S as [Hi S]. subst i. cbn [negb andb]. destruct (mem_str op' kops); [reflexivity|].
    cbn [orb] in S. apply andb_prop in S as [S Hp]. apply andb_prop in S as [Hm Hre]. rewrite Hm. cbn [andb].
    apply String.eqb_eq in Hre. rewrite Hre. rewrite (res_expr_eqb_refl _ _ Hc). reflexivity. Qed.

Lemma pow_printable a b e : call_method c "__pow__" a [b] = Ok e -> PR a = true -> PR b = true -> PR e = true.
Proof. intros Hc Pa Pb.
  destruct (call_bin_inv "__pow__" "**" true false true a b e eq_refl Hc) as [-> [Hk [_ Ht]]].
  cbn [printable forallb]. rewrite Pa, Pb, Hk. cbn [andb negb]. change (mem_str "**" kops) with false. cbv iota.
  change (mem_str "**" bin2_ops) with true. change (remap op_remap "**") with "__pow__".
  rewrite (res_expr_eqb_refl _ _ Hc). reflexivity. Qed.

Lemma py_neg_inf v v' : py_neg v = Some v' -> is_inf v' = is_inf v.
Proof. destruct v; simpl; intros H; inversion H; reflexivity. Qed.

Lemma not_printable a e : call_method c "__eq__" a [EVal (PBool false)] = Ok e -> PR a = true -> PR e = true.
Proof. intros Hc Pa. apply (step_printable 3 "==" a (EVal (PBool false)) e); [reflexivity|simpl; tauto|exact Hc|exact Pa|reflexivity]. Qed.

Lemma neg_printable a e : call_method c "__neg__" a [] = Ok e -> PR a = true -> PR e = true.
Proof. intros Hc Pa. unfold call_method in Hc. destruct (is_term a) eqn:Ht; [|discriminate Hc]. cbn [negb] in Hc.
  change (find_method "__neg__" method_table) with (Some MNeg) in Hc. cbv iota beta in Hc.
  assert (Hu : forall x, (forall v, x <> EVal v) -> is_term x = true -> PR x = true -> uop_expr c "-" x true = Ok e -> PR e = true).
  { intros x Hnv Htx Px Hx. unfold uop_expr in Hx. destruct (is_none_value x); [discriminate Hx|].
    apply mk_expr_inv in Hx as [-> [Hk _]]. cbn [printable forallb]. rewrite Px, Hk, Htx. cbn [andb negb].
    destruct x; try reflexivity. exfalso. eapply Hnv. reflexivity. }
  destruct a as [n|v|vs|kvs|op i m p args]; try discriminate Ht.
  - apply (Hu (ECol n)); [discriminate|reflexivity|exact Pa|exact Hc].
  - destruct (py_neg v) as [v'|] eqn:Hn; [|discriminate Hc]. inversion Hc; subst. cbn [printable] in *.
    rewrite (py_neg_inf _ _ Hn). exact Pa.
  - apply (Hu (EOp op i m p args)); [discriminate|reflexivity|exact Pa|exact Hc]. Qed.

Lemma pos_printable a e : call_method c "__pos__" a [] = Ok e -> PR a = true -> PR e = true.
Proof. intros Hc Pa. unfold call_method in Hc. destruct (is_term a); [|discriminate Hc]. cbn [negb] in Hc.
  change (find_method "__pos__" method_table) with (Some MPos) in Hc. cbv iota beta in Hc. inversion Hc; subst. exact Pa. Qed.

(* a call  expr.name(args)  with a non-dunder name *)
Lemma method_call_printable n self al e : is_dunder n = false ->
  call_method c n self al = Ok e -> PR self = true -> forallb PR al = true -> PR e = true.
Proof. intros Hd Hc Ps Pal. pose proof Hc as Hc0. unfold call_method in Hc. destruct (is_term self) eqn:Ht; [|discriminate Hc].
  cbn [negb] in Hc. destruct (find_method n method_table) as [sp|] eqn:F; [|discriminate Hc].
  pose proof (entry_ok_of n sp F) as Ok0. unfold entry_ok in Ok0. rewrite Hd in Ok0.
  assert (Hm : forall op i m' args, i && m' = false -> m' = true -> negb (is_sym_text op) && negb (is_dunder op) = true ->
               call_method c op self (tl args) = Ok (EOp op i m' None args) -> hd (ECol "") args = self ->
               args <> [] -> forallb PR args = true -> PR (EOp op i m' None args) = true).
  { intros op i m' args Him Hm' Hs Hcall Hhd Hne Pargs. subst m'. destruct i; [discriminate Him|].
    cbn [printable]. rewrite Pargs, Hs. cbn [andb]. destruct args as [|a0 rest]; [congruence|].
    simpl in Hhd. subst a0. apply res_expr_eqb_refl. exact Hcall. }
  destruct sp as [op|op i m chk|op|op i m| | | | | | | | |op dflt must].
  - (* MUop *)
    destruct al as [|? ?]; [|discriminate Hc]. apply andb_prop in Ok0 as [Hs Hf]. apply finds_eq in Hf.
    unfold uop_expr in Hc. destruct (is_none_value self) eqn:Hn; [discriminate Hc|]. apply mk_expr_inv in Hc as [-> [Hk _]].
    apply Hm; try reflexivity; try discriminate; [exact Hs| |cbn [forallb]; rewrite Ps; reflexivity].
    cbn [tl]. unfold call_method. rewrite Ht, Hf. cbn [negb]. unfold uop_expr. rewrite Hn. unfold mk_expr. rewrite Hk. reflexivity.
  - (* MBin *)
    destruct al as [|o [|? ?]]; try discriminate Hc. cbn [forallb] in Pal. apply andb_prop in Pal as [Po _].
    apply op_expr_inv in Hc as [-> [Hk Him]].
    destruct m.
    + apply andb_prop in Ok0 as [Hs Hf]. apply finds_eq in Hf.
      apply Hm; try reflexivity; try discriminate; [exact Him|exact Hs| |cbn [forallb]; rewrite Ps, Po; reflexivity].
      cbn [tl]. rewrite <- Hc0. unfold call_method. rewrite Ht, Hf, F. reflexivity.
    + destruct i.
      * apply andb_prop in Ok0 as [Ok0 Hp]. apply andb_prop in Ok0 as [Ok0 Hre]. apply andb_prop in Ok0 as [Hb Hnk].
        apply negb_true_iff in Hnk. apply negb_true_iff in Hp. apply String.eqb_eq in Hre.
        cbn [printable forallb]. rewrite Ps, Po, Hk, Hnk, Hb, Hre. cbn [andb negb]. rewrite (res_expr_eqb_refl _ _ Hc0). reflexivity.
      * cbn [printable forallb]. rewrite Ps, Po, Hk, Ok0. reflexivity.
  - discriminate Ok0.
  - (* MTri *)
    destruct al as [|x [|y [|? ?]]]; try discriminate Hc. cbn [forallb] in Pal. apply andb_prop in Pal as [Px Py]. apply andb_prop in Py as [Py _].
    apply andb_prop in Ok0 as [Ok0 Hf]. apply andb_prop in Ok0 as [Ok0 Hdu]. apply andb_prop in Ok0 as [Ok0 Hs0].
    apply andb_prop in Ok0 as [Hmm Hi]. assert (Hs : negb (is_sym_text op) && negb (is_dunder op) = true) by (rewrite Hs0, Hdu; reflexivity).
    subst m. apply negb_true_iff in Hi. subst i. apply finds_eq in Hf.
    unfold triop_expr in Hc. destruct (is_none_value self) eqn:Hn; [discriminate Hc|]. apply mk_expr_inv in Hc as [-> [Hk _]].
    apply Hm; try reflexivity; try discriminate; [exact Hs| |cbn [forallb]; rewrite Ps, Px, Py; reflexivity].
    cbn [tl]. rewrite <- Hc0. unfold call_method. rewrite Ht, Hf, F. reflexivity.
  - discriminate Ok0.
  - discriminate Ok0.
  - discriminate Ok0.
  - (* MShift *)
    apply andb_prop in Ok0 as [Hs Hf]. apply finds_eq in Hf.
    assert (Hsh : forall v, is_inf v = false -> op_expr c "shift" self (EVal v) false true true = Ok e ->
                  call_method c "shift" self [EVal v] = op_expr c "shift" self (EVal v) false true true -> PR e = true).
    { intros v Hv Hx Hy. pose proof Hx as Hx0. apply op_expr_inv in Hx as [-> [Hk Him]].
      apply Hm; try reflexivity; try discriminate;
        [cbn [tl]; rewrite Hy; exact Hx0|cbn [forallb printable]; rewrite Ps, Hv; reflexivity]. }
    destruct al as [|[| v | | |] [|? ?]]; try discriminate Hc.
    + apply (Hsh (PInt 1) eq_refl Hc). unfold call_method. rewrite Ht, Hf. reflexivity.
    + destruct v as [|b|z| | |]; try discriminate Hc.
      * destruct b; [|discriminate Hc]. apply (Hsh (PBool true) eq_refl Hc). unfold call_method. rewrite Ht, Hf. reflexivity.
      * destruct (Z.eqb z 0) eqn:Ez; [discriminate Hc|]. apply (Hsh (PInt z) eq_refl Hc). unfold call_method. rewrite Ht, Hf. cbn [negb]. rewrite Ez. reflexivity.
    + destruct v as [|b|z| | |]; discriminate Hc.
  - (* MAround *)
    destruct al as [|[| v | | |] [|? ?]]; try discriminate Hc. apply op_expr_inv in Hc as [-> [Hk _]].
    cbn [forallb] in Pal. apply andb_prop in Pal as [Pv _]. cbn [printable] in Pv.
    cbn [printable forallb]. rewrite Ps, Hk, Ok0, Pv. reflexivity.
  - (* MMapv *)
    apply andb_prop in Ok0 as [Hs Hf]. apply finds_eq in Hf.
    assert (Hmv : forall d v, triop_expr c "mapv" self (EDict d) (EVal v) false true = Ok e -> PR (EDict d) = true -> PR (EVal v) = true -> PR e = true).
    { intros d v Hx Pd Pv. pose proof Hx as Hx0. unfold triop_expr in Hx. destruct (is_none_value self) eqn:Hn; [discriminate Hx|].
      apply mk_expr_inv in Hx as [-> [Hk _]].
      apply Hm; try reflexivity; try discriminate; [|cbn [forallb]; rewrite Ps, Pd, Pv; reflexivity].
      cbn [tl]. unfold call_method. rewrite Ht, Hf. exact Hx0. }
    destruct al as [|[| | | d |] [|[| v | | |] [|? ?]]]; try discriminate Hc; cbn [forallb] in Pal.
    + apply andb_prop in Pal as [Pd _]. apply (Hmv d PNone Hc Pd). reflexivity.
    + apply andb_prop in Pal as [Pd Pv]. apply andb_prop in Pv as [Pv _]. exact (Hmv d v Hc Pd Pv).
  - (* MTrimstr *)
    apply andb_prop in Ok0 as [Hs Hf]. apply finds_eq in Hf.
    destruct al as [|[| x | | |] [|[| y | | |] [|? ?]]]; try discriminate Hc. cbn [forallb] in Pal.
    apply andb_prop in Pal as [Px Py]. apply andb_prop in Py as [Py _].
    pose proof Hc as Hx0. unfold triop_expr in Hc. destruct (is_none_value self) eqn:Hn; [discriminate Hc|].
    apply mk_expr_inv in Hc as [-> [Hk _]].
    apply Hm; try reflexivity; try discriminate; [|cbn [forallb]; rewrite Ps, Px, Py; reflexivity].
    cbn [tl]. unfold call_method. rewrite Ht, Hf. exact Hx0.
  - (* MCoalesce0 *)
    apply andb_prop in Ok0 as [Hs Hf]. apply finds_eq in Hf.
    destruct al as [|? ?]; [|discriminate Hc]. pose proof Hc as Hx0. apply op_expr_inv in Hc as [-> [Hk Him]].
    apply Hm; try reflexivity; try discriminate; [|cbn [forallb]; rewrite Ps; reflexivity].
    cbn [tl]. unfold call_method. rewrite Ht, Hf. exact Hx0.
  - (* MFmt *)
    apply andb_prop in Ok0 as [Hs Hf]. apply finds_eq in Hf.
    destruct al as [|o [|? ?]]; try discriminate Hc.
    + pose proof Hc as Hx0. apply op_expr_inv in Hc as [-> [Hk Him]].
      apply Hm; try reflexivity; try discriminate; [exact Hs| |cbn [forallb]; rewrite Ps; reflexivity].
      cbn [tl]. unfold call_method. rewrite Ht, Hf. cbn [negb andb]. rewrite andb_false_r. exact Hx0.
    + cbn [forallb] in Pal. apply andb_prop in Pal as [Po _].
      destruct (must && negb match o with EVal _ => true | _ => false end) eqn:Em; [discriminate Hc|].
      pose proof Hc as Hx0. apply op_expr_inv in Hc as [-> [Hk Him]].
      apply Hm; try reflexivity; try discriminate; [exact Hs| |cbn [forallb]; rewrite Ps, Po; reflexivity].
      cbn [tl]. unfold call_method. rewrite Ht, Hf. cbn [negb]. rewrite Em. exact Hx0. Qed.

End Steps.
