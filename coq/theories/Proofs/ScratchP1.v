(* C15, part B: frame lemmas, `erase`, and the project step.
   pexec_project with scratch names outside the user's names = plain_project. *)
From Coq Require Import List Bool Arith String Lia.
Import ListNotations.
From DA Require Import Base.PyRT Model.ScratchNames.
Local Open Scope list_scope.

(* ------------------------------------------------------------------ option helpers *)
Lemma obind_some {X Y} (o : option X) (f : X -> option Y) x : o = Some x -> obind o f = f x.
Proof. intros ->. reflexivity. Qed.

Lemma all_some_ext {X} (l1 l2 : list (option X)) : l1 = l2 -> all_some l1 = all_some l2.
Proof. intros ->. reflexivity. Qed.

(* ------------------------------------------------------------------ frames *)
Section FrameLemmas.
  Context {A : Type}.
  Implicit Types f : frame A.

  Lemma fget_fset_same f c a : fget (fset f c a) c = Some a.
  Proof. apply dict_get_set_same. Qed.
  Lemma fget_fset_other f c k a : k <> c -> fget (fset f c a) k = fget f k.
  Proof. apply dict_get_set_other. Qed.
  Lemma fcols_fset f c a : fcols (fset f c a) = add_end (fcols f) c.
  Proof. apply dict_keys_set. Qed.

  Lemma fget_fmapc g f c : fget (fmapc g f) c = option_map g (fget f c).
  Proof. unfold fget, fmapc. induction f as [|[k a] t IH]; simpl; [reflexivity|]. destruct (eq_dec c k); [reflexivity|exact IH]. Qed.
  Lemma fcols_fmapc g f : fcols (fmapc g f) = fcols f.
  Proof. unfold fcols, fmapc. rewrite map_map. reflexivity. Qed.

  Lemma fget_None f c : fget f c = None <-> ~ In c (fcols f).
  Proof. apply dict_get_None. Qed.

  Lemma fset_absent f c a : ~ In c (fcols f) -> fset f c a = f ++ [(c, a)].
  Proof.
    unfold fset, fcols. induction f as [|[k b] t IH]; simpl; intros N; [reflexivity|].
    destruct (eq_dec c k) as [->|n]; [exfalso; apply N; left; reflexivity|]. rewrite IH; [reflexivity|tauto].
  Qed.

  Lemma fdel_absent f c : ~ In c (fcols f) -> fdel f c = f.
  Proof. apply dict_pop_absent. Qed.

  Lemma fdel_app f g c : fdel (f ++ g) c = fdel f c ++ fdel g c.
  Proof. unfold fdel, dict_pop. apply filter_app. Qed.

  Lemma fdel_single c a : fdel [(c, a)] c = ([] : frame A).
  Proof. unfold fdel, dict_pop. simpl. rewrite eqb_refl. reflexivity. Qed.

  Lemma fget_app f g c : fget (f ++ g) c = match fget f c with Some a => Some a | None => fget g c end.
  Proof. apply dict_get_app. Qed.

  Lemma fset_app_l f g c a : In c (fcols f) -> fset (f ++ g) c a = fset f c a ++ g.
  Proof.
    unfold fset, fcols. induction f as [|[k b] t IH]; simpl; intros I; [contradiction|].
    destruct (eq_dec c k) as [->|n]; [reflexivity|]. rewrite IH; [reflexivity|]. destruct I as [E|I]; [congruence|exact I].
  Qed.

  (* erase: the frame without the columns named in S *)
  Definition erase (S : list string) f : frame A := filter (fun na => negb (mem (fst na) S)) f.

  Lemma fget_erase S f c : ~ In c S -> fget (erase S f) c = fget f c.
  Proof.
    intros N. unfold fget, erase. induction f as [|[k a] t IH]; simpl; [reflexivity|].
    destruct (mem k S) eqn:M; simpl.
    - destruct (eq_dec c k) as [->|n]; [apply mem_In in M; contradiction|exact IH].
    - destruct (eq_dec c k); [reflexivity|exact IH].
  Qed.

  Lemma fcols_erase S f : fcols (erase S f) = filter (fun c => negb (mem c S)) (fcols f).
  Proof. unfold fcols, erase. induction f as [|[k a] t IH]; simpl; [reflexivity|]. destruct (mem k S); simpl; rewrite IH; reflexivity. Qed.

  Lemma erase_app S f g : erase S (f ++ g) = erase S f ++ erase S g.
  Proof. apply filter_app. Qed.

  Lemma erase_fset_user S f k a : ~ In k S -> erase S (fset f k a) = fset (erase S f) k a.
  Proof.
    intros N. apply mem_false in N. unfold fset, erase. induction f as [|[c b] t IH]; simpl; [rewrite N; reflexivity|].
    destruct (eq_dec k c) as [->|n]; simpl.
    - rewrite N. simpl. destruct (eq_dec c c); [reflexivity|congruence].
    - destruct (mem c S); simpl; [exact IH|]. destruct (eq_dec k c); [congruence|]. rewrite IH. reflexivity.
  Qed.

  Lemma erase_fset_scratch S f s a : In s S -> erase S (fset f s a) = erase S f.
  Proof.
    intros I. apply mem_In in I. unfold fset, erase. induction f as [|[c b] t IH]; simpl; [rewrite I; reflexivity|].
    destruct (eq_dec s c) as [->|n]; simpl; [rewrite I; reflexivity|]. rewrite IH. reflexivity.
  Qed.

  Lemma erase_fmapc S g f : erase S (fmapc g f) = fmapc g (erase S f).
  Proof. unfold erase, fmapc. induction f as [|[c b] t IH]; simpl; [reflexivity|]. destruct (mem c S); simpl; rewrite IH; reflexivity. Qed.

  Lemma erase_id S f : (forall c, In c (fcols f) -> ~ In c S) -> erase S f = f.
  Proof.
    unfold erase, fcols. induction f as [|[c b] t IH]; simpl; intros H; [reflexivity|].
    assert (M : mem c S = false) by (apply mem_false, H; left; reflexivity). rewrite M. simpl. rewrite IH; [reflexivity|]. intros x Hx. apply H. right. exact Hx.
  Qed.

  Lemma fselect_ext f g cs : (forall c, In c cs -> fget f c = fget g c) -> fselect f cs = fselect g cs.
  Proof.
    induction cs as [|c t IH]; intros H; simpl; [reflexivity|]. rewrite (H c) by (left; reflexivity).
    rewrite IH; [reflexivity|]. intros x Hx. apply H. right. exact Hx.
  Qed.

  Lemma freads_ext f g cs : (forall c, In c cs -> fget f c = fget g c) -> freads f cs = freads g cs.
  Proof. intros H. unfold freads. f_equal. apply map_ext_in. exact H. Qed.

  Lemma fselect_cols f cs r : fselect f cs = Some r -> fcols r = cs.
  Proof.
    revert r. induction cs as [|c t IH]; simpl; intros r E; [inversion E; reflexivity|].
    destruct (fget f c) as [a|]; [|discriminate]. destruct (fselect f t) as [r'|]; [|discriminate]. inversion E; subst. simpl. f_equal. apply IH. reflexivity.
  Qed.

  Lemma fselect_get f cs r c : fselect f cs = Some r -> In c cs -> fget r c = fget f c.
  Proof.
    revert r. induction cs as [|k t IH]; simpl; intros r E I; [contradiction|].
    destruct (fget f k) as [a|] eqn:Ek; [|discriminate]. destruct (fselect f t) as [r'|] eqn:Et; [|discriminate]. inversion E; subst.
    unfold fget at 1. simpl. destruct (eq_dec c k) as [->|n]; [symmetry; exact Ek|].
    destruct I as [->|I]; [congruence|]. apply (IH r' eq_refl I).
  Qed.

  Lemma fold_fset_cols (l : frame A) f : forall c, In c (fcols (fold_left (fun r ka => fset r (fst ka) (snd ka)) l f)) <-> In c (fcols f) \/ In c (fcols l).
  Proof.
    revert f. induction l as [|[k a] t IH]; intros f c; simpl; [tauto|].
    rewrite IH, fcols_fset, In_add_end. simpl. split; intros; intuition (subst; auto).
  Qed.
End FrameLemmas.

(* ------------------------------------------------------------------ the project step *)
Definition proj_user (ops : list sop) (gb : list string) : list string := gb ++ flat_map (fun o => so_key o :: arg_cols (so_arg o)) ops.

Record good_project (sn : pnames) (u : list string) : Prop := mkgp {
  gp_tt : ~ In (n_table_temp sn) u;
  gp_tmp : forall i, ~ In (n_proj_tmp sn i) u;
  gp_sep : forall i, n_proj_tmp sn i <> n_table_temp sn;
  gp_inj : forall i j, n_proj_tmp sn i = n_proj_tmp sn j -> i = j }.

Section Project.
  Context {A : Type} (P : prims A) (sn : pnames).
  Let one : A := p_const P "1".

  (* what the temp map and the frame look like while the constants are scanned *)
  Definition tinv (f0 : frame A) (temps : list (string * string)) (res : frame A) : Prop :=
    (forall v name, dict_get temps v = Some name ->
        (exists j, j < List.length temps /\ name = n_proj_tmp sn j) /\ fget res name = Some (p_const P v))
    /\ (forall c, (forall i, c <> n_proj_tmp sn i) -> fget res c = fget f0 c).

  Lemma proj_temps_inv (Hinj : forall i j, n_proj_tmp sn i = n_proj_tmp sn j -> i = j) f0 ops :
    forall temps res, tinv f0 temps res ->
    let '(temps', res') := proj_temps P sn ops temps res in
    tinv f0 temps' res'
    /\ (forall v name, dict_get temps v = Some name -> dict_get temps' v = Some name)
    /\ (forall o v, In o ops -> so_arg o = ArgVal v -> exists name, dict_get temps' v = Some name).
  Proof.
    induction ops as [|o t IH]; intros temps res I; simpl.
    - split; [exact I|split; [tauto|intros o v []]].
    - destruct (so_arg o) as [|c|v] eqn:Ea.
      + specialize (IH temps res I). destruct (proj_temps P sn t temps res) as [temps' res']. destruct IH as (I1 & I2 & I3).
        split; [exact I1|split; [exact I2|]]. intros o' v' [<-|Ho] E; [congruence|eauto].
      + specialize (IH temps res I). destruct (proj_temps P sn t temps res) as [temps' res']. destruct IH as (I1 & I2 & I3).
        split; [exact I1|split; [exact I2|]]. intros o' v' [<-|Ho] E; [congruence|eauto].
      + destruct (dict_has temps v) eqn:Hh.
        * specialize (IH temps res I). destruct (proj_temps P sn t temps res) as [temps' res']. destruct IH as (I1 & I2 & I3).
          split; [exact I1|split; [exact I2|]]. intros o' v' [<-|Ho] E; [|eauto].
          rewrite Ea in E. inversion E; subst. apply dict_has_true in Hh.
          destruct (dict_get temps v') as [nm|] eqn:G; [exists nm; apply I2, G|]. apply dict_get_None in G. contradiction.
        * apply dict_has_false in Hh. apply dict_get_None in Hh.
          set (name := n_proj_tmp sn (List.length temps)).
          assert (I' : tinv f0 (temps ++ [(v, name)]) (fset res name (p_const P v))).
          { destruct I as [Ia Ib]. split.
            - intros v' nm G. rewrite dict_get_app in G. destruct (dict_get temps v') as [nm'|] eqn:G'.
              + inversion G; subst. destruct (Ia v' nm G') as [[j [Lj Ej]] Fg]. split.
                * exists j. rewrite app_length. simpl. split; [lia|exact Ej].
                * rewrite fget_fset_other; [exact Fg|]. subst nm. unfold name. intros E. apply Hinj in E. lia.
              + simpl in G. destruct (eq_dec v' v) as [->|n]; [|discriminate]. inversion G; subst. split.
                * exists (List.length temps). rewrite app_length. simpl. split; [lia|reflexivity].
                * apply fget_fset_same.
            - intros c Hc. rewrite fget_fset_other; [apply Ib, Hc|]. apply Hc. }
          specialize (IH _ _ I'). destruct (proj_temps P sn t (temps ++ [(v, name)]) (fset res name (p_const P v))) as [temps' res'].
          destruct IH as (I1 & I2 & I3). split; [exact I1|split].
          -- intros v' nm G. apply I2. rewrite dict_get_app, G. reflexivity.
          -- intros o' v' [<-|Ho] E; [|eauto]. rewrite Ea in E. inversion E; subst.
             exists name. apply I2. rewrite dict_get_app, Hh. simpl. destruct (eq_dec v' v'); [reflexivity|congruence].
  Qed.

  Lemma plain_proj_cols_keys res keys ops cols r :
    plain_proj_cols P res keys ops cols = Some r -> forall c, In c (fcols r) -> In c (fcols cols) \/ In c (map so_key ops).
  Proof.
    revert cols r. induction ops as [|o t IH]; simpl; intros cols r E c Hc; [inversion E; subst; tauto|].
    destruct (match so_arg o with ArgNone => Some (p_const P "1") | ArgCol c0 => fget res c0 | ArgVal v => Some (p_const P v) end) as [v|]; [|discriminate].
    simpl in E. destruct (IH _ _ E c Hc) as [H|H]; [|tauto].
    rewrite fcols_fset in H. apply In_add_end in H. destruct H as [H| ->]; tauto.
  Qed.

  Lemma keycols_cols gb keys : fcols (keycols P gb keys) = gb.
  Proof.
    unfold keycols, fcols. assert (L : List.length gb = List.length (map (p_groupkey P keys) (seq 0 (List.length gb)))) by (rewrite map_length, seq_length; reflexivity).
    revert L. generalize (map (p_groupkey P keys) (seq 0 (List.length gb))). induction gb as [|g t IH]; intros [|x l] L; simpl in *; try discriminate; [reflexivity|].
    f_equal. apply IH. lia.
  Qed.

  Theorem project_no_capture ops gb f :
    good_project sn (proj_user ops gb) -> pexec_project P sn ops gb f = plain_project P ops gb f.
  Proof.
    intros [Gtt Gtmp Gsep Ginj]. unfold pexec_project, plain_project.
    assert (I0 : tinv f [] f). { split; [intros v nm G; discriminate|reflexivity]. }
    pose proof (proj_temps_inv Ginj f ops [] f I0) as H. destruct (proj_temps P sn ops [] f) as [temps res1].
    destruct H as ([Ia Ib] & _ & Ic).
    fold one.
    set (res2 := fset res1 (n_table_temp sn) one).
    assert (Uget : forall c, In c (proj_user ops gb) -> fget res2 c = fget f c).
    { intros c Hc. unfold res2. rewrite fget_fset_other by (intros ->; contradiction). apply Ib. intros i ->. exact (Gtmp i Hc). }
    assert (Tget : forall v nm, dict_get temps v = Some nm -> fget res2 nm = Some (p_const P v)).
    { intros v nm G. destruct (Ia v nm G) as [[j [_ ->]] Fg]. unfold res2. rewrite fget_fset_other by apply Gsep. exact Fg. }
    assert (Oget : fget res2 (n_table_temp sn) = Some one) by apply fget_fset_same.
    rewrite (freads_ext res2 f gb) by (intros c Hc; apply Uget; unfold proj_user; apply in_or_app; left; exact Hc).
    destruct (freads f gb) as [keys|]; simpl; [|reflexivity].
    assert (Cols : forall ops' cols, (forall o, In o ops' -> In o ops) ->
                   proj_cols P sn temps res2 keys ops' cols = plain_proj_cols P f keys ops' cols).
    { induction ops' as [|o t IHo]; intros cols Sub; simpl; [reflexivity|].
      assert (Ho : In o ops) by (apply Sub; left; reflexivity).
      destruct (so_arg o) as [|c|v] eqn:Ea; simpl.
      - rewrite Oget. simpl. apply IHo. intros x Hx. apply Sub. right. exact Hx.
      - rewrite Uget.
        + destruct (fget f c); simpl; [|reflexivity]. apply IHo. intros x Hx. apply Sub. right. exact Hx.
        + unfold proj_user. apply in_or_app. right. apply in_flat_map. exists o. split; [exact Ho|]. rewrite Ea. right. left. reflexivity.
      - destruct (Ic o v Ho Ea) as [nm G]. rewrite G. simpl. rewrite (Tget v nm G). simpl. apply IHo. intros x Hx. apply Sub. right. exact Hx. }
    destruct ops as [|o0 ops0].
    - simpl. rewrite Oget. simpl.
      assert (E : existsb (fun g => mem g [n_table_temp sn]) gb = false).
      { apply not_true_is_false. intros E. apply existsb_exists in E. destruct E as [g [Hg Hm]]. apply mem_In in Hm. destruct Hm as [<-|[]].
        apply Gtt. unfold proj_user. apply in_or_app. left. exact Hg. }
      simpl in E. rewrite E.
      assert (E2 : existsb (fun _ : string => false) gb = false) by (clear; induction gb as [|g t IHg]; [reflexivity|exact IHg]).
      rewrite E2.
      assert (M : mem (n_table_temp sn) (fcols (keycols P gb keys ++ [(n_table_temp sn, p_agg P "sum" keys one)])) = true).
      { apply mem_In. unfold fcols. rewrite map_app. apply in_or_app. right. left. reflexivity. }
      rewrite M. f_equal. rewrite fdel_app, fdel_single. f_equal. apply fdel_absent. rewrite keycols_cols. intros Hg. apply Gtt. unfold proj_user. apply in_or_app. left. exact Hg.
    - rewrite (Cols (o0 :: ops0) []) by tauto.
      destruct (plain_proj_cols P f keys (o0 :: ops0) []) as [cols|] eqn:Ec; simpl; [|reflexivity].
      destruct (existsb (fun g => mem g (fcols cols)) gb); [reflexivity|].
      assert (M : mem (n_table_temp sn) (fcols (keycols P gb keys ++ cols)) = false).
      { apply mem_false. unfold fcols. rewrite map_app. fold (fcols (keycols P gb keys)). fold (fcols cols). rewrite keycols_cols. intros Hin.
        apply in_app_or in Hin. destruct Hin as [Hg|Hk].
        - apply Gtt. unfold proj_user. apply in_or_app. left. exact Hg.
        - destruct (plain_proj_cols_keys _ _ _ _ _ Ec _ Hk) as [[]|Hk'].
          apply in_map_iff in Hk'. destruct Hk' as [o [Eo Ho]]. apply Gtt. unfold proj_user. apply in_or_app. right.
          apply in_flat_map. exists o. split; [exact Ho|]. left. exact Eo. }
      rewrite M. reflexivity.
  Qed.
End Project.
