(* C05 -- the numpy / pandas primitives compute the documented value *)
From Coq Require Import List Bool ZArith QArith Qround Qabs Qpower String Ascii Lia Lqa.
Import ListNotations.
From DA Require Import Model.Scalar Model.SqlTemplates Model.ScalarBackends Model.ScalarCatalog Model.ScalarIndex Proofs.ScalarP0 Proofs.ScalarP1 Proofs.ScalarP1d.
Local Open Scope string_scope.

Section NP.
Variable mf : string -> Q -> option Q.
Variable mf2 : string -> Q -> Q -> option Q.

Definition documented_np (m : string) (guard : list sval -> bool) : Prop :=
  forall args r, guard args = true -> spec_method mf mf2 m args = Some r ->
    exists r', np_eval mf mf2 m args = Some r' /\ sv_eqv r' r.

Ltac np2case H args := destruct args as [|x [|y [|z l]]]; [junk H | junk H | destruct x, y; solve_val H | junk H].
Ltac np1case H args := destruct args as [|x [|y l]]; [junk H | destruct x; solve_val H | junk H].

Lemma np_add : documented_np "+" anyargs.
Proof. intros args r _ H. change (spec_method mf mf2 "+") with spec_add in H. np2case H args. Qed.
Lemma np_mul : documented_np "*" anyargs.
Proof. intros args r _ H. change (spec_method mf mf2 "*") with spec_mul in H. np2case H args. Qed.
Lemma np_sub : documented_np "-" anyargs.
Proof. intros args r _ H. change (spec_method mf mf2 "-") with spec_sub in H.
  destruct args as [|a [|b [|c l]]]; try discriminate H.
  - destruct a; solve_val H.
  - destruct a, b; solve_val H. Qed.
Lemma np_div : documented_np "/" anyargs.
Proof. intros args r _ H. change (spec_method mf mf2 "/") with spec_div in H. np2case H args. Qed.
Lemma np_fdiv : documented_np "%/%" anyargs.
Proof. intros args r _ H. change (spec_method mf mf2 "%/%") with spec_div in H. np2case H args. Qed.
Lemma np_floordiv : documented_np "//" anyargs.
Proof. intros args r _ H. change (spec_method mf mf2 "//") with spec_floordiv in H. np2case H args. Qed.
Lemma np_mod m : (m = "%" \/ m = "mod" \/ m = "remainder") -> documented_np m anyargs.
Proof. intros M args r _ H.
  assert (spec_method mf mf2 m = spec_mod) as S by (destruct M as [->|[->| ->]]; reflexivity). rewrite S in H.
  assert (np_eval mf mf2 m = np2 (nanprop2 (finfin (fun p q => if Qeq_bool q 0 then Some XNaN else Some (XFin (qpymod p q)))))) as E
    by (destruct M as [->|[->| ->]]; reflexivity).
  rewrite E. clear E S M. arity2 H args.
  destruct a as [ | | |p| | | ], b as [ | | |q| | | ]; cbn in H; try discriminate H; try (inversion H; subst; cbn; finish).
  destruct (Qis_int p) eqn:Ip; [|discriminate H]. destruct (Qis_int q) eqn:Iq; [|discriminate H].
  destruct (Qle_bool 0 p) eqn:Lp; [|discriminate H]. destruct (Qlt_bool 0 q) eqn:Lq; [|discriminate H].
  cbn in H. inversion H; subst; clear H. cbn.
  destruct (Qeq_bool q 0) eqn:Z0; [exfalso; q_lra|]. cbn. eexists; split; [reflexivity|].
  apply sv_eqv_num. unfold qpymod, qmodZ, qfloor. apply floor_formula_is_mod; assumption. Qed.
Lemma np_pow : documented_np "**" anyargs.
Proof. intros args r _ H. change (spec_method mf mf2 "**") with (spec_pow mf2) in H. arity2 H args.
  unfold spec_pow in H.
  destruct a as [ | | |p| | | ], b as [ | | |q| | | ]; cbn in H; try discriminate H.
  all: try solve [solve_val H].
  destruct (qpow mf2 p q) as [v|] eqn:E; [|discriminate H]. cbn in H. inversion H; subst.
  cbn. rewrite (qpow_defined _ _ _ _ E), E. cbn. finish. Qed.

Lemma np_cmp_documented m test nr :
  np_eval mf mf2 m = np_cmp test nr -> spec_method mf mf2 m = spec_cmp test -> documented_np m anyargs.
Proof. intros E S args r _ H. rewrite S in H. rewrite E. arity2 H args. unfold spec_cmp in H. unfold np_cmp.
  destruct (cmp3 a b) as [c|] eqn:C; [|discriminate H]. inversion H; subst; clear H.
  assert (missing a || missing b = false) as M. { destruct a, b; cbn in C; try discriminate C; reflexivity. }
  rewrite M, andb_false_r. cbn. finish. Qed.
Lemma np_and : documented_np "and" anyargs.
Proof. intros args r _ H. change (spec_method mf mf2 "and") with spec_and in H. arity2 H args.
  destruct a as [ | |x| | | | ], b as [ | |y| | | | ]; try discriminate H. inversion H; subst. cbn. finish. Qed.
Lemma np_or : documented_np "or" anyargs.
Proof. intros args r _ H. change (spec_method mf mf2 "or") with spec_or in H. arity2 H args.
  destruct a as [ | |x| | | | ], b as [ | |y| | | | ]; try discriminate H. inversion H; subst. cbn. finish. Qed.

Lemma np_abs : documented_np "abs" anyargs.
Proof. intros args r _ H. change (spec_method mf mf2 "abs") with spec_abs in H. np1case H args. Qed.
Lemma np_sign : documented_np "sign" anyargs.
Proof. intros args r _ H. change (spec_method mf mf2 "sign") with spec_sign in H. np1case H args. Qed.
Lemma np_floor : documented_np "floor" anyargs.
Proof. intros args r _ H. change (spec_method mf mf2 "floor") with spec_floor in H. np1case H args. Qed.
Lemma np_ceil : documented_np "ceil" anyargs.
Proof. intros args r _ H. change (spec_method mf mf2 "ceil") with spec_ceil in H. np1case H args. Qed.
Lemma np_round : documented_np "round" anyargs.
Proof. intros args r _ H. change (spec_method mf mf2 "round") with spec_round in H. arity1 H args.
  destruct a as [ | | |q| | | ]; cbn in H; try discriminate H; try (inversion H; subst; cbn; finish).
  destruct (qtie q) eqn:T; [discriminate H|]. inversion H; subst; clear H. cbn.
  rewrite (round_half_even_nearest _ T). finish. Qed.
Lemma np_maximum : documented_np "maximum" anyargs.
Proof. intros args r _ H. change (spec_method mf mf2 "maximum") with spec_maximum in H. np2case H args. Qed.
Lemma np_minimum : documented_np "minimum" anyargs.
Proof. intros args r _ H. change (spec_method mf mf2 "minimum") with spec_minimum in H. np2case H args. Qed.
Lemma np_fmax : documented_np "fmax" anyargs.
Proof. intros args r _ H. change (spec_method mf mf2 "fmax") with spec_fmax in H. np2case H args. Qed.
Lemma np_fmin : documented_np "fmin" anyargs.
Proof. intros args r _ H. change (spec_method mf mf2 "fmin") with spec_fmin in H. np2case H args. Qed.
Lemma np_if_else : documented_np "if_else" anyargs.
Proof. intros args r _ H. change (spec_method mf mf2 "if_else") with spec_if_else in H. arity3 H args.
  destruct a as [ | |x| | | | ]; try discriminate H; [|destruct x]; inversion H; subst; cbn; finish. Qed.
Lemma np_where : documented_np "where" anyargs.
Proof. intros args r _ H. change (spec_method mf mf2 "where") with spec_where in H. arity3 H args.
  destruct a as [ | |x| | | | ]; try discriminate H; [|destruct x]; inversion H; subst; cbn; finish. Qed.
Lemma np_coalesce : documented_np "coalesce" anyargs.
Proof. intros args r _ H. change (spec_method mf mf2 "coalesce") with spec_coalesce in H. arity2 H args.
  destruct a; cbn in H; try discriminate H; inversion H; subst; cbn; finish. Qed.
Lemma np_is_null : documented_np "is_null" anyargs.
Proof. intros args r _ H. change (spec_method mf mf2 "is_null") with spec_is_null in H. np1case H args. Qed.
Lemma np_is_nan : documented_np "is_nan" anyargs.
Proof. intros args r _ H. change (spec_method mf mf2 "is_nan") with spec_is_nan in H. np1case H args. Qed.
Lemma np_is_inf : documented_np "is_inf" anyargs.
Proof. intros args r _ H. change (spec_method mf mf2 "is_inf") with spec_is_inf in H. np1case H args. Qed.
Lemma np_is_bad : documented_np "is_bad" anyargs.
Proof. intros args r _ H. change (spec_method mf mf2 "is_bad") with spec_is_bad in H. np1case H args. Qed.
Lemma np_is_in : documented_np "is_in" anyargs.
Proof. intros args r _ H. change (spec_method mf mf2 "is_in") with spec_is_in in H.
  destruct args as [|x elems]; [discriminate H|]. cbn in H. cbn. destruct (missing x); [discriminate H|].
  destruct (mem_cmp x elems); [|discriminate H]. cbn in *. inversion H; subst. finish. Qed.
Lemma np_concat : documented_np "concat" anyargs.
Proof. intros args r _ H. change (spec_method mf mf2 "concat") with spec_concat in H. arity2 H args.
  destruct a, b; try discriminate H. inversion H; subst. cbn. finish. Qed.
Lemma np_trimstr : documented_np "trimstr" anyargs.
Proof. intros args r _ H. change (spec_method mf mf2 "trimstr") with spec_trimstr in H. arity3 H args.
  destruct b as [ | | |qa| | | ]; try (destruct a; discriminate H). destruct c as [ | | |qb| | | ]; try (destruct a; discriminate H).
  cbn in H. cbn. destruct (Qnat qa) as [i|]; [|discriminate H]. destruct (Qnat qb) as [j|]; [|discriminate H].
  destruct (i <=? j)%nat; [|discriminate H]. destruct a; try discriminate H; inversion H; subst; finish. Qed.
Lemma np_as_str : documented_np "as_str" anyargs.
Proof. intros args r _ H. change (spec_method mf mf2 "as_str") with spec_as_str in H. arity1 H args.
  destruct a; try discriminate H; inversion H; subst; cbn; finish. Qed.
Lemma np_as_int64 : documented_np "as_int64" anyargs.
Proof. intros args r _ H. change (spec_method mf mf2 "as_int64") with spec_as_int64 in H. arity1 H args.
  destruct a as [ | | |q| | | ]; try discriminate H. cbn in H. destruct (Qis_int q) eqn:I; [|discriminate H].
  inversion H; subst. cbn. eexists; split; [reflexivity|]. apply sv_eqv_num. apply qtrunc_int. exact I. Qed.
Lemma np_arctan2 : documented_np "arctan2" anyargs.
Proof. intros args r _ H. change (spec_method mf mf2 "arctan2") with (spec_arctan2 mf2) in H. np2case H args.
  destruct (mf2 "arctan2" q q0); [|discriminate H1]. cbn in *. inversion H1; subst. finish. Qed.
Lemma np_math name : In name math_names -> documented_np name anyargs.
Proof. intros I args r _ H. simpl in I.
  repeat (destruct I as [<-|I]; [ match type of H with spec_method _ _ ?n _ = _ => change (spec_method mf mf2 n) with (spec_math mf n) in H end;
    destruct args as [|x [|y l]]; [junk H | destruct x; solve_val H; try (match goal with H1 : option_map SNum ?t = Some _ |- _ => destruct t; [|discriminate H1]; cbn in *; inversion H1; subst; finish end) | junk H] | ]).
  destruct I. Qed.
Lemma np_around : documented_np "around" anyargs.
Proof. intros args r _ H. change (spec_method mf mf2 "around") with spec_around in H. arity2 H args.
  destruct b as [ | | |dg| | | ]; try (destruct a; discriminate H). cbn in H. cbn.
  destruct (Qnat dg) as [n|] eqn:N; [|discriminate H]. destruct (n <=? 6)%nat; [|discriminate H].
  destruct a as [ | | |q| | | ]; cbn in H; try discriminate H; try (inversion H; subst; cbn; finish).
  destruct (qtie (q * pow10 (Z.of_nat n))) eqn:T; [discriminate H|]. inversion H; subst; clear H. cbn.
  rewrite (round_half_even_nearest _ T). finish. Qed.

(* _map_v overwrites every "bad" mapped value (missing or infinite) with the default: documented behaviour is reached when
   no dictionary value is bad *)
Lemma np_mapv_lookup x kv dflt r :
  forallb (fun v => negb (bad_py v)) kv = true -> map_lookup x kv dflt = Some r ->
  exists v, map_lookup x kv SNull = Some v /\ (if bad_py v then dflt else v) = r.
Proof. revert r. induction kv as [kv IH] using (well_founded_induction (Wf_nat.well_founded_ltof _ (@List.length sval))).
  intros r G L. destruct kv as [|k [|v t]]; cbn in L.
  - inversion L; subst. exists SNull. split; reflexivity.
  - discriminate L.
  - cbn in G. apply andb_true_iff in G. destruct G as [_ G]. apply andb_true_iff in G. destruct G as [Gv G].
    cbn [map_lookup]. destruct (cmp3 x k) as [c|]; [|discriminate L]. destruct (is_Eq c).
    + inversion L; subst. exists r. split; [reflexivity|]. apply negb_true_iff in Gv. rewrite Gv. reflexivity.
    + apply (IH t); [unfold ltof; cbn; lia | exact G | exact L]. Qed.
Lemma np_mapv : documented_np "mapv" mapv_values_good.
Proof. intros args r G H. change (spec_method mf mf2 "mapv") with spec_mapv in H.
  destruct args as [|x [|dflt kv]]; try discriminate H. cbn in H, G.
  destruct (Nat.even (List.length kv)); [|discriminate H]. cbn in H.
  change (np_eval mf mf2 "mapv" (x :: dflt :: kv)) with (np_mapv (x :: dflt :: kv)). unfold np_mapv.
  destruct (missing x).
  - inversion H; subst. cbn. finish.
  - destruct (np_mapv_lookup x kv dflt r G H) as [v [L E]]. rewrite L. subst r. destruct (bad_py v); finish. Qed.
Lemma np_mapv_infinite_value_refuted :
  exists args r r', spec_method mf mf2 "mapv" args = Some r /\ np_eval mf mf2 "mapv" args = Some r' /\ sv_eqvb r' r = false.
Proof. exists [SStr "a"; SNum 0; SStr "a"; SPInf], SPInf, (SNum 0). repeat split; reflexivity. Qed.
End NP.
