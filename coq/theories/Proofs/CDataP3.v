(* C17, part 3: blocks_to_rowrecs on a table whose (selected) rows are the complete blocks of a list of records:
   the result, as an explicit table up to row order. *)
From Coq Require Import List Bool Arith ZArith QArith String Ascii Lia Permutation.
Import ListNotations.
From DA Require Import Base.PyRT Base.Val Model.CData Proofs.CDataP1 Proofs.CDataP2.

Lemma eqb_eq {A} `{EqDec A} (x y : A) : eqb x y = true -> x = y.
Proof. apply eqb_true. Qed.

Lemma flat_map_ext_in {A B} (f g : A -> list B) l : (forall x, In x l -> f x = g x) -> flat_map f l = flat_map g l.
Proof. induction l as [|x t IH]; intros E; simpl; [reflexivity|].
  rewrite (E x (or_introl eq_refl)), IH; [reflexivity|]. intros y Hy. apply E. right. exact Hy. Qed.

Lemma filter_flat_map {A B} (p : B -> bool) (f : A -> list B) l : filter p (flat_map f l) = flat_map (fun x => filter p (f x)) l.
Proof. induction l as [|x t IH]; simpl; [reflexivity|]. rewrite filter_app, IH. reflexivity. Qed.

Lemma filter_map {A B} (p : B -> bool) (f : A -> B) l : filter p (map f l) = map f (filter (fun x => p (f x)) l).
Proof. induction l as [|x t IH]; simpl; [reflexivity|]. destruct (p (f x)); simpl; rewrite IH; reflexivity. Qed.

Lemma flat_map_singleton {A B} (f : A -> B) l : flat_map (fun x => [f x]) l = map f l.
Proof. induction l as [|x t IH]; simpl; [reflexivity|]. rewrite IH. reflexivity. Qed.

Lemma insert_by_map_in {A B} (k1 : A -> list val) (k2 : B -> list val) (f : A -> B) x l :
  k2 (f x) = k1 x -> (forall a, In a l -> k2 (f a) = k1 a) -> insert_by k2 (f x) (map f l) = map f (insert_by k1 x l).
Proof. intros Kx K. induction l as [|y t IH]; simpl; [reflexivity|].
  rewrite Kx, (K y (or_introl eq_refl)). destruct (cmp_leb _); simpl; [reflexivity|].
  rewrite IH; [reflexivity|]. intros a Ha. apply K. right. exact Ha. Qed.

Lemma sort_by_map_in {A B} (k1 : A -> list val) (k2 : B -> list val) (f : A -> B) l :
  (forall a, In a l -> k2 (f a) = k1 a) -> sort_by k2 (map f l) = map f (sort_by k1 l).
Proof. induction l as [|x t IH]; intros K; simpl; [reflexivity|].
  rewrite IH by (intros a Ha; apply K; right; exact Ha).
  apply insert_by_map_in; [apply K; left; reflexivity|].
  intros a Ha. apply K. right. apply (sort_by_In k1 t a). exact Ha. Qed.

Lemma key_ok_app a b : key_ok (a ++ b) = key_ok a && key_ok b.
Proof. unfold key_ok. apply forallb_app. Qed.

(* the columns kept by limit_and_rename_cols are the value columns *)
Lemma keep_eq S : spec_facts S ->
  filter (fun c => negb (mem c (rs_keys S ++ rs_ctkeys S))) (block_columns S) = value_cols S.
Proof. intros F. unfold block_columns, value_cols. rewrite filter_app.
  rewrite filter_none.
  - simpl. apply filter_ext_in. intros c Hc. rewrite mem_app.
    destruct (mem c (rs_keys S)) eqn:M; [|reflexivity]. apply mem_In in M. exfalso. exact (sf_rk_cc S F c M Hc).
  - intros c Hc. rewrite mem_app. apply negb_false_iff. apply orb_true_iff. left. apply mem_In. exact Hc. Qed.

Lemma lookup_names_ok S cr : spec_facts S -> In cr (rows (rs_ct S)) -> lookup_names S (kap S cr) = Ok (nm S cr).
Proof. intros F Hcr. unfold lookup_names.
  rewrite (filter_unique (fun cr0 => eqb (cells (cols (rs_ct S)) cr0 (rs_ctkeys S)) (kap S cr)) (rows (rs_ct S)) cr).
  - reflexivity.
  - eapply NoDup_map_NoDup. apply (sf_keys_nodup S F).
  - exact Hcr.
  - apply eqb_refl.
  - intros y Hy E. apply eqb_eq in E. eapply NoDup_map_inv; [apply (sf_keys_nodup S F)|exact Hy|exact Hcr|exact E]. Qed.

(* the part of blocks_to_rowrecs after the groups are formed and sorted (a copy of the model's text; b2r_unfold ties them) *)
Definition b2r_tail (S : recspec) (split : list (list val * list (list val))) : res table :=
  let RK := rs_keys S in let CK := rs_ctkeys S in let bc := block_columns S in
  match split with
  | [] => Reject
  | (_, g0) :: rest =>
    if negb (forallb (fun kg => Nat.eqb (List.length (snd kg)) (List.length g0)) rest) then Reject
    else
      let sk := map (fun r => cells bc r RK) g0 in
      let keep := filter (fun c => negb (mem c (RK ++ CK))) bc in
      let pieces := map (fun kg => map (fun r => cells bc r keep) (snd kg)) split in
      match res_all (map (fun kg => lookup_names S (fst kg)) split) with
      | Reject => Reject
      | Junk => Junk
      | Ok names =>
        if negb (forallb (fun ns => Nat.eqb (List.length ns) (List.length keep)) names) then Reject
        else
          let cs := RK ++ List.concat names in
          let body := hcat2 sk (hcat_all (List.length g0) pieces) in
          Ok (mktable cs (match RK with [] => body | _ => sort_rows cs RK body end))
      end
  end.

Lemma match_nonempty {A B} (l : list A) (a b : B) : l <> [] -> match l with [] => a | _ :: _ => b end = b.
Proof. destruct l; [congruence|reflexivity]. Qed.

Lemma b2r_unfold S T :
  rows (select_cols (block_columns S) T) <> [] ->
  is_keyed (rs_keys S ++ rs_ctkeys S) (select_cols (block_columns S) T) = Ok true ->
  blocks_to_rowrecs S T =
  b2r_tail S (map (fun kg : list val * list (list val) =>
                     (fst kg, match rs_keys S with [] => snd kg | _ :: _ => sort_rows (block_columns S) (rs_keys S) (snd kg) end))
                  (groupby (rs_ctkeys S) (select_cols (block_columns S) T))).
Proof. intros NE K. unfold blocks_to_rowrecs. cbv zeta. rewrite (match_nonempty _ _ _ NE). rewrite K. reflexivity. Qed.

(* the tail on groups that are all images of one list of records *)
Lemma b2r_tail_explicit S (F : spec_facts S) {X} (rk : X -> list val) (vals : X -> list val -> list val)
      (brow : X -> list val -> list val) (cr_of : list val -> list val) (Rs : list X) (Ks : list (list val)) :
  Ks <> [] ->
  (forall k, In k Ks -> In (cr_of k) (rows (rs_ct S)) /\ k = kap S (cr_of k)) ->
  (forall x k, In x Rs -> In k Ks -> cells (block_columns S) (brow x (cr_of k)) (rs_keys S) = rk x) ->
  (forall x k, In x Rs -> In k Ks -> cells (block_columns S) (brow x (cr_of k)) (value_cols S) = vals x (cr_of k)) ->
  exists rows',
    b2r_tail S (map (fun k => (k, map (fun x => brow x (cr_of k)) Rs)) Ks)
    = Ok (mktable (rs_keys S ++ List.concat (map (nm S) (map cr_of Ks))) rows') /\
    Permutation rows' (map (fun x => rk x ++ List.concat (map (vals x) (map cr_of Ks))) Rs).
Proof. intros NE KI Hrk Hvc.
  exists (match rs_keys S with
          | [] => map (fun x => rk x ++ List.concat (map (vals x) (map cr_of Ks))) Rs
          | _ :: _ => sort_rows (rs_keys S ++ List.concat (map (nm S) (map cr_of Ks))) (rs_keys S)
                        (map (fun x => rk x ++ List.concat (map (vals x) (map cr_of Ks))) Rs)
          end).
  split; [|destruct (rs_keys S); [reflexivity|apply sort_rows_perm]].
  unfold b2r_tail. cbv zeta. rewrite (keep_eq S F).
  destruct Ks as [|k0 Ks'] eqn:EK; [congruence|]. rewrite <- EK in *. rewrite EK at 1. simpl map at 1. cbv iota beta.
  match goal with |- context [forallb ?f ?l] => assert (FA : forallb f l = true) end.
  { apply forallb_forall. intros kg Hkg. apply in_map_iff in Hkg. destruct Hkg as [k [<- _]]. simpl.
    rewrite !map_length. apply Nat.eqb_refl. }
  rewrite FA. clear FA. simpl negb. cbv iota.
  assert (EN : res_all (map (fun kg : list val * list (list val) => lookup_names S (fst kg))
                          (map (fun k => (k, map (fun x => brow x (cr_of k)) Rs)) Ks))
               = Ok (map (fun k => nm S (cr_of k)) Ks)).
  { rewrite map_map. simpl. clear EK NE Hrk Hvc. induction Ks as [|k l IH]; simpl; [reflexivity|].
    destruct (KI k (or_introl eq_refl)) as [Hk Ek]. rewrite Ek at 1. rewrite (lookup_names_ok S _ F Hk).
    rewrite IH by (intros k' Hk'; apply KI; right; exact Hk'). reflexivity. }
  rewrite EN. clear EN.
  match goal with |- context [forallb ?f ?l] => assert (FA : forallb f l = true) end.
  { apply forallb_forall. intros ns Hns. apply in_map_iff in Hns. destruct Hns as [k [<- _]]. rewrite nm_length. apply Nat.eqb_refl. }
  rewrite FA. clear FA. simpl negb. cbv iota.
  assert (Hk0 : In k0 Ks) by (rewrite EK; left; reflexivity).
  assert (EB : hcat2 (map (fun r => cells (block_columns S) r (rs_keys S)) (map (fun x => brow x (cr_of k0)) Rs))
                 (hcat_all (List.length (map (fun x => brow x (cr_of k0)) Rs))
                    (map (fun kg : list val * list (list val) => map (fun r => cells (block_columns S) r (value_cols S)) (snd kg))
                       (map (fun k => (k, map (fun x => brow x (cr_of k)) Rs)) Ks)))
               = map (fun x => rk x ++ List.concat (map (vals x) (map cr_of Ks))) Rs).
  { rewrite (map_ext (fun x => rk x ++ List.concat (map (vals x) (map cr_of Ks)))
                     (fun x => rk x ++ List.concat (map (fun k => vals x (cr_of k)) Ks))) by (intros x; rewrite map_map; reflexivity).
    rewrite map_length. rewrite !map_map. simpl.
    rewrite (map_ext_in (fun x => cells (block_columns S) (brow x (cr_of k0)) (rs_keys S)) rk) by (intros x Hx; apply Hrk; assumption).
    rewrite (map_ext_in _ (fun k => map (fun x => vals x (cr_of k)) Rs)).
    - rewrite (hcat_all_map (fun k x => vals x (cr_of k)) Ks Rs). apply hcat2_map.
    - intros k Hk. rewrite map_map. apply map_ext_in. intros x Hx. apply Hvc; assumption. }
  rewrite EB. rewrite !map_map. reflexivity. Qed.

Section B2R.
  Variable S : recspec.
  Hypothesis F : spec_facts S.
  Variable X : Type.
  Variable rk : X -> list val.
  Variable vals : X -> list val -> list val.
  Variable brow : X -> list val -> list val.
  Variable recs : list X.
  Variable T : table.
  Let bc := block_columns S.
  Let RK := rs_keys S.
  Let CK := rs_ctkeys S.
  Let ctrows := rows (rs_ct S).
  Hypothesis Hperm : Permutation (rows (select_cols bc T)) (flat_map (fun x => map (brow x) ctrows) recs).
  Hypothesis Hne : recs <> [].
  Hypothesis Hrk_nodup : NoDup (map rk recs).
  Hypothesis Hrk_ok : forall x, In x recs -> key_ok (rk x) = true.
  Hypothesis Hrk_len : forall x, In x recs -> List.length (rk x) = List.length RK.
  Hypothesis Hb_rk : forall x cr, In x recs -> In cr ctrows -> cells bc (brow x cr) RK = rk x.
  Hypothesis Hb_ck : forall x cr, In x recs -> In cr ctrows -> cells bc (brow x cr) CK = kap S cr.
  Hypothesis Hb_vc : forall x cr, In x recs -> In cr ctrows -> cells bc (brow x cr) (value_cols S) = vals x cr.

  Let d := rows (select_cols bc T).
  Let Ks := group_keys CK (select_cols bc T).
  Let cr_of (k : list val) : list val := hd [] (filter (fun cr => eqb (kap S cr) k) ctrows).
  Let Rs := sort_by rk recs.

  Lemma b2r_ctrows_nodup : NoDup ctrows.
  Proof. eapply NoDup_map_NoDup. apply (sf_keys_nodup S F). Qed.

  Lemma b2r_cr_of cr : In cr ctrows -> cr_of (kap S cr) = cr.
  Proof. intros Hcr. unfold cr_of.
    rewrite (filter_unique (fun cr0 => eqb (kap S cr0) (kap S cr)) ctrows cr); [reflexivity|apply b2r_ctrows_nodup|exact Hcr|apply eqb_refl|].
    intros y Hy E. apply eqb_eq in E. eapply NoDup_map_inv; [apply (sf_keys_nodup S F)|exact Hy|exact Hcr|exact E]. Qed.

  Lemma b2r_d_In r : In r d <-> exists x cr, In x recs /\ In cr ctrows /\ r = brow x cr.
  Proof. split.
    - intros I. apply (Permutation_in _ Hperm) in I. apply in_flat_map in I. destruct I as [x [Hx M]].
      apply in_map_iff in M. destruct M as [cr [E Hcr]]. exists x, cr. auto.
    - intros [x [cr [Hx [Hcr E]]]]. apply (Permutation_in _ (Permutation_sym Hperm)). apply in_flat_map. exists x. split; [exact Hx|].
      apply in_map_iff. exists cr. auto. Qed.

  Lemma b2r_keyed : is_keyed (RK ++ CK) (select_cols bc T) = Ok true.
  Proof. apply is_keyed_ok.
    - simpl. apply subset_spec. intros c Hc. unfold bc, block_columns. apply in_app_iff in Hc. apply in_app_iff.
      destruct Hc as [i|i]; [left; exact i|right; apply (sf_ck_sub S F); exact i].
    - simpl. intros r Hr. apply b2r_d_In in Hr. destruct Hr as [x [cr [Hx [Hcr ->]]]].
      rewrite cells_app, key_ok_app, (Hb_rk x cr Hx Hcr), (Hb_ck x cr Hx Hcr), (Hrk_ok x Hx), (sf_keys_ok S F cr Hcr). reflexivity.
    - simpl. eapply Permutation_NoDup; [apply Permutation_map; apply Permutation_sym; exact Hperm|].
      rewrite map_flat_map.
      rewrite (flat_map_ext_in _ (fun x => map (fun cr => rk x ++ kap S cr) ctrows)).
      + apply NoDup_product with (n := List.length RK); [exact Hrk_nodup|apply (sf_keys_nodup S F)|exact Hrk_len].
      + intros x Hx. rewrite map_map. apply map_ext_in. intros cr Hcr.
        rewrite cells_app, (Hb_rk x cr Hx Hcr), (Hb_ck x cr Hx Hcr). reflexivity. Qed.

  Lemma b2r_ctrows_ne : ctrows <> [].
  Proof. pose proof (sf_two_rows S F) as L. unfold ctrows. destruct (rows (rs_ct S)); simpl in L; [lia|discriminate]. Qed.

  Lemma b2r_Ks_In k : In k Ks <-> exists cr, In cr ctrows /\ k = kap S cr.
  Proof. unfold Ks, group_keys. rewrite sort_by_In, In_dedup, filter_In, in_map_iff. simpl. split.
    - intros [[[r [E Hr]] _] _]. apply b2r_d_In in Hr. destruct Hr as [x [cr [Hx [Hcr ->]]]].
      exists cr. split; [exact Hcr|]. rewrite <- E. apply Hb_ck; assumption.
    - intros [cr [Hcr ->]]. destruct recs as [|x0 rest] eqn:ER; [congruence|].
      assert (Hx0 : In x0 recs) by (rewrite ER; left; reflexivity). rewrite <- ER in *.
      split; [|tauto]. split.
      + exists (brow x0 cr). split; [apply Hb_ck; assumption|]. apply b2r_d_In. exists x0, cr. auto.
      + apply key_ok_non_null. apply (sf_keys_ok S F). exact Hcr. Qed.

  Lemma b2r_Ks_nodup : NoDup Ks.
  Proof. unfold Ks, group_keys. eapply Permutation_NoDup; [apply Permutation_sym; apply sort_by_perm|apply NoDup_dedup]. Qed.

  Lemma b2r_G_perm : Permutation (map cr_of Ks) ctrows.
  Proof. apply NoDup_Permutation.
    - apply (NoDup_map_NoDup (kap S)). rewrite map_map.
      rewrite (map_ext_in _ (fun k => k)); [rewrite map_id; apply b2r_Ks_nodup|].
      intros k Hk. apply b2r_Ks_In in Hk. destruct Hk as [cr [Hcr ->]]. rewrite b2r_cr_of by exact Hcr. reflexivity.
    - apply b2r_ctrows_nodup.
    - intros cr. rewrite in_map_iff. split.
      + intros [k [E Hk]]. apply b2r_Ks_In in Hk. destruct Hk as [cr' [Hcr' ->]]. rewrite b2r_cr_of in E by exact Hcr'. subst. exact Hcr'.
      + intros Hcr. exists (kap S cr). split; [apply b2r_cr_of; exact Hcr|]. apply b2r_Ks_In. exists cr. auto. Qed.

  Lemma b2r_Rs_In x : In x Rs <-> In x recs.
  Proof. apply sort_by_In. Qed.

  (* one group, sorted by the record keys: the rows of that control key, in the order of the sorted records *)
  Lemma b2r_group cr : In cr ctrows ->
    sort_rows bc RK (filter (fun r => eqb (cells bc r CK) (kap S cr)) d) = map (fun x => brow x cr) Rs.
  Proof. intros Hcr. unfold sort_rows, Rs.
    rewrite <- (sort_by_map_in rk (fun r => cells bc r RK) (fun x => brow x cr)) by (intros a Ha; apply Hb_rk; assumption).
    symmetry. apply sort_by_perm_eq.
    - (* the group is a rearrangement of the rows brow x cr *)
      etransitivity; [|apply perm_filter; apply Permutation_sym; exact Hperm].
      rewrite filter_flat_map.
      rewrite (flat_map_ext_in _ (fun x => [brow x cr])); [rewrite flat_map_singleton; reflexivity|].
      intros x Hx. rewrite filter_map.
      rewrite (filter_unique _ ctrows cr); [reflexivity|apply b2r_ctrows_nodup|exact Hcr| |].
      + rewrite (Hb_ck x cr Hx Hcr). apply eqb_refl.
      + intros y Hy E. rewrite (Hb_ck x y Hx Hy) in E. apply eqb_eq in E.
        eapply NoDup_map_inv; [apply (sf_keys_nodup S F)|exact Hy|exact Hcr|exact E].
    - rewrite map_map. rewrite (map_ext_in _ rk); [exact Hrk_nodup|]. intros a Ha. apply Hb_rk; assumption.
    - apply Forall_forall. intros r Hr. apply in_map_iff in Hr. destruct Hr as [x [<- Hx]].
      rewrite (Hb_rk x cr Hx Hcr). apply key_ok_keyc. apply Hrk_ok. exact Hx. Qed.

  Lemma b2r_split :
    map (fun kg : list val * list (list val) =>
           (fst kg, match RK with [] => snd kg | _ :: _ => sort_rows bc RK (snd kg) end))
        (groupby CK (select_cols bc T))
    = map (fun k => (k, map (fun x => brow x (cr_of k)) Rs)) Ks.
  Proof. unfold groupby. fold Ks. rewrite map_map. apply map_ext_in. intros k Hk. simpl.
    apply b2r_Ks_In in Hk. destruct Hk as [cr [Hcr ->]]. rewrite b2r_cr_of by exact Hcr. f_equal.
    rewrite <- (b2r_group cr Hcr). fold d. fold bc. unfold RK. destruct (rs_keys S) eqn:E; [|reflexivity].
    rewrite sort_rows_nil. reflexivity. Qed.

  Lemma b2r_rec_ex : exists x0, In x0 recs.
  Proof. destruct recs as [|x0 rest]; [congruence|]. exists x0. left. reflexivity. Qed.
  Lemma b2r_cr_ex : exists cr0, In cr0 ctrows.
  Proof. pose proof b2r_ctrows_ne as NE. destruct ctrows as [|cr0 crs]; [congruence|]. exists cr0. left. reflexivity. Qed.

  Theorem b2r_char :
    exists G rows', Permutation G ctrows /\
      blocks_to_rowrecs S T = Ok (mktable (RK ++ List.concat (map (nm S) G)) rows') /\
      Permutation rows' (map (fun x => rk x ++ List.concat (map (vals x) G)) recs).
  Proof.
    exists (map cr_of Ks).
    assert (Hd : d <> []).
    { intros E. destruct b2r_rec_ex as [x0 Hx0]. destruct b2r_cr_ex as [cr0 Hcr0].
      assert (I : In (brow x0 cr0) d) by (apply b2r_d_In; exists x0, cr0; auto).
      rewrite E in I. destruct I. }
    assert (KI : forall k, In k Ks -> In (cr_of k) ctrows /\ k = kap S (cr_of k)).
    { intros k Hk. apply b2r_Ks_In in Hk. destruct Hk as [cr [Hcr ->]]. rewrite b2r_cr_of by exact Hcr. auto. }
    assert (KsNE : Ks <> []).
    { intros E. destruct b2r_cr_ex as [cr0 Hcr0].
      assert (I : In (kap S cr0) Ks) by (apply b2r_Ks_In; exists cr0; auto). rewrite E in I. destruct I. }
    destruct (b2r_tail_explicit S F rk vals brow cr_of Rs Ks KsNE KI) as [rows' [E P]].
    - intros x k Hx Hk. apply Hb_rk; [apply b2r_Rs_In; exact Hx|apply KI; exact Hk].
    - intros x k Hx Hk. apply Hb_vc; [apply b2r_Rs_In; exact Hx|apply KI; exact Hk].
    - exists rows'. split; [apply b2r_G_perm|]. split.
      + rewrite (b2r_unfold S T Hd b2r_keyed). fold bc RK CK. rewrite b2r_split. exact E.
      + etransitivity; [exact P|]. apply Permutation_map. apply sort_by_perm.
  Qed.
End B2R.
