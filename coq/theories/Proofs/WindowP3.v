(* C27, part 3: what each window function computes at position j of an ordered partition (for all lists, all positions):
   running sums / maxima / minima / products, row numbers and counts, shift, rank, first / last, ffill / bfill, and the
   group aggregates broadcast to every row. *)
From Coq Require Import List Bool Arith ZArith QArith String Lia Permutation.
Import ListNotations.
From DA Require Import Base.PyRT Base.Val Model.Sem Model.WindowSpec Proofs.SemOrderP.
Local Open Scope string_scope.
Local Open Scope list_scope.

Definition is_num (v : val) : bool := match num_of v with Some _ => true | None => false end.

(* ---------- running folds *)
Lemma nums_cons_some v t x : num_of v = Some x -> nums (v :: t) = x :: nums t.
Proof. intros E. unfold nums. simpl. rewrite E. reflexivity. Qed.
Lemma nums_cons_none v t : num_of v = None -> nums (v :: t) = nums t.
Proof. intros E. unfold nums. simpl. rewrite E. reflexivity. Qed.

Lemma qfold1_snoc f pre x :
  qfold1 f (pre ++ [x]) = Some (match qfold1 f pre with None => x | Some y => f y x end).
Proof. destruct pre as [|p ps]; simpl; [reflexivity|]. rewrite fold_left_app. reflexivity. Qed.

Lemma running_nth carry f vs : forall pre j, (j < List.length vs)%nat ->
  nth j (running carry f (qfold1 f pre) vs) VNull =
    if carry || is_num (nth j vs VNull) then opt_num (qfold1 f (pre ++ nums (firstn (S j) vs))) else VNull.
Proof.
  induction vs as [|v t IH]; intros pre j L; [simpl in L; lia|].
  cbn [running]. destruct (num_of v) as [x|] eqn:Ev.
  - destruct j as [|j].
    + cbn [nth firstn]. unfold is_num. rewrite Ev, orb_true_r, (nums_cons_some v [] x Ev). cbn [nums flat_map].
      rewrite qfold1_snoc. reflexivity.
    + cbn [nth]. simpl in L.
      assert (Some (match qfold1 f pre with None => x | Some y => f y x end) = qfold1 f (pre ++ [x])) as E by (symmetry; apply qfold1_snoc).
      rewrite E, (IH (pre ++ [x]) j) by lia.
      change (firstn (S (S j)) (v :: t)) with (v :: firstn (S j) t). rewrite (nums_cons_some v _ x Ev), <- app_assoc. reflexivity.
  - destruct j as [|j].
    + cbn [nth firstn]. unfold is_num. rewrite Ev, orb_false_r, (nums_cons_none v [] Ev). cbn [nums flat_map]. rewrite app_nil_r.
      destruct carry; reflexivity.
    + cbn [nth]. simpl in L. rewrite (IH pre j) by lia.
      change (firstn (S (S j)) (v :: t)) with (v :: firstn (S j) t). rewrite (nums_cons_none v _ Ev). reflexivity.
Qed.

(* cumsum / cummax / cummin / cumprod at position j: the fold of the NON-NULL values among the first j+1; at a null-valued row
   Pandas writes null and SQL (carry) writes the same running value *)
Theorem running_value (fl : flavor) (op : string) (f : Q -> Q -> Q) (carry : bool) (extra vs : list val) (j : nat) :
  (op, f, carry) = ("cumsum", Qplus, f_running_carry fl) \/ (op, f, carry) = ("cummax", qmax, f_running_carry fl)
  \/ (op, f, carry) = ("cummin", qmin, f_running_carry fl) \/ (op, f, carry) = ("cumprod", Qmult, false) ->
  (j < List.length vs)%nat ->
  nth j (win_fn fl op extra vs) VNull =
    if carry || is_num (nth j vs VNull) then opt_num (qfold1 f (nums (firstn (S j) vs))) else VNull.
Proof.
  intros H L. destruct H as [H|[H|[H|H]]]; inversion H; subst; unfold win_fn; apply (running_nth _ _ vs [] j L).
Qed.

(* the running sum really is the sum *)
Lemma fold_plus_Qeq t : forall a b, a == b -> fold_left Qplus t a == fold_left Qplus t b.
Proof. induction t as [|x t IH]; intros a b E; simpl; [exact E|]. apply IH. rewrite E. reflexivity. Qed.

Lemma qfold1_plus_sum l : l <> [] -> opt_num (qfold1 Qplus l) = qn (qsum l).
Proof.
  destruct l as [|x t]; [congruence|]. intros _. simpl. unfold qn, qsum. simpl. f_equal. apply Qred_complete.
  apply fold_plus_Qeq. rewrite Qplus_0_l. reflexivity.
Qed.

Theorem cumsum_is_prefix_sum (fl : flavor) (extra vs : list val) (j : nat) :
  (j < List.length vs)%nat -> is_num (nth j vs VNull) = true ->
  nth j (win_fn fl "cumsum" extra vs) VNull = qn (qsum (nums (firstn (S j) vs))).
Proof.
  intros L N. rewrite (running_value fl "cumsum" Qplus (f_running_carry fl) extra vs j (or_introl eq_refl) L), N, orb_true_r.
  apply qfold1_plus_sum.
  (* the j-th value is a number, so the prefix holds at least one *)
  clear - L N. revert j L N. induction vs as [|v t IH]; intros j L N; [simpl in L; lia|].
  destruct j as [|j]; simpl in N.
  - unfold is_num in N. destruct (num_of v) as [x|] eqn:E; [|discriminate]. cbn [firstn]. rewrite (nums_cons_some v [] x E). discriminate.
  - change (firstn (S (S j)) (v :: t)) with (v :: firstn (S j) t). simpl in L.
    destruct (num_of v) as [x|] eqn:E; [rewrite (nums_cons_some v _ x E); discriminate|]. rewrite (nums_cons_none v _ E). apply IH; [lia|exact N].
Qed.

(* ---------- row numbers and counts *)
Lemma number_from_nth vs : forall s j, (j < List.length vs)%nat -> nth j (number_from s vs) VNull = qn (inject_Z (Z.of_nat (s + j))).
Proof.
  induction vs as [|v t IH]; intros s j L; [simpl in L; lia|]. destruct j as [|j]; simpl.
  - rewrite Nat.add_0_r. reflexivity.
  - simpl in L. rewrite IH by lia. do 3 f_equal. lia.
Qed.

Theorem row_number_value (fl : flavor) (op : string) (extra vs : list val) (j : nat) :
  In op ["_row_number"; "row_number"; "_count"] -> (j < List.length vs)%nat ->
  nth j (win_fn fl op extra vs) VNull = qn (inject_Z (Z.of_nat (j + 1))).
Proof.
  intros H L. simpl in H. destruct H as [<-|[<-|[<-|[]]]]; unfold win_fn; rewrite number_from_nth by exact L; do 3 f_equal; lia.
Qed.

Theorem cumcount_value (fl : flavor) (extra vs : list val) (j : nat) :
  (j < List.length vs)%nat -> nth j (win_fn fl "cumcount" extra vs) VNull = qn (inject_Z (Z.of_nat j)).
Proof. intros L. unfold win_fn. rewrite number_from_nth by exact L. reflexivity. Qed.

(* ---------- shift *)
Lemma nth_removelast {A} (l : list A) m d : (S m < List.length l)%nat -> nth m (removelast l) d = nth m l d.
Proof.
  revert m. induction l as [|a t IH]; intros m L; [simpl in L; lia|]. destruct t as [|b u]; [simpl in L; lia|].
  destruct m as [|m]; [reflexivity|]. change (removelast (a :: b :: u)) with (a :: removelast (b :: u)). cbn [nth]. apply IH. simpl in *. lia.
Qed.

Lemma shift_right_nth n : forall vs j, (j < List.length vs)%nat ->
  nth j (shift_right n vs) VNull = if Nat.ltb j n then VNull else nth (j - n) vs VNull.
Proof.
  induction n as [|n IH]; intros vs j L.
  - simpl. rewrite Nat.sub_0_r. reflexivity.
  - cbn [shift_right]. destruct j as [|j]; [reflexivity|]. cbn [nth].
    assert (j < List.length (removelast vs))%nat as L'.
    { destruct vs as [|a t]; [simpl in L; lia|]. rewrite removelast_firstn_len, firstn_length. simpl in *. lia. }
    rewrite (IH _ j L'). change (Nat.ltb (S j) (S n)) with (Nat.ltb j n). destruct (Nat.ltb j n) eqn:E; [reflexivity|].
    apply Nat.ltb_ge in E. change (S j - S n)%nat with (j - n)%nat. apply nth_removelast. lia.
Qed.

Lemma nth_skipn_add {A} n : forall (l : list A) j d, nth j (skipn n l) d = nth (n + j) l d.
Proof. induction n as [|n IH]; intros l j d; [reflexivity|]. destruct l as [|a t]; [destruct j; reflexivity|]. simpl. apply IH. Qed.

Lemma shift_left_nth n vs j : nth j (shift_left n vs) VNull = nth (j + n) vs VNull.
Proof.
  unfold shift_left. destruct (Nat.lt_ge_cases (j + n) (List.length vs)) as [L|L].
  - rewrite app_nth1 by (rewrite skipn_length; lia). rewrite nth_skipn_add. f_equal. lia.
  - rewrite (nth_overflow vs) by exact L.
    destruct (Nat.lt_ge_cases j (List.length (skipn n vs))) as [L2|L2]; [rewrite skipn_length in L2; lia|].
    rewrite app_nth2 by exact L2. destruct (Nat.lt_ge_cases (j - List.length (skipn n vs)) (Nat.min n (List.length vs))) as [L3|L3].
    + apply nth_repeat.
    + apply nth_overflow. rewrite repeat_length. exact L3.
Qed.

(* shift(n): the value n rows EARLIER in the declared order (null when there is none); shift(-n): n rows LATER *)
Theorem shift_value (fl : flavor) (vs : list val) (j : nat) (q : Q) :
  (j < List.length vs)%nat ->
  nth j (win_fn fl "shift" [VNum q] vs) VNull =
    (if Z.leb 0 (Qnum q)
     then (if Nat.ltb j (Z.to_nat (Qnum q)) then VNull else nth (j - Z.to_nat (Qnum q)) vs VNull)
     else nth (j + Z.to_nat (Z.opp (Qnum q))) vs VNull)
  /\ nth j (win_fn fl "shift" [] vs) VNull = (if Nat.ltb j 1 then VNull else nth (j - 1) vs VNull).
Proof.
  intros L. unfold win_fn. split.
  - destruct (Z.leb 0 (Qnum q)); [apply shift_right_nth; exact L|apply shift_left_nth].
  - apply shift_right_nth. exact L.
Qed.

(* ---------- rank: depends on the values of the partition only, not on their order *)
Theorem rank_value (fl : flavor) (extra vs : list val) (j : nat) :
  (j < List.length vs)%nat -> nth j (win_fn fl "rank" extra vs) VNull = rank_val vs (nth j vs VNull).
Proof.
  intros L. unfold win_fn. rewrite (nth_indep _ VNull (rank_val vs VNull)) by (rewrite map_length; exact L).
  apply (map_nth (rank_val vs)).
Qed.

Lemma nums_perm vs vs' : Permutation vs vs' -> Permutation (nums vs) (nums vs').
Proof. apply perm_flat_map. Qed.

Theorem rank_order_independent (vs vs' : list val) (v : val) : Permutation vs vs' -> rank_val vs v = rank_val vs' v.
Proof.
  intros P. unfold rank_val. destruct (num_of v) as [x|]; [|reflexivity].
  rewrite (Permutation_length (perm_filter (fun y => Qle_bool y x && negb (Qeq_bool y x)) _ _ (nums_perm _ _ P))).
  rewrite (Permutation_length (perm_filter (fun y => Qeq_bool y x) _ _ (nums_perm _ _ P))). reflexivity.
Qed.

(* a value that occurs once gets 1 + the number of smaller values *)
Theorem rank_of_untied_value (vs : list val) (v : val) (x : Q) :
  num_of v = Some x -> List.length (filter (fun y => Qeq_bool y x) (nums vs)) = 1%nat ->
  rank_val vs v = qn (inject_Z (Z.of_nat (List.length (filter (fun y => Qle_bool y x && negb (Qeq_bool y x)) (nums vs)) + 1))).
Proof.
  intros E U. unfold rank_val. rewrite E, U. unfold qn. f_equal. apply Qred_complete.
  rewrite Nat2Z.inj_add, inject_Z_plus. simpl. field.
Qed.

(* ---------- first / last / ffill / bfill *)
Lemma first_nonnull_cons v t : first_nonnull (v :: t) = if is_null v then first_nonnull t else v.
Proof. unfold first_nonnull. simpl. destruct (is_null v); reflexivity. Qed.

Lemma first_nonnull_app l m : first_nonnull (l ++ m) = if forallb is_null l then first_nonnull m else first_nonnull l.
Proof.
  induction l as [|v t IH]; [reflexivity|]. rewrite <- app_comm_cons, !first_nonnull_cons. simpl.
  destruct (is_null v); [exact IH|reflexivity].
Qed.

Lemma nth_broadcast (a : val) vs : forall j, (j < List.length vs)%nat -> nth j (map (fun _ : val => a) vs) VNull = a.
Proof. induction vs as [|v t IH]; intros [|j] L; simpl in *; try lia; [reflexivity|]. apply IH. lia. Qed.

(* first: the first non-null value in the declared order, at every row; last: the last one *)
Theorem first_last_value (fl : flavor) (extra vs : list val) (j : nat) :
  (j < List.length vs)%nat ->
  nth j (win_fn fl "first" extra vs) VNull = first_nonnull vs /\ nth j (win_fn fl "last" extra vs) VNull = first_nonnull (rev vs).
Proof.
  intros L. unfold win_fn. split; apply nth_broadcast; exact L.
Qed.

Theorem first_nonnull_spec (l1 l2 : list val) (v : val) :
  forallb is_null l1 = true -> is_null v = false -> first_nonnull (l1 ++ v :: l2) = v.
Proof. intros A N. rewrite first_nonnull_app, A, first_nonnull_cons, N. reflexivity. Qed.

Theorem last_nonnull_spec (l1 l2 : list val) (v : val) :
  forallb is_null l2 = true -> is_null v = false -> first_nonnull (rev (l1 ++ v :: l2)) = v.
Proof.
  intros A N. rewrite rev_app_distr. cbn [rev]. rewrite <- app_assoc. cbn [app].
  assert (forallb is_null (rev l2) = true) as A'.
  { apply forallb_forall. intros x I. apply in_rev in I. rewrite forallb_forall in A. apply A. exact I. }
  rewrite first_nonnull_app, A', first_nonnull_cons, N. reflexivity.
Qed.

Theorem all_null_first_is_null (vs : list val) : forallb is_null vs = true -> first_nonnull vs = VNull.
Proof. intros A. rewrite <- (app_nil_r vs), first_nonnull_app, A. reflexivity. Qed.

Lemma ffill_from_nth vs : forall acc j, (j < List.length vs)%nat ->
  nth j (ffill_from acc vs) VNull = first_nonnull (rev (firstn (S j) vs) ++ [acc]).
Proof.
  induction vs as [|v t IH]; intros acc j L; [simpl in L; lia|]. destruct j as [|j].
  - simpl. rewrite !first_nonnull_cons. destruct (is_null v); [|reflexivity]. destruct acc; reflexivity.
  - cbn [ffill_from nth]. simpl in L. rewrite IH by lia.
    change (firstn (S (S j)) (v :: t)) with (v :: firstn (S j) t). cbn [rev]. rewrite <- app_assoc. cbn [app].
    rewrite !first_nonnull_app.
    destruct (forallb is_null (rev (firstn (S j) t))); [|reflexivity].
    destruct (is_null v) eqn:Nv; rewrite !first_nonnull_cons, ?Nv; reflexivity.
Qed.

(* ffill: the closest non-null value at or before the row; bfill: the closest at or after it *)
Theorem ffill_value (fl : flavor) (extra vs : list val) (j : nat) :
  (j < List.length vs)%nat -> nth j (win_fn fl "ffill" extra vs) VNull = first_nonnull (rev (firstn (S j) vs)).
Proof.
  intros L. unfold win_fn. rewrite ffill_from_nth by exact L. rewrite first_nonnull_app.
  destruct (forallb is_null (rev (firstn (S j) vs))) eqn:A; [|reflexivity]. symmetry. apply all_null_first_is_null. exact A.
Qed.

Lemma bfill_list_nth vs : forall j, nth j (bfill_list vs) VNull = first_nonnull (skipn j vs).
Proof.
  induction vs as [|v t IH]; intros j; [destruct j; reflexivity|]. destruct j as [|j].
  - cbn [bfill_list nth skipn]. rewrite first_nonnull_cons. destruct (is_null v); [|reflexivity].
    pose proof (IH 0%nat) as H0. cbn [skipn] in H0. rewrite <- H0. destruct (bfill_list t); reflexivity.
  - cbn [bfill_list nth skipn]. apply IH.
Qed.

Theorem bfill_value (fl : flavor) (extra vs : list val) (j : nat) :
  nth j (win_fn fl "bfill" extra vs) VNull = first_nonnull (skipn j vs).
Proof. unfold win_fn. apply bfill_list_nth. Qed.

(* ---------- group aggregates: ONE value, computed from all the values of the partition, written at every row *)
Theorem group_aggregate_broadcast (fl : flavor) (op : string) (extra vs : list val) (j : nat) :
  In op ["sum"; "mean"; "min"; "max"; "count"; "size"; "_size"] -> (j < List.length vs)%nat ->
  nth j (win_fn fl op extra vs) VNull = agg_fn fl op vs.
Proof.
  intros H L. simpl in H. repeat (destruct H as [<-|H]; [unfold win_fn; apply nth_broadcast; exact L|]). destruct H.
Qed.

Theorem median_nunique_var_broadcast (fl : flavor) (extra vs : list val) (j : nat) :
  (j < List.length vs)%nat ->
  nth j (win_fn fl "median" extra vs) VNull = median_val vs
  /\ nth j (win_fn fl "nunique" extra vs) VNull = nunique_val vs
  /\ nth j (win_fn fl "var" extra vs) VNull = var_val vs.
Proof. intros L. unfold win_fn. repeat split; apply nth_broadcast; exact L. Qed.

(* an aggregate does not depend on the order of the partition's values (count / size / sum / mean shown; min / max alike) *)
Theorem count_size_order_independent (fl : flavor) (op : string) (vs vs' : list val) :
  In op ["count"; "size"; "_size"] -> Permutation vs vs' -> agg_fn fl op vs = agg_fn fl op vs'.
Proof.
  intros H P. simpl in H.
  assert (List.length vs = List.length vs') as EL by (apply Permutation_length; exact P).
  assert (List.length (filter (fun v => negb (is_null v)) vs) = List.length (filter (fun v => negb (is_null v)) vs')) as EF
    by (apply Permutation_length, perm_filter; exact P).
  destruct H as [<-|[<-|[<-|[]]]]; unfold agg_fn;
    (destruct vs as [|a t]; destruct vs' as [|b u]; try (simpl in EL; discriminate); [reflexivity|]); rewrite ?EF, ?EL; reflexivity.
Qed.
