(* PEXEC, part 3: the non-windowed branch of _extend_step (act_on per expression, columns_to_frame_,
   add_data_frame_columns_to_data_frame_ with its two column-copy paths) refines sem_extend up to column order.
   All statements proved. *)
From Coq Require Import List Bool Arith ZArith QArith String Ascii Lia Permutation Sorted.
Import ListNotations.
From DA Require Import Base.PyRT Base.Val Model.Sem Model.PdPrim Model.PandasExec
  Proofs.SemBasicP Proofs.SemOrderP Proofs.ComposeP5 Proofs.PandasExecP1 Proofs.PandasExecP2.
Local Open Scope string_scope.
Local Open Scope list_scope.

(* ------------------------------------------------------------------ list facts *)
Lemma combine_map_r {A B C} (g : B -> C) (l : list A) (m : list B) :
  combine l (map g m) = map (fun p => (fst p, g (snd p))) (combine l m).
Proof. revert m. induction l as [|a l IH]; intros [|b m]; simpl; try reflexivity. rewrite IH. reflexivity. Qed.
Lemma combine_map_zip {A B C} (h : A * B -> C) (l : list A) (m : list B) :
  combine (map h (combine l m)) m = map (fun p => (h p, snd p)) (combine l m).
Proof. revert m. induction l as [|a l IH]; intros [|b m]; simpl; try reflexivity. rewrite IH. reflexivity. Qed.
Lemma combine_map_l {A B C} (g : A -> C) (l : list A) (m : list B) :
  combine (map g l) m = map (fun p => (g (fst p), snd p)) (combine l m).
Proof. revert m. induction l as [|a l IH]; intros [|b m]; simpl; try reflexivity. rewrite IH. reflexivity. Qed.
Lemma map_fst_combine {A B} (l : list A) (m : list B) : List.length l = List.length m -> map fst (combine l m) = l.
Proof. revert m. induction l as [|a l IH]; intros [|b m] L; simpl in *; try discriminate; [reflexivity|]. rewrite IH by lia. reflexivity. Qed.
Lemma map_snd_combine {A B} (l : list A) (m : list B) : List.length l = List.length m -> map snd (combine l m) = m.
Proof. revert m. induction l as [|a l IH]; intros [|b m] L; simpl in *; try discriminate; [reflexivity|]. rewrite IH by lia. reflexivity. Qed.
Lemma combine_self_map {A B} (f : A -> B) (l : list A) : combine l (map f l) = map (fun a => (a, f a)) l.
Proof. induction l as [|a l IH]; simpl; [reflexivity|]. rewrite IH. reflexivity. Qed.

Lemma map_nth_seq {A B} (G : A -> B) (l : list A) d : map (fun i => G (nth i l d)) (seq 0 (List.length l)) = map G l.
Proof.
  induction l as [|a l IH]; simpl; [reflexivity|]. f_equal. rewrite <- seq_shift, map_map. exact IH.
Qed.

Lemma transpose_rows n (cs : list (list val)) :
  transpose_cols n cs = map (fun i => map (fun c => nth i c VNull) cs) (seq 0 n).
Proof.
  revert cs. induction n as [|n IH]; intros cs; simpl; [reflexivity|]. f_equal.
  - apply map_ext. intros [|x c]; reflexivity.
  - rewrite IH, <- seq_shift, !map_map. apply map_ext. intros i. rewrite map_map. apply map_ext. intros [|x c]; simpl; [destruct i; reflexivity|reflexivity].
Qed.

Lemma all_some_map {X Y} (f : X -> Y) (l : list X) : all_some (map (fun x => Some (f x)) l) = Some (map f l).
Proof. induction l as [|a l IH]; simpl; [reflexivity|]. rewrite IH. reflexivity. Qed.
Lemma all_some_ext {X Y} (f g : X -> option Y) (l : list X) : (forall x, In x l -> f x = g x) -> all_some (map f l) = all_some (map g l).
Proof. intros H. f_equal. apply map_ext_in, H. Qed.

Lemma nth_repeat {A} (v d : A) n i : (i < n)%nat -> nth i (repeat v n) d = v.
Proof. revert i. induction n as [|n IH]; intros [|i] L; simpl; try lia; [reflexivity|]. apply IH. lia. Qed.

Lemma map_const_repeat {A B} (f : A -> B) (v : B) (l : list A) : (forall x, In x l -> f x = v) -> map f l = repeat v (List.length l).
Proof. induction l as [|a l IH]; intros H; simpl; [reflexivity|]. rewrite (H a (or_introl eq_refl)), IH; [reflexivity|]. intros x I. apply H. right. exact I. Qed.

(* ------------------------------------------------------------------ expressions without column reference are scalars *)
Lemma cols_used_app_nil l : (fix go (l : list expr) : list string := match l with [] => [] | a :: t => cols_used a ++ go t end) l = [] ->
  Forall (fun a => cols_used a = []) l.
Proof.
  induction l as [|a t IH]; intros H; [constructor|]. apply app_eq_nil in H. destruct H as [Ha Ht]. constructor; [exact Ha|apply IH, Ht].
Qed.
Lemma eval_expr_no_cols fl cs r cs' r' e : cols_used e = [] -> eval_expr fl cs r e = eval_expr fl cs' r' e.
Proof.
  induction e as [c|v|o args IH] using expr_ind2; cbn [eval_expr cols_used]; intros H; [discriminate|reflexivity|].
  f_equal. apply cols_used_app_nil in H. induction IH as [|a t Ha Ht IHt]; [reflexivity|].
  inversion H; subst. rewrite Ha by assumption. rewrite IHt by assumption. reflexivity.
Qed.

(* ------------------------------------------------------------------ columns_to_frame_ on the values of act_on *)
Definition new_rows (ops : list (string * expr)) (t : table) : list (list val) :=
  map (fun r => map (fun ke => eval_expr fl_pandas (cols t) r (snd ke)) ops) (rows t).

Lemma act_on_len e t : match cval_len (act_on e t) with None => True | Some ln => ln = nrows t end.
Proof. unfold act_on. destruct (cols_used e); simpl; [exact I|]. apply map_length. Qed.

Lemma promote_act_on e t n : n = nrows t -> (0 < n)%nat ->
  promote n (act_on e t) = Some (map (fun r => eval_expr fl_pandas (cols t) r e) (rows t)).
Proof.
  intros -> P. unfold promote. destruct (nrows t) as [|k] eqn:E; [lia|]. unfold act_on.
  destruct (cols_used e) eqn:U.
  - f_equal. unfold nrows in E. rewrite <- E. symmetry. apply map_const_repeat. intros r _. apply eval_expr_no_cols, U.
  - rewrite map_length. unfold nrows in E. rewrite E, Nat.eqb_refl. reflexivity.
Qed.

Lemma columns_to_frame_fold (cs : list (string * cval)) n b :
  (forall kv, In kv cs -> match cval_len (snd kv) with None => True | Some ln => ln = n end) ->
  exists b', fold_left (fun (st : option (bool * option nat)) kv =>
                          st' <- st ;;
                          match cval_len (snd kv) with
                          | None => Some st'
                          | Some ln => match snd st' with
                                       | None => Some (false, Some ln)
                                       | Some tr => if Nat.eqb tr ln then Some (false, Some tr) else None
                                       end
                          end) cs (Some (b, Some n)) = Some (b', Some n).
Proof.
  revert b. induction cs as [|kv cs IH]; intros b H; simpl; [exists b; reflexivity|].
  pose proof (H kv (or_introl eq_refl)) as Hk. destruct (cval_len (snd kv)) as [ln|].
  - subst ln. rewrite Nat.eqb_refl. apply IH. intros x I. apply H. right. exact I.
  - apply IH. intros x I. apply H. right. exact I.
Qed.

Lemma columns_to_frame_extend ops t xf :
  (0 < nrows t)%nat -> ops <> [] ->
  columns_to_frame (map (fun ke => (fst ke, act_on (snd ke) t)) ops) (Some (nrows t)) = Some xf ->
  xf_tab xf = mktable (map fst ops) (new_rows ops t).
Proof.
  intros P N. unfold columns_to_frame. rewrite map_length.
  destruct ops as [|op0 ops0] eqn:Eo; [congruence|]. rewrite <- Eo in *. clear N.
  replace (Nat.ltb (List.length ops) 1) with false by (rewrite Eo; reflexivity).
  destruct (columns_to_frame_fold (map (fun ke => (fst ke, act_on (snd ke) t)) ops) (nrows t) true) as [b' Hf].
  { intros kv I. apply in_map_iff in I. destruct I as [ke [<- _]]. cbn [snd]. apply act_on_len. }
  rewrite Hf. clear Hf.
  assert (all_some (map (fun kv : string * cval => option_map (fun vs => (fst kv, vs)) (promote (nrows t) (snd kv)))
                        (map (fun ke => (fst ke, act_on (snd ke) t)) ops))
          = Some (map (fun ke => (fst ke, map (fun r => eval_expr fl_pandas (cols t) r (snd ke)) (rows t))) ops)) as Ha.
  { rewrite map_map. rewrite <- all_some_map. apply all_some_ext. intros ke _. cbn [fst snd].
    rewrite (promote_act_on _ _ _ eq_refl P). reflexivity. }
  assert (pd_frame_of_columns (nrows t) (map (fun ke => (fst ke, map (fun r => eval_expr fl_pandas (cols t) r (snd ke)) (rows t))) ops)
          = Some (mktable (map fst ops) (new_rows ops t))) as Hp.
  { unfold pd_frame_of_columns.
    replace (forallb _ _) with true.
    2:{ symmetry. apply forallb_forall. intros kv I. apply in_map_iff in I. destruct I as [ke [<- _]]. cbn [snd]. rewrite map_length. apply Nat.eqb_refl. }
    f_equal. f_equal; [rewrite map_map; reflexivity|].
    rewrite transpose_rows, map_map. cbn [snd]. unfold new_rows, nrows.
    rewrite <- (map_nth_seq (fun r => map (fun ke => eval_expr fl_pandas (cols t) r (snd ke)) ops) (rows t) []).
    apply map_ext_in. intros i Ii. apply in_seq in Ii. rewrite map_map. apply map_ext. intros ke.
    rewrite (nth_indep _ VNull (eval_expr fl_pandas (cols t) [] (snd ke))) by (rewrite map_length; lia).
    apply (map_nth (fun r => eval_expr fl_pandas (cols t) r (snd ke))). }
  destruct b'.
  - rewrite Ha. cbn [obind]. rewrite Hp. cbn [obind]. intros H. inversion H; subst. reflexivity.
  - replace (Nat.ltb (nrows t) 1) with false by (symmetry; apply Nat.ltb_ge; lia).
    rewrite Ha. cbn [obind]. rewrite Hp. cbn [obind]. intros H. inversion H; subst. reflexivity.
Qed.

(* ------------------------------------------------------------------ add_data_frame_columns_to_data_frame_ *)
Lemma select_select A B t : (forall x, In x A -> In x B) -> sem_select_cols A (sem_select_cols B t) = sem_select_cols A t.
Proof.
  intros S. unfold sem_select_cols. cbn [cols rows]. f_equal. rewrite map_map. apply map_ext. intros r.
  apply map_ext_in. intros x Ix. rewrite get_map_cols. apply S, mem_In in Ix. rewrite Ix. reflexivity.
Qed.
Lemma filter_filter {A} (f g : A -> bool) l : filter f (filter g l) = filter (fun x => g x && f x) l.
Proof. induction l as [|a l IH]; simpl; [reflexivity|]. destruct (g a); simpl; [destruct (f a); rewrite IH; reflexivity|exact IH]. Qed.

Lemma fold_del_none cs : fold_left (fun acc c => r <- acc ;; pd_del c r) cs None = None.
Proof. induction cs as [|c cs IH]; simpl; [reflexivity|exact IH]. Qed.
Lemma fold_del_spec cs : forall t t',
  fold_left (fun acc c => r <- acc ;; pd_del c r) cs (Some t) = Some t' ->
  (cs = [] /\ t' = t) \/ t' = sem_select_cols (filter (fun x => negb (mem x cs)) (cols t)) t.
Proof.
  induction cs as [|c cs IH]; intros t t' H.
  - simpl in H. inversion H; subst. left. split; reflexivity.
  - right. simpl in H. destruct (pd_del c t) as [t1|] eqn:E; [|rewrite fold_del_none in H; discriminate].
    apply pd_del_inv in E. destruct E as [-> Ic].
    assert (filter (fun x => negb (mem x cs)) (remove_elem c (cols t)) = filter (fun x => negb (mem x (c :: cs))) (cols t)) as FF.
    { unfold remove_elem. rewrite filter_filter. apply filter_ext. intros x. cbn [mem].
      unfold eqb. destruct (eq_dec c x) as [->|n]; destruct (eq_dec x c) as [e|n']; try congruence; reflexivity. }
    destruct (IH _ _ H) as [[-> ->]|->].
    + cbn [mem negb]. f_equal. unfold remove_elem. apply filter_ext. intros x. unfold eqb.
      destruct (eq_dec c x) as [->|n]; destruct (eq_dec x c) as [e|n']; try congruence; reflexivity.
    + cbn [cols sem_select_cols]. rewrite select_select by (intros x I; apply filter_In in I; tauto). rewrite FF. reflexivity.
Qed.

(* the cells of a frame after deleting the columns cs, read by name *)
Lemma fold_del_rows cs t t' : fold_left (fun acc c => r <- acc ;; pd_del c r) cs (Some t) = Some t' -> width_ok t ->
  cols t' = filter (fun x => negb (mem x cs)) (cols t) /\ width_ok t' /\ List.length (rows t') = List.length (rows t) /\
  Forall2 (fun r' r => forall x, get (cols t') r' x = if mem x (cols t') then get (cols t) r x else VNull) (rows t') (rows t).
Proof.
  intros H W. destruct (fold_del_spec _ _ _ H) as [[-> ->]|->].
  - cbn [mem negb]. rewrite filter_true. split; [reflexivity|]. split; [exact W|]. split; [reflexivity|].
    rewrite <- (map_id (rows t)) at 1. rewrite <- (map_id (rows t)) at 2. apply Forall2_map_same. intros r _ x.
    destruct (mem x (cols t)) eqn:M; [reflexivity|]. apply get_absent, mem_false, M.
  - cbn [cols rows sem_select_cols]. split; [reflexivity|]. split; [apply width_select_cols|]. split; [apply map_length|].
    rewrite <- (map_id (rows t)) at 2. apply Forall2_map_same. intros r _ x. apply get_map_cols.
Qed.
