(* PEXEC, part 3: the non-windowed branch of _extend_step (act_on per expression, columns_to_frame_,
   add_data_frame_columns_to_data_frame_ with its two column-copy paths) refines sem_extend up to column order.
   All statements proved. *)
From Coq Require Import List Bool Arith ZArith QArith String Ascii Lia Permutation Sorted.
Import ListNotations.
From DA Require Import Base.PyRT Base.Val Model.Sem Model.PdPrim Model.PandasExec
  Proofs.SemBasicP Proofs.SemOrderP Proofs.ComposeP5 Proofs.PandasExecP1 Proofs.PandasExecP2.
Local Open Scope string_scope.
Local Open Scope list_scope.

(* ------------------------------------------------------------------ list facts *)
Lemma combine_map_r {A B C} (g : B -> C) (l : list A) (m : list B) :
  combine l (map g m) = map (fun p => (fst p, g (snd p))) (combine l m).
Proof. revert m. induction l as [|a l IH]; intros [|b m]; simpl; try reflexivity. rewrite IH. reflexivity. Qed.
Lemma combine_map_zip {A B C} (h : A * B -> C) (l : list A) (m : list B) :
  combine (map h (combine l m)) m = map (fun p => (h p, snd p)) (combine l m).
Proof. revert m. induction l as [|a l IH]; intros [|b m]; simpl; try reflexivity. rewrite IH. reflexivity. Qed.
Lemma combine_map_l {A B C} (g : A -> C) (l : list A) (m : list B) :
  combine (map g l) m = map (fun p => (g (fst p), snd p)) (combine l m).
Proof. revert m. induction l as [|a l IH]; intros [|b m]; simpl; try reflexivity. rewrite IH. reflexivity. Qed.
Lemma map_fst_combine {A B} (l : list A) (m : list B) : List.length l = List.length m -> map fst (combine l m) = l.
Proof. revert m. induction l as [|a l IH]; intros [|b m] L; simpl in *; try discriminate; [reflexivity|]. rewrite IH by lia. reflexivity. Qed.
Lemma map_snd_combine {A B} (l : list A) (m : list B) : List.length l = List.length m -> map snd (combine l m) = m.
Proof. revert m. induction l as [|a l IH]; intros [|b m] L; simpl in *; try discriminate; [reflexivity|]. rewrite IH by lia. reflexivity. Qed.
Lemma combine_self_map {A B} (f : A -> B) (l : list A) : combine l (map f l) = map (fun a => (a, f a)) l.
Proof. induction l as [|a l IH]; simpl; [reflexivity|]. rewrite IH. reflexivity. Qed.

Lemma map_nth_seq {A B} (G : A -> B) (l : list A) d : map (fun i => G (nth i l d)) (seq 0 (List.length l)) = map G l.
Proof.
  induction l as [|a l IH]; simpl; [reflexivity|]. f_equal. rewrite <- seq_shift, map_map. exact IH.
Qed.

Lemma transpose_rows n (cs : list (list val)) :
  transpose_cols n cs = map (fun i => map (fun c => nth i c VNull) cs) (seq 0 n).
Proof.
  revert cs. induction n as [|n IH]; intros cs; simpl; [reflexivity|]. f_equal.
  - apply map_ext. intros [|x c]; reflexivity.
  - rewrite IH, <- seq_shift, !map_map. apply map_ext. intros i. rewrite map_map. apply map_ext. intros [|x c]; simpl; [destruct i; reflexivity|reflexivity].
Qed.

Lemma all_some_map {X Y} (f : X -> Y) (l : list X) : all_some (map (fun x => Some (f x)) l) = Some (map f l).
Proof. induction l as [|a l IH]; simpl; [reflexivity|]. rewrite IH. reflexivity. Qed.
Lemma all_some_ext {X Y} (f g : X -> option Y) (l : list X) : (forall x, In x l -> f x = g x) -> all_some (map f l) = all_some (map g l).
Proof. intros H. f_equal. apply map_ext_in, H. Qed.

Lemma nth_repeat {A} (v d : A) n i : (i < n)%nat -> nth i (repeat v n) d = v.
Proof. revert i. induction n as [|n IH]; intros [|i] L; simpl; try lia; [reflexivity|]. apply IH. lia. Qed.

Lemma map_const_repeat {A B} (f : A -> B) (v : B) (l : list A) : (forall x, In x l -> f x = v) -> map f l = repeat v (List.length l).
Proof. induction l as [|a l IH]; intros H; simpl; [reflexivity|]. rewrite (H a (or_introl eq_refl)), IH; [reflexivity|]. intros x I. apply H. right. exact I. Qed.

(* ------------------------------------------------------------------ expressions without column reference are scalars *)
Lemma cols_used_app_nil l : (fix go (l : list expr) : list string := match l with [] => [] | a :: t => cols_used a ++ go t end) l = [] ->
  Forall (fun a => cols_used a = []) l.
Proof.
  induction l as [|a t IH]; intros H; [constructor|]. apply app_eq_nil in H. destruct H as [Ha Ht]. constructor; [exact Ha|apply IH, Ht].
Qed.
Lemma eval_expr_no_cols fl cs r cs' r' e : cols_used e = [] -> eval_expr fl cs r e = eval_expr fl cs' r' e.
Proof.
  induction e as [c|v|o args IH] using expr_ind2; cbn [eval_expr cols_used]; intros H; [discriminate|reflexivity|].
  f_equal. apply cols_used_app_nil in H. induction IH as [|a t Ha Ht IHt]; [reflexivity|].
  inversion H; subst. rewrite Ha by assumption. rewrite IHt by assumption. reflexivity.
Qed.

(* ------------------------------------------------------------------ columns_to_frame_ on the values of act_on *)
Definition new_rows (ops : list (string * expr)) (t : table) : list (list val) :=
  map (fun r => map (fun ke => eval_expr fl_pandas (cols t) r (snd ke)) ops) (rows t).

Lemma act_on_len e t : match cval_len (act_on e t) with None => True | Some ln => ln = nrows t end.
Proof. unfold act_on. destruct (cols_used e); simpl; [exact I|]. apply map_length. Qed.

Lemma promote_act_on e t n : n = nrows t -> (0 < n)%nat ->
  promote n (act_on e t) = Some (map (fun r => eval_expr fl_pandas (cols t) r e) (rows t)).
Proof.
  intros -> P. unfold promote. destruct (nrows t) as [|k] eqn:E; [lia|]. unfold act_on.
  destruct (cols_used e) eqn:U.
  - f_equal. unfold nrows in E. rewrite <- E. symmetry. apply map_const_repeat. intros r _. apply eval_expr_no_cols, U.
  - rewrite map_length. unfold nrows in E. rewrite E, Nat.eqb_refl. reflexivity.
Qed.

Lemma columns_to_frame_fold (cs : list (string * cval)) n b :
  (forall kv, In kv cs -> match cval_len (snd kv) with None => True | Some ln => ln = n end) ->
  exists b', fold_left (fun (st : option (bool * option nat)) kv =>
                          st' <- st ;;
                          match cval_len (snd kv) with
                          | None => Some st'
                          | Some ln => match snd st' with
                                       | None => Some (false, Some ln)
                                       | Some tr => if Nat.eqb tr ln then Some (false, Some tr) else None
                                       end
                          end) cs (Some (b, Some n)) = Some (b', Some n).
Proof.
  revert b. induction cs as [|kv cs IH]; intros b H; simpl; [exists b; reflexivity|].
  pose proof (H kv (or_introl eq_refl)) as Hk. destruct (cval_len (snd kv)) as [ln|].
  - subst ln. rewrite Nat.eqb_refl. apply IH. intros x I. apply H. right. exact I.
  - apply IH. intros x I. apply H. right. exact I.
Qed.

Lemma columns_to_frame_extend ops t xf :
  (0 < nrows t)%nat -> ops <> [] ->
  columns_to_frame (map (fun ke => (fst ke, act_on (snd ke) t)) ops) (Some (nrows t)) = Some xf ->
  xf_tab xf = mktable (map fst ops) (new_rows ops t).
Proof.
  intros P N. unfold columns_to_frame. rewrite map_length.
  destruct ops as [|op0 ops0] eqn:Eo; [congruence|]. rewrite <- Eo in *. clear N.
  replace (Nat.ltb (List.length ops) 1) with false by (rewrite Eo; reflexivity).
  destruct (columns_to_frame_fold (map (fun ke => (fst ke, act_on (snd ke) t)) ops) (nrows t) true) as [b' Hf].
  { intros kv I. apply in_map_iff in I. destruct I as [ke [<- _]]. cbn [snd]. apply act_on_len. }
  rewrite Hf. clear Hf.
  assert (all_some (map (fun kv : string * cval => option_map (fun vs => (fst kv, vs)) (promote (nrows t) (snd kv)))
                        (map (fun ke => (fst ke, act_on (snd ke) t)) ops))
          = Some (map (fun ke => (fst ke, map (fun r => eval_expr fl_pandas (cols t) r (snd ke)) (rows t))) ops)) as Ha.
  { rewrite map_map. rewrite <- all_some_map. apply all_some_ext. intros ke _. cbn [fst snd].
    rewrite (promote_act_on _ _ _ eq_refl P). reflexivity. }
  assert (pd_frame_of_columns (nrows t) (map (fun ke => (fst ke, map (fun r => eval_expr fl_pandas (cols t) r (snd ke)) (rows t))) ops)
          = Some (mktable (map fst ops) (new_rows ops t))) as Hp.
  { unfold pd_frame_of_columns.
    replace (forallb _ _) with true.
    2:{ symmetry. apply forallb_forall. intros kv I. apply in_map_iff in I. destruct I as [ke [<- _]]. cbn [snd]. rewrite map_length. apply Nat.eqb_refl. }
    f_equal. f_equal; [rewrite map_map; reflexivity|].
    rewrite transpose_rows, map_map. cbn [snd]. unfold new_rows, nrows.
    rewrite <- (map_nth_seq (fun r => map (fun ke => eval_expr fl_pandas (cols t) r (snd ke)) ops) (rows t) []).
    apply map_ext_in. intros i Ii. apply in_seq in Ii. rewrite map_map. apply map_ext. intros ke.
    rewrite (nth_indep _ VNull (eval_expr fl_pandas (cols t) [] (snd ke))) by (rewrite map_length; lia).
    apply (map_nth (fun r => eval_expr fl_pandas (cols t) r (snd ke))). }
  destruct b'.
  - rewrite Ha. cbn [obind]. rewrite Hp. cbn [obind]. intros H. inversion H; subst. reflexivity.
  - replace (Nat.ltb (nrows t) 1) with false by (symmetry; apply Nat.ltb_ge; lia).
    rewrite Ha. cbn [obind]. rewrite Hp. cbn [obind]. intros H. inversion H; subst. reflexivity.
Qed.

(* ------------------------------------------------------------------ add_data_frame_columns_to_data_frame_ *)
Lemma select_select A B t : (forall x, In x A -> In x B) -> sem_select_cols A (sem_select_cols B t) = sem_select_cols A t.
Proof.
  intros S. unfold sem_select_cols. cbn [cols rows]. f_equal. rewrite map_map. apply map_ext. intros r.
  apply map_ext_in. intros x Ix. rewrite get_map_cols. apply S, mem_In in Ix. rewrite Ix. reflexivity.
Qed.
Lemma filter_filter {A} (f g : A -> bool) l : filter f (filter g l) = filter (fun x => g x && f x) l.
Proof. induction l as [|a l IH]; simpl; [reflexivity|]. destruct (g a); simpl; [destruct (f a); rewrite IH; reflexivity|exact IH]. Qed.

Lemma fold_del_none cs : fold_left (fun acc c => r <- acc ;; pd_del c r) cs None = None.
Proof. induction cs as [|c cs IH]; simpl; [reflexivity|exact IH]. Qed.
Lemma fold_del_spec cs : forall t t',
  fold_left (fun acc c => r <- acc ;; pd_del c r) cs (Some t) = Some t' ->
  (cs = [] /\ t' = t) \/ t' = sem_select_cols (filter (fun x => negb (mem x cs)) (cols t)) t.
Proof.
  induction cs as [|c cs IH]; intros t t' H.
  - simpl in H. inversion H; subst. left. split; reflexivity.
  - right. simpl in H. destruct (pd_del c t) as [t1|] eqn:E; [|rewrite fold_del_none in H; discriminate].
    apply pd_del_inv in E. destruct E as [-> Ic].
    assert (filter (fun x => negb (mem x cs)) (remove_elem c (cols t)) = filter (fun x => negb (mem x (c :: cs))) (cols t)) as FF.
    { unfold remove_elem. rewrite filter_filter. apply filter_ext. intros x. cbn [mem].
      unfold eqb. destruct (eq_dec c x), (eq_dec x c); try congruence; reflexivity. }
    destruct (IH _ _ H) as [[-> ->] | ->].
    + cbn [mem negb]. f_equal. unfold remove_elem. apply filter_ext. intros x. unfold eqb.
      destruct (eq_dec c x), (eq_dec x c); try congruence; reflexivity.
    + cbn [cols sem_select_cols]. rewrite select_select by (intros x I; apply filter_In in I; tauto). rewrite FF. reflexivity.
Qed.

(* the cells of a frame after deleting the columns cs, read by name *)
Lemma fold_del_rows cs t t' : fold_left (fun acc c => r <- acc ;; pd_del c r) cs (Some t) = Some t' -> width_ok t ->
  cols t' = filter (fun x => negb (mem x cs)) (cols t) /\ width_ok t' /\ List.length (rows t') = List.length (rows t) /\
  Forall2 (fun r' r => forall x, get (cols t') r' x = if mem x (cols t') then get (cols t) r x else VNull) (rows t') (rows t).
Proof.
  intros H W. destruct (fold_del_spec _ _ _ H) as [[-> ->] | ->].
  - cbn [mem negb]. rewrite filter_true. split; [reflexivity|]. split; [exact W|]. split; [reflexivity|].
    rewrite <- (map_id (rows t)) at 1. rewrite <- (map_id (rows t)) at 2. apply Forall2_map_same. intros r _ x.
    destruct (mem x (cols t)) eqn:M; [reflexivity|]. apply get_absent, mem_false, M.
  - cbn [cols rows sem_select_cols]. split; [reflexivity|]. split; [apply width_select_cols|]. split; [apply map_length|].
    rewrite <- (map_id (rows t)) at 2. apply Forall2_map_same. intros r _ x. apply get_map_cols.
Qed.

(* the normal path: res[c] = new[c] for every column of new, per row a fold of set_cell *)
Definition row_fold (cn : list string) (ks : list string) (st : list val * list string) (rn : list val) : list val * list string :=
  fold_left (fun (acc : list val * list string) k => (set_cell (snd acc) (fst acc) k (get cn rn k), add_end (snd acc) k)) ks st.

Lemma row_fold_cols cn ks : forall row ccs rn, snd (row_fold cn ks (row, ccs) rn) = fold_left add_end ks ccs.
Proof. induction ks as [|k ks IH]; intros row ccs rn; simpl; [reflexivity|]. apply IH. Qed.
Lemma row_fold_length cn ks : forall row ccs rn, List.length row = List.length ccs ->
  List.length (fst (row_fold cn ks (row, ccs) rn)) = List.length (fold_left add_end ks ccs).
Proof. induction ks as [|k ks IH]; intros row ccs rn L; simpl; [exact L|]. apply IH. apply set_cell_length, L. Qed.
Lemma row_fold_get cn ks : forall row ccs rn x, List.length row = List.length ccs ->
  get (fold_left add_end ks ccs) (fst (row_fold cn ks (row, ccs) rn)) x = if mem x ks then get cn rn x else get ccs row x.
Proof.
  induction ks as [|k ks IH]; intros row ccs rn x L; [reflexivity|].
  change (row_fold cn (k :: ks) (row, ccs) rn) with (row_fold cn ks (set_cell ccs row k (get cn rn k), add_end ccs k) rn).
  cbn [fold_left]. rewrite IH by (apply set_cell_length, L). cbn [mem].
  destruct (mem x ks) eqn:M; [destruct (eq_dec x k); reflexivity|].
  rewrite (set_cell_get _ _ _ _ _ L). destruct (eq_dec x k) as [->|n]; reflexivity.
Qed.

Lemma fold_setcol_spec new ks : forall acc u,
  (forall k, In k ks -> In k (cols new)) -> List.length (rows acc) = List.length (rows new) ->
  fold_left (fun a c => r <- a ;; vs <- pd_col c new ;; pd_set_col c vs r) ks (Some acc) = Some u ->
  u = mktable (fold_left add_end ks (cols acc))
              (map (fun p => fst (row_fold (cols new) ks (fst p, cols acc) (snd p))) (combine (rows acc) (rows new))).
Proof.
  induction ks as [|k ks IH]; intros acc u S L H.
  - simpl in H. inversion H; subst. cbn [fold_left]. unfold row_fold. cbn [fold_left fst].
    rewrite <- (map_map (fun p : list val * list val => fst p) (fun r => r)), map_id, map_fst_combine by exact L. symmetry. apply table_eta.
  - cbn [fold_left] in H. unfold obind at 2 in H. unfold pd_col in H.
    assert (mem k (cols new) = true) as Mk by (apply mem_In, S; left; reflexivity). rewrite Mk in H. cbn [obind] in H.
    unfold pd_set_col in H. unfold getcol, nrows in H. rewrite map_length, <- L, Nat.eqb_refl in H.
    apply IH in H; [|intros k' I; apply S; right; exact I|cbn [rows]; rewrite map_length, combine_length, map_length, <- L, Nat.min_id; reflexivity].
    rewrite H. cbn [cols rows fold_left]. f_equal.
    rewrite combine_map_r, map_map. cbn [fst snd].
    rewrite (combine_map_zip (fun p => set_cell (cols acc) (fst p) k (get (cols new) (snd p) k))), map_map. cbn [fst snd].
    apply map_ext. intros p. reflexivity.
Qed.

(* what add_data_frame_columns_to_data_frame_ returns, read by name: the cells of `new` where it has the column, those of `res` elsewhere *)
Definition overlay_ok (res new u : table) : Prop :=
  same_set (cols u) (cols res ++ cols new) /\ width_ok u /\
  Forall2 (fun ru p => forall x, get (cols u) ru x = if mem x (cols new) then get (cols new) (snd p) x else get (cols res) (fst p) x)
          (rows u) (combine (rows res) (rows new)).

Lemma Forall2_combine_l {A B} (P : A -> A * B -> Prop) (l : list A) (m : list B) :
  List.length l = List.length m -> (forall a b, In (a, b) (combine l m) -> P a (a, b)) -> Forall2 P l (combine l m).
Proof.
  revert m. induction l as [|a l IH]; intros [|b m] L H; simpl in *; try discriminate; constructor.
  - apply H. left. reflexivity.
  - apply IH; [lia|]. intros x y I. apply H. right. exact I.
Qed.
Lemma Forall2_combine_r {A B} (P : B -> A * B -> Prop) (l : list A) (m : list B) :
  List.length l = List.length m -> (forall a b, In (a, b) (combine l m) -> P b (a, b)) -> Forall2 P m (combine l m).
Proof.
  revert m. induction l as [|a l IH]; intros [|b m] L H; simpl in *; try discriminate; constructor.
  - apply H. left. reflexivity.
  - apply IH; [lia|]. intros x y I. apply H. right. exact I.
Qed.

Lemma add_columns_spec res new u :
  width_ok res -> width_ok new -> nrows res = nrows new -> add_columns res new = Some u -> overlay_ok res new u.
Proof.
  intros Wr Wn L. unfold add_columns, ncols, nrows in *.
  destruct (Nat.ltb (List.length (cols new)) 1) eqn:E1.
  { (* no new column *)
    intros H. inversion H; subst. apply ltb1_nil in E1. unfold overlay_ok. rewrite E1, app_nil_r.
    split; [apply same_set_refl|]. split; [exact Wr|]. apply Forall2_combine_l; [exact L|]. intros a b _ x. reflexivity. }
  replace (Nat.eqb (List.length (rows res)) 0 && Nat.ltb 0 (List.length (rows new))) with false.
  2:{ symmetry. destruct (Nat.eqb (List.length (rows res)) 0) eqn:E0; [|reflexivity]. apply Nat.eqb_eq in E0. rewrite <- L, E0. reflexivity. }
  rewrite L, Nat.eqb_refl. cbn [andb].
  destruct (Nat.ltb (List.length (cols res)) 1) eqn:E2.
  { (* res has no column: new is returned *)
    intros H. inversion H; subst. apply ltb1_nil in E2. unfold overlay_ok. rewrite E2. cbn [app].
    split; [apply same_set_refl|]. split; [exact Wn|]. apply Forall2_combine_r; [exact L|]. intros a b _ x.
    destruct (mem x (cols u)) eqn:M; [reflexivity|]. cbn [snd fst]. rewrite (get_absent (cols u) b x) by (apply mem_false, M). reflexivity. }
  destruct (Nat.ltb (List.length (cols res)) (2 * List.length (cols new))) eqn:E3.
  - (* lots of columns path *)
    destruct (fold_left _ (set_inter (cols res) (cols new)) (Some res)) as [res'|] eqn:Ed; cbn [obind]; [|discriminate].
    destruct (fold_del_rows _ _ _ Ed Wr) as [C' [W' [L' F']]].
    unfold pd_concat_cols, nrows. rewrite L', L, Nat.eqb_refl. intros H. inversion H; subst. clear H.
    assert (forall x, In x (cols res') <-> In x (cols res) /\ ~ In x (cols new)) as Ic.
    { intros x. rewrite C', filter_In, negb_true_iff, mem_false, In_set_inter. tauto. }
    unfold overlay_ok. cbn [cols rows]. split; [|split].
    + intros x. rewrite !in_app_iff, Ic. destruct (in_dec string_dec x (cols new)); tauto.
    + unfold width_ok. cbn [cols rows]. apply Forall_forall. intros r I. apply in_map_iff in I. destruct I as [[a b] [<- I]].
      cbn [fst snd]. rewrite !app_length. unfold width_ok in W', Wn. rewrite Forall_forall in W', Wn.
      rewrite (W' a (in_combine_l _ _ _ _ I)), (Wn b (in_combine_r _ _ _ _ I)). reflexivity.
    + (* rows: (r' ++ rn) against (r, rn) *)
      clear Ed E1 E2 E3. unfold width_ok in W', Wn. revert F' L' L W' Wn. generalize (rows res') as R'. generalize (rows res) as R. generalize (rows new) as Rn.
      intros Rn R R' F'. revert Rn. induction F' as [|r' r R' R Hr F' IH]; intros Rn L' L W' Wn; destruct Rn as [|rn Rn]; simpl in *; try discriminate; constructor.
      * intros x. cbn [fst snd]. inversion W' as [|? ? Lr' W'']; subst. inversion Wn as [|? ? Lrn Wn'']; subst.
        destruct (mem x (cols new)) eqn:M.
        -- apply mem_In in M. rewrite get_app_r; [reflexivity|exact Lr'|]. intros I. apply Ic in I. tauto.
        -- apply mem_false in M. destruct (in_dec string_dec x (cols res)) as [I|N].
           ++ rewrite get_app_l; [|exact Lr'|apply Ic; tauto]. rewrite (Hr x).
              replace (mem x (cols res')) with true by (symmetry; apply mem_In, Ic; tauto). reflexivity.
           ++ rewrite get_app_r; [|exact Lr'|intros I; apply Ic in I; tauto]. rewrite (get_absent _ _ _ M), (get_absent _ _ _ N). reflexivity.
      * apply IH; try lia; [inversion W'; assumption|inversion Wn; assumption].
  - (* normal path *)
    intros H. apply fold_setcol_spec in H; [|intros k I; exact I|exact L]. subst u.
    unfold overlay_ok. cbn [cols rows]. split; [|split].
    + intros x. rewrite In_fold_add_end, in_app_iff. tauto.
    + unfold width_ok. cbn [cols rows]. apply Forall_forall. intros r I. apply in_map_iff in I. destruct I as [[a b] [<- I]].
      cbn [fst snd]. apply row_fold_length. unfold width_ok in Wr. rewrite Forall_forall in Wr. apply Wr. eapply in_combine_l, I.
    + rewrite <- (map_id (combine (rows res) (rows new))) at 2. apply Forall2_map_same. intros [a b] I x. cbn [fst snd].
      apply row_fold_get. unfold width_ok in Wr. rewrite Forall_forall in Wr. apply Wr. eapply in_combine_l, I.
Qed.

(* ------------------------------------------------------------------ the non-windowed extend *)
Lemma Forall2_change_r {A B C D} (P : A -> C -> Prop) (Q : A -> D -> Prop) (f : B -> C) (g : B -> D) l m :
  (forall a b, In b m -> P a (f b) -> Q a (g b)) -> Forall2 P l (map f m) -> Forall2 Q l (map g m).
Proof.
  revert l. induction m as [|b m IH]; intros l H F; simpl in *; inversion F; subst; constructor.
  - apply H; [left; reflexivity|assumption].
  - apply IH; [|assumption]. intros a b' I. apply H. right. exact I.
Qed.

Lemma get_cons_other k ks (v : val) vs x : x <> k -> get (k :: ks) (v :: vs) x = get ks vs x.
Proof. intros N. unfold get. simpl. destruct (eq_dec x k); [congruence|]. destruct (index_of x ks); reflexivity. Qed.
Lemma get_cons_same k ks (v : val) vs : get (k :: ks) (v :: vs) k = v.
Proof. unfold get. simpl. destruct (eq_dec k k); [reflexivity|congruence]. Qed.

Lemma last_assign_nodup {X} (F : string * X -> val) (ops : list (string * X)) x :
  NoDup (map fst ops) ->
  last_assign F ops x = if mem x (map fst ops) then Some (get (map fst ops) (map F ops) x) else None.
Proof.
  induction ops as [|ke t IH]; intros N; cbn [last_assign map mem]; [reflexivity|].
  inversion N as [|? ? Nk Nt]; subst. rewrite (IH Nt). destruct (eq_dec x (fst ke)) as [->|ne].
  - replace (mem (fst ke) (map fst t)) with false by (symmetry; apply mem_false, Nk). rewrite get_cons_same. reflexivity.
  - rewrite (get_cons_other _ _ _ _ _ ne). destruct (mem x (map fst t)); reflexivity.
Qed.

Lemma px_extend_plain_eqv ops t u :
  (0 < nrows t)%nat -> ops <> [] -> NoDup (map fst ops) -> width_ok t ->
  px_extend_plain ops t = Some u -> tab_eqv u (sem_extend fl_pandas ops t) /\ width_ok u.
Proof.
  intros P Ne N W. unfold px_extend_plain.
  destruct (columns_to_frame _ _) as [nf|] eqn:Ec; cbn [obind]; [|discriminate].
  pose proof (columns_to_frame_extend _ _ _ P Ne Ec) as En. rewrite En. intros H.
  assert (width_ok (mktable (map fst ops) (new_rows ops t))) as Wn.
  { unfold width_ok, new_rows. cbn [cols rows]. apply Forall_forall. intros r I. apply in_map_iff in I. destruct I as [r0 [<- _]].
    rewrite !map_length. reflexivity. }
  apply add_columns_spec in H; [|exact W|exact Wn|unfold nrows, new_rows; cbn [rows]; rewrite map_length; reflexivity].
  destruct H as [S [Wu F]]. split; [|exact Wu]. cbn [cols rows] in *.
  split; cbn [cols rows sem_extend].
  - intros x. rewrite (S x). unfold ext_cols. rewrite In_fold_add_end, in_app_iff. tauto.
  - unfold new_rows in F. rewrite combine_self_map in F. revert F. apply Forall2_change_r. intros ru r Ir Hr x. cbn [fst snd] in Hr.
    rewrite (Hr x). rewrite extend_row_get by (unfold width_ok in W; rewrite Forall_forall in W; apply W, Ir).
    rewrite (last_assign_nodup (fun ke => eval_expr fl_pandas (cols t) r (snd ke)) ops x N).
    destruct (mem x (map fst ops)); reflexivity.
Qed.
