(* SQLGEN, part 10 (stage ii): the project step -- GROUP BY, aggregation without GROUP BY, pruning of aggregates, and the guard that
   keeps one aggregate when every output is pruned (c520ee9). *)
From Coq Require Import List Bool Arith ZArith QArith String Lia.
Import ListNotations.
From DA Require Import Base.PyRT Base.Val Model.Sem Proofs.SemBasicP Model.ColumnsUsed Proofs.ColumnsUsedP1 Proofs.ColumnsUsedP2
  Proofs.ColumnsUsedP3 Proofs.ColumnsUsedP4 Proofs.ComposeP Model.SqlGen Model.SqlSem Proofs.SqlGenP1 Proofs.SqlGenP2 Proofs.SqlGenP3
  Proofs.SqlGenP4 Proofs.SqlGenP5.
Local Open Scope list_scope.

Section Agg.
Variable fl : flavor.
Variable e : env.

(* fresh_unary with an abstract row count (for aggregating steps "as many rows as SELECT *" is not the right count) *)
Lemma fresh_unary_cnt (cnt : table -> nat) sub us S nm tms sfx mg dp u T :
  Delivers fl e sub us S -> NoDup us ->
  tms <> [] -> NoDup (map fst tms) -> incl u (map fst tms) -> incl u (cols T) ->
  (forall K, K <> [] -> NoDup K -> incl K u -> sql_select fl true (Some tms) (Some K) sfx (sel us S) = Some (sel K T)) ->
  (forall k, In k u -> incl (item_cols (k, term_of tms k)) us) -> incl (sfx_cols sfx) us ->
  (forall K A, K <> [] -> incl K (map fst tms) -> exists R, sql_select fl true (Some tms) (Some K) sfx A = Some R /\ List.length (rows R) = cnt A) ->
  (forall A B, RA us A B -> cnt A = cnt B) -> cnt (sel us S) = List.length (rows T) ->
  (forall K C A R, C <> [] -> incl C K -> incl K (map fst tms) ->
     sql_select fl true (Some tms) (Some K) sfx A = Some R -> sql_select fl true (Some tms) (Some C) sfx A = Some (sel C R)) ->
  Delivers fl e (TUnary nm (Some tms) sub (mk_tci (Some us) false None) sfx mg dp) u T.
Proof.
  intros D Nus NT ND Iu IuT Hex Hloc Hsfx Hcnt Hcl HcT Hsub.
  destruct (deliver_csem fl e sub us S us false None D Nus (incl_refl us)) as [S' [ES [RS _]]].
  assert (RA us (sel us S) S') as RS1 by (eapply RA_trans; [apply RA_sym, RA_sel|exact RS]).
  assert (forall K, K <> [] -> NoDup K -> incl K u -> sql_select fl true (Some tms) (Some K) sfx S' = Some (sel K T)) as Exact.
  { intros K NE NK IKu.
    assert (sql_select fl true (Some tms) (Some K) sfx (sel us S) = sql_select fl true (Some tms) (Some K) sfx S') as EL.
    { apply (sql_select_local fl us); [exact RS1|exact NE| |exact Hsfx]. intros k Ik. apply Hloc, IKu, Ik. }
    rewrite <- EL. apply Hex; assumption. }
  assert (forall K, K <> [] -> NoDup K -> incl K (map fst tms) ->
          exists R, sql_select fl true (Some tms) (Some K) sfx S' = Some R /\ sel [] R = sel [] T /\ (incl K u -> R = sel K T) /\
                    (forall C, NoDup C -> incl C K -> incl C u -> sel C R = sel C T)) as Main.
  { intros K NE NK IK. destruct (Hcnt K S' NE IK) as [R [E1 E2]]. exists R. split; [exact E1|].
    assert (sel [] R = sel [] T) as ER0.
    { apply sel_nil_length. rewrite E2, <- (Hcl _ _ RS1). exact HcT. }
    split; [exact ER0|]. split.
    - intros IKu. rewrite (Exact K NE NK IKu) in E1. congruence.
    - intros C NC IC ICu. destruct C as [|c0 C']; [rewrite ER0; reflexivity|].
      pose proof (Hsub K (c0 :: C') S' R ltac:(discriminate) IC IK E1) as E4.
      rewrite (Exact (c0 :: C') ltac:(discriminate) NC ICu) in E4. congruence. }
  constructor.
  - exact ND.
  - exact Iu.
  - exact IuT.
  - intros K NE NK IK. rewrite qsem_unary, ES. apply Main; assumption.
  - rewrite qsem_unary, ES. rewrite (sql_select_keys_eq fl true (Some tms) (Some []) (Some (map fst tms))) by (apply select_keys_own_nil, NT).
    destruct (Main (map fst tms)) as [R [E1 [E2 _]]]; [destruct tms; [congruence|discriminate]|exact ND|apply incl_refl|].
    exists R. split; assumption.
  - intros n ts X. discriminate.
Qed.

(* ------------------------------------------------------------------ the terms of a project step *)
Definition project_terms (subops : list (string * expr)) (gb : list string) : terms :=
  fold_left (fun acc g => dict_set acc g TmPass) gb (map (fun ke => (fst ke, TmAgg (snd ke))) subops).

Lemma project_terms_keys subops gb k : In k (map fst (project_terms subops gb)) <-> In k (map fst subops) \/ In k gb.
Proof.
  unfold project_terms. change (map fst ?d) with (dict_keys d). rewrite (keys_fold_set (fun g : string => g) (fun _ => TmPass)).
  rewrite In_fold_add_end, map_id. unfold dict_keys. rewrite map_map. simpl. tauto.
Qed.
Lemma project_terms_nodup subops gb : NoDup (map fst subops) -> NoDup (map fst (project_terms subops gb)).
Proof.
  intros N. unfold project_terms. change (map fst ?d) with (dict_keys d). rewrite (keys_fold_set (fun g : string => g) (fun _ => TmPass)).
  apply NoDup_fold_add_end. unfold dict_keys. rewrite map_map. exact N.
Qed.
Lemma project_terms_term subops gb k :
  NoDup (map fst subops) -> (forall g, In g gb -> ~ In g (map fst subops)) ->
  term_of (project_terms subops gb) k =
  match dict_get subops k with Some x => TmAgg x | None => TmPass end.
Proof.
  intros N Dj. unfold term_of, project_terms. destruct (in_dec string_dec k gb) as [i|n].
  - rewrite (dict_get_fold_const TmPass gb _ k i).
    assert (dict_get subops k = None) as G by (apply dict_get_None; apply Dj, i). rewrite G. reflexivity.
  - rewrite (dict_get_fold_set_notin (fun g : string => g) (fun _ => TmPass) gb _ k) by (rewrite map_id; exact n).
    rewrite (dict_get_map_val (fun x => TmAgg x)) by idtac.
    destruct (dict_get subops k); reflexivity.
Qed.

(* ------------------------------------------------------------------ the project step *)
Definition group_count (gb : list string) (A : table) : nat :=
  List.length (match gb with [] => [[]] | _ => distinct_keys (map (key_of (cols A) gb) (rows A)) end).

Lemma get_map_assoc {X} (g : string * X -> val) (ops : list (string * X)) ke :
  NoDup (map fst ops) -> In ke ops -> get (map fst ops) (map g ops) (fst ke) = g ke.
Proof.
  intros N I. unfold get. induction ops as [|a t IH]; [destruct I|]. simpl. inversion N as [|? ? Na Nt]; subst.
  destruct (eq_dec (fst ke) (fst a)) as [E|NE].
  - simpl. destruct I as [->|I]; [reflexivity|]. exfalso. apply Na. rewrite <- E. apply in_map, I.
  - destruct I as [->|I]; [congruence|]. specialize (IH Nt I). destruct (index_of (fst ke) (map fst t)); simpl; exact IH.
Qed.

Lemma all_agg_has_agg (tms : terms) K :
  K <> [] -> (forall k, In k K -> is_agg_term (term_of tms k) = true) ->
  existsb (fun kt => is_agg_term (snd kt)) (map (item_of_terms tms) K) = true.
Proof. destruct K as [|k0 K']; [congruence|]. intros _ H. simpl. rewrite (H k0 (or_introl eq_refl)). reflexivity. Qed.
Lemma no_win_items (tms : terms) K :
  (forall k, In k K -> is_win_term (term_of tms k) = false) ->
  existsb (fun kt => is_win_term (snd kt)) (map (item_of_terms tms) K) = false.
Proof. intros H. apply existsb_false_map. intros k Ik. exact (H k Ik). Qed.

(* an aggregating SELECT, explicitly: GROUP BY gb, or no GROUP BY and only aggregates *)
Lemma sql_select_agg tms K gb A :
  K <> [] -> (forall k, In k K -> is_win_term (term_of tms k) = false) ->
  (gb = [] -> forall k, In k K -> is_agg_term (term_of tms k) = true) ->
  sql_select fl true (Some tms) (Some K) (match gb with [] => SfxNone | _ => SfxGroup gb end) A
  = Some (mktable K (agg_rows fl A gb (map (item_of_terms tms) K))).
Proof.
  intros NE NW AG. unfold sql_select. rewrite select_keys_some by exact NE. rewrite (no_win_items tms K NW).
  destruct gb as [|g0 gb']; [|reflexivity]. rewrite (all_agg_has_agg tms K NE (AG eq_refl)). reflexivity.
Qed.

Lemma NoDup_app_split (a b : list string) : NoDup (a ++ b) -> NoDup b /\ (forall x, In x a -> ~ In x b).
Proof.
  induction a as [|x t IH]; simpl; intros N; [split; [exact N|intros y []]|]. inversion N as [|? ? Nx Nt]; subst.
  destruct (IH Nt) as [A B]. split; [exact A|]. intros y [<-|Iy]; [intros I; apply Nx; apply in_app_iff; right; exact I|apply B, Iy].
Qed.

Lemma node_project s ops gb sub u u1 S nm :
  builder_ok (OProject s ops gb) = true -> negb (is_nil gb && is_nil ops) = true ->
  sem_gen fl s e = Some S -> NoDup u -> incl u u1 -> incl u1 (column_names (OProject s ops gb)) ->
  (gb = [] -> sub_ops u1 ops <> []) ->
  let p := OProject s ops gb in
  let us := py_set (cfs1 p u1) in
  Delivers fl e sub us S ->
  Delivers fl e (TUnary nm (norm (project_terms (sub_ops u1 ops) gb)) sub (mk_tci (Some us) false None)
                        (match gb with [] => SfxNone | _ => SfxGroup gb end) false None) u (sem_project fl ops gb S).
Proof.
  intros BO NE0 ES Nu Iuu1 Iu1 Hsub p us D.
  destruct (bok_project _ _ _ BO) as [BOs Nall].
  assert (incl (gb ++ ops_cols ops) (column_names s)) as Icols.
  { simpl in BO. rewrite !andb_true_iff in BO. destruct BO as [[_ B] _]. exact (proj1 (subset_spec _ _) B). }
  pose proof (sem_cols fl s e S ES) as EC.
  destruct (NoDup_app_split _ _ Nall) as [Nk Dj].
  set (subops := sub_ops u1 ops) in *.
  assert (NoDup (map fst subops)) as Nsub by (apply NoDup_map_fst_filter, Nk).
  assert (forall g, In g gb -> ~ In g (map fst subops)) as Djs.
  { intros g Ig I. apply (Dj g Ig). apply in_map_iff in I. destruct I as [ke [E I]]. apply filter_In in I. apply in_map_iff. exists ke. tauto. }
  assert (forall c, In c us <-> In c gb \/ In c (ops_cols subops)) as Hus.
  { intros c. unfold us, cfs1, p. simpl. rewrite In_py_set, in_app_iff. reflexivity. }
  assert (NoDup us) as Nus by apply NoDup_py_set.
  assert (incl us (cols S)) as Ius.
  { rewrite EC. intros c Hc. apply Hus in Hc. apply Icols. apply in_app_iff. destruct Hc as [Hc|Hc]; [left; exact Hc|right].
    unfold ops_cols in *. apply in_flat_map in Hc. destruct Hc as [ke [I1 I2]]. apply in_flat_map. exists ke. split; [|exact I2]. apply filter_In in I1. tauto. }
  assert (sem_gen fl p e = Some (sem_project fl ops gb S)) as ET by (simpl; rewrite ES; reflexivity).
  assert (forall K, incl K u1 -> sel K (sem_project fl ops gb S) = sel K (sem_project fl ops gb (sel us S))) as Hpr.
  { intros K IK.
    assert (forall c, In c (cfs1 p u1) -> In c us) as H1 by (intros c Hc; apply In_py_set; exact Hc).
    destruct (prune_unary fl e p s us u1 K S _ BO eq_refl Iu1 IK ES ET H1 Ius) as [T1 [E1 E2]].
    simpl in E1. rewrite ES in E1. simpl in E1. injection E1 as <-. exact E2. }
  set (tms := project_terms subops gb).
  assert (forall k, term_of tms k = match dict_get subops k with Some x => TmAgg x | None => TmPass end) as Hterm
      by (intros k; apply project_terms_term; assumption).
  assert (forall k, is_win_term (term_of tms k) = false) as NW by (intros k; rewrite Hterm; destruct (dict_get subops k); reflexivity).
  assert (forall k, In k (map fst tms) <-> In k (map fst subops) \/ In k gb) as Hkeys by (intros k; apply project_terms_keys).
  assert (gb = [] -> forall K, incl K (map fst tms) -> forall k, In k K -> is_agg_term (term_of tms k) = true) as AG.
  { intros -> K IK k Ik. rewrite Hterm. specialize (IK k Ik). apply Hkeys in IK. destruct IK as [IK|[]].
    destruct (dict_get subops k) eqn:G; [reflexivity|]. apply dict_get_None in G. contradiction. }
  assert (tms <> []) as NT.
  { intros X. destruct gb as [|g0 gb'].
    - specialize (Hsub eq_refl). destruct subops as [|so0 sor] eqn:Es; [congruence|].
      assert (In (fst so0) (map fst tms)) as I by (apply Hkeys; left; left; reflexivity). rewrite X in I. destruct I.
    - assert (In g0 (map fst tms)) as I by (apply Hkeys; right; left; reflexivity). rewrite X in I. destruct I. }
  assert (norm tms = Some tms) as ENorm by (destruct tms; [congruence|reflexivity]). rewrite ENorm.
  assert (incl u (map fst tms)) as IuK.
  { intros k Ik. apply Hkeys. specialize (Iu1 k (Iuu1 k Ik)). simpl in Iu1. apply in_app_iff in Iu1. destruct Iu1 as [X|X]; [right; exact X|left].
    apply in_map_iff in X. destruct X as [ke [E I]]. apply in_map_iff. exists ke. split; [exact E|]. apply in_sub_ops; [exact I|rewrite E; apply Iuu1, Ik]. }
  (* one output cell *)
  assert (forall A key grp k, List.length key = List.length gb -> In k (map fst tms) ->
            agg_item fl (cols A) gb key grp k (term_of tms k)
            = get (gb ++ map fst ops) (key ++ map (fun ke => agg_value fl (cols A) grp (snd ke)) ops) k) as Hcell.
  { intros A key grp k L Ik. rewrite Hterm. apply Hkeys in Ik. destruct (dict_get subops k) as [x|] eqn:G.
    - apply dict_get_In in G. assert (In (k, x) ops) as Io by (apply filter_In in G; tauto).
      assert (~ In k gb) as Ng by (intros Ig; apply (Dj k Ig); apply in_map_iff; exists (k, x); tauto).
      rewrite (get_app_r gb (map fst ops) key _ k L Ng).
      pose proof (get_map_assoc (fun ke => agg_value fl (cols A) grp (snd ke)) ops (k, x) Nk Io) as GM. cbn [fst snd] in GM. rewrite GM. reflexivity.
    - destruct Ik as [Ik|Ik]; [apply dict_get_None in G; contradiction|].
      rewrite (get_app_l gb (map fst ops) key _ k L Ik). destruct (index_of_In k gb Ik) as [i Ei]. unfold agg_item, get. rewrite Ei. reflexivity. }
  assert (forall A key, In key (match gb with [] => [[]] | _ => distinct_keys (map (key_of (cols A) gb) (rows A)) end) -> List.length key = List.length gb) as LK.
  { intros A key I. destruct gb as [|g0 gb']; [destruct I as [<-|[]]; reflexivity|].
    apply distinct_keys_sound in I. apply in_map_iff in I. destruct I as [r0 [<- _]]. apply key_of_length. }
  assert (forall K A, K <> [] -> incl K (map fst tms) ->
            sql_select fl true (Some tms) (Some K) (match gb with [] => SfxNone | _ => SfxGroup gb end) A
            = Some (sel K (sem_project fl ops gb A))) as Hsel.
  { intros K A NK IK. rewrite (sql_select_agg tms K gb A NK (fun k _ => NW k) (fun E => AG E K IK)). f_equal.
    unfold sem_select_cols, sem_project, agg_rows. cbn [cols rows]. f_equal. rewrite map_map. apply map_ext_in. intros key Ikey.
    rewrite map_map. apply map_ext_in. intros k Ik. unfold item_of_terms. cbn [fst snd].
    apply Hcell; [apply (LK A key Ikey)|apply IK, Ik]. }
  apply (fresh_unary_cnt (group_count gb) sub us S nm tms _ false None u (sem_project fl ops gb S)); try assumption.
  - apply project_terms_nodup, Nsub.
  - intros k Ik. simpl. apply in_app_iff. specialize (Iu1 k (Iuu1 k Ik)). simpl in Iu1. apply in_app_iff in Iu1. exact Iu1.
  - intros K NK NDK IK. refine (eq_trans (Hsel K (sel us S) NK (fun k Ik => IuK k (IK k Ik))) _). f_equal. symmetry. apply Hpr. intros k Ik. apply Iuu1, IK, Ik.
  - intros k Ik c Hc. apply Hus. rewrite Hterm in Hc. specialize (IuK k Ik). apply Hkeys in IuK.
    destruct (dict_get subops k) as [x|] eqn:G; simpl in Hc.
    + right. apply dict_get_In in G. unfold ops_cols. apply in_flat_map. exists (k, x). split; [exact G|exact Hc].
    + destruct Hc as [<-|[]]. left. destruct IuK as [X|X]; [apply dict_get_None in G; contradiction|exact X].
  - destruct gb; [intros x []|]. simpl. intros c Hc. apply Hus. left. exact Hc.
  - intros K A NK IK. exists (sel K (sem_project fl ops gb A)). split; [exact (Hsel K A NK IK)|]. unfold sem_select_cols, sem_project, group_count. cbn [rows]. rewrite !map_length. reflexivity.
  - intros A B R. unfold group_count. destruct gb as [|g0 gb']; [reflexivity|]. f_equal. f_equal.
    eapply F2_map_eq; [exact R|]. intros r r' Rr. apply key_of_local. intros x Hx. apply Rr. apply Hus. left. exact Hx.
  - pose proof (f_equal (fun t => List.length (rows t)) (Hpr [] (fun x (H : In x []) => match H with end))) as EL.
    unfold sem_select_cols, sem_project in EL. cbn [rows] in EL. rewrite !map_length in EL.
    unfold group_count, sem_project. cbn [rows]. rewrite map_length. symmetry. exact EL.
  - intros K C A R NC ICK IK E1.
    assert (K <> []) as NK by (destruct C as [|c0 C']; [congruence|]; intros X; specialize (ICK c0 (or_introl eq_refl)); rewrite X in ICK; destruct ICK).
    pose proof (eq_trans (eq_sym (Hsel K A NK IK)) E1) as X. injection X as <-.
    refine (eq_trans (Hsel C A NC (fun k Ik => IK k (ICK k Ik))) _). f_equal. symmetry. apply sel_sel, ICK.
Qed.

End Agg.
