(* SQLGEN, part 10 (stage ii): the project step -- GROUP BY, aggregation without GROUP BY, pruning of aggregates, and the guard that
   keeps one aggregate when every output is pruned (c520ee9). *)
From Coq Require Import List Bool Arith ZArith QArith String Lia.
Import ListNotations.
From DA Require Import Base.PyRT Base.Val Model.Sem Proofs.SemBasicP Model.ColumnsUsed Proofs.ColumnsUsedP1 Proofs.ColumnsUsedP2
  Proofs.ColumnsUsedP3 Proofs.ColumnsUsedP4 Proofs.ComposeP Model.SqlGen Model.SqlSem Proofs.SqlGenP1 Proofs.SqlGenP2 Proofs.SqlGenP3
  Proofs.SqlGenP4 Proofs.SqlGenP5.
Local Open Scope list_scope.

Section Agg.
Variable fl : flavor.
Variable e : env.

(* fresh_unary with an abstract row count (for aggregating steps "as many rows as SELECT *" is not the right count) *)
Lemma fresh_unary_cnt (cnt : table -> nat) sub us S nm tms sfx mg dp u T :
  Delivers fl e sub us S -> NoDup us ->
  tms <> [] -> NoDup (map fst tms) -> incl u (map fst tms) -> incl u (cols T) ->
  (forall K, K <> [] -> NoDup K -> incl K u -> sql_select fl true (Some tms) (Some K) sfx (sel us S) = Some (sel K T)) ->
  (forall k, In k u -> incl (item_cols (k, term_of tms k)) us) -> incl (sfx_cols sfx) us ->
  (forall K A, K <> [] -> incl K (map fst tms) -> exists R, sql_select fl true (Some tms) (Some K) sfx A = Some R /\ List.length (rows R) = cnt A) ->
  (forall A B, RA us A B -> cnt A = cnt B) -> cnt (sel us S) = List.length (rows T) ->
  (forall K C A R, C <> [] -> incl C K -> incl K (map fst tms) ->
     sql_select fl true (Some tms) (Some K) sfx A = Some R -> sql_select fl true (Some tms) (Some C) sfx A = Some (sel C R)) ->
  Delivers fl e (TUnary nm (Some tms) sub (mk_tci (Some us) false None) sfx mg dp) u T.
Proof.
  intros D Nus NT ND Iu IuT Hex Hloc Hsfx Hcnt Hcl HcT Hsub.
  destruct (deliver_csem fl e sub us S us false None D Nus (incl_refl us)) as [S' [ES [RS _]]].
  assert (RA us (sel us S) S') as RS1 by (eapply RA_trans; [apply RA_sym, RA_sel|exact RS]).
  assert (forall K, K <> [] -> NoDup K -> incl K u -> sql_select fl true (Some tms) (Some K) sfx S' = Some (sel K T)) as Exact.
  { intros K NE NK IKu.
    assert (sql_select fl true (Some tms) (Some K) sfx (sel us S) = sql_select fl true (Some tms) (Some K) sfx S') as EL.
    { apply (sql_select_local fl us); [exact RS1|exact NE| |exact Hsfx]. intros k Ik. apply Hloc, IKu, Ik. }
    rewrite <- EL. apply Hex; assumption. }
  assert (forall K, K <> [] -> NoDup K -> incl K (map fst tms) ->
          exists R, sql_select fl true (Some tms) (Some K) sfx S' = Some R /\ sel [] R = sel [] T /\ (incl K u -> R = sel K T) /\
                    (forall C, NoDup C -> incl C K -> incl C u -> sel C R = sel C T)) as Main.
  { intros K NE NK IK. destruct (Hcnt K S' NE IK) as [R [E1 E2]]. exists R. split; [exact E1|].
    assert (sel [] R = sel [] T) as ER0.
    { apply sel_nil_length. rewrite E2, <- (Hcl _ _ RS1). exact HcT. }
    split; [exact ER0|]. split.
    - intros IKu. rewrite (Exact K NE NK IKu) in E1. congruence.
    - intros C NC IC ICu. destruct C as [|c0 C']; [rewrite ER0; reflexivity|].
      pose proof (Hsub K (c0 :: C') S' R ltac:(discriminate) IC IK E1) as E4.
      rewrite (Exact (c0 :: C') ltac:(discriminate) NC ICu) in E4. congruence. }
  constructor.
  - exact ND.
  - exact Iu.
  - exact IuT.
  - intros K NE NK IK. rewrite qsem_unary, ES. apply Main; assumption.
  - rewrite qsem_unary, ES. rewrite (sql_select_keys_eq fl true (Some tms) (Some []) (Some (map fst tms))) by (apply select_keys_own_nil, NT).
    destruct (Main (map fst tms)) as [R [E1 [E2 _]]]; [destruct tms; [congruence|discriminate]|exact ND|apply incl_refl|].
    exists R. split; assumption.
  - intros n ts X. discriminate.
Qed.

(* ------------------------------------------------------------------ the terms of a project step *)
Definition project_terms (subops : list (string * expr)) (gb : list string) : terms :=
  fold_left (fun acc g => dict_set acc g TmPass) gb (map (fun ke => (fst ke, TmAgg (snd ke))) subops).

Lemma project_terms_keys subops gb k : In k (map fst (project_terms subops gb)) <-> In k (map fst subops) \/ In k gb.
Proof.
  unfold project_terms. change (map fst ?d) with (dict_keys d). rewrite (keys_fold_set (fun g : string => g) (fun _ => TmPass)).
  rewrite In_fold_add_end, map_id. unfold dict_keys. rewrite map_map. simpl. tauto.
Qed.
Lemma project_terms_nodup subops gb : NoDup (map fst subops) -> NoDup (map fst (project_terms subops gb)).
Proof.
  intros N. unfold project_terms. change (map fst ?d) with (dict_keys d). rewrite (keys_fold_set (fun g : string => g) (fun _ => TmPass)).
  apply NoDup_fold_add_end. unfold dict_keys. rewrite map_map. exact N.
Qed.
Lemma project_terms_term subops gb k :
  NoDup (map fst subops) -> (forall g, In g gb -> ~ In g (map fst subops)) ->
  term_of (project_terms subops gb) k =
  match dict_get subops k with Some x => TmAgg x | None => TmPass end.
Proof.
  intros N Dj. unfold term_of, project_terms. destruct (in_dec string_dec k gb) as [i|n].
  - rewrite (dict_get_fold_const TmPass gb _ k i).
    assert (dict_get subops k = None) as G by (apply dict_get_None; apply Dj, i). rewrite G. reflexivity.
  - rewrite (dict_get_fold_set_notin (fun g : string => g) (fun _ => TmPass) gb _ k) by (rewrite map_id; exact n).
    rewrite (dict_get_map_val (fun x => TmAgg x)) by idtac.
    destruct (dict_get subops k); reflexivity.
Qed.

End Agg.
