(* PEXEC, part 7: the pipeline theorem.  pexec_gen srt arr q p e = Some t  ->  sem_gen fl_pandas p e = Some t' with t refines t'
   (same column set, the cells of t' read by name, rows up to a permutation), by induction over the pipeline with one
   refinement lemma per step kind (parts 2-6), the congruence of every Sem operator under column reordering (C07, ComposeP5)
   and under row permutation (C18, PermP1..4).  All statements proved. *)
From Coq Require Import List Bool Arith ZArith QArith String Ascii Lia Permutation Sorted.
Import ListNotations.
From DA Require Import Base.PyRT Base.Val Model.Sem Model.PdPrim Model.PandasExec Model.PermGuard
  Proofs.SemBasicP Proofs.SemOrderP Proofs.PermP1 Proofs.PermP2 Proofs.PermP3 Proofs.PermP4 Proofs.ComposeP5
  Proofs.PandasExecP1 Proofs.PandasExecP2 Proofs.PandasExecP3 Proofs.PandasExecP4.
Local Open Scope string_scope.
Local Open Scope list_scope.

(* ------------------------------------------------------------------ bookkeeping *)
Lemma perm_width (cs : list string) (l l' : list (list val)) : Permutation l l' -> Forall (fun r => List.length r = List.length cs) l' -> Forall (fun r => List.length r = List.length cs) l.
Proof. intros P F. apply Forall_forall. intros r I. rewrite Forall_forall in F. apply F. eapply Permutation_in; eassumption. Qed.

(* a unary operator of Sem that respects column reordering and row permutation respects `refines` *)
Lemma refines_step (f : table -> table) u u' :
  refines u u' -> width_ok u' ->
  (forall b, cols b = cols u' -> width_ok b -> tab_eqv u b -> tab_eqv (f u) (f b)) ->
  (forall b, cols b = cols u' -> Permutation (rows b) (rows u') -> cols (f b) = cols (f u') /\ Permutation (rows (f b)) (rows (f u'))) ->
  refines (f u) (f u').
Proof.
  intros [v [E [C P]]] Wu' He Hp.
  assert (width_ok v) as Wv by (unfold width_ok; rewrite C; eapply perm_width; [exact P|exact Wu']).
  exists (f v). split; [apply He; assumption|]. apply Hp; assumption.
Qed.
Lemma refines_step2 (f : table -> table -> table) a a' b b' :
  refines a a' -> refines b b' -> width_ok a' -> width_ok b' ->
  (forall x y, cols x = cols a' -> cols y = cols b' -> width_ok x -> width_ok y -> tab_eqv a x -> tab_eqv b y -> tab_eqv (f a b) (f x y)) ->
  (forall x y, cols x = cols a' -> cols y = cols b' -> Permutation (rows x) (rows a') -> Permutation (rows y) (rows b') ->
               cols (f x y) = cols (f a' b') /\ Permutation (rows (f x y)) (rows (f a' b'))) ->
  refines (f a b) (f a' b').
Proof.
  intros [va [Ea [Ca Pa]]] [vb [Eb [Cb Pb]]] Wa Wb He Hp.
  assert (width_ok va) as Wva by (unfold width_ok; rewrite Ca; eapply perm_width; [exact Pa|exact Wa]).
  assert (width_ok vb) as Wvb by (unfold width_ok; rewrite Cb; eapply perm_width; [exact Pb|exact Wb]).
  exists (f va vb). split; [apply He; assumption|]. apply Hp; assumption.
Qed.

Lemma refines_width_witness u u' : refines u u' -> width_ok u' ->
  exists v, tab_eqv u v /\ cols v = cols u' /\ Permutation (rows v) (rows u') /\ width_ok v.
Proof.
  intros [v [E [C P]]] W. exists v. split; [exact E|]. split; [exact C|]. split; [exact P|]. unfold width_ok. rewrite C. eapply perm_width; [exact P|exact W].
Qed.

(* ------------------------------------------------------------------ order_rows against the reference on the REFERENCE input *)
Lemma px_order_refines2 srt cs rev lim u u' x :
  sorter_ok srt -> refines u u' -> width_ok u' ->
  (lim <> None -> total_on fl_pandas (cols u') (map (fun c => (c, mem c rev)) cs) (rows u')) ->
  px_order srt cs rev lim u = Some x -> refines x (sem_order fl_pandas cs rev lim u').
Proof.
  intros So Rf Wu' G H. destruct (px_order_shape srt So _ _ _ _ _ H) as [S [PS [SS ->]]].
  destruct (refines_width_witness _ _ Rf Wu') as [v [[Sc F] [C [P Wv]]]].
  set (keys := map (fun c => (c, mem c rev)) cs) in *.
  destruct (Forall2_perm_l _ _ _ _ (Permutation_sym PS) F) as [Sv [PSv FS]].
  assert (StronglySorted (fun a b => row_le fl_pandas (cols v) keys a b = true) Sv) as SSv.
  { eapply sorted_transfer; [|exact FS|exact SS]. intros a a' b b' Ra Rb. apply row_le_eqv; assumption. }
  destruct lim as [n|].
  - assert (Sv = stable_sort (row_le fl_pandas (cols u') keys) (rows u')) as Es.
    { rewrite C in SSv. apply (sorted_perm_unique (row_le fl_pandas (cols u') keys)).
      - exact SSv.
      - apply stable_sort_sorted; [intros; apply row_le_total|intros; eapply row_le_trans; eassumption].
      - eapply perm_trans; [apply Permutation_sym, PSv|]. eapply perm_trans; [exact P|]. apply Permutation_sym, stable_sort_perm.
      - intros a b Ia Ib. apply G; [discriminate| |]; apply (Permutation_in _ (perm_trans (Permutation_sym PSv) P)); assumption. }
    apply refines_of_eqv. split; cbn [cols rows sem_order]; [rewrite <- C; exact Sc|].
    fold keys. rewrite <- Es. rewrite <- C. apply Forall2_firstn, FS.
  - exists (mktable (cols v) Sv). split; [split; cbn [cols rows]; assumption|]. cbn [cols rows sem_order]. split; [exact C|].
    eapply perm_trans; [apply Permutation_sym, PSv|]. eapply perm_trans; [exact P|]. apply Permutation_sym, stable_sort_perm.
Qed.

(* ------------------------------------------------------------------ the window premise moves from the reference input to the executor's *)
Lemma Forall2_nth_error {A B} (R : A -> B -> Prop) l l' i a : Forall2 R l l' -> nth_error l i = Some a -> exists a', nth_error l' i = Some a' /\ R a a'.
Proof.
  intros F. revert i. induction F as [|x y l l' Rxy F IH]; intros [|i] H; simpl in *; try discriminate.
  - inversion H; subst. exists y. split; [reflexivity|exact Rxy].
  - apply IH, H.
Qed.
Lemma Forall2_In_l {A B} (R : A -> B -> Prop) l l' a : Forall2 R l l' -> In a l -> exists a', In a' l' /\ R a a'.
Proof.
  intros F I. destruct (In_nth_error _ _ I) as [i Hi]. destruct (Forall2_nth_error _ _ _ _ _ F Hi) as [a' [Ha' Ra]].
  exists a'. split; [eapply nth_error_In; eassumption|exact Ra].
Qed.

Lemma row_eqv_inj c1 c2 (r1 r2 r' r'' : list val) :
  NoDup c2 -> List.length r' = List.length c2 -> List.length r'' = List.length c2 -> same_set c1 c2 ->
  row_eqv c1 c2 r1 r' -> row_eqv c1 c2 r2 r'' -> r1 = r2 -> r' = r''.
Proof.
  intros N L1 L2 S R1 R2 ->. apply (row_ext c2); try assumption. intros c _. rewrite <- (R1 c), <- (R2 c). reflexivity.
Qed.

Lemma window_total_perm fl cs w rs rs' : Permutation rs rs' -> window_total fl cs w rs' -> window_total fl cs w rs.
Proof.
  intros P G r I. destruct (G r (Permutation_in _ P I)) as [N T].
  pose proof (part_rows_perm cs (w_part w) rs rs' r P) as PP. split.
  - eapply Permutation_NoDup; [apply Permutation_sym, PP|exact N].
  - intros r1 r2 I1 I2. apply T; eapply Permutation_in; eassumption.
Qed.

Lemma window_total_eqv fl w u v :
  tab_eqv u v -> NoDup (cols v) -> width_ok v -> window_total fl (cols v) w (rows v) -> window_total fl (cols u) w (rows u).
Proof.
  intros [Sc F] Nv Wv G r I.
  destruct (Forall2_In_l _ _ _ _ F I) as [r' [I' Rr]]. destruct (G r' I') as [Nd T].
  set (PU := part_rows (cols u) (w_part w) (rows u) r). set (PV := part_rows (cols v) (w_part w) (rows v) r') in *.
  assert (Forall2 (row_eqv (cols u) (cols v)) PU PV) as FP.
  { unfold PU, PV, part_rows. apply Forall2_filter; [exact F|]. intros a b Rab.
    rewrite (key_of_eqv _ _ _ _ (w_part w) Rr), (key_of_eqv _ _ _ _ (w_part w) Rab). reflexivity. }
  assert (forall x, In x PV -> List.length x = List.length (cols v)) as LV.
  { intros x Ix. unfold PV, part_rows in Ix. apply filter_In in Ix. unfold width_ok in Wv. rewrite Forall_forall in Wv. apply Wv, Ix. }
  assert (forall i j a b, nth_error PU i = Some a -> nth_error PU j = Some b ->
            (a = b \/ (row_le fl (cols u) (okeys_of w) a b = true /\ row_le fl (cols u) (okeys_of w) b a = true)) -> i = j) as Key.
  { intros i j a b Hi Hj Hab.
    destruct (Forall2_nth_error _ _ _ _ _ FP Hi) as [a' [Ha' Ra]]. destruct (Forall2_nth_error _ _ _ _ _ FP Hj) as [b' [Hb' Rb]].
    assert (a' = b') as E.
    { destruct Hab as [E|[L1 L2]].
      - apply (row_eqv_inj (cols u) (cols v) a b); try assumption; apply LV; eapply nth_error_In; eassumption.
      - apply T; [eapply nth_error_In; eassumption|eapply nth_error_In; eassumption| |].
        + rewrite <- (row_le_eqv fl _ _ (okeys_of w) _ _ _ _ Ra Rb). exact L1.
        + rewrite <- (row_le_eqv fl _ _ (okeys_of w) _ _ _ _ Rb Ra). exact L2. }
    subst b'. apply (proj1 (NoDup_nth_error PV) Nd); [apply nth_error_Some; congruence|congruence]. }
  split.
  - apply (proj2 (NoDup_nth_error PU)). intros i j Li E.
    destruct (nth_error PU i) as [a|] eqn:Hi; [|apply nth_error_None in Hi; lia]. symmetry in E.
    apply (Key i j a a Hi E). left. reflexivity.
  - intros r1 r2 I1 I2 L1 L2. destruct (In_nth_error _ _ I1) as [i Hi]. destruct (In_nth_error _ _ I2) as [j Hj].
    assert (i = j) as -> by (apply (Key i j r1 r2 Hi Hj); right; split; assumption). congruence.
Qed.

Lemma window_total_transfer fl w u u' : refines u u' -> NoDup (cols u') -> width_ok u' ->
  window_total fl (cols u') w (rows u') -> window_total fl (cols u) w (rows u).
Proof.
  intros Rf N W G. destruct (refines_width_witness _ _ Rf W) as [v [E [C [P Wv]]]].
  apply (window_total_eqv fl w u v E); [rewrite C; exact N|exact Wv|]. rewrite C. eapply window_total_perm; eassumption.
Qed.

(* ------------------------------------------------------------------ which step kinds the theorem covers *)
Definition window_situation (wd : bool) (w : window) : bool := wd || Nat.ltb 0 (List.length (w_part w)) || Nat.ltb 0 (List.length (w_order w)).

Section Main.
  Variable srt : sorter.
  Hypothesis srt_ok : sorter_ok srt.
  Variable arr : arranger.
  Variable q : pquirks.

  (* refinement lemmas of the two step kinds proved in parts 5 and 6, taken as parameters here so that this file does not depend
     on them; Props/PEXEC.v instantiates them *)
  Variable join_ok : bool.
  Hypothesis join_step : join_ok = true -> forall p a b on_a on_b jt l r x,
    p = OJoin a b on_a on_b jt ->
    width_ok l -> width_ok r -> same_set (cols l) (column_names a) -> same_set (cols r) (column_names b) ->
    join_keys_clean (column_names a) (column_names b) on_a on_b = true ->
    px_join_with arr (declared_cols p) on_a on_b jt l r = Some x ->
    refines x (sem_join false on_a on_b jt l r) /\ width_ok x.
  Variable window_ok : bool.
  Hypothesis window_step : window_ok = true -> forall ops w u x cs,
    width_ok u -> same_set (cols u) cs -> (0 < nrows u)%nat ->
    nodup_names (map fst ops) = true -> ops <> [] ->
    disjointb (map fst ops) (w_part w ++ w_order w) = true -> subset (w_part w ++ w_order w) cs = true ->
    nodup_names (w_part w ++ w_order w) = true ->
    forallb (win_ok_b cs (map fst ops)) ops = true ->
    (ops_order_sensitive ops = true -> window_total fl_pandas (cols u) w (rows u)) ->
    px_extend_windowed srt ops w u = Some x ->
    tab_eqv x (sem_wextend fl_pandas ops w u) /\ width_ok x.

  Fixpoint covered (p : op) : bool :=
    match p with
    | OTable _ _ => true
    | OExtend s _ wd w => covered s && (if window_situation wd w then window_ok && wd else true)
    | OProject s _ _ | OSelectRows s _ | OSelectCols s _ | ODropCols s _ | ORename s _ | OMapCols s _ _ | OOrder s _ _ _ => covered s
    | OJoin a b _ _ _ => covered a && covered b && join_ok
    | OConcat a b _ _ _ => covered a && covered b
    end.

  Lemma wf_nodup p : wf_op_b p = true -> NoDup (column_names p) /\ column_names p <> [].
  Proof.
    intros W. destruct p; cbn [wf_op_b] in W; apply andb_true_iff in W; destruct W as [W _]; apply andb_true_iff in W; destruct W as [N L];
      (split; [apply nodup_names_sound, N|intros E; rewrite E in L; discriminate]).
  Qed.

  Lemma agg_ok_of_b cs cs' e : same_set cs' cs -> agg_ok_b cs e = true -> agg_ok cs' e.
  Proof.
    intros S. unfold agg_ok_b, agg_ok. destruct (agg_shape e) as [[fn [[c|v]|]]|]; auto.
    - intros M. apply S, mem_In, M.
    - intros M. apply String.eqb_eq, M.
  Qed.

  Theorem pexec_refines p : forall e t,
    wf_op_b p = true -> covered p = true -> total_orders fl_pandas p e -> exact_group_keys fl_pandas p e ->
    pexec_gen srt arr q p e = Some t ->
    exists t', sem_gen fl_pandas p e = Some t' /\ refines t t' /\ width_ok t.
  Proof.
    induction p as [n cs|s IH ops wd w|s IH ops gb|s IH x|s IH cs|s IH cs|s IH m|s IH m dels|s IH cs rev lim|a IHa b IHb on_a on_b jt|a IHa b IHb idc an bn];
      intros e t W Cv TO EG H; pose proof (wf_nodup _ W) as [ND NE]; cbn [pexec_gen] in H; cbn [sem_gen].
    - (* table *)
      destruct (dict_get e n) as [df|]; cbn [obind] in H; [|discriminate]. exists (sem_select_cols cs df).
      rewrite (px_table_exact _ _ _ H). split; [reflexivity|]. split; [apply refines_refl|apply width_select_cols].
    - (* extend *)
      destruct (pexec_gen srt arr q s e) as [u|] eqn:Eu; cbn [obind] in H; [|discriminate].
      cbn [wf_op_b] in W. apply andb_true_iff in W. destruct W as [_ W]. apply andb_true_iff in W. destruct W as [W Ww].
      apply andb_true_iff in W. destruct W as [W Nops]. apply andb_true_iff in W. destruct W as [Ws Nk].
      cbn [covered] in Cv. apply andb_true_iff in Cv. destruct Cv as [Cs Cw]. cbn [total_orders] in TO. destruct TO as [TOs TOw].
      cbn [exact_group_keys] in EG.
      destruct (IH e u Ws Cs TOs EG Eu) as [u' [Eu' [Rf Wu]]]. rewrite Eu'. cbn [option_map].
      pose proof (sem_rows_width _ _ _ _ Eu') as Wu'. change (width_ok u') in Wu'.
      pose proof (sem_cols _ _ _ _ Eu') as Cu'. destruct (wf_nodup _ Ws) as [NDs _].
      assert (ops <> []) as Nops' by (intros E0; rewrite E0 in Nops; discriminate).
      eexists. split; [reflexivity|].
      unfold px_extend in H. destruct (Nat.leb (nrows u) 0) eqn:En.
      + (* no rows *)
        inversion H; subst t. apply Nat.leb_le in En. unfold nrows in En.
        assert (rows u = []) as R0 by (apply length_zero_nil; lia).
        assert (rows u' = []) as R0' by (apply length_zero_nil; rewrite <- (refines_row_count _ _ Rf), R0; reflexivity).
        split; [|unfold width_ok, px_extend_empty, pd_empty_frame; cbn [rows]; constructor].
        apply refines_of_eqv. unfold px_extend_empty, pd_empty_frame. split; cbn [cols rows].
        * assert (same_set (fold_left add_end (map fst ops) (cols u)) (ext_cols (cols u') (map fst ops))) as S1
            by (apply same_set_ext_cols, refines_same_set, Rf).
          destruct wd; exact S1.
        * destruct wd; unfold sem_wextend, sem_extend; cbn [rows]; rewrite R0'; constructor.
      + apply Nat.leb_gt in En. fold (window_situation wd w) in H, Ww. destruct (window_situation wd w) eqn:Ws0.
        * (* windowed *)
          apply andb_true_iff in Cw. destruct Cw as [Wok Wd]. subst wd.
          apply andb_true_iff in Ww. destruct Ww as [Ww Wf]. apply andb_true_iff in Ww. destruct Ww as [Ww Wnd]. apply andb_true_iff in Ww. destruct Ww as [Ww Wsub]. apply andb_true_iff in Ww. destruct Ww as [_ Wdj].
          assert (ops_order_sensitive ops = true -> window_total fl_pandas (cols u') w (rows u')) as G' by (intros Os; apply (TOw eq_refl Os u' Eu')).
          destruct (window_step Wok ops w u t (column_names s)) as [Ex Wx]; try assumption.
          { rewrite <- Cu'. apply refines_same_set, Rf. }
          { intros Os. apply (window_total_transfer fl_pandas w u u' Rf); [rewrite Cu'; exact NDs|exact Wu'|apply G', Os]. }
          split; [|exact Wx]. eapply refines_trans; [apply refines_of_eqv, Ex|].
          apply refines_step; [exact Rf|exact Wu'| |].
          -- intros b0 _ Wb Eb. apply wextend_eqv; assumption.
          -- intros b0 Cb Pb. destruct (wextend_perm fl_pandas ops w u' b0 (eq_sym Cb) (Permutation_sym Pb) G') as [C1 P1].
             split; [symmetry; exact C1|apply Permutation_sym, P1].
        * (* row-wise *)
          assert (wd = false) as -> by (unfold window_situation in Ws0; destruct wd; [discriminate|reflexivity]).
          destruct (px_extend_plain_eqv ops u t En Nops' (nodup_names_sound _ Nk) Wu H) as [Ex Wx].
          split; [|exact Wx]. eapply refines_trans; [apply refines_of_eqv, Ex|].
          apply refines_step; [exact Rf|exact Wu'| |].
          -- intros b0 _ Wb Eb. apply extend_eqv; assumption.
          -- intros b0 Cb Pb. destruct (extend_perm fl_pandas ops b0 u' Cb Pb) as [C1 P1]. split; assumption.
    - (* project *)
      destruct (pexec_gen srt arr q s e) as [u|] eqn:Eu; cbn [obind] in H; [|discriminate].
      cbn [wf_op_b] in W. apply andb_true_iff in W. destruct W as [_ W]. apply andb_true_iff in W. destruct W as [W Wagg].
      apply andb_true_iff in W. destruct W as [Ws Wgb].
      cbn [covered] in Cv. cbn [total_orders] in TO. cbn [exact_group_keys] in EG. destruct EG as [EGs EGk].
      destruct (IH e u Ws Cv TO EGs Eu) as [u' [Eu' [Rf Wu]]]. rewrite Eu'. cbn [option_map].
      pose proof (sem_rows_width _ _ _ _ Eu') as Wu'. change (width_ok u') in Wu'. pose proof (sem_cols _ _ _ _ Eu') as Cu'.
      assert (same_set (cols u) (column_names s)) as Su by (rewrite <- Cu'; apply refines_same_set, Rf).
      eexists. split; [reflexivity|].
      destruct (px_project_refines q ops gb u t Wu) as [Rx Wx]; try assumption.
      { intros g Ig. apply Su. apply (proj1 (subset_spec _ _) Wgb), Ig. }
      { intros ke Ike. apply (agg_ok_of_b (column_names s)); [exact Su|]. apply (proj1 (forallb_forall _ _) Wagg ke Ike). }
      { cbn [column_names] in NE. destruct ops; [right|left; discriminate]. intros E0. subst gb. apply NE. reflexivity. }
      split; [|exact Wx]. eapply refines_trans; [exact Rx|].
      apply refines_step; [exact Rf|exact Wu'| |].
      + intros b0 _ _ Eb. rewrite (project_eqv fl_pandas ops gb u b0 Eb). apply tab_eqv_refl.
      + intros b0 Cb Pb. destruct (project_perm fl_pandas ops gb u' b0 (eq_sym Cb) (Permutation_sym Pb) (EGk u' Eu')) as [C1 P1].
        split; [symmetry; exact C1|apply Permutation_sym, P1].
    - (* select_rows *)
      destruct (pexec_gen srt arr q s e) as [u|] eqn:Eu; cbn [obind] in H; [|discriminate].
      cbn [wf_op_b] in W. apply andb_true_iff in W. destruct W as [_ Ws].
      cbn [covered] in Cv. cbn [total_orders] in TO. cbn [exact_group_keys] in EG.
      destruct (IH e u Ws Cv TO EG Eu) as [u' [Eu' [Rf Wu]]]. rewrite Eu'. cbn [option_map].
      pose proof (sem_rows_width _ _ _ _ Eu') as Wu'. change (width_ok u') in Wu'.
      eexists. split; [reflexivity|]. rewrite (px_select_rows_exact _ _ _ H). split; [|apply width_select_rows, Wu].
      apply refines_step; [exact Rf|exact Wu'| |].
      + intros b0 _ _ Eb. apply select_rows_eqv, Eb.
      + intros b0 Cb Pb. split; [cbn [cols sem_select_rows]; exact Cb|apply select_rows_perm; assumption].
    - (* select_columns *)
      destruct (pexec_gen srt arr q s e) as [u|] eqn:Eu; cbn [obind] in H; [|discriminate].
      cbn [wf_op_b] in W. apply andb_true_iff in W. destruct W as [_ Ws].
      cbn [covered] in Cv. cbn [total_orders] in TO. cbn [exact_group_keys] in EG.
      destruct (IH e u Ws Cv TO EG Eu) as [u' [Eu' [Rf Wu]]]. rewrite Eu'. cbn [option_map].
      pose proof (sem_rows_width _ _ _ _ Eu') as Wu'. change (width_ok u') in Wu'.
      eexists. split; [reflexivity|]. rewrite (px_select_cols_exact _ _ _ H). split; [|apply width_select_cols].
      apply refines_step; [exact Rf|exact Wu'| |].
      + intros b0 _ _ Eb. apply select_cols_eqv; [apply same_set_refl|exact Eb].
      + intros b0 Cb Pb. split; [reflexivity|apply select_cols_perm; assumption].
    - (* drop_columns *)
      destruct (pexec_gen srt arr q s e) as [u|] eqn:Eu; cbn [obind] in H; [|discriminate].
      cbn [wf_op_b] in W. apply andb_true_iff in W. destruct W as [_ Ws].
      cbn [covered] in Cv. cbn [total_orders] in TO. cbn [exact_group_keys] in EG.
      destruct (IH e u Ws Cv TO EG Eu) as [u' [Eu' [Rf Wu]]]. rewrite Eu'. cbn [option_map].
      pose proof (sem_rows_width _ _ _ _ Eu') as Wu'. change (width_ok u') in Wu'.
      eexists. split; [reflexivity|]. rewrite (px_drop_cols_exact _ _ _ H). split; [|apply width_select_cols].
      apply refines_step; [exact Rf|exact Wu'| |].
      + intros b0 _ _ Eb. apply drop_cols_eqv, Eb.
      + intros b0 Cb Pb. unfold sem_drop_cols. rewrite Cb. split; [reflexivity|apply select_cols_perm; assumption].
    - (* rename_columns *)
      destruct (pexec_gen srt arr q s e) as [u|] eqn:Eu; cbn [obind] in H; [|discriminate].
      cbn [wf_op_b] in W. apply andb_true_iff in W. destruct W as [_ Ws].
      cbn [covered] in Cv. cbn [total_orders] in TO. cbn [exact_group_keys] in EG.
      destruct (IH e u Ws Cv TO EG Eu) as [u' [Eu' [Rf Wu]]]. rewrite Eu'. cbn [option_map].
      pose proof (sem_rows_width _ _ _ _ Eu') as Wu'. change (width_ok u') in Wu'. pose proof (sem_cols _ _ _ _ Eu') as Cu'.
      eexists. split; [reflexivity|]. rewrite (px_rename_exact _ _ _ H). split; [|apply width_rename, Wu].
      apply refines_step; [exact Rf|exact Wu'| |].
      + intros b0 Cb _ Eb. apply rename_eqv; [|exact Eb]. rewrite Cb, Cu'. apply NoDup_map_inj_on. exact ND.
      + intros b0 Cb Pb. split; [cbn [cols sem_rename]; rewrite Cb; reflexivity|exact Pb].
    - (* map_columns *)
      destruct (pexec_gen srt arr q s e) as [u|] eqn:Eu; cbn [obind] in H; [|discriminate].
      cbn [wf_op_b] in W. apply andb_true_iff in W. destruct W as [_ W]. apply andb_true_iff in W. destruct W as [Ws Wm].
      cbn [covered] in Cv. cbn [total_orders] in TO. cbn [exact_group_keys] in EG.
      destruct (IH e u Ws Cv TO EG Eu) as [u' [Eu' [Rf Wu]]]. rewrite Eu'. cbn [option_map].
      pose proof (sem_rows_width _ _ _ _ Eu') as Wu'. change (width_ok u') in Wu'. pose proof (sem_cols _ _ _ _ Eu') as Cu'.
      eexists. split; [reflexivity|]. split.
      + eapply refines_trans; [apply refines_of_eqv, (px_map_cols_eqv _ _ _ _ H)|].
        apply (refines_step (fun t0 => sem_drop_cols dels (sem_rename m t0))); [exact Rf|exact Wu'| |].
        * intros b0 Cb _ Eb. apply drop_cols_eqv, rename_eqv; [|exact Eb]. rewrite Cb, Cu'. apply NoDup_map_inj_on, nodup_names_sound, Wm.
        * intros b0 Cb Pb. unfold sem_drop_cols. cbn [cols sem_rename]. rewrite Cb. split; [reflexivity|].
          apply select_cols_perm; [cbn [cols sem_rename]; rewrite Cb; reflexivity|exact Pb].
      + unfold px_map_cols in H. destruct (Nat.ltb 0 (List.length dels)).
        * apply pd_select_inv in H. destruct H as [-> _]. apply width_select_cols.
        * inversion H; subst. rewrite pd_rename_sem. apply width_rename, Wu.
    - (* order_rows *)
      destruct (pexec_gen srt arr q s e) as [u|] eqn:Eu; cbn [obind] in H; [|discriminate].
      cbn [wf_op_b] in W. apply andb_true_iff in W. destruct W as [_ Ws].
      cbn [covered] in Cv. cbn [total_orders] in TO. destruct TO as [TOs TOl]. cbn [exact_group_keys] in EG.
      destruct (IH e u Ws Cv TOs EG Eu) as [u' [Eu' [Rf Wu]]]. rewrite Eu'. cbn [option_map].
      pose proof (sem_rows_width _ _ _ _ Eu') as Wu'. change (width_ok u') in Wu'.
      eexists. split; [reflexivity|]. split; [|apply (px_order_width srt cs rev lim u t srt_ok Wu H)].
      apply (px_order_refines2 srt cs rev lim u u' t srt_ok Rf Wu'); [|exact H]. intros Nl. apply (TOl Nl u' Eu').
    - (* natural_join *)
      destruct (pexec_gen srt arr q a e) as [l|] eqn:El; cbn [obind] in H; [|discriminate].
      destruct (pexec_gen srt arr q b e) as [r|] eqn:Er; cbn [obind] in H; [|discriminate].
      cbn [wf_op_b] in W. apply andb_true_iff in W. destruct W as [_ W]. apply andb_true_iff in W. destruct W as [W Wj].
      apply andb_true_iff in W. destruct W as [Wa Wb].
      cbn [covered] in Cv. apply andb_true_iff in Cv. destruct Cv as [Cv Jok]. apply andb_true_iff in Cv. destruct Cv as [Ca Cb].
      cbn [total_orders] in TO. destruct TO as [TOa TOb]. cbn [exact_group_keys] in EG. destruct EG as [EGa EGb].
      destruct (IHa e l Wa Ca TOa EGa El) as [l' [El' [Rl Wl]]]. destruct (IHb e r Wb Cb TOb EGb Er) as [r' [Er' [Rr Wr]]].
      rewrite El', Er'.
      pose proof (sem_rows_width _ _ _ _ El') as Wl'. change (width_ok l') in Wl'. pose proof (sem_cols _ _ _ _ El') as Cl'.
      pose proof (sem_rows_width _ _ _ _ Er') as Wr'. change (width_ok r') in Wr'. pose proof (sem_cols _ _ _ _ Er') as Cr'.
      eexists. split; [reflexivity|].
      destruct (join_step Jok (OJoin a b on_a on_b jt) a b on_a on_b jt l r t eq_refl Wl Wr) as [Rx Wx]; try assumption.
      { rewrite <- Cl'. apply refines_same_set, Rl. }
      { rewrite <- Cr'. apply refines_same_set, Rr. }
      split; [|exact Wx]. eapply refines_trans; [exact Rx|].
      apply (refines_step2 (sem_join false on_a on_b jt)); try assumption.
      + intros x0 y0 _ _ _ _ Ex Ey. apply join_eqv; assumption.
      + intros x0 y0 Cx Cy Px Py. split; [unfold sem_join; cbn [cols]; rewrite Cx, Cy; reflexivity|apply join_perm; assumption].
    - (* concat_rows *)
      destruct (pexec_gen srt arr q a e) as [l|] eqn:El; cbn [obind] in H; [|discriminate].
      destruct (pexec_gen srt arr q b e) as [r|] eqn:Er; cbn [obind] in H; [|discriminate].
      cbn [wf_op_b] in W. apply andb_true_iff in W. destruct W as [_ W]. apply andb_true_iff in W. destruct W as [W Wc].
      apply andb_true_iff in W. destruct W as [Wa Wb].
      cbn [covered] in Cv. apply andb_true_iff in Cv. destruct Cv as [Ca Cb].
      cbn [total_orders] in TO. destruct TO as [TOa TOb]. cbn [exact_group_keys] in EG. destruct EG as [EGa EGb].
      destruct (IHa e l Wa Ca TOa EGa El) as [l' [El' [Rl Wl]]]. destruct (IHb e r Wb Cb TOb EGb Er) as [r' [Er' [Rr Wr]]].
      rewrite El', Er'.
      pose proof (sem_rows_width _ _ _ _ El') as Wl'. change (width_ok l') in Wl'. pose proof (sem_cols _ _ _ _ El') as Cl'.
      pose proof (sem_rows_width _ _ _ _ Er') as Wr'. change (width_ok r') in Wr'. pose proof (sem_cols _ _ _ _ Er') as Cr'.
      eexists. split; [reflexivity|].
      assert (same_set (cols l) (column_names a)) as Sl by (rewrite <- Cl'; apply refines_same_set, Rl).
      assert (same_set (cols r) (column_names b)) as Sr by (rewrite <- Cr'; apply refines_same_set, Rr).
      assert (same_set (column_names a) (column_names b)) as Sab by (apply set_eqb_same_set, Wc).
      split; [|apply (px_concat_width idc an bn l r t Wl Wr H)].
      eapply refines_trans.
      + apply refines_of_eqv. apply (px_concat_eqv idc an bn l r t); try assumption.
        * eapply same_set_trans; [exact Sl|]. eapply same_set_trans; [exact Sab|apply same_set_sym, Sr].
        * intros c -> Ic. cbn [column_names] in ND. apply NoDup_remove_2 in ND. rewrite app_nil_r in ND. apply ND, Sl, Ic.
      + apply (refines_step2 (sem_concat idc an bn)); try assumption.
        * intros x0 y0 _ _ Wx0 _ Ex Ey. apply concat_eqv; assumption.
        * intros x0 y0 Cx Cy Px Py. split; [unfold sem_concat; rewrite Cx; destruct idc; reflexivity|apply concat_perm; assumption].
  Qed.
End Main.
