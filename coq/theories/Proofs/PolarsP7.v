(* C03, part 7: the natural_join step of the Polars executor model (inner / left / full with coalesced keys, the right
   join simulated by a left join with the operands swapped, suffixed right columns, left-first coalescing of shared
   columns, final select) against sem_join with SQL key matching, on the same operands, up to the order of the rows. *)
From Coq Require Import List Bool Arith ZArith QArith String Lia Permutation.
Import ListNotations.
From DA Require Import Base.PyRT Base.PyStr Base.Val Model.Sem Model.PolarsExec Proofs.SemOrderP Proofs.SemBasicP
  Proofs.PolarsP1 Proofs.PolarsP2 Proofs.PolarsP3 Proofs.PolarsP4 Proofs.PolarsP5.
Local Open Scope string_scope.
Local Open Scope list_scope.

(* ------------------------------------------------------------------ cells of concatenated rows *)
Lemma get_app_l cs ds r s c : In c cs -> List.length r = List.length cs -> get (cs ++ ds) (r ++ s) c = get cs r c.
Proof.
  intros I L. unfold get. destruct (index_of_In c cs I) as [i E]. rewrite (index_of_app_l _ _ _ _ E), E.
  apply app_nth1. rewrite L. eapply index_of_lt; eassumption.
Qed.
Lemma get_app_r cs ds r s c : ~ In c cs -> List.length r = List.length cs -> get (cs ++ ds) (r ++ s) c = get ds s c.
Proof.
  intros N L. unfold get. apply mem_false in N. rewrite (index_of_app_notin _ _ _ N).
  destruct (index_of c ds) as [j|]; simpl; [|reflexivity]. rewrite app_nth2 by lia. f_equal. lia.
Qed.
Lemma get_map_map {A} (f : A -> string) (g : A -> val) l c : NoDup (map f l) -> In c l -> get (map f l) (map g l) (f c) = g c.
Proof.
  intros N I. induction l as [|x t IH]; [destruct I|]. simpl in N. inversion N as [|? ? Hx Nt]; subst.
  unfold get. simpl. destruct (eq_dec (f c) (f x)) as [E|n].
  - destruct I as [->|I]; [reflexivity|]. exfalso. apply Hx. rewrite <- E. apply in_map. exact I.
  - destruct I as [->|I]; [congruence|]. specialize (IH Nt I). unfold get in IH.
    destruct (index_of (f c) (map f t)); simpl; exact IH.
Qed.
Lemma ext_cols_present cs ks : (forall k, In k ks -> In k cs) -> ext_cols cs ks = cs.
Proof.
  unfold ext_cols. induction ks as [|k t IH]; simpl; intros H; [reflexivity|].
  unfold add_end at 2. assert (mem k cs = true) as M by (apply mem_In, H; left; reflexivity). rewrite M.
  apply IH. intros k0 I. apply H. right. exact I.
Qed.
Lemma NoDup_app_notin {A} (l1 l2 : list A) x : NoDup (l1 ++ l2) -> In x l2 -> ~ In x l1.
Proof.
  induction l1 as [|a t IH]; simpl; intros N I; [tauto|]. inversion N as [|? ? Ha Nt]; subst.
  intros [->|I1]; [apply Ha, in_or_app; right; exact I|]. exact (IH Nt I I1).
Qed.
Lemma NoDup_app_r {A} (l1 l2 : list A) : NoDup (l1 ++ l2) -> NoDup l2.
Proof. induction l1 as [|a t IH]; simpl; intros N; [exact N|]. inversion N; auto. Qed.
Lemma null_self v : (if is_null v then VNull else v) = v.
Proof. destruct v; reflexivity. Qed.

Lemma map_flat_map {A B C} (F : B -> C) (g : A -> list B) l : map F (flat_map g l) = flat_map (fun x => map F (g x)) l.
Proof. induction l as [|x t IH]; simpl; [reflexivity|]. rewrite map_app, IH. reflexivity. Qed.
Lemma flat_map_ext_in {A B} (f g : A -> list B) l : (forall x, In x l -> f x = g x) -> flat_map f l = flat_map g l.
Proof. induction l as [|x t IH]; simpl; intros H; [reflexivity|]. rewrite (H x) by (left; reflexivity). rewrite IH; [reflexivity|]. intros y I. apply H. right. exact I. Qed.
Lemma existsb_ext_in {A} (f g : A -> bool) l : (forall x, In x l -> f x = g x) -> existsb f l = existsb g l.
Proof. induction l as [|x t IH]; simpl; intros H; [reflexivity|]. rewrite (H x) by (left; reflexivity). rewrite IH; [reflexivity|]. intros y I. apply H. right. exact I. Qed.

Lemma flat_map_swap {A B C} (f : A -> B -> list C) (la : list A) (lb : list B) :
  Permutation (flat_map (fun a => flat_map (fun b => f a b) lb) la) (flat_map (fun b => flat_map (fun a => f a b) la) lb).
Proof.
  induction la as [|a ta IH]; simpl.
  - induction lb as [|b tb IHb]; simpl; [constructor|exact IHb].
  - eapply perm_trans; [apply Permutation_app_head, IH|]. clear IH.
    induction lb as [|b tb IHb]; simpl; [constructor|].
    rewrite <- !app_assoc. apply Permutation_app_head.
    eapply perm_trans; [|apply Permutation_app_head, IHb].
    rewrite !app_assoc. apply Permutation_app_tail. apply Permutation_app_comm.
Qed.

(* pandas.merge matches null keys with null keys, SQL and Polars never: without such pairs the two joins coincide *)
Lemma sem_join_nm on_a on_b jt a b :
  (forall ra rb, In ra (rows a) -> In rb (rows b) ->
     keys_match true (key_of (cols a) on_a ra) (key_of (cols b) on_b rb) = keys_match false (key_of (cols a) on_a ra) (key_of (cols b) on_b rb)) ->
  sem_join true on_a on_b jt a b = sem_join false on_a on_b jt a b.
Proof.
  intros H. unfold sem_join. f_equal. f_equal; [|f_equal].
  - apply flat_map_ext_in. intros ra Ia. apply flat_map_ext_in. intros rb Ib. rewrite (H ra rb Ia Ib). reflexivity.
  - destruct jt; try reflexivity; apply flat_map_ext_in; intros ra Ia;
      rewrite (existsb_ext_in _ (fun rb => keys_match false (key_of (cols a) on_a ra) (key_of (cols b) on_b rb))) by (intros rb Ib; apply H; assumption); reflexivity.
  - destruct jt; try reflexivity; apply flat_map_ext_in; intros rb Ib;
      rewrite (existsb_ext_in _ (fun ra => keys_match false (key_of (cols a) on_a ra) (key_of (cols b) on_b rb))) by (intros ra Ia; apply H; assumption); reflexivity.
Qed.

Lemma filter_self_notin (l : list string) : filter (fun c => negb (mem c l)) l = [].
Proof.
  assert (forall m, (forall c, In c m -> In c l) -> filter (fun c => negb (mem c l)) m = []) as G.
  { induction m as [|x t IH]; simpl; intros H; [reflexivity|].
    assert (mem x l = true) as M by (apply mem_In, H; left; reflexivity). rewrite M. simpl. apply IH. intros c I. apply H. right. exact I. }
  apply G. auto.
Qed.

Lemma keys_match_nonnull kb c cs on r : keys_match false (key_of cs on r) kb = true -> In c on -> is_null (get cs r c) = false.
Proof.
  unfold keys_match. simpl. intros H I. apply andb_true_iff in H. destruct H as [H _]. apply negb_true_iff in H.
  destruct (is_null (get cs r c)) eqn:E; [|reflexivity].
  assert (existsb is_null (key_of cs on r) = true); [|congruence].
  apply existsb_exists. exists (get cs r c). split; [unfold key_of; apply in_map; exact I|exact E].
Qed.

Lemma index_of_nth c on i : index_of c on = Some i -> nth i on "" = c.
Proof. intros E. apply nth_error_nth. apply index_of_nth_error. exact E. Qed.

Lemma pl_when_bool b x y : pl_when (VBool b) x y = if b then x else y.
Proof. reflexivity. Qed.

(* rows of a with_columns whose expressions only read the row itself *)
Lemma rows_select_with_columns declared r xs (cell : list val -> string -> val) :
  width_ok r ->
  (forall i row c, nth_error (rows r) i = Some row -> In c declared ->
     get (ext_cols (cols r) (map fst xs)) (wc_row r xs (i, row)) c = cell row c) ->
  rows (sem_select_cols declared (with_columns_if r xs)) = map (fun row => map (cell row) declared) (rows r).
Proof.
  intros W H. destruct xs as [|kx tl].
  - cbn [with_columns_if]. rewrite rows_select. apply map_ext_in. intros row I. apply map_ext_in. intros c Ic.
    destruct (In_nth_error _ _ I) as [i N]. rewrite <- (H i row c N Ic).
    unfold wc_row, ext_cols. reflexivity.
  - cbn [with_columns_if]. rewrite rows_select, rows_with_columns, map_map. apply map_tag_from_rowwise.
    intros i row N. apply map_ext_in. intros c Ic. rewrite cols_with_columns. apply H; assumption.
Qed.

(* ------------------------------------------------------------------ inner / left / full: every right column kept, every shared column coalesced *)
Definition jt_of (how : plhow) : jointype := match how with HInner => JInner | HLeft => JLeft | HFull => JFull end.

Section JoinKeep.
  Variables (how : plhow) (on_a on_b : list string) (a b : table) (S : string).
  Let ca := cols a. Let cb := cols b.
  Let out := ca ++ map (suffixed ca S) cb.
  Let coal := filter (fun c => mem c cb) ca.
  Let xs := map (fun c => (c, CPlain (coalesce_left_first c (sfx c S)))) coal.
  Let declared := ca ++ filter (fun c => negb (mem c ca)) cb.

  Hypothesis Ga : good a.
  Hypothesis Gb : good b.
  Hypothesis NDo : NoDup out.

  Let cell (row : list val) (c : string) : val :=
    if mem c coal then (if is_null (get out row c) then get out row (sfx c S) else get out row c) else get out row c.

  Lemma jf_cell_wc r i row c : cols r = out -> nth_error (rows r) i = Some row -> List.length row = List.length out ->
    get (ext_cols (cols r) (map fst xs)) (wc_row r xs (i, row)) c = cell row c.
  Proof.
    intros Cr N L. rewrite wc_row_get by (rewrite Cr; exact L). unfold cell.
    destruct (mem c coal) eqn:M.
    - apply mem_In in M.
      assert (In c (map fst xs)) as I1 by (unfold xs; rewrite map_map; cbn [fst]; rewrite map_id; exact M).
      destruct (last_for_In c xs I1) as [ke E]. rewrite E. destruct (last_for_Some _ _ _ E) as [F Ik].
      unfold xs in Ik. apply in_map_iff in Ik. destruct Ik as [c0 [<- I0]]. cbn [fst snd] in *. subst c0.
      cbn [col_at coalesce_left_first plx_at]. rewrite Cr, (nth_error_nth _ _ [] N). apply pl_when_bool.
    - rewrite last_for_None; [rewrite Cr; reflexivity|]. apply mem_false in M. unfold xs. rewrite map_map. cbn [fst]. rewrite map_id. exact M.
  Qed.

  Lemma jf_get_left ra X c : In c ca -> List.length ra = List.length ca -> get out (ra ++ X) c = get ca ra c.
  Proof. intros I L. unfold out. apply get_app_l; assumption. Qed.
  Lemma jf_get_right ra (g : string -> val) c : In c cb -> List.length ra = List.length ca ->
    get out (ra ++ map g cb) (suffixed ca S c) = g c.
  Proof.
    intros I L. unfold out. rewrite get_app_r; [|eapply NoDup_app_notin; [exact NDo|apply in_map; exact I]|exact L].
    apply get_map_map; [apply (NoDup_app_r _ _ NDo)|exact I].
  Qed.

  Lemma jf_cell_generic rowl (la g : string -> val) c :
    List.length rowl = List.length ca -> (forall c0, In c0 ca -> get ca rowl c0 = la c0) -> In c declared ->
    cell (rowl ++ map g cb) c = if mem c ca then (if mem c cb then (if is_null (la c) then g c else la c) else la c) else g c.
  Proof.
    intros L La Ic. unfold cell.
    destruct (mem c ca) eqn:Mca.
    - apply mem_In in Mca. destruct (mem c cb) eqn:Mcb.
      + assert (mem c coal = true) as Mco. { apply mem_In. unfold coal. apply filter_In. split; [exact Mca|exact Mcb]. }
        rewrite Mco. apply mem_In in Mcb.
        assert (sfx c S = suffixed ca S c) as Es. { unfold suffixed, sfx. apply mem_In in Mca. rewrite Mca. reflexivity. }
        rewrite (jf_get_left rowl _ c Mca L), (La c Mca), Es, (jf_get_right rowl g c Mcb L). reflexivity.
      + assert (mem c coal = false) as Mco. { apply mem_false. intros I. unfold coal in I. apply filter_In in I. destruct I as [_ I]. congruence. }
        rewrite Mco. rewrite (jf_get_left rowl _ c Mca L). apply La. exact Mca.
    - assert (~ In c ca) as Nca by (apply mem_false; exact Mca).
      assert (mem c coal = false) as Mco. { apply mem_false. intros I. unfold coal in I. apply filter_In in I. tauto. }
      rewrite Mco. unfold declared in Ic. apply in_app_iff in Ic. destruct Ic as [Ic|Ic]; [tauto|].
      apply filter_In in Ic. destruct Ic as [Icb _].
      assert (suffixed ca S c = c) as Es. { unfold suffixed. rewrite Mca. reflexivity. }
      rewrite <- Es at 1. apply jf_get_right; assumption.
  Qed.

  Lemma join_keep_body t2 :
    rbind (pl_join how on_a on_b S a b) (fun r => pl_select declared (with_columns_if r xs)) = Ok t2 ->
    t2 = sem_join false on_a on_b (jt_of how) a b.
  Proof.
    intros H. apply rbind_ok in H. destruct H as [r [Hj Hs]].
    unfold pl_join in Hj. fold ca cb out in Hj.
    destruct (negb _) in Hj; [discriminate|]. inversion Hj; subst r; clear Hj.
    apply pl_select_ok in Hs. destruct Hs as [-> _].
    destruct Ga as [NDa Wa], Gb as [NDb Wb].
    set (matchp := fun ra rb => keys_match false (key_of ca on_a ra) (key_of cb on_b rb)).
    set (R := mktable out _) in *.
    assert (forall rb, In rb (rows b) -> rb = map (get cb rb) cb) as RB.
    { intros rb Ib. symmetry. apply get_map_self; [exact NDb|apply width_row; assumption]. }
    assert (width_ok R) as WR.
    { unfold width_ok, R. cbn [rows cols]. apply Forall_forall. intros row I. unfold out. rewrite app_length, map_length.
      rewrite !in_app_iff in I. destruct I as [I|[I|I]].
      - apply in_flat_map in I. destruct I as [ra [Ia I]]. apply in_flat_map in I. destruct I as [rb [Ib I]].
        destruct (keys_match _ _ _); [|destruct I]. destruct I as [<-|[]]. rewrite app_length. f_equal; apply width_row; assumption.
      - destruct how; [destruct I| |]; apply in_flat_map in I; destruct I as [ra [Ia I]]; (destruct (existsb _ _); [destruct I|]); destruct I as [<-|[]];
          rewrite app_length, map_length; f_equal; apply width_row; assumption.
      - destruct how; [destruct I|destruct I|]. apply in_flat_map in I. destruct I as [rb [Ib I]]. destruct (existsb _ _); [destruct I|]. destruct I as [<-|[]].
        rewrite app_length, map_length. f_equal. apply width_row; assumption. }
    transitivity (mktable declared (rows (sem_select_cols declared (with_columns_if R xs)))); [reflexivity|].
    rewrite (rows_select_with_columns declared R xs cell WR).
    2:{ intros i row c N Ic. apply jf_cell_wc; [reflexivity|exact N|]. apply (width_row R row WR). eapply nth_error_In; eassumption. }
    unfold sem_join. fold ca cb. change (ca ++ filter (fun c => negb (mem c ca)) cb) with declared. f_equal.
    unfold R. cbn [rows]. rewrite !map_app.
    assert (forall ra rb, In ra (rows a) -> In rb (rows b) ->
              map (cell (ra ++ rb)) declared =
              map (fun c => let va := if mem c ca then get ca ra c else VNull in let vb := if mem c cb then get cb rb c else VNull in if is_null va then vb else va) declared) as Mm.
    { intros ra rb Ia Ib. rewrite (RB rb Ib) at 1. apply map_ext_in. intros c Ic.
      rewrite (jf_cell_generic ra (get ca ra) (get cb rb) c (width_row _ _ Wa Ia) (fun _ _ => eq_refl) Ic). cbv zeta.
      destruct (mem c ca) eqn:Mca.
      - destruct (mem c cb); [reflexivity|]. rewrite null_self. reflexivity.
      - unfold declared in Ic. apply in_app_iff in Ic. destruct Ic as [Ic|Ic]; [apply mem_In in Ic; congruence|].
        apply filter_In in Ic. destruct Ic as [Icb _]. apply mem_In in Icb. rewrite Icb. reflexivity. }
    assert (forall ra, In ra (rows a) ->
              map (cell (ra ++ map (fun _ => VNull) cb)) declared =
              map (fun c => let va := if mem c ca then get ca ra c else VNull in let vb := VNull in if is_null va then vb else va) declared) as Ml.
    { intros ra Ia. apply map_ext_in. intros c Ic.
      rewrite (jf_cell_generic ra (get ca ra) (fun _ => VNull) c (width_row _ _ Wa Ia) (fun _ _ => eq_refl) Ic). cbv zeta.
      destruct (mem c ca) eqn:Mca; [|reflexivity]. destruct (mem c cb); [reflexivity|]. rewrite null_self. reflexivity. }
    assert (forall rb, In rb (rows b) ->
              map (cell (map (fun _ => VNull) ca ++ rb)) declared =
              map (fun c => let va := VNull in let vb := if mem c cb then get cb rb c else VNull in if is_null va then vb else va) declared) as Mr.
    { intros rb Ib. rewrite (RB rb Ib) at 1. apply map_ext_in. intros c Ic.
      rewrite (jf_cell_generic _ (fun _ => VNull) (get cb rb) c).
      - cbv zeta. cbn [is_null]. destruct (mem c ca) eqn:Mca.
        + destruct (mem c cb); reflexivity.
        + unfold declared in Ic. apply in_app_iff in Ic. destruct Ic as [Ic|Ic]; [apply mem_In in Ic; congruence|].
          apply filter_In in Ic. destruct Ic as [Icb _]. apply mem_In in Icb. rewrite Icb. reflexivity.
      - apply map_length.
      - intros c0 I0. apply (get_map_get ca (fun _ => VNull) c0 NDa I0).
      - exact Ic. }
    f_equal; [|f_equal].
    - rewrite map_flat_map. apply flat_map_ext_in. intros ra Ia. rewrite map_flat_map. apply flat_map_ext_in. intros rb Ib.
      fold (matchp ra rb). destruct (matchp ra rb) eqn:M; [|reflexivity]. cbn [map]. f_equal. apply Mm; assumption.
    - destruct how; cbn [jt_of]; try reflexivity; rewrite map_flat_map; apply flat_map_ext_in; intros ra Ia;
        destruct (existsb _ (rows b)); try reflexivity; cbn [map]; f_equal; apply Ml; assumption.
    - destruct how; cbn [jt_of]; try reflexivity. rewrite map_flat_map. apply flat_map_ext_in. intros rb Ib.
      destruct (existsb _ (rows a)); try reflexivity. cbn [map]. f_equal. apply Mr; assumption.
  Qed.
End JoinKeep.

(* ------------------------------------------------------------------ right join, simulated by a left join of b with a *)
Lemma v_eqv_null_same x y : v_eqv x y = true -> is_null x = is_null y.
Proof. destruct x as [|[]| | |], y as [|[]| | |]; simpl; intros; try discriminate; reflexivity. Qed.
Lemma keys_eqv_null_same ka kb : keys_eqv ka kb = true -> existsb is_null ka = existsb is_null kb.
Proof.
  revert kb. induction ka as [|x t IH]; intros [|y u]; simpl; intros H; try discriminate; [reflexivity|].
  apply andb_true_iff in H. destruct H as [H1 H2]. rewrite (v_eqv_null_same x y H1), (IH u H2). reflexivity.
Qed.
Lemma keys_match_false_sym ka kb : keys_match false ka kb = keys_match false kb ka.
Proof.
  unfold keys_match. simpl. rewrite (keys_eqv_sym kb ka). destruct (keys_eqv ka kb) eqn:E; [|rewrite !andb_false_r; reflexivity].
  rewrite (keys_eqv_null_same ka kb E). reflexivity.
Qed.
Lemma map_eq_In {A B} (f g : A -> B) l x : map f l = map g l -> In x l -> f x = g x.
Proof. induction l as [|y t IH]; simpl; intros E I; [destruct I|]. inversion E. destruct I as [->|I]; auto. Qed.

Section JoinRight.
  Variables (on_a on_b : list string) (a b : table) (S : string).
  Let ca := cols a. Let cb := cols b.
  Let out := cb ++ map (suffixed cb S) ca.
  Let coal := filter (fun c => mem c cb) ca.
  Let xs := map (fun c => (c, CPlain (PWhen (PIsNull (PCol (sfx c S))) (PCol c) (PCol (sfx c S))))) coal.
  Let declared := ca ++ filter (fun c => negb (mem c ca)) cb.

  Hypothesis Ga : good a.
  Hypothesis Gb : good b.
  Hypothesis NDo : NoDup out.

  Let cell (row : list val) (c : string) : val :=
    if mem c coal then (if is_null (get out row (sfx c S)) then get out row c else get out row (sfx c S)) else get out row c.

  Lemma jr_cell_wc r i row c : cols r = out -> nth_error (rows r) i = Some row -> List.length row = List.length out ->
    get (ext_cols (cols r) (map fst xs)) (wc_row r xs (i, row)) c = cell row c.
  Proof.
    intros Cr N L. rewrite wc_row_get by (rewrite Cr; exact L). unfold cell.
    destruct (mem c coal) eqn:M.
    - apply mem_In in M.
      assert (In c (map fst xs)) as I1 by (unfold xs; rewrite map_map; cbn [fst]; rewrite map_id; exact M).
      destruct (last_for_In c xs I1) as [ke E]. rewrite E. destruct (last_for_Some _ _ _ E) as [F Ik].
      unfold xs in Ik. apply in_map_iff in Ik. destruct Ik as [c0 [<- I0]]. cbn [fst snd] in *. subst c0.
      cbn [col_at plx_at]. rewrite Cr, (nth_error_nth _ _ [] N). apply pl_when_bool.
    - rewrite last_for_None; [rewrite Cr; reflexivity|]. apply mem_false in M. unfold xs. rewrite map_map. cbn [fst]. rewrite map_id. exact M.
  Qed.

  Lemma jr_get_left rb X c : In c cb -> List.length rb = List.length cb -> get out (rb ++ X) c = get cb rb c.
  Proof. intros I L. unfold out. apply get_app_l; assumption. Qed.
  Lemma jr_get_right rb (g : string -> val) c : In c ca -> List.length rb = List.length cb ->
    get out (rb ++ map g ca) (suffixed cb S c) = g c.
  Proof.
    intros I L. unfold out. rewrite get_app_r; [|eapply NoDup_app_notin; [exact NDo|apply in_map; exact I]|exact L].
    apply get_map_map; [apply (NoDup_app_r _ _ NDo)|exact I].
  Qed.

  Lemma jr_cell_generic rowb (lb g : string -> val) c :
    List.length rowb = List.length cb -> (forall c0, In c0 cb -> get cb rowb c0 = lb c0) -> In c declared ->
    cell (rowb ++ map g ca) c = if mem c ca then (if mem c cb then (if is_null (g c) then lb c else g c) else g c) else lb c.
  Proof.
    intros L Lb Ic. unfold cell.
    destruct (mem c ca) eqn:Mca.
    - apply mem_In in Mca. destruct (mem c cb) eqn:Mcb.
      + assert (mem c coal = true) as Mco. { apply mem_In. unfold coal. apply filter_In. split; [exact Mca|exact Mcb]. }
        rewrite Mco. apply mem_In in Mcb.
        assert (sfx c S = suffixed cb S c) as Es. { unfold suffixed, sfx. apply mem_In in Mcb. rewrite Mcb. reflexivity. }
        rewrite Es, (jr_get_right rowb g c Mca L), (jr_get_left rowb _ c Mcb L), (Lb c Mcb). reflexivity.
      + assert (mem c coal = false) as Mco. { apply mem_false. intros I. unfold coal in I. apply filter_In in I. destruct I as [_ I]. congruence. }
        rewrite Mco. assert (suffixed cb S c = c) as Es. { unfold suffixed. rewrite Mcb. reflexivity. }
        rewrite <- Es at 1. apply jr_get_right; assumption.
    - assert (~ In c ca) as Nca by (apply mem_false; exact Mca).
      assert (mem c coal = false) as Mco. { apply mem_false. intros I. unfold coal in I. apply filter_In in I. tauto. }
      rewrite Mco. unfold declared in Ic. apply in_app_iff in Ic. destruct Ic as [Ic|Ic]; [tauto|].
      apply filter_In in Ic. destruct Ic as [Icb _]. rewrite (jr_get_left rowb _ c Icb L). apply Lb. exact Icb.
  Qed.

  Lemma join_right_body t2 :
    rbind (pl_join HLeft on_b on_a S b a) (fun r => pl_select declared (with_columns_if r xs)) = Ok t2 ->
    cols t2 = declared /\ Permutation (rows t2) (rows (sem_join false on_a on_b JRight a b)).
  Proof.
    intros H. apply rbind_ok in H. destruct H as [r [Hj Hs]].
    unfold pl_join in Hj. fold ca cb out in Hj.
    destruct (negb _) in Hj; [discriminate|]. inversion Hj; subst r; clear Hj.
    apply pl_select_ok in Hs. destruct Hs as [-> _]. split; [reflexivity|].
    destruct Ga as [NDa Wa], Gb as [NDb Wb].
    set (R := mktable out _) in *.
    assert (forall ra, In ra (rows a) -> ra = map (get ca ra) ca) as RA.
    { intros ra Ia. symmetry. apply get_map_self; [exact NDa|apply width_row; assumption]. }
    assert (width_ok R) as WR.
    { unfold width_ok, R. cbn [rows cols]. apply Forall_forall. intros row I. unfold out. rewrite app_length, map_length.
      rewrite !in_app_iff in I. destruct I as [I|[I|I]]; [| |destruct I].
      - apply in_flat_map in I. destruct I as [rb [Ib I]]. apply in_flat_map in I. destruct I as [ra [Ia I]].
        destruct (keys_match _ _ _); [|destruct I]. destruct I as [<-|[]]. rewrite app_length. f_equal; apply width_row; assumption.
      - apply in_flat_map in I. destruct I as [rb [Ib I]]. destruct (existsb _ _); [destruct I|]. destruct I as [<-|[]].
        rewrite app_length, map_length. f_equal. apply width_row; assumption. }
    rewrite (rows_select_with_columns declared R xs cell WR).
    2:{ intros i row c N Ic. apply jr_cell_wc; [reflexivity|exact N|]. apply (width_row R row WR). eapply nth_error_In; eassumption. }
    unfold sem_join. fold ca cb. change (ca ++ filter (fun c => negb (mem c ca)) cb) with declared. cbn [rows].
    unfold R. cbn [rows]. rewrite !map_app. cbn [app map]. rewrite app_nil_r.
    set (mk := fun (ra rb : option (list val)) =>
                 map (fun c => let va := match ra with Some r => if mem c ca then get ca r c else VNull | None => VNull end in
                               let vb := match rb with Some r => if mem c cb then get cb r c else VNull | None => VNull end in
                               if is_null va then vb else va) declared).
    assert (forall ra rb, In ra (rows a) -> In rb (rows b) -> map (cell (rb ++ ra)) declared = mk (Some ra) (Some rb)) as Mm.
    { intros ra rb Ia Ib. rewrite (RA ra Ia) at 1. unfold mk. apply map_ext_in. intros c Ic.
      rewrite (jr_cell_generic rb (get cb rb) (get ca ra) c (width_row _ _ Wb Ib) (fun _ _ => eq_refl) Ic). cbv zeta.
      destruct (mem c ca) eqn:Mca.
      - destruct (mem c cb); [reflexivity|]. rewrite null_self. reflexivity.
      - unfold declared in Ic. apply in_app_iff in Ic. destruct Ic as [Ic|Ic]; [apply mem_In in Ic; congruence|].
        apply filter_In in Ic. destruct Ic as [Icb _]. apply mem_In in Icb. rewrite Icb. reflexivity. }
    assert (forall rb, In rb (rows b) -> map (cell (rb ++ map (fun _ => VNull) ca)) declared = mk None (Some rb)) as Mr.
    { intros rb Ib. unfold mk. apply map_ext_in. intros c Ic.
      rewrite (jr_cell_generic rb (get cb rb) (fun _ => VNull) c (width_row _ _ Wb Ib) (fun _ _ => eq_refl) Ic). cbv zeta. cbn [is_null].
      destruct (mem c ca) eqn:Mca.
      - destruct (mem c cb); reflexivity.
      - unfold declared in Ic. apply in_app_iff in Ic. destruct Ic as [Ic|Ic]; [apply mem_In in Ic; congruence|].
        apply filter_In in Ic. destruct Ic as [Icb _]. apply mem_In in Icb. rewrite Icb. reflexivity. }
    apply Permutation_app.
    - rewrite map_flat_map.
      eapply perm_trans; [|apply (flat_map_swap (fun rb ra => if keys_match false (key_of ca on_a ra) (key_of cb on_b rb) then [mk (Some ra) (Some rb)] else []) (rows b) (rows a))].
      rewrite (flat_map_ext_in _ (fun rb => flat_map (fun ra => if keys_match false (key_of ca on_a ra) (key_of cb on_b rb) then [mk (Some ra) (Some rb)] else []) (rows a)) (rows b));
        [apply Permutation_refl|].
      intros rb Ib. rewrite map_flat_map. apply flat_map_ext_in. intros ra Ia.
      rewrite (keys_match_false_sym (key_of ca on_a ra) (key_of cb on_b rb)).
      destruct (keys_match false (key_of cb on_b rb) (key_of ca on_a ra)) eqn:M; [|reflexivity]. cbn [map]. f_equal. apply Mm; assumption.
    - rewrite map_flat_map.
      rewrite (flat_map_ext_in _ (fun rb => if existsb (fun ra => keys_match false (key_of ca on_a ra) (key_of cb on_b rb)) (rows a) then [] else [mk None (Some rb)]) (rows b));
        [apply Permutation_refl|].
      intros rb Ib.
      rewrite (existsb_ext_in _ (fun ra => keys_match false (key_of ca on_a ra) (key_of cb on_b rb)) (rows a)) by (intros ra _; apply keys_match_false_sym).
      destruct (existsb _ (rows a)); [reflexivity|]. cbn [map]. f_equal. apply Mr. exact Ib.
  Qed.
End JoinRight.

(* ------------------------------------------------------------------ the step *)
Lemma pl_join_checks how l_on r_on sfx0 a b r : pl_join how l_on r_on sfx0 a b = Ok r ->
  NoDup (cols a ++ map (suffixed (cols a) sfx0) (cols b)).
Proof.
  unfold pl_join. destruct (negb _) eqn:E; [discriminate|]. intros _. apply negb_false_iff in E.
  apply andb_true_iff in E. destruct E as [E E4]. apply andb_true_iff in E. destruct E as [E E3]. apply andb_true_iff in E. destruct E as [E1 E2].
  apply nodupb_NoDup; exact E1.
Qed.

Lemma join_step_perm declared on_a on_b jt a b t2 :
  good a -> good b -> on_a <> [] ->
  declared = cols a ++ filter (fun c => negb (mem c (cols a))) (cols b) ->
  pl_join_step declared (cols a) (cols b) on_a on_b jt a b = Ok t2 ->
  cols t2 = declared /\ Permutation (rows t2) (rows (sem_join false on_a on_b jt a b)).
Proof.
  intros Ga Gb NE -> H. unfold pl_join_step in H. destruct on_a as [|k0 on_a0]; [congruence|]. cbv iota zeta in H.
  destruct jt.
  - pose proof H as H''. apply rbind_ok in H''. destruct H'' as [r [Ej _]]. pose proof (pl_join_checks _ _ _ _ _ _ _ Ej) as N.
    rewrite (join_keep_body HInner (k0 :: on_a0) on_b a b _ Ga Gb N t2 H). split; [reflexivity|apply Permutation_refl].
  - pose proof H as H''. apply rbind_ok in H''. destruct H'' as [r [Ej _]]. pose proof (pl_join_checks _ _ _ _ _ _ _ Ej) as N.
    rewrite (join_keep_body HLeft (k0 :: on_a0) on_b a b _ Ga Gb N t2 H). split; [reflexivity|apply Permutation_refl].
  - pose proof H as H''. apply rbind_ok in H''. destruct H'' as [r [Ej _]]. pose proof (pl_join_checks _ _ _ _ _ _ _ Ej) as N.
    apply (join_right_body (k0 :: on_a0) on_b a b _ Ga Gb N t2 H).
  - pose proof H as H''. apply rbind_ok in H''. destruct H'' as [r [Ej _]]. pose proof (pl_join_checks _ _ _ _ _ _ _ Ej) as N.
    rewrite (join_keep_body HFull (k0 :: on_a0) on_b a b _ Ga Gb N t2 H). split; [reflexivity|apply Permutation_refl].
Qed.
