(* Proofs about the REGENERATED OrderedSet code (Gen/G_OrderedSet.v). *)
From Coq Require Import List Bool Arith Lia.
Import ListNotations.
From DA Require Import Base.PyRT Gen.G_OrderedSet.

Section P.
Context {A : Type} `{EqDec A}.

(* ---------- specification vocabulary (independent of the generated code) *)

(* keep the first occurrence of every element *)
Fixpoint first_occ (l : list A) : list A :=
  match l with [] => [] | x :: t => x :: filter (fun y => negb (eqb x y)) (first_occ t) end.

Inductive op := OAdd (x : A) | ODiscard (x : A) | OUpdate (ls : list (list A)).

(* a plain (unordered) set as a membership predicate *)
Fixpoint plain_mem (ops : list op) (x : A) : bool :=   (* ops: most recent first *)
  match ops with
  | [] => false
  | OAdd y :: r => eqb x y || plain_mem r x
  | ODiscard y :: r => negb (eqb x y) && plain_mem r x
  | OUpdate ls :: r => mem x (concat ls) || plain_mem r x
  end.

(* the abstract ordered-set machine: a duplicate-free list in first-insertion order *)
Definition spec_add (l : list A) (x : A) : list A := if mem x l then l else l ++ [x].
Definition spec_step (l : list A) (o : op) : list A :=
  match o with
  | OAdd x => spec_add l x
  | ODiscard x => filter (fun y => negb (eqb x y)) l
  | OUpdate ls => fold_left spec_add (concat ls) l
  end.

(* ---------- the generated code *)
Definition iter (s : @OrderedSet_t A) : list A := OrderedSet___iter__ s.
Definition Inv (s : @OrderedSet_t A) : Prop := NoDup (iter s).

Definition step (s : @OrderedSet_t A) (o : op) : OrderedSet_t :=
  match o with
  | OAdd x => OrderedSet_add s x
  | ODiscard x => OrderedSet_discard s x
  | OUpdate ls => OrderedSet_update s ls
  end.

Lemma iter_add s x : iter (OrderedSet_add s x) = spec_add (iter s) x.
Proof. unfold iter, OrderedSet___iter__, OrderedSet_add, spec_add. simpl. apply dict_keys_set. Qed.

Lemma iter_fold_add l s : iter (fold_left (fun self val => let self := OrderedSet_add self val in self) l s)
                           = fold_left spec_add l (iter s).
Proof. revert s. induction l as [|x t IH]; intros s; simpl; [reflexivity|]. rewrite IH, iter_add. reflexivity. Qed.

Lemma dict_keys_pop (d : pydict A unit) x : dict_keys (dict_pop d x) = filter (fun y => negb (eqb x y)) (dict_keys d).
Proof. unfold dict_keys, dict_pop. induction d as [|[k v] t IH]; simpl; [reflexivity|].
  destruct (negb (eqb x k)); simpl; rewrite IH; reflexivity. Qed.

Lemma iter_discard s x : iter (OrderedSet_discard s x) = filter (fun y => negb (eqb x y)) (iter s).
Proof. unfold iter, OrderedSet___iter__, OrderedSet_discard. simpl. apply dict_keys_pop. Qed.

Lemma fold_spec_add_app l1 l2 l : fold_left spec_add (l1 ++ l2) l = fold_left spec_add l2 (fold_left spec_add l1 l).
Proof. apply fold_left_app. Qed.

Lemma iter_update s ls : iter (OrderedSet_update s ls) = fold_left spec_add (concat ls) (iter s).
Proof. unfold OrderedSet_update. revert s. induction ls as [|l t IH]; intros s; simpl; [reflexivity|].
  rewrite fold_spec_add_app. rewrite <- iter_fold_add. apply IH. Qed.

Lemma step_refines s o : iter (step s o) = spec_step (iter s) o.
Proof. destruct o; simpl; [apply iter_add | apply iter_discard | apply iter_update]. Qed.

Lemma run_refines ops s : iter (fold_left step ops s) = fold_left spec_step ops (iter s).
Proof. revert s. induction ops as [|o t IH]; intros s; simpl; [reflexivity|]. rewrite IH, step_refines. reflexivity. Qed.

(* ---------- the abstract machine is a plain set in first-insertion order *)
Lemma spec_add_is_add_end l x : spec_add l x = add_end l x.
Proof. reflexivity. Qed.

Lemma In_spec_add l x y : In y (spec_add l x) <-> In y l \/ y = x.
Proof. apply In_add_end. Qed.

Lemma In_fold_spec_add xs l y : In y (fold_left spec_add xs l) <-> In y l \/ In y xs.
Proof. apply In_fold_add_end. Qed.

Lemma NoDup_spec_step l o : NoDup l -> NoDup (spec_step l o).
Proof. intros N. destruct o; simpl; [apply NoDup_add_end, N | apply NoDup_filter, N | apply NoDup_fold_add_end, N]. Qed.

Lemma In_spec_step l o y : In y (spec_step l o) <->
  match o with OAdd x => y = x \/ In y l | ODiscard x => y <> x /\ In y l | OUpdate ls => In y (concat ls) \/ In y l end.
Proof. destruct o; simpl.
  - rewrite In_spec_add. tauto.
  - rewrite filter_In, negb_true_iff. unfold eqb. destruct (eq_dec x y); split; intros [? ?]; split; auto; congruence.
  - rewrite In_fold_spec_add. tauto. Qed.

(* history, oldest first; plain_mem takes most recent first *)
Lemma spec_members ops x : In x (fold_left spec_step ops []) <-> plain_mem (rev ops) x = true.
Proof. induction ops as [|o t IH] using rev_ind; simpl; [split; [tauto|discriminate]|].
  rewrite fold_left_app, rev_app_distr. simpl. rewrite In_spec_step.
  destruct o; simpl; rewrite ?orb_true_iff, ?andb_true_iff, ?negb_true_iff, <- ?IH, ?mem_In.
  - rewrite eqb_true. tauto.
  - unfold eqb. destruct (eq_dec x x0); split; intros [? ?]; split; auto; congruence.
  - tauto. Qed.

Lemma spec_nodup ops : NoDup (fold_left spec_step ops []).
Proof. induction ops as [|o t IH] using rev_ind; simpl; [constructor|]. rewrite fold_left_app. simpl. apply NoDup_spec_step, IH. Qed.

(* order: re-adding keeps the position, a new element goes last, discarding keeps relative order *)
Lemma order_add_existing l x : In x l -> spec_step l (OAdd x) = l.
Proof. intros i. simpl. unfold spec_add. apply mem_In in i. rewrite i. reflexivity. Qed.
Lemma order_add_new l x : ~ In x l -> spec_step l (OAdd x) = l ++ [x].
Proof. intros i. simpl. unfold spec_add. apply mem_false in i. rewrite i. reflexivity. Qed.
Lemma order_discard l x : spec_step l (ODiscard x) = filter (fun y => negb (eqb x y)) l.
Proof. reflexivity. Qed.

(* ---------- first_occ *)
Lemma In_first_occ l y : In y (first_occ l) <-> In y l.
Proof. induction l as [|x t IH]; simpl; [tauto|]. rewrite filter_In, IH, negb_true_iff. unfold eqb.
  destruct (eq_dec x y); split; intros; intuition congruence. Qed.

Lemma NoDup_first_occ l : NoDup (first_occ l).
Proof. induction l as [|x t IH]; simpl; constructor; [|apply NoDup_filter, IH].
  rewrite filter_In, negb_true_iff. unfold eqb. destruct (eq_dec x x); [intros [_ ?]; discriminate|congruence]. Qed.

Lemma filter_spec_add_comm x l y : y <> x ->
  filter (fun z => negb (eqb x z)) (spec_add l y) = spec_add (filter (fun z => negb (eqb x z)) l) y.
Proof. intros n. unfold spec_add.
  assert (mem y (filter (fun z => negb (eqb x z)) l) = mem y l) as E.
  { destruct (mem y l) eqn:M.
    - apply mem_In. apply mem_In in M. rewrite filter_In, negb_true_iff. split; [exact M|]. unfold eqb. destruct (eq_dec x y); congruence.
    - apply mem_false. apply mem_false in M. rewrite filter_In. tauto. }
  rewrite E. destruct (mem y l); [reflexivity|]. rewrite filter_app. simpl.
  unfold eqb. destruct (eq_dec x y); [congruence|reflexivity]. Qed.

Lemma filter_filter_and' (f g : A -> bool) l : filter f (filter g l) = filter (fun a => g a && f a) l.
Proof. induction l as [|a t IH]; simpl; [reflexivity|]. destruct (g a); simpl; [destruct (f a); rewrite IH; reflexivity | exact IH]. Qed.

Lemma fold_spec_add_first_occ xs : forall l, NoDup l ->
  fold_left spec_add xs l = l ++ filter (fun y => negb (mem y l)) (first_occ xs).
Proof. induction xs as [|x t IH]; intros l N; simpl; [rewrite app_nil_r; reflexivity|].
  rewrite IH by (apply NoDup_add_end, N). unfold spec_add. destruct (mem x l) eqn:M; simpl.
  - f_equal. rewrite filter_filter_and'. apply filter_ext. intros a.
    unfold eqb. destruct (eq_dec x a) as [<-|n]; simpl; [rewrite M; reflexivity|reflexivity].
  - rewrite <- app_assoc. simpl. f_equal. f_equal. rewrite filter_filter_and'.
    apply filter_ext. intros a. rewrite mem_app. simpl. unfold eqb.
    destruct (eq_dec x a) as [e|n2]; destruct (eq_dec a x) as [e2|n]; try congruence; simpl.
    + rewrite orb_true_r. reflexivity.
    + rewrite orb_false_r. reflexivity. Qed.

(* ---------- constructor, copy, union, helpers *)
Lemma filter_true_in (f : A -> bool) l : (forall y, In y l -> f y = true) -> filter f l = l.
Proof. induction l as [|a t IH]; simpl; intros F; [reflexivity|]. rewrite (F a) by tauto. f_equal. apply IH. intros; apply F; tauto. Qed.
Lemma filter_true_all (l : list A) : filter (fun _ => true) l = l.
Proof. apply filter_true_in. reflexivity. Qed.

Lemma iter_init_none : iter (OrderedSet___init__ None) = [].
Proof. reflexivity. Qed.

Lemma iter_init_some v : iter (OrderedSet___init__ (Some v)) = first_occ v.
Proof. unfold OrderedSet___init__. rewrite iter_fold_add. rewrite fold_spec_add_first_occ by constructor.
  simpl. rewrite filter_true_all. reflexivity. Qed.

Lemma first_occ_nodup_id l : NoDup l -> first_occ l = l.
Proof. induction 1 as [|x l Hx N IH]; simpl; [reflexivity|]. rewrite IH. f_equal.
  apply filter_true_in. intros y Hy. apply negb_true_iff. unfold eqb. destruct (eq_dec x y); congruence. Qed.

Lemma iter_copy s : Inv s -> iter (OrderedSet_copy s) = iter s.
Proof. intros N. unfold OrderedSet_copy. rewrite iter_init_some. apply first_occ_nodup_id, N. Qed.

Lemma contains_spec s x : OrderedSet___contains__ s x = true <-> In x (iter s).
Proof. unfold OrderedSet___contains__. apply mem_In. Qed.

Lemma len_spec s : OrderedSet___len__ s = List.length (iter s).
Proof. unfold OrderedSet___len__, iter, OrderedSet___iter__, dict_keys. rewrite map_length. reflexivity. Qed.

Lemma le_spec s o : OrderedSet___le__ s o = true <-> incl (iter s) o.
Proof. unfold OrderedSet___le__. rewrite forallb_forall. unfold incl. split; intros S x Hx; apply mem_In; auto. Qed.

Lemma ge_spec s o : OrderedSet___ge__ s o = true <-> incl o (iter s).
Proof. unfold OrderedSet___ge__. rewrite forallb_forall. unfold incl. split; intros S x Hx; apply contains_spec; auto. Qed.

Lemma ordered_intersect_spec a b : iter (ordered_intersect a b) = first_occ (filter (fun v => mem v b) a).
Proof. unfold ordered_intersect. rewrite iter_init_some. f_equal. apply filter_ext. intros x.
  destruct (mem x b) eqn:M.
  - apply mem_In. apply In_py_set. apply mem_In. exact M.
  - apply mem_false. rewrite In_py_set. apply mem_false. exact M. Qed.

Lemma ordered_diff_spec a b : iter (ordered_diff a b) = first_occ (filter (fun v => negb (mem v b)) a).
Proof. unfold ordered_diff. rewrite iter_init_some. f_equal. apply filter_ext. intros x. f_equal.
  destruct (mem x b) eqn:M.
  - apply mem_In. apply In_py_set. apply mem_In. exact M.
  - apply mem_false. rewrite In_py_set. apply mem_false. exact M. Qed.

Lemma cond_add_is_spec_add (s : @OrderedSet_t A) v :
  iter (if negb (OrderedSet___contains__ s v) then let a := OrderedSet_add s v in a else s) = spec_add (iter s) v.
Proof. unfold OrderedSet___contains__. change (dict_keys (OrderedSet_impl s)) with (iter s). unfold spec_add at 1.
  destruct (mem v (iter s)) eqn:M; simpl; [reflexivity|]. rewrite iter_add. unfold spec_add. rewrite M. reflexivity. Qed.

Lemma iter_fold_cond_add l s :
  iter (fold_left (fun a v => let a := (if negb (OrderedSet___contains__ a v) then let a := OrderedSet_add a v in a else a) in a) l s)
  = fold_left spec_add l (iter s).
Proof. revert s. induction l as [|x t IH]; intros s; simpl; [reflexivity|]. rewrite IH. f_equal. apply cond_add_is_spec_add. Qed.

Lemma ordered_union_spec a b : iter (ordered_union a b) = first_occ a ++ filter (fun y => negb (mem y a)) (first_occ b).
Proof. unfold ordered_union. rewrite iter_fold_cond_add, iter_init_some.
  rewrite fold_spec_add_first_occ by apply NoDup_first_occ. f_equal. apply filter_ext. intros x. f_equal.
  destruct (mem x a) eqn:M.
  - apply mem_In, In_first_occ, mem_In, M.
  - apply mem_false. rewrite In_first_occ. apply mem_false, M. Qed.

Lemma union_spec s args : Inv s -> iter (OrderedSet_union s args) = iter s ++ filter (fun y => negb (mem y (iter s))) (first_occ (concat args)).
Proof. intros N. unfold OrderedSet_union.
  set (s0 := fold_left (fun res k => let res := OrderedSet_add res k in res) (dict_keys (OrderedSet_impl s)) (OrderedSet___init__ None)).
  assert (iter s0 = iter s) as E0.
  { unfold s0. rewrite iter_fold_add. rewrite iter_init_none. rewrite fold_spec_add_first_occ by constructor. simpl.
    rewrite filter_true_all. apply first_occ_nodup_id, N. }
  assert (forall args r, iter (fold_left (fun res other => let res := fold_left (fun res k => let res := (if negb (OrderedSet___contains__ res k) then let res := OrderedSet_add res k in res else res) in res) other res in res) args r)
          = fold_left spec_add (concat args) (iter r)) as F.
  { induction args0 as [|l t IH]; intros r; simpl; [reflexivity|]. rewrite IH. rewrite fold_left_app. f_equal. apply iter_fold_cond_add. }
  rewrite F, E0. apply fold_spec_add_first_occ, N. Qed.

Lemma step_inv s o : Inv s -> Inv (step s o).
Proof. unfold Inv. rewrite step_refines. apply NoDup_spec_step. Qed.
Lemma init_inv v : Inv (OrderedSet___init__ v).
Proof. unfold Inv. destruct v; [rewrite iter_init_some; apply NoDup_first_occ | rewrite iter_init_none; constructor]. Qed.
End P.

(* ---------- statements used by Props/C24.v *)
Section Main.
Context {A : Type} `{EqDec A}.
Definition run (ops : list (@op A)) : @OrderedSet_t A := fold_left step ops (OrderedSet___init__ None).

Lemma main_members ops x : In x (iter (run ops)) <-> plain_mem (rev ops) x = true.
Proof. unfold run. rewrite run_refines, iter_init_none. apply spec_members. Qed.
Lemma main_nodup ops : NoDup (iter (run ops)).
Proof. unfold run. rewrite run_refines, iter_init_none. apply spec_nodup. Qed.
Lemma main_order ops o :
  iter (run (ops ++ [o])) =
  match o with
  | OAdd x => if mem x (iter (run ops)) then iter (run ops) else iter (run ops) ++ [x]
  | ODiscard x => filter (fun y => negb (eqb x y)) (iter (run ops))
  | OUpdate ls => iter (run ops) ++ filter (fun y => negb (mem y (iter (run ops)))) (first_occ (concat ls))
  end.
Proof. unfold run. rewrite fold_left_app. simpl. rewrite step_refines. destruct o; simpl; try reflexivity.
  apply fold_spec_add_first_occ. apply (main_nodup ops). Qed.
End Main.
