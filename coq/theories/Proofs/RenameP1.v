(* C15, part A: lemmas.  An injective renaming of column names commutes with every building block of Model/Sem.v.
   Injectivity is on ALL strings, so no NoDup / well-formedness hypothesis on tables or pipelines is needed. *)
From Coq Require Import List Bool Arith ZArith QArith String Lia.
Import ListNotations.
From DA Require Import Base.PyRT Base.Val Model.Sem Model.Rename.
Local Open Scope list_scope.

(* ---------- generic helpers *)
Lemma expr_ind_nested (P : expr -> Prop) :
  (forall c, P (ECol c)) -> (forall v, P (EConst v)) -> (forall op args, Forall P args -> P (EOp op args)) -> forall e, P e.
Proof.
  intros Hc Hv Ho. fix IH 1. intros [c|v|op args]; [apply Hc|apply Hv|]. apply Ho.
  revert args. fix IHl 1. intros [|a t]; constructor; [apply IH|apply IHl].
Qed.

Lemma insert_sorted_ext {A} (le1 le2 : A -> A -> bool) (H : forall a b, le1 a b = le2 a b) x l :
  insert_sorted le1 x l = insert_sorted le2 x l.
Proof. induction l as [|y t IH]; simpl; [reflexivity|]. rewrite H, IH. reflexivity. Qed.

Lemma stable_sort_ext {A} (le1 le2 : A -> A -> bool) (H : forall a b, le1 a b = le2 a b) l :
  stable_sort le1 l = stable_sort le2 l.
Proof. unfold stable_sort. induction l as [|y t IH]; simpl; [reflexivity|]. rewrite IH. apply insert_sorted_ext, H. Qed.

Lemma filter_ext' {A} (f g : A -> bool) (H : forall a, f a = g a) l : filter f l = filter g l.
Proof. induction l as [|y t IH]; simpl; [reflexivity|]. rewrite H, IH. reflexivity. Qed.

Lemma flat_map_ext' {A B} (f g : A -> list B) (H : forall a, f a = g a) l : flat_map f l = flat_map g l.
Proof. induction l as [|y t IH]; simpl; [reflexivity|]. rewrite H, IH. reflexivity. Qed.

Lemma existsb_ext' {A} (f g : A -> bool) (H : forall a, f a = g a) l : existsb f l = existsb g l.
Proof. induction l as [|y t IH]; simpl; [reflexivity|]. rewrite H, IH. reflexivity. Qed.

Lemma filter_map_comm {A B} (g : A -> B) (P : A -> bool) (Q : B -> bool) (H : forall a, Q (g a) = P a) l :
  filter Q (map g l) = map g (filter P l).
Proof. induction l as [|y t IH]; simpl; [reflexivity|]. rewrite H. destruct (P y); simpl; rewrite IH; reflexivity. Qed.

Section Inj.
  Context (rho : string -> string) (Hinj : injective rho).

  Lemma dec_inj {T} a b (x y : T) : (if eq_dec (rho a) (rho b) then x else y) = (if eq_dec a b then x else y).
  Proof.
    destruct (eq_dec (rho a) (rho b)) as [e|n], (eq_dec a b) as [e'|n']; try reflexivity.
    - exfalso. apply n'. apply Hinj. exact e.
    - exfalso. apply n. rewrite e'. reflexivity.
  Qed.

  Lemma eqb_inj a b : String.eqb (rho a) (rho b) = String.eqb a b.
  Proof.
    destruct (String.eqb a b) eqn:E.
    - apply String.eqb_eq in E. subst. apply String.eqb_refl.
    - apply String.eqb_neq in E. apply String.eqb_neq. intros H. apply E, Hinj, H.
  Qed.

  Lemma index_of_inj c cs : index_of (rho c) (map rho cs) = index_of c cs.
  Proof. induction cs as [|x t IH]; simpl; [reflexivity|]. rewrite dec_inj, IH. reflexivity. Qed.

  Lemma get_inj cs row c : get (map rho cs) row (rho c) = get cs row c.
  Proof. unfold get. rewrite index_of_inj. reflexivity. Qed.

  Lemma mem_inj c cs : mem (rho c) (map rho cs) = mem c cs.
  Proof. induction cs as [|x t IH]; simpl; [reflexivity|]. rewrite dec_inj, IH. reflexivity. Qed.

  Lemma add_end_inj l x : add_end (map rho l) (rho x) = map rho (add_end l x).
  Proof. unfold add_end. rewrite mem_inj. destruct (mem x l); [reflexivity|]. rewrite map_app. reflexivity. Qed.

  Lemma ext_cols_inj cs ks : ext_cols (map rho cs) (map rho ks) = map rho (ext_cols cs ks).
  Proof. unfold ext_cols. revert cs. induction ks as [|k t IH]; intros cs; simpl; [reflexivity|]. rewrite add_end_inj. apply IH. Qed.

  Lemma set_cell_inj cs row c v : set_cell (map rho cs) row (rho c) v = set_cell cs row c v.
  Proof. unfold set_cell. rewrite index_of_inj. reflexivity. Qed.

  Lemma key_of_inj cs ks row : key_of (map rho cs) (map rho ks) row = key_of cs ks row.
  Proof. unfold key_of. rewrite map_map. apply map_ext. intros c. apply get_inj. Qed.

  Lemma select_row_inj cs ks row : map (get (map rho cs) row) (map rho ks) = map (get cs row) ks.
  Proof. exact (key_of_inj cs ks row). Qed.

  Lemma filter_not_mem_inj ds cs :
    filter (fun c => negb (mem c (map rho ds))) (map rho cs) = map rho (filter (fun c => negb (mem c ds)) cs).
  Proof. apply filter_map_comm. intros c. rewrite mem_inj. reflexivity. Qed.

  (* ---------- expressions *)
  Lemma eval_expr_inj fl cs row e : eval_expr fl (map rho cs) row (rename_expr rho e) = eval_expr fl cs row e.
  Proof.
    induction e as [c|v|op args IH] using expr_ind_nested; simpl; [apply get_inj|reflexivity|].
    f_equal. induction IH as [|a t Ha Ht IHt]; simpl; [reflexivity|]. rewrite Ha, IHt. reflexivity.
  Qed.

  Lemma rename_args_map args :
    (fix go (l : list expr) : list expr := match l with [] => [] | a :: t => rename_expr rho a :: go t end) args = map (rename_expr rho) args.
  Proof. induction args as [|a t IH]; simpl; [reflexivity|]. rewrite IH. reflexivity. Qed.

  Lemma consts_of_renamed rest :
    flat_map (fun x => match x with EConst v => [v] | _ => [] end) (map (rename_expr rho) rest)
    = flat_map (fun x => match x with EConst v => [v] | _ => [] end) rest.
  Proof. induction rest as [|a t IH]; simpl; [reflexivity|]. rewrite IH. destruct a; reflexivity. Qed.

  Lemma win_parts_inj e :
    win_parts (rename_expr rho e) =
    match win_parts e with Some (op, arg, extra) => Some (op, option_map (rename_expr rho) arg, extra) | None => None end.
  Proof.
    destruct e as [c|v|op args]; try reflexivity. simpl. rewrite rename_args_map.
    destruct args as [|a rest]; simpl; [reflexivity|]. rewrite consts_of_renamed. reflexivity.
  Qed.

  Lemma agg_parts_inj e :
    agg_parts (rename_expr rho e) =
    match agg_parts e with Some (op, arg) => Some (op, option_map (rename_expr rho) arg) | None => None end.
  Proof.
    destruct e as [c|v|op args]; try reflexivity. simpl. rewrite rename_args_map.
    destruct args as [|a [|b rest]]; reflexivity.
  Qed.

  Lemma agg_value_inj fl cs grp e : agg_value fl (map rho cs) grp (rename_expr rho e) = agg_value fl cs grp e.
  Proof.
    unfold agg_value. rewrite agg_parts_inj. destruct (agg_parts e) as [[op [a|]]|]; simpl; try reflexivity.
    f_equal. apply map_ext. intros row. apply eval_expr_inj.
  Qed.

  (* ---------- orders *)
  Lemma row_le_inj fl cs keys r1 r2 :
    row_le fl (map rho cs) (map (fun cd => (rho (fst cd), snd cd)) keys) r1 r2 = row_le fl cs keys r1 r2.
  Proof. induction keys as [|[c d] t IH]; simpl; [reflexivity|]. rewrite !get_inj, IH. reflexivity. Qed.

  Lemma order_keys_inj cs rev :
    map (fun c => (c, mem c (map rho rev))) (map rho cs) = map (fun cd => (rho (fst cd), snd cd)) (map (fun c => (c, mem c rev)) cs).
  Proof. rewrite !map_map. apply map_ext. intros c. simpl. rewrite mem_inj. reflexivity. Qed.

  (* ---------- folds that write cells *)
  Lemma cells_fold_inj {X Y} (F : string * X -> val) (G : string * Y -> val) (g : X -> Y)
        (HG : forall kc, G (rho (fst kc), g (snd kc)) = F kc) l row ccs :
    fold_left (fun (acc : list val * list string) (kc : string * Y) =>
                 let '(rw, cc) := acc in (set_cell cc rw (fst kc) (G kc), add_end cc (fst kc)))
              (map (fun kc => (rho (fst kc), g (snd kc))) l) (row, map rho ccs)
    = (fst (fold_left (fun (acc : list val * list string) (kc : string * X) =>
                         let '(rw, cc) := acc in (set_cell cc rw (fst kc) (F kc), add_end cc (fst kc))) l (row, ccs)),
       map rho (snd (fold_left (fun (acc : list val * list string) (kc : string * X) =>
                                  let '(rw, cc) := acc in (set_cell cc rw (fst kc) (F kc), add_end cc (fst kc))) l (row, ccs)))).
  Proof.
    revert row ccs. induction l as [|kc t IH]; intros row ccs; simpl; [reflexivity|].
    rewrite HG, set_cell_inj, add_end_inj. apply IH.
  Qed.

  (* ---------- steps *)
  Lemma rename_tab_mk c rws : rename_tab rho (mktable c rws) = mktable (map rho c) rws.
  Proof. reflexivity. Qed.

  Lemma map_fst_rename_ops ops : map fst (rename_ops rho ops) = map rho (map fst ops).
  Proof. unfold rename_ops. rewrite !map_map. reflexivity. Qed.

  Lemma extend_row_inj fl cs ops row : extend_row fl (map rho cs) (rename_ops rho ops) row = extend_row fl cs ops row.
  Proof.
    unfold extend_row, rename_ops.
    rewrite (cells_fold_inj (fun ke => eval_expr fl cs row (snd ke)) (fun ke => eval_expr fl (map rho cs) row (snd ke)) (rename_expr rho)).
    - reflexivity.
    - intros kc. simpl. apply eval_expr_inj.
  Qed.

  Lemma sem_extend_inj fl ops t : sem_extend fl (rename_ops rho ops) (rename_tab rho t) = rename_tab rho (sem_extend fl ops t).
  Proof.
    unfold sem_extend, rename_tab. cbn [cols rows]. rewrite map_fst_rename_ops, ext_cols_inj. f_equal.
    apply map_ext. intros row. apply extend_row_inj.
  Qed.

  Lemma window_column_inj fl w t e :
    window_column fl (rename_window rho w) (rename_tab rho t) (rename_expr rho e) = window_column fl w t e.
  Proof.
    unfold window_column. cbv zeta. cbn [cols rows rename_tab rename_window w_part w_order w_rev].
    rewrite (map_ext (fun row => key_of (map rho (cols t)) (map rho (w_part w)) row) (fun row => key_of (cols t) (w_part w) row))
      by (intros row; apply key_of_inj).
    apply flat_map_ext'. intros k.
    rewrite (filter_ext' (fun ir => keys_eqv k (key_of (map rho (cols t)) (map rho (w_part w)) (snd ir)))
                         (fun ir => keys_eqv k (key_of (cols t) (w_part w) (snd ir))))
      by (intros ir; rewrite key_of_inj; reflexivity).
    rewrite order_keys_inj.
    rewrite (stable_sort_ext
               (fun a b : nat * list val => row_le fl (map rho (cols t)) (map (fun cd => (rho (fst cd), snd cd)) (map (fun c => (c, mem c (w_rev w))) (w_order w))) (snd a) (snd b))
               (fun a b : nat * list val => row_le fl (cols t) (map (fun c => (c, mem c (w_rev w))) (w_order w)) (snd a) (snd b)))
      by (intros a b; apply row_le_inj).
    rewrite win_parts_inj. destruct (win_parts e) as [[[op [a|]] extra]|]; simpl; try reflexivity.
    f_equal. f_equal. apply map_ext. intros ir. apply eval_expr_inj.
  Qed.

  Lemma sem_wextend_inj fl ops w t :
    sem_wextend fl (rename_ops rho ops) (rename_window rho w) (rename_tab rho t) = rename_tab rho (sem_wextend fl ops w t).
  Proof.
    unfold sem_wextend. cbv zeta. rewrite rename_tab_mk.
    rewrite map_fst_rename_ops. replace (cols (rename_tab rho t)) with (map rho (cols t)) by reflexivity.
    rewrite ext_cols_inj. f_equal. replace (rows (rename_tab rho t)) with (rows t) by reflexivity.
    apply map_ext. intros ir.
    assert (E : map (fun ke : string * expr => (fst ke, window_column fl (rename_window rho w) (rename_tab rho t) (snd ke))) (rename_ops rho ops)
                = map (fun kc : string * list (nat * val) => (rho (fst kc), snd kc))
                      (map (fun ke : string * expr => (fst ke, window_column fl w t (snd ke))) ops)).
    { unfold rename_ops. rewrite !map_map. apply map_ext. intros ke. simpl. rewrite window_column_inj. reflexivity. }
    rewrite E.
    rewrite (cells_fold_inj (fun kc : string * list (nat * val) => lookup_pos (snd kc) (fst ir))
                            (fun kc : string * list (nat * val) => lookup_pos (snd kc) (fst ir)) (fun x => x)).
    - reflexivity.
    - intros kc. reflexivity.
  Qed.

  Lemma sem_project_inj fl ops gb t :
    sem_project fl (rename_ops rho ops) (map rho gb) (rename_tab rho t) = rename_tab rho (sem_project fl ops gb t).
  Proof.
    unfold sem_project. cbv zeta. rewrite rename_tab_mk.
    replace (cols (rename_tab rho t)) with (map rho (cols t)) by reflexivity.
    replace (rows (rename_tab rho t)) with (rows t) by reflexivity.
    rewrite map_fst_rename_ops, <- map_app. f_equal.
    assert (G : match map rho gb with [] => [[]] | _ :: _ => distinct_keys (map (key_of (map rho (cols t)) (map rho gb)) (rows t)) end
              = match gb with [] => [[]] | _ :: _ => distinct_keys (map (key_of (cols t) gb) (rows t)) end).
    { destruct gb as [|g gb']; [reflexivity|]. cbn [map]. f_equal. apply map_ext. intros row. apply (key_of_inj (cols t) (g :: gb') row). }
    rewrite G. apply map_ext. intros k. f_equal.
    unfold rename_ops. rewrite map_map. apply map_ext. intros ke. cbn [snd].
    rewrite agg_value_inj. f_equal. apply filter_ext'. intros row. rewrite key_of_inj. reflexivity.
  Qed.

  Lemma sem_select_rows_inj fl x t :
    sem_select_rows fl (rename_expr rho x) (rename_tab rho t) = rename_tab rho (sem_select_rows fl x t).
  Proof.
    unfold sem_select_rows, rename_tab. cbn [cols rows]. f_equal. apply filter_ext'. intros row. rewrite eval_expr_inj. reflexivity.
  Qed.

  Lemma sem_select_cols_inj cs t : sem_select_cols (map rho cs) (rename_tab rho t) = rename_tab rho (sem_select_cols cs t).
  Proof.
    unfold sem_select_cols, rename_tab. cbn [cols rows]. f_equal. apply map_ext. intros row. apply select_row_inj.
  Qed.

  Lemma sem_drop_cols_inj ds t : sem_drop_cols (map rho ds) (rename_tab rho t) = rename_tab rho (sem_drop_cols ds t).
  Proof.
    unfold sem_drop_cols. replace (cols (rename_tab rho t)) with (map rho (cols t)) by reflexivity.
    rewrite filter_not_mem_inj. apply sem_select_cols_inj.
  Qed.

  Lemma rename_col_inj m c : rename_col (rename_pairs rho m) (rho c) = rho (rename_col m c).
  Proof.
    unfold rename_col, rename_pairs. induction m as [|[n o] t IH]; simpl; [reflexivity|].
    rewrite eqb_inj. destruct (String.eqb o c); [reflexivity|exact IH].
  Qed.

  Lemma sem_rename_inj m t : sem_rename (rename_pairs rho m) (rename_tab rho t) = rename_tab rho (sem_rename m t).
  Proof.
    unfold sem_rename, rename_tab. cbn [cols rows]. f_equal. rewrite !map_map. apply map_ext. intros c. apply rename_col_inj.
  Qed.

  Lemma sem_order_inj fl cs rev lim t :
    sem_order fl (map rho cs) (map rho rev) lim (rename_tab rho t) = rename_tab rho (sem_order fl cs rev lim t).
  Proof.
    unfold sem_order. cbv zeta. rewrite rename_tab_mk.
    replace (cols (rename_tab rho t)) with (map rho (cols t)) by reflexivity.
    replace (rows (rename_tab rho t)) with (rows t) by reflexivity.
    rewrite order_keys_inj.
    rewrite (stable_sort_ext (row_le fl (map rho (cols t)) (map (fun cd => (rho (fst cd), snd cd)) (map (fun c => (c, mem c rev)) cs)))
                             (row_le fl (cols t) (map (fun c => (c, mem c rev)) cs)))
      by (intros a b; apply row_le_inj).
    reflexivity.
  Qed.

  Lemma sem_join_inj nm on_a on_b jt a b :
    sem_join nm (map rho on_a) (map rho on_b) jt (rename_tab rho a) (rename_tab rho b) = rename_tab rho (sem_join nm on_a on_b jt a b).
  Proof.
    unfold sem_join. cbv beta zeta. rewrite rename_tab_mk.
    replace (cols (rename_tab rho a)) with (map rho (cols a)) by reflexivity.
    replace (cols (rename_tab rho b)) with (map rho (cols b)) by reflexivity.
    replace (rows (rename_tab rho a)) with (rows a) by reflexivity.
    replace (rows (rename_tab rho b)) with (rows b) by reflexivity.
    rewrite filter_not_mem_inj, <- map_app.
    set (out := cols a ++ filter (fun c => negb (mem c (cols a))) (cols b)).
    assert (MK : forall ra rb : option (list val),
               map (fun c => let va := match ra with Some r => if mem c (map rho (cols a)) then get (map rho (cols a)) r c else VNull | None => VNull end in
                             let vb := match rb with Some r => if mem c (map rho (cols b)) then get (map rho (cols b)) r c else VNull | None => VNull end in
                             if is_null va then vb else va) (map rho out)
               = map (fun c => let va := match ra with Some r => if mem c (cols a) then get (cols a) r c else VNull | None => VNull end in
                               let vb := match rb with Some r => if mem c (cols b) then get (cols b) r c else VNull | None => VNull end in
                               if is_null va then vb else va) out).
    { intros ra rb. rewrite map_map. apply map_ext. intros c. cbv zeta. rewrite !mem_inj.
      destruct ra as [r1|], rb as [r2|]; rewrite ?get_inj; reflexivity. }
    cbv zeta in MK.
    f_equal. f_equal; [|f_equal].
    - apply flat_map_ext'. intros ra. apply flat_map_ext'. intros rb. pose proof (MK (Some ra) (Some rb)) as E. cbv beta iota in E. rewrite !key_of_inj, E. reflexivity.
    - destruct jt; try reflexivity; apply flat_map_ext'; intros ra; pose proof (MK (Some ra) None) as E; cbv beta iota in E; rewrite E;
        rewrite (existsb_ext' (fun rb => keys_match nm (key_of (map rho (cols a)) (map rho on_a) ra) (key_of (map rho (cols b)) (map rho on_b) rb))
                              (fun rb => keys_match nm (key_of (cols a) on_a ra) (key_of (cols b) on_b rb)))
          by (intros rb; rewrite !key_of_inj; reflexivity); reflexivity.
    - destruct jt; try reflexivity; apply flat_map_ext'; intros rb; pose proof (MK None (Some rb)) as E; cbv beta iota in E; rewrite E;
        rewrite (existsb_ext' (fun ra => keys_match nm (key_of (map rho (cols a)) (map rho on_a) ra) (key_of (map rho (cols b)) (map rho on_b) rb))
                              (fun ra => keys_match nm (key_of (cols a) on_a ra) (key_of (cols b) on_b rb)))
          by (intros ra; rewrite !key_of_inj; reflexivity); reflexivity.
  Qed.

  Lemma sem_concat_inj idc an bn a b :
    sem_concat (option_map rho idc) an bn (rename_tab rho a) (rename_tab rho b) = rename_tab rho (sem_concat idc an bn a b).
  Proof.
    unfold sem_concat. cbv zeta.
    replace (cols (rename_tab rho a)) with (map rho (cols a)) by reflexivity.
    replace (cols (rename_tab rho b)) with (map rho (cols b)) by reflexivity.
    replace (rows (rename_tab rho a)) with (rows a) by reflexivity.
    replace (rows (rename_tab rho b)) with (rows b) by reflexivity.
    rewrite (map_ext (fun r => map (get (map rho (cols b)) r) (map rho (cols a))) (fun r => map (get (cols b) r) (cols a)))
      by (intros row; apply select_row_inj).
    destruct idc as [c|]; unfold rename_tab; cbn [option_map cols rows]; [rewrite map_app|]; reflexivity.
  Qed.
End Inj.
