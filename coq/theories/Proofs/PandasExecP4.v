(* PEXEC, part 4: _project_step (scratch column of ones, constant stand-in columns, groupby(dropna=False) + agg, reset_index,
   missing group columns on empty input, the closing keyed check) refines sem_project: same columns, and the rows of the
   reference semantics in SORTED key order (pandas sorts the groups; the reference semantics lists them by first occurrence).
   All statements proved. *)
From Coq Require Import List Bool Arith ZArith QArith String Ascii Lia Permutation Sorted.
Import ListNotations.
From DA Require Import Base.PyRT Base.Val Model.Sem Model.PdPrim Model.PandasExec
  Proofs.SemBasicP Proofs.SemOrderP Proofs.ComposeP5 Proofs.PandasExecP1 Proofs.PandasExecP2 Proofs.PandasExecP3.
Local Open Scope string_scope.
Local Open Scope list_scope.

(* ------------------------------------------------------------------ frames that carry extra (scratch) columns *)
(* t2 is t with more columns: same number of rows, every cell of t readable under its name *)
Definition extends_by (t t2 : table) : Prop :=
  width_ok t2 /\ (forall c, In c (cols t) -> In c (cols t2)) /\
  Forall2 (fun r2 r => forall c, In c (cols t) -> get (cols t2) r2 c = get (cols t) r c) (rows t2) (rows t).

Lemma extends_refl t : width_ok t -> extends_by t t.
Proof. intros W. split; [exact W|]. split; [auto|]. apply Forall2_refl. intros r c _. reflexivity. Qed.

Lemma extends_set_scalar t t2 name v : extends_by t t2 -> ~ In name (cols t) -> extends_by t (pd_set_scalar name v t2).
Proof.
  intros [W [I F]] N. split; [apply width_set_scalar, W|]. split.
  - intros c Ic. unfold pd_set_scalar. cbn [cols]. apply In_add_end. left. apply I, Ic.
  - eapply Forall2_trans; [|apply (set_scalar_row_eqv name v t2 W)|exact F].
    intros a b c Hab Hbc x Ix. cbn [cols pd_set_scalar]. rewrite (Hab x). destruct (eq_dec x name) as [->|ne]; [contradiction|]. apply Hbc, Ix.
Qed.

Lemma extends_rows_len t t2 : extends_by t t2 -> List.length (rows t2) = List.length (rows t).
Proof. intros [_ [_ F]]. apply (Forall2_len _ _ _ F). Qed.

Lemma extends_getcol t t2 c : extends_by t t2 -> In c (cols t) -> getcol t2 c = getcol t c.
Proof. intros [_ [_ F]] I. unfold getcol. eapply Forall2_map_eq; [exact F|]. intros a b H. apply H, I. Qed.

Lemma extends_keys t t2 ks : extends_by t t2 -> (forall c, In c ks -> In c (cols t)) ->
  map (key_of (cols t2) ks) (rows t2) = map (key_of (cols t) ks) (rows t).
Proof.
  intros [_ [_ F]] S. eapply Forall2_map_eq; [exact F|]. intros a b H. unfold key_of. apply map_ext_in. intros c Ic. apply H, S, Ic.
Qed.

(* a column holding one constant *)
Definition const_col (t2 : table) (name : string) (v : val) : Prop :=
  In name (cols t2) /\ Forall (fun r2 => get (cols t2) r2 name = v) (rows t2).

Lemma const_col_set_scalar t2 name v : width_ok t2 -> const_col (pd_set_scalar name v t2) name v.
Proof.
  intros W. split; [unfold pd_set_scalar; cbn [cols]; apply In_add_end; right; reflexivity|].
  pose proof (set_scalar_row_eqv name v t2 W) as F. cbn [cols pd_set_scalar] in *.
  revert F. generalize (rows (pd_set_scalar name v t2)). generalize (rows t2). intros l l' F.
  induction F as [|a b l' l H F IH]; constructor; [|exact IH]. rewrite (H name). destruct (eq_dec name name); [reflexivity|congruence].
Qed.
Lemma const_col_keep t2 name v name' v' : width_ok t2 -> name <> name' -> const_col t2 name v -> const_col (pd_set_scalar name' v' t2) name v.
Proof.
  intros W Ne [I F]. split; [unfold pd_set_scalar; cbn [cols]; apply In_add_end; left; exact I|].
  pose proof (set_scalar_row_eqv name' v' t2 W) as G. cbn [cols pd_set_scalar] in *.
  revert G F. generalize (rows (pd_set_scalar name' v' t2)). generalize (rows t2). intros l l' G.
  induction G as [|a b l' l H G IH]; intros F; constructor.
  - rewrite (H name). destruct (eq_dec name name'); [congruence|]. inversion F; assumption.
  - apply IH. inversion F; assumption.
Qed.
Lemma const_col_getcol t2 name v : const_col t2 name v -> getcol t2 name = map (fun _ => v) (rows t2).
Proof. intros [_ F]. unfold getcol. apply map_ext_in. intros r I. rewrite Forall_forall in F. apply F, I. Qed.

(* ------------------------------------------------------------------ the collection loop of _project_step *)
Definition pinv (base : list string) (t : table) (st : pstate) : Prop :=
  extends_by t (ps_res st) /\ (forall c, In c (cols (ps_res st)) -> In c (ps_names st)) /\
  (forall v name, In (v, name) (ps_temps st) -> const_col (ps_res st) name v /\ ~ In name (cols t) /\ ~ In name base) /\
  (forall c, In c base -> In c (ps_names st)) /\
  (forall c, In c (cols (ps_res st)) -> In c (cols t) \/ exists v, In (v, c) (ps_temps st)).

Lemma const_lookup_In v d name : const_lookup v d = Some name -> In (v, name) d.
Proof.
  induction d as [|[v' n] d IH]; simpl; [discriminate|]. destruct (eq_dec v v') as [->|ne]; intros H.
  - inversion H; subst. left. reflexivity.
  - right. apply IH, H.
Qed.

Lemma pcollect_inv base t st ke st' : pinv base t st -> (forall c, In c (cols t) -> In c (ps_names st)) ->
  pcollect st ke = Some st' -> pinv base t st' /\ (forall c, In c (ps_names st) -> In c (ps_names st')).
Proof.
  intros [E [Nm [Tm [Bs Cs]]]] Nt. unfold pcollect. destruct (agg_shape (snd ke)) as [[fn [[c|v]|]]|]; try discriminate;
    try (intros H; inversion H; subst; split; [split; [exact E|split; [exact Nm|split; [exact Tm|split; [exact Bs|exact Cs]]]]|auto]).
  destruct (const_lookup v (ps_temps st)) eqn:L; intros H; inversion H; subst; clear H;
    [split; [split; [exact E|split; [exact Nm|split; [exact Tm|split; [exact Bs|exact Cs]]]]|auto]|].
  set (name := unused_column_name (sapp base_project_const (dec (List.length (ps_temps st)))) (ps_names st)).
  pose proof (unused_column_name_fresh (sapp base_project_const (dec (List.length (ps_temps st)))) (ps_names st)) as Fr. fold name in Fr.
  assert (~ In name (cols t)) as N1 by (intros I; apply Fr, Nt, I).
  assert (~ In name (cols (ps_res st))) as N2 by (intros I; apply Fr, Nm, I).
  destruct E as [W [I F]]. split; [|intros c Ic; cbn [ps_names]; apply in_app_iff; left; exact Ic].
  split; [apply extends_set_scalar; [split; [exact W|split; assumption]|exact N1]|]. cbn [ps_res ps_names ps_temps]. split; [|split; [|split]].
  - intros c Ic. unfold pd_set_scalar in Ic. cbn [cols] in Ic. apply In_add_end in Ic. apply in_app_iff.
    destruct Ic as [Ic| ->]; [left; apply Nm, Ic|right; left; reflexivity].
  - intros v0 n0 I0. apply in_app_iff in I0. destruct I0 as [I0|[I0|[]]].
    + destruct (Tm _ _ I0) as [Cc [Nn Nb]]. split; [|split; assumption]. apply const_col_keep; [exact W| |exact Cc].
      intros ->. destruct Cc as [Ic _]. contradiction.
    + inversion I0; subst. split; [apply const_col_set_scalar, W|]. split; [exact N1|]. intros Ib. apply Fr, Bs, Ib.
  - intros c Ic. apply in_app_iff. left. apply Bs, Ic.
  - intros c Ic. unfold pd_set_scalar in Ic. cbn [cols] in Ic. apply In_add_end in Ic. destruct Ic as [Ic| ->].
    + destruct (Cs c Ic) as [Ict|[v0 Iv]]; [left; exact Ict|right; exists v0; apply in_app_iff; left; exact Iv].
    + right. exists v. apply in_app_iff. right. left. reflexivity.
Qed.

Lemma pcollect_fold base t ops : forall st st', pinv base t st -> (forall c, In c (cols t) -> In c (ps_names st)) ->
  fold_left (fun acc ke => s <- acc ;; pcollect s ke) ops (Some st) = Some st' ->
  pinv base t st' /\ (forall c, In c (ps_names st) -> In c (ps_names st')).
Proof.
  induction ops as [|ke ops IH]; intros st st' Iv Nt H; simpl in H.
  - inversion H; subst. split; [exact Iv|auto].
  - destruct (pcollect st ke) as [st1|] eqn:E.
    + destruct (pcollect_inv _ _ _ _ _ Iv Nt E) as [Iv1 Inc]. cbn [obind] in H.
      destruct (IH _ _ Iv1 (fun c I => Inc c (Nt c I)) H) as [Iv' Inc']. split; [exact Iv'|]. intros c I. apply Inc', Inc, I.
    + cbn [obind] in H. exfalso. clear -H. induction ops as [|k o IHo]; simpl in H; [discriminate|apply IHo, H].
Qed.

(* ------------------------------------------------------------------ one aggregate *)
(* what the builders guarantee about a project (Model-level guard, see wf_op in Props/PEXEC.v):
   an argument column exists; the only zero-argument aggregate is _size() *)
Definition agg_ok (cs : list string) (e : expr) : Prop :=
  match agg_shape e with
  | Some (fn, Some (WCol c)) => In c cs
  | Some (fn, Some (WConst _)) => True
  | Some (fn, None) => fn = "_size"
  | None => True
  end.

Lemma filter_combine_keys {R} (K : R -> list val) (V : R -> val) (k : list val) (rs : list R) :
  map snd (filter (fun kv => keys_eqv k (fst kv)) (combine (map K rs) (map V rs))) = map V (filter (fun r => keys_eqv k (K r)) rs).
Proof. induction rs as [|r rs IH]; simpl; [reflexivity|]. destruct (keys_eqv k (K r)); simpl; rewrite IH; reflexivity. Qed.

Lemma agg_names_map fn : mem (transform_op_map fn) agg_names = true -> transform_op_map fn = fn.
Proof. unfold transform_op_map. destruct (String.eqb fn "any_value") eqn:E; [discriminate|reflexivity]. Qed.

(* the values an aggregate ranges over, per row of the ORIGINAL frame *)
Definition agg_arg (cs : list string) (e : expr) (r : list val) : val :=
  match agg_parts e with Some (_, Some a) => eval_expr fl_pandas cs r a | _ => VBool true end.

Lemma agg_value_arg cs grp e fn arg : agg_parts e = Some (fn, arg) -> agg_value fl_pandas cs grp e = agg_fn fl_pandas fn (map (agg_arg cs e) grp).
Proof. intros H. unfold agg_value, agg_arg. rewrite H. destruct arg; reflexivity. Qed.

Lemma agg_size_ones (l : list (list val)) : agg_fn fl_pandas "size" (map (fun _ => vone) l) = agg_fn fl_pandas "_size" (map (fun _ => VBool true) l).
Proof. destruct l; simpl; [reflexivity|]. rewrite !map_length. reflexivity. Qed.

Lemma map_const_len {A B C} (v : C) (l : list A) (m : list B) : List.length l = List.length m -> map (fun _ => v) l = map (fun _ => v) m.
Proof. revert m. induction l as [|a l IH]; intros [|b m] L; simpl in *; try discriminate; [reflexivity|]. f_equal. apply IH. lia. Qed.

(* the column an aggregate reads, as a function of the ORIGINAL rows; and the aggregate name after the name mapping *)
Lemma pagg_vals t res2 temps T e fn arg :
  extends_by t res2 -> const_col res2 T vone -> (forall v name, In (v, name) temps -> const_col res2 name v) ->
  agg_shape e = Some (fn, arg) -> agg_ok (cols t) e ->
  forall vals fn',
    (match arg with
     | Some (WCol c) => vs <- pd_col c res2 ;; Some (vs, transform_op_map fn)
     | Some (WConst v) => name <- const_lookup v temps ;; vs <- pd_col name res2 ;; Some (vs, transform_op_map fn)
     | None => z <- strip_underscore fn ;; vs <- pd_col T res2 ;; Some (vs, transform_op_map z)
     end) = Some (vals, fn') ->
    exists V, vals = map V (rows t) /\
              (mem fn' agg_names = true -> forall grp, agg_fn fl_pandas fn' (map V grp) = agg_value fl_pandas (cols t) grp e).
Proof.
  intros E CT CC Sh Ok vals fn' H. unfold agg_ok in Ok. rewrite Sh in Ok.
  destruct e as [c0|v0|o args]; [discriminate Sh|discriminate Sh|].
  destruct args as [|a [|b rest]]; [| |destruct a; discriminate Sh].
  - (* fn() *)
    inversion Sh; subst fn arg. subst o. cbn [strip_underscore] in H. cbn in H.
    destruct (pd_col T res2) as [vs|] eqn:Ec; cbn [obind] in H; [|discriminate]. inversion H; subst vals fn'. clear H.
    apply pd_col_inv in Ec. destruct Ec as [-> _]. rewrite (const_col_getcol _ _ _ CT).
    exists (fun _ => vone). split; [apply map_const_len, extends_rows_len, E|].
    intros _ grp. unfold agg_value. cbn [agg_parts]. apply agg_size_ones.
  - destruct a as [c|v|o' args']; [| |discriminate Sh]; inversion Sh; subst fn arg.
    + (* fn(column) *)
      destruct (pd_col c res2) as [vs|] eqn:Ec; cbn [obind] in H; [|discriminate]. inversion H; subst vals fn'. clear H.
      apply pd_col_inv in Ec. destruct Ec as [-> _]. rewrite (extends_getcol _ _ _ E Ok).
      exists (fun r => get (cols t) r c). split; [reflexivity|]. intros M grp. rewrite (agg_names_map _ M). reflexivity.
    + (* fn(constant) *)
      destruct (const_lookup v temps) as [name|] eqn:El; cbn [obind] in H; [|discriminate].
      destruct (pd_col name res2) as [vs|] eqn:Ec; cbn [obind] in H; [|discriminate]. inversion H; subst vals fn'. clear H.
      apply pd_col_inv in Ec. destruct Ec as [-> _]. rewrite (const_col_getcol _ _ _ (CC _ _ (const_lookup_In _ _ _ El))).
      exists (fun _ => v). split; [apply map_const_len, extends_rows_len, E|]. intros M grp. rewrite (agg_names_map _ M). reflexivity.
Qed.

Lemma agg_shape_fst e fn arg : agg_shape e = Some (fn, arg) -> True.
Proof. trivial. Qed.

(* pagg: the value handed to columns_to_frame_ for one output *)
Definition agg_groups (t : table) (gb : list string) (e : expr) (gk : list (list val)) : list val :=
  map (fun key => agg_value fl_pandas (cols t) (filter (fun r => keys_eqv key (key_of (cols t) gb r)) (rows t)) e) gk.

Lemma pagg_spec t gb res2 temps T rkeys ke k x :
  extends_by t res2 -> const_col res2 T vone -> (forall v name, In (v, name) temps -> const_col res2 name v) ->
  agg_ok (cols t) (snd ke) ->
  (rkeys = None \/ rkeys = Some (map (key_of (cols t) gb) (rows t))) ->
  pagg rkeys temps T res2 ke = Some (k, x) ->
  k = fst ke /\
  x = match rkeys with
      | None => CScalar (agg_value fl_pandas (cols t) (rows t) (snd ke))
      | Some rk => CGrouped (mkgs (pd_group_keys rk) (agg_groups t gb (snd ke) (pd_group_keys rk)))
      end.
Proof.
  intros E CT CC Ok Rk. unfold pagg. destruct (agg_shape (snd ke)) as [[fn arg]|] eqn:Sh; [|discriminate].
  pose proof (pagg_vals t res2 temps T (snd ke) fn arg E CT CC Sh Ok) as PV.
  assert (forall vals fn', agg_on rkeys vals fn' = Some x -> (exists V, vals = map V (rows t) /\
             (mem fn' agg_names = true -> forall grp, agg_fn fl_pandas fn' (map V grp) = agg_value fl_pandas (cols t) grp (snd ke))) ->
          x = match rkeys with
              | None => CScalar (agg_value fl_pandas (cols t) (rows t) (snd ke))
              | Some rk => CGrouped (mkgs (pd_group_keys rk) (agg_groups t gb (snd ke) (pd_group_keys rk)))
              end) as Fin.
  { intros vals fn' Ha [V [-> HV]]. destruct Rk as [->| ->]; cbn [agg_on] in Ha.
    - unfold pd_series_agg in Ha. destruct (mem fn' agg_names) eqn:M; [|discriminate]. inversion Ha. f_equal. apply HV. reflexivity.
    - unfold pd_grouped_agg in Ha. rewrite !map_length, Nat.eqb_refl in Ha. destruct (mem fn' agg_names) eqn:M; [|discriminate].
      cbn [andb option_map] in Ha. inversion Ha. f_equal. f_equal. unfold agg_groups. apply map_ext. intros key.
      rewrite filter_combine_keys. apply HV. reflexivity. }
  destruct arg as [[c|v]|].
  - destruct (pd_col c res2) as [vals|] eqn:Ec; cbn [obind]; [|discriminate].
    destruct (agg_on rkeys vals (transform_op_map fn)) as [x'|] eqn:Ea; cbn [obind]; [|discriminate].
    intros H. inversion H; subst. split; [reflexivity|]. apply (Fin _ _ Ea). apply PV; cbn [obind]; try rewrite Ec; reflexivity.
  - destruct (const_lookup v temps) as [name|] eqn:El; cbn [obind]; [|discriminate].
    destruct (pd_col name res2) as [vals|] eqn:Ec; cbn [obind]; [|discriminate].
    destruct (agg_on rkeys vals (transform_op_map fn)) as [x'|] eqn:Ea; cbn [obind]; [|discriminate].
    intros H. inversion H; subst. split; [reflexivity|]. apply (Fin _ _ Ea). apply PV; cbn [obind]; try rewrite Ec; reflexivity.
  - destruct (strip_underscore fn) as [z|] eqn:Ez; cbn [obind]; [|discriminate].
    destruct (pd_col T res2) as [vals|] eqn:Ec; cbn [obind]; [|discriminate].
    destruct (agg_on rkeys vals (transform_op_map z)) as [x'|] eqn:Ea; cbn [obind]; [|discriminate].
    intros H. inversion H; subst. split; [reflexivity|]. apply (Fin _ _ Ea). apply PV; cbn [obind]; try rewrite Ec; reflexivity.
Qed.

(* ------------------------------------------------------------------ columns_to_frame_ on aggregate results *)
Lemma ctf_fold_scalars (kvs : list (string * val)) st :
  fold_left (fun (st : option (bool * option nat)) (kv : string * cval) =>
               st' <- st ;;
               match cval_len (snd kv) with
               | None => Some st'
               | Some ln => match snd st' with
                            | None => Some (false, Some ln)
                            | Some tr => if Nat.eqb tr ln then Some (false, Some tr) else None
                            end
               end) (map (fun kv => (fst kv, CScalar (snd kv))) kvs) (Some st) = Some st.
Proof. induction kvs as [|kv kvs IH]; simpl; [reflexivity|exact IH]. Qed.

Lemma ctf_scalars (kvs : list (string * val)) : kvs <> [] ->
  columns_to_frame (map (fun kv => (fst kv, CScalar (snd kv))) kvs) None = Some (mkxf None (mktable (map fst kvs) [map snd kvs])).
Proof.
  intros N. unfold columns_to_frame. rewrite map_length. destruct kvs as [|kv0 kvs0] eqn:E; [congruence|]. rewrite <- E. clear N.
  replace (Nat.ltb (List.length kvs) 1) with false by (rewrite E; reflexivity).
  rewrite ctf_fold_scalars. cbn [fst snd].
  rewrite map_map. cbn [fst snd promote option_map repeat].
  rewrite (all_some_map (fun kv : string * val => (fst kv, [snd kv]))). cbn [obind].
  unfold pd_frame_of_columns. replace (forallb _ _) with true.
  2:{ symmetry. apply forallb_forall. intros x I. apply in_map_iff in I. destruct I as [kv [<- _]]. reflexivity. }
  cbn [obind]. unfold clean_copy, pd_reset_index. f_equal. f_equal. f_equal; [rewrite map_map; reflexivity|].
  cbn [transpose_cols]. rewrite !map_map. reflexivity.
Qed.

Lemma ctf_fold_grouped gk (kvs : list (string * list val)) b :
  (forall kv, In kv kvs -> List.length (snd kv) = List.length gk) ->
  fold_left (fun (st : option (bool * option nat)) (kv : string * cval) =>
               st' <- st ;;
               match cval_len (snd kv) with
               | None => Some st'
               | Some ln => match snd st' with
                            | None => Some (false, Some ln)
                            | Some tr => if Nat.eqb tr ln then Some (false, Some tr) else None
                            end
               end) (map (fun kv => (fst kv, CGrouped (mkgs gk (snd kv)))) kvs) (Some (b, Some (List.length gk)))
  = Some (match kvs with [] => b | _ => false end, Some (List.length gk)).
Proof.
  revert b. induction kvs as [|kv kvs IH]; intros b H; simpl; [reflexivity|].
  rewrite (H kv (or_introl eq_refl)), Nat.eqb_refl. rewrite IH by (intros x I; apply H; right; exact I).
  destruct kvs; reflexivity.
Qed.

Lemma ctf_grouped gk (kvs : list (string * list val)) : kvs <> [] ->
  (forall kv, In kv kvs -> List.length (snd kv) = List.length gk) ->
  columns_to_frame (map (fun kv => (fst kv, CGrouped (mkgs gk (snd kv)))) kvs) None
  = Some (if Nat.eqb (List.length gk) 0 then mkxf None (pd_empty_frame (map fst kvs))
          else mkxf (Some gk) (mktable (map fst kvs) (transpose_cols (List.length gk) (map snd kvs)))).
Proof.
  intros N L. unfold columns_to_frame. rewrite map_length. destruct kvs as [|kv0 kvs0] eqn:E; [congruence|]. rewrite <- E in *. clear N.
  replace (Nat.ltb (List.length kvs) 1) with false by (rewrite E; reflexivity).
  assert (fold_left _ (map (fun kv => (fst kv, CGrouped (mkgs gk (snd kv)))) kvs) (Some (true, None)) = Some (false, Some (List.length gk))) as ->.
  { rewrite E at 1. cbn [map fold_left obind fst snd cval_len gs_vals]. rewrite (L kv0) by (rewrite E; left; reflexivity).
    rewrite ctf_fold_grouped by (intros x I; apply L; rewrite E; right; exact I). destruct kvs0; reflexivity. }
  cbn [fst snd]. destruct (List.length gk) as [|m] eqn:Em.
  - cbn [Nat.ltb Nat.leb Nat.eqb]. rewrite map_map. reflexivity.
  - cbn [Nat.ltb Nat.leb Nat.eqb]. rewrite map_map. cbn [fst snd].
    assert (all_some (map (fun x : string * list val => option_map (fun vs => (fst x, vs)) (promote (S m) (CGrouped (mkgs gk (snd x))))) kvs)
            = Some (map (fun x => (fst x, snd x)) kvs)) as ->.
    { rewrite <- all_some_map. apply all_some_ext. intros x I. cbn [promote gs_vals]. rewrite (L x I). try rewrite Em. rewrite Nat.eqb_refl. reflexivity. }
    cbn [obind]. unfold pd_frame_of_columns. replace (forallb _ _) with true.
    2:{ symmetry. apply forallb_forall. intros x I. apply in_map_iff in I. destruct I as [kv [<- I]]. cbn [snd]. rewrite (L kv I). try rewrite Em. apply Nat.eqb_refl. }
    cbn [obind]. f_equal. f_equal.
    + rewrite E. reflexivity.
    + f_equal; [rewrite map_map; reflexivity|]. rewrite map_map. reflexivity.
Qed.

Lemma all_some_Forall2 {X Y} (f : X -> option Y) l r : all_some (map f l) = Some r -> Forall2 (fun x y => f x = Some y) l r.
Proof.
  revert r. induction l as [|a l IH]; intros r H; simpl in H; [inversion H; constructor|].
  destruct (f a) as [y|] eqn:Ea; [|discriminate]. destruct (all_some (map f l)) as [r'|]; [|discriminate]. inversion H; subst.
  constructor; [exact Ea|apply IH; reflexivity].
Qed.
Lemma Forall2_map_fun {X Y} (g : X -> Y) l r : Forall2 (fun x y => y = g x) l r -> r = map g l.
Proof. induction 1 as [|x y l r H F IH]; simpl; [reflexivity|]. rewrite H, IH. reflexivity. Qed.

(* ------------------------------------------------------------------ _project_step *)
Lemma keys_le_total a b : keys_le a b = true \/ keys_le b a = true.
Proof.
  revert b. induction a as [|x a IH]; intros [|y b]; simpl; auto.
  rewrite (v_eqv_sym y x). destruct (v_eqv x y); [apply IH|apply v_le_dir_total].
Qed.

Lemma group_keys_perm rk : Permutation (pd_group_keys rk) (distinct_keys rk).
Proof. unfold pd_group_keys. apply stable_sort_perm. Qed.

Lemma transpose_row_app (gk : list (list val)) (cols_vals : list (list val)) :
  (forall vs, In vs cols_vals -> List.length vs = List.length gk) ->
  map (fun kr => fst kr ++ snd kr) (combine gk (transpose_cols (List.length gk) cols_vals))
  = map (fun ik => snd ik ++ map (fun vs => nth (fst ik) vs VNull) cols_vals) (combine (seq 0 (List.length gk)) gk).
Proof.
  intros _. rewrite transpose_rows. rewrite combine_map_r, map_map. cbn [fst snd].
  assert (forall (n : nat) (g : list (list val)), map (fun p : list val * nat => fst p ++ map (fun vs => nth (snd p) vs VNull) cols_vals) (combine g (seq n (List.length g)))
                      = map (fun ik : nat * list val => snd ik ++ map (fun vs => nth (fst ik) vs VNull) cols_vals) (combine (seq n (List.length g)) g)) as K.
  { intros n g. revert n. induction g as [|k g IH]; intros n; simpl; [reflexivity|]. rewrite IH. reflexivity. }
  apply K.
Qed.

Section Project.
  Variable q : pquirks.
  Variables (ops : list (string * expr)) (gb : list string) (t : table).
  Hypothesis Wt : width_ok t.
  Hypothesis Ngb : forall g, In g gb -> In g (cols t).
  Hypothesis Okops : forall ke, In ke ops -> agg_ok (cols t) (snd ke).

  Let names0 := set_union (cols t) (map fst ops).
  Let T := unused_column_name base_project_temp names0.
  Let names1 := names0 ++ [T].
  Let rk := map (key_of (cols t) gb) (rows t).

  Lemma T_fresh : ~ In T (cols t) /\ ~ In T (map fst ops).
  Proof.
    pose proof (unused_column_name_fresh base_project_temp names0) as F. fold T in F. unfold names0 in F.
    split; intros I; apply F; apply In_set_union; [left|right]; exact I.
  Qed.

  (* the frame just before grouping *)
  Lemma project_prepared st :
    fold_left (fun acc ke => s <- acc ;; pcollect s ke) ops (Some (mkps [] names1 t)) = Some st ->
    let res2 := pd_set_scalar T vone (ps_res st) in
    extends_by t res2 /\ const_col res2 T vone /\ (forall v name, In (v, name) (ps_temps st) -> const_col res2 name v).
  Proof.
    intros H. destruct T_fresh as [Tc Tk].
    assert (pinv names1 t (mkps [] names1 t)) as I0.
    { split; [apply extends_refl, Wt|]. cbn [ps_res ps_names ps_temps]. split; [intros c Ic; apply in_app_iff; left; apply In_set_union; left; exact Ic|].
      split; [intros v name []|]. split; [auto|]. intros c Ic. left. exact Ic. }
    assert (forall c, In c (cols t) -> In c (ps_names (mkps [] names1 t))) as Nt0.
    { intros c Ic. cbn [ps_names]. apply in_app_iff. left. apply In_set_union. left. exact Ic. }
    destruct (pcollect_fold names1 t ops _ st I0 Nt0 H) as [[E [Nm [Tm [Bs Cs]]]] _].
    assert (In T names1) as IT by (apply in_app_iff; right; left; reflexivity).
    destruct E as [W [Inc F]]. cbn zeta. split; [|split].
    - apply extends_set_scalar; [split; [exact W|split; assumption]|exact Tc].
    - apply const_col_set_scalar, W.
    - intros v name Iv. destruct (Tm v name Iv) as [Cc [_ Nb]]. apply const_col_keep; [exact W| |exact Cc]. intros ->. contradiction.
  Qed.
End Project.

Lemma fold_set_empty_cols (gs : list string) : forall t, rows t = [] ->
  fold_left (fun acc g => r <- acc ;; pd_set_col g [] r) gs (Some t) = Some (mktable (fold_left add_end gs (cols t)) []).
Proof.
  induction gs as [|g gs IH]; intros t E; simpl.
  - rewrite <- E. rewrite table_eta. reflexivity.
  - unfold pd_set_col at 2. unfold nrows. rewrite E. cbn [List.length Nat.eqb combine map obind]. rewrite IH by reflexivity. reflexivity.
Qed.

Lemma filter_all_rows (cs : list string) (rs : list (list val)) : filter (fun r => keys_eqv [] (key_of cs [] r)) rs = rs.
Proof. rewrite (filter_ext _ (fun _ => true)) by (intros r; reflexivity). apply filter_true. Qed.

Lemma set_diff_self_app (gb ks : list string) : set_diff (py_set gb) (gb ++ ks) = [].
Proof. unfold set_diff. apply filter_none. intros x I. apply (proj1 (In_py_set _ _)) in I. apply negb_false_iff, mem_In, in_app_iff. left. exact I. Qed.

Lemma nth_combine_seq {A} (l : list A) : forall n i k, In (i, k) (combine (seq n (List.length l)) l) -> forall d, nth (i - n) l d = k /\ (n <= i < n + List.length l)%nat.
Proof.
  induction l as [|a l IH]; intros n i k I d; simpl in I; [contradiction|]. destruct I as [I|I].
  - inversion I; subst. rewrite Nat.sub_diag. simpl. split; [reflexivity|lia].
  - destruct (IH (S n) i k I d) as [E R]. simpl. split; [|lia]. replace (i - n)%nat with (S (i - S n)) by lia. exact E.
Qed.

Lemma px_project_refines q ops gb t u :
  width_ok t -> (forall g, In g gb -> In g (cols t)) -> (forall ke, In ke ops -> agg_ok (cols t) (snd ke)) ->
  (ops <> [] \/ gb <> []) ->      (* a node has at least one column (ViewRepresentation.__init__) *)
  px_project q ops gb t = Some u -> refines u (sem_project fl_pandas ops gb t) /\ width_ok u.
Proof.
  intros Wt Ngb Ok NE. unfold px_project.
  set (names0 := set_union (cols t) (map fst ops)). set (T := unused_column_name base_project_temp names0).
  destruct (fold_left _ ops (Some (mkps [] (names0 ++ [T]) t))) as [st|] eqn:Ef; cbn [obind]; [|discriminate].
  destruct (project_prepared ops t Wt st Ef) as [E [CT CC]]. fold names0 T in E, CT, CC.
  destruct (T_fresh ops t) as [Tc Tk]. fold names0 T in Tc, Tk. clearbody T. clearbody names0.
  set (res2 := pd_set_scalar T vone (ps_res st)) in *.
  set (rk := map (key_of (cols t) gb) (rows t)).
  assert ((match gb with [] => Some None | _ :: _ => option_map Some (pd_row_keys gb res2) end)
          = Some (match gb with [] => None | _ => Some rk end)) as ->.
  { destruct gb as [|g0 gb0]; [reflexivity|]. unfold pd_row_keys.
    replace (subset (g0 :: gb0) (cols res2)) with true by (symmetry; apply subset_spec; intros x I; apply E, Ngb, I).
    cbn [option_map]. rewrite (extends_keys _ _ _ E Ngb). reflexivity. }
  cbn [obind]. set (rkeys := match gb with [] => None | _ => Some rk end).
  assert (rkeys = None \/ rkeys = Some (map (key_of (cols t) gb) (rows t))) as Rk by (unfold rkeys; destruct gb; [left|right]; reflexivity).
  (* the values of the outputs *)
  set (X := fun e : expr => match rkeys with
                            | None => CScalar (agg_value fl_pandas (cols t) (rows t) e)
                            | Some rk0 => CGrouped (mkgs (pd_group_keys rk0) (agg_groups t gb e (pd_group_keys rk0)))
                            end).
  assert (forall cols', (match ops with
                         | [] => vals <- pd_col T res2 ;; x <- agg_on rkeys vals "sum" ;; Some [(T, x)]
                         | _ :: _ => all_some (map (pagg rkeys (ps_temps st) T res2) ops)
                         end) = Some cols' ->
          match ops with [] => exists x, cols' = [(T, x)] /\ agg_on rkeys (map (fun _ => vone) (rows t)) "sum" = Some x
                    | _ => cols' = map (fun ke => (fst ke, X (snd ke))) ops end) as Hc.
  { intros cols'. destruct ops as [|op0 ops0] eqn:Eo.
    - destruct (pd_col T res2) as [vals|] eqn:Ec; cbn [obind]; [|discriminate]. apply pd_col_inv in Ec. destruct Ec as [-> _].
      rewrite (const_col_getcol _ _ _ CT), (map_const_len vone (rows res2) (rows t) (extends_rows_len _ _ E)).
      destruct (agg_on rkeys _ "sum") as [x|] eqn:Ea; cbn [obind]; [|discriminate]. intros H. inversion H; subst. exists x. split; reflexivity.
    - rewrite <- Eo in *. intros H. apply all_some_Forall2 in H. apply Forall2_map_fun.
      assert (forall ke, In ke ops -> forall y, pagg rkeys (ps_temps st) T res2 ke = Some y -> y = (fst ke, X (snd ke))) as P.
      { intros ke I [k x] Hp. destruct (pagg_spec t gb res2 (ps_temps st) T rkeys ke k x E CT CC (Ok ke I) Rk Hp) as [-> ->]. reflexivity. }
      clear -H P. induction H as [|ke y l r Hy F IH]; constructor; [apply P; [left; reflexivity|exact Hy]|].
      apply IH. intros ke' I. apply P. right. exact I. }
  destruct (match ops with [] => _ | _ :: _ => _ end) as [cols'|] eqn:Ecols; cbn [obind]; [|discriminate].
  specialize (Hc cols' eq_refl).
  destruct (list_eq_dec string_dec gb []) as [Egb|Ngb0].
  - (* ---- no grouping: one row *)
    subst gb. subst X. subst rkeys. cbv beta iota in Hc. cbn [List.length Nat.ltb Nat.leb orb].
    assert (exists kvs : list (string * val), kvs <> [] /\ cols' = map (fun kv => (fst kv, CScalar (snd kv))) kvs /\
              (ops <> [] -> kvs = map (fun ke => (fst ke, agg_value fl_pandas (cols t) (rows t) (snd ke))) ops) /\
              (ops = [] -> map fst kvs = [T])) as [kvs [Nk [-> [Ko Kn]]]].
    { destruct ops as [|op0 ops0] eqn:Eo.
      - destruct Hc as [x [-> Ha]]. cbn [agg_on] in Ha. destruct (pd_series_agg "sum" _) as [s|]; [|discriminate]. inversion Ha; subst.
        exists [(T, s)]. split; [discriminate|]. split; [reflexivity|]. split; [congruence|reflexivity].
      - rewrite <- Eo in *. exists (map (fun ke => (fst ke, agg_value fl_pandas (cols t) (rows t) (snd ke))) ops).
        split; [rewrite Eo; discriminate|]. split; [rewrite Hc, map_map; reflexivity|]. split; [reflexivity|]. intros C. rewrite Eo in C. discriminate. }
    rewrite (ctf_scalars kvs Nk). cbn [obind xf_tab xf_index nrows rows List.length]. cbn [Nat.ltb Nat.leb orb].
    cbn [py_set fold_left set_diff filter List.length Nat.eqb].
    assert (ops <> []) as No by (destruct NE as [C|C]; [exact C|congruence]).
    rewrite (Ko No), map_map. cbn [obind fst cols].
    replace (mem T (map (fun x : string * expr => fst x) ops)) with false by (symmetry; apply mem_false, Tk).
    cbn [obind]. unfold table_is_keyed, nrows. cbn [rows List.length Nat.ltb Nat.leb obind].
    intros H. inversion H; subst. split; [|unfold width_ok; cbn [cols rows]; constructor; [rewrite !map_length; reflexivity|constructor]].
    unfold sem_project. cbn [app map]. rewrite filter_all_rows, !map_map. cbn [snd]. apply refines_refl.
  - (* ---- grouped *)
    assert (forall (A : Type) (a b : A), match gb with [] => a | _ :: _ => b end = b) as Mgb by (intros; destruct gb; [congruence|reflexivity]).
    subst X. subst rkeys. cbv beta in Hc. rewrite (Mgb _ None (Some rk)) in *.
    set (gk := pd_group_keys rk) in *.
    assert (exists kvs : list (string * list val), kvs <> [] /\ cols' = map (fun kv => (fst kv, CGrouped (mkgs gk (snd kv)))) kvs /\
              (forall kv, In kv kvs -> List.length (snd kv) = List.length gk) /\
              (ops <> [] -> kvs = map (fun ke => (fst ke, agg_groups t gb (snd ke) gk)) ops) /\
              (ops = [] -> map fst kvs = [T])) as [kvs [Nk [-> [Lk [Ko Kn]]]]].
    { destruct ops as [|op0 ops0] eqn:Eo.
      - destruct Hc as [x [-> Ha]]. cbn [agg_on] in Ha. unfold pd_grouped_agg in Ha. destruct (_ && _); [|discriminate]. cbn [option_map] in Ha.
        inversion Ha; subst. fold gk. eexists [(T, _)]. split; [discriminate|]. split; [reflexivity|]. split; [|split; [congruence|reflexivity]].
        intros kv [<-|[]]. cbn [snd]. apply map_length.
      - rewrite <- Eo in *. exists (map (fun ke => (fst ke, agg_groups t gb (snd ke) gk)) ops).
        split; [rewrite Eo; discriminate|]. split; [rewrite Hc, map_map; reflexivity|]. split; [|split; [reflexivity|intros C; rewrite Eo in C; discriminate]].
        intros kv I. apply in_map_iff in I. destruct I as [ke [<- _]]. cbn [snd]. unfold agg_groups. apply map_length. }
    rewrite (ctf_grouped gk kvs Nk Lk). cbn [obind].
    replace (Nat.ltb (List.length gb) 1) with false by (destruct gb; [congruence|reflexivity]). cbn [orb].
    destruct (Nat.eqb (List.length gk) 0) eqn:Em.
    + (* no group at all: the input has no rows *)
      apply Nat.eqb_eq, length_zero_nil in Em.
      cbn [xf_tab xf_index nrows rows pd_empty_frame List.length Nat.leb Nat.ltb obind cols].
      rewrite fold_set_empty_cols by reflexivity. unfold pd_empty_frame. cbn [obind cols].
      set (cs3 := fold_left add_end (set_diff (py_set gb) (map fst kvs)) (map fst kvs)).
      assert (same_set (remove_elem T cs3) (gb ++ map fst ops) /\ (mem T cs3 = false -> same_set cs3 (gb ++ map fst ops))) as [S1 S2].
      { assert (forall x, In x cs3 <-> In x gb \/ In x (map fst kvs)) as I3.
        { intros x. unfold cs3. rewrite In_fold_add_end, In_set_diff, In_py_set. destruct (in_dec string_dec x (map fst kvs)); tauto. }
        destruct ops as [|op0 ops0] eqn:Eo.
        - rewrite (Kn eq_refl) in I3. split.
          + intros x. rewrite In_remove_elem, I3, in_app_iff. cbn [In map]. split; [intros [[I|[<-|[]]] N]; [left; exact I|congruence]|].
            intros [I|[]]. split; [left; exact I|]. intros ->. apply Tc, Ngb, I.
          + intros M. exfalso. apply mem_false in M. apply M, I3. right. left. reflexivity.
        - rewrite <- Eo in *. rewrite (Ko ltac:(rewrite Eo; discriminate)), map_map in I3. cbn [fst] in I3. split.
          + intros x. rewrite In_remove_elem, I3, in_app_iff. split; [intros [[I|I] _]; [left; exact I|right; exact I]|].
            intros I. split; [destruct I as [I|I]; [left; exact I|right; exact I]|]. intros ->. destruct I as [I|I]; [apply Tc, Ngb, I|apply Tk, I].
          + intros _ x. rewrite I3, in_app_iff. split; intros [I|I]; [left; exact I|right; exact I|left; exact I|right; exact I]. }
      assert (rows (sem_project fl_pandas ops gb t) = []) as Rs.
      { unfold sem_project. cbn [rows]. rewrite (Mgb _ [[]]). fold rk.
        assert (distinct_keys rk = []) as ->; [|reflexivity].
        apply Permutation_nil. rewrite <- Em. apply group_keys_perm. }
      destruct (mem T cs3) eqn:MT.
      * unfold pd_del. cbn [cols]. rewrite MT. cbn [obind sem_select_cols cols rows map]. unfold table_is_keyed, nrows. cbn [rows List.length Nat.ltb Nat.leb obind].
        intros H. inversion H; subst. split; [|unfold width_ok; cbn [rows]; constructor].
        apply refines_of_eqv. split; cbn [cols rows]; [exact S1|]. rewrite Rs. constructor.
      * cbn [obind]. unfold table_is_keyed, nrows. cbn [rows List.length Nat.ltb Nat.leb obind].
        intros H. inversion H; subst. split; [|unfold width_ok; cbn [rows]; constructor].
        apply refines_of_eqv. split; cbn [cols rows]; [apply S2; reflexivity|]. rewrite Rs. constructor.
    + (* one row per group, in sorted key order *)
      cbn [xf_tab xf_index]. unfold nrows at 1. cbn [rows]. rewrite transpose_rows at 1. rewrite map_length, seq_length.
      replace (Nat.leb (List.length gk) 0) with false by (symmetry; apply Nat.leb_gt; apply Nat.eqb_neq in Em; lia).
      unfold pd_reset_index_insert. destruct (_ && _ && _) eqn:Chk; cbn [obind]; [|discriminate].
      cbn [cols rows]. unfold nrows at 1. cbn [rows].
      rewrite (transpose_row_app gk (map snd kvs)) by (intros vs I; apply in_map_iff in I; destruct I as [kv [<- I]]; apply Lk, I).
      rewrite map_length, combine_length, seq_length, Nat.min_id.
      replace (Nat.ltb 0 (List.length gk)) with true by (symmetry; apply Nat.ltb_lt; apply Nat.eqb_neq in Em; lia).
      rewrite set_diff_self_app. cbn [List.length Nat.eqb obind].
      assert (forall k, In k gk -> List.length k = List.length gb) as Lgk.
      { intros k I. apply (Permutation_in _ (group_keys_perm rk)) in I. apply distinct_keys_sound in I.
        unfold rk in I. apply in_map_iff in I. destruct I as [r [<- _]]. apply key_of_length. }
      assert (forall (res : table), (keyed <- table_is_keyed q gb res ;; (if keyed then Some res else None)) = Some u -> u = res) as Kd.
      { intros res H. destruct (table_is_keyed q gb res) as [[|]|]; cbn [obind] in H; inversion H. reflexivity. }
      destruct ops as [|op0 ops0] eqn:Eo.
      * (* no outputs: the scratch column carries the group sums and is dropped *)
        set (semrow := fun k : list val => k ++ map (fun ke : string * expr =>
                       agg_value fl_pandas (cols t) (filter (fun r => keys_eqv k (key_of (cols t) gb r)) (rows t)) (snd ke)) (@nil (string * expr))).
        assert (Permutation (map semrow gk) (rows (sem_project fl_pandas [] gb t))) as Pm.
        { unfold sem_project. cbn [rows]. rewrite (Mgb _ [[]]). fold rk. apply Permutation_map, group_keys_perm. }
        pose proof (Kn eq_refl) as K1. destruct kvs as [|[k1 v1] [|kv2 kvs2]]; try discriminate. cbn [map fst] in K1. inversion K1; subst k1.
        cbn [cols map snd]. replace (mem T (gb ++ [T])) with true by (symmetry; apply mem_In, in_app_iff; right; left; reflexivity).
        unfold pd_del. cbn [cols]. replace (mem T (gb ++ [T])) with true by (symmetry; apply mem_In, in_app_iff; right; left; reflexivity).
        cbn [obind]. intros H. apply Kd in H. subst u. split; [|apply width_select_cols].
        exists (mktable gb (map semrow gk)). split; [|split; [unfold sem_project; cbn [cols map]; rewrite app_nil_r; reflexivity|exact Pm]].
        split; cbn [cols rows sem_select_cols].
        -- intros x. rewrite In_remove_elem, in_app_iff. cbn [In]. split; [intros [[I|[E1|[]]] N]; [exact I|exfalso; apply N; symmetry; exact E1]|].
           intros I. split; [left; exact I|]. intros ->. apply Tc, Ngb, I.
        -- rewrite map_map. rewrite <- (map_snd_combine (seq 0 (List.length gk)) gk) at 3 by apply seq_length. rewrite map_map.
           apply Forall2_map_same. intros [i k] I c. cbn [fst snd]. unfold semrow. cbn [map]. rewrite app_nil_r.
           rewrite get_map_cols. rewrite mem_remove_elem.
           assert (List.length k = List.length gb) as Lk' by (apply Lgk; eapply in_combine_r; exact I).
           destruct (mem c (gb ++ [T])) eqn:M1; cbn [andb].
           ++ unfold eqb. destruct (eq_dec T c) as [<-|n]; cbn [negb].
              ** symmetry. apply get_absent. intros IT. apply Tc, Ngb, IT.
              ** apply mem_In, in_app_iff in M1. destruct M1 as [M1|[M1|[]]]; [|congruence]. apply get_app_l; assumption.
           ++ symmetry. apply get_absent. intros IT. apply mem_false in M1. apply M1, in_app_iff. left. exact IT.
      * rewrite <- Eo in *.
        set (semrow := fun k : list val => k ++ map (fun ke : string * expr =>
                       agg_value fl_pandas (cols t) (filter (fun r => keys_eqv k (key_of (cols t) gb r)) (rows t)) (snd ke)) ops).
        assert (Permutation (map semrow gk) (rows (sem_project fl_pandas ops gb t))) as Pm.
        { unfold sem_project. cbn [rows]. rewrite (Mgb _ [[]]). fold rk. apply Permutation_map, group_keys_perm. }
        assert (ops <> []) as No by (rewrite Eo; discriminate). rewrite (Ko No). rewrite !map_map. cbn [fst snd cols].
        replace (mem T (gb ++ map (fun x : string * expr => fst x) ops)) with false.
        2:{ symmetry. apply mem_false. intros I. apply in_app_iff in I. destruct I as [I|I]; [apply Tc, Ngb, I|apply Tk, I]. }
        cbn [obind]. intros H. apply Kd in H. subst u.
        assert (map (fun ik : nat * list val => snd ik ++ map (fun vs : list val => nth (fst ik) vs VNull)
                                                               (map (fun x : string * expr => agg_groups t gb (snd x) gk) ops))
                    (combine (seq 0 (List.length gk)) gk) = map semrow gk) as ->.
        { rewrite <- (map_snd_combine (seq 0 (List.length gk)) gk) at 3 by apply seq_length. rewrite map_map.
          apply map_ext_in. intros [i k] I. cbn [fst snd]. unfold semrow. f_equal. rewrite map_map. apply map_ext. intros ke.
          destruct (nth_combine_seq gk 0 i k I []) as [Ek Ri]. rewrite Nat.sub_0_r in Ek. unfold agg_groups.
          rewrite (nth_indep _ VNull (agg_value fl_pandas (cols t) (filter (fun r => keys_eqv [] (key_of (cols t) gb r)) (rows t)) (snd ke))) by (rewrite map_length; lia).
          rewrite (map_nth (fun key => agg_value fl_pandas (cols t) (filter (fun r => keys_eqv key (key_of (cols t) gb r)) (rows t)) (snd ke)) gk []).
          rewrite Ek. reflexivity. }
        split.
        -- apply refines_of_perm; [reflexivity|exact Pm].
        -- unfold width_ok. cbn [cols rows]. apply Forall_forall. intros r I. apply in_map_iff in I. destruct I as [k [<- Ik]].
           unfold semrow. rewrite !app_length, !map_length, (Lgk k Ik). reflexivity.
Qed.
