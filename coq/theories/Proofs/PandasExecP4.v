(* PEXEC, part 4: _project_step (scratch column of ones, constant stand-in columns, groupby(dropna=False) + agg, reset_index,
   missing group columns on empty input, the closing keyed check) refines sem_project: same columns, and the rows of the
   reference semantics in SORTED key order (pandas sorts the groups; the reference semantics lists them by first occurrence).
   All statements proved. *)
From Coq Require Import List Bool Arith ZArith QArith String Ascii Lia Permutation Sorted.
Import ListNotations.
From DA Require Import Base.PyRT Base.Val Model.Sem Model.PdPrim Model.PandasExec
  Proofs.SemBasicP Proofs.SemOrderP Proofs.ComposeP5 Proofs.PandasExecP1 Proofs.PandasExecP2 Proofs.PandasExecP3.
Local Open Scope string_scope.
Local Open Scope list_scope.

(* ------------------------------------------------------------------ frames that carry extra (scratch) columns *)
(* t2 is t with more columns: same number of rows, every cell of t readable under its name *)
Definition extends_by (t t2 : table) : Prop :=
  width_ok t2 /\ (forall c, In c (cols t) -> In c (cols t2)) /\
  Forall2 (fun r2 r => forall c, In c (cols t) -> get (cols t2) r2 c = get (cols t) r c) (rows t2) (rows t).

Lemma extends_refl t : width_ok t -> extends_by t t.
Proof. intros W. split; [exact W|]. split; [auto|]. apply Forall2_refl. intros r c _. reflexivity. Qed.

Lemma extends_set_scalar t t2 name v : extends_by t t2 -> ~ In name (cols t) -> extends_by t (pd_set_scalar name v t2).
Proof.
  intros [W [I F]] N. split; [apply width_set_scalar, W|]. split.
  - intros c Ic. unfold pd_set_scalar. cbn [cols]. apply In_add_end. left. apply I, Ic.
  - eapply Forall2_trans; [|apply (set_scalar_row_eqv name v t2 W)|exact F].
    intros a b c Hab Hbc x Ix. cbn [cols pd_set_scalar]. rewrite (Hab x). destruct (eq_dec x name) as [->|ne]; [contradiction|]. apply Hbc, Ix.
Qed.

Lemma extends_rows_len t t2 : extends_by t t2 -> List.length (rows t2) = List.length (rows t).
Proof. intros [_ [_ F]]. apply (Forall2_len _ _ _ F). Qed.

Lemma extends_getcol t t2 c : extends_by t t2 -> In c (cols t) -> getcol t2 c = getcol t c.
Proof. intros [_ [_ F]] I. unfold getcol. eapply Forall2_map_eq; [exact F|]. intros a b H. apply H, I. Qed.

Lemma extends_keys t t2 ks : extends_by t t2 -> (forall c, In c ks -> In c (cols t)) ->
  map (key_of (cols t2) ks) (rows t2) = map (key_of (cols t) ks) (rows t).
Proof.
  intros [_ [_ F]] S. eapply Forall2_map_eq; [exact F|]. intros a b H. unfold key_of. apply map_ext_in. intros c Ic. apply H, S, Ic.
Qed.

(* a column holding one constant *)
Definition const_col (t2 : table) (name : string) (v : val) : Prop :=
  In name (cols t2) /\ Forall (fun r2 => get (cols t2) r2 name = v) (rows t2).

Lemma const_col_set_scalar t2 name v : width_ok t2 -> const_col (pd_set_scalar name v t2) name v.
Proof.
  intros W. split; [unfold pd_set_scalar; cbn [cols]; apply In_add_end; right; reflexivity|].
  pose proof (set_scalar_row_eqv name v t2 W) as F. cbn [cols pd_set_scalar] in *.
  revert F. generalize (rows (pd_set_scalar name v t2)). generalize (rows t2). intros l l' F.
  induction F as [|a b l' l H F IH]; constructor; [|exact IH]. rewrite (H name). destruct (eq_dec name name); [reflexivity|congruence].
Qed.
Lemma const_col_keep t2 name v name' v' : width_ok t2 -> name <> name' -> const_col t2 name v -> const_col (pd_set_scalar name' v' t2) name v.
Proof.
  intros W Ne [I F]. split; [unfold pd_set_scalar; cbn [cols]; apply In_add_end; left; exact I|].
  pose proof (set_scalar_row_eqv name' v' t2 W) as G. cbn [cols pd_set_scalar] in *.
  revert G F. generalize (rows (pd_set_scalar name' v' t2)). generalize (rows t2). intros l l' G.
  induction G as [|a b l' l H G IH]; intros F; constructor.
  - rewrite (H name). destruct (eq_dec name name'); [congruence|]. inversion F; assumption.
  - apply IH. inversion F; assumption.
Qed.
Lemma const_col_getcol t2 name v : const_col t2 name v -> getcol t2 name = map (fun _ => v) (rows t2).
Proof. intros [_ F]. unfold getcol. apply map_ext_in. intros r I. rewrite Forall_forall in F. apply F, I. Qed.

(* ------------------------------------------------------------------ the collection loop of _project_step *)
Definition pinv (base : list string) (t : table) (st : pstate) : Prop :=
  extends_by t (ps_res st) /\ (forall c, In c (cols (ps_res st)) -> In c (ps_names st)) /\
  (forall v name, In (v, name) (ps_temps st) -> const_col (ps_res st) name v /\ ~ In name (cols t) /\ ~ In name base) /\
  (forall c, In c base -> In c (ps_names st)) /\
  (forall c, In c (cols (ps_res st)) -> In c (cols t) \/ exists v, In (v, c) (ps_temps st)).

Lemma const_lookup_In v d name : const_lookup v d = Some name -> In (v, name) d.
Proof.
  induction d as [|[v' n] d IH]; simpl; [discriminate|]. destruct (eq_dec v v') as [->|ne]; intros H.
  - inversion H; subst. left. reflexivity.
  - right. apply IH, H.
Qed.

Lemma pcollect_inv base t st ke st' : pinv base t st -> (forall c, In c (cols t) -> In c (ps_names st)) ->
  pcollect st ke = Some st' -> pinv base t st' /\ (forall c, In c (ps_names st) -> In c (ps_names st')).
Proof.
  intros [E [Nm [Tm [Bs Cs]]]] Nt. unfold pcollect. destruct (agg_shape (snd ke)) as [[fn [[c|v]|]]|]; try discriminate;
    try (intros H; inversion H; subst; split; [split; [exact E|split; [exact Nm|split; [exact Tm|split; [exact Bs|exact Cs]]]]|auto]).
  destruct (const_lookup v (ps_temps st)) eqn:L; intros H; inversion H; subst; clear H;
    [split; [split; [exact E|split; [exact Nm|split; [exact Tm|split; [exact Bs|exact Cs]]]]|auto]|].
  set (name := unused_column_name (sapp base_project_const (dec (List.length (ps_temps st)))) (ps_names st)).
  pose proof (unused_column_name_fresh (sapp base_project_const (dec (List.length (ps_temps st)))) (ps_names st)) as Fr. fold name in Fr.
  assert (~ In name (cols t)) as N1 by (intros I; apply Fr, Nt, I).
  assert (~ In name (cols (ps_res st))) as N2 by (intros I; apply Fr, Nm, I).
  destruct E as [W [I F]]. split; [|intros c Ic; cbn [ps_names]; apply in_app_iff; left; exact Ic].
  split; [apply extends_set_scalar; [split; [exact W|split; assumption]|exact N1]|]. cbn [ps_res ps_names ps_temps]. split; [|split; [|split]].
  - intros c Ic. unfold pd_set_scalar in Ic. cbn [cols] in Ic. apply In_add_end in Ic. apply in_app_iff.
    destruct Ic as [Ic| ->]; [left; apply Nm, Ic|right; left; reflexivity].
  - intros v0 n0 I0. apply in_app_iff in I0. destruct I0 as [I0|[I0|[]]].
    + destruct (Tm _ _ I0) as [Cc [Nn Nb]]. split; [|split; assumption]. apply const_col_keep; [exact W| |exact Cc].
      intros ->. destruct Cc as [Ic _]. contradiction.
    + inversion I0; subst. split; [apply const_col_set_scalar, W|]. split; [exact N1|]. intros Ib. apply Fr, Bs, Ib.
  - intros c Ic. apply in_app_iff. left. apply Bs, Ic.
  - intros c Ic. unfold pd_set_scalar in Ic. cbn [cols] in Ic. apply In_add_end in Ic. destruct Ic as [Ic| ->].
    + destruct (Cs c Ic) as [Ict|[v0 Iv]]; [left; exact Ict|right; exists v0; apply in_app_iff; left; exact Iv].
    + right. exists v. apply in_app_iff. right. left. reflexivity.
Qed.

Lemma pcollect_fold base t ops : forall st st', pinv base t st -> (forall c, In c (cols t) -> In c (ps_names st)) ->
  fold_left (fun acc ke => s <- acc ;; pcollect s ke) ops (Some st) = Some st' ->
  pinv base t st' /\ (forall c, In c (ps_names st) -> In c (ps_names st')).
Proof.
  induction ops as [|ke ops IH]; intros st st' Iv Nt H; simpl in H.
  - inversion H; subst. split; [exact Iv|auto].
  - destruct (pcollect st ke) as [st1|] eqn:E.
    + destruct (pcollect_inv _ _ _ _ _ Iv Nt E) as [Iv1 Inc]. cbn [obind] in H.
      destruct (IH _ _ Iv1 (fun c I => Inc c (Nt c I)) H) as [Iv' Inc']. split; [exact Iv'|]. intros c I. apply Inc', Inc, I.
    + cbn [obind] in H. exfalso. clear -H. induction ops as [|k o IHo]; simpl in H; [discriminate|apply IHo, H].
Qed.

(* ------------------------------------------------------------------ one aggregate *)
(* what the builders guarantee about a project (Model-level guard, see wf_op in Props/PEXEC.v):
   an argument column exists; the only zero-argument aggregate is _size() *)
Definition agg_ok (cs : list string) (e : expr) : Prop :=
  match agg_shape e with
  | Some (fn, Some (WCol c)) => In c cs
  | Some (fn, Some (WConst _)) => True
  | Some (fn, None) => fn = "_size"
  | None => True
  end.

Lemma filter_combine_keys {R} (K : R -> list val) (V : R -> val) (k : list val) (rs : list R) :
  map snd (filter (fun kv => keys_eqv k (fst kv)) (combine (map K rs) (map V rs))) = map V (filter (fun r => keys_eqv k (K r)) rs).
Proof. induction rs as [|r rs IH]; simpl; [reflexivity|]. destruct (keys_eqv k (K r)); simpl; rewrite IH; reflexivity. Qed.

Lemma agg_names_map fn : mem (transform_op_map fn) agg_names = true -> transform_op_map fn = fn.
Proof. unfold transform_op_map. destruct (String.eqb fn "any_value") eqn:E; [discriminate|reflexivity]. Qed.

(* the values an aggregate ranges over, per row of the ORIGINAL frame *)
Definition agg_arg (cs : list string) (e : expr) (r : list val) : val :=
  match agg_parts e with Some (_, Some a) => eval_expr fl_pandas cs r a | _ => VBool true end.

Lemma agg_value_arg cs grp e fn arg : agg_parts e = Some (fn, arg) -> agg_value fl_pandas cs grp e = agg_fn fl_pandas fn (map (agg_arg cs e) grp).
Proof. intros H. unfold agg_value, agg_arg. rewrite H. destruct arg; reflexivity. Qed.

Lemma agg_size_ones (l : list (list val)) : agg_fn fl_pandas "size" (map (fun _ => vone) l) = agg_fn fl_pandas "_size" (map (fun _ => VBool true) l).
Proof. destruct l; simpl; [reflexivity|]. rewrite !map_length. reflexivity. Qed.

Lemma map_const_len {A B C} (v : C) (l : list A) (m : list B) : List.length l = List.length m -> map (fun _ => v) l = map (fun _ => v) m.
Proof. revert m. induction l as [|a l IH]; intros [|b m] L; simpl in *; try discriminate; [reflexivity|]. f_equal. apply IH. lia. Qed.

(* the column an aggregate reads, as a function of the ORIGINAL rows; and the aggregate name after the name mapping *)
Lemma pagg_vals t res2 temps T e fn arg :
  extends_by t res2 -> const_col res2 T vone -> (forall v name, In (v, name) temps -> const_col res2 name v) ->
  agg_shape e = Some (fn, arg) -> agg_ok (cols t) e ->
  forall vals fn',
    (match arg with
     | Some (WCol c) => vs <- pd_col c res2 ;; Some (vs, transform_op_map fn)
     | Some (WConst v) => name <- const_lookup v temps ;; vs <- pd_col name res2 ;; Some (vs, transform_op_map fn)
     | None => z <- strip_underscore fn ;; vs <- pd_col T res2 ;; Some (vs, transform_op_map z)
     end) = Some (vals, fn') ->
    exists V, vals = map V (rows t) /\
              (mem fn' agg_names = true -> forall grp, agg_fn fl_pandas fn' (map V grp) = agg_value fl_pandas (cols t) grp e).
Proof.
  intros E CT CC Sh Ok vals fn' H. unfold agg_ok in Ok. rewrite Sh in Ok.
  destruct e as [c0|v0|o args]; [discriminate Sh|discriminate Sh|].
  destruct args as [|a [|b rest]]; [| |destruct a; discriminate Sh].
  - (* fn() *)
    inversion Sh; subst fn arg. subst o. cbn [strip_underscore] in H. cbn in H.
    destruct (pd_col T res2) as [vs|] eqn:Ec; cbn [obind] in H; [|discriminate]. inversion H; subst vals fn'. clear H.
    apply pd_col_inv in Ec. destruct Ec as [-> _]. rewrite (const_col_getcol _ _ _ CT).
    exists (fun _ => vone). split; [apply map_const_len, extends_rows_len, E|].
    intros _ grp. unfold agg_value. cbn [agg_parts]. apply agg_size_ones.
  - destruct a as [c|v|o' args']; [| |discriminate Sh]; inversion Sh; subst fn arg.
    + (* fn(column) *)
      destruct (pd_col c res2) as [vs|] eqn:Ec; cbn [obind] in H; [|discriminate]. inversion H; subst vals fn'. clear H.
      apply pd_col_inv in Ec. destruct Ec as [-> _]. rewrite (extends_getcol _ _ _ E Ok).
      exists (fun r => get (cols t) r c). split; [reflexivity|]. intros M grp. rewrite (agg_names_map _ M). reflexivity.
    + (* fn(constant) *)
      destruct (const_lookup v temps) as [name|] eqn:El; cbn [obind] in H; [|discriminate].
      destruct (pd_col name res2) as [vs|] eqn:Ec; cbn [obind] in H; [|discriminate]. inversion H; subst vals fn'. clear H.
      apply pd_col_inv in Ec. destruct Ec as [-> _]. rewrite (const_col_getcol _ _ _ (CC _ _ (const_lookup_In _ _ _ El))).
      exists (fun _ => v). split; [apply map_const_len, extends_rows_len, E|]. intros M grp. rewrite (agg_names_map _ M). reflexivity.
Qed.

Lemma agg_shape_fst e fn arg : agg_shape e = Some (fn, arg) -> True.
Proof. trivial. Qed.

(* pagg: the value handed to columns_to_frame_ for one output *)
Definition agg_groups (t : table) (gb : list string) (e : expr) (gk : list (list val)) : list val :=
  map (fun key => agg_value fl_pandas (cols t) (filter (fun r => keys_eqv key (key_of (cols t) gb r)) (rows t)) e) gk.

Lemma pagg_spec t gb res2 temps T rkeys ke k x :
  extends_by t res2 -> const_col res2 T vone -> (forall v name, In (v, name) temps -> const_col res2 name v) ->
  agg_ok (cols t) (snd ke) ->
  (rkeys = None \/ rkeys = Some (map (key_of (cols t) gb) (rows t))) ->
  pagg rkeys temps T res2 ke = Some (k, x) ->
  k = fst ke /\
  x = match rkeys with
      | None => CScalar (agg_value fl_pandas (cols t) (rows t) (snd ke))
      | Some rk => CGrouped (mkgs (pd_group_keys rk) (agg_groups t gb (snd ke) (pd_group_keys rk)))
      end.
Proof.
  intros E CT CC Ok Rk. unfold pagg. destruct (agg_shape (snd ke)) as [[fn arg]|] eqn:Sh; [|discriminate].
  pose proof (pagg_vals t res2 temps T (snd ke) fn arg E CT CC Sh Ok) as PV.
  assert (forall vals fn', agg_on rkeys vals fn' = Some x -> (exists V, vals = map V (rows t) /\
             (mem fn' agg_names = true -> forall grp, agg_fn fl_pandas fn' (map V grp) = agg_value fl_pandas (cols t) grp (snd ke))) ->
          x = match rkeys with
              | None => CScalar (agg_value fl_pandas (cols t) (rows t) (snd ke))
              | Some rk => CGrouped (mkgs (pd_group_keys rk) (agg_groups t gb (snd ke) (pd_group_keys rk)))
              end) as Fin.
  { intros vals fn' Ha [V [-> HV]]. destruct Rk as [->| ->]; cbn [agg_on] in Ha.
    - unfold pd_series_agg in Ha. destruct (mem fn' agg_names) eqn:M; [|discriminate]. inversion Ha. f_equal. apply HV. reflexivity.
    - unfold pd_grouped_agg in Ha. rewrite !map_length, Nat.eqb_refl in Ha. destruct (mem fn' agg_names) eqn:M; [|discriminate].
      cbn [andb option_map] in Ha. inversion Ha. f_equal. f_equal. unfold agg_groups. apply map_ext. intros key.
      rewrite filter_combine_keys. apply HV. reflexivity. }
  destruct arg as [[c|v]|].
  - destruct (pd_col c res2) as [vals|] eqn:Ec; cbn [obind]; [|discriminate].
    destruct (agg_on rkeys vals (transform_op_map fn)) as [x'|] eqn:Ea; cbn [obind]; [|discriminate].
    intros H. inversion H; subst. split; [reflexivity|]. apply (Fin _ _ Ea). apply PV. reflexivity.
  - destruct (const_lookup v temps) as [name|] eqn:El; cbn [obind]; [|discriminate].
    destruct (pd_col name res2) as [vals|] eqn:Ec; cbn [obind]; [|discriminate].
    destruct (agg_on rkeys vals (transform_op_map fn)) as [x'|] eqn:Ea; cbn [obind]; [|discriminate].
    intros H. inversion H; subst. split; [reflexivity|]. apply (Fin _ _ Ea). apply PV. reflexivity.
  - destruct (strip_underscore fn) as [z|] eqn:Ez; cbn [obind]; [|discriminate].
    destruct (pd_col T res2) as [vals|] eqn:Ec; cbn [obind]; [|discriminate].
    destruct (agg_on rkeys vals (transform_op_map z)) as [x'|] eqn:Ea; cbn [obind]; [|discriminate].
    intros H. inversion H; subst. split; [reflexivity|]. apply (Fin _ _ Ea). apply PV. reflexivity.
Qed.
