(* C05 -- the Polars expressions compute the documented value whenever they do not raise *)
From Coq Require Import List Bool ZArith QArith Qround Qabs Qpower String Ascii Lia Lqa.
Import ListNotations.
From DA Require Import Model.Scalar Model.SqlTemplates Model.ScalarBackends Model.ScalarCatalog Model.ScalarIndex Proofs.ScalarP0 Proofs.ScalarP1 Proofs.ScalarP1b Proofs.ScalarP1d.
Local Open Scope string_scope.

Section PL.
Variable mf : string -> Q -> option Q.
Variable mf2 : string -> Q -> Q -> option Q.

(* `None` of pl_eval is "Polars raises": nothing is claimed then *)
Definition documented_pl (m : string) (guard : list sval -> bool) : Prop :=
  forall args r, guard args = true -> spec_method mf mf2 m args = Some r ->
    forall r', pl_eval mf mf2 m args = Some r' -> sv_eqv r' r.

Ltac fin_pl H P :=
  simp; repeat (break_step; simp); try discriminate H; try discriminate P; try congruence;
  try (inversion H; subst; clear H; simp; repeat (break_step; simp); try discriminate P; try congruence;
       try (inversion P; subst; clear P; try done_eqv; try (exfalso; q_lra))).
Ltac pl2case H P args := destruct args as [|x [|y [|z l]]]; [junk H | junk H | destruct x, y; fin_pl H P | junk H].
Ltac pl1case H P args := destruct args as [|x [|y l]]; [junk H | destruct x; fin_pl H P | junk H].

Lemma pl_add : documented_pl "+" anyargs.
Proof. intros args r _ H r' P. change (spec_method mf mf2 "+") with spec_add in H. pl2case H P args. Qed.
Lemma pl_mul : documented_pl "*" anyargs.
Proof. intros args r _ H r' P. change (spec_method mf mf2 "*") with spec_mul in H. pl2case H P args. Qed.
Lemma pl_sub : documented_pl "-" anyargs.
Proof. intros args r _ H r' P. change (spec_method mf mf2 "-") with spec_sub in H.
  destruct args as [|a [|b [|c l]]]; try discriminate H.
  - destruct a; fin_pl H P.
  - destruct a, b; fin_pl H P. Qed.
Lemma pl_div : documented_pl "/" anyargs.
Proof. intros args r _ H r' P. change (spec_method mf mf2 "/") with spec_div in H. pl2case H P args. Qed.
Lemma pl_fdiv : documented_pl "%/%" anyargs.
Proof. intros args r _ H r' P. change (spec_method mf mf2 "%/%") with spec_div in H. pl2case H P args. Qed.
Lemma pl_floordiv : documented_pl "//" anyargs.
Proof. intros args r _ H r' P. change (spec_method mf mf2 "//") with spec_floordiv in H. pl2case H P args. Qed.
Lemma pl_mod m : (m = "%" \/ m = "mod" \/ m = "remainder") -> documented_pl m anyargs.
Proof. intros M args r _ H r' P.
  assert (spec_method mf mf2 m = spec_mod) as S by (destruct M as [->|[->| ->]]; reflexivity). rewrite S in H.
  assert (pl_eval mf mf2 m = pl2 (nanprop2 (finfin (fun p q => if Qeq_bool q 0 then Some XNaN else Some (XFin (qpymod p q)))))) as E
    by (destruct M as [->|[->| ->]]; reflexivity).
  rewrite E in P. clear E S M. arity2 H args.
  destruct a as [ | | |p| | | ], b as [ | | |q| | | ]; cbn in H; try discriminate H; cbn in P;
    try (inversion H; inversion P; subst; done_eqv).
  destruct (Qis_int p) eqn:Ip; [|discriminate H]. destruct (Qis_int q) eqn:Iq; [|discriminate H].
  destruct (Qle_bool 0 p) eqn:Lp; [|discriminate H]. destruct (Qlt_bool 0 q) eqn:Lq; [|discriminate H].
  cbn in H. inversion H; subst; clear H.
  destruct (Qeq_bool q 0) eqn:Z0; [exfalso; q_lra|]. cbn in P. inversion P; subst.
  apply sv_eqv_num. unfold qpymod, qmodZ, qfloor. apply floor_formula_is_mod; assumption. Qed.
Lemma pl_pow : documented_pl "**" anyargs.
Proof. intros args r _ H r' P. change (spec_method mf mf2 "**") with (spec_pow mf2) in H. arity2 H args.
  unfold spec_pow in H.
  destruct a as [ | | |p| | | ], b as [ | | |q| | | ]; cbn in H; try discriminate H.
  all: try solve [fin_pl H P].
  destruct (qpow mf2 p q) as [v|] eqn:E; [|discriminate H]. cbn in H. inversion H; subst.
  cbn in P. rewrite (qpow_defined _ _ _ _ E), E in P. cbn in P. inversion P; subst. apply sv_eqv_refl. Qed.
Lemma pl_cmp_documented m test :
  pl_eval mf mf2 m = pl_cmp test -> spec_method mf mf2 m = spec_cmp test -> documented_pl m anyargs.
Proof. intros E S args r _ H r' P. rewrite S in H. rewrite E in P. arity2 H args. unfold spec_cmp in H. unfold pl_cmp in P.
  destruct (cmp3 a b) as [c|] eqn:C; [|discriminate H]. inversion H; subst; clear H.
  destruct a, b; cbn in C; try discriminate C; rewrite ?C in P; cbn in P; inversion P; subst; apply sv_eqv_refl. Qed.
Lemma pl_and : documented_pl "and" anyargs.
Proof. intros args r _ H r' P. change (spec_method mf mf2 "and") with spec_and in H. arity2 H args.
  destruct a as [ | |x| | | | ], b as [ | |y| | | | ]; try discriminate H. inversion H; subst. destruct x, y; inversion P; subst; reflexivity. Qed.
Lemma pl_or : documented_pl "or" anyargs.
Proof. intros args r _ H r' P. change (spec_method mf mf2 "or") with spec_or in H. arity2 H args.
  destruct a as [ | |x| | | | ], b as [ | |y| | | | ]; try discriminate H. inversion H; subst. destruct x, y; inversion P; subst; reflexivity. Qed.
Lemma pl_abs : documented_pl "abs" anyargs.
Proof. intros args r _ H r' P. change (spec_method mf mf2 "abs") with spec_abs in H. pl1case H P args. Qed.
Lemma pl_sign : documented_pl "sign" anyargs.
Proof. intros args r _ H r' P. change (spec_method mf mf2 "sign") with spec_sign in H. pl1case H P args. Qed.
Lemma pl_floor : documented_pl "floor" anyargs.
Proof. intros args r _ H r' P. change (spec_method mf mf2 "floor") with spec_floor in H. pl1case H P args. Qed.
Lemma pl_ceil : documented_pl "ceil" anyargs.
Proof. intros args r _ H r' P. change (spec_method mf mf2 "ceil") with spec_ceil in H. pl1case H P args. Qed.
Lemma pl_round : documented_pl "round" anyargs.
Proof. intros args r _ H r' P. change (spec_method mf mf2 "round") with spec_round in H. arity1 H args.
  destruct a as [ | | |q| | | ]; cbn in H; try discriminate H; cbn in P; try (inversion H; inversion P; subst; done_eqv).
  destruct (qtie q) eqn:T; [discriminate H|]. inversion H; inversion P; subst.
  rewrite (round_half_even_nearest _ T). apply sv_eqv_refl. Qed.
Lemma pl_around : documented_pl "around" anyargs.
Proof. intros args r _ H r' P. change (spec_method mf mf2 "around") with spec_around in H. arity2 H args.
  destruct b as [ | | |dg| | | ]; try (destruct a; discriminate H). cbn in H. cbn in P.
  destruct (Qnat dg) as [n|] eqn:N; [|discriminate H]. destruct (n <=? 6)%nat; [|discriminate H].
  destruct a as [ | | |q| | | ]; cbn in H; try discriminate H; cbn in P; try (inversion H; inversion P; subst; done_eqv).
  destruct (qtie (q * pow10 (Z.of_nat n))) eqn:T; [discriminate H|]. inversion H; inversion P; subst.
  rewrite (round_half_even_nearest _ T). apply sv_eqv_refl. Qed.
(* null operands are propagated; max_horizontal / min_horizontal still skip a NaN next to a present operand *)
Lemma pl_maximum : documented_pl "maximum" (pl_guard "maximum").
Proof. intros args r G H r' P. change (spec_method mf mf2 "maximum") with spec_maximum in H. arity2 H args.
  destruct a, b; cbn in G; try discriminate G; fin_pl H P. Qed.
Lemma pl_minimum : documented_pl "minimum" (pl_guard "minimum").
Proof. intros args r G H r' P. change (spec_method mf mf2 "minimum") with spec_minimum in H. arity2 H args.
  destruct a, b; cbn in G; try discriminate G; fin_pl H P. Qed.
Lemma pl_fmax : documented_pl "fmax" anyargs.
Proof. intros args r _ H r' P. change (spec_method mf mf2 "fmax") with spec_fmax in H. pl2case H P args. Qed.
Lemma pl_fmin : documented_pl "fmin" anyargs.
Proof. intros args r _ H r' P. change (spec_method mf mf2 "fmin") with spec_fmin in H. pl2case H P args. Qed.
Lemma pl_if_else : documented_pl "if_else" anyargs.
Proof. intros args r _ H r' P. change (spec_method mf mf2 "if_else") with spec_if_else in H. arity3 H args.
  destruct a as [ | |x| | | | ]; try discriminate H; [|destruct x]; inversion H; inversion P; subst; apply sv_eqv_refl. Qed.
Lemma pl_where : documented_pl "where" anyargs.
Proof. intros args r _ H r' P. change (spec_method mf mf2 "where") with spec_where in H. arity3 H args.
  destruct a as [ | |x| | | | ]; try discriminate H; [|destruct x]; inversion H; inversion P; subst; apply sv_eqv_refl. Qed.
Lemma pl_coalesce : documented_pl "coalesce" anyargs.
Proof. intros args r _ H r' P. change (spec_method mf mf2 "coalesce") with spec_coalesce in H. arity2 H args.
  destruct a; cbn in H; try discriminate H; inversion H; inversion P; subst; apply sv_eqv_refl. Qed.
Lemma pl_is_null : documented_pl "is_null" anyargs.
Proof. intros args r _ H r' P. change (spec_method mf mf2 "is_null") with spec_is_null in H. pl1case H P args. Qed.
Lemma pl_is_nan : documented_pl "is_nan" anyargs.
Proof. intros args r _ H r' P. change (spec_method mf mf2 "is_nan") with spec_is_nan in H. pl1case H P args. Qed.
Lemma pl_is_inf : documented_pl "is_inf" anyargs.
Proof. intros args r _ H r' P. change (spec_method mf mf2 "is_inf") with spec_is_inf in H. pl1case H P args. Qed.
Lemma pl_is_bad : documented_pl "is_bad" anyargs.
Proof. intros args r _ H r' P. change (spec_method mf mf2 "is_bad") with spec_is_bad in H. pl1case H P args. Qed.
Lemma pl_is_in : documented_pl "is_in" anyargs.
Proof. intros args r _ H r' P. change (spec_method mf mf2 "is_in") with spec_is_in in H.
  destruct args as [|x elems]; [discriminate H|]. cbn in H. cbn in P. destruct (missing x) eqn:M; [discriminate H|].
  destruct (mem_cmp x elems); [|discriminate H]. cbn in *. destruct x; try discriminate M; inversion H; inversion P; subst; apply sv_eqv_refl. Qed.
Lemma pl_mapv : documented_pl "mapv" anyargs.
Proof. intros args r _ H r' P. change (spec_method mf mf2 "mapv") with spec_mapv in H.
  destruct args as [|x [|dflt kv]]; try discriminate H. cbn in H.
  destruct (Nat.even (List.length kv)); [|discriminate H]. cbn in H.
  change (pl_eval mf mf2 "mapv" (x :: dflt :: kv)) with (pl_when_chain x kv dflt) in P. unfold pl_when_chain in P.
  destruct (missing x); rewrite H in P; inversion P; subst; apply sv_eqv_refl. Qed.
Lemma pl_concat : documented_pl "concat" anyargs.
Proof. intros args r _ H r' P. change (spec_method mf mf2 "concat") with spec_concat in H. arity2 H args.
  destruct a, b; try discriminate H. inversion H; inversion P; subst. apply sv_eqv_refl. Qed.
Lemma pl_trimstr : documented_pl "trimstr" anyargs.
Proof. intros args r _ H r' P. discriminate P. Qed.
Lemma pl_as_str : documented_pl "as_str" anyargs.
Proof. intros args r _ H r' P. change (spec_method mf mf2 "as_str") with spec_as_str in H. arity1 H args.
  destruct a; try discriminate H; inversion H; inversion P; subst; apply sv_eqv_refl. Qed.
Lemma pl_as_int64 : documented_pl "as_int64" anyargs.
Proof. intros args r _ H r' P. change (spec_method mf mf2 "as_int64") with spec_as_int64 in H. arity1 H args.
  destruct a as [ | | |q| | | ]; try discriminate H. cbn in H. destruct (Qis_int q) eqn:I; [|discriminate H].
  inversion H; inversion P; subst. apply sv_eqv_num. apply qtrunc_int. exact I. Qed.
Lemma pl_arctan2 : documented_pl "arctan2" anyargs.
Proof. intros args r _ H r' P. discriminate P. Qed.
Lemma pl_math name : In name math_names -> documented_pl name anyargs.
Proof. intros I args r _ H r' P. simpl in I.
  repeat (destruct I as [<-|I]; [ match type of H with spec_method _ _ ?n _ = _ => change (spec_method mf mf2 n) with (spec_math mf n) in H end;
    destruct args as [|x [|y l]]; [junk H | | junk H];
    try discriminate P;
    destruct x; fin_pl H P;
    try (match goal with H1 : ?t = Some ?a, H0 : ?t = Some ?b |- sv_eqv ?b ?a => rewrite H1 in H0; inversion H0; subst; apply sv_eqv_refl end) | ]).
  destruct I. Qed.
End PL.
