(* C16, part 3: the emulations of Model/JoinEmul.v.
   - a RIGHT join is the mirrored LEFT join (sources exchanged, key lists exchanged WITH them, shared columns coalesced
     second-source-first), up to the arrangement of columns and rows: for every key specification;
   - SQLite's _emit_right_join_as_left_join exchanges the sources but NOT the key lists: right for same-named keys,
     refuted for differently named keys that both tables carry;
   - a FULL join that does not coalesce its key columns (the Polars executor before c106ad7) leaves the keys of right-only
     rows NULL: refuted, right when every right row has a partner. *)
From Coq Require Import List Bool Arith ZArith QArith String Lia Permutation.
Import ListNotations.
From DA Require Import Base.PyRT Base.Val Model.Sem Model.JoinSpec Model.JoinEmul Proofs.SemBasicP Proofs.JoinP1 Proofs.JoinP2.
Local Open Scope list_scope.

(* ---------- list plumbing *)
Lemma flat_map_swap {A B C} (f : A -> B -> list C) la lb :
  Permutation (flat_map (fun x => flat_map (fun y => f x y) lb) la) (flat_map (fun y => flat_map (fun x => f x y) la) lb).
Proof.
  induction la as [|x t IH]; simpl.
  - induction lb as [|y u IHu]; simpl; [constructor|exact IHu].
  - eapply perm_trans; [apply Permutation_app_head, IH|].
    apply (flat_map_app_perm (fun y => f x y) (fun y => flat_map (fun x0 => f x0 y) t) lb).
Qed.

Lemma map_flat_map_comm {A B C} (g : B -> C) (f : A -> list B) l : map g (flat_map f l) = flat_map (fun x => map g (f x)) l.
Proof. induction l as [|x t IH]; simpl; [reflexivity|]. rewrite map_app, IH. reflexivity. Qed.

(* ---------- key matching is symmetric *)
Lemma keys_match_sym nm ka kb : keys_match nm ka kb = keys_match nm kb ka.
Proof.
  unfold keys_match. rewrite (keys_eqv_sym ka kb). destruct (keys_eqv kb ka) eqn:E; [|rewrite !andb_false_r; reflexivity].
  rewrite (keys_eqv_null_free kb ka E). reflexivity.
Qed.

(* ---------- re-reading a row of the mirrored join in the declared column order *)
Lemma In_swapped_cols ca cb c : In c (swapped_cols ca cb) <-> In c ca \/ In c cb.
Proof.
  unfold swapped_cols. rewrite !in_app_iff, !filter_In, !negb_true_iff. split.
  - intros [[H _]|[[H _]|[H _]]]; auto.
  - intros [H|H].
    + destruct (mem c cb) eqn:M; [|right; right; split; [exact H|reflexivity]].
      apply mem_In in M. left. split; [exact M|apply mem_In, H].
    + destruct (mem c ca) eqn:M; [left; split; [exact H|reflexivity]|right; left; split; [exact H|reflexivity]].
Qed.

Lemma mk_sem_coalesce ca cb ra rb :
  mk_sem ca cb ra rb = map (coalesce_cell ca cb ra rb) (out_cols ca cb).
Proof.
  unfold mk_sem, out_cols. apply map_ext. intros c. unfold coalesce_cell. cbv zeta.
  destruct ra as [ra|], rb as [rb|]; try reflexivity;
    destruct (mem c ca) eqn:Ma; destruct (mem c cb) eqn:Mb; rewrite ?(get_absent ca _ c Ma), ?(get_absent cb _ c Mb); reflexivity.
Qed.

Lemma reread_swapped ca cb ra rb :
  map (get (swapped_cols ca cb) (map (coalesce_cell ca cb ra rb) (swapped_cols ca cb))) (out_cols ca cb) = mk_sem ca cb ra rb.
Proof.
  rewrite mk_sem_coalesce. apply map_ext_in. intros c I. apply get_map_self.
  apply In_swapped_cols. apply In_out_cols in I. exact I.
Qed.

(* ---------- RIGHT join = mirrored LEFT join, for every key specification and both matching rules *)
Theorem right_join_is_mirrored_left_join nm on_a on_b a b :
  Permutation (reorder_rows (mirror_left_join nm on_a on_b a b) (out_cols (cols a) (cols b)))
              (rows (sem_join nm on_a on_b JRight a b)).
Proof.
  rewrite sem_join_unfold. cbv zeta. unfold reorder_rows, mirror_left_join. cbn [cols rows]. cbn [app].
  rewrite map_app. apply Permutation_app.
  - rewrite map_flat_map_comm.
    eapply perm_trans; [|apply (flat_map_swap (fun rb ra => if keys_match nm (key_of (cols a) on_a ra) (key_of (cols b) on_b rb)
                                                             then [mk_sem (cols a) (cols b) (Some ra) (Some rb)] else []))].
    rewrite (flat_map_ext_in _ (fun rb => flat_map (fun ra => if keys_match nm (key_of (cols a) on_a ra) (key_of (cols b) on_b rb)
                                                              then [mk_sem (cols a) (cols b) (Some ra) (Some rb)] else []) (rows a)));
      [apply Permutation_refl|].
    intros rb _. rewrite map_flat_map_comm. apply flat_map_ext_in. intros ra _.
    rewrite (keys_match_sym nm (key_of (cols b) on_b rb)). destruct (keys_match nm _ _); [|reflexivity].
    cbn [map]. rewrite reread_swapped. reflexivity.
  - rewrite map_flat_map_comm.
    rewrite (flat_map_ext_in _ (fun rb => if existsb (fun ra => keys_match nm (key_of (cols a) on_a ra) (key_of (cols b) on_b rb)) (rows a)
                                          then [] else [mk_sem (cols a) (cols b) None (Some rb)])); [apply Permutation_refl|].
    intros rb _.
    rewrite (existsb_ext_b _ (fun ra => keys_match nm (key_of (cols a) on_a ra) (key_of (cols b) on_b rb)))
      by (intros ra; apply keys_match_sym).
    destruct (existsb _ _); [reflexivity|]. cbn [map]. rewrite reread_swapped. reflexivity.
Qed.

Lemma mirror_left_join_cols nm on_a on_b a b c :
  In c (cols (mirror_left_join nm on_a on_b a b)) <-> In c (out_cols (cols a) (cols b)).
Proof. unfold mirror_left_join. cbn [cols]. rewrite In_swapped_cols, In_out_cols. reflexivity. Qed.

(* ---------- SQLite: _emit_right_join_as_left_join *)
Lemma sqlite_right_emul_is_right_join on_a on_b a b :
  incl on_a (cols a) -> incl on_b (cols b) ->
  exists t, sqlite_right_emul on_a on_b a b = Some t
            /\ Permutation (reorder_rows t (out_cols (cols a) (cols b))) (rows (sem_join false on_a on_b JRight a b))
            /\ (forall c, In c (cols t) <-> In c (out_cols (cols a) (cols b))).
Proof.
  intros Ha Hb. unfold sqlite_right_emul.
  assert (subset on_a (cols a) = true) as Sa by (apply subset_spec; exact Ha).
  assert (subset on_b (cols b) = true) as Sb by (apply subset_spec; exact Hb).
  rewrite Sa, Sb. cbn [andb]. eexists. split; [reflexivity|]. split.
  - apply right_join_is_mirrored_left_join.
  - intros c. apply mirror_left_join_cols.
Qed.

Local Open Scope string_scope.
(* exchanging the sources WITHOUT exchanging the key lists (ON b.p = a.q instead of a.p = b.q) is not the RIGHT join *)
Definition right_witness_a : table := mktable ["p"; "q"; "x"] [[VNum 1; VNum 7; VNum 10]; [VNum 2; VNum 1; VNum 11]].
Definition right_witness_b : table := mktable ["p"; "q"; "y"] [[VNum 2; VNum 1; VNum 20]; [VNum 5; VNum 3; VNum 21]].
Lemma mirror_without_exchanging_key_lists_refuted :
  exists on_a on_b a b, List.length on_a = List.length on_b /\ incl on_a (cols a) /\ incl on_b (cols b) /\
    ~ Permutation (reorder_rows (mirror_left_join false on_b on_a a b) (out_cols (cols a) (cols b))) (sql_join_rows SRight (combine on_a on_b) a b).
Proof.
  exists ["p"], ["q"], right_witness_a, right_witness_b. split; [reflexivity|].
  split; [intros c [<-|[]]; left; reflexivity|]. split; [intros c [<-|[]]; right; left; reflexivity|].
  intros P. apply (Permutation_in [VNum 2; VNum 1; VNull; VNum 20]) in P.
  - vm_compute in P. destruct P as [P|[P|P]]; try discriminate. exact P.
  - vm_compute. left. reflexivity.
Qed.

(* ---------- a FULL join must coalesce its key columns too *)
(* a full join that keeps the two key columns apart and coalesces only the shared NON-key columns (what the Polars executor
   did before c106ad7): rows found only on the right keep NULL in the key columns *)
Local Close Scope string_scope.
Definition full_join_keys_not_coalesced (J : list string) (a b : table) : table :=
  let ca := cols a in let cb := cols b in
  let out := ca ++ filter (fun c => negb (mem c ca)) cb in
  let hit (ra rb : list val) := keys_match false (key_of ca J ra) (key_of cb J rb) in
  mktable out
    (rows (sem_join false J J JLeft a b)
     ++ flat_map (fun rb => if existsb (fun ra => hit ra rb) (rows a) then []
                            else [map (fun c => if mem c J then VNull else coalesce_cell ca cb None (Some rb) c) out]) (rows b)).

Lemma keys_not_coalesced_ok_when_every_right_row_matches J a b :
  unmatched_right (combine J J) a b = [] ->
  full_join_keys_not_coalesced J a b = sem_join false J J JFull a b.
Proof.
  intros U. unfold full_join_keys_not_coalesced. rewrite (sem_join_unfold false J J JFull a b), (sem_join_unfold false J J JLeft a b). cbv zeta. cbn [rows].
  unfold out_cols. f_equal. rewrite <- !app_assoc. cbn [app]. f_equal. f_equal.
  unfold unmatched_right in U.
  assert (forall rb, In rb (rows b) -> existsb (fun ra => keys_match false (key_of (cols a) J ra) (key_of (cols b) J rb)) (rows a) = true) as E.
  { intros rb I. destruct (existsb _ _) eqn:X; [reflexivity|]. exfalso.
    assert (In rb (filter (fun r2 => negb (existsb (fun r1 => on_holds (cols a) (cols b) (combine J J) r1 r2) (rows a))) (rows b))) as F.
    { apply filter_In. split; [exact I|]. apply negb_true_iff. rewrite <- X. apply existsb_ext_b. intros ra. apply on_holds_keys_match. reflexivity. }
    rewrite U in F. exact F. }
  transitivity (@nil (list val)).
  - clear U. induction (rows b) as [|rb t IH]; simpl; [reflexivity|]. rewrite (E rb (or_introl eq_refl)). apply IH. intros r I. apply E. right. exact I.
  - clear U. symmetry. induction (rows b) as [|rb t IH]; simpl; [reflexivity|]. rewrite (E rb (or_introl eq_refl)). apply IH. intros r I. apply E. right. exact I.
Qed.

Local Open Scope string_scope.
Definition pl_witness_a : table := mktable ["k"; "x"] [[VNum 1; VNum 10]].
Definition pl_witness_b : table := mktable ["k"; "y"] [[VNum 3; VNum 23]].
Lemma full_join_keys_not_coalesced_refuted :
  exists J a b, ~ Permutation (rows (full_join_keys_not_coalesced J a b)) (sql_join_rows SFull (combine J J) a b).
Proof.
  exists ["k"], pl_witness_a, pl_witness_b. intros P.
  apply (Permutation_in [VNull; VNull; VNum 23]) in P.
  - vm_compute in P. destruct P as [P|[P|P]]; try discriminate. exact P.
  - vm_compute. right. left. reflexivity.
Qed.
