(* C19, part 3: the node-by-node run used by the correspondence driver (Model/StoreCases.v) is the executor `pexec`:
   same result location, same final store, same trace.  So what the case files compare IS the object of the theorems. *)
From Coq Require Import List Bool Arith String.
Import ListNotations.
From DA Require Import Model.Store Model.StoreCases.
Local Open Scope list_scope.

Lemma observe_run k srcs callers prev (m : M loc) s l o s' e :
  observe k srcs callers prev m s = Some ((l, o), s', e) -> m s = Some (l, s', e).
Proof. unfold observe. destruct (m s) as [[[l0 s0] e0]|]; [|discriminate]. destruct (get s0 l0); [|discriminate].
  intros H. inversion H; subst. reflexivity. Qed.

Lemma un_run env k (mo : M (loc * list onode)) (m : M loc) (step : loc -> M loc) :
  (forall s l o s' e, mo s = Some ((l, o), s', e) -> m s = Some (l, s', e)) ->
  forall s l o s' e, un env k mo step s = Some ((l, o), s', e) -> bind m step s = Some (l, s', e).
Proof. intros IH s l o s' e. unfold un, bind. destruct (mo s) as [[[[l1 o1] s1] e1]|] eqn:R1; [|discriminate].
  rewrite (IH s l1 o1 s1 e1 R1). simpl.
  destruct (observe k [l1] (map snd env) o1 (step l1) s1) as [[[[l2 o2] s2] e2]|] eqn:R2; [|discriminate].
  rewrite (observe_run _ _ _ _ _ _ _ _ _ _ R2). intros H. inversion H; subst. reflexivity. Qed.

Lemma bin_run env k (ma mb : M (loc * list onode)) (pa pb : M loc) (step : loc -> loc -> M loc) :
  (forall s l o s' e, ma s = Some ((l, o), s', e) -> pa s = Some (l, s', e)) ->
  (forall s l o s' e, mb s = Some ((l, o), s', e) -> pb s = Some (l, s', e)) ->
  forall s l o s' e, bin env k ma mb step s = Some ((l, o), s', e) ->
    bind pa (fun la => bind pb (fun lb => step la lb)) s = Some (l, s', e).
Proof. intros IHa IHb s l o s' e. unfold bin, bind. destruct (ma s) as [[[[l1 o1] s1] e1]|] eqn:R1; [|discriminate].
  rewrite (IHa s l1 o1 s1 e1 R1). simpl.
  destruct (mb s1) as [[[[l2 o2] s2] e2]|] eqn:R2; [|discriminate]. rewrite (IHb s1 l2 o2 s2 e2 R2). simpl.
  destruct (observe k [l1; l2] (map snd env) (o1 ++ o2) (step l1 l2) s2) as [[[[l3 o3] s3] e3]|] eqn:R3; [|discriminate].
  rewrite (observe_run _ _ _ _ _ _ _ _ _ _ R3). intros H. inversion H; subst. reflexivity. Qed.

Lemma pexec_obs_is_pexec env p : forall s l o s' e, pexec_obs env p s = Some ((l, o), s', e) -> pexec env p s = Some (l, s', e).
Proof. induction p; simpl;
  try (apply un_run; exact IHp); try (apply bin_run; [exact IHp1|exact IHp2]).
  intros s l o s' e. apply observe_run. Qed.

(* ------------------------------------------------------------------ concrete instances *)
From DA Require Import Proofs.StoreP1 Proofs.StoreP2.
Local Open Scope string_scope.
Local Open Scope list_scope.

Definition ex_tables : list (string * frame) :=
  [("d1", mkframe IxOther ["a"; "b"; "g"; "extra"] 4 (PIn 1)); ("d2", mkframe IxRange ["g"; "b"; "z"] 3 (PIn 2))].
Definition ex_pipeline : op :=
  OrderRows
    (ConcatRows
       (NaturalJoin
          (Extend (Extend (Table "d1" ["a"; "b"; "g"]) "a + 1" ["x"] None false) "a.cumsum()" ["y"; "w"]
                  (Some (mkw ["data_algebra_extend_temp_col_0"] ["g"; "a"] true)) false)
          (Project (SelectRows (Table "d2" ["g"; "b"; "z"]) "z > 1" 2) "z.sum()" ["g"] ["b"] [] 2)
          ["g"] ["g"] "LEFT" true 4)
       (SelectRows (NaturalJoin
          (Extend (Extend (Table "d1" ["a"; "b"; "g"]) "a + 1" ["x"] None false) "a.cumsum()" ["y"; "w"]
                  (Some (mkw ["data_algebra_extend_temp_col_0"] ["g"; "a"] true)) false)
          (Project (SelectRows (Table "d2" ["g"; "b"; "z"]) "z > 1" 2) "z.sum()" ["g"] ["b"] [] 2)
          ["g"] ["g"] "LEFT" true 4) "a > 0" 0)
       (Some "src"))
    ["a"] [] (Some 2).
Definition ex_random : op := Extend (Table "d1" ["a"]) "_uniform()" ["u"] None true.

Lemma ex_env_ok : env_ok (init_store ex_tables) (init_env ex_tables).
Proof. intros n l H. simpl in H. destruct H as [H|[H|[]]]; inversion H; subst; simpl; auto. Qed.

Lemma random_not_repeatable :
  exists s p env s1 l1 e1 s2 l2 e2,
    (forall n l, In (n, l) env -> In l (dom s)) /\ pexec_st s p env = Some (s1, l1, e1) /\ pexec_st s1 p env = Some (s2, l2, e2) /\
    get s1 l1 <> get s2 l2.
Proof.
  destruct (pexec_st (init_store ex_tables) ex_random (init_env ex_tables)) as [[[s1 l1] e1]|] eqn:R1; [|vm_compute in R1; discriminate].
  destruct (pexec_st s1 ex_random (init_env ex_tables)) as [[[s2 l2] e2]|] eqn:R2;
    [|vm_compute in R1; inversion R1; subst; vm_compute in R2; discriminate].
  exists (init_store ex_tables), ex_random, (init_env ex_tables), s1, l1, e1, s2, l2, e2.
  split; [exact ex_env_ok|]. split; [exact R1|]. split; [exact R2|].
  vm_compute in R1. inversion R1; subst. vm_compute in R2. inversion R2; subst. vm_compute. discriminate. Qed.
