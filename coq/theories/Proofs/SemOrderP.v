(* Order and permutation facts about Model/Sem.v (C18, and the soundness of dropping intermediate order_rows for C06).
   Statements to prove (each currently ends in Abort). *)
From Coq Require Import List Bool Arith ZArith QArith String Lia Permutation Sorted.
Import ListNotations.
From DA Require Import Base.PyRT Base.Val Model.Sem.

(* ---------- auxiliary: rationals *)
Lemma qle_bool_total x y : Qle_bool x y = true \/ Qle_bool y x = true.
Proof. destruct (Qlt_le_dec x y) as [h|h]; [left; apply Qle_bool_iff, Qlt_le_weak, h | right; apply Qle_bool_iff, h]. Qed.
Lemma qle_bool_trans x y z : Qle_bool x y = true -> Qle_bool y z = true -> Qle_bool x z = true.
Proof. rewrite !Qle_bool_iff. apply Qle_trans. Qed.
Lemma qeq_bool_refl x : Qeq_bool x x = true.
Proof. apply Qeq_bool_iff. reflexivity. Qed.
Lemma qeq_bool_sym x y : Qeq_bool x y = Qeq_bool y x.
Proof. apply eq_true_iff_eq. rewrite !Qeq_bool_iff. split; intros h; symmetry; exact h. Qed.
Lemma qeq_eq_l x y z : Qeq_bool x y = true -> Qeq_bool x z = Qeq_bool y z.
Proof. intros h. apply Qeq_bool_iff in h. apply eq_true_iff_eq. rewrite !Qeq_bool_iff. rewrite h. reflexivity. Qed.
Lemma qeq_le_l x y z : Qeq_bool x y = true -> Qle_bool x z = Qle_bool y z.
Proof. intros h. apply Qeq_bool_iff in h. apply eq_true_iff_eq. rewrite !Qle_bool_iff. rewrite h. reflexivity. Qed.
Lemma qeq_le_r x y z : Qeq_bool x y = true -> Qle_bool z x = Qle_bool z y.
Proof. intros h. apply Qeq_bool_iff in h. apply eq_true_iff_eq. rewrite !Qle_bool_iff. rewrite h. reflexivity. Qed.
Lemma q_antisym x y : Qeq_bool x y = false -> Qle_bool x y = true -> Qle_bool y x = true -> False.
Proof. intros e h1 h2. apply Qle_bool_iff in h1, h2. assert (Qeq_bool x y = true) as E by (apply Qeq_bool_iff, Qle_antisym; assumption). congruence. Qed.
Lemma q_antisym' x y : Qeq_bool y x = false -> Qle_bool x y = true -> Qle_bool y x = true -> False.
Proof. rewrite qeq_bool_sym. apply q_antisym. Qed.

(* ---------- auxiliary: strings *)
Lemma scompare_le_trans a : forall b c, String.compare a b <> Gt -> String.compare b c <> Gt -> String.compare a c <> Gt.
Proof.
  induction a as [|x a IH]; intros [|y b] [|z c]; simpl; try congruence.
  unfold Ascii.compare.
  destruct (N.compare_spec (Ascii.N_of_ascii x) (Ascii.N_of_ascii y));
  destruct (N.compare_spec (Ascii.N_of_ascii y) (Ascii.N_of_ascii z));
  destruct (N.compare_spec (Ascii.N_of_ascii x) (Ascii.N_of_ascii z));
  try congruence; try lia; intros; eauto.
Qed.
Lemma sleb_trans a b c : String.leb a b = true -> String.leb b c = true -> String.leb a c = true.
Proof. unfold String.leb. intros h1 h2.
  assert (String.compare a c <> Gt) as N.
  { apply (scompare_le_trans a b c).
    - destruct (String.compare a b); congruence.
    - destruct (String.compare b c); congruence. }
  destruct (String.compare a c); congruence. Qed.
Lemma seqb_eq_l x y z : String.eqb x y = true -> String.eqb x z = String.eqb y z.
Proof. intros h. apply String.eqb_eq in h. subst. reflexivity. Qed.
Lemma seqb_le_l x y z : String.eqb x y = true -> String.leb x z = String.leb y z.
Proof. intros h. apply String.eqb_eq in h. subst. reflexivity. Qed.
Lemma seqb_le_r x y z : String.eqb x y = true -> String.leb z x = String.leb z y.
Proof. intros h. apply String.eqb_eq in h. subst. reflexivity. Qed.
Lemma s_antisym x y : String.eqb x y = false -> String.leb x y = true -> String.leb y x = true -> False.
Proof. intros e h1 h2. rewrite (String.leb_antisym _ _ h1 h2), String.eqb_refl in e. discriminate. Qed.
Lemma s_antisym' x y : String.eqb y x = false -> String.leb x y = true -> String.leb y x = true -> False.
Proof. rewrite String.eqb_sym. apply s_antisym. Qed.

Ltac dval a := destruct a as [|[|]|?|?|?].
Ltac vred := unfold v_le_dir, v_le, v_eqv, num_of; cbv beta iota.

(* ---------- the comparators are total preorders *)
Lemma v_le_total a b : v_le a b = true \/ v_le b a = true.
Proof. dval a; dval b; vred; auto using qle_bool_total, String.leb_total. Qed.
Lemma v_le_trans a b c : v_le a b = true -> v_le b c = true -> v_le a c = true.
Proof. dval a; dval b; dval c; vred; intros; try discriminate; try reflexivity; eauto using qle_bool_trans, sleb_trans. Qed.
Lemma v_le_dir_total nf d a b : v_le_dir nf d a b = true \/ v_le_dir nf d b a = true.
Proof. destruct nf; destruct d; dval a; dval b; vred; auto using qle_bool_total, String.leb_total. Qed.
Lemma v_le_dir_trans nf d a b c : v_le_dir nf d a b = true -> v_le_dir nf d b c = true -> v_le_dir nf d a c = true.
Proof. destruct nf; destruct d; dval a; dval b; dval c; vred; intros; try discriminate; try reflexivity; eauto using qle_bool_trans, sleb_trans. Qed.

(* v_eqv is an equivalence compatible with v_le_dir *)
Lemma v_eqv_refl a : v_eqv a a = true.
Proof. dval a; vred; auto using qeq_bool_refl, String.eqb_refl. Qed.
Lemma v_eqv_sym a b : v_eqv a b = v_eqv b a.
Proof. dval a; dval b; vred; auto using qeq_bool_sym, String.eqb_sym. Qed.
Lemma v_eqv_cong_l a b c : v_eqv a b = true -> v_eqv a c = v_eqv b c.
Proof. dval a; dval b; dval c; vred; intros; try discriminate; try reflexivity; auto using qeq_eq_l, seqb_eq_l. Qed.
Lemma v_eqv_cong_r a b c : v_eqv a b = true -> v_eqv c a = v_eqv c b.
Proof. intros h. rewrite (v_eqv_sym c a), (v_eqv_sym c b). apply v_eqv_cong_l, h. Qed.
Lemma v_le_dir_cong_l nf d a b c : v_eqv a b = true -> v_le_dir nf d a c = v_le_dir nf d b c.
Proof. destruct nf; destruct d; dval a; dval b; dval c; vred; intros; try discriminate; try reflexivity; auto using qeq_le_l, qeq_le_r, seqb_le_l, seqb_le_r. Qed.
Lemma v_le_dir_cong_r nf d a b c : v_eqv a b = true -> v_le_dir nf d c a = v_le_dir nf d c b.
Proof. destruct nf; destruct d; dval a; dval b; dval c; vred; intros; try discriminate; try reflexivity; auto using qeq_le_l, qeq_le_r, seqb_le_l, seqb_le_r. Qed.
Lemma v_le_dir_antisym nf d a b : v_eqv a b = false -> v_le_dir nf d a b = true -> v_le_dir nf d b a = true -> False.
Proof. destruct nf; destruct d; dval a; dval b; vred; intros; try discriminate; eauto using q_antisym, q_antisym', s_antisym, s_antisym'. Qed.

Lemma row_le_total fl cs keys r1 r2 : row_le fl cs keys r1 r2 = true \/ row_le fl cs keys r2 r1 = true.
Proof.
  induction keys as [|[c d] t IH]; simpl; [left; reflexivity|].
  rewrite (v_eqv_sym (get cs r2 c) (get cs r1 c)).
  destruct (v_eqv (get cs r1 c) (get cs r2 c)); [exact IH | apply v_le_dir_total].
Qed.
Lemma row_le_trans fl cs keys r1 r2 r3 : row_le fl cs keys r1 r2 = true -> row_le fl cs keys r2 r3 = true -> row_le fl cs keys r1 r3 = true.
Proof.
  induction keys as [|[c d] t IH]; simpl; [reflexivity|].
  set (a := get cs r1 c). set (b := get cs r2 c). set (x := get cs r3 c).
  destruct (v_eqv a b) eqn:Eab; destruct (v_eqv b x) eqn:Ebx; intros H1 H2.
  - rewrite (v_eqv_cong_l a b x Eab), Ebx. auto.
  - rewrite (v_eqv_cong_l a b x Eab), Ebx. rewrite (v_le_dir_cong_l _ d a b x Eab). exact H2.
  - rewrite <- (v_eqv_cong_r b x a Ebx), Eab. rewrite <- (v_le_dir_cong_r _ d b x a Ebx). exact H1.
  - destruct (v_eqv a x) eqn:Eax.
    + exfalso. apply (v_le_dir_antisym _ d b x Ebx H2).
      rewrite <- (v_le_dir_cong_l _ d a x b Eax). exact H1.
    + eapply v_le_dir_trans; eassumption.
Qed.

(* ---------- auxiliary list / permutation facts *)
Lemma perm_filter {A} (f : A -> bool) l l' : Permutation l l' -> Permutation (filter f l) (filter f l').
Proof.
  induction 1 as [|x l l' P IH|x y l|l l' l'' P1 IH1 P2 IH2]; simpl.
  - constructor.
  - destruct (f x); [constructor|]; exact IH.
  - destruct (f x), (f y); try apply Permutation_refl. apply perm_swap.
  - eapply perm_trans; eassumption.
Qed.
Lemma perm_flat_map {A B} (f : A -> list B) l l' : Permutation l l' -> Permutation (flat_map f l) (flat_map f l').
Proof.
  induction 1 as [|x l l' P IH|x y l|l l' l'' P1 IH1 P2 IH2]; simpl.
  - constructor.
  - apply Permutation_app_head, IH.
  - rewrite !app_assoc. apply Permutation_app_tail, Permutation_app_comm.
  - eapply perm_trans; eassumption.
Qed.
Lemma perm_flat_map_ext {A B} (f g : A -> list B) l :
  (forall x, Permutation (f x) (g x)) -> Permutation (flat_map f l) (flat_map g l).
Proof. intros E. induction l as [|x t IH]; simpl; [constructor|]. apply Permutation_app; [apply E|exact IH]. Qed.
Lemma perm_flat_map2 {A B} (f g : A -> list B) l l' :
  (forall x, Permutation (f x) (g x)) -> Permutation l l' -> Permutation (flat_map f l) (flat_map g l').
Proof. intros E P. eapply perm_trans; [apply perm_flat_map_ext, E | apply perm_flat_map, P]. Qed.
Lemma perm_existsb {A} (f : A -> bool) l l' : Permutation l l' -> existsb f l = existsb f l'.
Proof.
  intros P. apply eq_true_iff_eq. rewrite !existsb_exists.
  split; intros [x [I E]]; exists x; split; auto.
  - eapply Permutation_in; eassumption.
  - eapply Permutation_in; [apply Permutation_sym|]; eassumption.
Qed.
Lemma Forall_firstn {A} (P : A -> Prop) n : forall l, Forall P l -> Forall P (firstn n l).
Proof. induction n as [|n IH]; intros l F; simpl; [constructor|]. destruct F; constructor; auto. Qed.
Lemma firstn_sorted {A} (R : A -> A -> Prop) n : forall l, StronglySorted R l -> StronglySorted R (firstn n l).
Proof. induction n as [|n IH]; intros l S; simpl; [constructor|]. destruct S; constructor; auto using Forall_firstn. Qed.

(* ---------- stable_sort sorts and permutes *)
Section SortFacts.
  Context {A : Type} (le : A -> A -> bool).
  Hypothesis le_total : forall a b, le a b = true \/ le b a = true.
  Hypothesis le_trans : forall a b c, le a b = true -> le b c = true -> le a c = true.

  Lemma insert_sorted_perm x l : Permutation (insert_sorted le x l) (x :: l).
  Proof.
    induction l as [|y t IH]; simpl; [apply Permutation_refl|].
    destruct (le x y); [apply Permutation_refl|].
    eapply perm_trans; [apply perm_skip, IH | apply perm_swap].
  Qed.

  Lemma stable_sort_perm l : Permutation (stable_sort le l) l.
  Proof.
    induction l as [|a t IH]; simpl; [constructor|].
    eapply perm_trans; [apply insert_sorted_perm | apply perm_skip, IH].
  Qed.

  Lemma insert_sorted_sorted x l :
    StronglySorted (fun a b => le a b = true) l -> StronglySorted (fun a b => le a b = true) (insert_sorted le x l).
  Proof.
    induction 1 as [|y t S IH F]; simpl; [repeat constructor|].
    destruct (le x y) eqn:E.
    - constructor; [constructor; assumption|].
      constructor; [exact E|]. rewrite Forall_forall in *. intros z I. eapply le_trans; [exact E | apply F, I].
    - constructor; [exact IH|].
      rewrite Forall_forall in *. intros z I.
      apply (Permutation_in _ (insert_sorted_perm x t)) in I. destruct I as [<-|I]; [|apply F, I].
      destruct (le_total x y) as [h|h]; [congruence|exact h].
  Qed.

  Lemma stable_sort_sorted l : StronglySorted (fun a b => le a b = true) (stable_sort le l).
  Proof. induction l as [|a t IH]; simpl; [constructor|]. apply insert_sorted_sorted, IH. Qed.

  Lemma sorted_perm_unique l : forall l',
    StronglySorted (fun a b => le a b = true) l -> StronglySorted (fun a b => le a b = true) l' ->
    Permutation l l' ->
    (forall a b, In a l -> In b l -> le a b = true -> le b a = true -> a = b) ->
    l = l'.
  Proof.
    induction l as [|x t IH]; intros l' S S' P AS.
    - apply Permutation_nil in P. congruence.
    - destruct l' as [|y u]; [apply Permutation_sym, Permutation_nil in P; discriminate|].
      inversion S as [|? ? St Ft]; subst. inversion S' as [|? ? Su Fu]; subst.
      rewrite Forall_forall in Ft, Fu.
      assert (In y (x :: t)) as Iy by (eapply Permutation_in; [apply Permutation_sym, P | left; reflexivity]).
      assert (In x (y :: u)) as Ix by (eapply Permutation_in; [apply P | left; reflexivity]).
      assert (x = y) as E.
      { destruct Iy as [e|Iy']; [exact e|]. destruct Ix as [e|Ix']; [symmetry; exact e|].
        apply AS; [left; reflexivity | right; exact Iy' | apply Ft, Iy' | apply Fu, Ix']. }
      subst y. f_equal. apply IH; auto.
      + eapply Permutation_cons_inv, P.
      + intros a b Ia Ib. apply AS; right; assumption.
  Qed.

  (* when no two DIFFERENT elements are tied, the sorted list does not depend on the input order *)
  Lemma stable_sort_perm_invariant l l' :
    Permutation l l' ->
    (forall a b, In a l -> In b l -> le a b = true -> le b a = true -> a = b) ->
    stable_sort le l = stable_sort le l'.
  Proof.
    intros P AS. apply sorted_perm_unique; try apply stable_sort_sorted.
    - eapply perm_trans; [apply stable_sort_perm|]. eapply perm_trans; [exact P|]. apply Permutation_sym, stable_sort_perm.
    - intros a b Ia Ib. apply AS; eapply Permutation_in; try eassumption; apply stable_sort_perm.
  Qed.
End SortFacts.

(* ---------- order_rows: sorted by the given columns with the given reversals; limit = the first `limit` rows of that order *)
Lemma order_rows_sorted fl cs rev lim t :
  StronglySorted (fun r1 r2 => row_le fl (cols t) (map (fun c => (c, mem c rev)) cs) r1 r2 = true) (rows (sem_order fl cs rev lim t)).
Proof.
  unfold sem_order; simpl.
  assert (StronglySorted (fun r1 r2 => row_le fl (cols t) (map (fun c => (c, mem c rev)) cs) r1 r2 = true)
            (stable_sort (row_le fl (cols t) (map (fun c => (c, mem c rev)) cs)) (rows t))) as S.
  { apply stable_sort_sorted; [intros; apply row_le_total | intros; eapply row_le_trans; eassumption]. }
  destruct lim; [apply firstn_sorted, S | exact S].
Qed.
Lemma order_rows_is_permutation fl cs rev t : Permutation (rows (sem_order fl cs rev None t)) (rows t).
Proof. unfold sem_order; simpl. apply stable_sort_perm. Qed.
Lemma order_rows_limit fl cs rev n t : rows (sem_order fl cs rev (Some n) t) = firstn n (rows (sem_order fl cs rev None t)).
Proof. reflexivity. Qed.
Lemma order_rows_keeps_columns fl cs rev lim t : cols (sem_order fl cs rev lim t) = cols t.
Proof. reflexivity. Qed.

(* with a total order on the data the ordered result does not depend on the input row order *)
Definition total_on (fl : flavor) (cs : list string) (keys : list (string * bool)) (rs : list (list val)) : Prop :=
  forall r1 r2, In r1 rs -> In r2 rs -> row_le fl cs keys r1 r2 = true -> row_le fl cs keys r2 r1 = true -> r1 = r2.
Lemma order_rows_input_order_irrelevant fl cs rev lim t t' :
  cols t = cols t' -> Permutation (rows t) (rows t') ->
  total_on fl (cols t) (map (fun c => (c, mem c rev)) cs) (rows t) ->
  sem_order fl cs rev lim t = sem_order fl cs rev lim t'.
Proof.
  intros C P T. unfold sem_order. rewrite <- C.
  rewrite (stable_sort_perm_invariant (row_le fl (cols t) (map (fun c => (c, mem c rev)) cs))
             (row_le_total _ _ _) (row_le_trans _ _ _) (rows t) (rows t') P T).
  reflexivity.
Qed.

(* ---------- row-order independence of the row-wise steps (results as multisets) *)
Lemma extend_perm fl ops t t' : cols t = cols t' -> Permutation (rows t) (rows t') ->
  cols (sem_extend fl ops t) = cols (sem_extend fl ops t') /\ Permutation (rows (sem_extend fl ops t)) (rows (sem_extend fl ops t')).
Proof. intros C P. unfold sem_extend; simpl. rewrite <- C. split; [reflexivity | apply Permutation_map, P]. Qed.
Lemma select_rows_perm fl e t t' : cols t = cols t' -> Permutation (rows t) (rows t') ->
  Permutation (rows (sem_select_rows fl e t)) (rows (sem_select_rows fl e t')).
Proof. intros C P. unfold sem_select_rows; simpl. rewrite <- C. apply perm_filter, P. Qed.
Lemma select_cols_perm cs t t' : cols t = cols t' -> Permutation (rows t) (rows t') ->
  Permutation (rows (sem_select_cols cs t)) (rows (sem_select_cols cs t')).
Proof. intros C P. unfold sem_select_cols; simpl. rewrite <- C. apply Permutation_map, P. Qed.
Lemma rename_perm m t t' : cols t = cols t' -> Permutation (rows t) (rows t') ->
  Permutation (rows (sem_rename m t)) (rows (sem_rename m t')).
Proof. intros C P. exact P. Qed.
Lemma concat_perm idc an bn a a' b b' : cols a = cols a' -> cols b = cols b' ->
  Permutation (rows a) (rows a') -> Permutation (rows b) (rows b') ->
  Permutation (rows (sem_concat idc an bn a b)) (rows (sem_concat idc an bn a' b')).
Proof.
  intros Ca Cb Pa Pb. unfold sem_concat. rewrite <- Ca, <- Cb.
  destruct idc; simpl; apply Permutation_app; repeat apply Permutation_map; assumption.
Qed.
Lemma join_perm nm on_a on_b jt a a' b b' : cols a = cols a' -> cols b = cols b' ->
  Permutation (rows a) (rows a') -> Permutation (rows b) (rows b') ->
  Permutation (rows (sem_join nm on_a on_b jt a b)) (rows (sem_join nm on_a on_b jt a' b')).
Proof.
  intros Ca Cb Pa Pb. unfold sem_join. rewrite <- Ca, <- Cb. simpl.
  apply Permutation_app; [|apply Permutation_app].
  - apply perm_flat_map2; [|exact Pa]. intros ra. apply perm_flat_map, Pb.
  - destruct jt; try apply Permutation_refl.
    + apply perm_flat_map2; [|exact Pa]. intros ra. rewrite (perm_existsb _ _ _ Pb). apply Permutation_refl.
    + apply perm_flat_map2; [|exact Pa]. intros ra. rewrite (perm_existsb _ _ _ Pb). apply Permutation_refl.
  - destruct jt; try apply Permutation_refl.
    + apply perm_flat_map2; [|exact Pb]. intros rb. rewrite (perm_existsb _ _ _ Pa). apply Permutation_refl.
    + apply perm_flat_map2; [|exact Pb]. intros rb. rewrite (perm_existsb _ _ _ Pa). apply Permutation_refl.
Qed.

(* dropping an order_rows WITHOUT limit in front of a row-wise step changes nothing but the row order (C06) *)
Lemma order_then_select_rows fl cs rev e t :
  Permutation (rows (sem_select_rows fl e (sem_order fl cs rev None t))) (rows (sem_select_rows fl e t)).
Proof. apply select_rows_perm; [reflexivity | apply order_rows_is_permutation]. Qed.
Lemma order_then_extend fl cs rev ops t :
  Permutation (rows (sem_extend fl ops (sem_order fl cs rev None t))) (rows (sem_extend fl ops t)).
Proof. apply extend_perm; [reflexivity | apply order_rows_is_permutation]. Qed.

