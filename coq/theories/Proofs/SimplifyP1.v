(* C06, part 1: the relation "same table up to the order of the columns and the order of the rows" (tab_sim) and the fact that
   every operator of Model/Sem.v respects it -- under C18's premise where the operator is sensitive to the row order
   (window_total / keys_exact / total_on, asked of ONE of the two tables).
   tab_sim t r: the same column set, and the rows of t are, up to a permutation, the rows of r read as functions from column
   names to values.  Built from C07's tab_eqv (column order; Proofs/ComposeP5.v) and C18's permutation lemmas (SemOrderP, PermP2-4). *)
From Coq Require Import List Bool Arith String Lia Permutation.
Import ListNotations.
From DA Require Import Base.PyRT Base.Val Model.Sem Model.PermGuard Proofs.SemBasicP Proofs.SemOrderP Proofs.PermP2 Proofs.PermP3 Proofs.PermP4 Proofs.ComposeP5.
Local Open Scope list_scope.

(* ------------------------------------------------------------------ generic *)
Lemma Forall2_perm_l {A B} (R : A -> B -> Prop) (l1' l1 : list A) :
  Permutation l1' l1 -> forall l2, Forall2 R l1 l2 -> exists l2', Permutation l2' l2 /\ Forall2 R l1' l2'.
Proof.
  induction 1 as [|x l' l P IH|x y l|l'' l' l P1 IH1 P2 IH2]; intros l2 F.
  - inversion F; subst. exists []. split; constructor.
  - inversion F as [|? b ? m Rxb Fm]; subst. destruct (IH m Fm) as [m' [Pm Fm']].
    exists (b :: m'). split; [apply perm_skip, Pm|constructor; assumption].
  - inversion F as [|? a ? m1 Rxa F1]; subst. inversion F1 as [|? b ? m Ryb Fm]; subst.
    exists (b :: a :: m). split; [apply perm_swap|repeat constructor; assumption].
  - destruct (IH2 l2 F) as [m [Pm Fm]]. destruct (IH1 m Fm) as [m' [Pm' Fm']].
    exists m'. split; [eapply perm_trans; eassumption|exact Fm'].
Qed.

Lemma Forall2_comp {A B C} (R : A -> B -> Prop) (S : B -> C -> Prop) (T : A -> C -> Prop) l1 l2 l3 :
  (forall a b c, R a b -> S b c -> T a c) -> Forall2 R l1 l2 -> Forall2 S l2 l3 -> Forall2 T l1 l3.
Proof.
  intros H F. revert l3. induction F as [|a b l1 l2 Rab F IH]; intros l3 G; inversion G; subst; constructor; eauto.
Qed.

Lemma width_perm (t t' : table) : cols t' = cols t -> Permutation (rows t') (rows t) -> width_ok t -> width_ok t'.
Proof.
  unfold width_ok. intros C P W. rewrite C. rewrite Forall_forall in *. intros r I. apply W. eapply Permutation_in; eassumption.
Qed.

Lemma same_set_sym l1 l2 : same_set l1 l2 -> same_set l2 l1.
Proof. intros S c. symmetry. apply S. Qed.
Lemma same_set_trans l1 l2 l3 : same_set l1 l2 -> same_set l2 l3 -> same_set l1 l3.
Proof. intros S T c. rewrite (S c). apply T. Qed.

Lemma tab_eqv_trans t1 t2 t3 : tab_eqv t1 t2 -> tab_eqv t2 t3 -> tab_eqv t1 t3.
Proof.
  intros [S1 F1] [S2 F2]. split; [eapply same_set_trans; eassumption|].
  eapply Forall2_comp; [|exact F1|exact F2]. intros a b c R1 R2 x. rewrite (R1 x). apply R2.
Qed.

(* ------------------------------------------------------------------ tab_sim *)
Definition tab_sim (t r : table) : Prop :=
  same_set (cols t) (cols r) /\ exists l, Permutation l (rows r) /\ Forall2 (row_eqv (cols t) (cols r)) (rows t) l.
Definition otab_sim (o1 o2 : option table) : Prop :=
  match o1, o2 with Some a, Some b => tab_sim a b | None, None => True | _, _ => False end.

Lemma tab_sim_intro t r r' : tab_eqv t r' -> cols r' = cols r -> Permutation (rows r') (rows r) -> tab_sim t r.
Proof. intros [S F] C P. rewrite C in *. split; [exact S|]. exists (rows r'). split; assumption. Qed.

Lemma tab_sim_elim t r : tab_sim t r -> exists r', tab_eqv t r' /\ cols r' = cols r /\ Permutation (rows r') (rows r).
Proof. intros [S [l [P F]]]. exists (mktable (cols r) l). split; [split; assumption|]. split; [reflexivity|exact P]. Qed.

Lemma tab_sim_of_eqv t r : tab_eqv t r -> tab_sim t r.
Proof. intros E. eapply tab_sim_intro; [exact E|reflexivity|apply Permutation_refl]. Qed.
Lemma tab_sim_of_perm t r : cols t = cols r -> Permutation (rows t) (rows r) -> tab_sim t r.
Proof. intros C P. apply (tab_sim_intro t r t); [apply tab_eqv_refl|exact C|exact P]. Qed.
Lemma tab_sim_refl t : tab_sim t t.
Proof. apply tab_sim_of_eqv, tab_eqv_refl. Qed.
Lemma otab_sim_refl o : otab_sim o o.
Proof. destruct o; simpl; [apply tab_sim_refl|exact I]. Qed.

Lemma tab_sim_trans t1 t2 t3 : tab_sim t1 t2 -> tab_sim t2 t3 -> tab_sim t1 t3.
Proof.
  intros [S1 [l2 [P2 F1]]] [S2 [l3 [P3 F2]]].
  destruct (Forall2_perm_l _ _ _ P2 _ F2) as [m [Pm Fm]].
  split; [eapply same_set_trans; eassumption|]. exists m. split; [eapply perm_trans; eassumption|].
  eapply Forall2_comp; [|exact F1|exact Fm]. intros a b c R1 R2 x. rewrite (R1 x). apply R2.
Qed.
Lemma otab_sim_trans o1 o2 o3 : otab_sim o1 o2 -> otab_sim o2 o3 -> otab_sim o1 o3.
Proof. destruct o1, o2, o3; simpl; try tauto. apply tab_sim_trans. Qed.

Lemma tab_sim_cols t r : tab_sim t r -> same_set (cols t) (cols r).
Proof. intros [S _]. exact S. Qed.
Lemma tab_sim_length t r : tab_sim t r -> List.length (rows t) = List.length (rows r).
Proof.
  intros [_ [l [P F]]]. rewrite <- (Permutation_length P). clear P. induction F as [|a b l1 l2 _ _ IH]; simpl; [reflexivity|]. rewrite IH. reflexivity.
Qed.

(* ------------------------------------------------------------------ every operator respects tab_sim *)
Lemma sim_select_cols cs t r : tab_sim t r -> tab_sim (sem_select_cols cs t) (sem_select_cols cs r).
Proof.
  intros H. destruct (tab_sim_elim _ _ H) as [r' [E [C P]]].
  apply (tab_sim_intro _ _ (sem_select_cols cs r')); [apply select_cols_eqv; [apply same_set_refl|exact E]|reflexivity|].
  apply select_cols_perm; assumption.
Qed.

Lemma sim_drop_cols ds t r : tab_sim t r -> tab_sim (sem_drop_cols ds t) (sem_drop_cols ds r).
Proof.
  intros H. destruct (tab_sim_elim _ _ H) as [r' [E [C P]]].
  apply (tab_sim_intro _ _ (sem_drop_cols ds r')); [apply drop_cols_eqv, E| |].
  - unfold sem_drop_cols. cbn [cols sem_select_cols]. rewrite C. reflexivity.
  - unfold sem_drop_cols. rewrite C. apply select_cols_perm; assumption.
Qed.

Lemma sim_select_rows fl x t r : tab_sim t r -> tab_sim (sem_select_rows fl x t) (sem_select_rows fl x r).
Proof.
  intros H. destruct (tab_sim_elim _ _ H) as [r' [E [C P]]].
  apply (tab_sim_intro _ _ (sem_select_rows fl x r')); [apply select_rows_eqv, E|exact C|].
  apply select_rows_perm; assumption.
Qed.

Lemma sim_rename m t r : inj_on (rename_col m) (cols r) -> tab_sim t r -> tab_sim (sem_rename m t) (sem_rename m r).
Proof.
  intros J H. destruct (tab_sim_elim _ _ H) as [r' [E [C P]]].
  apply (tab_sim_intro _ _ (sem_rename m r')); [apply rename_eqv; [rewrite C; exact J|exact E]| |].
  - cbn [cols sem_rename]. rewrite C. reflexivity.
  - exact P.
Qed.

Lemma sim_extend fl ops t r : width_ok t -> width_ok r -> tab_sim t r -> tab_sim (sem_extend fl ops t) (sem_extend fl ops r).
Proof.
  intros Wt Wr H. destruct (tab_sim_elim _ _ H) as [r' [E [C P]]].
  assert (width_ok r') as Wr' by (eapply width_perm; eassumption).
  destruct (extend_perm fl ops r' r C P) as [C2 P2].
  apply (tab_sim_intro _ _ (sem_extend fl ops r')); [apply extend_eqv; assumption|exact C2|exact P2].
Qed.

Lemma window_total_perm fl cs w rs rs' : Permutation rs rs' -> window_total fl cs w rs -> window_total fl cs w rs'.
Proof.
  intros P T r I. assert (In r rs) as I0 by (eapply Permutation_in; [apply Permutation_sym, P|exact I]).
  destruct (T r I0) as [N O]. pose proof (part_rows_perm cs (w_part w) rs rs' r P) as PP. split.
  - eapply Permutation_NoDup; eassumption.
  - intros r1 r2 I1 I2. apply O; eapply Permutation_in; try eassumption; apply Permutation_sym, PP.
Qed.

Lemma sim_wextend fl ops w t r : width_ok t -> width_ok r ->
  (ops_order_sensitive ops = true -> window_total fl (cols r) w (rows r)) ->
  tab_sim t r -> tab_sim (sem_wextend fl ops w t) (sem_wextend fl ops w r).
Proof.
  intros Wt Wr G H. destruct (tab_sim_elim _ _ H) as [r' [E [C P]]].
  assert (width_ok r') as Wr' by (eapply width_perm; eassumption).
  destruct (wextend_perm fl ops w r' r C P) as [C2 P2].
  { intros S. rewrite C. eapply window_total_perm; [apply Permutation_sym, P|apply G, S]. }
  apply (tab_sim_intro _ _ (sem_wextend fl ops w r')); [apply wextend_eqv; assumption|exact C2|exact P2].
Qed.

Lemma keys_exact_perm cs gb rs rs' : Permutation rs rs' -> keys_exact cs gb rs -> keys_exact cs gb rs'.
Proof. intros P X r1 r2 I1 I2. apply X; eapply Permutation_in; try eassumption; apply Permutation_sym, P. Qed.

Lemma sim_project fl ops gb t r : keys_exact (cols r) gb (rows r) -> tab_sim t r -> tab_sim (sem_project fl ops gb t) (sem_project fl ops gb r).
Proof.
  intros X H. destruct (tab_sim_elim _ _ H) as [r' [E [C P]]].
  rewrite (project_eqv fl ops gb t r' E).
  destruct (project_perm fl ops gb r' r C P) as [C2 P2].
  { rewrite C. eapply keys_exact_perm; [apply Permutation_sym, P|exact X]. }
  apply tab_sim_of_perm; assumption.
Qed.

Lemma total_on_perm fl cs keys rs rs' : Permutation rs rs' -> total_on fl cs keys rs -> total_on fl cs keys rs'.
Proof. intros P T r1 r2 I1 I2. apply T; eapply Permutation_in; try eassumption; apply Permutation_sym, P. Qed.

Lemma sim_order fl cs rev lim t r :
  (lim <> None -> total_on fl (cols r) (map (fun c => (c, mem c rev)) cs) (rows r)) ->
  tab_sim t r -> tab_sim (sem_order fl cs rev lim t) (sem_order fl cs rev lim r).
Proof.
  intros G H. destruct (tab_sim_elim _ _ H) as [r' [E [C P]]].
  apply (tab_sim_intro _ _ (sem_order fl cs rev lim r')); [apply order_eqv, E|exact C|].
  apply order_perm; [exact C|exact P|]. intros N. rewrite C. eapply total_on_perm; [apply Permutation_sym, P|apply G, N].
Qed.

(* with a total order the two ordered tables have the same rows IN THE SAME ORDER *)
Lemma sim_order_total fl cs rev lim t r :
  total_on fl (cols r) (map (fun c => (c, mem c rev)) cs) (rows r) ->
  tab_sim t r -> tab_eqv (sem_order fl cs rev lim t) (sem_order fl cs rev lim r).
Proof.
  intros G H. destruct (tab_sim_elim _ _ H) as [r' [E [C P]]].
  rewrite (order_rows_input_order_irrelevant fl cs rev lim r r'); [apply order_eqv, E|symmetry; exact C|apply Permutation_sym, P|exact G].
Qed.

Lemma sim_join nm on_a on_b jt t r b : tab_sim t r -> tab_sim (sem_join nm on_a on_b jt t b) (sem_join nm on_a on_b jt r b).
Proof.
  intros H. destruct (tab_sim_elim _ _ H) as [r' [E [C P]]].
  apply (tab_sim_intro _ _ (sem_join nm on_a on_b jt r' b)); [apply join_eqv; [exact E|apply tab_eqv_refl]| |].
  - unfold sem_join. cbn [cols]. rewrite C. reflexivity.
  - apply join_perm; [exact C|reflexivity|exact P|apply Permutation_refl].
Qed.

Lemma sim_concat idc an bn t r b : width_ok t -> width_ok r -> tab_sim t r -> tab_sim (sem_concat idc an bn t b) (sem_concat idc an bn r b).
Proof.
  intros Wt Wr H. destruct (tab_sim_elim _ _ H) as [r' [E [C P]]].
  assert (width_ok r') as Wr' by (eapply width_perm; eassumption).
  apply (tab_sim_intro _ _ (sem_concat idc an bn r' b)); [apply concat_eqv; [assumption|assumption|exact E|apply tab_eqv_refl]| |].
  - unfold sem_concat. rewrite C. destruct idc; reflexivity.
  - apply concat_perm; [exact C|reflexivity|exact P|apply Permutation_refl].
Qed.
