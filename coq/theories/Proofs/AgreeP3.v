(* C01 / C02, part 3: whole pipelines, by induction over the operator tree.
   agree_core : no cause met along the conventions fl0  ->  every flavour computes the very same table.
   agree_bag  : no cause met by the multiset walk       ->  every flavour computes the same columns and a permutation of the rows. *)
From Coq Require Import List Bool Arith ZArith QArith String Lia Permutation.
Import ListNotations.
From DA Require Import Base.PyRT Base.Val Model.Sem Model.SemStrict Proofs.SemBasicP Proofs.SemOrderP Proofs.AgreeP1 Proofs.AgreeP2.
Local Open Scope string_scope.
Local Open Scope list_scope.

Theorem agree_core fl0 p e : causes fl0 p e = [] -> forall fl, sem_gen fl p e = sem_gen fl0 p e.
Proof.
  induction p as [n tc|s IH ops wd w|s IH ops gb|s IH x|s IH cs|s IH cs|s IH m|s IH m dels|s IH cs rev lim
                  |a IHa b IHb on_a on_b jt|a IHa b IHb idc an bn]; intros H fl; cbn [causes] in H; cbn [sem_gen].
  - reflexivity.
  - apply app_eq_nil in H. destruct H as [H1 H2]. rewrite (IH H1 fl).
    destruct (sem_gen fl0 s e) as [t|]; [|reflexivity]. simpl in *. f_equal.
    destruct wd; [apply wextend_agree|apply extend_agree]; exact H2.
  - apply app_eq_nil in H. destruct H as [H1 H2]. rewrite (IH H1 fl).
    destruct (sem_gen fl0 s e) as [t|]; [|reflexivity]. simpl in *. f_equal. apply project_agree. exact H2.
  - apply app_eq_nil in H. destruct H as [H1 H2]. rewrite (IH H1 fl).
    destruct (sem_gen fl0 s e) as [t|]; [|reflexivity]. simpl in *. f_equal. apply select_agree. exact H2.
  - rewrite (IH H fl). reflexivity.
  - rewrite (IH H fl). reflexivity.
  - rewrite (IH H fl). reflexivity.
  - rewrite (IH H fl). reflexivity.
  - apply app_eq_nil in H. destruct H as [H1 H2]. rewrite (IH H1 fl).
    destruct (sem_gen fl0 s e) as [t|]; [|reflexivity]. simpl in *. f_equal. apply order_agree. exact H2.
  - apply app_eq_nil in H. destruct H as [H1 H]. apply app_eq_nil in H. destruct H as [H2 H3].
    rewrite (IHa H1 fl), (IHb H2 fl).
    destruct (sem_gen fl0 a e) as [ta|]; [|reflexivity]. destruct (sem_gen fl0 b e) as [tb|]; [|reflexivity].
    f_equal. apply join_agree. exact H3.
  - apply app_eq_nil in H. destruct H as [H1 H2]. rewrite (IHa H1 fl), (IHb H2 fl). reflexivity.
Qed.

(* the instrumented evaluator: when it returns a table, every backend's model returns that table *)
Theorem sem_strict_all_flavours p e t : sem_strict p e = Some t -> forall fl, sem_gen fl p e = Some t.
Proof.
  unfold sem_strict, insensitive. intros H fl. destruct (is_nil (causes fl_pandas p e)) eqn:N; [|discriminate].
  rewrite (agree_core fl_pandas p e (is_nil_true _ N) fl). exact H.
Qed.

Theorem sem_strict_same_columns_and_rows p e t : sem_strict p e = Some t ->
  forall fl, exists t', sem_gen fl p e = Some t' /\ cols t' = cols t /\ Permutation (rows t') (rows t).
Proof.
  intros H fl. exists t. split; [apply (sem_strict_all_flavours p e t H)|]. split; [reflexivity|apply Permutation_refl].
Qed.

(* after a final order_rows the rows come in the same order *)
Theorem sem_strict_final_order s cs rev lim e t : sem_strict (OOrder s cs rev lim) e = Some t ->
  forall fl, exists t', sem_gen fl (OOrder s cs rev lim) e = Some t' /\ cols t' = cols t /\ rows t' = rows t.
Proof.
  intros H fl. exists t. split; [apply (sem_strict_all_flavours _ e t H)|]. split; reflexivity.
Qed.

(* sem_strict is defined exactly on the insensitive inputs on which the pipeline is defined *)
Lemma sem_strict_defined p e : insensitive p e = true -> sem_strict p e = sem_gen fl_pandas p e.
Proof. unfold sem_strict. intros ->. reflexivity. Qed.

(* ---------- the multiset walk *)
Definition same_bag (o o0 : option table) : Prop :=
  match o, o0 with
  | Some t, Some t0 => cols t = cols t0 /\ Permutation (rows t) (rows t0)
  | None, None => True
  | _, _ => False
  end.
Lemma same_bag_refl o : same_bag o o.
Proof. destruct o as [t|]; simpl; [split; [reflexivity|apply Permutation_refl]|exact I]. Qed.
Lemma same_bag_eq o o0 : o = o0 -> same_bag o o0.
Proof. intros ->. apply same_bag_refl. Qed.

Lemma join_cols nm on_a on_b jt a b : cols (sem_join nm on_a on_b jt a b) = cols a ++ filter (fun c => negb (mem c (cols a))) (cols b).
Proof. reflexivity. Qed.
Lemma concat_cols idc an bn a b : cols (sem_concat idc an bn a b) = cols a ++ match idc with Some c => [c] | None => [] end.
Proof. unfold sem_concat. destruct idc; simpl; [reflexivity|rewrite app_nil_r; reflexivity]. Qed.

Theorem agree_bag fl0 p e : causes_bag fl0 p e = [] -> forall fl, same_bag (sem_gen fl p e) (sem_gen fl0 p e).
Proof.
  induction p as [n tc|s IH ops wd w|s IH ops gb|s IH x|s IH cs|s IH cs|s IH m|s IH m dels|s IH cs rev lim
                  |a IHa b IHb on_a on_b jt|a IHa b IHb idc an bn]; intros H fl.
  - apply same_bag_eq. apply agree_core. exact H.
  - destruct wd; [apply same_bag_eq; apply agree_core; exact H|].
    cbn [causes_bag] in H. apply app_eq_nil in H. destruct H as [H1 H2]. specialize (IH H1 fl). cbn [sem_gen].
    destruct (sem_gen fl s e) as [t|], (sem_gen fl0 s e) as [t0|]; cbn [option_map same_bag on_table] in *; try tauto. destruct IH as [C P].
    rewrite <- (extend_agree fl0 ops t0 H2 fl). apply extend_perm; assumption.
  - apply same_bag_eq. apply agree_core. exact H.
  - cbn [causes_bag] in H. apply app_eq_nil in H. destruct H as [H1 H2]. specialize (IH H1 fl). cbn [sem_gen].
    destruct (sem_gen fl s e) as [t|], (sem_gen fl0 s e) as [t0|]; cbn [option_map same_bag on_table] in *; try tauto. destruct IH as [C P].
    rewrite <- (select_agree fl0 x t0 H2 fl). split; [exact C|]. apply select_rows_perm; assumption.
  - cbn [causes_bag] in H. specialize (IH H fl). cbn [sem_gen].
    destruct (sem_gen fl s e) as [t|], (sem_gen fl0 s e) as [t0|]; cbn [option_map same_bag on_table] in *; try tauto. destruct IH as [C P].
    split; [reflexivity|]. apply select_cols_perm; assumption.
  - cbn [causes_bag] in H. specialize (IH H fl). cbn [sem_gen].
    destruct (sem_gen fl s e) as [t|], (sem_gen fl0 s e) as [t0|]; cbn [option_map same_bag on_table] in *; try tauto. destruct IH as [C P].
    unfold sem_drop_cols. rewrite C. split; [reflexivity|]. apply select_cols_perm; assumption.
  - cbn [causes_bag] in H. specialize (IH H fl). cbn [sem_gen].
    destruct (sem_gen fl s e) as [t|], (sem_gen fl0 s e) as [t0|]; cbn [option_map same_bag on_table] in *; try tauto. destruct IH as [C P].
    unfold sem_rename; cbn [cols rows]. rewrite C. split; [reflexivity|exact P].
  - cbn [causes_bag] in H. specialize (IH H fl). cbn [sem_gen].
    destruct (sem_gen fl s e) as [t|], (sem_gen fl0 s e) as [t0|]; cbn [option_map same_bag on_table] in *; try tauto. destruct IH as [C P].
    assert (cols (sem_rename m t) = cols (sem_rename m t0)) as C2 by (unfold sem_rename; cbn [cols]; rewrite C; reflexivity).
    unfold sem_drop_cols. rewrite C2. split; [reflexivity|]. apply select_cols_perm; [exact C2|exact P].
  - destruct lim as [n|]; [apply same_bag_eq; apply agree_core; exact H|].
    cbn [causes_bag] in H. specialize (IH H fl). cbn [sem_gen].
    destruct (sem_gen fl s e) as [t|], (sem_gen fl0 s e) as [t0|]; cbn [option_map same_bag on_table] in *; try tauto. destruct IH as [C P].
    split; [exact C|].
    eapply perm_trans; [apply (order_rows_is_permutation fl cs rev t)|].
    eapply perm_trans; [exact P|]. apply Permutation_sym. apply (order_rows_is_permutation fl0 cs rev t0).
  - cbn [causes_bag] in H. apply app_eq_nil in H. destruct H as [H1 H]. apply app_eq_nil in H. destruct H as [H2 H3].
    specialize (IHa H1 fl). specialize (IHb H2 fl). cbn [sem_gen].
    destruct (sem_gen fl a e) as [ta|], (sem_gen fl0 a e) as [ta0|]; cbn [same_bag] in IHa; try tauto;
      destruct (sem_gen fl b e) as [tb|], (sem_gen fl0 b e) as [tb0|]; cbn [same_bag] in IHb; try tauto; cbn [same_bag].
    destruct IHa as [Ca Pa], IHb as [Cb Pb].
    rewrite <- (join_agree on_a on_b jt ta0 tb0 H3 (f_join_null_match fl) (f_join_null_match fl0)).
    split; [rewrite !join_cols, Ca, Cb; reflexivity|]. apply join_perm; assumption.
  - cbn [causes_bag] in H. apply app_eq_nil in H. destruct H as [H1 H2].
    specialize (IHa H1 fl). specialize (IHb H2 fl). cbn [sem_gen].
    destruct (sem_gen fl a e) as [ta|], (sem_gen fl0 a e) as [ta0|]; cbn [same_bag] in IHa; try tauto;
      destruct (sem_gen fl b e) as [tb|], (sem_gen fl0 b e) as [tb0|]; cbn [same_bag] in IHb; try tauto; cbn [same_bag].
    destruct IHa as [Ca Pa], IHb as [Cb Pb].
    split; [rewrite !concat_cols, Ca; reflexivity|]. apply concat_perm; assumption.
Qed.

Theorem insensitive_bag_same_columns_and_rows p e t : insensitive_bag p e = true -> sem_gen fl_pandas p e = Some t ->
  forall fl, exists t', sem_gen fl p e = Some t' /\ cols t' = cols t /\ Permutation (rows t') (rows t).
Proof.
  unfold insensitive_bag. intros N E fl. pose proof (agree_bag fl_pandas p e (is_nil_true _ N) fl) as B.
  rewrite E in B. destruct (sem_gen fl p e) as [t'|]; simpl in B; [|destruct B].
  exists t'. split; [reflexivity|exact B].
Qed.

(* the strict walk implies the multiset walk: what `causes` accepts, `causes_bag` accepts *)
Lemma causes_bag_sub fl p e : causes fl p e = [] -> causes_bag fl p e = [].
Proof.
  induction p as [n tc|s IH ops wd w|s IH ops gb|s IH x|s IH cs|s IH cs|s IH m|s IH m dels|s IH cs rev lim
                  |a IHa b IHb on_a on_b jt|a IHa b IHb idc an bn]; intros H; cbn [causes_bag]; try exact H; cbn [causes] in H.
  - destruct wd; [exact H|]. apply app_eq_nil in H. destruct H as [H1 H2]. rewrite (IH H1). exact H2.
  - apply app_eq_nil in H. destruct H as [H1 H2]. rewrite (IH H1). exact H2.
  - apply IH, H.
  - apply IH, H.
  - apply IH, H.
  - apply IH, H.
  - destruct lim; [exact H|]. apply app_eq_nil in H. destruct H as [H1 H2]. apply IH, H1.
  - apply app_eq_nil in H. destruct H as [H1 H]. apply app_eq_nil in H. destruct H as [H2 H3]. rewrite (IHa H1), (IHb H2). exact H3.
  - apply app_eq_nil in H. destruct H as [H1 H2]. rewrite (IHa H1), (IHb H2). reflexivity.
Qed.

(* ---------- the boolean comparison of model tables is reflexive (so equal tables `agree`) *)
Lemma row_eqv_refl r : row_eqv r r = true.
Proof. induction r as [|x t IH]; simpl; [reflexivity|]. rewrite SemBasicP.v_eqv_refl, IH. reflexivity. Qed.
Lemma rows_eqv_refl l : rows_eqv l l = true.
Proof. induction l as [|x t IH]; simpl; [reflexivity|]. rewrite row_eqv_refl, IH. reflexivity. Qed.
Lemma bag_eqv_refl l : bag_eqv l l = true.
Proof. induction l as [|x t IH]; simpl; [reflexivity|]. rewrite row_eqv_refl. exact IH. Qed.
Lemma tables_agree_refl ordered o : tables_agree ordered o o = true.
Proof.
  destruct o as [t|]; simpl; [|reflexivity]. rewrite eqb_refl. simpl.
  destruct ordered; [apply rows_eqv_refl|apply bag_eqv_refl].
Qed.

Theorem insensitive_tables_agree p e : insensitive p e = true ->
  forall fl fl' ordered, tables_agree ordered (sem_gen fl p e) (sem_gen fl' p e) = true.
Proof.
  unfold insensitive. intros N fl fl' ordered. apply is_nil_true in N.
  rewrite (agree_core fl_pandas p e N fl), (agree_core fl_pandas p e N fl'). apply tables_agree_refl.
Qed.
