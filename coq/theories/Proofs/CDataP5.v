(* C17, part 5: blocks -> rows -> blocks. *)
From Coq Require Import List Bool Arith ZArith QArith String Ascii Lia Permutation.
Import ListNotations.
From DA Require Import Base.PyRT Base.Val Model.CData Proofs.CDataP1 Proofs.CDataP2 Proofs.CDataP3 Proofs.CDataP4.

Lemma andb_eqb_true {A B} `{EqDec A} `{EqDec B} (a a' : A) (b b' : B) : eqb a a' && eqb b b' = true <-> a = a' /\ b = b'.
Proof. rewrite andb_true_iff, !eqb_true. reflexivity. Qed.

Lemma nm_in_rc S cr n : spec_facts S -> In cr (rows (rs_ct S)) -> In n (nm S cr) -> In n (row_columns S).
Proof. intros F Hcr Hn. apply In_rc. right. rewrite (content_keys_cnames S F). eapply nm_In_cnames; eassumption. Qed.

Theorem roundtrip_blocks S T : strict_spec S = true -> complete_blocks S T = true ->
  exists X B, blocks_to_rowrecs S T = Ok X /\ Permutation (cols X) (row_columns S) /\ keyed_by (rs_keys S) X = true /\
              rowrecs_to_blocks S X = Ok B /\ tbl_eqv B (select_cols (block_columns S) T).
Proof. intros HS HC. pose proof (strict_spec_facts S HS) as F.
  unfold complete_blocks in HC. apply andb_true_iff in HC. destruct HC as [HC C4].
  apply andb_true_iff in HC. destruct HC as [HC C3]. apply andb_true_iff in HC. destruct HC as [HC Hsub].
  pose proof (proj1 (keyed_by_facts _ _) HC) as KF. pose proof (proj1 (subset_spec _ _) Hsub) as Sub. clear HC Hsub.
  rewrite forallb_forall in C3, C4.
  set (rc := row_columns S) in *. set (RK := rs_keys S) in *. set (CK := rs_ctkeys S) in *. set (VC := value_cols S) in *.
  set (bc := block_columns S) in *. set (ctrows := rows (rs_ct S)) in *.
  destruct (rows T) as [|r0 rs0] eqn:ET.
  - exists (mktable rc []), (mktable bc []). split; [apply b2r_empty; exact ET|]. split; [reflexivity|].
    split; [apply keyed_by_facts; constructor; simpl; [intros c Hc; apply In_rc; left; exact Hc|intros r []|constructor]|].
    split; [apply r2b_empty; reflexivity|].
    split; [reflexivity|]. simpl. try rewrite ET. constructor.
  - assert (NE : rows T <> []) by (rewrite ET; discriminate). rewrite <- ET in C3, C4. clear ET r0 rs0.
    set (sel := fun r => cells (cols T) r bc).
    set (d := rows (select_cols bc T)).
    assert (Ed : d = map sel (rows T)) by reflexivity.
    assert (RKbc : forall c, In c RK -> In c bc) by (intros c Hc; apply (rk_in_bc S); exact Hc).
    assert (CKbc : forall c, In c CK -> In c bc) by (intros c Hc; apply (ck_in_bc S F); exact Hc).
    assert (VCbc : forall c, In c VC -> In c bc) by (intros c Hc; apply (vc_in_bc S); exact Hc).
    assert (sel_rk : forall r, cells bc (sel r) RK = cells (cols T) r RK) by (intros r; apply cells_cells; exact RKbc).
    assert (sel_ck : forall r, cells bc (sel r) CK = cells (cols T) r CK) by (intros r; apply cells_cells; exact CKbc).
    assert (sel_key : forall r, cells bc (sel r) RK ++ cells bc (sel r) CK = cells (cols T) r (RK ++ CK)).
    { intros r. rewrite sel_rk, sel_ck, cells_app. reflexivity. }
    assert (d_In : forall x, In x d -> exists r, In r (rows T) /\ x = sel r).
    { intros x Hx. rewrite Ed in Hx. apply in_map_iff in Hx. destruct Hx as [r [E Hr]]. exists r. auto. }
    assert (d_self : forall x, In x d -> cells bc x bc = x).
    { intros x Hx. destruct (d_In x Hx) as [r [_ ->]]. apply cells_cells. auto. }
    assert (Nkey : NoDup (map (fun x => cells bc x RK ++ cells bc x CK) d)).
    { rewrite Ed, map_map. rewrite (map_ext _ (fun r => cells (cols T) r (RK ++ CK))) by exact sel_key. apply (kf_nodup _ _ KF). }
    assert (Nd : NoDup d) by (eapply NoDup_map_NoDup; exact Nkey).
    set (recs := dedup [] (map (fun x => cells bc x RK) d)).
    set (brow := fun (p : list val) (cr : list val) =>
                   hd [] (filter (fun x => eqb (cells bc x RK) p && eqb (cells bc x CK) (kap S cr)) d)).
    assert (recs_In : forall p, In p recs <-> exists x, In x d /\ cells bc x RK = p).
    { intros p. unfold recs. rewrite In_dedup, in_map_iff. simpl. split; [intros [[x [E Hx]] _]; exists x; auto|intros [x [Hx E]]; split; [exists x; auto|tauto]]. }
    assert (Find : forall p cr, In p recs -> In cr ctrows ->
               exists x, In x d /\ cells bc x RK = p /\ cells bc x CK = kap S cr /\ brow p cr = x).
    { intros p cr Hp Hcr. apply recs_In in Hp. destruct Hp as [x1 [Hx1 E1]]. destruct (d_In x1 Hx1) as [r1 [Hr1 ->]].
      specialize (C4 r1 Hr1). rewrite forallb_forall in C4.
      assert (Hk : In (kap S cr) (ct_keys_of S)) by (rewrite ct_keys_of_kap; apply in_map; exact Hcr).
      specialize (C4 _ Hk). apply mem_In in C4. apply in_map_iff in C4. destruct C4 as [r2 [E2 Hr2]].
      rewrite cells_app in E2. apply app_inv_length in E2; [|rewrite !cells_length; reflexivity]. destruct E2 as [E2a E2b].
      exists (sel r2).
      assert (I2 : In (sel r2) d) by (rewrite Ed; apply in_map; exact Hr2).
      assert (P1 : cells bc (sel r2) RK = p) by (rewrite sel_rk, E2a, <- sel_rk; exact E1).
      assert (P2 : cells bc (sel r2) CK = kap S cr) by (rewrite sel_ck; exact E2b).
      split; [exact I2|]. split; [exact P1|]. split; [exact P2|].
      unfold brow. rewrite (filter_unique _ d (sel r2)); [reflexivity|exact Nd|exact I2| |].
      - apply andb_eqb_true. auto.
      - intros y Hy Ey. apply andb_eqb_true in Ey. destruct Ey as [Ey1 Ey2].
        eapply (NoDup_map_inv _ d y (sel r2) Nkey Hy I2). simpl. rewrite Ey1, Ey2, P1, P2. reflexivity. }
    assert (recs_len : forall p, In p recs -> List.length p = List.length RK).
    { intros p Hp. apply recs_In in Hp. destruct Hp as [x [_ <-]]. apply cells_length. }
    assert (Nrecs : NoDup recs) by apply NoDup_dedup.
    assert (keyflat : map (fun x => cells bc x RK ++ cells bc x CK) (flat_map (fun p => map (brow p) ctrows) recs)
                      = flat_map (fun p => map (fun cr => p ++ kap S cr) ctrows) recs).
    { rewrite map_flat_map. apply flat_map_ext_in. intros p Hp. rewrite map_map. apply map_ext_in. intros cr Hcr.
      destruct (Find p cr Hp Hcr) as [x [_ [E1 [E2 ->]]]]. rewrite E1, E2. reflexivity. }
    assert (Hperm : Permutation d (flat_map (fun p => map (brow p) ctrows) recs)).
    { apply NoDup_Permutation; [exact Nd| |].
      - eapply NoDup_map_NoDup. rewrite keyflat.
        apply (NoDup_product (fun p => p) (kap S) recs ctrows (List.length RK)); [rewrite map_id; exact Nrecs|apply (sf_keys_nodup S F)|exact recs_len].
      - intros x. split.
        + intros Hx. destruct (d_In x Hx) as [r [Hr Ex]].
          specialize (C3 r Hr). apply mem_In in C3. rewrite ct_keys_of_kap in C3. apply in_map_iff in C3. destruct C3 as [cr [Ecr Hcr]].
          assert (Hp : In (cells bc x RK) recs) by (apply recs_In; exists x; auto).
          apply in_flat_map. exists (cells bc x RK). split; [exact Hp|]. apply in_map_iff. exists cr. split; [|exact Hcr].
          destruct (Find _ cr Hp Hcr) as [x' [Hx' [E1 [E2 ->]]]].
          eapply (NoDup_map_inv _ d x' x Nkey Hx' Hx). simpl. rewrite E1, E2, Ecr, Ex, sel_ck. reflexivity.
        + intros Hx. apply in_flat_map in Hx. destruct Hx as [p [Hp M]]. apply in_map_iff in M. destruct M as [cr [<- Hcr]].
          destruct (Find p cr Hp Hcr) as [x' [Hx' [_ [_ ->]]]]. exact Hx'. }
    assert (recsNE : recs <> []).
    { destruct (rows T) as [|r1 rs1] eqn:ET; [congruence|]. intros E.
      assert (I : In (cells bc (sel r1) RK) recs) by (apply recs_In; exists (sel r1); split; [rewrite Ed; left; reflexivity|reflexivity]).
      rewrite E in I. destruct I. }
    assert (recs_ok : forall p, In p recs -> key_ok p = true).
    { intros p Hp. apply recs_In in Hp. destruct Hp as [x [Hx <-]]. destruct (d_In x Hx) as [r [Hr ->]].
      pose proof (kf_ok _ _ KF r Hr) as K0. rewrite cells_app, key_ok_app in K0. apply andb_true_iff in K0. rewrite sel_rk. tauto. }
    destruct (b2r_char S F (list val) (fun p => p) (fun p cr => cells bc (brow p cr) VC) brow recs T) as [G [rows' [HG [EB HP]]]].
    + exact Hperm.
    + exact recsNE.
    + rewrite map_id. exact Nrecs.
    + exact recs_ok.
    + exact recs_len.
    + intros p cr Hp Hcr. destruct (Find p cr Hp Hcr) as [x [_ [E1 [_ ->]]]]. exact E1.
    + intros p cr Hp Hcr. destruct (Find p cr Hp Hcr) as [x [_ [_ [E2 ->]]]]. exact E2.
    + reflexivity.
    + set (X := mktable (RK ++ List.concat (map (nm S) G)) rows').
      set (vals := fun p cr => cells bc (brow p cr) VC).
      set (xrow := fun p => p ++ List.concat (map (vals p) G)).
      assert (LV : forall p cr, In cr G -> List.length (vals p cr) = List.length (nm S cr)).
      { intros p cr _. unfold vals. rewrite cells_length, nm_length. reflexivity. }
      assert (xrow_rk : forall p, In p recs -> cells (cols X) (xrow p) RK = p).
      { intros p Hp. apply (rowrec_rk S F G p (vals p)). apply recs_len. exact Hp. }
      assert (xrow_nm : forall p cr, In p recs -> In cr ctrows -> cells (cols X) (xrow p) (nm S cr) = vals p cr).
      { intros p cr Hp Hcr. apply (rowrec_names S F G HG p (vals p)); [apply recs_len; exact Hp|intros; apply LV; assumption|exact Hcr]. }
      assert (rows'_In : forall r, In r rows' -> exists p, In p recs /\ r = xrow p).
      { intros r Hr. apply (Permutation_in _ HP) in Hr. apply in_map_iff in Hr. destruct Hr as [p [E Hp]]. exists p. auto. }
      assert (RKrc : forall c, In c RK -> In c rc) by (intros c Hc; apply In_rc; left; exact Hc).
      assert (NEX : rows X <> []).
      { simpl. intros E. rewrite E in HP. apply Permutation_nil in HP. destruct recs; [congruence|discriminate]. }
      assert (K : is_keyed RK (select_cols rc X) = Ok true).
      { apply is_keyed_ok.
        - simpl. apply subset_spec. exact RKrc.
        - simpl. intros y Hy. apply in_map_iff in Hy. destruct Hy as [r [<- Hr]]. rewrite cells_cells by exact RKrc.
          destruct (rows'_In r Hr) as [p [Hp ->]]. rewrite xrow_rk by exact Hp. apply recs_ok. exact Hp.
        - simpl. rewrite map_map.
          eapply Permutation_NoDup; [apply Permutation_map; apply Permutation_sym; exact HP|]. rewrite map_map.
          rewrite (map_ext_in _ (fun p => p)); [rewrite map_id; exact Nrecs|].
          intros p Hp. rewrite cells_cells by exact RKrc. apply xrow_rk. exact Hp. }
      exists X. eexists. split; [exact EB|]. split; [apply (rowrec_cols_perm S F G HG)|].
      split.
      { apply keyed_by_facts. constructor.
        - intros c Hc. simpl. apply in_app_iff. left. exact Hc.
        - intros r Hr. destruct (rows'_In r Hr) as [p [Hp ->]]. rewrite xrow_rk by exact Hp. apply recs_ok. exact Hp.
        - simpl rows. eapply Permutation_NoDup; [apply Permutation_map; apply Permutation_sym; exact HP|]. rewrite map_map.
          rewrite (map_ext_in _ (fun p => p)); [rewrite map_id; exact Nrecs|]. intros p Hp. apply xrow_rk. exact Hp. }
      split; [apply (r2b_unfold S X NEX K)|].
      split; [apply r2b_cols_perm; exact F|].
      simpl rows. simpl cols. fold bc. fold d.
      etransitivity; [apply Permutation_map; apply sort_rows_perm|].
      (* the selected rows of X, as images of the records *)
      set (selX := fun r => cells (cols X) r rc).
      assert (PX : Permutation (map selX rows') (map (fun p => selX (xrow p)) recs)).
      { rewrite <- (map_map xrow selX). apply Permutation_map. exact HP. }
      etransitivity.
      { apply Permutation_map. apply perm_flat_map_ext. intros cr _. apply Permutation_map. exact PX. }
      etransitivity; [apply map_flat_map_transpose|].
      rewrite flat_map_map.
      etransitivity; [|apply Permutation_sym; exact Hperm].
      apply Permutation_refl'. apply flat_map_ext_in. intros p Hp. apply map_ext_in. intros cr Hcr.
      destruct (Find p cr Hp Hcr) as [x [Hx [E1 [E2 Eb]]]].
      unfold r2b_row. fold rc. fold RK. unfold selX.
      rewrite (cells_cells (cols X) (xrow p) rc RK) by exact RKrc. rewrite (xrow_rk p Hp).
      rewrite (cells_cells (cols X) (xrow p) rc (nm S cr)) by (intros n Hn; eapply nm_in_rc; eassumption).
      rewrite (xrow_nm p cr Hp Hcr). unfold vals. rewrite Eb.
      rewrite <- E1 at 1. rewrite <- E2. rewrite <- !cells_app.
      change (RK ++ CK ++ VC) with (r2b_cols S).
      rewrite cells_cells by (intros c Hc; apply r2b_cols_of_bc; assumption).
      apply d_self. exact Hx.
Qed.
