(* SQLGEN, part 1: projections of tables, row-wise agreement on a column set, and the locality of one SQL SELECT
   (Model/SqlSem.v sql_select): it reads its input only through the columns its items and its suffix name. *)
From Coq Require Import List Bool Arith ZArith QArith String Lia.
Import ListNotations.
From DA Require Import Base.PyRT Base.Val Model.Sem Proofs.SemBasicP Model.ColumnsUsed Proofs.ColumnsUsedP1 Proofs.ColumnsUsedP2
  Model.SqlGen Model.SqlSem.
Local Open Scope list_scope.

Notation sel := sem_select_cols.
Definition osel (C : list string) (o : option table) : option table := option_map (sel C) o.

(* rows of B carry, position by position, the cells of A in the columns us *)
Definition RA (us : list string) (A B : table) : Prop := Forall2 (rowrel us (cols A) (cols B)) (rows A) (rows B).

Lemma sel_cols C t : cols (sel C t) = C. Proof. reflexivity. Qed.

Lemma get_sel_row cs r C k : In k C -> get C (map (get cs r) C) k = get cs r k.
Proof. intros I. rewrite get_map_cols. apply mem_In in I. rewrite I. reflexivity. Qed.

Lemma sel_sel K C t : incl K C -> sel K (sel C t) = sel K t.
Proof.
  intros I. unfold sem_select_cols. cbn [cols rows]. f_equal. rewrite map_map. apply map_ext. intros r.
  apply map_ext_in. intros k Hk. apply get_sel_row. apply I, Hk.
Qed.

Lemma sel_eq_RA C A B : sel C A = sel C B <-> RA C A B.
Proof.
  unfold sem_select_cols, RA. split.
  - intros E. injection E as E. revert E. generalize (rows B). induction (rows A) as [|r t IH]; intros [|r' t'] E; simpl in E; try discriminate; constructor.
    + injection E as E1 _. intros c Hc. clear IH. induction C as [|x C' IHC]; [destruct Hc|]. simpl in E1. injection E1 as E1 E2.
      destruct Hc as [<-|Hc]; [exact E1|]. apply IHC; assumption.
    + apply IH. injection E as _ E. exact E.
  - intros H. f_equal. eapply F2_map_eq; [exact H|]. intros r r' R. apply map_ext_in. intros c Hc. apply R, Hc.
Qed.

Lemma RA_refl us A : RA us A A.
Proof. unfold RA. induction (rows A); constructor; [intros c _; reflexivity|assumption]. Qed.
Lemma RA_sym us A B : RA us A B -> RA us B A.
Proof. unfold RA. generalize (rows A) (rows B). induction 1; constructor; [intros c Hc; symmetry; auto|assumption]. Qed.
Lemma RA_trans us A B C : RA us A B -> RA us B C -> RA us A C.
Proof.
  unfold RA. generalize (rows A) (rows B) (rows C). intros la lb lc H. revert lc.
  induction H as [|x y l l' Rxy _ IH]; intros lc H2; inversion H2; subst; constructor.
  - intros c Hc. rewrite (Rxy c Hc). auto.
  - apply IH. assumption.
Qed.
Lemma RA_mono us us' A B : incl us us' -> RA us' A B -> RA us A B.
Proof. intros I H. eapply F2_weaken; [exact H|]. intros r r' R c Hc. apply R, I, Hc. Qed.
Lemma RA_sel us A : RA us A (sel us A).
Proof.
  unfold RA, sem_select_cols. cbn [cols rows]. induction (rows A) as [|r t IH]; simpl; constructor; [|exact IH].
  intros c Hc. symmetry. apply get_sel_row, Hc.
Qed.
Lemma RA_of_sel_eq us A B : sel us A = sel us B -> RA us A B.
Proof. apply sel_eq_RA. Qed.
Lemma RA_length us A B : RA us A B -> List.length (rows A) = List.length (rows B).
Proof. apply F2_length. Qed.

Lemma sel_nil_length A B : List.length (rows A) = List.length (rows B) -> sel [] A = sel [] B.
Proof.
  intros L. unfold sem_select_cols. f_equal. simpl. revert L. generalize (rows A) (rows B).
  induction l as [|x t IH]; intros [|y u] L; simpl in *; try discriminate; [reflexivity|]. f_equal. apply IH. lia.
Qed.
Lemma sel_nil_of_RA us A B : RA us A B -> sel [] A = sel [] B.
Proof. intros H. apply sel_nil_length. eapply RA_length, H. Qed.
Lemma sel_nil_sel K A : sel [] (sel K A) = sel [] A.
Proof. apply sel_sel. intros x []. Qed.

(* agree (C10) on a set gives equal projections on every part of it *)
Lemma agree_sel u K T T' : agree u T T' -> incl K u -> sel K T = sel K T'.
Proof. intros [_ [_ H]] I. apply sel_eq_RA. eapply RA_mono; [exact I|exact H]. Qed.

Lemma agree_self_sel us S : incl us (cols S) -> agree us S (sel us S).
Proof.
  intros I. split; [exact I|]. split; [intros c Hc _; exact Hc|]. apply RA_sel.
Qed.

(* ------------------------------------------------------------------ what a SELECT reads *)
Definition item_cols (kt : string * tterm) : list string :=
  match snd kt with
  | TmPass | TmSelf => [fst kt]
  | TmCol c => [c]
  | TmExpr e | TmAgg e => cols_used e
  | TmWin e part okeys => part ++ map fst okeys ++ cols_used e
  | TmCoalesce _ c => [c]
  end.
Definition sfx_cols (s : tsuffix) : list string :=
  match s with SfxNone => [] | SfxWhere e => cols_used e | SfxGroup gb => gb | SfxOrder keys _ => map fst keys end.

Section Local.
Variable fl : flavor.

Lemma eval_item_local cs cs' r r' k t :
  (forall x, In x (item_cols (k, t)) -> get cs r x = get cs' r' x) -> eval_item fl cs r k t = eval_item fl cs' r' k t.
Proof.
  destruct t; simpl; intros H; try reflexivity; try (apply H; left; reflexivity).
  apply eval_expr_local. exact H.
Qed.

Lemma sql_window_column_is fl' w t e :
  window_column fl' w t e = sql_window_column fl' (w_part w) (map (fun c => (c, mem c (w_rev w))) (w_order w)) t e.
Proof. reflexivity. Qed.

Lemma sql_window_column_local part okeys e A B :
  Forall2 (fun r r' => forall x, In x (part ++ map fst okeys ++ cols_used e) -> get (cols A) r x = get (cols B) r' x) (rows A) (rows B) ->
  sql_window_column fl part okeys A e = sql_window_column fl part okeys B e.
Proof.
  intros H. unfold sql_window_column.
  assert (map (fun r => key_of (cols A) part r) (rows A) = map (fun r => key_of (cols B) part r) (rows B)) as EK.
  { eapply F2_map_eq; [exact H|]. cbv beta. intros r r' R. apply key_of_local. intros x I. apply R. apply in_app_iff. left. exact I. }
  rewrite EK. apply flat_map_ext. intros k.
  set (Rt := fun (a b : nat * list val) => fst a = fst b /\
                (forall x, In x (part ++ map fst okeys ++ cols_used e) -> get (cols A) (snd a) x = get (cols B) (snd b) x)).
  assert (Forall2 Rt (tag_from 0 (rows A)) (tag_from 0 (rows B))) as HT.
  { exact (@F2_tag_from (fun r r' => forall x, In x (part ++ map fst okeys ++ cols_used e) -> get (cols A) r x = get (cols B) r' x) 0 _ _ H). }
  assert (Forall2 Rt (filter (fun ir => keys_eqv k (key_of (cols A) part (snd ir))) (tag_from 0 (rows A)))
                     (filter (fun ir => keys_eqv k (key_of (cols B) part (snd ir))) (tag_from 0 (rows B)))) as HF.
  { eapply F2_filter; [exact HT|]. intros a b [_ R]. cbv beta. f_equal. apply key_of_local. intros x I. apply R. apply in_app_iff. left. exact I. }
  match goal with |- context [stable_sort ?le ?l] => set (le1 := le); set (l1 := l) in * end.
  match goal with |- context [stable_sort ?le (filter ?f (tag_from 0 (rows B)))] => set (le2 := le); set (l2 := filter f (tag_from 0 (rows B))) in * end.
  assert (Forall2 Rt (stable_sort le1 l1) (stable_sort le2 l2)) as HS.
  { apply F2_stable_sort; [|exact HF]. intros a b c d [_ R1] [_ R2]. unfold le1, le2. apply row_le_local.
    - intros x I. apply R1. apply in_app_iff. right. apply in_app_iff. left. exact I.
    - intros x I. apply R2. apply in_app_iff. right. apply in_app_iff. left. exact I. }
  assert (map fst (stable_sort le1 l1) = map fst (stable_sort le2 l2)) as EF.
  { eapply F2_map_eq; [exact HS|]. intros a b [E _]. exact E. }
  destruct (win_parts e) as [[[o arg] extra]|] eqn:WP.
  - rewrite EF. f_equal. f_equal. eapply F2_map_eq; [exact HS|]. intros a b [_ R]. cbv beta.
    destruct arg as [a0|]; [|reflexivity]. apply eval_expr_local. intros x I. apply R.
    apply in_app_iff. right. apply in_app_iff. right. eapply win_parts_arg_cols; eassumption.
  - eapply F2_map_eq; [exact HS|]. intros a b [E _]. cbv beta. rewrite E. reflexivity.
Qed.

(* rows of a row-wise / windowed SELECT over two inputs that agree on what the items read *)
Lemma select_rows_of_local us A B items ra rb :
  RA us A B -> (forall kt, In kt items -> incl (item_cols kt) us) ->
  Forall2 (fun a b => fst a = fst b /\ rowrel us (cols A) (cols B) (snd a) (snd b)) ra rb ->
  select_rows_of fl A items ra = select_rows_of fl B items rb.
Proof.
  intros H Hi Hr. unfold select_rows_of.
  assert (map (fun kt => match snd kt with TmWin e part okeys => sql_window_column fl part okeys A e | _ => [] end) items
          = map (fun kt => match snd kt with TmWin e part okeys => sql_window_column fl part okeys B e | _ => [] end) items) as EW.
  { apply map_ext_in. intros [k t] I. simpl. destruct t; try reflexivity. apply sql_window_column_local.
    eapply F2_weaken; [exact H|]. intros r r' R x Hx. apply R. apply (Hi _ I). exact Hx. }
  rewrite EW. eapply F2_map_eq; [exact Hr|]. intros [i r] [j r'] [E R]. simpl in E, R. subst j. cbv beta. cbn [fst snd].
  apply map_ext_in. intros [[k t] wc] I. cbn [fst snd].
  assert (In (k, t) items) as Ik by (apply in_combine_l in I; exact I).
  destruct t; try reflexivity; try (apply eval_item_local; intros x Hx; apply R; apply (Hi _ Ik); exact Hx).
Qed.

Lemma agg_item_local us cs cs' gb key grp grp' k t :
  Forall2 (rowrel us cs cs') grp grp' -> incl (item_cols (k, t)) us ->
  agg_item fl cs gb key grp k t = agg_item fl cs' gb key grp' k t.
Proof.
  intros H I. unfold agg_item.
  assert (forall c, In c us -> get cs (hd [] grp) c = get cs' (hd [] grp') c) as Hh.
  { intros c Hc. destruct H as [|x y l l' R _]; simpl; [unfold get; destruct (index_of c cs), (index_of c cs'); try destruct n; try destruct n0; reflexivity|apply R, Hc]. }
  destruct t; simpl in *.
  - destruct (index_of k gb); [reflexivity|]. apply Hh, I. left. reflexivity.
  - destruct (index_of k gb); [reflexivity|]. apply Hh, I. left. reflexivity.
  - destruct (index_of c gb); [reflexivity|]. apply Hh, I. left. reflexivity.
  - apply eval_expr_local. intros x Hx. apply Hh, I, Hx.
  - apply agg_value_local. eapply F2_weaken; [exact H|]. intros r r' R x Hx. apply R, I, Hx.
  - reflexivity.
  - reflexivity.
Qed.

Lemma agg_rows_local us A B gb items :
  RA us A B -> incl gb us -> (forall kt, In kt items -> incl (item_cols kt) us) ->
  agg_rows fl A gb items = agg_rows fl B gb items.
Proof.
  intros H Hg Hi. unfold agg_rows.
  assert (forall r r', rowrel us (cols A) (cols B) r r' -> key_of (cols A) gb r = key_of (cols B) gb r') as KE.
  { intros r r' R. apply key_of_local. intros x I. apply R, Hg, I. }
  assert (map (key_of (cols A) gb) (rows A) = map (key_of (cols B) gb) (rows B)) as EK by (eapply F2_map_eq; [exact H|exact KE]).
  rewrite EK. apply map_ext. intros key. apply map_ext_in. intros [k t] I. cbn [fst snd].
  apply (agg_item_local us); [|apply (Hi _ I)].
  eapply F2_filter; [exact H|]. intros r r' R. cbv beta. rewrite (KE r r' R). reflexivity.
Qed.

Lemma sort_limit_local us A B keys lim :
  RA us A B -> incl (map fst keys) us ->
  Forall2 (rowrel us (cols A) (cols B)) (sort_limit fl (cols A) keys lim (rows A)) (sort_limit fl (cols B) keys lim (rows B)).
Proof.
  intros H I. unfold sort_limit.
  assert (Forall2 (rowrel us (cols A) (cols B)) (stable_sort (row_le fl (cols A) keys) (rows A)) (stable_sort (row_le fl (cols B) keys) (rows B))) as HS.
  { apply F2_stable_sort; [|exact H]. intros a b c d R1 R2. apply row_le_local; intros x Hx; [apply R1|apply R2]; apply I, Hx. }
  destruct lim; [apply F2_firstn|]; exact HS.
Qed.

Lemma tag_rel us ca cb (la lb : list (list val)) :
  Forall2 (rowrel us ca cb) la lb ->
  Forall2 (fun a b => fst a = fst b /\ rowrel us ca cb (snd a) (snd b)) (tag_from 0 la) (tag_from 0 lb).
Proof. intros H. exact (@F2_tag_from (rowrel us ca cb) 0 la lb H). Qed.

(* the locality of one SELECT with an explicit, non-empty SELECT list *)
Lemma sql_select_local us own l K sfx A B :
  RA us A B -> K <> [] ->
  (forall k, In k K -> incl (item_cols (k, term_of l k)) us) -> incl (sfx_cols sfx) us ->
  sql_select fl own (Some l) (Some K) sfx A = sql_select fl own (Some l) (Some K) sfx B.
Proof.
  intros H NE Hi Hs. unfold sql_select.
  assert (select_keys own (Some l) (Some K) = Some K) as EK.
  { unfold select_keys. destruct K as [|k0 K']; [congruence|]. simpl. rewrite andb_false_r. reflexivity. }
  rewrite EK.
  assert (forall kt, In kt (map (item_of_terms l) K) -> incl (item_cols kt) us) as Hi'.
  { intros kt I. apply in_map_iff in I. destruct I as [k [<- Ik]]. apply Hi, Ik. }
  destruct sfx as [|e|gb|keys lim]; simpl in Hs.
  - destruct (existsb _ _).
    + destruct (existsb _ _); [reflexivity|]. f_equal. f_equal. apply (agg_rows_local us); [exact H|intros x []|exact Hi'].
    + f_equal. f_equal. apply (select_rows_of_local us); [exact H|exact Hi'|]. apply tag_rel. exact H.
  - destruct (_ || _); [reflexivity|]. f_equal. f_equal. apply (select_rows_of_local us); [exact H|exact Hi'|]. apply tag_rel.
    eapply F2_filter; [exact H|]. intros r r' R. cbv beta. f_equal. apply eval_expr_local. intros x Hx. apply R, Hs, Hx.
  - destruct (existsb _ _); [reflexivity|]. f_equal. f_equal. apply (agg_rows_local us); [exact H|exact Hs|exact Hi'].
  - destruct (_ || _); [reflexivity|]. f_equal. f_equal. apply (select_rows_of_local us); [exact H|exact Hi'|]. apply tag_rel.
    apply sort_limit_local; assumption.
Qed.

(* SELECT * : only the number of rows is independent of the input's other columns *)
Lemma sql_select_star_rows own tms want sfx A B us :
  RA us A B -> select_keys own tms want = None -> incl (sfx_cols sfx) us ->
  match sql_select fl own tms want sfx A, sql_select fl own tms want sfx B with
  | Some X, Some Y => sel [] X = sel [] Y
  | None, None => True
  | _, _ => False
  end.
Proof.
  intros H E Hs. unfold sql_select. rewrite E. destruct sfx as [|e|gb|keys lim]; simpl in Hs.
  - eapply sel_nil_of_RA, H.
  - apply sel_nil_length. cbn [rows]. apply (F2_length (rowrel us (cols A) (cols B))).
    eapply F2_filter; [exact H|]. intros r r' R. cbv beta. f_equal. apply eval_expr_local. intros x Hx. apply R, Hs, Hx.
  - exact I.
  - apply sel_nil_length. cbn [rows]. apply (F2_length (rowrel us (cols A) (cols B))). apply sort_limit_local; assumption.
Qed.

End Local.
