(* SQLGEN, part 16: when the generator hands on a bare table step for a non-empty request, the stored table has exactly the
   requested columns (all node kinds, all dialects) -- what a join needs to know of an operand it refers to by name. *)
From Coq Require Import List Bool Arith ZArith QArith String Lia.
Import ListNotations.
From DA Require Import Base.PyRT Base.Val Model.Sem Proofs.SemBasicP Model.ColumnsUsed Proofs.ColumnsUsedP1 Proofs.ColumnsUsedP2
  Proofs.ColumnsUsedP4 Model.SqlGen Model.SqlSem Proofs.SqlGenP1 Proofs.SqlGenP2 Proofs.SqlGenP4 Proofs.SqlGenP5 Proofs.SqlGenP6
  Proofs.SqlGenP12 Proofs.SqlGenP15.
Local Open Scope list_scope.

Definition not_table (q : tnear) : Prop := forall n ts, q <> TTable n ts.
Lemma not_table_bare e q u : not_table q -> BareOk e q u.
Proof. intros H n ts E. destruct (H n ts E). Qed.

Lemma gen_join_not_table d srca srcb p a b on_a on_b jt lf usg n q n' :
  gen_join d srca srcb p a b on_a on_b jt lf usg n = Ok (q, n') -> not_table q.
Proof.
  unfold gen_join. destruct (negb (subset _ _)); [discriminate|]. unfold bind.
  destruct (srca _ _) as [[ql n2]| |]; try discriminate. destruct (srcb _ _) as [[qr n3]| |]; try discriminate.
  intros [= <- _] n0 ts X. discriminate.
Qed.

Lemma join_not_table : forall fuel d a b on_a on_b jt usg n q n',
  to_near_f fuel d (OJoin a b on_a on_b jt) usg n = Ok (q, n') -> not_table q.
Proof.
  induction fuel as [|fuel IH]; intros d a b on_a on_b jt usg n q n' H; [discriminate|]. cbn [to_near_f] in H.
  destruct jt.
  - exact (gen_join_not_table _ _ _ _ _ _ _ _ _ _ _ _ _ _ H).
  - exact (gen_join_not_table _ _ _ _ _ _ _ _ _ _ _ _ _ _ H).
  - destruct (d_rewrite_right d); exact (gen_join_not_table _ _ _ _ _ _ _ _ _ _ _ _ _ _ H).
  - destruct (d_rewrite_full d); [|exact (gen_join_not_table _ _ _ _ _ _ _ _ _ _ _ _ _ _ H)].
    destruct (is_nil on_a); [discriminate|]. destruct (negb (eqb on_a on_b)); [discriminate|]. unfold full_join_rewrite in H. exact (IH _ _ _ _ _ _ _ _ _ _ H).
Qed.

Section Bare.
Variable e : env.

Theorem gen_bare_ok : forall fuel d p usg n q n',
  builder_ok p = true -> wf_env e p ->
  incl (match usg with Some u => u | None => column_names p end) (column_names p) ->
  to_near_f fuel d p usg n = Ok (q, n') ->
  BareOk e q (match usg with Some u => u | None => column_names p end).
Proof.
  induction fuel as [|fuel IH]; intros d p usg n q n' BO WF Iu H; [discriminate|].
  set (u := match usg with Some u0 => u0 | None => column_names p end) in *.
  destruct p as [name cs|s ops wd w|s ops gb|s x|s cs|s ds|s m|s m dels|s cs rev lim|a b on_a on_b jt|a b idc an bn]; cbn [to_near_f] in H.
  - change (match usg with Some u0 => u0 | None => column_names (OTable name cs) end) with u in H.
    destruct (subset u cs) eqn:Sb; cbn [negb] in H; [|discriminate].
    destruct (negb (is_nil u) && negb (set_eqb u cs)) eqn:C; injection H as <- _; [apply bare_ok_unary|].
    intros n0 ts Eq NU. injection Eq as <- _. destruct (WF name cs (or_introl eq_refl)) as [st [G [EC _]]]. exists st. split; [exact G|].
    assert (is_nil u = false) as NN by (destruct u; [congruence|reflexivity]). rewrite NN in C. cbn [negb andb] in C. apply negb_false_iff in C.
    unfold set_eqb in C. apply andb_true_iff in C. destruct C as [C1 C2]. rewrite EC. intros c. split; [apply (proj1 (subset_spec _ _) C2)|apply (proj1 (subset_spec _ _) C1)].
  - unfold gen_extend in H.
    change (match usg with Some u0 => u0 | None => column_names (OExtend s ops wd w) end) with u in H.
    destruct (sub_ops u ops) as [|so0 sor] eqn:ESub.
    + destruct (bok_extend_full _ _ _ _ BO) as [BOs _].
      assert (incl u (column_names s)) as Ius.
      { intros k Ik. pose proof (Iu k Ik) as X. simpl in X. apply in_ext_cols in X. destruct X as [X|X]; [exact X|]. exfalso.
        apply in_map_iff in X. destruct X as [ke [Ek Ike]]. pose proof (in_sub_ops u ops ke Ike) as Y. rewrite Ek in Y. specialize (Y Ik). rewrite ESub in Y. destruct Y. }
      exact (IH d s (Some u) n q n' BOs (fun n0 cs0 I => WF n0 cs0 I) Ius H).
    + destruct (is_nil _); [discriminate|]. destruct (negb (subset _ _)); [discriminate|]. unfold bind in H.
      destruct (to_near_f fuel d s _ n) as [[sub n1]| |]; try discriminate.
      destruct (d_allow_extend_merges d).
      * destruct (try_sql_merge sub _ _) as [[m0| |]|] eqn:EM; try discriminate; injection H as <- _; [|apply bare_ok_unary].
        destruct (try_sql_merge_inv _ _ _ _ EM) as [n0 [ts [s00 [ci0 [ds0 [_ [_ ->]]]]]]]. apply bare_ok_unary.
      * injection H as <- _. apply bare_ok_unary.
  - unfold bind in H. destruct (to_near_f fuel d s _ n) as [[sub n1]| |]; try discriminate. injection H as <- _. apply bare_ok_unary.
  - unfold bind in H. destruct (to_near_f fuel d s _ n) as [[sub n1]| |]; try discriminate. injection H as <- _. apply bare_ok_unary.
  - (* select_columns *)
    change (match usg with Some u0 => u0 | None => column_names (OSelectCols s cs) end) with u in H. unfold bind in H.
    set (su := cfs1 (OSelectCols s cs) u) in *.
    destruct (to_near_f fuel d s (Some su) n) as [[sub n1]| |] eqn:ER; try discriminate.
    destruct (bok_select_cols _ _ BO) as [BOs _].
    assert (incl cs (column_names s)) as Ics.
    { simpl in BO. rewrite !andb_true_iff in BO. destruct BO as [[_ B] _]. exact (proj1 (subset_spec _ _) B). }
    assert (forall c, In c su <-> In c u) as Hsu.
    { intros c. unfold su, cfs1. simpl. rewrite In_set_inter. split; [tauto|]. intros I. split; [exact (Iu c I)|exact I]. }
    assert (incl su (column_names s)) as Isu by (intros c Hc; apply Ics; unfold su, cfs1 in Hc; simpl in Hc; apply In_set_inter in Hc; tauto).
    pose proof (IH d s (Some su) n sub n1 BOs (fun n0 cs0 I => WF n0 cs0 I) Isu ER) as BK. cbn beta iota in BK.
    assert (u <> [] -> su <> []) as NE by (intros NU X; destruct u as [|c0 t]; [congruence|]; assert (In c0 su) as I by (apply Hsu; left; reflexivity); rewrite X in I; destruct I).
    destruct (terms_is_none sub).
    + injection H as <- _. exact (bare_ok_empty e sub su u BK NE Hsu).
    + unfold narrow_or_first in H. destruct (match su with [] => _ | _ => _ end) as [q0|] eqn:EN; [|discriminate]. injection H as <- _.
      destruct su as [|c1 su']; [destruct (tkeys sub)|]; exact (bare_ok_restrict e sub _ q0 _ u BK EN NE Hsu).
  - (* drop_columns *)
    change (match usg with Some u0 => u0 | None => column_names (ODropCols s ds) end) with u in H. unfold bind in H.
    set (su := cfs1 (ODropCols s ds) u) in *.
    destruct (to_near_f fuel d s (Some su) n) as [[sub n1]| |] eqn:ER; try discriminate.
    pose proof (bok_drop _ _ BO) as BOs.
    assert (forall c, In c u -> In c (column_names s) /\ ~ In c ds) as Hu.
    { intros c Hc. pose proof (Iu c Hc) as X. simpl in X. apply filter_In in X. destruct X as [A B]. apply negb_true_iff, mem_false in B. tauto. }
    assert (forall c, In c su <-> In c u) as Hsu.
    { intros c. unfold su, cfs1. simpl. rewrite filter_In. split; [tauto|]. intros I. split; [exact I|apply negb_true_iff, mem_false; apply Hu, I]. }
    assert (incl su (column_names s)) as Isu by (intros c Hc; apply Hu, Hsu, Hc).
    pose proof (IH d s (Some su) n sub n1 BOs (fun n0 cs0 I => WF n0 cs0 I) Isu ER) as BK. cbn beta iota in BK.
    assert (u <> [] -> su <> []) as NE by (intros NU X; destruct u as [|c0 t]; [congruence|]; assert (In c0 su) as I by (apply Hsu; left; reflexivity); rewrite X in I; destruct I).
    destruct (terms_is_none sub).
    + destruct (filter _ u); [|discriminate]. injection H as <- _. exact (bare_ok_empty e sub su u BK NE Hsu).
    + unfold narrow_or_first in H. destruct (match filter _ u with [] => _ | _ => _ end) as [q0|] eqn:EN; [|discriminate]. injection H as <- _.
      destruct (filter _ u) as [|c1 k']; [destruct (tkeys sub)|]; exact (bare_ok_restrict e sub _ q0 _ u BK EN NE Hsu).
  - unfold bind in H. destruct (to_near_f fuel d s _ n) as [[sub n1]| |]; try discriminate. injection H as <- _. apply bare_ok_unary.
  - unfold bind in H. destruct (to_near_f fuel d s _ n) as [[sub n1]| |]; try discriminate. injection H as <- _. apply bare_ok_unary.
  - unfold bind in H. destruct (to_near_f fuel d s _ n) as [[sub n1]| |]; try discriminate. injection H as <- _. apply bare_ok_unary.
  - apply not_table_bare. apply (join_not_table (S fuel) d a b on_a on_b jt usg n q n'). cbn [to_near_f]. exact H.
  - destruct (negb (subset _ _)); [discriminate|]. destruct (negb (set_eqb _ _)); [discriminate|]. unfold bind in H.
    destruct (to_near_f fuel d _ _ n) as [[ql n1]| |]; try discriminate. destruct (to_near_f fuel d _ _ n1) as [[qr n2]| |]; try discriminate.
    injection H as <- _. apply bare_ok_binary.
Qed.

End Bare.
