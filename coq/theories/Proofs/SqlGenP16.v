(* SQLGEN, part 16: when the generator hands on a bare table step for a non-empty request, the stored table has exactly the
   requested columns (all node kinds, all dialects) -- what a join needs to know of an operand it refers to by name. *)
From Coq Require Import List Bool Arith ZArith QArith String Lia.
Import ListNotations.
From DA Require Import Base.PyRT Base.Val Model.Sem Proofs.SemBasicP Model.ColumnsUsed Proofs.ColumnsUsedP1 Proofs.ColumnsUsedP2
  Proofs.ColumnsUsedP4 Model.SqlGen Model.SqlSem Proofs.SqlGenP1 Proofs.SqlGenP2 Proofs.SqlGenP4 Proofs.SqlGenP5 Proofs.SqlGenP6
  Proofs.SqlGenP12 Proofs.SqlGenP15.
Local Open Scope list_scope.

Definition not_table (q : tnear) : Prop := forall n ts, q <> TTable n ts.
Lemma not_table_bare e q u : not_table q -> BareOk e q u.
Proof. intros H n ts E. destruct (H n ts E). Qed.

Lemma gen_join_not_table d srca srcb p a b on_a on_b jt lf usg n q n' :
  gen_join d srca srcb p a b on_a on_b jt lf usg n = Ok (q, n') -> not_table q.
Proof.
  unfold gen_join. destruct (negb (subset _ _)); [discriminate|]. unfold bind.
  destruct (srca _ _) as [[ql n2]| |]; try discriminate. destruct (srcb _ _) as [[qr n3]| |]; try discriminate.
  intros [= <- _] n0 ts X. discriminate.
Qed.

Lemma join_not_table : forall fuel d a b on_a on_b jt usg n q n',
  to_near_f fuel d (OJoin a b on_a on_b jt) usg n = Ok (q, n') -> not_table q.
Proof.
  induction fuel as [|fuel IH]; intros d a b on_a on_b jt usg n q n' H; [discriminate|]. cbn [to_near_f] in H.
  destruct jt.
  - exact (gen_join_not_table _ _ _ _ _ _ _ _ _ _ _ _ _ _ H).
  - exact (gen_join_not_table _ _ _ _ _ _ _ _ _ _ _ _ _ _ H).
  - destruct (d_rewrite_right d); exact (gen_join_not_table _ _ _ _ _ _ _ _ _ _ _ _ _ _ H).
  - destruct (d_rewrite_full d); [|exact (gen_join_not_table _ _ _ _ _ _ _ _ _ _ _ _ _ _ H)].
    destruct (is_nil on_a); [discriminate|]. destruct (negb (eqb on_a on_b)); [discriminate|]. unfold full_join_rewrite in H. exact (IH _ _ _ _ _ _ _ _ _ _ H).
Qed.

Lemma narrow_or_first_restrict q K q' : narrow_or_first q K = Some q' -> exists K', restrict_terms q K' = Some q'.
Proof. unfold narrow_or_first. destruct K as [|k0 K]; [destruct (tkeys q) as [|t0 tk]|]; intros H; eexists; exact H. Qed.

Lemma filter_all16 {A} (f : A -> bool) l : (forall x, In x l -> f x = true) -> filter f l = l.
Proof. induction l as [|a t IH]; intros H; simpl; [reflexivity|]. rewrite (H a (or_introl eq_refl)). f_equal. apply IH. intros x I. apply H. right. exact I. Qed.

Section Bare.
Variable e : env.

Theorem gen_bare_ok : forall fuel d p usg n q n',
  builder_ok p = true -> wf_env e p ->
  incl (match usg with Some u => u | None => column_names p end) (column_names p) ->
  to_near_f fuel d p usg n = Ok (q, n') ->
  BareOk e q (match usg with Some u => u | None => column_names p end).
Proof.
  induction fuel as [|fuel IH]; intros d p usg n q n' BO WF Iu H; [discriminate|].
  set (u := match usg with Some u0 => u0 | None => column_names p end) in *.
  destruct p as [name cs|s ops wd w|s ops gb|s x|s cs|s ds|s m|s m dels|s cs rev lim|a b on_a on_b jt|a b idc an bn]; cbn [to_near_f] in H.
  - change (match usg with Some u0 => u0 | None => column_names (OTable name cs) end) with u in H.
    destruct (subset u cs) eqn:Sb; cbn [negb] in H; [|discriminate].
    destruct (negb (is_nil u) && negb (set_eqb u cs)) eqn:C; injection H as <- _; [apply bare_ok_unary|].
    intros n0 ts Eq NU. injection Eq as <- _. destruct (WF name cs (or_introl eq_refl)) as [st [G [EC _]]]. exists st. split; [exact G|].
    assert (is_nil u = false) as NN by (destruct u; [congruence|reflexivity]). rewrite NN in C. cbn [negb andb] in C. apply negb_false_iff in C.
    unfold set_eqb in C. apply andb_true_iff in C. destruct C as [C1 C2]. rewrite EC. intros c. split; [apply (proj1 (subset_spec _ _) C2)|apply (proj1 (subset_spec _ _) C1)].
  - unfold gen_extend in H.
    change (match usg with Some u0 => u0 | None => column_names (OExtend s ops wd w) end) with u in H.
    destruct (sub_ops u ops) as [|so0 sor] eqn:ESub.
    + destruct (bok_extend_full _ _ _ _ BO) as [BOs _].
      assert (incl u (column_names s)) as Ius.
      { intros k Ik. pose proof (Iu k Ik) as X. simpl in X. apply in_ext_cols in X. destruct X as [X|X]; [exact X|]. exfalso.
        apply in_map_iff in X. destruct X as [ke [Ek Ike]]. pose proof (in_sub_ops u ops ke Ike) as Y. rewrite Ek in Y. specialize (Y Ik). rewrite ESub in Y. destruct Y. }
      exact (IH d s (Some u) n q n' BOs (fun n0 cs0 I => WF n0 cs0 I) Ius H).
    + destruct (is_nil _); [discriminate|]. destruct (negb (subset _ _)); [discriminate|]. unfold bind in H.
      destruct (to_near_f fuel d s _ n) as [[sub n1]| |]; try discriminate.
      destruct (d_allow_extend_merges d).
      * destruct (try_sql_merge sub _ _) as [[m0| |]|] eqn:EM; try discriminate; injection H as <- _; [|apply bare_ok_unary].
        destruct (try_sql_merge_inv _ _ _ _ EM) as [n0 [ts [s00 [ci0 [ds0 [_ [_ ->]]]]]]]. apply bare_ok_unary.
      * injection H as <- _. apply bare_ok_unary.
  - unfold bind in H. destruct (to_near_f fuel d s _ n) as [[sub n1]| |]; try discriminate. injection H as <- _. apply bare_ok_unary.
  - unfold bind in H. destruct (to_near_f fuel d s _ n) as [[sub n1]| |]; try discriminate. injection H as <- _. apply bare_ok_unary.
  - (* select_columns *)
    change (match usg with Some u0 => u0 | None => column_names (OSelectCols s cs) end) with u in H. unfold bind in H.
    set (su := cfs1 (OSelectCols s cs) u) in *.
    destruct (to_near_f fuel d s (Some su) n) as [[sub n1]| |] eqn:ER; try discriminate.
    destruct (bok_select_cols _ _ BO) as [BOs _].
    assert (incl cs (column_names s)) as Ics.
    { simpl in BO. rewrite !andb_true_iff in BO. destruct BO as [[_ B] _]. exact (proj1 (subset_spec _ _) B). }
    assert (forall c, In c su <-> In c u) as Hsu.
    { intros c. unfold su, cfs1. simpl. rewrite In_set_inter. split; [tauto|]. intros I. split; [exact (Iu c I)|exact I]. }
    assert (incl su (column_names s)) as Isu by (intros c Hc; apply Ics; unfold su, cfs1 in Hc; simpl in Hc; apply In_set_inter in Hc; tauto).
    pose proof (IH d s (Some su) n sub n1 BOs (fun n0 cs0 I => WF n0 cs0 I) Isu ER) as BK. cbn beta iota in BK.
    assert (u <> [] -> su <> []) as NE by (intros NU X; destruct u as [|c0 t]; [congruence|]; assert (In c0 su) as I by (apply Hsu; left; reflexivity); rewrite X in I; destruct I).
    destruct (terms_is_none sub).
    + injection H as <- _. exact (bare_ok_empty e sub su u BK NE Hsu).
    + destruct (narrow_or_first sub su) as [q0|] eqn:EN; [|discriminate]. injection H as <- _.
      destruct (narrow_or_first_restrict _ _ _ EN) as [K' EK]. exact (bare_ok_restrict e sub K' q0 su u BK EK NE Hsu).
  - (* drop_columns *)
    change (match usg with Some u0 => u0 | None => column_names (ODropCols s ds) end) with u in H. unfold bind in H.
    set (su := cfs1 (ODropCols s ds) u) in *.
    pose proof (bok_drop _ _ BO) as BOs.
    assert (forall c, In c u -> In c (column_names s) /\ ~ In c ds) as Hu.
    { intros c Hc. pose proof (Iu c Hc) as X. simpl in X. apply filter_In in X. destruct X as [A B]. apply negb_true_iff, mem_false in B. tauto. }
    assert (su = u) as Esu.
    { unfold su, cfs1. simpl. apply filter_all16. intros c Hc. apply negb_true_iff, mem_false. apply Hu, Hc. }
    assert (filter (fun k => negb (mem k ds)) u = u) as Ekeep by (apply filter_all16; intros c Hc; apply negb_true_iff, mem_false; apply Hu, Hc).
    rewrite Ekeep in H.
    destruct (to_near_f fuel d s (Some su) n) as [[sub n1]| |] eqn:ER; try discriminate.
    assert (incl su (column_names s)) as Isu by (rewrite Esu; intros c Hc; apply Hu, Hc).
    pose proof (IH d s (Some su) n sub n1 BOs (fun n0 cs0 I => WF n0 cs0 I) Isu ER) as BK. cbn beta iota in BK. rewrite Esu in BK.
    destruct (terms_is_none sub).
    + destruct u as [|c0 u']; [|discriminate]. injection H as <- _. apply (bare_ok_empty e sub [] []); [exact BK|auto|tauto].
    + destruct (narrow_or_first sub u) as [q0|] eqn:EN; [|discriminate]. injection H as <- _.
      destruct (narrow_or_first_restrict _ _ _ EN) as [K' EK]. apply (bare_ok_restrict e sub K' q0 u u BK EK); [auto|tauto].
  - unfold bind in H. destruct (to_near_f fuel d s _ n) as [[sub n1]| |]; try discriminate. injection H as <- _. apply bare_ok_unary.
  - unfold bind in H. destruct (to_near_f fuel d s _ n) as [[sub n1]| |]; try discriminate. injection H as <- _. apply bare_ok_unary.
  - unfold bind in H. destruct (to_near_f fuel d s _ n) as [[sub n1]| |]; try discriminate. injection H as <- _. apply bare_ok_unary.
  - apply not_table_bare. apply (join_not_table (S fuel) d a b on_a on_b jt usg n q n'). cbn [to_near_f]. exact H.
  - destruct (negb (subset _ _)); [discriminate|]. destruct (negb (set_eqb _ _)); [discriminate|]. unfold bind in H.
    destruct (to_near_f fuel d _ _ n) as [[ql n1]| |]; try discriminate. destruct (to_near_f fuel d _ _ n1) as [[qr n2]| |]; try discriminate.
    injection H as <- _. apply bare_ok_binary.
Qed.

End Bare.

(* ------------------------------------------------------------------ the join node (generic dialect: no rewrite) *)
Definition pick (x cs : list string) : list string := if is_nil x then firstn 1 cs else x.

Lemma join_side cs w on : cs <> [] -> NoDup cs -> incl on cs -> incl on w ->
  pick (set_inter cs w) cs <> [] /\ NoDup (pick (set_inter cs w) cs) /\ incl (pick (set_inter cs w) cs) cs /\
  incl on (pick (set_inter cs w) cs) /\ (forall k, In k w -> In k cs -> In k (pick (set_inter cs w) cs)).
Proof.
  intros NE N Io Iw. unfold pick. destruct (is_nil (set_inter cs w)) eqn:EN.
  - assert (forall k, In k cs -> In k w -> False) as X.
    { intros k I1 I2. assert (In k (set_inter cs w)) as I by (apply In_set_inter; tauto). destruct (set_inter cs w); [destruct I|discriminate]. }
    destruct cs as [|c0 t]; [congruence|]. simpl. split; [discriminate|]. split; [constructor; [intros []|constructor]|]. split; [intros x [<-|[]]; left; reflexivity|].
    split; [intros k Ik; destruct (X k (Io k Ik) (Iw k Ik))|intros k I1 I2; destruct (X k I2 I1)].
  - split; [intros X; rewrite X in EN; discriminate|]. split; [apply NoDup_set_inter, N|]. split; [intros k Ik; apply In_set_inter in Ik; tauto|].
    split; [intros k Ik; apply In_set_inter; split; [apply Io, Ik|apply Iw, Ik]|intros k I1 I2; apply In_set_inter; tauto].
Qed.

Section JoinNode.
Variable fl : flavor.
Variable e : env.

Lemma node_join d (srca srcb : option (list string) -> gen) a b on_a on_b jt usg n q n' :
  d_join_carry d = true -> f_join_null_match fl = false -> builder_ok (OJoin a b on_a on_b jt) = true ->
  column_names a <> [] -> column_names b <> [] ->
  NoDup (match usg with Some u0 => u0 | None => column_names (OJoin a b on_a on_b jt) end) ->
  incl (match usg with Some u0 => u0 | None => column_names (OJoin a b on_a on_b jt) end) (column_names (OJoin a b on_a on_b jt)) ->
  gen_join d srca srcb (OJoin a b on_a on_b jt) a b on_a on_b jt true usg n = Ok (q, n') ->
  (forall ul ql n1 n2, NoDup ul -> incl ul (column_names a) -> srca (Some ul) n1 = Ok (ql, n2) ->
     exists A, sem_gen fl a e = Some A /\ Delivers fl e ql ul A /\ BareOk e ql ul) ->
  (forall ur qr n1 n2, NoDup ur -> incl ur (column_names b) -> srcb (Some ur) n1 = Ok (qr, n2) ->
     exists B, sem_gen fl b e = Some B /\ Delivers fl e qr ur B /\ BareOk e qr ur) ->
  exists T, sem_gen fl (OJoin a b on_a on_b jt) e = Some T /\
            Delivers fl e q (match usg with Some u0 => u0 | None => column_names (OJoin a b on_a on_b jt) end) T /\ MergeInv q.
Proof.
  intros C NM BO NEa NEb Nu Iu H HA HB.
  destruct (bok_join _ _ _ _ _ BO) as [BOa BOb].
  pose proof BO as BO'. cbn [builder_ok] in BO'. rewrite !andb_true_iff in BO'. destruct BO' as [[[[_ _] Sa] Sb] Len]. apply Nat.eqb_eq in Len.
  pose proof (proj1 (subset_spec _ _) Sa) as Ia. pose proof (proj1 (subset_spec _ _) Sb) as Ib.
  pose proof (builder_ok_nodup a BOa) as Na. pose proof (builder_ok_nodup b BOb) as Nb.
  set (p := OJoin a b on_a on_b jt) in *.
  set (u := match usg with Some u0 => u0 | None => column_names p end) in *.
  unfold gen_join in H. rewrite C in H. cbv zeta in H. cbn [andb] in H. fold p in H. fold u in H.
  clearbody u.
  set (u1 := if is_nil u then firstn 1 (column_names p) else u) in *.
  set (ask := set_union (set_union u1 on_a) on_b) in *.
  change (cfs1 p ask) with (set_inter (column_names a) (ask ++ on_a ++ on_b)) in H.
  change (cfs2 p ask) with (set_inter (column_names b) (ask ++ on_a ++ on_b)) in H.
  set (w := ask ++ on_a ++ on_b) in *.
  change (if is_nil (set_inter (column_names a) w) then firstn 1 (column_names a) else set_inter (column_names a) w)
    with (pick (set_inter (column_names a) w) (column_names a)) in H.
  change (if is_nil (set_inter (column_names b) w) then firstn 1 (column_names b) else set_inter (column_names b) w)
    with (pick (set_inter (column_names b) w) (column_names b)) in H.
  set (ul := pick (set_inter (column_names a) w) (column_names a)) in *.
  set (ur := pick (set_inter (column_names b) w) (column_names b)) in *.
  change (map (fun c : string => (c, TmCoalesce true c)) (filter (fun c : string => mem c u) (set_inter ul ur))
          ++ pass_terms (filter (fun c : string => negb (mem c (set_inter ul ur))) ul)
          ++ pass_terms (filter (fun c : string => negb (mem c (set_inter ul ur))) ur)) with (join_terms true u ul ur) in H.
  assert (column_names p <> []) as NCp. { unfold p. simpl. destruct (column_names a); [congruence|discriminate]. }
  assert (incl u1 (column_names p) /\ incl u u1) as [Iu1 Iuu1].
  { unfold u1. destruct u as [|k0 ut]; cbn [is_nil].
    - split; [|intros x []]. destruct (column_names p) as [|c0 t]; [congruence|]. cbn [firstn]. intros x [<-|[]]; left; reflexivity.
    - split; [exact Iu|apply incl_refl]. }
  assert (subset u1 (column_names p) = true) as Sb1 by (apply subset_spec; exact Iu1).
  rewrite Sb1 in H. cbn [negb] in H.
  assert (incl on_a w /\ incl on_b w) as [Iaw Ibw].
  { unfold w. split; intros x Hx; apply in_app_iff; right; apply in_app_iff; [left|right]; exact Hx. }
  destruct (join_side (column_names a) w on_a NEa Na Ia Iaw) as [NEl [Nl [Il [Ial Hl]]]].
  destruct (join_side (column_names b) w on_b NEb Nb Ib Ibw) as [NEr [Nr [Ir [Ibr Hr]]]].
  fold ul in NEl, Nl, Il, Ial, Hl. fold ur in NEr, Nr, Ir, Ibr, Hr.
  unfold bind in H.
  destruct (srca (Some ul) (S n)) as [[ql n2]| |] eqn:ERl; try discriminate.
  destruct (srcb (Some ur) n2) as [[qr n3]| |] eqn:ERr; try discriminate.
  injection H as <- _.
  destruct (HA ul ql _ _ Nl Il ERl) as [A [EA [DA BA]]]. destruct (HB ur qr _ _ Nr Ir ERr) as [B [EB [DB BB]]].
  exists (sem_join (f_join_null_match fl) on_a on_b jt A B). split; [unfold p; simpl; rewrite EA, EB; reflexivity|]. split; [|apply merge_inv_binary].
  pose proof (sem_cols fl a e A EA) as CA. pose proof (sem_cols fl b e B EB) as CB.
  assert (forall k, In k u -> (In k (cols A) -> In k ul) /\ (In k (cols B) -> In k ur) /\ (In k (cols A) \/ In k (cols B))) as Hu.
  { intros k Ik.
    assert (In k w) as Ikw by (unfold w; apply in_app_iff; left; unfold ask; apply In_set_union; left; apply In_set_union; left; apply Iuu1, Ik).
    rewrite CA, CB. split; [intros X; apply Hl; assumption|]. split; [intros X; apply Hr; assumption|].
    pose proof (Iu k Ik) as X. unfold p in X. simpl in X. apply in_app_iff in X. destruct X as [X|X]; [left; exact X|right; apply filter_In in X; tauto]. }
  assert (join_terms true u ul ur = [] -> u = []) as ENil.
  { intros ET. destruct u as [|k0 ut]; [reflexivity|exfalso].
    destruct (Hu k0 (or_introl eq_refl)) as [H1 [H2 H3]].
    assert (In k0 (map fst (join_terms true (k0 :: ut) ul ur))) as X.
    { apply join_terms_keys_iff. destruct H3 as [H3|H3].
      - pose proof (H1 H3) as L. destruct (In_dec string_dec k0 ur) as [R|R]; [left; split; [exact L|split; [exact R|left; reflexivity]]|right; left; tauto].
      - pose proof (H2 H3) as R. destruct (In_dec string_dec k0 ul) as [L|L]; [left; split; [exact L|split; [exact R|left; reflexivity]]|right; right; tauto]. }
    rewrite ET in X. destruct X. }
  destruct (join_terms true u ul ur) as [|t0 tt] eqn:ET.
  - rewrite (ENil eq_refl). cbn [norm]. apply delivers_join_star; assumption.
  - cbn [norm]. rewrite <- ET.
    apply delivers_join; try assumption; try (rewrite CA; assumption); try (rewrite CB; assumption).
    rewrite ET. discriminate.
Qed.
End JoinNode.
