(* C18, part 4: pipelines.  sem_perm: under the premises `total_orders` and `exact_group_keys`, evaluating a pipeline on
   row-permuted inputs gives the same columns and a permutation of the rows -- for every pipeline, flavour and environment
   (induction over the pipeline; per-operator lemmas: SemOrderP, PermP2 project, PermP3 windowed extend).
   Also: order_rows at pipeline level, the computable checks of Model/PermGuard.v imply the premises, and witnesses that
   each premise is needed. *)
From Coq Require Import List Bool Arith ZArith QArith String Lia Permutation Sorted.
Import ListNotations.
From DA Require Import Base.PyRT Base.Val Model.Sem Model.PermGuard Proofs.SemBasicP Proofs.SemOrderP Proofs.PermP1 Proofs.PermP2 Proofs.PermP3.
Local Open Scope string_scope.
Local Open Scope list_scope.

(* same table names, same columns, rows a permutation *)
Definition env_perm (e e' : env) : Prop :=
  forall n, match dict_get e n, dict_get e' n with
            | Some t, Some t' => cols t = cols t' /\ Permutation (rows t) (rows t')
            | None, None => True
            | _, _ => False
            end.

(* every windowed extend running an order-sensitive function orders the rows of each partition of its ACTUAL input strictly
   (a missing order_by ties every pair of rows, so it is not total as soon as a partition has two rows); every order_rows
   carrying a limit is total on its actual input.  Nothing is asked of order_rows without limit, of windows running group
   aggregates, or of any other step. *)
Fixpoint total_orders (fl : flavor) (p : op) (e : env) : Prop :=
  match p with
  | OTable _ _ => True
  | OExtend s ops wd w =>
      total_orders fl s e /\
      (wd = true -> ops_order_sensitive ops = true -> forall t, sem_gen fl s e = Some t -> window_total fl (cols t) w (rows t))
  | OProject s _ _ | OSelectRows s _ | OSelectCols s _ | ODropCols s _ | ORename s _ | OMapCols s _ _ => total_orders fl s e
  | OOrder s cs rev lim =>
      total_orders fl s e /\
      (lim <> None -> forall t, sem_gen fl s e = Some t -> total_on fl (cols t) (map (fun c => (c, mem c rev)) cs) (rows t))
  | OJoin a b _ _ _ | OConcat a b _ _ _ => total_orders fl a e /\ total_orders fl b e
  end.

(* group-key values that are equivalent are identical, at every project (see PermP2: only the label of a group depends on it) *)
Fixpoint exact_group_keys (fl : flavor) (p : op) (e : env) : Prop :=
  match p with
  | OTable _ _ => True
  | OProject s _ gb => exact_group_keys fl s e /\ (forall t, sem_gen fl s e = Some t -> keys_exact (cols t) gb (rows t))
  | OExtend s _ _ _ | OSelectRows s _ | OSelectCols s _ | ODropCols s _ | ORename s _ | OMapCols s _ _ | OOrder s _ _ _ => exact_group_keys fl s e
  | OJoin a b _ _ _ | OConcat a b _ _ _ => exact_group_keys fl a e /\ exact_group_keys fl b e
  end.

Lemma order_perm fl cs rev lim t t' :
  cols t = cols t' -> Permutation (rows t) (rows t') ->
  (lim <> None -> total_on fl (cols t) (map (fun c => (c, mem c rev)) cs) (rows t)) ->
  Permutation (rows (sem_order fl cs rev lim t)) (rows (sem_order fl cs rev lim t')).
Proof.
  intros C P T. destruct lim as [n|].
  - rewrite (order_rows_input_order_irrelevant fl cs rev (Some n) t t' C P); [apply Permutation_refl|]. apply T. discriminate.
  - eapply perm_trans; [apply order_rows_is_permutation|]. eapply perm_trans; [exact P|]. apply Permutation_sym, order_rows_is_permutation.
Qed.

Theorem sem_perm fl p : forall e e' t,
  env_perm e e' -> total_orders fl p e -> exact_group_keys fl p e -> sem_gen fl p e = Some t ->
  exists t', sem_gen fl p e' = Some t' /\ cols t' = cols t /\ Permutation (rows t) (rows t').
Proof.
  induction p as [n cs|s IH ops wd w|s IH ops gb|s IH x|s IH cs|s IH cs|s IH m|s IH m dels|s IH cs rev lim|a IHa b IHb on_a on_b jt|a IHa b IHb idc an bn];
    intros e e' t EP TO XK H; cbn [sem_gen] in *; cbn [total_orders exact_group_keys] in TO, XK.
  - specialize (EP n). destruct (dict_get e n) as [t0|]; [|discriminate]. destruct (dict_get e' n) as [t0'|]; [|contradiction].
    destruct EP as [C P]. inversion H; subst t. eexists. split; [reflexivity|]. split; [reflexivity|].
    apply select_cols_perm; assumption.
  - destruct TO as [TO G]. destruct (sem_gen fl s e) as [t0|] eqn:E0; [|discriminate].
    destruct (IH e e' t0 EP TO XK E0) as [t0' [E0' [C P]]]. rewrite E0'. cbn [option_map] in *. inversion H; subst t.
    eexists. split; [reflexivity|]. symmetry in C. destruct wd.
    + destruct (wextend_perm fl ops w t0 t0' C P) as [C2 P2]; [intros S; apply (G eq_refl S t0 eq_refl)|]. split; [symmetry; exact C2|exact P2].
    + destruct (extend_perm fl ops t0 t0' C P) as [C2 P2]. split; [symmetry; exact C2|exact P2].
  - destruct XK as [XK G]. destruct (sem_gen fl s e) as [t0|] eqn:E0; [|discriminate].
    destruct (IH e e' t0 EP TO XK E0) as [t0' [E0' [C P]]]. rewrite E0'. cbn [option_map] in *. inversion H; subst t.
    eexists. split; [reflexivity|]. symmetry in C.
    destruct (project_perm fl ops gb t0 t0' C P (G t0 eq_refl)) as [C2 P2]. split; [symmetry; exact C2|exact P2].
  - destruct (sem_gen fl s e) as [t0|] eqn:E0; [|discriminate].
    destruct (IH e e' t0 EP TO XK E0) as [t0' [E0' [C P]]]. rewrite E0'. cbn [option_map] in *. inversion H; subst t.
    eexists. split; [reflexivity|]. split; [exact C|]. apply select_rows_perm; [symmetry; exact C|exact P].
  - destruct (sem_gen fl s e) as [t0|] eqn:E0; [|discriminate].
    destruct (IH e e' t0 EP TO XK E0) as [t0' [E0' [C P]]]. rewrite E0'. cbn [option_map] in *. inversion H; subst t.
    eexists. split; [reflexivity|]. split; [reflexivity|]. apply select_cols_perm; [symmetry; exact C|exact P].
  - destruct (sem_gen fl s e) as [t0|] eqn:E0; [|discriminate].
    destruct (IH e e' t0 EP TO XK E0) as [t0' [E0' [C P]]]. rewrite E0'. cbn [option_map] in *. inversion H; subst t.
    eexists. split; [reflexivity|]. unfold sem_drop_cols. rewrite C. split; [reflexivity|]. apply select_cols_perm; [symmetry; exact C|exact P].
  - destruct (sem_gen fl s e) as [t0|] eqn:E0; [|discriminate].
    destruct (IH e e' t0 EP TO XK E0) as [t0' [E0' [C P]]]. rewrite E0'. cbn [option_map] in *. inversion H; subst t.
    eexists. split; [reflexivity|]. unfold sem_rename. cbn [cols rows]. rewrite C. split; [reflexivity|exact P].
  - destruct (sem_gen fl s e) as [t0|] eqn:E0; [|discriminate].
    destruct (IH e e' t0 EP TO XK E0) as [t0' [E0' [C P]]]. rewrite E0'. cbn [option_map] in *. inversion H; subst t.
    eexists. split; [reflexivity|]. unfold sem_drop_cols, sem_rename. cbn [cols rows]. rewrite C. split; [reflexivity|].
    apply (select_cols_perm _ (mktable (map (rename_col m) (cols t0)) (rows t0)) (mktable (map (rename_col m) (cols t0)) (rows t0'))); [reflexivity|exact P].
  - destruct TO as [TO G]. destruct (sem_gen fl s e) as [t0|] eqn:E0; [|discriminate].
    destruct (IH e e' t0 EP TO XK E0) as [t0' [E0' [C P]]]. rewrite E0'. cbn [option_map] in *. inversion H; subst t.
    eexists. split; [reflexivity|]. split; [exact C|]. apply order_perm; [symmetry; exact C|exact P|]. intros N. apply (G N t0 eq_refl).
  - destruct TO as [TOa TOb]. destruct XK as [XKa XKb].
    destruct (sem_gen fl a e) as [ta|] eqn:Ea; [|discriminate]. destruct (sem_gen fl b e) as [tb|] eqn:Eb; [|discriminate].
    destruct (IHa e e' ta EP TOa XKa Ea) as [ta' [Ea' [Ca Pa]]]. destruct (IHb e e' tb EP TOb XKb Eb) as [tb' [Eb' [Cb Pb]]].
    rewrite Ea', Eb'. inversion H; subst t. eexists. split; [reflexivity|]. split.
    + unfold sem_join. cbn [cols]. rewrite Ca, Cb. reflexivity.
    + apply join_perm; try assumption; symmetry; assumption.
  - destruct TO as [TOa TOb]. destruct XK as [XKa XKb].
    destruct (sem_gen fl a e) as [ta|] eqn:Ea; [|discriminate]. destruct (sem_gen fl b e) as [tb|] eqn:Eb; [|discriminate].
    destruct (IHa e e' ta EP TOa XKa Ea) as [ta' [Ea' [Ca Pa]]]. destruct (IHb e e' tb EP TOb XKb Eb) as [tb' [Eb' [Cb Pb]]].
    rewrite Ea', Eb'. inversion H; subst t. eexists. split; [reflexivity|]. split.
    + unfold sem_concat. rewrite Ca. destruct idc; reflexivity.
    + apply concat_perm; try assumption; symmetry; assumption.
Qed.

(* ---------- order_rows at pipeline level *)
Definition order_keys (cs rev : list string) : list (string * bool) := map (fun c => (c, mem c rev)) cs.

Lemma pipeline_order_sorted fl s cs rev lim e t :
  sem_gen fl (OOrder s cs rev lim) e = Some t ->
  StronglySorted (fun r1 r2 => row_le fl (cols t) (order_keys cs rev) r1 r2 = true) (rows t).
Proof.
  cbn [sem_gen]. destruct (sem_gen fl s e) as [u|]; [|discriminate]. cbn [option_map]. intros H. inversion H; subst t.
  rewrite order_rows_keeps_columns. apply order_rows_sorted.
Qed.

Lemma pipeline_order_permutation fl s cs rev e u t :
  sem_gen fl s e = Some u -> sem_gen fl (OOrder s cs rev None) e = Some t -> cols t = cols u /\ Permutation (rows t) (rows u).
Proof.
  intros Hu. cbn [sem_gen]. rewrite Hu. cbn [option_map]. intros H. inversion H; subst t.
  split; [reflexivity|apply order_rows_is_permutation].
Qed.

Lemma pipeline_order_limit_prefix fl s cs rev n e t :
  sem_gen fl (OOrder s cs rev (Some n)) e = Some t ->
  exists full, sem_gen fl (OOrder s cs rev None) e = Some full /\ cols t = cols full /\ rows t = firstn n (rows full).
Proof.
  cbn [sem_gen]. destruct (sem_gen fl s e) as [u|]; [|discriminate]. cbn [option_map]. intros H. inversion H; subst t.
  eexists. split; [reflexivity|]. split; [reflexivity|apply order_rows_limit].
Qed.

(* with a total order, the ordered (and limited) result is THE SAME LIST for every row order of the inputs *)
Lemma pipeline_order_total_exact fl s cs rev lim e e' t :
  env_perm e e' -> total_orders fl s e -> exact_group_keys fl s e ->
  (forall u, sem_gen fl s e = Some u -> total_on fl (cols u) (order_keys cs rev) (rows u)) ->
  sem_gen fl (OOrder s cs rev lim) e = Some t -> sem_gen fl (OOrder s cs rev lim) e' = Some t.
Proof.
  intros EP TO XK T. cbn [sem_gen]. destruct (sem_gen fl s e) as [u|] eqn:Eu; [|discriminate].
  destruct (sem_perm fl s e e' u EP TO XK Eu) as [u' [Eu' [C P]]]. rewrite Eu'. cbn [option_map]. intros H. inversion H; subst t.
  f_equal. symmetry. apply order_rows_input_order_irrelevant; [symmetry; exact C|exact P|apply (T u eq_refl)].
Qed.

(* ---------- the computable checks imply the premises *)
Lemma nodup_b_sound l : nodup_b l = true -> NoDup l.
Proof.
  induction l as [|x t IH]; simpl; intros H; [constructor|]. apply andb_true_iff in H. destruct H as [H1 H2].
  constructor; [|apply IH, H2]. apply negb_true_iff in H1. apply mem_false in H1. exact H1.
Qed.
Lemma total_on_b_sound fl cs keys rs : total_on_b fl cs keys rs = true -> total_on fl cs keys rs.
Proof.
  unfold total_on_b, total_on. intros H r1 r2 I1 I2 L1 L2. rewrite forallb_forall in H. specialize (H r1 I1).
  rewrite forallb_forall in H. specialize (H r2 I2). rewrite L1, L2 in H. simpl in H. exact (proj1 (eqb_true _ _) H).
Qed.
Lemma window_total_b_sound fl cs w rs : window_total_b fl cs w rs = true -> window_total fl cs w rs.
Proof.
  unfold window_total_b, window_total. intros H r I. rewrite forallb_forall in H. specialize (H r I). cbv zeta in H.
  apply andb_true_iff in H. destruct H as [H1 H2]. split; [apply nodup_b_sound, H1|apply total_on_b_sound, H2].
Qed.
Lemma keys_exact_b_sound cs gb rs : keys_exact_b cs gb rs = true -> keys_exact cs gb rs.
Proof.
  unfold keys_exact_b, keys_exact. intros H r1 r2 I1 I2 E. rewrite forallb_forall in H. specialize (H r1 I1).
  rewrite forallb_forall in H. specialize (H r2 I2). rewrite E in H. simpl in H. exact (proj1 (eqb_true _ _) H).
Qed.

Lemma total_orders_b_sound fl p e : total_orders_b fl p e = true -> total_orders fl p e.
Proof.
  induction p; cbn [total_orders_b total_orders]; intros H; try exact I; try (apply IHp; exact H).
  - apply andb_true_iff in H. destruct H as [H1 H2]. split; [apply IHp, H1|]. intros -> S t E.
    rewrite S in H2. cbn [andb] in H2. unfold on_input in H2. rewrite E in H2. apply window_total_b_sound, H2.
  - apply andb_true_iff in H. destruct H as [H1 H2]. split; [apply IHp, H1|]. intros N t E.
    destruct limit as [n|]; [|congruence]. unfold on_input in H2. rewrite E in H2. apply total_on_b_sound, H2.
  - apply andb_true_iff in H. destruct H as [H1 H2]. split; [apply IHp1, H1|apply IHp2, H2].
  - apply andb_true_iff in H. destruct H as [H1 H2]. split; [apply IHp1, H1|apply IHp2, H2].
Qed.
Lemma exact_keys_b_sound fl p e : exact_keys_b fl p e = true -> exact_group_keys fl p e.
Proof.
  induction p; cbn [exact_keys_b exact_group_keys]; intros H; try exact I; try (apply IHp; exact H).
  - apply andb_true_iff in H. destruct H as [H1 H2]. split; [apply IHp, H1|]. intros t E.
    unfold on_input in H2. rewrite E in H2. apply keys_exact_b_sound, H2.
  - apply andb_true_iff in H. destruct H as [H1 H2]. split; [apply IHp1, H1|apply IHp2, H2].
  - apply andb_true_iff in H. destruct H as [H1 H2]. split; [apply IHp1, H1|apply IHp2, H2].
Qed.
Lemma perm_guard_b_sound fl p e : perm_guard_b fl p e = true -> total_orders fl p e /\ exact_group_keys fl p e.
Proof.
  unfold perm_guard_b. intros H. apply andb_true_iff in H. destruct H as [H1 H2].
  split; [apply total_orders_b_sound, H1|apply exact_keys_b_sound, H2].
Qed.

(* env_perm from a decidable description: the same names in the same order, equal columns, rows a permutation *)
Lemma env_perm_cons n t t' e e' : cols t = cols t' -> Permutation (rows t) (rows t') -> env_perm e e' -> env_perm ((n, t) :: e) ((n, t') :: e').
Proof. intros C P EP m. simpl. destruct (eq_dec m n); [split; assumption|apply EP]. Qed.
Lemma env_perm_nil : env_perm [] [].
Proof. intros n. exact I. Qed.

(* ---------- each premise is needed: concrete witnesses in the reference semantics *)
Definition q (z : Z) : val := VNum (Qred (z # 1)).
Definition wit_tab (rs : list (list val)) : env := [("d", mktable ["k"; "a"] rs)].
Definition wit_rows : list (list val) := [[q 1; q 1]; [q 1; q 2]].
Definition wit_rows' : list (list val) := [[q 1; q 2]; [q 1; q 1]].

Lemma wit_env_perm : env_perm (wit_tab wit_rows) (wit_tab wit_rows').
Proof. apply env_perm_cons; [reflexivity|apply perm_swap|apply env_perm_nil]. Qed.

(* a cumulative sum ordered by a column with ties: the permuted input gives different rows *)
Definition wit_window : op := OExtend (OTable "d" ["k"; "a"]) [("c", EOp "cumsum" [ECol "a"])] true (mkwin [] ["k"] []).
Lemma window_order_needed :
  exists fl p e e' t t', env_perm e e' /\ exact_group_keys fl p e /\ sem_gen fl p e = Some t /\ sem_gen fl p e' = Some t' /\ ~ Permutation (rows t) (rows t').
Proof.
  exists fl_pandas, wit_window, (wit_tab wit_rows), (wit_tab wit_rows').
  eexists. eexists. split; [exact wit_env_perm|]. split; [exact I|]. split; [vm_compute; reflexivity|]. split; [vm_compute; reflexivity|].
  intros P. apply (Permutation_in [q 1; q 1; q 1]) in P; [|vm_compute; left; reflexivity].
  vm_compute in P. destruct P as [P|[P|[]]]; discriminate P.
Qed.

(* order_rows with a limit under an order with ties: the permuted input keeps a different row *)
Definition wit_limit : op := OOrder (OTable "d" ["k"; "a"]) ["k"] [] (Some 1%nat).
Lemma limit_order_needed :
  exists fl p e e' t t', env_perm e e' /\ exact_group_keys fl p e /\ sem_gen fl p e = Some t /\ sem_gen fl p e' = Some t' /\ ~ Permutation (rows t) (rows t').
Proof.
  exists fl_sqlite, wit_limit, (wit_tab wit_rows), (wit_tab wit_rows').
  eexists. eexists. split; [exact wit_env_perm|]. split; [exact I|]. split; [vm_compute; reflexivity|]. split; [vm_compute; reflexivity|].
  intros P. apply (Permutation_in [q 1; q 1]) in P; [|vm_compute; left; reflexivity].
  vm_compute in P. destruct P as [P|[]]; discriminate P.
Qed.

(* a group key column mixing True and 1: the group is the same, its label is the first representation met *)
Definition wit_mixed : list (list val) := [[VBool true; q 1]; [q 1; q 2]].
Definition wit_mixed' : list (list val) := [[q 1; q 2]; [VBool true; q 1]].
Definition wit_project : op := OProject (OTable "d" ["k"; "a"]) [("s", EOp "sum" [ECol "a"])] ["k"].
Lemma exact_keys_needed :
  exists fl p e e' t t', env_perm e e' /\ total_orders fl p e /\ sem_gen fl p e = Some t /\ sem_gen fl p e' = Some t' /\ ~ Permutation (rows t) (rows t').
Proof.
  exists fl_pandas, wit_project, (wit_tab wit_mixed), (wit_tab wit_mixed').
  eexists. eexists. split; [apply env_perm_cons; [reflexivity|apply perm_swap|apply env_perm_nil]|].
  split; [exact I|]. split; [vm_compute; reflexivity|]. split; [vm_compute; reflexivity|].
  intros P. apply (Permutation_in [VBool true; q 3]) in P; [|vm_compute; left; reflexivity].
  vm_compute in P. destruct P as [P|[]]; discriminate P.
Qed.

(* ---------- a concrete non-trivial instance used by the Examples of Props/C18.v *)
Definition ex_rows : list (list val) := [[q 1; q 5; q 0]; [q 1; q 2; q 1]; [q 2; VNull; q 2]; [q 1; q 2; q 3]].
Definition ex_rows' : list (list val) := [[q 2; VNull; q 2]; [q 1; q 2; q 3]; [q 1; q 5; q 0]; [q 1; q 2; q 1]].
Definition ex_env (rs : list (list val)) : env := [("d", mktable ["k"; "a"; "u"] rs)].
(* cumulative sum per k ordered by the unique column u (descending), a group count, then the 3 rows with the largest u *)
Definition ex_pipe : op :=
  OOrder (OExtend (OExtend (OTable "d" ["k"; "a"; "u"]) [("c", EOp "cumsum" [ECol "a"])] true (mkwin ["k"] ["u"] ["u"]))
                  [("n", EOp "count" [ECol "a"])] true (mkwin ["k"] [] []))
         ["u"] ["u"] (Some 3%nat).
