(* C06, part 6: dropping ONE order_rows without limit from under a step (exact statements: equal column lists, rows a
   permutation; identical tables when the step is a total order_rows or a total order_rows follows), witnesses that the premise is
   needed, the real builder's forwarding as equations of the model, and a concrete chain on which every hypothesis holds. *)
From Coq Require Import List Bool Arith ZArith QArith String Lia Permutation.
Import ListNotations.
From DA Require Import Base.PyRT Base.Val Model.Sem Model.PermGuard Model.Extend Model.MergeGuard Model.Simplify Gen.G_MergeOps
  Proofs.SemBasicP Proofs.SemOrderP Proofs.PermP2 Proofs.PermP3 Proofs.PermP4 Proofs.ComposeP5
  Proofs.SimplifyP1 Proofs.SimplifyP2 Proofs.SimplifyP3 Proofs.SimplifyP4 Proofs.SimplifyP5.
Local Open Scope list_scope.

(* same columns, in the same order, and the same rows as a multiset *)
Definition same_bag (o1 o2 : option table) : Prop :=
  match o1, o2 with
  | Some a, Some b => cols a = cols b /\ Permutation (rows a) (rows b)
  | None, None => True
  | _, _ => False
  end.

(* ------------------------------------------------------------------ one step on two row orders of the same table *)
Lemma perm_apply iw fl e x t t' : cols t = cols t' -> Permutation (rows t) (rows t') -> step_insensitive iw fl x t ->
  same_bag (apply_sem iw fl e x t) (apply_sem iw fl e x t').
Proof.
  intros C P I. destruct x; cbn [apply_sem same_bag step_insensitive] in *.
  - destruct (n_windowed _) eqn:Wd.
    + apply wextend_perm; [exact C|exact P|]. intros S. apply I; [reflexivity|exact S].
    + apply extend_perm; assumption.
  - apply project_perm; assumption.
  - split; [exact C|apply select_rows_perm; assumption].
  - split; [reflexivity|apply select_cols_perm; assumption].
  - unfold sem_drop_cols. rewrite <- C. split; [reflexivity|apply select_cols_perm; assumption].
  - split; [cbn [cols sem_rename]; rewrite C; reflexivity|exact P].
  - unfold sem_drop_cols. cbn [cols sem_rename]. rewrite <- C. split; [reflexivity|].
    apply (select_cols_perm _ (sem_rename (map_remap m) t) (sem_rename (map_remap m) t')); [cbn [cols sem_rename]; rewrite C; reflexivity|exact P].
  - split; [exact C|]. apply order_perm; assumption.
  - destruct (sem_gen fl b e) as [tb|]; [|exact Logic.I]. split.
    + unfold sem_join. cbn [cols]. rewrite C. reflexivity.
    + apply join_perm; [exact C|reflexivity|exact P|apply Permutation_refl].
  - destruct (sem_gen fl b e) as [tb|]; [|exact Logic.I]. split.
    + unfold sem_concat. rewrite C. destruct idc; reflexivity.
    + apply concat_perm; [exact C|reflexivity|exact P|apply Permutation_refl].
Qed.

(* the step applied to s, and to s ordered: same columns, same rows as a multiset *)
Theorem order_elim_sound iw fl e x s cs rev :
  (forall u, sem_gen fl s e = Some u -> step_insensitive iw fl x u) ->
  same_bag (sem_gen fl (build_unsimplified iw s x) e) (sem_gen fl (build_unsimplified iw (OOrder s cs rev None) x) e).
Proof.
  intros I. rewrite !sem_unsimplified. cbn [sem_gen]. destruct (sem_gen fl s e) as [u|]; cbn [option_map obind same_bag]; [|exact Logic.I].
  apply perm_apply; [reflexivity|apply Permutation_sym, order_rows_is_permutation|apply I; reflexivity].
Qed.

(* ... and the builders do apply the step to s: every builder forwards to the source of a limit-less order_rows, unless it
   returns the pipeline it was called on unchanged *)
Definition returns_self (p : op) (x : step) : bool :=
  match x with
  | SExtend ops _ _ _ _ => is_nil ops
  | SSelectCols cs tup => tup && eqb cs (declared_names p)
  | SDropCols cs => is_nil cs
  | SRename m => is_nil m
  | SMapCols m => is_nil m
  | SOrder cs _ lim => is_nil cs && (match lim with None => true | Some _ => false end)
  | _ => false
  end.

Lemma build_step_skips_order iw s cs rev x :
  returns_self (OOrder s cs rev None) x = false -> build_step iw (OOrder s cs rev None) x = build_step iw s x.
Proof.
  destruct x; cbn [returns_self build_step]; intros R; try rewrite R; try reflexivity.
  cbn [build_select_cols declared_names] in *. rewrite R. destruct s; cbn [build_select_cols declared_names]; try rewrite R; try reflexivity.
Qed.

Lemma build_step_self iw p x : returns_self p x = true -> build_step iw p x = p.
Proof.
  destruct x; cbn [returns_self build_step]; intros R; try discriminate R; try rewrite R; try reflexivity.
  destruct p; cbn [build_select_cols]; rewrite R; reflexivity.
Qed.

(* an order_rows that is total on the data: the same table, row for row *)
Theorem order_elim_order_total fl e s cs rev cs2 rev2 lim :
  (forall u, sem_gen fl s e = Some u -> total_on fl (cols u) (map (fun c => (c, mem c rev2)) cs2) (rows u)) ->
  sem_gen fl (OOrder (OOrder s cs rev None) cs2 rev2 lim) e = sem_gen fl (OOrder s cs2 rev2 lim) e.
Proof.
  intros T. cbn [sem_gen]. destruct (sem_gen fl s e) as [u|]; [|reflexivity]. cbn [option_map]. f_equal. symmetry.
  apply order_rows_input_order_irrelevant; [reflexivity|apply Permutation_sym, order_rows_is_permutation|apply T; reflexivity].
Qed.

(* any step, compared after a total final order_rows: the same table, row for row *)
Theorem order_elim_then_total_order iw fl e x s cs rev cs2 rev2 lim :
  (forall u, sem_gen fl s e = Some u -> step_insensitive iw fl x u) ->
  (forall v, sem_gen fl (build_unsimplified iw s x) e = Some v -> total_on fl (cols v) (map (fun c => (c, mem c rev2)) cs2) (rows v)) ->
  sem_gen fl (OOrder (build_unsimplified iw (OOrder s cs rev None) x) cs2 rev2 lim) e
  = sem_gen fl (OOrder (build_unsimplified iw s x) cs2 rev2 lim) e.
Proof.
  intros I T. pose proof (order_elim_sound iw fl e x s cs rev I) as B. cbn [sem_gen].
  destruct (sem_gen fl (build_unsimplified iw s x) e) as [a|], (sem_gen fl (build_unsimplified iw (OOrder s cs rev None) x) e) as [b|];
    cbn [same_bag option_map] in *; try tauto. destruct B as [C P]. f_equal. symmetry.
  apply order_rows_input_order_irrelevant; [exact C|exact P|apply T; reflexivity].
Qed.

(* ------------------------------------------------------------------ the premise is needed *)
Definition q (z : Z) : val := VNum (Qred (z # 1)).
Definition w_tab : op := OTable "d" ["a"; "x"]%string.
Definition w_env : env := [("d"%string, mktable ["a"; "x"]%string [[q 3; q 10]; [q 1; q 20]])].

(* as a LIST the result of course depends on the dropped order_rows when no order follows (a row-wise step keeps the row order) *)
Lemma order_elim_list_needs_final_order :
  exists iw fl e x s cs rev,
    (forall u, sem_gen fl s e = Some u -> step_insensitive iw fl x u) /\
    sem_gen fl (build_unsimplified iw s x) e <> sem_gen fl (build_unsimplified iw (OOrder s cs rev None) x) e.
Proof.
  exists [], fl_pandas, w_env, (SSelectRows (EConst (VBool true))), w_tab, ["a"%string], [].
  split; [intros u _; exact Logic.I|]. vm_compute. intros H. discriminate H.
Qed.

(* a window function that reads the order of its partition (first) WITHOUT an order_by: the builder accepts it (`first` is not among
   fn_names_that_imply_ordered_windowed_situation), skips the order_rows, and the result differs from the step-by-step one even as a
   multiset: the value of the new column comes from the first row in PHYSICAL order *)
Definition w_first : step := SExtend [("c"%string, EOp "first" [ECol "x"%string])] false [] [] [].
Lemma order_elim_unordered_window_refuted :
  exists iw fl e x s cs rev a b,
    build_step iw (OOrder s cs rev None) x = build_unsimplified iw s x /\
    sem_gen fl (build_unsimplified iw s x) e = Some a /\ sem_gen fl (build_unsimplified iw (OOrder s cs rev None) x) e = Some b /\
    ~ Permutation (rows a) (rows b).
Proof.
  exists ["first"%string], fl_pandas, w_env, w_first, w_tab, ["a"%string], [].
  eexists. eexists. split; [reflexivity|]. split; [vm_compute; reflexivity|]. split; [vm_compute; reflexivity|].
  intros P. apply (Permutation_in [q 3; q 10; q 10]) in P; [|vm_compute; left; reflexivity].
  vm_compute in P. destruct P as [P|[P|[]]]; discriminate P.
Qed.

(* ------------------------------------------------------------------ a concrete chain on which every hypothesis holds *)
Local Open Scope string_scope.
Definition ex_iw : list string := ["cumsum"; "_row_number"; "sum"; "count"; "shift"].
Definition ex_tab : op := OTable "d" ["k"; "a"; "u"].
Definition ex_env : env := [("d", mktable ["k"; "a"; "u"] [[q 1; q 5; q 0]; [q 1; q 2; q 1]; [q 2; VNull; q 2]; [q 1; q 2; q 3]])].
(* order_rows(a) . extend(c = a.cumsum(), partition k, order u) . extend(r = _row_number(), same window) . select [k,u,c,r]
   . order_rows(c) . select [c,k,u] . extend(z = c + 1, y = k) . extend(z = 7) *)
Definition ex_steps : list step :=
  [ SOrder ["a"] [] None;
    SExtend [("c", EOp "cumsum" [ECol "a"])] false ["k"] ["u"] [];
    SExtend [("r", EOp "_row_number" [])] false ["k"] ["u"] [];
    SSelectCols ["k"; "u"; "c"; "r"] false;
    SOrder ["c"] [] None;
    SSelectCols ["c"; "k"; "u"] false;
    SExtend [("z", EOp "+" [ECol "c"; EConst (q 1)]); ("y", ECol "k")] false [] [] [];
    SExtend [("z", EConst (q 7))] false [] [] [] ].

(* what the builder returns: ONE windowed extend, ONE select_columns, ONE row-wise extend (z overwritten) on the table; no order_rows is left *)
Lemma ex_built :
  build ex_iw ex_tab ex_steps
  = OExtend (OSelectCols (OExtend ex_tab [("c", EOp "cumsum" [ECol "a"]); ("r", EOp "_row_number" [])] true (mkwin ["k"] ["u"] []))
                         ["c"; "k"; "u"])
            [("y", ECol "k"); ("z", EConst (q 7))] false (mkwin [] [] []).
Proof. vm_compute. reflexivity. Qed.

Lemma nodup_strings (l : list string) : (fix nd (l : list string) : bool := match l with [] => true | x :: t => negb (mem x t) && nd t end) l = true -> NoDup l.
Proof.
  induction l as [|x t IH]; intros H; [constructor|]. apply andb_true_iff in H. destruct H as [H1 H2].
  constructor; [apply negb_true_iff, mem_false in H1; exact H1|apply IH, H2].
Qed.

Lemma ex_steps_ok : prefix_ok ex_iw ex_tab /\ steps_ok ex_iw fl_sqlite ex_env (sem_gen fl_sqlite ex_tab ex_env) ex_steps.
Proof.
  split; [exact Logic.I|].
  repeat (split; [intros r Er; vm_compute in Er; injection Er as <-|]); try exact Logic.I.
  - split; [exact Logic.I|]. intros N. exfalso. apply N. reflexivity.
  - split.
    + split; [apply nodup_strings; reflexivity|]. intros k [<-|[]]. vm_compute. intuition discriminate.
    + cbn [step_insensitive]. intros _ _. apply window_total_b_sound. vm_compute. reflexivity.
  - split.
    + split; [apply nodup_strings; reflexivity|]. intros k [<-|[]]. vm_compute. intuition discriminate.
    + cbn [step_insensitive]. intros _ _. apply window_total_b_sound. vm_compute. reflexivity.
  - split; [|exact Logic.I]. cbn [step_valid cols]. intros c I. vm_compute in I. vm_compute. tauto.
  - split; [exact Logic.I|]. intros N. exfalso. apply N. reflexivity.
  - split; [|exact Logic.I]. cbn [step_valid cols]. intros c I. vm_compute in I. vm_compute. tauto.
  - split.
    + split; [apply nodup_strings; reflexivity|]. intros k [<-|[<-|[]]]; vm_compute; tauto.
    + cbn [step_insensitive]. intros W. vm_compute in W. discriminate W.
  - split.
    + split; [apply nodup_strings; reflexivity|]. intros k [<-|[]]. vm_compute. tauto.
    + cbn [step_insensitive]. intros W. vm_compute in W. discriminate W.
Qed.

Lemma ex_result : option_map (fun t => (cols t, List.length (rows t))) (sem_gen fl_sqlite (build ex_iw ex_tab ex_steps) ex_env)
                  = Some (["c"; "k"; "u"; "y"; "z"], 4%nat).
Proof. vm_compute. reflexivity. Qed.
