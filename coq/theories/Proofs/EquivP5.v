(* C11, part 5: pipelines that compare equal denote the same table in the reference semantics Model/Sem.v (every backend
   flavour, every environment), provided same-named tables list the same columns and no constant pair conflates a bool
   with a number (the two known findings that reach results).  The ORDER of the assignments of an extend is not needed. *)
From Coq Require Import List Bool Arith ZArith QArith String Lia Permutation.
Import ListNotations.
From DA Require Import Base.PyRT Base.Val Model.Sem Model.Equiv Proofs.SemBasicP Proofs.EquivP1 Proofs.EquivP2 Proofs.EquivP3 Proofs.EquivP4.
Local Open Scope list_scope.

Ltac use_ih IH s s' IHs :=
  match goal with
  | H : eop_eqb ?q s s' = true, H2 : ragree ?q s s' = true, T2 : to_sem s' = Some ?a2, W1 : wfb s = true, W2 : wfb s' = true |- _ =>
      first [ pose proof (IH s' _ a2 W1 W2 H H2 eq_refl T2) as IHs
            | match goal with T1 : to_sem s = Some ?a1 |- _ => pose proof (IH s' a1 a2 W1 W2 H H2 T1 T2) as IHs end ]
  end.
Ltac nodups := repeat match goal with H : nodupb _ = true |- _ => apply nodupb_NoDup in H end.

Lemma map_snd_swap (m : list (string * string)) : map snd (map swap_pair m) = map fst m.
Proof. rewrite map_map. apply map_ext. intros [a b]. reflexivity. Qed.

Lemma eop_sound q a : forall b sa sb,
  wfb a = true -> wfb b = true -> eop_eqb q a b = true -> ragree q a b = true ->
  to_sem a = Some sa -> to_sem b = Some sb -> forall fl env, sem_gen fl sa env = sem_gen fl sb env.
Proof. induction a as [n cs ql|s IH ops p o r w|s IH ops gb|s IH e|s IH cs|s IH cs|s IH m|s IH m d|s IH cs r l
                      |x IHx y IHy oa ob jt|x IHx y IHy ic an bn|s IH rm];
    intros [n' cs' ql'|s' ops' p' o' r' w'|s' ops' gb'|s' e'|s' cs'|s' cs'|s' m'|s' m' d'|s' cs' r' l'
           |x' y' oa' ob' jt'|x' y' ic' an' bn'|s' rm'] sa sb Wa Wb E G Ta Tb fl env; try (cbn [eop_eqb] in E; discriminate).
  - (* table *)
    cbn [to_sem] in Ta, Tb. inv_some. pose proof (eqb_cols q _ _ E G) as C. cbn [ecolumn_names] in C. subst cs'.
    cbn [eop_eqb] in E. assert (n = n') as ->.
    { destruct (q_table_key_only q); split_andb; eqb_to_eq; assumption. }
    reflexivity.
  - (* extend *)
    pose proof (eqb_cols q _ _ E G) as C. cbn [ecolumn_names] in C.
    cbn [eop_eqb ragree wfb] in *. split_andb. cbn [to_sem] in Ta, Tb. inv_some.
    use_ih IH s s' IHs.
    match goal with H : eop_eqb q s s' = true, H2 : ragree q s s' = true |- _ => pose proof (eqb_cols q s s' H H2) as Cs end.
    eqb_to_eq. subst. cbn [sem_gen]. rewrite (IHs fl env).
    match goal with T : to_sem s' = Some ?b, S1 : ops_sem ops = Some ?l1, S2 : ops_sem ops' = Some ?l2 |- _ =>
      destruct (sem_gen fl b env) as [t|] eqn:St; [|reflexivity]; simpl; f_equal;
      assert (cols t = ecolumn_names s') as Ct by (rewrite (sem_cols _ _ _ _ St); apply cn_to_sem; exact T);
      assert (width_ok t) as Wt by (eapply sem_rows_width; exact St);
      nodups;
      assert (NoDup (map fst l1)) as N1 by (rewrite (ops_sem_keys _ _ S1); assumption);
      assert (NoDup (map fst l2)) as N2 by (rewrite (ops_sem_keys _ _ S2); assumption);
      assert (forall k, dict_get l1 k = dict_get l2 k) as L by (eapply ops_lookups; eassumption);
      assert (ext_cols (cols t) (map fst l1) = ext_cols (cols t) (map fst l2)) as X
        by (rewrite Ct, (ops_sem_keys _ _ S1), (ops_sem_keys _ _ S2); rewrite <- Cs at 1; exact C)
    end.
    destruct w'; [apply sem_wextend_perm|apply sem_extend_perm]; assumption.
  - (* project *)
    pose proof (eqb_cols q _ _ E G) as C. cbn [ecolumn_names] in C.
    cbn [eop_eqb ragree wfb] in *. split_andb. cbn [to_sem] in Ta, Tb. inv_some.
    use_ih IH s s' IHs.
    eqb_to_eq. subst. cbn [sem_gen]. rewrite (IHs fl env). nodups.
    rewrite !filter_disjoint_id in C by assumption. apply app_inv_head in C.
    match goal with S1 : ops_sem ops = Some ?l1, S2 : ops_sem ops' = Some ?l2 |- _ =>
      assert (l1 = l2) as ->; [|reflexivity];
      apply same_keys_same_ops;
      [ rewrite (ops_sem_keys _ _ S1); assumption
      | rewrite (ops_sem_keys _ _ S2); assumption
      | eapply ops_lookups; eassumption
      | rewrite (ops_sem_keys _ _ S1), (ops_sem_keys _ _ S2); exact C ]
    end.
  - (* select_rows *)
    cbn [eop_eqb ragree wfb] in *. split_andb. cbn [to_sem] in Ta, Tb. inv_some.
    use_ih IH s s' IHs.
    match goal with H : is_equal q e e' = true, H2 : ragree_expr q e e' = true |- _ => pose proof (is_equal_sem q e e' H H2) as Ee end.
    match goal with A : expr_sem e = Some ?u, B : expr_sem e' = Some ?v |- _ => assert (u = v) as -> by congruence end.
    cbn [sem_gen]. rewrite (IHs fl env). reflexivity.
  - (* select_columns *)
    cbn [eop_eqb ragree wfb] in *. split_andb. cbn [to_sem] in Ta, Tb. inv_some. use_ih IH s s' IHs.
    eqb_to_eq. subst. cbn [sem_gen]. rewrite (IHs fl env). reflexivity.
  - (* drop_columns *)
    cbn [eop_eqb ragree wfb] in *. split_andb. cbn [to_sem] in Ta, Tb. inv_some. use_ih IH s s' IHs.
    eqb_to_eq. subst. cbn [sem_gen]. rewrite (IHs fl env). reflexivity.
  - (* rename_columns: the maps are equal as mappings; their entry order does not matter to sem_rename *)
    cbn [eop_eqb ragree wfb] in *. split_andb. cbn [to_sem] in Ta, Tb. inv_some. use_ih IH s s' IHs.
    nodups. cbn [sem_gen]. rewrite (IHs fl env).
    match goal with T : to_sem s' = Some ?b |- _ => destruct (sem_gen fl b env) as [t|]; [|reflexivity] end. simpl. f_equal.
    apply sem_rename_perm; [|assumption].
    apply lookups_perm; try assumption. eapply smap_eq_lookups; eassumption.
  - (* map_columns *)
    cbn [eop_eqb ragree wfb] in *. split_andb. cbn [to_sem] in Ta, Tb. inv_some. use_ih IH s s' IHs.
    nodups. eqb_to_eq. subst. cbn [sem_gen]. rewrite (IHs fl env).
    match goal with T : to_sem s' = Some ?b |- _ => destruct (sem_gen fl b env) as [t|]; [|reflexivity] end. simpl. f_equal.
    apply sem_rename_perm.
    + apply Permutation_map. apply lookups_perm; try assumption. eapply smap_eq_lookups; eassumption.
    + rewrite map_snd_swap. assumption.
  - (* order_rows *)
    cbn [eop_eqb ragree wfb] in *. split_andb. cbn [to_sem] in Ta, Tb. inv_some. use_ih IH s s' IHs.
    eqb_to_eq. subst. cbn [sem_gen]. rewrite (IHs fl env). reflexivity.
  - (* natural_join *)
    cbn [eop_eqb ragree wfb] in *. split_andb.
    match goal with H : eop_eqb q x x' = true, H2 : ragree q x x' = true |- _ => pose proof (eqb_cols q x x' H H2) as Cx end.
    match goal with H : eop_eqb q y y' = true, H2 : ragree q y y' = true |- _ => pose proof (eqb_cols q y y' H H2) as Cy end.
    cbn [to_sem] in Ta, Tb. rewrite <- Cx, <- Cy in Tb.
    destruct (to_sem x) as [x1|] eqn:Tx; [|discriminate]. destruct (to_sem y) as [y1|] eqn:Ty; [|discriminate].
    destruct (to_sem x') as [x2|] eqn:Tx'; [|discriminate]. destruct (to_sem y') as [y2|] eqn:Ty'; [|discriminate].
    use_ih IHx x x' IH1. use_ih IHy y y' IH2.
    eqb_to_eq. subst. destruct (jt_sem jt') as [j|]; [|discriminate].
    destruct (eqb (join_cols (ecolumn_names x) (ecolumn_names y)) _); inv_some; cbn [sem_gen]; rewrite (IH1 fl env), (IH2 fl env); reflexivity.
  - (* concat_rows *)
    cbn [eop_eqb ragree wfb] in *. split_andb. cbn [to_sem] in Ta, Tb.
    destruct (to_sem x) as [x1|] eqn:Tx; [|discriminate]. destruct (to_sem y) as [y1|] eqn:Ty; [|discriminate].
    destruct (to_sem x') as [x2|] eqn:Tx'; [|discriminate]. destruct (to_sem y') as [y2|] eqn:Ty'; [|discriminate].
    use_ih IHx x x' IH1. use_ih IHy y y' IH2.
    inv_some. eqb_to_eq. subst. cbn [sem_gen]. rewrite (IH1 fl env), (IH2 fl env). reflexivity.
    (* convert_records has no image: that case is closed by the first line *) Qed.
