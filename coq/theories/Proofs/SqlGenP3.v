(* SQLGEN, part 3: a SELECT whose items are plain (column / renamed column / row-wise expression) computed explicitly, and the
   bridge to C10's per-node pruning lemma. *)
From Coq Require Import List Bool Arith ZArith QArith String Lia.
Import ListNotations.
From DA Require Import Base.PyRT Base.Val Model.Sem Proofs.SemBasicP Model.ColumnsUsed Proofs.ColumnsUsedP1 Proofs.ColumnsUsedP2
  Proofs.ColumnsUsedP3 Proofs.ColumnsUsedP4 Model.SqlGen Model.SqlSem Proofs.SqlGenP1 Proofs.SqlGenP2.
Local Open Scope list_scope.

Definition scalar_term (t : tterm) : bool :=
  match t with TmPass | TmSelf | TmCol _ | TmExpr _ => true | _ => false end.

Section Rowwise.
Variable fl : flavor.

Lemma map_tag_from {A} (f : list val -> A) n l : map (fun ir => f (snd ir)) (tag_from n l) = map f l.
Proof. revert n. induction l as [|x t IH]; intros n; simpl; [reflexivity|]. rewrite IH. reflexivity. Qed.

Lemma select_rows_of_scalar t items rs :
  (forall kt, In kt items -> scalar_term (snd kt) = true) ->
  select_rows_of fl t items rs = map (fun ir => map (fun kt => eval_item fl (cols t) (snd ir) (fst kt) (snd kt)) items) rs.
Proof.
  intros H. unfold select_rows_of. apply map_ext. intros ir.
  induction items as [|[k tm] it IH]; [reflexivity|]. cbn [map combine fst snd].
  f_equal.
  - pose proof (H (k, tm) (or_introl eq_refl)) as Hs. destruct tm; try discriminate; reflexivity.
  - apply IH. intros kt I. apply H. right. exact I.
Qed.

(* the rows a suffix lets through, in the order it leaves them *)
Definition sfx_rows (sfx : tsuffix) (t : table) : list (list val) :=
  match sfx with
  | SfxNone | SfxGroup _ => rows t
  | SfxWhere x => filter (fun r => truth (eval_expr fl (cols t) r x)) (rows t)
  | SfxOrder keys lim => sort_limit fl (cols t) keys lim (rows t)
  end.
Definition not_group (sfx : tsuffix) : bool := match sfx with SfxGroup _ => false | _ => true end.

Lemma existsb_false_map {A B} (f : B -> bool) (g : A -> B) l : (forall x, In x l -> f (g x) = false) -> existsb f (map g l) = false.
Proof. induction l as [|a t IH]; intros H; simpl; [reflexivity|]. rewrite (H a (or_introl eq_refl)). apply IH. intros x I. apply H. right. exact I. Qed.

Lemma sql_select_scalar own tms K sfx t :
  K <> [] -> not_group sfx = true -> (forall k, In k K -> scalar_term (term_of tms k) = true) ->
  sql_select fl own (Some tms) (Some K) sfx t
  = Some (mktable K (map (fun r => map (fun k => eval_item fl (cols t) r k (term_of tms k)) K) (sfx_rows sfx t))).
Proof.
  intros NE NG HS. unfold sql_select. rewrite select_keys_some by exact NE.
  assert (existsb (fun kt => is_agg_term (snd kt)) (map (item_of_terms tms) K) = false) as EA.
  { apply existsb_false_map. intros k Ik. specialize (HS k Ik). unfold item_of_terms. simpl. destruct (term_of tms k); try discriminate; reflexivity. }
  assert (existsb (fun kt => is_win_term (snd kt)) (map (item_of_terms tms) K) = false) as EW.
  { apply existsb_false_map. intros k Ik. specialize (HS k Ik). unfold item_of_terms. simpl. destruct (term_of tms k); try discriminate; reflexivity. }
  assert (forall rs, select_rows_of fl t (map (item_of_terms tms) K) (tag_from 0 rs)
                     = map (fun r => map (fun k => eval_item fl (cols t) r k (term_of tms k)) K) rs) as ER.
  { intros rs. rewrite select_rows_of_scalar.
    - rewrite <- (map_tag_from (fun r => map (fun k => eval_item fl (cols t) r k (term_of tms k)) K) 0 rs).
      apply map_ext. intros ir. rewrite map_map. reflexivity.
    - intros kt I. apply in_map_iff in I. destruct I as [k [<- Ik]]. apply HS, Ik. }
  destruct sfx as [|x|gb|keys lim]; try discriminate; rewrite ?EA, ?EW; cbn [orb]; rewrite ER; reflexivity.
Qed.

(* any own keys of a step with plain terms can be selected, and give as many rows as SELECT * *)
Lemma scalar_count tms sfx :
  not_group sfx = true -> (forall kt, In kt tms -> scalar_term (snd kt) = true) ->
  forall K A, K <> [] -> incl K (map fst tms) ->
  exists R X, sql_select fl true (Some tms) (Some K) sfx A = Some R /\ sql_select fl true None None sfx A = Some X /\ sel [] R = sel [] X.
Proof.
  intros NG HS K A NE IK.
  assert (forall k, In k K -> scalar_term (term_of tms k) = true) as HK.
  { intros k Ik. unfold term_of. destruct (dict_get tms k) as [t|] eqn:G; [|reflexivity]. apply dict_get_In in G. apply (HS _ G). }
  destruct A as [ca ra]. eexists. exists (mktable ca (sfx_rows sfx (mktable ca ra))). split; [apply (sql_select_scalar true tms K sfx _ NE NG HK)|]. split.
  - unfold sql_select. simpl. destruct sfx; try discriminate; reflexivity.
  - apply sel_nil_length. cbn [rows]. rewrite map_length. reflexivity.
Qed.

(* selecting C inside a selection K gives the projection on C *)
Lemma scalar_sub tms sfx :
  not_group sfx = true -> (forall kt, In kt tms -> scalar_term (snd kt) = true) ->
  forall K C A R, C <> [] -> incl C K -> incl K (map fst tms) ->
  sql_select fl true (Some tms) (Some K) sfx A = Some R -> sql_select fl true (Some tms) (Some C) sfx A = Some (sel C R).
Proof.
  intros NG HS K C A R NC ICK IK E.
  assert (forall k, In k K -> scalar_term (term_of tms k) = true) as HK.
  { intros k Ik. unfold term_of. destruct (dict_get tms k) as [t|] eqn:G; [|reflexivity]. apply dict_get_In in G. apply (HS _ G). }
  assert (K <> []) as NK by (destruct C as [|c0 C']; [congruence|]; intros X; specialize (ICK c0 (or_introl eq_refl)); rewrite X in ICK; destruct ICK).
  pose proof (sql_select_scalar true tms K sfx A NK NG HK) as EK.
  pose proof (sql_select_scalar true tms C sfx A NC NG (fun k Ik => HK k (ICK k Ik))) as EC.
  pose proof (eq_trans (eq_sym EK) E) as X. injection X as <-.
  refine (eq_trans EC _). f_equal. unfold sem_select_cols. cbn [cols rows]. f_equal. rewrite map_map. apply map_ext. intros r.
  apply map_ext_in. intros k Ik. rewrite get_map_cols. assert (mem k K = true) as M by (apply mem_In, ICK, Ik). rewrite M. reflexivity.
Qed.

Lemma star_is sfx A : not_group sfx = true -> sql_select fl true None None sfx A = Some (mktable (cols A) (sfx_rows sfx A)).
Proof. intros NG. destruct A as [ca ra]. unfold sql_select. simpl. destruct sfx; try discriminate; reflexivity. Qed.

End Rowwise.

(* ------------------------------------------------------------------ C10's pruning lemma, as an equation between projections *)
Lemma prune_unary fl e n s us' u K S T :
  builder_ok n = true -> sources n = [s] -> incl u (column_names n) -> incl K u ->
  sem_gen fl s e = Some S -> sem_gen fl n e = Some T -> (forall x, In x (cfs1 n u) -> In x us') -> incl us' (cols S) ->
  exists T1, sem_gen fl (with_sources n [OSelectCols s us']) e = Some T1 /\ sel K T = sel K T1.
Proof.
  intros BO Sr Iu IK ES ET Hus Ic.
  pose proof (node_step fl e e n [OSelectCols s us'] u BO Iu) as NS. rewrite Sr in NS.
  assert (out_agree (cfs1 n u) (sem_gen fl s e) (sem_gen fl (OSelectCols s us') e)) as OA.
  { simpl. rewrite ES. simpl. destruct (agree_self_sel us' S Ic) as [A [B C]]. split; [exact A|]. split.
    - intros c Hc _. apply Hus, Hc.
    - eapply F2_weaken; [exact C|]. intros r r' R c Hc. apply R, Hus, Hc. }
  specialize (NS OA). unfold out_agree in NS. rewrite ET in NS.
  destruct (sem_gen fl (with_sources n [OSelectCols s us']) e) as [T1|] eqn:E2; [|contradiction].
  exists T1. split; [reflexivity|]. eapply agree_sel; eassumption.
Qed.
