(* The SQL-level extend merge is an optimisation only: whenever the code's test passes (sql_merge = MYes m), the ONE merged
   SELECT denotes, column for column, what the extend's SELECT over the sub-query's SELECT denotes. *)
From Coq Require Import List Bool Arith String Ascii Lia.
Import ListNotations.
From DA Require Import Base.PyRT Model.NearSql Model.SqlMerge.

Lemma dict_get_fold_set {V} (g : string -> V) ks : forall (d : pydict string V) c,
  dict_get (fold_left (fun acc k => dict_set acc k (g k)) ks d) c = if mem c ks then Some (g c) else dict_get d c.
Proof. induction ks as [|k t IH]; intros d c; simpl; [reflexivity|].
  rewrite IH. destruct (eq_dec c k) as [->|n].
  - destruct (mem k t); [reflexivity|apply dict_get_set_same].
  - destruct (mem c t); [reflexivity|apply dict_get_set_other, n]. Qed.

Lemma dict_get_filter_keys {V} (p : string -> bool) (d : pydict string V) c :
  dict_get (filter (fun kv => p (fst kv)) d) c = if p c then dict_get d c else None.
Proof. induction d as [|[k v] t IH]; simpl; [destruct (p c); reflexivity|].
  destruct (p k) eqn:Pk; simpl.
  - destruct (eq_dec c k) as [->|n]; [rewrite Pk; reflexivity|exact IH].
  - rewrite IH. destruct (eq_dec c k) as [->|n]; [rewrite Pk; reflexivity|reflexivity]. Qed.

(* a term that is the column itself *)
Definition triv (tms : terms) (k : string) : Prop :=
  match dict_get tms k with Some (Some e) => String.eqb e k = true | _ => True end.

Lemma non_trivial_in fl dep tms nt : non_trivial_terms fl dep tms = Some nt -> forall k, In k nt -> In k (map fst dep).
Proof. revert nt. induction dep as [|[ki vi] rest IH]; simpl; intros nt H k I.
  - injection H as <-. contradiction.
  - destruct (f_merge_skips_missing fl && negb (dict_has tms ki)); [right; eapply IH; eassumption|].
    destruct (non_trivial_terms fl rest tms) as [l|]; [|destruct (if negb (subset vi [ki]) || negb (mem ki vi) then Some true else _) as [[|]|]; discriminate].
    destruct (if negb (subset vi [ki]) || negb (mem ki vi) then Some true else _) as [[|]|]; try discriminate; injection H as <-.
    + destruct I as [<-|I]; [left; reflexivity|right; eapply IH; [reflexivity|exact I]].
    + right. eapply IH; [reflexivity|exact I]. Qed.

Lemma non_trivial_out fl dep tms nt : non_trivial_terms fl dep tms = Some nt -> NoDup (map fst dep) ->
  forall k, In k (map fst dep) -> ~ In k nt -> triv tms k.
Proof. revert nt. induction dep as [|[ki vi] rest IH]; simpl; intros nt H N k I NI; [contradiction|].
  inversion N as [|x l Hx N']; subst x l.
  destruct (f_merge_skips_missing fl && negb (dict_has tms ki)) eqn:Sk.
  - destruct I as [<-|I]; [|eapply IH; eassumption].
    apply andb_true_iff in Sk. destruct Sk as [_ Ms]. apply negb_true_iff, dict_has_false, dict_get_None in Ms.
    unfold triv. rewrite Ms. exact Logic.I.
  - destruct (non_trivial_terms fl rest tms) as [l|] eqn:Er; [|destruct (if negb (subset vi [ki]) || negb (mem ki vi) then Some true else _) as [[|]|]; discriminate].
    destruct (negb (subset vi [ki]) || negb (mem ki vi)) eqn:C1.
    + injection H as <-. destruct I as [<-|I]; [exfalso; apply NI; left; reflexivity|].
      apply (IH l eq_refl N' k I). intros J. apply NI. right; exact J.
    + destruct (dict_get tms ki) as [[e|]|] eqn:G; try discriminate.
      * destruct (String.eqb e ki) eqn:Ee; simpl in H; injection H as <-.
        -- destruct I as [<-|I]; [unfold triv; rewrite G; exact Ee|apply (IH l eq_refl N' k I NI)].
        -- destruct I as [<-|I]; [exfalso; apply NI; left; reflexivity|].
           apply (IH l eq_refl N' k I). intros J. apply NI. right; exact J.
      * injection H as <-. destruct I as [<-|I]; [unfold triv; rewrite G; exact Logic.I|apply (IH l eq_refl N' k I NI)].
Qed.

(* the declared dependencies of an assigned column contain the columns its expression mentions AND the window's partition
   and order columns: what `deps_describe` needs of a windowed term, whose text reads them in its OVER clause *)
Lemma declared_deps_cover demand subops partition order k cols :
  dict_get subops k = Some cols ->
  forall c, In c (cols ++ partition ++ order) -> In c (deps_of (declared_deps demand subops partition order) k).
Proof.
  intros G c I. unfold deps_of, declared_deps. rewrite dict_get_app.
  assert (dict_get (map (fun k0 : string => (k0, [k0])) (filter (fun k0 => negb (mem k0 (map fst subops))) demand)) k = None) as ->.
  { apply dict_get_None. unfold dict_keys. rewrite map_map. simpl. rewrite map_id. intros J. apply filter_In in J.
    destruct J as [_ J]. apply negb_true_iff, mem_false in J. apply J. eapply dict_get_Some_keys. exact G. }
  rewrite (dict_get_map_val (fun e => e ++ partition ++ order)), G. simpl. exact I.
Qed.

Section P.
Variable V : Type.
Variable tsem : string -> (string -> option V) -> option V.
Notation term_val := (term_val tsem).
Notation select := (select tsem).

Lemma triv_val tms k (f : cframe V) : triv tms k -> term_val tms k f = f k.
Proof. unfold triv, SqlMerge.term_val. destruct (dict_get tms k) as [[e|]|]; try reflexivity. intros ->. reflexivity. Qed.

Theorem sql_merge_preserves fl n ts s ci sfx an ds k tms deps anno okey m (cols_i : list string) :
  sql_merge fl (NUnary n (Some ts) s ci sfx an true (Some ds) k) tms deps anno okey = MYes m ->
  NoDup (map fst deps) -> NoDup (map fst ds) ->
  (forall c, In c (map fst tms) -> In c (map fst deps)) ->          (* every term of the extend has a dependency entry *)
  (forall c, In c (map fst ts) -> In c (map fst ds)) ->              (* so has every term of the sub-query *)
  deps_describe tsem tms deps ->                                     (* the declared dependencies describe the extend's expressions *)
  (forall c, In c (map fst tms) -> triv tms c -> In c cols_i) ->     (* the sub-query is asked for the columns passed through ... *)
  (forall c d, In c (map fst tms) -> In d (deps_of deps c) -> In d cols_i) ->   (* ... and for the columns the expressions read *)
  exists tm dm an' k', m = NUnary n (Some tm) s ci [] an' true (Some dm) k' /\
    forall (f : cframe V) c, In c (map fst tms) -> term_val tm c f = term_val tms c (select ts cols_i f).
Proof.
  intros H Nd Nds Kd Ks DD Cv1 Cv2. unfold sql_merge in H.
  destruct sfx as [|x sfx']; [|discriminate].
  destruct (non_trivial_terms fl deps tms) as [our_nt|] eqn:Eo; [|discriminate].
  destruct (non_trivial_terms fl ds ts) as [sub_nt|] eqn:Es; [|discriminate].
  destruct (contention our_nt (needs deps our_nt) sub_nt (needs ds sub_nt)) as [|y l] eqn:Ec; [|discriminate].
  destruct (negb (forallb (fun k0 => dict_has tms k0) our_nt)) eqn:Ef; [discriminate|].
  injection H as <-. do 4 eexists. split; [reflexivity|].
  unfold contention in Ec. apply app_eq_nil in Ec. destruct Ec as [C1 Ec]. apply app_eq_nil in Ec. destruct Ec as [_ C3].
  assert (forall x, In x our_nt -> ~ In x sub_nt) as D1.
  { intros x I J. assert (In x (set_inter our_nt sub_nt)) as K by (apply In_set_inter; tauto). rewrite C1 in K. contradiction. }
  assert (forall x, In x sub_nt -> ~ In x (needs deps our_nt)) as D3.
  { intros x I J. assert (In x (set_inter sub_nt (needs deps our_nt))) as K by (apply In_set_inter; tauto). rewrite C3 in K. contradiction. }
  (* a column that is not a non-trivial term of the sub-query passes through it *)
  assert (forall d, ~ In d sub_nt -> triv ts d) as Tsub.
  { intros d Nd'. destruct (in_dec string_dec d (map fst ds)) as [I|I].
    - eapply non_trivial_out; eassumption.
    - unfold triv. assert (dict_get ts d = None) as -> by (apply dict_get_None; intros J; apply I, Ks, J). exact Logic.I. }
  intros f c Ic.
  assert (dict_get (merged_terms our_nt tms deps ts) c = if mem c our_nt then Some (oget tms c) else dict_get ts c) as Gm.
  { unfold merged_terms. rewrite (dict_get_filter_keys (fun x => mem x (map fst tms ++ map fst deps))).
    assert (mem c (map fst tms ++ map fst deps) = true) as -> by (apply mem_In, in_app_iff; left; exact Ic).
    apply dict_get_fold_set. }
  destruct (mem c our_nt) eqn:Mc.
  - (* one of the extend's own (non-trivial) terms: it now reads the sub-query's input directly *)
    apply mem_In in Mc.
    assert (SqlMerge.term_val tsem (merged_terms our_nt tms deps ts) c f = term_val tms c f) as ->.
    { unfold SqlMerge.term_val at 1 2. rewrite Gm. unfold oget. destruct (dict_get tms c) as [v|] eqn:G; [reflexivity|].
      apply dict_get_None in G. contradiction. }
    assert (forall d, In d (deps_of deps c) -> f d = select ts cols_i f d) as Agree.
    { intros d Id. unfold SqlMerge.select. assert (mem d cols_i = true) as -> by (apply mem_In; eapply Cv2; eassumption).
      symmetry. apply triv_val, Tsub. intros J. apply (D3 d J). unfold needs. apply in_flat_map. exists c. tauto. }
    unfold SqlMerge.term_val. destruct (dict_get tms c) as [[e|]|] eqn:G.
    + destruct (String.eqb e c) eqn:Ee.
      * unfold SqlMerge.select. assert (mem c cols_i = true) as ->.
        { apply mem_In, Cv1; [exact Ic|]. unfold triv. rewrite G. exact Ee. }
        symmetry. apply triv_val, Tsub, D1, Mc.
      * apply (DD c e G Ee). exact Agree.
    + unfold SqlMerge.select. assert (mem c cols_i = true) as ->.
      { apply mem_In, Cv1; [exact Ic|]. unfold triv. rewrite G. exact Logic.I. }
      symmetry. apply triv_val, Tsub, D1, Mc.
    + apply dict_get_None in G. contradiction.
  - (* a column the extend passes through: the merged SELECT keeps the sub-query's own term for it *)
    apply mem_false in Mc.
    assert (triv tms c) as Tc by (eapply non_trivial_out; try eassumption; apply Kd, Ic).
    rewrite (triv_val tms c _ Tc). unfold SqlMerge.select.
    assert (mem c cols_i = true) as -> by (apply mem_In, Cv1; assumption).
    unfold SqlMerge.term_val. rewrite Gm. reflexivity.
Qed.

(* which key the merged step carries: the inner one as the code stands, the outer one once repaired *)
Lemma sql_merge_key fl sub tms deps anno okey m :
  sql_merge fl sub tms deps anno okey = MYes m -> ops_key m = if f_merge_rekeys fl then okey else ops_key sub.
Proof. unfold sql_merge. destruct sub; try discriminate. destruct mergeable; try discriminate. destruct deps0; try discriminate.
  destruct sfx; try discriminate. destruct tms0; try discriminate.
  destruct (non_trivial_terms fl deps tms); try discriminate. destruct (non_trivial_terms fl d t); try discriminate.
  destruct (contention _ _ _ _); try discriminate. destruct (negb _); try discriminate.
  intros H. injection H as <-. simpl. reflexivity. Qed.
End P.
