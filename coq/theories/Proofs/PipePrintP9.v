(* C12, part 9: the closed statements (the two section hypotheses of parts 5-8 are the theorems of parts 1 and 3), the
   expression-level statement, equal results through C11, the refutation witnesses and the non-vacuity examples. *)
From Coq Require Import List Bool String Ascii ZArith NArith QArith Arith Lia.
Import ListNotations.
From DA Require Import Base.PyRT Base.Val Model.Sem Model.Equiv Proofs.EquivP1 Proofs.EquivP2 Proofs.EquivP5 Proofs.EquivP6.
From DA Require Import Model.PyExpr Model.ExprPrint Model.ExprParse Model.ExprRoundtrip Model.PipePrintStr Model.PipePrintSyn Model.PipePrint.
From DA Require Import Proofs.ExprParseP14 Proofs.PipePrintP1 Proofs.PipePrintP3 Proofs.PipePrintP4 Proofs.PipePrintP5
  Proofs.PipePrintP6 Proofs.PipePrintP7 Proofs.PipePrintP8.
Local Close Scope Q_scope.
Local Open Scope string_scope.
Local Open Scope bool_scope.
Local Open Scope list_scope.

Lemma unq_E (E : penv) s : py_unquote (py_repr (e_np E) s) = Some s.
Proof. apply py_unquote_repr. Qed.
Lemma lexh_E (E : penv) e : lexable e = true -> (forall m, In m (floats_of e) -> float_lex_ok (e_F E) m) ->
  lexg (e_F E) (expr_text (e_F E) (e_np E) e) = Some (to_python e).
Proof. apply lexg_expr_text. Qed.

(* ------------------------------------------------------------------ expressions *)
(* the text of a printable expression, written as a Python string literal, read back by Python and parsed by the library *)
Theorem print_rebuild_expr (F : ffmt) (np : N -> bool) (c : cfg) (dd : list string) (e : expr) :
  printable c dd e = true -> is_term e = true -> lexable e = true -> (forall m, In m (floats_of e) -> float_lex_ok F m) ->
  exists text, py_unquote (py_repr np (expr_text F np e)) = Some text /\ text = expr_text F np e
               /\ parse_text F c dd text = Ok e.
Proof. intros P T L Fl. exists (expr_text F np e). split; [apply py_unquote_repr|]. split; [reflexivity|].
  unfold parse_text. rewrite (lexg_expr_text F np e L Fl). exact (printable_roundtrip c dd e P T). Qed.

(* ------------------------------------------------------------------ pipelines *)
Theorem print_rebuild_op (E : penv) (p : eop) : normal E p = true -> floats_ok_op E p ->
  exists ts p', print_op E p = Some ts /\ rebuild E ts = Some p' /\ p' = p /\ pipeline_eqb p p' = true /\ pipeline_eqb p' p = true.
Proof. intros N F. destruct (print_rebuild E (unq_E E) (lexh_E E) p N F) as [ts [P R]].
  exists ts, p. repeat split; try assumption; apply pipeline_eqb_refl. Qed.

Theorem printer_injective (E : penv) (p q : eop) : normal E p = true -> normal E q = true -> floats_ok_op E p -> floats_ok_op E q ->
  print_op E p = print_op E q -> p = q.
Proof. exact (print_injective E (unq_E E) (lexh_E E) p q). Qed.

(* dict invariants of C11 hold of normal pipelines *)
Lemma NoDup_app_l {A} (a b : list A) : NoDup (a ++ b) -> NoDup a.
Proof. induction a as [|x t IH]; intros H; [constructor|]. inversion H; subst. constructor; [|apply IH; assumption].
  intros I. apply H2. apply in_or_app. left. exact I. Qed.
Ltac split_all := repeat match goal with Hx : _ && _ = true |- _ => apply andb_true_iff in Hx; destruct Hx end.
Lemma normal_wfb (E : penv) (p : eop) : normal E p = true -> wfb p = true.
Proof. induction p as [name cols quals|s IH ops part order rev w|s IH ops gb|s IH e|s IH cs|s IH ds|s IH m|s IH m dels|s IH cs rev limit
                       |a IHa b IHb oa ob jt|a IHa b IHb idc an bn|s IH rm]; intros N; cbn [normal] in N; cbn [wfb]; split_all.
  - reflexivity.
  - rewrite IH by assumption. rewrite andb_true_r. apply nodupb_NoDup. eapply ops_ok_nodup. eassumption.
  - rewrite IH by assumption. rewrite andb_true_r. apply nodupb_NoDup. eapply ops_ok_nodup. eassumption.
  - apply IH. assumption.
  - apply IH. assumption.
  - apply IH. assumption.
  - rewrite IH by assumption. rewrite andb_true_r. assumption.
  - rewrite IH by assumption. rewrite andb_true_r.
    match goal with Hd : nodups (map fst _ ++ _) = true |- _ => apply nodups_NoDup, NoDup_app_l in Hd; apply nodupb_NoDup; exact Hd end.
  - apply IH. assumption.
  - rewrite IHa, IHb by assumption. reflexivity.
  - rewrite IHa, IHb by assumption. reflexivity.
  - apply IH. assumption. Qed.

(* the rebuilt pipeline denotes the same table as the original, for every backend flavour and every input: C11's
   soundness theorem applied to the `==` of print_rebuild_op *)
Theorem print_rebuild_same_result (E : penv) (p : eop) : normal E p = true -> floats_ok_op E p ->
  exists ts p', print_op E p = Some ts /\ rebuild E ts = Some p' /\ pipeline_eqb p p' = true /\
    forall sa sb, to_sem p = Some sa -> to_sem p' = Some sb -> forall fl env, sem_gen fl sa env = sem_gen fl sb env.
Proof. intros N F. destruct (print_rebuild_op E p N F) as [ts [p' [P [R [Ep [Q1 Q2]]]]]]. exists ts, p'. repeat split; try assumption.
  intros sa sb Sa Sb fl env. subst p'. exact (pipeline_sound p p sa sb (normal_wfb E p N) (normal_wfb E p N) Q1 Sa Sb fl env). Qed.

(* ------------------------------------------------------------------ a concrete environment *)
Definition F0 : ffmt :=
  mkF (fun q => if Qeqb_s q (3 # 2) then "1.5" else if Qeqb_s q 0 then "0.0" else "?")
      (fun s => if String.eqb s "1.5" then Some (3 # 2)%Q else if String.eqb s "0.0" then Some 0%Q else None).
Definition E0 : penv :=
  mkE (mkcfg ["+"; "-"; "*"; "**"; "sum"; "max"; "=="; "is_in"; "and"; "cumsum"]) F0 (fun _ => false) ["sum"; "max"; "cumsum"].

Lemma delim_cases rest : delim_start rest = true ->
  rest = "" \/ exists c r, rest = String c r /\ (c = " " \/ c = ")" \/ c = "," \/ c = "]" \/ c = "}" \/ c = ":")%char.
Proof. destruct rest as [|c r]; [left; reflexivity|]. intros H. right. exists c, r. split; [reflexivity|].
  unfold delim_start, smem, s1 in H. simpl in H.
  destruct (Ascii.eqb c " ") eqn:E1; [apply Ascii.eqb_eq in E1; tauto|].
  destruct (Ascii.eqb c ")") eqn:E2; [apply Ascii.eqb_eq in E2; tauto|].
  destruct (Ascii.eqb c ",") eqn:E3; [apply Ascii.eqb_eq in E3; tauto|].
  destruct (Ascii.eqb c "]") eqn:E4; [apply Ascii.eqb_eq in E4; tauto|].
  destruct (Ascii.eqb c "}") eqn:E5; [apply Ascii.eqb_eq in E5; tauto|].
  destruct (Ascii.eqb c ":") eqn:E6; [apply Ascii.eqb_eq in E6; tauto|]. discriminate H. Qed.
Lemma F0_float_ok : float_lex_ok F0 (3 # 2).
Proof. split; [reflexivity|]. intros rest H. destruct (delim_cases rest H) as [->|[c [r [-> Hc]]]]; [reflexivity|].
  destruct Hc as [->|[->|[->|[->|[->| ->]]]]]; reflexivity. Qed.
Lemma F0_zero_ok : float_lex_ok F0 0.
Proof. split; [reflexivity|]. intros rest H. destruct (delim_cases rest H) as [->|[c [r [-> Hc]]]]; [reflexivity|].
  destruct Hc as [->|[->|[->|[->|[->| ->]]]]]; reflexivity. Qed.

(* a pipeline with every kind of step that prints something optional: windowed extend, quoted string constant, reversed
   order with limit, join on a pair, qualifiers *)
Definition ex_t : eop := ETable "d" ["x"; "y"; "g"] [].
Definition ex_p1 : eop := EExtend ex_t [("z", POp "+" true false [PCol "x"; PVal (KFloat (3 # 2))])] [] [] [] false.
Definition ex_p2 : eop := EExtend ex_p1 [("w", POp "sum" false true [PCol "z"])] ["g"] [] [] true.
Definition ex_p3 : eop := EOrder (ESelectRows ex_p2 (POp "==" true false [PCol "g"; PVal (KStr "a'b")])) ["x"] ["x"] (Some 3%nat).
Definition ex_p4 : eop := EJoin ex_p3 (ETable "e" ["x"; "k"] [("schema", "s")]) ["x"; "g"] ["x"; "k"] "LEFT".

Lemma ex_p4_normal : normal E0 ex_p4 = true.
Proof. vm_compute. reflexivity. Qed.
Lemma ex_p4_floats : floats_ok_op E0 ex_p4.
Proof. cbn [floats_ok_op ex_p4 ex_p3 ex_p2 ex_p1 ex_t]. refine (conj (conj _ (conj _ (conj _ I))) I).
  - intros e He m Hm. vm_compute in He. inversion He; subst e. cbn in Hm. tauto.
  - intros ke [<-|[]] e He m Hm. vm_compute in He. inversion He; subst e. cbn in Hm. tauto.
  - intros ke [<-|[]] e He m Hm. vm_compute in He. inversion He; subst e. cbn in Hm. destruct Hm as [<-|[]]. exact F0_float_ok. Qed.

(* ------------------------------------------------------------------ refutation witnesses *)
(* (1) a tree the builders never produce: an extend directly over an order_rows without limit.  The text is re-read by the
   builder, which skips the order_rows: the rebuilt pipeline is a different one *)
Definition w_skip : eop := EExtend (EOrder ex_t ["x"] [] None) [("z", POp "+" true false [PCol "x"; PVal (KInt 1)])] [] [] [] false.
Definition w_skip' : eop := EExtend ex_t [("z", POp "+" true false [PCol "x"; PVal (KInt 1)])] [] [] [] false.
Lemma refuted_without_normal :
  exists ts, print_op E0 w_skip = Some ts /\ rebuild E0 ts = Some w_skip' /\ pipeline_eqb w_skip w_skip' = false /\ normal E0 w_skip = false.
Proof. eexists. split; [vm_compute; reflexivity|]. repeat split; vm_compute; reflexivity. Qed.

(* (2) a column whose name is not an identifier, used in an expression: the text of the expression does not parse *)
Definition w_col : eop := EExtend (ETable "d" ["x"; "my col"] []) [("z", POp "+" true false [PCol "my col"; PVal (KInt 1)])] [] [] [] false.
Lemma refuted_column_name :
  exists ts, print_op E0 w_col = Some ts /\ rebuild E0 ts = None /\ normal E0 w_col = false
             /\ wfb w_col = true /\ subset (ops_cols [("z", POp "+" true false [PCol "my col"; PVal (KInt 1)])]) ["x"; "my col"] = true.
Proof. eexists. split; [vm_compute; reflexivity|]. repeat split; vm_compute; reflexivity. Qed.

(* (3) expressions: an infinite constant (built from term objects) prints as the NAME inf *)
Definition w_inf : expr := EOp "+" true false None [ECol "x"; EVal (PInf false)].
Lemma refuted_expr_infinity :
  exists text, py_unquote (py_repr (fun _ => false) (expr_text F0 (fun _ => false) w_inf)) = Some text
               /\ parse_text F0 (e_cfg E0) ["x"] text = Err /\ printable (e_cfg E0) ["x"] w_inf = false.
Proof. eexists. split; [vm_compute; reflexivity|]. split; vm_compute; reflexivity. Qed.
