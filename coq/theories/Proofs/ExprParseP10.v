(* Proofs/ExprParseP10.v -- C13, part 3: constants; printing and re-reading a value. *)
From Coq Require Import List Bool String Ascii ZArith NArith QArith Arith Lia.
Import ListNotations.
From DA Require Import Model.PyExpr Model.ExprPrint Model.ExprParse Model.ExprAst Model.ExprRoundtrip
  Proofs.ExprParseP1 Proofs.ExprParseP2.
Local Close Scope Q_scope.
Local Open Scope string_scope.
Local Open Scope bool_scope.
Local Open Scope list_scope.

(* ------------------------------------------------------------------ more unfoldings of walk_node *)
Lemma wn_const_none c cs rs g a : walk_node c "const_none" cs rs g a = Ok (EVal PNone).
Proof. reflexivity. Qed.
Lemma wn_const_true c cs rs g a : walk_node c "const_true" cs rs g a = Ok (EVal (PBool true)).
Proof. reflexivity. Qed.
Lemma wn_const_false c cs rs g a : walk_node c "const_false" cs rs g a = Ok (EVal (PBool false)).
Proof. reflexivity. Qed.

Lemma wn_list c cs rs g a : walk_node c "list" cs rs g a =
  match coll_items cs rs g with
  | Some l =>
      match all_ok l with
      | Ok vs =>
          match all_some (map (fun e => match e with EVal v => Some v | _ => None end) vs) with
          | Some vals =>
              if existsb (fun v => pval_eqb v PNone) vals then Err
              else if negb (compatible_types (map type_of vals)) then Err
              else Ok (EList vals)
          | None => Err
          end
      | Err => Err
      end
  | None => Err
  end.
Proof. reflexivity. Qed.

(* the tree of a constant is never a tuplelist_comp / set_comp node *)
Lemma strip_dval_kind v : exists d cs, strip (dval v) = LNode d cs /\ mem_str d ["tuplelist_comp"; "set_comp"] = false.
Proof. destruct v as [|b|z|neg m|neg|s]; simpl; try (eexists; eexists; split; reflexivity).
  - destruct b; eexists; eexists; split; reflexivity.
  - destruct (Z.ltb z 0); eexists; eexists; split; reflexivity.
  - destruct neg; eexists; eexists; split; reflexivity.
  - destruct neg; eexists; eexists; split; reflexivity. Qed.

Lemma wn_dict c cs rs g a : walk_node c "dict" cs rs g a =
  match cs, g with
  | [_], Some l =>
      match all_ok l with
      | Ok ds =>
          match dict_combine [] ds with
          | Some comb =>
              if negb (compatible_types (map (fun kv => type_of (fst kv)) comb)) then Err
              else if negb (compatible_types (map (fun kv => type_of (snd kv)) comb)) then Err
              else Ok (EDict comb)
          | None => Err
          end
      | Err => Err
      end
  | _, _ => Err
  end.
Proof. reflexivity. Qed.

Lemma wn_key_value c cs rs g a : walk_node c "key_value" cs rs g a =
  match rs with [Ok (EVal k); Ok (EVal v)] => Ok (EDict [(k, v)]) | _ => Err end.
Proof. reflexivity. Qed.

(* ------------------------------------------------------------------ values *)
Lemma unparse_dval v : unparse (dval v) = val_toks v.
Proof. destruct v as [|b|z|neg m|neg|s]; simpl; try reflexivity.
  - destruct (Z.ltb z 0) eqn:E; simpl.
    + apply Z.ltb_lt in E. rewrite Z.abs_neq by lia. reflexivity.
    + apply Z.ltb_ge in E. rewrite Z.abs_eq by lia. reflexivity.
  - destruct neg; reflexivity.
  - destruct neg; reflexivity. Qed.

Lemma wfn_dval v : wfn (dval v) = true.
Proof. destruct v as [|b|z|neg m|neg|s]; simpl; try reflexivity.
  - destruct b; reflexivity.
  - destruct (Z.ltb z 0); reflexivity.
  - destruct neg; reflexivity.
  - destruct neg; reflexivity. Qed.

Lemma src_ok_dval v : src_ok (dval v) = true.
Proof. destruct v as [|b|z|neg m|neg|s]; simpl; try reflexivity.
  - destruct (Z.ltb z 0); reflexivity.
  - destruct neg; reflexivity.
  - destruct neg; reflexivity. Qed.

Lemma dlvl_dval_ge10 v : 10 <= dlvl (dval v).
Proof. destruct v as [|b|z|neg m|neg|s]; simpl; try lia.
  - destruct (Z.ltb z 0); simpl; lia.
  - destruct neg; simpl; lia.
  - destruct neg; simpl; lia. Qed.

(* a value that prints without a sign is an atom *)
Definition signless (v : pval) : bool :=
  match v with PInt z => negb (Z.ltb z 0) | PFloat neg _ => negb neg | PInf neg => negb neg | _ => true end.
Lemma dlvl_dval_signless v : signless v = true -> dlvl (dval v) = 12.
Proof. destruct v as [|b|z|neg m|neg|s]; simpl; try reflexivity.
  - destruct (Z.ltb z 0); [discriminate|reflexivity].
  - destruct neg; [discriminate|reflexivity].
  - destruct neg; [discriminate|reflexivity]. Qed.

Section Values.
Variables (c : cfg) (dd : list string).

Lemma walk_number t :
  walk c dd (LNode "number" [LTok t]) = walk c dd (LTok t).
Proof. rewrite walk_node_eq. rewrite (wn_var c "number"); [reflexivity|simpl; tauto]. Qed.

Lemma walk_dval v : is_inf v = false -> walk c dd (strip (dval v)) = Ok (EVal v).
Proof. intros Hi. destruct v as [|b|z|neg m|neg|s]; try discriminate Hi.
  - reflexivity.
  - destruct b; reflexivity.
  - simpl dval. destruct (Z.ltb z 0) eqn:E.
    + apply Z.ltb_lt in E. cbn [dneg strip]. rewrite walk_node_eq, wn_factor. cbn [map tok_text].
      rewrite walk_number. cbn [walk]. change (remap factor_remap "-") with "__neg__".
      unfold call_method. cbn [is_term negb]. change (find_method "__neg__" method_table) with (Some MNeg). cbv iota beta.
      cbn [py_neg]. rewrite Z2N.id by lia. rewrite Z.abs_neq by lia. rewrite Z.opp_involutive. reflexivity.
    + apply Z.ltb_ge in E. cbn [dneg strip]. rewrite walk_number. cbn [walk]. rewrite Z2N.id by lia.
      rewrite Z.abs_eq by lia. reflexivity.
  - simpl dval. destruct neg.
    + cbn [dneg strip]. rewrite walk_node_eq, wn_factor. cbn [map tok_text]. rewrite walk_number. reflexivity.
    + cbn [dneg strip]. rewrite walk_number. reflexivity.
  - reflexivity. Qed.

End Values.
