(* C05 -- aggregates and window functions on Pandas and Polars; assembly over the catalogue's index sets *)
From Coq Require Import List Bool ZArith QArith Qround Qabs String Ascii Lia Lqa.
Import ListNotations.
From DA Require Import Model.Scalar Model.SqlTemplates Model.ScalarBackends Model.ScalarCatalog Model.AggModels Model.ScalarIndex Model.AggIndex
  Proofs.ScalarP0 Proofs.AggP.
Local Open Scope string_scope.
Local Open Scope list_scope.

Lemma all_fin_map l qs : all_fin l = Some qs -> l = map SNum qs.
Proof. revert qs. induction l as [|v t IH]; intros qs H; [inversion H; reflexivity|].
  destruct v; try discriminate H. cbn in H. destruct (all_fin t) eqn:E; [|discriminate H]. cbn in H. inversion H; subst.
  cbn. rewrite (IH _ eq_refl). reflexivity. Qed.
Lemma positions_iota n (l : list sval) : positions n l = iota n (List.length l).
Proof. revert n. induction l as [|v t IH]; intros n; [reflexivity|]. cbn. rewrite IH. reflexivity. Qed.
Lemma rev_head_last (qs : list Q) x : match rev (x :: qs) with [] => x | y :: _ => y end = last (x :: qs) x.
Proof. revert x. induction qs as [|y t IH]; intros x; [reflexivity|].
  change (last (x :: y :: t) x) with (last (y :: t) x).
  assert (forall d1 d2, last (y :: t) d1 = last (y :: t) d2) as LD. { clear. revert y. induction t as [|z t IH]; intros y d1 d2; [reflexivity|]. apply (IH z). }
  rewrite (LD x y). rewrite <- (IH y). cbn [rev]. destruct (rev t ++ [y]) eqn:E; [destruct (rev t); discriminate E|]. reflexivity. Qed.

Lemma last_map_snum (qs : list Q) x d : last (map SNum (x :: qs)) d = SNum (last (x :: qs) x).
Proof. revert x. induction qs as [|y t IH]; intros x; [reflexivity|].
  change (last (map SNum (x :: y :: t)) d) with (last (map SNum (y :: t)) d). rewrite (IH y).
  change (last (x :: y :: t) x) with (last (y :: t) x).
  assert (forall d1 d2, last (y :: t) d1 = last (y :: t) d2) as LD. { clear. revert y. induction t as [|z t IH]; intros y d1 d2; [reflexivity|]. apply (IH z). }
  rewrite (LD x y). reflexivity. Qed.
Lemma pd_last_head qs x : match rev (map SNum (x :: qs)) with [] => SNull | y :: _ => y end = SNum (last (x :: qs) x).
Proof. rewrite <- map_rev. pose proof (rev_head_last qs x) as RL.
  destruct (rev (x :: qs)) as [|y ys] eqn:R; [cbn [rev] in R; destruct (rev qs); discriminate R|]. cbn [map]. rewrite RL. reflexivity. Qed.

Section AggFrames.
Variable mf : string -> Q -> option Q.

Definition pd1_ok (m : string) : Prop :=
  forall vals r, vals <> [] -> spec_agg mf m vals = Some r -> exists v, pd_agg1 mf m vals = Some v /\ sv_eqv v r.
Definition pl1_ok (m : string) : Prop :=
  forall vals r, vals <> [] -> spec_agg mf m vals = Some r -> forall v, pl_agg1 mf m vals = Some v -> sv_eqv v r.

Ltac present_case H :=
  let qs := fresh "qs" in let F := fresh "F" in let L := fresh "L" in let E := fresh "E" in
  destruct (agg_present_inv _ _ _ _ H) as [qs [F [L E]]].

Lemma pd_simple m : In m ["sum"; "mean"; "max"; "min"; "median"; "var"; "std"; "count"; "size"; "_size"; "any"; "all"; "nunique"; "any_value"] -> pd1_ok m.
Proof. intros I vals r NE H. cbn in I.
  repeat (destruct I as [<-|I]; [ | ]); try contradiction.
  - change (spec_agg mf "sum" vals) with (agg_present 1 (fun qs => Some (SNum (qsum qs))) vals) in H. present_case H. inversion E; subst.
    unfold pd_agg1. cbn. unfold np_present. fold (present vals). rewrite F. eexists; split; [reflexivity | apply sv_eqv_refl].
  - change (spec_agg mf "mean" vals) with (agg_present 1 (fun qs => Some (SNum (qmean qs))) vals) in H. present_case H. inversion E; subst.
    unfold pd_agg1. cbn. unfold np_present. fold (present vals). rewrite F. destruct qs; [cbn in L; lia|]. eexists; split; [reflexivity | apply sv_eqv_refl].
  - change (spec_agg mf "max" vals) with (agg_present 1 (fun qs => option_map SNum (qfold1 qmax2 qs)) vals) in H. present_case H.
    unfold pd_agg1. cbn. unfold np_present. fold (present vals). rewrite F. destruct (qfold1 qmax2 qs); [|discriminate E]. inversion E; subst. eexists; split; [reflexivity | apply sv_eqv_refl].
  - change (spec_agg mf "min" vals) with (agg_present 1 (fun qs => option_map SNum (qfold1 qmin2 qs)) vals) in H. present_case H.
    unfold pd_agg1. cbn. unfold np_present. fold (present vals). rewrite F. destruct (qfold1 qmin2 qs); [|discriminate E]. inversion E; subst. eexists; split; [reflexivity | apply sv_eqv_refl].
  - change (spec_agg mf "median" vals) with (agg_present 1 (fun qs => Some (SNum (qmedian qs))) vals) in H. present_case H. inversion E; subst.
    unfold pd_agg1. cbn. unfold np_present. fold (present vals). rewrite F. destruct qs; [cbn in L; lia|]. eexists; split; [reflexivity | apply sv_eqv_refl].
  - change (spec_agg mf "var" vals) with (agg_present 2 (fun qs => Some (SNum (qvar qs))) vals) in H. present_case H. inversion E; subst. apply Nat.leb_le in L.
    unfold pd_agg1. cbn -[Nat.leb]. unfold np_present. fold (present vals). rewrite F, L. eexists; split; [reflexivity | apply sv_eqv_refl].
  - change (spec_agg mf "std" vals) with (agg_present 2 (fun qs => option_map SNum (mf "sqrt" (qvar qs))) vals) in H. present_case H. apply Nat.leb_le in L.
    unfold pd_agg1. cbn -[Nat.leb]. unfold np_present. fold (present vals). rewrite F, L. destruct (mf "sqrt" (qvar qs)); [|discriminate E]. inversion E; subst. eexists; split; [reflexivity | apply sv_eqv_refl].
  - inversion H; subst. eexists; split; [reflexivity | apply sv_eqv_refl].
  - inversion H; subst. eexists; split; [reflexivity | apply sv_eqv_refl].
  - inversion H; subst. eexists; split; [reflexivity | apply sv_eqv_refl].
  - change (spec_agg mf "any" vals) with (match all_bool vals with Some (b :: bs) => Some (SBool (existsb (fun x => x) (b :: bs))) | _ => None end) in H.
    unfold pd_agg1. cbn. destruct (all_bool vals) as [[|b bs]|]; try discriminate H. inversion H; subst. eexists; split; [reflexivity | apply sv_eqv_refl].
  - change (spec_agg mf "all" vals) with (match all_bool vals with Some (b :: bs) => Some (SBool (forallb (fun x => x) (b :: bs))) | _ => None end) in H.
    unfold pd_agg1. cbn. destruct (all_bool vals) as [[|b bs]|]; try discriminate H. inversion H; subst. eexists; split; [reflexivity | apply sv_eqv_refl].
  - change (spec_agg mf "nunique" vals) with (match all_fin vals with Some qs => Some (nat_sv (List.length (qdistinct qs))) | None => None end) in H.
    destruct (all_fin vals) as [qs|] eqn:F; [|discriminate H]. inversion H; subst.
    unfold pd_agg1. cbn. destruct (all_fin_no_missing _ _ F) as [P _]. unfold np_present. fold (present vals). rewrite P, F. eexists; split; [reflexivity | apply sv_eqv_refl].
  - change (spec_agg mf "any_value" vals) with (agg_present 1 (fun qs => match qdistinct qs with [x] => Some (SNum x) | _ => None end) vals) in H. present_case H.
    destruct (qdistinct qs) as [|x [|x2 rest]] eqn:D; try discriminate E. inversion E; subst.
    unfold pd_agg1. cbn. unfold np_present. fold (present vals). rewrite F. destruct qs as [|y t]; [cbn in L; lia|].
    eexists; split; [reflexivity|]. apply sv_eqv_num. pose proof (qdistinct_single _ _ D) as A. inversion A; subst. assumption. Qed.

Lemma sql_present_of_present vals qs : all_fin (present vals) = Some qs -> no_nan vals = true -> all_fin (sql_present vals) = Some qs.
Proof. revert qs. induction vals as [|v t IH]; intros qs H N; [exact H|]. cbn in N. apply andb_true_iff in N. destruct N as [Nv N].
  destruct v; try discriminate Nv; try discriminate H; unfold present, sql_present in *; cbn in *.
  - apply IH; assumption.
  - destruct (all_fin (filter (fun v => negb (missing v)) t)) eqn:E; [|discriminate H]. cbn in H. inversion H; subst. rewrite (IH _ eq_refl N). reflexivity. Qed.
(* Polars aggregates skip nulls; a distinguishable NaN inside a group is not modelled (guard no_nan) *)
Lemma pl_simple m : In m ["sum"; "mean"; "max"; "min"; "median"; "var"; "std"; "count"; "size"; "_size"; "any"; "all"; "nunique"; "any_value"] ->
  forall vals r, vals <> [] -> no_nan vals = true -> spec_agg mf m vals = Some r -> forall v, pl_agg1 mf m vals = Some v -> sv_eqv v r.
Proof. intros I vals r NE NN H v P. cbn in I.
  repeat (destruct I as [<-|I]; [ | ]); try contradiction.
  - change (spec_agg mf "sum" vals) with (agg_present 1 (fun qs => Some (SNum (qsum qs))) vals) in H. present_case H. inversion E; subst.
    unfold pl_agg1 in P. cbn in P. rewrite (sql_present_of_present _ _ F NN) in P. inversion P; subst. apply sv_eqv_refl.
  - change (spec_agg mf "mean" vals) with (agg_present 1 (fun qs => Some (SNum (qmean qs))) vals) in H. present_case H. inversion E; subst.
    unfold pl_agg1 in P. cbn in P. rewrite (sql_present_of_present _ _ F NN) in P. destruct qs; [cbn in L; lia|]. inversion P; subst. apply sv_eqv_refl.
  - change (spec_agg mf "max" vals) with (agg_present 1 (fun qs => option_map SNum (qfold1 qmax2 qs)) vals) in H. present_case H.
    unfold pl_agg1 in P. cbn in P. rewrite (sql_present_of_present _ _ F NN) in P. destruct (qfold1 qmax2 qs); [|discriminate E]. inversion E; inversion P; subst. apply sv_eqv_refl.
  - change (spec_agg mf "min" vals) with (agg_present 1 (fun qs => option_map SNum (qfold1 qmin2 qs)) vals) in H. present_case H.
    unfold pl_agg1 in P. cbn in P. rewrite (sql_present_of_present _ _ F NN) in P. destruct (qfold1 qmin2 qs); [|discriminate E]. inversion E; inversion P; subst. apply sv_eqv_refl.
  - change (spec_agg mf "median" vals) with (agg_present 1 (fun qs => Some (SNum (qmedian qs))) vals) in H. present_case H. inversion E; subst.
    unfold pl_agg1 in P. cbn in P. rewrite (sql_present_of_present _ _ F NN) in P. destruct qs; [cbn in L; lia|]. inversion P; subst. apply sv_eqv_refl.
  - change (spec_agg mf "var" vals) with (agg_present 2 (fun qs => Some (SNum (qvar qs))) vals) in H. present_case H. inversion E; subst. apply Nat.leb_le in L.
    unfold pl_agg1 in P. cbn -[Nat.leb] in P. rewrite (sql_present_of_present _ _ F NN), L in P. inversion P; subst. apply sv_eqv_refl.
  - change (spec_agg mf "std" vals) with (agg_present 2 (fun qs => option_map SNum (mf "sqrt" (qvar qs))) vals) in H. present_case H. apply Nat.leb_le in L.
    unfold pl_agg1 in P. cbn -[Nat.leb] in P. rewrite (sql_present_of_present _ _ F NN), L in P. destruct (mf "sqrt" (qvar qs)); [|discriminate E]. inversion E; inversion P; subst. apply sv_eqv_refl.
  - inversion H; inversion P; subst. apply sv_eqv_refl.
  - inversion H; inversion P; subst. apply sv_eqv_refl.
  - inversion H; inversion P; subst. apply sv_eqv_refl.
  - change (spec_agg mf "any" vals) with (match all_bool vals with Some (b :: bs) => Some (SBool (existsb (fun x => x) (b :: bs))) | _ => None end) in H.
    unfold pl_agg1 in P. cbn in P. destruct (all_bool vals) as [[|b bs]|]; try discriminate H. inversion H; inversion P; subst. apply sv_eqv_refl.
  - change (spec_agg mf "all" vals) with (match all_bool vals with Some (b :: bs) => Some (SBool (forallb (fun x => x) (b :: bs))) | _ => None end) in H.
    unfold pl_agg1 in P. cbn in P. destruct (all_bool vals) as [[|b bs]|]; try discriminate H. inversion H; inversion P; subst. apply sv_eqv_refl.
  - change (spec_agg mf "nunique" vals) with (match all_fin vals with Some qs => Some (nat_sv (List.length (qdistinct qs))) | None => None end) in H.
    destruct (all_fin vals) as [qs|] eqn:F; [|discriminate H]. inversion H; subst.
    unfold pl_agg1 in P. cbn in P. destruct (all_fin_no_missing _ _ F) as [_ SP]. rewrite SP, F in P.
    inversion P; subst. apply sv_eqv_refl.
  - change (spec_agg mf "any_value" vals) with (agg_present 1 (fun qs => match qdistinct qs with [x] => Some (SNum x) | _ => None end) vals) in H. present_case H.
    destruct (qdistinct qs) as [|x [|x2 rest]] eqn:D; try discriminate E. inversion E; subst.
    unfold pl_agg1 in P. cbn in P. rewrite (sql_present_of_present _ _ F NN) in P. destruct (qfold1 qmin2 qs) as [w|] eqn:M.
    + inversion P; subst. apply sv_eqv_num. eapply qfold1_all_eq; [apply qmin2_pick | apply qdistinct_single; exact D | exact M].
    + exfalso. destruct qs as [|q0 qt]; [cbn in L; lia|]. rewrite (qfold1_some qmin2 (q0 :: qt)) in M; discriminate. Qed.

(* ---------------------------------------------------------------- window functions on the frame executors *)
Lemma pd_window_ok m : m <> "cumcount" ->
  forall vals r, spec_win m vals = Some r -> exists r', pd_window m vals = Some r' /\ svl_eqv r' r.
Proof. intros NC vals r H. unfold spec_win in H.
  destruct (lookup m spec_win_table) as [f|] eqn:LK; [|discriminate H]. cbn in LK.
  repeat match type of LK with (if ?c then _ else _) = _ => destruct c eqn:? end; try discriminate LK;
    repeat match goal with E : String.eqb _ _ = true |- _ => apply String.eqb_eq in E; subst m end; inversion LK; subst f; clear LK.
  - (* cumsum *) exists r. split; [exact H | apply svl_eqv_refl].
  - exists r. split; [exact H | apply svl_eqv_refl].
  - exists r. split; [exact H | apply svl_eqv_refl].
  - exists r. split; [exact H | apply svl_eqv_refl].
  - congruence.
  - (* _row_number *) inversion H; subst. exists (positions 1 vals). split; [reflexivity|]. rewrite positions_iota. apply svl_eqv_refl.
  - (* shift *) destruct vals; inversion H; subst; eexists; (split; [reflexivity | apply svl_eqv_refl]).
  - (* first *) destruct (all_fin vals) as [[|x t]|] eqn:F; try discriminate H. inversion H; subst.
    eexists; split; [reflexivity|]. destruct (all_fin_no_missing _ _ F) as [P _]. unfold np_present. fold (present vals). rewrite P.
    rewrite (all_fin_map _ _ F). cbn [map]. apply svl_eqv_refl.
  - (* last *) destruct (all_fin vals) as [[|x t]|] eqn:F; try discriminate H. inversion H; subst.
    eexists; split; [reflexivity|]. destruct (all_fin_no_missing _ _ F) as [P _]. unfold np_present. fold (present vals). rewrite P.
    rewrite (all_fin_map _ _ F). rewrite pd_last_head. apply svl_eqv_refl.
  - exists r. split; [exact H | apply svl_eqv_refl].
  - exists r. split; [exact H | apply svl_eqv_refl].
  - exists r. split; [exact H | apply svl_eqv_refl]. Qed.
Lemma pl_window_ok m vals r r' : spec_win m vals = Some r -> pl_window m vals = Some r' -> svl_eqv r' r.
Proof. intros H P. unfold pl_window in P.
  repeat match type of P with (if ?c then _ else _) = _ => destruct c eqn:? end; try discriminate P;
    repeat match goal with E : String.eqb _ _ = true |- _ => apply String.eqb_eq in E; subst m end.
  - destruct vals; inversion H; inversion P; subst; apply svl_eqv_refl.
  - change (spec_win "first" vals) with (match all_fin vals with Some (x :: t) => Some (map (fun _ => SNum x) vals) | _ => None end) in H.
    destruct (all_fin vals) as [[|x t]|] eqn:F; try discriminate H. inversion H; inversion P; subst.
    destruct (all_fin_no_missing _ _ F) as [_ SP]. rewrite SP.
    rewrite (all_fin_map _ _ F). cbn [map]. apply svl_eqv_refl.
  - change (spec_win "last" vals) with (match all_fin vals with Some (x :: t) => Some (map (fun _ => SNum (last (x :: t) x)) vals) | _ => None end) in H.
    destruct (all_fin vals) as [[|x t]|] eqn:F; try discriminate H. inversion H; inversion P; subst.
    destruct (all_fin_no_missing _ _ F) as [_ SP]. rewrite SP.
    rewrite (all_fin_map _ _ F). rewrite (last_map_snum t x SNull). apply svl_eqv_refl.
  - change (spec_win "rank" vals) with (match all_fin vals with Some qs => if qnodup qs then Some (map (fun x => SNum (qrank qs x)) qs) else None | None => None end) in H.
    rewrite H in P. inversion P; subst. apply svl_eqv_refl.
  - inversion H; inversion P; subst. apply svl_eqv_refl.
  - inversion H; inversion P; subst. apply svl_eqv_refl. Qed.
End AggFrames.

(* ================================================================== assembly over the catalogue *)
Section AggTop.
Variable mf : string -> Q -> option Q.
Variable mf2 : string -> Q -> Q -> option Q.

Ltac agg1_pick :=
  first [ apply sql_sum_ok | apply sql_mean_ok | apply sql_max_ok | apply sql_min_ok | apply sql_median_ok | apply sql_var_ok | apply sql_std_ok
        | apply sql_nunique_ok | apply sql_count_ok | (apply sql_size_ok; cbn; tauto) | apply sql_any_ok | apply sql_all_ok | apply sql_any_value_ok ].
Ltac sql_agg_pick :=
  first [ apply lift_project; agg1_pick | apply lift_group; agg1_pick
        | apply sql_row_number_ok | apply sql_shift_ok | apply sql_cumsum_ok | apply sql_cummax_ok | apply sql_cummin_ok ].

Theorem sql_agg_supported_documented vr d c m :
  In (c, m) (supported_agg_sql d) ->
  forall vals r, vals <> [] -> spec_cls mf c m vals = Some r ->
    exists r', agg_sql mf mf2 vr d c m vals = Some r' /\ svl_eqv r' r.
Proof. intros I. destruct d; vm_compute in I;
  repeat (destruct I as [I|I]; [inversion I; subst; clear I; sql_agg_pick | ]); destruct I. Qed.

Lemma pd_lift c m : c <> CWindow -> pd1_ok mf m ->
  forall vals r, vals <> [] -> spec_cls mf c m vals = Some r -> exists r', agg_pd mf c m vals = Some r' /\ svl_eqv r' r.
Proof. intros NW A vals r NE H. unfold spec_cls in H.
  destruct c; [ | | congruence];
  (destruct (spec_agg mf m vals) as [r0|] eqn:S; [|discriminate H]; inversion H; subst;
   destruct (A vals r0 NE S) as [v [E Q]]; unfold agg_pd; rewrite E; eexists; (split; [reflexivity|])).
  - constructor; [exact Q | constructor].
  - apply svl_eqv_const. exact Q. Qed.
Theorem pandas_agg_supported_documented c m :
  In (c, m) supported_agg_pandas -> pd_agg_guard c m = true ->
  forall vals r, vals <> [] -> spec_cls mf c m vals = Some r ->
    exists r', agg_pd mf c m vals = Some r' /\ svl_eqv r' r.
Proof. intros I G. vm_compute in I;
  repeat (destruct I as [I|I]; [inversion I; subst; clear I;
    first [ apply pd_lift; [discriminate | apply pd_simple; cbn; tauto]
          | discriminate G
          | (intros vals r NE H; apply pd_window_ok; [discriminate | exact H]) ] | ]); destruct I. Qed.

Theorem polars_agg_catalogued_documented c m :
  In (c, m) supported_agg_polars ->
  forall vals r, vals <> [] -> no_nan vals = true -> spec_cls mf c m vals = Some r ->
    forall r', agg_pl mf c m vals = Some r' -> svl_eqv r' r.
Proof. intros I vals r NE NN H r' P. destruct c.
  - unfold spec_cls in H. destruct (spec_agg mf m vals) as [r0|] eqn:S; [|discriminate H]. inversion H; subst.
    unfold agg_pl in P. destruct (pl_agg1 mf m vals) as [v|] eqn:E; [|discriminate P]. inversion P; subst.
    constructor; [|constructor]. vm_compute in I.
    repeat (destruct I as [I|I]; [inversion I; subst; clear I; try (eapply pl_simple; [ | exact NE | exact NN | exact S | exact E]; cbn; tauto) | ]); destruct I.
  - unfold spec_cls in H. destruct (spec_agg mf m vals) as [r0|] eqn:S; [|discriminate H]. inversion H; subst.
    unfold agg_pl in P. destruct (pl_agg1 mf m vals) as [v|] eqn:E; [|discriminate P]. inversion P; subst.
    apply svl_eqv_const. vm_compute in I.
    repeat (destruct I as [I|I]; [inversion I; subst; clear I; try (eapply pl_simple; [ | exact NE | exact NN | exact S | exact E]; cbn; tauto) | ]); destruct I.
  - eapply pl_window_ok; [exact H | exact P]. Qed.

(* the Pandas executor's cumcount is the 0-based position of the row, not the number of present cells so far *)
Lemma pandas_cumcount_refuted :
  exists vals r r', spec_cls mf CWindow "cumcount" vals = Some r /\ agg_pd mf CWindow "cumcount" vals = Some r' /\ svl_eqvb r' r = false.
Proof. exists [SNum 5], [SNum 1], [SNum 0]. repeat split; reflexivity. Qed.
End AggTop.

(* ================================================================== the current code: no guard is left for the repaired templates *)
From DA Require Import Model.ScalarCurrent Proofs.ScalarP4.
Lemma sql_guard_current d m args : pg_is_nan_guard d m args = true -> sql_guard current d m args = true.
Proof. unfold pg_is_nan_guard, sql_guard, current. cbn [fix_maxmin fix_trimstr fix_abs_sign orb].
  destruct (str_in m ["maximum"; "minimum"; "fmax"; "fmin"]); [reflexivity|]. destruct (String.eqb m "trimstr"); [reflexivity|].
  destruct (str_in m ["abs"; "sign"]); [destruct d; reflexivity|]. intros H; exact H. Qed.
Theorem sql_supported_documented_current mf mf2 d m lits :
  In (m, lits) (supported_sql d) ->
  forall args r, pg_is_nan_guard d m args = true -> spec_method mf mf2 m args = Some r ->
    exists r', sql_eval mf mf2 current d m lits args = Some r' /\ sv_eqv r' r.
Proof. intros I args r G H. eapply sql_supported_documented; [exact I | apply sql_guard_current; exact G | exact H]. Qed.
Lemma pg_is_nan_of_nan_refuted_current mf mf2 :
  exists args r r', spec_method mf mf2 "is_nan" args = Some r /\ sql_eval mf mf2 current DPg "is_nan" [false] args = Some r' /\ differs r' r.
Proof. exact (pg_is_nan_of_nan_refuted mf mf2 current). Qed.
Theorem sql_supported_documented_current_any_literals mf mf2 d m lits0 :
  In (m, lits0) (supported_sql d) -> str_in m literal_arg_methods = false ->
  forall lits args r, pg_is_nan_guard d m args = true -> spec_method mf mf2 m args = Some r ->
    exists r', sql_eval mf mf2 current d m lits args = Some r' /\ sv_eqv r' r.
Proof. intros I NL lits args r G H. eapply sql_supported_documented_any_literals; [exact I | exact NL | apply sql_guard_current; exact G | exact H]. Qed.
