(* SQLGEN, part 9: the names of the generated views (all node kinds, all dialects): every step takes its number from the
   counter, which only grows, so the names of one generated tree are pairwise distinct. *)
From Coq Require Import List Bool Arith String Lia.
Import ListNotations.
From DA Require Import Base.PyRT Base.Val Model.Sem Model.ColumnsUsed Model.SqlGen.
Local Open Scope string_scope.
Local Open Scope list_scope.

Definition names_ok (n n' : nat) (q : tnear) : Prop :=
  n <= n' /\ (forall v, In v (view_names q) -> n <= vn_id v < n') /\ NoDup (view_names q).

Lemma names_restrict q K q' : restrict_terms q K = Some q' -> view_names q' = view_names q.
Proof.
  destruct q as [nm ts|nm l s ci sfx mg dp|nm l s1 c1 j s2 c2 on]; simpl; destruct (subset K _); try discriminate; intros [= <-]; reflexivity.
Qed.
Lemma names_empty q : view_names (empty_terms q) = view_names q.
Proof. destruct q; reflexivity. Qed.
Lemma names_narrow q K q' : narrow_or_first q K = Some q' -> view_names q' = view_names q.
Proof. unfold narrow_or_first. destruct K; [destruct (tkeys q)|]; apply names_restrict. Qed.
Lemma names_merge sub tms deps m : try_sql_merge sub tms deps = Some (Ok m) -> view_names m = view_names sub.
Proof.
  destruct sub as [nm ts|nm l s ci sfx mg dp|nm l s1 c1 j s2 c2 on]; simpl; try discriminate.
  destruct sfx; try discriminate. destruct mg; try discriminate. destruct dp as [ds|]; try discriminate. destruct l as [ts|]; try discriminate.
  destruct (contention _ _ _ _); try discriminate. intros [= <-]. reflexivity.
Qed.

Lemma names_ok_eq n n' q q' : view_names q' = view_names q -> names_ok n n' q -> names_ok n n' q'.
Proof. intros E [A [B C]]. unfold names_ok. rewrite E. tauto. Qed.

Lemma names_fresh n n1 sub k tms ci sfx mg dp :
  tc_pub ci = None \/ True -> names_ok n n1 sub -> names_ok n (S n1) (TUnary (mkvn k n1) tms sub ci sfx mg dp).
Proof.
  intros _ [A [B C]]. split; [lia|]. split.
  - intros v [<-|I]; [simpl; lia|]. specialize (B v I). lia.
  - simpl. constructor; [|exact C]. intros I. specialize (B _ I). simpl in B. lia.
Qed.

Lemma NoDup_app_vn (l1 l2 : list vname) : NoDup l1 -> NoDup l2 -> (forall x, In x l1 -> ~ In x l2) -> NoDup (l1 ++ l2).
Proof.
  induction l1 as [|a t IH]; intros N1 N2 D; simpl; [exact N2|]. inversion N1 as [|? ? Na Nt]; subst. constructor.
  - intros I. apply in_app_iff in I. destruct I as [I|I]; [exact (Na I)|]. exact (D a (or_introl eq_refl) I).
  - apply IH; [exact Nt|exact N2|]. intros x Hx. apply D. right. exact Hx.
Qed.

Lemma names_two n n1 n2 ql qr : names_ok n n1 ql -> names_ok n1 n2 qr ->
  n <= n2 /\ (forall v, In v (view_names ql ++ view_names qr) -> n <= vn_id v < n2) /\ NoDup (view_names ql ++ view_names qr).
Proof.
  intros [A1 [B1 C1]] [A2 [B2 C2]]. split; [lia|]. split.
  - intros v I. apply in_app_iff in I. destruct I as [I|I]; [specialize (B1 v I)|specialize (B2 v I)]; lia.
  - apply NoDup_app_vn; try assumption. intros x I1 I2. specialize (B1 x I1). specialize (B2 x I2). lia.
Qed.

Lemma names_concat n n1 n2 ql qr k tms c1 c2 j on :
  tc_pub c1 = None -> tc_pub c2 = None -> names_ok n n1 ql -> names_ok n1 n2 qr ->
  names_ok n (S n2) (TBinary (mkvn k n2) tms ql c1 j qr c2 on).
Proof.
  intros P1 P2 H1 H2. destruct (names_two n n1 n2 ql qr H1 H2) as [A [B C]]. split; [lia|]. simpl. rewrite P1, P2. simpl. split.
  - intros v [<-|I]; [simpl; lia|]. specialize (B v I). lia.
  - constructor; [|exact C]. intros I. specialize (B _ I). simpl in B. lia.
Qed.

Lemma names_join n n2 n3 ql qr tms cl cr j on :
  names_ok (S n) n2 ql -> names_ok n2 n3 qr ->
  names_ok n n3 (TBinary (mkvn "natural_join" n) tms ql (mk_tci cl false (Some (mkvn "join_source_left" n))) j
                         qr (mk_tci cr false (Some (mkvn "join_source_right" n))) on).
Proof.
  intros H1 H2. destruct (names_two (S n) n2 n3 ql qr H1 H2) as [A [B C]]. split; [lia|]. simpl. split.
  - intros v [<-|[<-|[<-|I]]]; try (simpl; lia). specialize (B v I). lia.
  - assert (forall k, ~ In (mkvn k n) (view_names ql ++ view_names qr)) as NI by (intros k I; specialize (B _ I); simpl in B; lia).
    constructor; [intros [X|[X|I]]; try discriminate; exact (NI _ I)|].
    constructor; [intros [X|I]; try discriminate; exact (NI _ I)|].
    constructor; [apply NI|exact C].
Qed.

Definition src_ok (src : option (list string) -> gen) : Prop :=
  forall u m q m', src u m = Ok (q, m') -> names_ok m m' q.

Lemma gen_extend_names d src p s ops wd w usg n q n' :
  src_ok src -> gen_extend d src p s ops wd w usg n = Ok (q, n') -> names_ok n n' q.
Proof.
  intros HS H. unfold gen_extend in H. destruct (sub_ops _ ops) as [|so0 sor]; [exact (HS _ _ _ _ H)|].
  destruct (is_nil _); [discriminate|]. destruct (negb (subset _ _)); [discriminate|]. unfold bind in H.
  destruct (src _ n) as [[sub n1]| |] eqn:ES; try discriminate. pose proof (HS _ _ _ _ ES) as Hsub.
  destruct (d_allow_extend_merges d).
  - destruct (try_sql_merge sub _ _) as [[m| |]|] eqn:EM; try discriminate.
    + injection H as <- <-. eapply names_ok_eq; [exact (names_merge _ _ _ _ EM)|exact Hsub].
    + injection H as <- <-. apply names_fresh; [right; exact I|exact Hsub].
  - injection H as <- <-. apply names_fresh; [right; exact I|exact Hsub].
Qed.

Lemma gen_join_names d srca srcb p a b on_a on_b jt lf usg n q n' :
  src_ok srca -> src_ok srcb -> gen_join d srca srcb p a b on_a on_b jt lf usg n = Ok (q, n') -> names_ok n n' q.
Proof.
  intros HA HB H. unfold gen_join in H. destruct (negb (subset _ _)); [discriminate|]. unfold bind in H.
  destruct (srca _ (S n)) as [[ql n2]| |] eqn:EA; try discriminate. destruct (srcb _ n2) as [[qr n3]| |] eqn:EB; try discriminate.
  injection H as <- <-. apply (names_join n n2 n3 ql qr); [exact (HA _ _ _ _ EA)|exact (HB _ _ _ _ EB)].
Qed.

Theorem view_names_ok : forall fuel d p usg n q n', to_near_f fuel d p usg n = Ok (q, n') -> names_ok n n' q.
Proof.
  induction fuel as [|fuel IH]; intros d p usg n q n' H; [discriminate|].
  assert (forall x, src_ok (to_near_f fuel d x)) as HS by (intros x u m q0 m' E; exact (IH _ _ _ _ _ _ E)).
  destruct p as [name cs|s ops wd w|s ops gb|s x|s cs|s ds|s m|s m dels|s cs rev lim|a b on_a on_b jt|a b idc an bn]; cbn [to_near_f] in H.
  - destruct (negb (subset _ cs)); [discriminate|]. destruct (_ && _); injection H as <- <-.
    + split; [lia|]. split; [intros v [<-|[]]; simpl; lia|]. simpl. constructor; [intros []|constructor].
    + split; [lia|]. split; [intros v []|constructor].
  - eapply gen_extend_names; [apply HS|exact H].
  - unfold bind in H. destruct (to_near_f fuel d s _ n) as [[sub n1]| |] eqn:ES; try discriminate. injection H as <- <-.
    apply names_fresh; [right; exact I|exact (IH _ _ _ _ _ _ ES)].
  - unfold bind in H. destruct (to_near_f fuel d s _ n) as [[sub n1]| |] eqn:ES; try discriminate. injection H as <- <-.
    apply names_fresh; [right; exact I|exact (IH _ _ _ _ _ _ ES)].
  - unfold bind in H. destruct (to_near_f fuel d s _ n) as [[sub n1]| |] eqn:ES; try discriminate. pose proof (IH _ _ _ _ _ _ ES) as Hs.
    destruct (terms_is_none sub).
    + injection H as <- <-. eapply names_ok_eq; [apply names_empty|exact Hs].
    + destruct (narrow_or_first sub _) as [q0|] eqn:EN; [|discriminate]. injection H as <- <-. eapply names_ok_eq; [exact (names_narrow _ _ _ EN)|exact Hs].
  - unfold bind in H. destruct (to_near_f fuel d s _ n) as [[sub n1]| |] eqn:ES; try discriminate. pose proof (IH _ _ _ _ _ _ ES) as Hs.
    destruct (terms_is_none sub).
    + destruct (filter _ _); [|discriminate]. injection H as <- <-. eapply names_ok_eq; [apply names_empty|exact Hs].
    + destruct (narrow_or_first sub _) as [q0|] eqn:EN; [|discriminate]. injection H as <- <-. eapply names_ok_eq; [exact (names_narrow _ _ _ EN)|exact Hs].
  - unfold bind in H. destruct (to_near_f fuel d s _ n) as [[sub n1]| |] eqn:ES; try discriminate. injection H as <- <-.
    apply names_fresh; [right; exact I|exact (IH _ _ _ _ _ _ ES)].
  - unfold bind in H. destruct (to_near_f fuel d s _ n) as [[sub n1]| |] eqn:ES; try discriminate. injection H as <- <-.
    apply names_fresh; [right; exact I|exact (IH _ _ _ _ _ _ ES)].
  - unfold bind in H. destruct (to_near_f fuel d s _ n) as [[sub n1]| |] eqn:ES; try discriminate. injection H as <- <-.
    apply names_fresh; [right; exact I|exact (IH _ _ _ _ _ _ ES)].
  - destruct jt.
    + eapply gen_join_names; [apply HS|apply HS|exact H].
    + eapply gen_join_names; [apply HS|apply HS|exact H].
    + destruct (d_rewrite_right d); (eapply gen_join_names; [apply HS|apply HS|exact H]).
    + destruct (d_rewrite_full d).
      * destruct (is_nil on_a); [discriminate|]. destruct (negb (eqb on_a on_b)); [discriminate|]. exact (IH _ _ _ _ _ _ H).
      * eapply gen_join_names; [apply HS|apply HS|exact H].
  - destruct (negb (subset _ _)); [discriminate|]. destruct (negb (set_eqb _ _)); [discriminate|]. unfold bind in H.
    destruct (to_near_f fuel d _ _ n) as [[ql n1]| |] eqn:EL; try discriminate.
    destruct (to_near_f fuel d _ _ n1) as [[qr n2]| |] eqn:ER; try discriminate. injection H as <- <-.
    apply (names_concat n n1 n2 ql qr); [reflexivity|reflexivity|exact (IH _ _ _ _ _ _ EL)|exact (IH _ _ _ _ _ _ ER)].
Qed.

Lemma view_names_distinct d p usg ids q ids' : to_near d p usg ids = Ok (q, ids') ->
  NoDup (view_names q) /\ (forall v, In v (view_names q) -> ids <= vn_id v < ids') /\ ids <= ids'.
Proof. intros H. destruct (view_names_ok _ _ _ _ _ _ _ H) as [A [B C]]. tauto. Qed.
