(* C19, part 1: ownership.  A small Hoare logic over the store monad of Model/Store.v and the theorem that an evaluation
   only writes into frame objects it allocated itself. *)
From Coq Require Import List Bool Arith String Lia.
Import ListNotations.
From DA Require Import Model.Store.
Local Open Scope list_scope.

(* ------------------------------------------------------------------ lookup / update / fresh *)
Lemma lookup_in_dom fs l f : lookup fs l = Some f -> In l (map fst fs).
Proof. induction fs as [|[l' f'] t IH]; simpl; [discriminate|]. destruct (Nat.eqb l l') eqn:E.
  - apply Nat.eqb_eq in E. subst. auto.
  - intros H. right. auto. Qed.
Lemma in_dom_lookup fs l : In l (map fst fs) -> exists f, lookup fs l = Some f.
Proof. induction fs as [|[l' f'] t IH]; simpl; [tauto|]. intros [->|H].
  - rewrite Nat.eqb_refl. eauto.
  - destruct (Nat.eqb l l'); eauto. Qed.
Lemma get_in_dom s l f : get s l = Some f -> In l (dom s).
Proof. apply lookup_in_dom. Qed.
Lemma update_dom fs l f : map fst (update fs l f) = map fst fs.
Proof. induction fs as [|[l' f'] t IH]; simpl; [reflexivity|]. destruct (Nat.eqb l l'); simpl; congruence. Qed.
Lemma lookup_update_other fs l f x : x <> l -> lookup (update fs l f) x = lookup fs x.
Proof. intros N. induction fs as [|[l' f'] t IH]; simpl; [reflexivity|]. destruct (Nat.eqb l l') eqn:E; simpl.
  - apply Nat.eqb_eq in E. subst l'. destruct (Nat.eqb x l) eqn:E2; [apply Nat.eqb_eq in E2; congruence|reflexivity].
  - destruct (Nat.eqb x l'); auto. Qed.
Lemma lookup_update_same fs l f f0 : lookup fs l = Some f0 -> lookup (update fs l f) l = Some f.
Proof. induction fs as [|[l' f'] t IH]; simpl; [discriminate|]. destruct (Nat.eqb l l') eqn:E; simpl.
  - rewrite E. reflexivity.
  - rewrite E. auto. Qed.
Lemma list_max_ge l x : In x l -> x <= list_max l.
Proof. induction l as [|a t IH]; simpl; [tauto|]. intros [->|H]; [lia|]. specialize (IH H). lia. Qed.
Lemma fresh_notin s : ~ In (fresh s) (dom s).
Proof. intros H. apply list_max_ge in H. unfold fresh in H. lia. Qed.

(* ------------------------------------------------------------------ the symbolic stores produced by the primitives *)
Definition push (s : store) (f : frame) : store := mkstore ((fresh s, f) :: frames s) (rng s).
Definition upd (s : store) (l : loc) (f : frame) : store := mkstore (update (frames s) l f) (rng s).
Definition tick (s : store) : store := mkstore (frames s) (S (rng s)).

Lemma get_push_same s f : get (push s f) (fresh s) = Some f.
Proof. unfold get, push; simpl. rewrite Nat.eqb_refl. reflexivity. Qed.
Lemma get_push_old s f x fx : get s x = Some fx -> get (push s f) x = Some fx.
Proof. intros H. unfold get, push; simpl. destruct (Nat.eqb x (fresh s)) eqn:E; [|exact H].
  apply Nat.eqb_eq in E. subst x. exfalso. exact (fresh_notin s (get_in_dom _ _ _ H)). Qed.
Lemma get_upd_same s l f f0 : get s l = Some f0 -> get (upd s l f) l = Some f.
Proof. apply lookup_update_same. Qed.
Lemma get_upd_other s l f x fx : x <> l -> get s x = Some fx -> get (upd s l f) x = Some fx.
Proof. intros N H. unfold get, upd; simpl. rewrite lookup_update_other; auto. Qed.
Lemma get_tick s x : get (tick s) x = get s x.
Proof. reflexivity. Qed.
Lemma neq_fresh_l s y fy : get s y = Some fy -> fresh s <> y.
Proof. intros H E. subst y. exact (fresh_notin s (get_in_dom _ _ _ H)). Qed.
Lemma neq_fresh_r s x fx : get s x = Some fx -> x <> fresh s.
Proof. intros H E. subst x. exact (fresh_notin s (get_in_dom _ _ _ H)). Qed.

(* ------------------------------------------------------------------ extension of a base store *)
Definition ext (s0 s : store) : Prop := incl (dom s0) (dom s) /\ forall l, In l (dom s0) -> get s l = get s0 l.
Definition notin (s0 : store) (l : loc) : Prop := ~ In l (dom s0).

Lemma ext_refl s : ext s s.
Proof. split; [apply incl_refl|reflexivity]. Qed.
Lemma ext_trans a b c : ext a b -> ext b c -> ext a c.
Proof. intros [I1 G1] [I2 G2]. split; [eapply incl_tran; eauto|]. intros l H. rewrite G2; auto. Qed.
Lemma ext_push s0 s f : ext s0 s -> ext s0 (push s f).
Proof. intros [I G]. split.
  - intros l H. right. apply I, H.
  - intros l H. rewrite <- (G l H). destruct (in_dom_lookup (frames s) l (I l H)) as [fx Hx].
    change (lookup (frames s) l) with (get s l) in Hx. rewrite Hx. apply get_push_old, Hx. Qed.
Lemma ext_upd s0 s l f : ext s0 s -> notin s0 l -> ext s0 (upd s l f).
Proof. intros [I G] N. split.
  - unfold dom, upd; simpl. rewrite update_dom. exact I.
  - intros x H. rewrite <- (G x H). unfold get, upd; simpl. apply lookup_update_other. intros ->. exact (N H). Qed.
Lemma ext_tick s0 s : ext s0 s -> ext s0 (tick s).
Proof. intros H. exact H. Qed.
Lemma fresh_notin_base s0 s : ext s0 s -> notin s0 (fresh s).
Proof. intros [I _] H. exact (fresh_notin s (I _ H)). Qed.

(* ------------------------------------------------------------------ writes of a trace *)
Lemma write_locs_app a b : write_locs (a ++ b) = write_locs a ++ write_locs b.
Proof. apply flat_map_app. Qed.
Lemma write_locs_wr k l ws x : In x (write_locs (map (EWrite k l) ws)) -> x = l.
Proof. unfold write_locs. induction ws as [|w t IH]; simpl; [tauto|]. intros [E|H]; auto. Qed.

(* ------------------------------------------------------------------ Hoare logic: `owned s0 m Q`
   started from any extension of the base store s0, m keeps every frame of s0 unchanged, writes only outside dom s0,
   and its result satisfies Q *)
Definition owned (s0 : store) {A} (m : M A) (Q : A -> Prop) : Prop :=
  forall s, ext s0 s -> forall a s' evs, m s = Some (a, s', evs) ->
    ext s0 s' /\ (forall l, In l (write_locs evs) -> notin s0 l) /\ Q a.

Lemma owned_ret s0 {A} (a : A) (Q : A -> Prop) : Q a -> owned s0 (ret a) Q.
Proof. intros H s E a' s' evs R. inversion R; subst. split; [exact E|]. split; [intros l []|exact H]. Qed.
Lemma owned_fail s0 {A} (Q : A -> Prop) : owned s0 (@fail A) Q.
Proof. intros s E a s' evs R. discriminate. Qed.
Lemma owned_bind s0 {A B} (m : M A) (k : A -> M B) (Q : A -> Prop) (R : B -> Prop) :
  owned s0 m Q -> (forall a, Q a -> owned s0 (k a) R) -> owned s0 (bind m k) R.
Proof. intros Hm Hk s E b s2 evs Run. unfold bind in Run.
  destruct (m s) as [[[a s1] e1]|] eqn:M1; [|discriminate].
  destruct (k a s1) as [[[b' s2'] e2]|] eqn:K1; [|discriminate]. inversion Run; subst.
  destruct (Hm s E a s1 e1 M1) as (E1 & W1 & Qa).
  destruct (Hk a Qa s1 E1 b s2 e2 K1) as (E2 & W2 & Rb).
  split; [exact E2|]. split; [|exact Rb]. intros l H. rewrite write_locs_app in H. apply in_app_or in H. destruct H; auto. Qed.
Lemma owned_bind_loc s0 {B} (m : M loc) (k : loc -> M B) (R : B -> Prop) :
  owned s0 m (notin s0) -> (forall a, notin s0 a -> owned s0 (k a) R) -> owned s0 (bind m k) R.
Proof. apply owned_bind. Qed.
Lemma owned_bind_any s0 {A B} (m : M A) (k : A -> M B) (R : B -> Prop) :
  owned s0 m (fun _ => True) -> (forall a, owned s0 (k a) R) -> owned s0 (bind m k) R.
Proof. intros Hm Hk. eapply owned_bind; [exact Hm|]. intros a _. apply Hk. Qed.
Lemma owned_weaken s0 {A} (m : M A) (Q Q' : A -> Prop) : (forall a, Q a -> Q' a) -> owned s0 m Q -> owned s0 m Q'.
Proof. intros I H s E a s' evs R. destruct (H s E a s' evs R) as (X & Y & Z). auto. Qed.
Lemma owned_new s0 k f : owned s0 (new k f) (notin s0).
Proof. intros s E a s' evs R. unfold new in R. inversion R; subst. split; [|split].
  - apply (ext_push s0 s f E).
  - simpl. tauto.
  - apply fresh_notin_base, E. Qed.
Lemma owned_rd s0 k l : owned s0 (rd k l) (fun _ => True).
Proof. intros s E a s' evs R. unfold rd in R. destruct (get s l); [|discriminate]. inversion R; subst.
  split; [exact E|]. split; [simpl; tauto|exact I]. Qed.
Lemma owned_wr s0 k l ws u : notin s0 l -> owned s0 (wr k l ws u) (fun _ => True).
Proof. intros N s E a s' evs R. unfold wr in R. destruct (get s l) as [f|]; [|discriminate]. inversion R; subst.
  split; [|split; [|exact I]].
  - apply (ext_upd s0 s l (u f) E N).
  - intros x H. apply write_locs_wr in H. subst. exact N. Qed.
Lemma owned_draw s0 : owned s0 draw (fun _ => True).
Proof. intros s E a s' evs R. unfold draw in R. inversion R; subst. split; [exact E|]. split; [simpl; tauto|exact I]. Qed.
Lemma owned_derive s0 k l g : owned s0 (derive k l g) (notin s0).
Proof. unfold derive. eapply owned_bind_any; [apply owned_rd|]. intros f. apply owned_new. Qed.
Lemma owned_derive2 s0 k l1 l2 g : owned s0 (derive2 k l1 l2 g) (notin s0).
Proof. unfold derive2. eapply owned_bind_any; [apply owned_rd|]. intros f1.
  eapply owned_bind_any; [apply owned_rd|]. intros f2. apply owned_new. Qed.

Ltac own :=
  lazymatch goal with
  | |- owned _ (ret _) _ => apply owned_ret; cbv beta; auto
  | |- owned _ fail _ => apply owned_fail
  | |- owned _ (new _ _) _ => apply owned_new
  | |- owned _ (rd _ _) _ => apply owned_rd
  | |- owned _ (wr _ _ _ _) _ => apply owned_wr; assumption
  | |- owned _ draw _ => apply owned_draw
  | |- owned _ (derive _ _ _) _ => apply owned_derive
  | |- owned _ (derive2 _ _ _ _) _ => apply owned_derive2
  | |- owned _ (bind draw _) _ => eapply owned_bind_any; [apply owned_draw | intros ?; own]
  | |- owned _ (@bind loc _ _ _) _ => eapply owned_bind_loc; [own | intros ? ?; own]
  | |- owned _ (bind _ _) _ => eapply owned_bind_any; [own | intros ?; own]
  | |- owned _ (if ?b then _ else _) _ => destruct b; own
  | |- owned _ (match ?x with _ => _ end) _ => destruct x; own
  end.

(* ------------------------------------------------------------------ the steps of the Pandas executor *)
Section Steps.
Variable s0 : store.
Notation N := (notin s0).

Lemma own_add_cols k res nf : N res -> N nf -> owned s0 (add_cols k res nf) N.
Proof. intros H1 H2. unfold add_cols. own. Qed.
Lemma own_extend tag outs win random res : N res -> owned s0 (step_extend tag outs win random res) N.
Proof. intros H. unfold step_extend.
  eapply owned_bind_any; [own|]. intros f. destruct (Nat.eqb (f_nrows f) 0); [own|]. destruct win as [w|].
  - eapply owned_bind_any; [own|]. intros _.
    eapply owned_bind_loc; [own|]. intros s0' H0. eapply owned_bind_loc; [own|]. intros s1 H1.
    eapply owned_bind_any; [own|]. intros _.
    eapply owned_bind_loc; [own|]. intros s Hs.
    eapply owned_bind_any; [own|]. intros _. eapply owned_bind_any; [own|]. intros _. eapply owned_bind_any; [own|]. intros _.
    eapply owned_bind_loc; [own|]. intros s3 H3. eapply owned_bind_loc; [own|]. intros s4 H4.
    eapply owned_bind_loc; [own|]. intros s5 H5. apply own_add_cols; assumption.
  - eapply owned_bind_any; [own|]. intros extra. eapply owned_bind_loc; [own|]. intros nf Hn. apply own_add_cols; assumption. Qed.
Lemma own_project tag gb outs consts nr res : N res -> owned s0 (step_project tag gb outs consts nr res) N.
Proof. intros H. unfold step_project. own. Qed.
Lemma own_select_rows tag nr res : N res -> owned s0 (step_select_rows tag nr res) N.
Proof. intros H. unfold step_select_rows. own. Qed.
Lemma own_order_rows by_ rev limit res : N res -> owned s0 (step_order_rows by_ rev limit res) N.
Proof. intros H. unfold step_order_rows. own. Qed.
Lemma own_map_cols m dels res : N res -> owned s0 (step_map_cols m dels res) N.
Proof. intros H. unfold step_map_cols. own. Qed.
Lemma own_coalesce sx cs : forall l, N l -> owned s0 (coalesce_loop sx cs l) N.
Proof. induction cs as [|c t IH]; intros l H; simpl; [own|].
  eapply owned_bind_any; [own|]. intros _. eapply owned_bind_loc; [own|]. intros l' H'. apply IH, H'. Qed.
Lemma own_join on_a on_b jt nk nr left right : N left -> N right -> owned s0 (step_join on_a on_b jt nk nr left right) N.
Proof. intros H1 H2. unfold step_join.
  eapply owned_bind_any; [own|]. intros fl. eapply owned_bind_any; [own|]. intros fr.
  destruct (_ && _); [own|].
  eapply owned_bind_any; [own|]. intros _. eapply owned_bind_any; [own|]. intros _. eapply owned_bind_loc; [own|]. intros m Hm.
  eapply owned_bind_any; [own|]. intros _. eapply owned_bind_any; [own|]. intros _. eapply owned_bind_any; [own|]. intros _.
  eapply owned_bind_loc; [apply own_coalesce, Hm|]. intros r Hr. own. Qed.
Lemma own_concat idcol left right : N left -> N right -> owned s0 (step_concat idcol left right) N.
Proof. intros H1 H2. unfold step_concat. own. Qed.
Lemma own_convert hi ho mc oc nm nr res : N res -> owned s0 (step_convert hi ho mc oc nm nr res) N.
Proof. intros H. unfold step_convert, b2r, r2b. own. Qed.
Lemma own_table env name cols : owned s0 (step_table env name cols) N.
Proof. unfold step_table. own. Qed.

Lemma own_pexec env p : owned s0 (pexec env p) N.
Proof. induction p; simpl.
  - apply own_table.
  - eapply owned_bind_loc; [exact IHp|]. intros l H. apply own_extend, H.
  - eapply owned_bind_loc; [exact IHp|]. intros l H. apply own_project, H.
  - eapply owned_bind_loc; [exact IHp|]. intros l H. apply own_select_rows, H.
  - eapply owned_bind_loc; [exact IHp|]. intros l H. unfold step_select_cols. own.
  - eapply owned_bind_loc; [exact IHp|]. intros l H. unfold step_drop_cols. own.
  - eapply owned_bind_loc; [exact IHp|]. intros l H. apply own_order_rows, H.
  - eapply owned_bind_loc; [exact IHp|]. intros l H. apply own_map_cols, H.
  - eapply owned_bind_loc; [exact IHp|]. intros l H. unfold step_rename. own.
  - eapply owned_bind_loc; [exact IHp1|]. intros l1 H1. eapply owned_bind_loc; [exact IHp2|]. intros l2 H2. apply own_join; assumption.
  - eapply owned_bind_loc; [exact IHp1|]. intros l1 H1. eapply owned_bind_loc; [exact IHp2|]. intros l2 H2. apply own_concat; assumption.
  - eapply owned_bind_loc; [exact IHp|]. intros l H. apply own_convert, H. Qed.

(* Polars executor *)
Lemma own_plexec env p : owned s0 (plexec env p) N.
Proof. induction p; simpl;
  try (eapply owned_bind_loc; [exact IHp|]; intros l H; unfold pl_convert; own);
  try (eapply owned_bind_loc; [exact IHp1|]; intros l1 H1; eapply owned_bind_loc; [exact IHp2|]; intros l2 H2; unfold pl_join; own).
  unfold pl_table. own. Qed.
End Steps.

(* ------------------------------------------------------------------ consequences for one evaluation *)
Lemma owned_run (m : M loc) s a s' evs :
  owned s m (notin s) -> m s = Some (a, s', evs) ->
  (forall l, In l (write_locs evs) -> ~ In l (dom s)) /\ (forall l, In l (dom s) -> get s' l = get s l) /\
  incl (dom s) (dom s') /\ ~ In a (dom s).
Proof. intros H R. destruct (H s (ext_refl s) a s' evs R) as ((I & G) & W & Q). split; [exact W|]. split; [exact G|]. split; [exact I|exact Q]. Qed.

Lemma pexec_inputs_never_written s p env s' l evs : pexec_st s p env = Some (s', l, evs) ->
  (forall x, In x (write_locs evs) -> ~ In x (dom s)) /\ (forall x, In x (dom s) -> get s' x = get s x) /\
  incl (dom s) (dom s') /\ ~ In l (dom s).
Proof. unfold pexec_st. destruct (pexec env p s) as [[[l0 s1] e1]|] eqn:R; [|discriminate]. intros E. inversion E; subst.
  exact (owned_run _ _ _ _ _ (own_pexec s env p) R). Qed.
Lemma plexec_inputs_never_written s p env s' l evs : plexec_st s p env = Some (s', l, evs) ->
  (forall x, In x (write_locs evs) -> ~ In x (dom s)) /\ (forall x, In x (dom s) -> get s' x = get s x) /\
  incl (dom s) (dom s') /\ ~ In l (dom s).
Proof. unfold plexec_st. destruct (plexec env p s) as [[[l0 s1] e1]|] eqn:R; [|discriminate]. intros E. inversion E; subst.
  exact (owned_run _ _ _ _ _ (own_plexec s env p) R). Qed.
