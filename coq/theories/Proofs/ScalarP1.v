(* C05 -- SQL templates compute the documented value (SQLite and PostgreSQL models), method by method *)
From Coq Require Import List Bool ZArith QArith Qround Qabs String Ascii Lia Lqa.
Import ListNotations.
From DA Require Import Model.Scalar Model.SqlTemplates Model.ScalarBackends Model.ScalarCatalog Model.ScalarIndex Proofs.ScalarP0.
Local Open Scope string_scope.

Section SQL.
Variable mf : string -> Q -> option Q.
Variable mf2 : string -> Q -> Q -> option Q.

Definition documented_sql (vr : variant) (d : dialect) (m : string) (lits : list bool) (guard : list sval -> bool) : Prop :=
  forall args r, guard args = true -> spec_method mf mf2 m args = Some r ->
    exists r', sql_eval mf mf2 vr d m lits args = Some r' /\ sv_eqv r' r.

Definition anyargs (_ : list sval) : bool := true.

(* ---------------------------------------------------------------- arithmetic operators *)
Lemma sql_add vr d lits : documented_sql vr d "+" lits anyargs.
Proof. intros args r _ H. change (spec_method mf mf2 "+") with spec_add in H. arity2 H args.
  destruct d, a, b; solve_val H. Qed.
Lemma sql_mul vr d lits : documented_sql vr d "*" lits anyargs.
Proof. intros args r _ H. change (spec_method mf mf2 "*") with spec_mul in H. arity2 H args.
  destruct d, a, b; solve_val H. Qed.
Lemma sql_sub vr d lits : documented_sql vr d "-" lits anyargs.
Proof. intros args r _ H. change (spec_method mf mf2 "-") with spec_sub in H.
  destruct args as [|a [|b [|c l]]]; try discriminate H.
  - destruct d, a; solve_val H.
  - destruct d, a, b; solve_val H. Qed.
Lemma sql_div vr d lits : documented_sql vr d "/" lits anyargs.
Proof. intros args r _ H. change (spec_method mf mf2 "/") with spec_div in H. arity2 H args.
  destruct d, a, b; solve_val H. Qed.
Lemma sql_fdiv vr d lits : documented_sql vr d "%/%" lits anyargs.
Proof. intros args r _ H. change (spec_method mf mf2 "%/%") with spec_div in H. arity2 H args. 
  destruct d, a, b; solve_val H. Qed.
Lemma sql_floordiv vr d lits : documented_sql vr d "//" lits anyargs.
Proof. intros args r _ H. change (spec_method mf mf2 "//") with spec_floordiv in H. arity2 H args.
  destruct d, a, b; solve_val H. Qed.

(* ---------------------------------------------------------------- comparisons, and / or *)
Lemma cmp3_enc d a b c : cmp3 a b = Some c ->
  exists c', cmp3 (enc d a) (enc d b) = Some c' /\ c' = c.
Proof. destruct d, a, b; cbn; intros H; try discriminate H; try (eexists; split; [reflexivity | congruence]).
  destruct b, b0; inversion H; subst; eexists; split; reflexivity. Qed.
Lemma sql_cmp_documented vr d lits m op test :
  (forall a b, fmt vr d m [a; b] = Some (QCmp op a b)) -> (forall c, cmp_test op c = test c) ->
  spec_method mf mf2 m = spec_cmp test -> documented_sql vr d m lits anyargs.
Proof. intros F T S args r _ H. rewrite S in H. arity2 H args.
  unfold spec_cmp in H. destruct (cmp3 a b) as [c|] eqn:C; [|discriminate H]. inversion H; subst; clear H.
  destruct (cmp3_enc d a b c C) as [c' [C' ->]].
  unfold sql_eval, sql_eval_on. cbn [atoms_from]. rewrite F. cbn [sem]. unfold sql_cmp.
  assert (enc d a <> SNull /\ enc d b <> SNull) as [Na Nb].
  { destruct d, a, b; cbn in C; try discriminate C; split; cbn; try destruct b; try destruct b0; discriminate. }
  destruct (enc d a) eqn:Ea; try (exfalso; apply Na; reflexivity);
  destruct (enc d b) eqn:Eb; try (exfalso; apply Nb; reflexivity);
  rewrite C'; cbn [option_map]; eexists; (split; [reflexivity|]); rewrite T; apply mkb_eqv. Qed.
Lemma sql_and vr d lits : documented_sql vr d "and" lits anyargs.
Proof. intros args r _ H. change (spec_method mf mf2 "and") with spec_and in H. arity2 H args.
  destruct a as [ | |x| | | | ], b as [ | |y| | | | ]; try discriminate H. destruct d, x, y; solve_val H. Qed.
Lemma sql_or vr d lits : documented_sql vr d "or" lits anyargs.
Proof. intros args r _ H. change (spec_method mf mf2 "or") with spec_or in H. arity2 H args.
  destruct a as [ | |x| | | | ], b as [ | |y| | | | ]; try discriminate H. destruct d, x, y; solve_val H. Qed.

(* ---------------------------------------------------------------- % mod remainder *)
Lemma sql_mod_sqlite vr lits m : (m = "%" \/ m = "mod" \/ m = "remainder") -> documented_sql vr DSqlite m lits anyargs.
Proof. intros M args r _ H.
  assert (spec_method mf mf2 m = spec_mod) as S by (destruct M as [->|[->| ->]]; reflexivity). rewrite S in H.
  assert (forall a b, fmt vr DSqlite m [a; b] = Some (QParen (QBin BMod a b))) as F by (intros; destruct M as [->|[->| ->]]; reflexivity).
  arity2 H args. unfold sql_eval, sql_eval_on. cbn [atoms_from]. rewrite F. clear F S M.
  destruct a as [ | | |q| | | ], b as [ | | |q0| | | ]; cbn in H; try discriminate H; try (inversion H; subst; finish).
  destruct (Qis_int q) eqn:Ip; [|discriminate H]. destruct (Qis_int q0) eqn:Iq; [|discriminate H].
  destruct (Qle_bool 0 q) eqn:Lp; [|discriminate H]. destruct (Qlt_bool 0 q0) eqn:Lq; [|discriminate H].
  cbn in H. inversion H; subst; clear H. cbn.
  assert (Qle_bool 0 q0 = true) as Lq'. { apply Qle_bool_iff. apply Qlt_bool_true in Lq. lra. }
  rewrite (qtrunc_nonneg _ Lp), (qtrunc_nonneg _ Lq').
  pose proof (Qfloor_pos_int _ Iq (Qlt_bool_true _ _ Lq)) as Pos.
  destruct (Z.eqb (Qfloor q0) 0) eqn:Z0; [apply Z.eqb_eq in Z0; lia|].
  rewrite (rem_is_mod _ _ Ip Iq Lp Lq). eexists; split; [reflexivity | apply sv_eqv_refl]. Qed.
Lemma sql_mod_pg vr lits m : (m = "%" \/ m = "mod") -> documented_sql vr DPg m lits anyargs.
Proof. intros M args r _ H.
  assert (spec_method mf mf2 m = spec_mod) as S by (destruct M as [->| ->]; reflexivity). rewrite S in H.
  assert (forall a b, fmt vr DPg m [a; b] = Some (QFun "MOD" [a; b])) as F by (intros; destruct M as [->| ->]; reflexivity).
  arity2 H args. unfold sql_eval, sql_eval_on. cbn [atoms_from]. rewrite F. clear F S M.
  destruct a as [ | | |q| | | ], b as [ | | |q0| | | ]; cbn in H; try discriminate H; try (inversion H; subst; finish).
  destruct (Qis_int q) eqn:Ip; [|discriminate H]. destruct (Qis_int q0) eqn:Iq; [|discriminate H].
  destruct (Qle_bool 0 q) eqn:Lp; [|discriminate H]. destruct (Qlt_bool 0 q0) eqn:Lq; [|discriminate H].
  cbn in H. inversion H; subst; clear H. cbn. rewrite Ip, Iq.
  destruct (Qeq_bool q0 0) eqn:Z0; [exfalso; q_lra|]. cbn.
  rewrite (rem_is_mod _ _ Ip Iq Lp Lq). eexists; split; [reflexivity | apply sv_eqv_refl]. Qed.
Lemma sql_remainder_pg vr lits : documented_sql vr DPg "remainder" lits anyargs.
Proof. intros args r _ H. change (spec_method mf mf2 "remainder") with spec_mod in H. arity2 H args.
  destruct a as [ | | |q| | | ], b as [ | | |q0| | | ]; cbn in H; try discriminate H; try (inversion H; subst; finish).
  destruct (Qis_int q) eqn:Ip; [|discriminate H]. destruct (Qis_int q0) eqn:Iq; [|discriminate H].
  destruct (Qle_bool 0 q) eqn:Lp; [|discriminate H]. destruct (Qlt_bool 0 q0) eqn:Lq; [|discriminate H].
  cbn in H. inversion H; subst; clear H. cbn.
  destruct (Qeq_bool (1 * q0) 0) eqn:Z0; [exfalso; q_lra|]. cbn.
  eexists; split; [reflexivity|]. apply sv_eqv_num. unfold qmodZ.
  rewrite <- (floor_formula_is_mod _ _ Ip Iq Lq). unfold qfloor.
  assert (q / (1 * q0) == q / q0)%Q as E. { apply Qlt_bool_true in Lq. field. lra. }
  rewrite (Qfloor_comp _ _ E). reflexivity. Qed.
(* ---------------------------------------------------------------- unary numeric methods *)
(* abs / sign: PostgreSQL always; SQLite on finite and missing arguments, and on every argument once repaired *)
Lemma sql_abs_pg vr lits : documented_sql vr DPg "abs" lits anyargs.
Proof. intros args r _ H. change (spec_method mf mf2 "abs") with spec_abs in H. arity1 H args. destruct a; solve_val H. Qed.
Lemma sql_sign_pg vr lits : documented_sql vr DPg "sign" lits anyargs.
Proof. intros args r _ H. change (spec_method mf mf2 "sign") with spec_sign in H. arity1 H args. destruct a; solve_val H. Qed.
Lemma sql_abs_sqlite vr lits : documented_sql vr DSqlite "abs" lits (fun l => fix_abs_sign vr || no_inf l).
Proof. intros args r G H. change (spec_method mf mf2 "abs") with spec_abs in H. arity1 H args.
  unfold sql_eval, sql_eval_on. cbn. destruct (fix_abs_sign vr); destruct a; cbn in G; try discriminate G; solve_val H. Qed.
Lemma sql_sign_sqlite vr lits : documented_sql vr DSqlite "sign" lits (fun l => fix_abs_sign vr || no_inf l).
Proof. intros args r G H. change (spec_method mf mf2 "sign") with spec_sign in H. arity1 H args.
  unfold sql_eval, sql_eval_on. cbn. destruct (fix_abs_sign vr); destruct a; cbn in G; try discriminate G; solve_val H. Qed.
Lemma sql_floor vr d lits : documented_sql vr d "floor" lits anyargs.
Proof. intros args r _ H. change (spec_method mf mf2 "floor") with spec_floor in H. arity1 H args. destruct d, a; solve_val H. Qed.
Lemma sql_ceil vr d lits : documented_sql vr d "ceil" lits anyargs.
Proof. intros args r _ H. change (spec_method mf mf2 "ceil") with spec_ceil in H. arity1 H args. destruct d, a; solve_val H. Qed.
Lemma sql_round vr d lits : documented_sql vr d "round" lits anyargs.
Proof. intros args r _ H. change (spec_method mf mf2 "round") with spec_round in H. arity1 H args.
  destruct a as [ | | |q| | | ]; cbn in H; try discriminate H; try (inversion H; subst; destruct d; finish).
  destruct (qtie q) eqn:T; [discriminate H|]. inversion H; subst; clear H.
  destruct d; cbn; eexists; (split; [reflexivity|]).
  - apply sv_eqv_num. apply round_half_away_nearest. exact T.
  - rewrite (round_half_even_nearest _ T). apply sv_eqv_refl. Qed.
(* ---------------------------------------------------------------- maximum / minimum / fmax / fmin *)
(* shipped: the two template shapes are exchanged, so each of the four is right exactly when no operand is missing;
   repaired: right on every argument *)
Lemma sql_maximum vr d lits : documented_sql vr d "maximum" lits (fun l => fix_maxmin vr || no_missing l).
Proof. intros args r G H. change (spec_method mf mf2 "maximum") with spec_maximum in H. arity2 H args.
  unfold sql_eval, sql_eval_on. cbn. destruct (fix_maxmin vr); destruct d, a, b; cbn in G; try discriminate G; solve_val H. Qed.
Lemma sql_minimum vr d lits : documented_sql vr d "minimum" lits (fun l => fix_maxmin vr || no_missing l).
Proof. intros args r G H. change (spec_method mf mf2 "minimum") with spec_minimum in H. arity2 H args.
  unfold sql_eval, sql_eval_on. cbn. destruct (fix_maxmin vr); destruct d, a, b; cbn in G; try discriminate G; solve_val H. Qed.
Lemma sql_fmax vr d lits : documented_sql vr d "fmax" lits (fun l => fix_maxmin vr || no_missing l).
Proof. intros args r G H. change (spec_method mf mf2 "fmax") with spec_fmax in H. arity2 H args.
  unfold sql_eval, sql_eval_on. cbn. destruct (fix_maxmin vr); destruct d, a, b; cbn in G; try discriminate G; solve_val H. Qed.
Lemma sql_fmin vr d lits : documented_sql vr d "fmin" lits (fun l => fix_maxmin vr || no_missing l).
Proof. intros args r G H. change (spec_method mf mf2 "fmin") with spec_fmin in H. arity2 H args.
  unfold sql_eval, sql_eval_on. cbn. destruct (fix_maxmin vr); destruct d, a, b; cbn in G; try discriminate G; solve_val H. Qed.

(* ---------------------------------------------------------------- if_else / where / coalesce *)
Lemma sql_if_else vr d lits : documented_sql vr d "if_else" lits anyargs.
Proof. intros args r _ H. change (spec_method mf mf2 "if_else") with spec_if_else in H. arity3 H args.
  destruct a as [ | |x| | | | ]; try discriminate H; [|destruct x]; inversion H; subst; clear H; destruct d; cbn; finish. Qed.
Lemma sql_where vr d lits : documented_sql vr d "where" lits anyargs.
Proof. intros args r _ H. change (spec_method mf mf2 "where") with spec_where in H. arity3 H args.
  destruct a as [ | |x| | | | ]; try discriminate H; [|destruct x]; inversion H; subst; clear H; destruct d; cbn; finish. Qed.
End SQL.
