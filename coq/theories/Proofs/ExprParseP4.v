(* Proofs/ExprParseP4.v -- C13, part 1 (end): calls, and walk_meaning for every tree. *)
From Coq Require Import List Bool String Ascii ZArith NArith QArith Arith Lia.
Import ListNotations.
From DA Require Import Model.PyExpr Model.ExprParse Model.ExprSem Proofs.ExprParseP1 Proofs.ExprParseP2 Proofs.ExprParseP3.
Local Close Scope Q_scope.
Local Open Scope string_scope.
Local Open Scope bool_scope.
Local Open Scope list_scope.

Lemma pn_funccall fsem cs vs gvs avs : py_node fsem "funccall" cs vs gvs avs =
  match cs with
  | [carrier; a] =>
      match carrier,
            (match a with
             | LNone => Some []
             | LNode ad _ => if ad ==s "arguments" then match avs with Some l => all_some l | None => None end else None
             | LTok _ => None
             end) with
      | LNode cd ccs, Some avals =>
          if cd ==s "getattr" then
            match ccs, gvs with
            | [_; LTok (TName m)], Some [Some self; _] =>
                if plain_method m (List.length avals) && negb (is_builtin_op m) then fsem m (self :: avals) else None
            | _, _ => None
            end
          else if cd ==s "var" then
            match ccs with
            | [LTok (TName f)] => if is_builtin_op f then None else fsem f avals
            | _ => None
            end
          else None
      | _, _ => None
      end
  | _ => None
  end.
Proof. reflexivity. Qed.

Lemma py_kinds fsem d cs vs g a v : py_node fsem d cs vs g a = Some v ->
  In d ["const_true"; "const_false"; "const_none"; "number"; "string"; "var"; "or_test"; "and_test"; "not";
        "comparison"; "arith_expr"; "term"; "factor"; "power"; "funccall"].
Proof. unfold py_node.
  destruct (d ==s "const_true") eqn:E1; [apply String.eqb_eq in E1; subst; simpl; tauto|].
  destruct (d ==s "const_false") eqn:E2; [apply String.eqb_eq in E2; subst; simpl; tauto|].
  destruct (d ==s "const_none") eqn:E3; [apply String.eqb_eq in E3; subst; simpl; tauto|].
  destruct (mem_str d ["number"; "string"; "var"]) eqn:M1; [apply mem_str_In in M1; simpl in *; tauto|].
  destruct (mem_str d ["or_test"; "and_test"]) eqn:M2; [apply mem_str_In in M2; simpl in *; tauto|].
  destruct (d ==s "not") eqn:E4; [apply String.eqb_eq in E4; subst; simpl; tauto|].
  destruct (d ==s "comparison") eqn:E5; [apply String.eqb_eq in E5; subst; simpl; tauto|].
  destruct (mem_str d ["arith_expr"; "term"]) eqn:M3; [apply mem_str_In in M3; simpl in *; tauto|].
  destruct (d ==s "factor") eqn:E6; [apply String.eqb_eq in E6; subst; simpl; tauto|].
  destruct (d ==s "power") eqn:E7; [apply String.eqb_eq in E7; subst; simpl; tauto|].
  destruct (d ==s "funccall") eqn:E8; [apply String.eqb_eq in E8; subst; simpl; tauto|].
  intros H; discriminate H. Qed.

Section Meaning.
Variables (c : cfg) (dd : list string) (fsem : fsem_t) (en : env).
Notation agrees := (agrees c dd fsem en).
Notation W := (walk c dd).
Notation P := (py_meaning fsem en).
Notation E := (eval fsem en).

Lemma args_agree a al avals :
  (forall ad acs x, a = LNode ad acs -> In x acs -> agrees x) ->
  call_args [a] (match a with LNode _ acs => Some (map W acs) | _ => None end) = Ok al ->
  (match a with
   | LNone => Some []
   | LNode ad _ =>
       if ad ==s "arguments"
       then match (match a with LNode _ acs => Some (map P acs) | _ => None end) with Some l => all_some l | None => None end
       else None
   | LTok _ => None
   end) = Some avals ->
  all_some (map E al) = Some avals /\ List.length al = List.length avals.
Proof. intros IH Hw Hp. destruct a as [t|ad acs|]; [discriminate Hp| |].
  - simpl in Hw. destruct (ad ==s "arguments"); [|discriminate Hp]. split.
    + apply (children_agree c dd fsem en acs); [intros x Hx; exact (IH ad acs x eq_refl Hx)|exact Hw|exact Hp].
    + apply all_ok_map_inv in Hw. apply all_some_map_inv in Hp.
      rewrite <- (Forall2_length_eq _ _ _ Hw). exact (Forall2_length_eq _ _ _ Hp).
  - simpl in Hw. inversion Hw; inversion Hp; subst. split; reflexivity. Qed.

Lemma case_funccall cs e v :
  (forall gd gcs x, In (LNode gd gcs) cs -> In x gcs -> agrees x) ->
  W (LNode "funccall" cs) = Ok e -> P (LNode "funccall" cs) = Some v -> E e = Some v.
Proof. intros IHg Hw Hp. rewrite walk_node_eq, wn_funccall in Hw. rewrite py_node_eq, pn_funccall in Hp.
  destruct cs as [|carrier [|a [|x cs]]]; try discriminate Hp.
  destruct carrier as [t|cd ccs|]; try discriminate Hp.
  cbn [List.length Nat.ltb Nat.leb] in Hw.
  match type of Hp with match ?A with Some _ => _ | None => _ end = _ => destruct A as [avals|] eqn:PA; [|discriminate Hp] end.
  destruct (cd ==s "getattr") eqn:Eg.
  - (* method call *)
    destruct ccs as [|o [|nm [|y ccs]]]; try discriminate Hp.
    2:{ destruct nm as [[m| | | | |]| |]; discriminate Hp. }
    destruct nm as [[m| | | | |]| |]; try discriminate Hp.
    cbn [map] in Hw, Hp.
    destruct (P o) as [selfv|] eqn:Po; [|discriminate Hp].
    destruct (plain_method m (List.length avals) && negb (is_builtin_op m)) eqn:Pl; [|discriminate Hp].
    apply andb_prop in Pl as [Pl Nb].
    destruct (W o) as [selfe|] eqn:Wo; [|discriminate Hw].
    cbn [tok_text] in Hw.
    match type of Hw with match ?A with Ok _ => _ | Err => _ end = _ => destruct A as [al|] eqn:WA; [|discriminate Hw] end.
    destruct (args_agree a al avals) as [HA HL].
    { intros ad acs z Ha Hz. apply (IHg ad acs z); [right; left; exact Ha|exact Hz]. }
    { exact WA. } { exact PA. }
    destruct (is_dunder m); [discriminate Hw|].
    rewrite <- HL in Pl. destruct (plain_call _ _ _ _ _ Pl Hw) as [i [me ->]].
    assert (Hs : E selfe = Some selfv). { apply (IHg cd [o; LTok (TName m)] o); [left; reflexivity|left; reflexivity|exact Wo|exact Po]. }
    rewrite (eval_EOp _ _ _ _ _ _ _ (selfv :: avals)); [|simpl; rewrite Hs, HA; reflexivity].
    unfold eval_op. rewrite Nb. exact Hp.
  - (* function call *)
    destruct (cd ==s "var") eqn:Ev; [|discriminate Hp]. cbn [negb] in Hw.
    destruct ccs as [|h [|y ccs]]; try discriminate Hp.
    2:{ destruct h as [[f| | | | |]| |]; discriminate Hp. }
    destruct h as [[f| | | | |]| |]; try discriminate Hp.
    destruct (is_builtin_op f) eqn:Nb; [discriminate Hp|].
    cbn [tok_text] in Hw.
    match type of Hw with match ?A with Ok _ => _ | Err => _ end = _ => destruct A as [al|] eqn:WA; [|discriminate Hw] end.
    destruct (args_agree a al avals) as [HA HL].
    { intros ad acs z Ha Hz. apply (IHg ad acs z); [right; left; exact Ha|exact Hz]. }
    { exact WA. } { exact PA. }
    apply mk_expr_Ok in Hw. subst e.
    rewrite (eval_EOp _ _ _ _ _ _ _ avals HA). unfold eval_op. rewrite Nb. exact Hp. Qed.

(* ---- every tree *)
Lemma walk_meaning_size : forall n t, lsize t < n -> agrees t.
Proof. induction n as [|n IHn]; intros t Hs; [lia|].
  destruct t as [tk|d cs|]; [apply agrees_tok| |intros e v Hw; discriminate Hw].
  assert (IHc : forall x, In x cs -> agrees x).
  { intros x Hx. apply IHn. pose proof (lsize_child d cs x Hx). lia. }
  assert (IHg : forall gd gcs x, In (LNode gd gcs) cs -> In x gcs -> agrees x).
  { intros gd gcs x Hg Hx. apply IHn.
    pose proof (lsize_child d cs _ Hg). pose proof (lsize_child gd gcs x Hx). lia. }
  intros e v Hw Hp. pose proof Hp as Hk. rewrite py_node_eq in Hk. apply py_kinds in Hk. simpl in Hk.
  destruct Hk as [<-|[<-|[<-|[<-|[<-|[<-|[<-|[<-|[<-|[<-|[<-|[<-|[<-|[<-|[<-|[]]]]]]]]]]]]]]]].
  - rewrite walk_node_eq in Hw. rewrite py_node_eq in Hp.
    change (Ok (EVal (PBool true)) = Ok e) in Hw. change (Some (PBool true) = Some v) in Hp.
    inversion Hw; inversion Hp; subst. reflexivity.
  - rewrite walk_node_eq in Hw. rewrite py_node_eq in Hp.
    change (Ok (EVal (PBool false)) = Ok e) in Hw. change (Some (PBool false) = Some v) in Hp.
    inversion Hw; inversion Hp; subst. reflexivity.
  - rewrite walk_node_eq in Hw. rewrite py_node_eq in Hp.
    change (Ok (EVal PNone) = Ok e) in Hw. change (Some PNone = Some v) in Hp.
    inversion Hw; inversion Hp; subst. reflexivity.
  - apply (case_var c dd fsem en "number" cs); [simpl; tauto|exact IHc|exact Hw|exact Hp].
  - apply (case_var c dd fsem en "string" cs); [simpl; tauto|exact IHc|exact Hw|exact Hp].
  - apply (case_var c dd fsem en "var" cs); [simpl; tauto|exact IHc|exact Hw|exact Hp].
  - exact (case_bool c dd fsem en true cs e v IHc Hw Hp).
  - exact (case_bool c dd fsem en false cs e v IHc Hw Hp).
  - exact (case_not c dd fsem en cs e v IHc Hw Hp).
  - exact (case_comparison c dd fsem en cs e v IHc Hw Hp).
  - apply (case_arith c dd fsem en "arith_expr" cs); [simpl; tauto|exact IHc|exact Hw|exact Hp].
  - apply (case_arith c dd fsem en "term" cs); [simpl; tauto|exact IHc|exact Hw|exact Hp].
  - exact (case_factor c dd fsem en cs e v IHc Hw Hp).
  - exact (case_power c dd fsem en cs e v IHc Hw Hp).
  - exact (case_funccall cs e v IHg Hw Hp). Qed.

Theorem walk_meaning t e v :
  walk c dd t = Ok e -> py_meaning fsem en t = Some v -> eval fsem en e = Some v.
Proof. exact (walk_meaning_size (S (lsize t)) t (Nat.lt_succ_diag_r _) e v). Qed.

Theorem parse_tree_meaning t e v :
  parse_tree c dd t = Ok e -> py_meaning fsem en t = Some v -> eval fsem en e = Some v.
Proof. unfold parse_tree. intros H. destruct (walk c dd t) as [e'|] eqn:Wt; [|discriminate H].
  destruct (is_term e'); [|discriminate H]. inversion H; subst. apply walk_meaning; assumption. Qed.

End Meaning.
