(* C12, part 7: the nodes that carry expressions (select_rows, extend, project) and record maps (convert_records). *)
From Coq Require Import List Bool String Ascii ZArith NArith QArith Arith Lia.
Import ListNotations.
From DA Require Import Base.PyRT Model.Equiv Gen.G_MergeOps Proofs.EquivP1 Proofs.EquivP2.
From DA Require Import Model.PyExpr Model.ExprPrint Model.ExprParse Model.ExprRoundtrip Model.PipePrintStr Model.PipePrintSyn Model.PipePrint.
From DA Require Import Proofs.ExprParseP14 Proofs.PipePrintP5 Proofs.PipePrintP6.
Local Close Scope Q_scope.
Local Open Scope string_scope.
Local Open Scope bool_scope.
Local Open Scope list_scope.

Section Builders2.
Variable E : penv.
Hypothesis unq : forall s, py_unquote (py_repr (e_np E) s) = Some s.
Hypothesis lexh : forall e, lexable e = true -> (forall m, In m (floats_of e) -> float_lex_ok (e_F E) m) ->
  lexg (e_F E) (expr_text (e_F E) (e_np E) e) = Some (to_python e).

Notation good := (good E).
Notation px_floats_ok := (px_floats_ok E).

(* ---- select_rows *)
Lemma select_rows_good s e : normal E (ESelectRows s e) = true -> px_floats_ok e -> good s -> good (ESelectRows s e).
Proof. cbn [normal]. intros H Fl G. split_andb.
  destruct (eval_expr_syn E unq lexh (ecolumn_names s) e) as [sx [t [X1 [X2 [X3 X4]]]]]; try assumption.
  eapply (meth_good E s "select_rows" [(None, sx)] [(None, YStr t)]); try eassumption; try reflexivity.
  - apply eval_args_cons; [exact X2|reflexivity].
  - cbn [wf_args forallb snd]. rewrite X4. reflexivity.
  - change (call_method_op E s "select_rows" [(None, YStr t)]) with (b_select_rows E s [(None, YStr t)]).
    unfold b_select_rows. rewrite X3.
    match goal with Hn : negb (is_trivial s) = true |- _ => apply negb_true_iff in Hn; rewrite (strip_trivial_id s Hn) end.
    repeat match goal with Hx : _ = true |- _ => rewrite Hx end. reflexivity.
  - intros ss Hs. cbn [syn_of_op]. rewrite Hs, X1. reflexivity. Qed.

(* ---- the assignment dict of extend / project *)
Definition ops_floats_ok (ops : list (string * pexpr)) : Prop := forall ke, In ke ops -> px_floats_ok (snd ke).

Lemma ops_print cols ops : ops_ok E cols ops = true -> ops_floats_ok ops ->
  exists sd vs, ops_syn E ops = Some sd /\ wf_syn sd = true
    /\ eval_syn E sd = Some (YDict (map (fun kw => (YStr (fst kw), snd kw)) vs))
    /\ map fst vs = map fst ops /\ parse_assignments E cols vs = Some ops.
Proof. unfold ops_ok. intros H Fl. split_andb.
  assert (P : exists kvs : list (string * syn), exists ts : list (string * pyv),
      mapM (fun ke : string * pexpr => option_map (fun v => (str_syn E (fst ke), v)) (expr_syn E (snd ke))) ops
        = Some (map (fun kv : string * syn => (str_syn E (fst kv), snd kv)) kvs)
      /\ forallb (fun kv : string * syn => wf_syn (snd kv)) kvs = true
      /\ Forall2 (fun kv kw => fst kv = fst kw /\ eval_syn E (snd kv) = Some (snd kw)) kvs ts
      /\ map fst ts = map fst ops
      /\ mapM (fun kv : string * pyv => match snd kv with
                                       | YStr t => option_map (fun x => (fst kv, x)) (parse_px E cols t)
                                       | _ => None
                                       end) ts = Some ops).
  { clear H H0. revert H1 Fl. induction ops as [|[k x] t IH]; intros Ho Fl.
    - exists [], []. repeat split; constructor.
    - cbn [forallb snd] in Ho. apply andb_true_iff in Ho. destruct Ho as [Hx Ht].
      destruct (IH Ht (fun ke I => Fl ke (or_intror I))) as [kvs [ts [M1 [M2 [M3 [M4 M5]]]]]].
      destruct (eval_expr_syn E unq lexh cols x Hx (Fl (k, x) (or_introl eq_refl))) as [sx [tx [X1 [X2 [X3 X4]]]]].
      exists ((k, sx) :: kvs), ((k, YStr tx) :: ts). repeat split.
      + cbn [mapM fst snd map]. rewrite X1. cbn [option_map]. rewrite M1. reflexivity.
      + cbn [forallb snd]. rewrite X4, M2. reflexivity.
      + constructor; [split; [reflexivity|exact X2]|exact M3].
      + cbn [map fst]. rewrite M4. reflexivity.
      + cbn [mapM fst snd]. rewrite X3. cbn [option_map]. rewrite M5. reflexivity. }
  destruct P as [kvs [ts [M1 [M2 [M3 [M4 M5]]]]]].
  exists (SDict false (map (fun kv : string * syn => (str_syn E (fst kv), snd kv)) kvs)), ts.
  split; [unfold ops_syn; rewrite M1; reflexivity|]. split; [apply wf_sdict; exact M2|].
  split; [apply (eval_sdict E unq); exact M3|]. split; [exact M4|].
  unfold parse_assignments. rewrite M5. match goal with Hd : disjointb _ _ = true |- _ => rewrite Hd end. reflexivity. Qed.

Lemma ops_ok_nodup cols ops : ops_ok E cols ops = true -> NoDup (map fst ops).
Proof. unfold ops_ok. intros H. split_andb. apply nodups_NoDup. assumption. Qed.

Lemma work_cga_list cols l : nodups l = true -> subset l cols = true -> work_cga cols (Some (YList (map YStr l))) = Some (CGlist l).
Proof. intros N S. cbn [work_cga as_strs]. rewrite mapM_as_str, N, S. reflexivity. Qed.
Lemma work_cga_opt cols l : nodups l = true -> subset l cols = true ->
  work_cga cols (if nonempty l then Some (YList (map YStr l)) else None) = Some (CGlist l).
Proof. intros N S. destruct l as [|x t]; [reflexivity|]. apply work_cga_list; assumption. Qed.

Lemma cga_list_pb_of w part : w = true \/ part = [] -> cga_list (pb_of w part) = part.
Proof. unfold pb_of. intros [->| ->]; [destruct part; reflexivity|destruct w; reflexivity]. Qed.

(* ---- extend *)
Lemma extend_good s ops part order rev w : normal E (EExtend s ops part order rev w) = true -> ops_floats_ok ops -> good s ->
  good (EExtend s ops part order rev w).
Proof. intros H Fl G. pose proof H as Hn. cbn [normal] in H. split_andb.
  destruct (ops_print (ecolumn_names s) ops) as [sd [vs [O1 [O2 [O3 [O4 O5]]]]]]; try assumption.
  set (D := YDict (map (fun kw : string * pyv => (YStr (fst kw), snd kw)) vs)) in *.
  set (A := [(None : option string, D)]
            ++ (if w then [(Some "partition_by", if nonempty part then YList (map YStr part) else YInt 1)] else [])
            ++ (if nonempty order then [(Some "order_by", YList (map YStr order))] else [])
            ++ (if nonempty rev then [(Some "reverse", YList (map YStr rev))] else [])).
  assert (Wp : w = true \/ part = []).
  { match goal with Hw : w || _ = true |- _ => destruct w; [left; reflexivity|right; cbn [orb] in Hw; split_andb] end.
    destruct part; [reflexivity|discriminate]. }
  assert (P1 : pos_args A = [D]) by (unfold A; destruct w, (nonempty order), (nonempty rev); reflexivity).
  assert (P2 : kws_ok ["partition_by"; "order_by"; "reverse"] A = true) by (unfold A; destruct w, (nonempty order), (nonempty rev); reflexivity).
  assert (P3 : work_cga (ecolumn_names s) (kwarg "partition_by" A) = Some (pb_of w part)).
  { replace (kwarg "partition_by" A) with (if w then Some (if nonempty part then YList (map YStr part) else YInt 1) else None)
      by (unfold A; destruct w, (nonempty order), (nonempty rev); reflexivity).
    unfold pb_of. destruct w; cbn [andb].
    - destruct part as [|p0 pt]; [reflexivity|]. cbn [nonempty negb]. apply work_cga_list; assumption.
    - destruct Wp as [Wp|Wp]; [discriminate|]. subst part. reflexivity. }
  assert (P4 : work_cga (ecolumn_names s) (kwarg "order_by" A) = Some (CGlist order)).
  { replace (kwarg "order_by" A) with (if nonempty order then Some (YList (map YStr order)) else None)
      by (unfold A; destruct w, (nonempty order), (nonempty rev); reflexivity).
    apply work_cga_opt; assumption. }
  assert (P5 : work_cga (ecolumn_names s) (kwarg "reverse" A) = Some (CGlist rev)).
  { replace (kwarg "reverse" A) with (if nonempty rev then Some (YList (map YStr rev)) else None)
      by (unfold A; destruct w, (nonempty order), (nonempty rev); reflexivity).
    apply work_cga_opt; assumption. }
  eapply (meth_good E s "extend"
            ([(None, sd)] ++ opt_arg w "partition_by" (if nonempty part then strs_syn E part else SAtom (TkInt 1))
               ++ opt_arg (nonempty order) "order_by" (strs_syn E order) ++ opt_arg (nonempty rev) "reverse" (strs_syn E rev)) A);
    try eassumption; try reflexivity.
  - unfold A. apply eval_args_app; [apply eval_args_cons; [exact O3|reflexivity]|].
    apply eval_args_app; [apply eval_opt_arg; destruct (nonempty part); [apply eval_strs; exact unq|reflexivity]|].
    apply eval_args_app; apply eval_opt_arg, eval_strs; exact unq.
  - rewrite !wf_args_app. cbn [wf_args forallb snd]. rewrite O2.
    rewrite !wf_opt_arg; try apply wf_strs; [reflexivity|]. destruct (nonempty part); [apply wf_strs|reflexivity].
  - change (call_method_op E s "extend" A) with (b_extend E s A). unfold b_extend. rewrite P1, P2.
    unfold D. rewrite as_sdict_distinct by (rewrite O4; eapply ops_ok_nodup; eassumption).
    rewrite O5. destruct ops as [|o0 ot]; [discriminate|]. rewrite P3, P4, P5, (cga_list_pb_of w part Wp).
    match goal with Ht : negb (is_trivial s) = true |- _ => apply negb_true_iff in Ht; rewrite (strip_trivial_id s Ht) end.
    repeat match goal with Hx : disjointb _ _ = true |- _ => rewrite Hx end.
    match goal with Hx : subset rev order = true |- _ => rewrite Hx end. cbn [andb].
    destruct (merge_candidate E s (o0 :: ot) (pb_of w part) order rev) as [[s0 no]|]; [discriminate|].
    unfold mk_extend. rewrite (cga_list_pb_of w part Wp).
    assert (Ww : windowed_of E (o0 :: ot) (cga_is_one (pb_of w part)) part order = w).
    { unfold windowed_of, pb_of. destruct w; cbn [andb].
      - destruct part; cbn [nonempty negb cga_is_one]; rewrite ?orb_true_r; reflexivity.
      - match goal with Hw : false || _ = true |- _ => cbn [orb] in Hw; split_andb end.
        repeat match goal with Hx : negb _ = true |- _ => apply negb_true_iff in Hx; rewrite Hx end. reflexivity. }
    rewrite Ww.
    repeat match goal with Hx : _ = true |- _ => rewrite Hx end. reflexivity.
  - intros ss Hs. cbn [syn_of_op]. rewrite Hs, O1. reflexivity. Qed.

(* ---- project *)
Lemma project_good s ops gb : normal E (EProject s ops gb) = true -> ops_floats_ok ops -> good s -> good (EProject s ops gb).
Proof. intros H Fl G. cbn [normal] in H. split_andb.
  destruct (ops_print (ecolumn_names s) ops) as [sd [vs [O1 [O2 [O3 [O4 O5]]]]]]; try assumption.
  set (D := YDict (map (fun kw : string * pyv => (YStr (fst kw), snd kw)) vs)) in *.
  set (A := [(None : option string, D)] ++ (if nonempty gb then [(Some "group_by", YList (map YStr gb))] else [])).
  assert (P1 : pos_args A = [D]) by (unfold A; destruct (nonempty gb); reflexivity).
  assert (P2 : kws_ok ["group_by"] A = true) by (unfold A; destruct (nonempty gb); reflexivity).
  assert (P3 : work_cga (ecolumn_names s) (kwarg "group_by" A) = Some (CGlist gb)).
  { replace (kwarg "group_by" A) with (if nonempty gb then Some (YList (map YStr gb)) else None)
      by (unfold A; destruct (nonempty gb); reflexivity).
    apply work_cga_opt; assumption. }
  eapply (meth_good E s "project" ([(None, sd)] ++ opt_arg (nonempty gb) "group_by" (strs_syn E gb)) A); try eassumption; try reflexivity.
  - unfold A. apply eval_args_app; [apply eval_args_cons; [exact O3|reflexivity]|]. apply eval_opt_arg, eval_strs; exact unq.
  - rewrite !wf_args_app. cbn [wf_args forallb snd]. rewrite O2, wf_opt_arg by apply wf_strs. reflexivity.
  - change (call_method_op E s "project" A) with (b_project E s A). unfold b_project. rewrite P1, P2.
    unfold D. rewrite as_sdict_distinct by (rewrite O4; eapply ops_ok_nodup; eassumption).
    rewrite O5, P3.
    match goal with Ht : negb (is_trivial s) = true |- _ => apply negb_true_iff in Ht; rewrite (strip_trivial_id s Ht) end.
    match goal with Hx : nonempty ops || nonempty gb = true |- _ =>
      replace (negb (nonempty ops) && negb (nonempty gb)) with false by (destruct (nonempty ops), (nonempty gb); try reflexivity; discriminate Hx) end.
    repeat match goal with Hx : _ = true |- _ => rewrite Hx end. reflexivity.
  - intros ss Hs. cbn [syn_of_op]. rewrite Hs, O1. reflexivity. Qed.

(* ---- convert_records *)
Definition cell_val (k : pyconst) : pyv := match k with KStr s => YStr s | _ => YNone end.
Definition cells_ok (cells : list pyconst) : bool := forallb (fun k => match k with KStr _ | KNone => true | _ => false end) cells.

Lemma cells_print cells : cells_ok cells = true ->
  exists sc, mapM (cell_syn E) cells = Some sc /\ forallb wf_syn sc = true
             /\ mapM (eval_syn E) sc = Some (map cell_val cells) /\ mapM as_cell (map cell_val cells) = Some cells.
Proof. induction cells as [|k t IH]; intros H; [exists []; repeat split|].
  cbn [cells_ok forallb] in H. apply andb_true_iff in H. destruct H as [Hk Ht]. destruct (IH Ht) as [sc [C1 [C2 [C3 C4]]]].
  destruct k as [|b|z|q| |str]; try discriminate.
  - exists (none_syn :: sc). cbn [mapM cell_syn map cell_val forallb as_cell]. rewrite C1, C2, C3, C4. repeat split.
  - exists (str_syn E str :: sc). cbn [mapM cell_syn map cell_val forallb as_cell]. rewrite C1, C2, C4.
    rewrite (eval_str E unq), C3. repeat split. Qed.

Definition frame_ok (fr : list (string * list pyconst)) : bool := forallb (fun cc => cells_ok (snd cc)) fr.

Lemma frame_print fr : frame_ok fr = true -> all_same_len fr = true -> nodups (map fst fr) = true -> fr <> [] ->
  exists sf, frame_syn E fr = Some sf /\ wf_syn sf = true /\ eval_syn E sf = Some (YFrame fr).
Proof. intros Fo Al Nd Ne.
  assert (P : exists kvs : list (string * syn), exists vs : list (string * pyv),
     mapM (fun cc : string * list pyconst => option_map (fun cells => (str_syn E (fst cc), SList cells)) (mapM (cell_syn E) (snd cc))) fr
       = Some (map (fun kv : string * syn => (str_syn E (fst kv), snd kv)) kvs)
     /\ forallb (fun kv : string * syn => wf_syn (snd kv)) kvs = true
     /\ Forall2 (fun kv kw => fst kv = fst kw /\ eval_syn E (snd kv) = Some (snd kw)) kvs vs
     /\ map fst vs = map fst fr /\ kvs <> []
     /\ mapM (fun kv : string * pyv => match snd kv with
                                      | YList cells => option_map (fun cs => (fst kv, cs)) (mapM as_cell cells)
                                      | _ => None
                                      end) vs = Some fr).
  { clear Al Nd. induction fr as [|[c cells] t IH]; [contradiction|].
    cbn [frame_ok forallb snd] in Fo. apply andb_true_iff in Fo. destruct Fo as [Fc Ft].
    destruct (cells_print cells Fc) as [sc [C1 [C2 [C3 C4]]]].
    assert (IH' : exists kvs vs,
       mapM (fun cc : string * list pyconst => option_map (fun cells => (str_syn E (fst cc), SList cells)) (mapM (cell_syn E) (snd cc))) t
         = Some (map (fun kv : string * syn => (str_syn E (fst kv), snd kv)) kvs)
       /\ forallb (fun kv : string * syn => wf_syn (snd kv)) kvs = true
       /\ Forall2 (fun kv kw => fst kv = fst kw /\ eval_syn E (snd kv) = Some (snd kw)) kvs vs
       /\ map fst vs = map fst t
       /\ mapM (fun kv : string * pyv => match snd kv with
                                        | YList cells => option_map (fun cs => (fst kv, cs)) (mapM as_cell cells)
                                        | _ => None
                                        end) vs = Some t).
    { destruct t as [|t0 tt]; [exists [], []; repeat split; constructor|].
      destruct (IH Ft) as [kvs [vs [M1 [M2 [M3 [M4 [_ M6]]]]]]]; [discriminate|]. exists kvs, vs. repeat split; assumption. }
    destruct IH' as [kvs [vs [M1 [M2 [M3 [M4 M6]]]]]].
    exists ((c, SList sc) :: kvs), ((c, YList (map cell_val cells)) :: vs). repeat split.
    - cbn [mapM fst snd map]. rewrite C1. cbn [option_map]. rewrite M1. reflexivity.
    - cbn [forallb snd wf_syn]. rewrite C2, M2. reflexivity.
    - constructor; [split; [reflexivity|]|exact M3]. cbn [snd]. rewrite eval_list, C3. reflexivity.
    - cbn [map fst]. rewrite M4. reflexivity.
    - discriminate.
    - cbn [mapM fst snd]. rewrite C4. cbn [option_map]. rewrite M6. reflexivity. }
  destruct P as [kvs [vs [M1 [M2 [M3 [M4 [M5 M6]]]]]]].
  exists (SCall ["pd"; "DataFrame"] [(None, SDict true (map (fun kv : string * syn => (str_syn E (fst kv), snd kv)) kvs))]).
  split; [unfold frame_syn; rewrite M1; reflexivity|]. split.
  - cbn [wf_syn nonempty_path forallb is_const_name smem existsb const_names String.eqb Ascii.eqb Bool.eqb negb andb orb snd].
    assert (W := wf_sdict E kvs M2). cbn [wf_syn] in W. apply andb_true_iff in W. destruct W as [W _]. rewrite W.
    destruct kvs; [contradiction|reflexivity].
  - rewrite eval_call. unfold eval_args. cbn [mapM fst snd]. rewrite (eval_sdict E unq true kvs vs M3). cbn [option_map].
    change (call_global ["pd"; "DataFrame"] [(None, YDict (map (fun kw : string * pyv => (YStr (fst kw), snd kw)) vs))])
      with (g_frame [(None, YDict (map (fun kw : string * pyv => (YStr (fst kw), snd kw)) vs))]).
    unfold g_frame. rewrite as_sdict_distinct by (rewrite M4; apply nodups_NoDup; exact Nd). rewrite M6, Al. reflexivity. Qed.

Lemma spec_print r : spec_ok r = true ->
  exists sr, spec_syn E r = Some sr /\ wf_syn sr = true /\ eval_syn E sr = Some (YSpec r).
Proof. unfold spec_ok. intros H. split_andb.
  assert (Ne : rs_control r <> []).
  { intros Em. match goal with Hx : Nat.leb 2 (List.length (rs_control r)) = true |- _ => rewrite Em in Hx; discriminate Hx end. }
  destruct (frame_print (rs_control r)) as [sf [F1 [F2 F3]]]; try assumption.
  set (A := [(Some "record_keys", YList (map YStr (rs_record_keys r))); (Some "control_table", YFrame (rs_control r));
             (Some "control_table_keys", YList (map YStr (rs_control_keys r))); (Some "strict", YBool (rs_strict r))]).
  exists (SCall ["data_algebra"; "cdata"; "RecordSpecification"]
      [(Some "record_keys", strs_syn E (rs_record_keys r)); (Some "control_table", sf);
       (Some "control_table_keys", strs_syn E (rs_control_keys r)); (Some "strict", bool_syn (rs_strict r))]).
  split; [unfold spec_syn; rewrite F1; reflexivity|]. split.
  - cbn [wf_syn nonempty_path forallb is_const_name smem existsb const_names String.eqb Ascii.eqb Bool.eqb negb andb orb snd].
    rewrite !wf_strs, F2. destruct (rs_strict r); reflexivity.
  - rewrite eval_call.
    assert (Ea : eval_args E [(Some "record_keys", strs_syn E (rs_record_keys r)); (Some "control_table", sf);
                              (Some "control_table_keys", strs_syn E (rs_control_keys r)); (Some "strict", bool_syn (rs_strict r))] = Some A).
    { unfold A. apply eval_args_cons; [apply eval_strs; exact unq|]. apply eval_args_cons; [exact F3|].
      apply eval_args_cons; [apply eval_strs; exact unq|]. apply eval_args_cons; [destruct (rs_strict r); reflexivity|reflexivity]. }
    rewrite Ea. change (call_global ["data_algebra"; "cdata"; "RecordSpecification"] A) with (g_spec A). unfold g_spec.
    change (pos_args A) with (@nil pyv). change (kws_ok ["record_keys"; "control_table"; "control_table_keys"; "strict"] A) with true.
    change (kwarg "control_table" A) with (Some (YFrame (rs_control r))). change (kwarg "strict" A) with (Some (YBool (rs_strict r))).
    change (kwarg "record_keys" A) with (Some (YList (map YStr (rs_record_keys r)))).
    change (kwarg "control_table_keys" A) with (Some (YList (map YStr (rs_control_keys r)))).
    cbv beta iota zeta. rewrite !as_strs1_list.
    assert (R1 : Nat.leb 1 (frame_rows (rs_control r)) = true).
    { match goal with Hx : Nat.leb 2 (frame_rows (rs_control r)) = true |- _ => apply Nat.leb_le in Hx; apply Nat.leb_le; lia end. }
    rewrite R1.
    repeat match goal with Hx : _ = true |- _ => rewrite Hx end. rewrite orb_true_r. destruct r; reflexivity. Qed.

Lemma opt_spec_print o : opt_spec_ok o = true ->
  exists so, opt_spec_syn E o = Some so /\ wf_syn so = true
    /\ eval_syn E so = Some (match o with Some r => YSpec r | None => YNone end).
Proof. destruct o as [r|]; intros H; [exact (spec_print r H)|]. exists none_syn. repeat split. Qed.

Lemma spec_rows r : spec_ok r = true -> Nat.leb (frame_rows (rs_control r)) 1 = false.
Proof. unfold spec_ok. intros H. split_andb.
  match goal with Hx : Nat.leb 2 (frame_rows (rs_control r)) = true |- _ => apply Nat.leb_le in Hx; apply Nat.leb_gt; lia end. Qed.

Lemma convert_good s rm : normal E (EConvert s rm) = true -> good s -> good (EConvert s rm).
Proof. cbn [normal]. intros H G. split_andb.
  destruct (opt_spec_print (rm_in rm)) as [si [I1 [I2 I3]]]; [assumption|].
  destruct (opt_spec_print (rm_out rm)) as [so [U1 [U2 U3]]]; [assumption|].
  set (sm := SCall ["data_algebra"; "cdata"; "RecordMap"] [(Some "blocks_in", si); (Some "blocks_out", so); (Some "strict", bool_syn (rm_strict rm))]).
  assert (Rm : recmap_syn E rm = Some sm) by (unfold recmap_syn; rewrite I1, U1; reflexivity).
  assert (Wm : wf_syn sm = true).
  { unfold sm. cbn [wf_syn nonempty_path forallb is_const_name smem existsb const_names String.eqb Ascii.eqb Bool.eqb negb andb orb snd].
    rewrite I2, U2. destruct (rm_strict rm); reflexivity. }
  assert (Em : eval_syn E sm = Some (YMap rm)).
  { unfold sm. rewrite eval_call.
    set (A := [(Some "blocks_in", match rm_in rm with Some r => YSpec r | None => YNone end);
               (Some "blocks_out", match rm_out rm with Some r => YSpec r | None => YNone end); (Some "strict", YBool (rm_strict rm))]).
    assert (Ea : eval_args E [(Some "blocks_in", si); (Some "blocks_out", so); (Some "strict", bool_syn (rm_strict rm))] = Some A).
    { unfold A. apply eval_args_cons; [exact I3|]. apply eval_args_cons; [exact U3|].
      apply eval_args_cons; [destruct (rm_strict rm); reflexivity|reflexivity]. }
    rewrite Ea. change (call_global ["data_algebra"; "cdata"; "RecordMap"] A) with (g_recmap A). unfold g_recmap.
    change (pos_args A) with (@nil pyv). change (kws_ok ["blocks_in"; "blocks_out"; "strict"] A) with true.
    change (kwarg "blocks_in" A) with (Some (match rm_in rm with Some r => YSpec r | None => YNone end)).
    change (kwarg "blocks_out" A) with (Some (match rm_out rm with Some r => YSpec r | None => YNone end)).
    change (kwarg "strict" A) with (Some (YBool (rm_strict rm))).
    destruct rm as [ri ro rs]. cbn [rm_in rm_out rm_strict] in *.
    destruct ri as [ri|], ro as [ro|]; cbn [opt_spec_ok] in *; rewrite ?spec_rows by assumption; try reflexivity. discriminate. }
  eapply (meth_good E s "convert_records" [(None, sm)] [(None, YMap rm)]); try eassumption; try reflexivity.
  - apply eval_args_cons; [exact Em|reflexivity].
  - cbn [wf_args forallb snd]. rewrite Wm. reflexivity.
  - change (call_method_op E s "convert_records" [(None, YMap rm)]) with (b_convert_records s [(None, YMap rm)]).
    unfold b_convert_records.
    match goal with Ht : negb (is_trivial s) = true |- _ => apply negb_true_iff in Ht; rewrite (strip_trivial_id s Ht) end.
    repeat match goal with Hx : _ = true |- _ => rewrite Hx end. reflexivity.
  - intros ss Hs. cbn [syn_of_op]. rewrite Hs, Rm. reflexivity. Qed.

End Builders2.
